(* Semantic correctness of the lowering of STATEMENTS, for the REPAIRED compiler model
   (cfg_fx = all_fixes): whenever C11 (sem/CSem.v, cexec / cexecs) executes a statement (list) of the
   fragment [sfrag] / [sfrags] from a state cs to a state cs', the emitted RzIL effect -- the effect
   items returned by Lower.lower_stmt / Lower.lower_stmts, sequenced and finalised exactly as
   Lower.tlower_info does -- runs (sem/RzIL.v, exec) from every related machine state ms to a state
   ms' related to cs'.  Source order of effects and the C condition of every branch are thereby
   proved for every program of the fragment, every pair of related states, without any bound on the
   length of sequences or the nesting depth.  Builds on proofs/ExprCorrect.v (pure expressions).

   The fragment ([sfrag rw IM D V s D' V'], D / D' = the DECLARED locals before / after, V / V' = those of them that
   have a value (ExprCorrect.vext V D), IM = the immediate letters the behaviour uses, rw = the width the machine
   gives every operand handle):
     RdV = e;  RxxV = e;  PdV = e; ...   assignment of a pfrag expression to a destination register operand
     HEX_REG_ALIAS_<n> = e;              assignment to one of the 17 aliased control registers (ExprCorrect.alias_names)
     P0 = e;  ... P3, R29, R30, R31      assignment to an explicitly named register (fWRITE_P0(e); ExprCorrect.expl_names;
                                         premise ExprCorrect.xi_ok: the C semantics is given the table of these registers)
     riV = e;                            assignment to an immediate (fPCALIGN: riV = riV & ~3)
     RxV += e;  -= *= &= |= ^= <<= >>=   compound assignment to a register operand
     x = e;   x += e;  -= *= &= |= ^= <<= >>=   assignment / compound assignment to a declared integer local that has a value
     T x = e;                            declaration with initialiser of a FRESH name
     T x;   ...   x = e;                 declaration without initialiser; the FIRST assignment gives the value
                                         (also in both arms of an if / else)
     EA = e;  i = e;  j = e;  k = e;     first assignment of an implicitly declared name (uint32_t)
     mem_store_<s|u><w>(a, v);           memory store
     JUMP(e);                            jump (the RzIL locals jump_flag / jump_target mirror C's jump state)
     cancel_slot;  STORE_SLOT_CANCELLED(a, b);     (CSem gives these no meaning: the simulation is vacuous on the
                                         paths that execute them; the lowering itself and all other paths are proved)
     ;   NOP   {}   { s1 ... sn }        empty statements, blocks and sequences of any length
     if (e) s1   if (e) s1 else s2       with pfrag condition and declaration-free branches of the fragment
     for (i = e0; c; i++) body           (also i--): i a 32 bit local with a value after the initialisation, c a pfrag
                                         condition, body a loop-free statement of the fragment that declares nothing.
                                         The compiler turns i++ into a pending "hybrid" effect (temporary h_tmp<n> :=
                                         i; i := INC(i)) that chk_hybrid_dep sequences after the body; the theorem
                                         covers every number of iterations (induction on CSem's loop, RzIL REPEAT).
   where the expressions e (ExprCorrect.pfrag) read declared locals, literals, SOURCE REGISTER operands
   (RsV RtV RuV RvV RwV, read-write RxV RyV RzV, pairs RssV .. RxxV, classes R P C M), DESTINATION
   operands read back (RdV ReV RddV: the value written so far, else 0), .new operands (PuN NsN ...),
   IMMEDIATES (siV uiV ...), aliased control registers and the PC alias, explicitly named registers (P0 .. P3, R29 .. R31), memory loads under a cast, the pure
   macros (extract / sextract / deposit / bswap) and sizeof.
   Main results: [stmt_correct] (lower_stmt), [stmts_correct] (lower_stmts), [tlower_correct] and
   [tlower_correct_fuel] (tlower_info / tlower, including the final wrapping: the immediate prologue and
   the finalisation of register operands against the final register table; the final hybrid counter h' is
   cfg_hstart plus the number of loops), [Example.prog_simulated],
   [Example.prog2_simulated] (registers and an immediate), [Example.prog3_simulated] (predicates, pairs, .new),
   [Example.prog4_simulated] (a local named like an unused immediate letter), [Example.prog5_simulated] (accumulate).

   Outside the fragment, and why (see also Example.redeclaration_counterexample,
   Example.imm_local_clash_refuted, Example.nreg_not_new_refuted):
   - declarations inside the branches of an `if` or inside a loop body: the model's variable table is flat and keeps
     such a variable, while at run time it is not declared when the branch / body did not run;
   - re-declaration of a name: the model mistranslates it (counterexample below);
   - a local named like an immediate the behaviour uses, or like a compiler temporary h_tmp<n> (the fragment is
     parametrised by the set of letters IM; im_ok IM excludes the names jump_flag, jump_target, h_tmp...): the model
     keeps immediates, temporaries and locals in one table and confuses them (counterexample below);
   - loops inside a loop body, loop variables that are not 32 bits wide, while / do loops (the model rejects those),
     ++ / -- anywhere but as the step of a for loop, /= %= (the repaired and the real translation differ: D19),
     compound assignment to aliases / explicit registers, statement expressions, calls of sub-routines as values. *)
From Coq Require Import ZArith NArith List Bool String Ascii Lia.
From RZ.lib Require Import BV PyHeap.
From RZ.sem Require Import RzIL CSem.
From RZ.gen Require Import TypeRules.
From RZ.model Require Import Ast Types OpTables Lower.
From RZ.proofs Require Import SeqLaws SortSound ExprCorrect.
Import ListNotations.
Local Open Scope string_scope.
Local Open Scope Z_scope.
Local Open Scope list_scope.

(* ================================================================== Layer 0: arithmetic *)
(* ------------------------------------------------------------------ truncation to a narrower width *)
Lemma wrap_wrap_le w W z : okw w -> okw W -> (w <= W)%N -> wrap w (wrap W z) = wrap w z.
Proof.
  intros Hw HW Hle. unfold wrap. okw_cases Hw; okw_cases HW; try (exfalso; lia); norm_w; lia.
Qed.

Lemma wrap_interp_le s w W z : okw w -> okw W -> (w <= W)%N -> wrap w (interp (s, W) z) = wrap w z.
Proof.
  intros Hw HW Hle. rewrite <- (wrap_wrap_le w W (interp (s, W) z)) by assumption.
  rewrite wrap_interp. apply wrap_wrap_le; assumption.
Qed.

Lemma wrap_vint_conv w t c : okw w -> okw (snd t) -> (w <= snd t)%N -> wrap w (vint (conv t c)) = wrap w (vint c).
Proof.
  intros Hw HW Hle. destruct t as [s W]. unfold conv, mkval, vint at 1. cbn [fst snd] in *.
  rewrite wrap_interp_le by assumption. apply wrap_wrap_le; assumption.
Qed.

Lemma wrap_snd_conv w t c : okw w -> okw (snd t) -> (w <= snd t)%N -> wrap w (snd (conv t c)) = wrap w (vint c).
Proof. intros Hw HW Hle. unfold conv, mkval. cbn [snd]. apply wrap_wrap_le; assumption. Qed.

Lemma conv_trunc sg w s W Y : okw w -> okw W -> (w <= W)%N -> conv (sg, w) ((s, W), wrap W Y) = ((sg, w), wrap w Y).
Proof.
  intros Hw HW Hle. unfold conv, mkval, vint. cbn [fst snd]. f_equal.
  rewrite wrap_interp_le by assumption. apply wrap_wrap_le; assumption.
Qed.

Lemma promote_ge sg w : okw w -> (w <= snd (promote (sg, w)))%N.
Proof. intros H. okw_cases H; vm_compute; discriminate. Qed.

Lemma uac_ge s1 w1 s2 w2 : okw w1 -> okw w2 ->
  (w1 <= snd (uac (s1, w1) (s2, w2)))%N /\ (w2 <= snd (uac (s1, w1) (s2, w2)))%N.
Proof. intros H1 H2. okw_cases H1; okw_cases H2; destruct s1, s2; vm_compute; split; discriminate. Qed.

Definition ring_fun (f : Z -> Z -> Z) : Prop := f = Z.add \/ f = Z.sub \/ f = Z.mul.
Lemma ring_fun_wrap f w a b a' b' : ring_fun f -> wrap w a = wrap w a' -> wrap w b = wrap w b' ->
  wrap w (f a b) = wrap w (f a' b').
Proof.
  intros [-> | [-> | ->]] Ha Hb.
  - rewrite (wrap_add w a b), (wrap_add w a' b'), Ha, Hb. reflexivity.
  - rewrite (wrap_sub w a b), (wrap_sub w a' b'), Ha, Hb. reflexivity.
  - rewrite (wrap_mul w a b), (wrap_mul w a' b'), Ha, Hb. reflexivity.
Qed.

(* x op= e : computing in the promoted type of x with e first converted to the type of x (what the
   compiler emits) agrees, after the final conversion to the type of x, with C's computation in the
   common type of x and e *)
Lemma compound_value sg w v0 vr f : okw w -> wfc vr -> ring_fun f ->
  conv (sg, w) (c_arith f ((sg, w), v0) vr) =
  conv (sg, w) (promote (sg, w),
                wrap (snd (promote (sg, w)))
                     (f (snd (conv (promote (sg, w)) ((sg, w), v0)))
                        (snd (conv (promote (sg, w)) (conv (sg, w) vr))))).
Proof.
  intros Hw [Hwr _] Hf. destruct vr as [[sr wr] zr]. cbn [fst snd] in Hwr.
  pose proof (promote_okw sg w Hw) as Hpw. pose proof (promote_ge sg w Hw) as Hpg.
  pose proof (promote_okw sr wr Hwr) as Hprw.
  unfold c_arith. cbn [fst]. unfold arith_ty.
  destruct (promote (sg, w)) as [sp wp] eqn:Ep. destruct (promote (sr, wr)) as [spr wpr] eqn:Epr. cbn [fst snd] in *.
  pose proof (uac_okw sp wp spr wpr Hpw Hprw) as Htw. pose proof (uac_ge sp wp spr wpr Hpw Hprw) as [Htg _].
  destruct (uac (sp, wp) (spr, wpr)) as [st wt] eqn:Et. cbn [fst snd] in *.
  assert (Hwt : (w <= wt)%N) by lia.
  unfold mkval. cbn [snd]. rewrite !conv_trunc by assumption. f_equal.
  apply ring_fun_wrap; [exact Hf| |].
  - rewrite (wrap_vint_conv w (st, wt)) by assumption. rewrite (wrap_snd_conv w (sp, wp)) by assumption. reflexivity.
  - rewrite (wrap_vint_conv w (st, wt)) by assumption. rewrite (wrap_snd_conv w (sp, wp)) by assumption.
    rewrite (wrap_vint_conv w (sg, w)) by (cbn [snd]; auto; lia). reflexivity.
Qed.

(* x &= e;  x |= e;  x ^= e : the bitwise operators commute with truncation, so computing at the type of x with e first
   converted to the type of x (what the compiler emits) agrees with C's computation in the common type *)
Definition bit_fun3 (f : Z -> Z -> Z) : Prop := f = Z.land \/ f = Z.lor \/ f = Z.lxor.

Lemma wrap_bit f w a b : bit_fun3 f -> wrap w (f a b) = f (wrap w a) (wrap w b).
Proof.
  intros Hf. unfold wrap, pow2. apply Z.bits_inj'. intros n Hn.
  assert (H0 : 0 <= Z.of_N w) by lia.
  destruct (Z.ltb_spec n (Z.of_N w)) as [Hlt | Hge].
  - rewrite Z.mod_pow2_bits_low by lia.
    destruct Hf as [-> | [-> | ->]]; rewrite ?Z.land_spec, ?Z.lor_spec, ?Z.lxor_spec, !Z.mod_pow2_bits_low by lia; reflexivity.
  - rewrite Z.mod_pow2_bits_high by lia.
    destruct Hf as [-> | [-> | ->]]; rewrite ?Z.land_spec, ?Z.lor_spec, ?Z.lxor_spec, !Z.mod_pow2_bits_high by lia; reflexivity.
Qed.

Lemma bit_compound_value sg w v0 vr f : okw w -> wfc vr -> bit_fun3 f -> 0 <= v0 < pow2 w ->
  conv (sg, w) (c_bitop f ((sg, w), v0) vr) = ((sg, w), f v0 (snd (conv (sg, w) vr))).
Proof.
  intros Hw [Hwr _] Hf Hv0. destruct vr as [[sr wr] zr]. cbn [fst snd] in Hwr.
  pose proof (promote_okw sg w Hw) as Hpw. pose proof (promote_ge sg w Hw) as Hpg.
  pose proof (promote_okw sr wr Hwr) as Hprw.
  unfold c_bitop. cbn [fst]. unfold arith_ty.
  destruct (promote (sg, w)) as [sp wp] eqn:Ep. destruct (promote (sr, wr)) as [spr wpr] eqn:Epr. cbn [fst snd] in *.
  pose proof (uac_okw sp wp spr wpr Hpw Hprw) as Htw. pose proof (uac_ge sp wp spr wpr Hpw Hprw) as [Htg _].
  destruct (uac (sp, wp) (spr, wpr)) as [st wt] eqn:Et. cbn [fst snd] in *.
  assert (Hwt : (w <= wt)%N) by lia.
  unfold mkval. cbn [snd]. rewrite conv_trunc by assumption. f_equal.
  rewrite (wrap_bit f w _ _ Hf). f_equal.
  - unfold conv, mkval, vint. cbn [fst snd]. rewrite wrap_wrap_le by assumption. rewrite wrap_interp. apply wrap_small. exact Hv0.
  - unfold conv, mkval. cbn [fst snd]. rewrite wrap_wrap_le by assumption. reflexivity.
Qed.

Lemma bit_fun3_range f w x y : bit_fun3 f -> okw w -> 0 <= x < pow2 w -> 0 <= y < pow2 w -> 0 <= f x y < pow2 w.
Proof. intros [-> | [-> | ->]]; auto using land_range, lor_range, lxor_range. Qed.

(* ================================================================== Layer 1: finalisation (Lower.fin_eff) and evaluation *)
Section Fin.
  Variable rw : regwidth.
  Variable R : list (string * reginfo).
  Variable rem : list string.

  (* [eval] is strict in every sub-term and undefined on PRaw: finalisation, which only rewrites PRaw
     leaves, cannot change the value of a term that has one *)
  Lemma fin_pure_eval s : forall p lets v,
    eval rw s lets p = Some v -> eval rw s lets (fin_pure R rem p) = Some v.
  Proof.
    intros p. induction p using pure_ind'; intros lets v0 Hev; cbn [fin_pure]; try exact Hev;
    try (cbn [eval] in Hev |- *;
         repeat (match type of Hev with
                 | match eval ?rw0 ?s0 ?l ?a with _ => _ end = _ =>
                     let Ea := fresh "Ea" in
                     destruct (eval rw0 s0 l a) eqn:Ea; [ | discriminate Hev];
                     match goal with IH : forall lets v, eval _ _ lets a = Some v -> _ |- _ => rewrite (IH _ _ Ea) end
                 | match ?x with _ => _ end = _ => is_var x; destruct x; cbv beta iota in Hev |- *; try discriminate Hev
                 end);
         first [exact Hev | eauto]).
    - (* PApp *)
      match goal with HF0 : Forall _ _ |- _ => rename HF0 into HF end.
      cbn [eval fin_pure] in Hev |- *. revert Hev. generalize (@nil val) as acc.
      induction HF as [|x l Hx HF IHl]; intros acc Hgo; cbn [map].
      + exact Hgo.
      + destruct (eval rw s lets x) eqn:Ex; [|discriminate Hgo]. rewrite (Hx _ _ Ex). apply IHl. exact Hgo.
    - (* PRaw *) discriminate Hev.
  Qed.

  Lemma fin_eff_seqn l : fin_eff R rem (seqn l) = seqn (map (fin_eff R rem) l).
  Proof.
    induction l as [|e t IH]; [reflexivity|].
    destruct t as [|e2 t]; [reflexivity|].
    change (seqn (e :: e2 :: t)) with (ESeq e (seqn (e2 :: t))). cbn [fin_eff]. rewrite IH. reflexivity.
  Qed.
End Fin.

(* ================================================================== Layer 2: the register table of the model state *)
(* (the table invariants regs_ok / regs_le / st_ext and Lower.lower_reg are treated in ExprCorrect) *)
Lemma st_ext_pending s s' : st_ext s s' -> st_pending s = [] -> st_pending s' = [].
Proof. intros [H _] Hp. congruence. Qed.
Lemma st_ext_regs s s' : st_ext s s' -> regs_le (st_regs s) (st_regs s').
Proof. intros H. apply H. Qed.
Lemma st_ext_imms s s' : st_ext s s' -> incl (st_imms s) (st_imms s').
Proof. intros H. apply H. Qed.
Lemma st_ext_nonempty s s' : st_ext s s' -> st_nonempty s = true -> st_nonempty s' = true.
Proof. intros H. apply H. Qed.
Lemma lst_ok_regs_ok IM V st : lst_ok IM V st -> regs_ok (st_regs st).
Proof. intros H. apply H. Qed.

Lemma add_write_property_ok name st : regs_ok (st_regs st) -> name <> "pc" ->
  exists st', add_write_property name st = OK (tt, st') /\
    st_vars st' = st_vars st /\ st_imms st' = st_imms st /\ st_ext st st' /\ regs_ok (st_regs st').
Proof.
  intros Hr Hnpc. unfold add_write_property, bind, get.
  destruct (lookup_reg_info name (st_regs st)) as [ri|] eqn:El.
  - set (acc' := match r_acc ri with
                 | AR => ARW | APR => APRW
                 | AUnknown => if String.eqb (first_char name) "P" then APW else AW
                 | a => a end).
    assert (Hpc : r_pc ri = false).
    { destruct (Hr _ _ El) as [[c [l [a [nw [_ [_ [_ [_ [_ [H6 _]]]]]]]]]] | [[nm [nw [_ [_ [_ [_ [H5 _]]]]]]] | [[Hn _] | [nm [nw [_ [_ [_ [_ [H5 _]]]]]]]]]]; [exact H6 | exact H5 | contradiction | exact H5]. }
    assert (Hle : acc_le (r_pc ri) (r_acc ri) acc').
    { unfold acc_le, acc'. rewrite Hpc. destruct (r_acc ri); try (right; split; [reflexivity | intros _; discriminate]). left. auto. }
    eexists. split; [reflexivity|]. cbn [st_vars st_regs st_imms].
    split; [reflexivity|]. split; [reflexivity|].
    split.
    + unfold st_ext; cbn [st_pending st_hcount st_imms st_removed st_nonempty st_regs]. repeat split; auto using incl_refl, N.le_refl.
      intros n r H. rewrite lookup_reg_info_update, H.
      destruct (String.eqb_spec name n) as [<-|_]; [|exists r; auto using acc_le_refl].
      rewrite El in H. injection H as <-. eexists. split; [reflexivity|]. cbn [r_op r_pc r_new r_acc]. fold acc'. auto.
    + intros n r. rewrite lookup_reg_info_update. destruct (lookup_reg_info n (st_regs st)) as [r0|] eqn:Eln; [|discriminate].
      destruct (String.eqb_spec name n) as [<-|_].
      * intros H; injection H as <-. rewrite El in Eln. injection Eln as <-.
        destruct (Hr _ _ El) as [[c [l [a [nw [H1 [H2 [H3 [H4 [H5 [H6 [H7 [H8 H9]]]]]]]]]]]] | [[nm [nw [H1 [H2 [H3 [H4 [H5 H6]]]]]]] | [[Hn _] | [nm [nw [H1 [H2 [H3 [H4 [H5 H6]]]]]]]]]].
        -- left. exists c, l, a, nw. cbn [r_op r_ty r_pc r_new r_acc]. fold acc'.
           destruct Hle as [[_ Hu] | [Hw Hn]]; [contradiction|]. rewrite Hw. auto 12.
        -- right. left. exists nm, nw. cbn [r_op r_ty r_pc r_new r_acc]. auto 10.
        -- contradiction.
        -- right. right. right. exists nm, nw. cbn [r_op r_ty r_pc r_new r_acc]. auto 10.
      * intros H; injection H as <-. exact (Hr _ _ Eln).
  - exists st. split; [reflexivity|]. split; [reflexivity|]. split; [reflexivity|]. split; [apply st_ext_refl | exact Hr].
Qed.

(* the destination handle of an assignment, finalised *)
Lemma fin_op_dest R rem regs cls letters acc ri : dest_cls cls -> access_of_letters letters = Some acc -> regs_ok regs ->
  lookup_reg_info (rname cls letters false) regs = Some ri -> regs_le regs R -> norem rem ->
  fin_op R rem (RParam ("$reg:" +++ rname cls letters false)) = RIsa cls (substring 0 1 letters) false.
Proof.
  intros Hc Ha Hr Hl Hle Hrem. unfold fin_op. rewrite reg_name_of_reg. unfold reg_handle.
  destruct (Hle _ _ Hl) as [ri' [L' [O' [P' _]]]]. rewrite L', Hrem.
  destruct (entry_isa _ _ cls letters false (Hr _ _ Hl) (reg_cls_any false _ (or_introl Hc)) (access_in_table _ _ Ha) eq_refl)
    as [cls' [l' [acc' [new' [Hc' [Ha' [Hn [Ho [_ [Hp _]]]]]]]]]].
  destruct (rname_inj _ _ _ _ _ _ (reg_cls_any false _ (or_introl Hc)) (reg_cls_any _ _ Hc') (access_in_table _ _ Ha) (access_in_table _ _ Ha') Hn)
    as [<- [<- <-]].
  rewrite P', Hp, O', Ho. apply rop_dest. exact Hc.
Qed.
Lemma alias_op_not_pc name new : In name alias_names -> regop_eqb pc_op (alias_op name new) = false.
Proof.
  intros H. cbn [alias_names In] in H. repeat (destruct H as [<- | H]; [destruct new; reflexivity|]). contradiction.
Qed.
(* ... of an assignment to an alias *)
Lemma fin_op_alias R rem regs name new ri : In name alias_names -> regs_ok regs ->
  lookup_reg_info (alias_tname name new) regs = Some ri -> regs_le regs R -> norem rem ->
  fin_op R rem (RParam ("$reg:" +++ alias_tname name new)) = alias_op name new.
Proof.
  intros Hin Hr Hl Hle Hrem. unfold fin_op. rewrite reg_name_of_reg. unfold reg_handle.
  destruct (Hle _ _ Hl) as [ri' [L' [O' [P' _]]]]. rewrite L', Hrem.
  destruct (entry_alias _ _ name new (Hr _ _ Hl) Hin eq_refl) as [nm [nw [Hin' [Hn [Ho [_ [Hp _]]]]]]].
  destruct (alias_tname_inj _ _ _ _ Hin Hin' Hn) as [<- <-].
  rewrite P', Hp, O', Ho. reflexivity.
Qed.

Lemma expl_op_not_pc name new : In name expl_names -> regop_eqb pc_op (expl_op name new) = false.
Proof.
  intros H. destruct (expl_facts name new H) as [_ [Hx _]]. destruct (expl_op name new); try discriminate Hx. reflexivity.
Qed.
(* ... of an assignment to an explicit register *)
Lemma fin_op_expl R rem regs name new ri : In name expl_names -> regs_ok regs ->
  lookup_reg_info (expl_tname name new) regs = Some ri -> regs_le regs R -> norem rem ->
  fin_op R rem (RParam ("$reg:" +++ expl_tname name new)) = expl_op name new.
Proof.
  intros Hin Hr Hl Hle Hrem. unfold fin_op. rewrite reg_name_of_reg. unfold reg_handle.
  destruct (Hle _ _ Hl) as [ri' [L' [O' [P' _]]]]. rewrite L', Hrem.
  destruct (entry_expl _ _ name new (Hr _ _ Hl) Hin eq_refl) as [nm [nw [Hin' [Hn [Ho [_ [Hp _]]]]]]].
  destruct (expl_tname_inj _ _ _ _ Hin Hin' Hn) as [<- <-].
  rewrite P', Hp, O', Ho. reflexivity.
Qed.

(* ================================================================== Layer 3: the state relation for statements *)
(* [rel] of ExprCorrect (every declared integer local holds the same in-range value on both sides; the
   registers written so far are the same list; same operand environment), and: the IL state has no local
   the model does not know as declared, except the two locals JUMP sets, which mirror the C jump state,
   and the locals of the immediates, which hold the encoded immediate once the prologue has set them;
   none of these is the name of a declared variable; the bytes stored so far are the same list on both
   sides; the C routine has not returned *)
Definition reserved (IM : string -> bool) (x : string) : Prop :=
  x = "jump_flag" \/ x = "jump_target" \/ IM x = true \/ imm_cname x = true \/ is_htmp x = true.
(* the two locals of JUMP are not immediate letters *)
Definition im_ok (IM : string -> bool) : Prop :=
  IM "jump_flag" = false /\ IM "jump_target" = false /\ (forall x, is_htmp x = true -> IM x = false).
(* decided for an explicit list of letters *)
Definition im_ok_l (ls : list string) : bool :=
  forallb (fun l => negb (String.eqb l "jump_flag") && negb (String.eqb l "jump_target") && negb (is_htmp l)) ls.
Lemma im_ok_l_iff ls : im_ok_l ls = true <-> im_ok (fun l => existsb (String.eqb l) ls).
Proof.
  unfold im_ok_l, im_ok. rewrite forallb_forall. split.
  - intros H.
    assert (Hn : forall x, existsb (String.eqb x) ls = true ->
                   String.eqb x "jump_flag" = false /\ String.eqb x "jump_target" = false /\ is_htmp x = false).
    { intros x Hx. apply existsb_exists in Hx. destruct Hx as [y [Hy Exy]]. apply String.eqb_eq in Exy. subst y.
      specialize (H x Hy). apply andb_prop in H. destruct H as [H H3]. apply andb_prop in H. destruct H as [H1 H2].
      rewrite negb_true_iff in H1, H2, H3. auto. }
    split; [|split].
    + destruct (existsb (String.eqb "jump_flag") ls) eqn:Ee; [|reflexivity]. destruct (Hn _ Ee) as [H1 _]. discriminate H1.
    + destruct (existsb (String.eqb "jump_target") ls) eqn:Ee; [|reflexivity]. destruct (Hn _ Ee) as [_ [H1 _]]. discriminate H1.
    + intros x Hx. destruct (existsb (String.eqb x) ls) eqn:Ee; [|reflexivity]. destruct (Hn _ Ee) as [_ [_ H1]]. congruence.
  - intros [H1 [H2 H3]] x Hx.
    assert (Ex : existsb (String.eqb x) ls = true) by (apply existsb_exists; exists x; split; [exact Hx | apply String.eqb_refl]).
    destruct (String.eqb_spec x "jump_flag") as [->|_]; [congruence|].
    destruct (String.eqb_spec x "jump_target") as [->|_]; [congruence|].
    destruct (is_htmp x) eqn:Eh; [rewrite (H3 x Eh) in Ex; discriminate Ex | reflexivity].
Qed.
Lemma im_ok_letters : im_ok imm_letter.
Proof. exact (proj1 (im_ok_l_iff ["r"; "R"; "s"; "S"; "u"; "U"; "m"; "n"]) eq_refl). Qed.
Definition jrel (cs : cstate) (ms : mstate) : Prop :=
  match cs_jump cs with
  | None => lookup "jump_flag" (locals ms) = None /\ lookup "jump_target" (locals ms) = None
  | Some t => lookup "jump_flag" (locals ms) = Some (VB true) /\ lookup "jump_target" (locals ms) = Some (VBv 32 t) /\
              0 <= t < pow2 32
  end.
(* D = the DECLARED locals (the model's variable table), V = those of them that have been given a value
   (ExprCorrect.vext V D): `T x;` declares without initialising, the first assignment initialises.
   [drel]: C knows a declared local without value with its declared type and no value; every other name that is not
   reserved is unknown to C (the implicitly declared EA, i, j, k get their documented type when they are first assigned) *)
Definition drel (IM : string -> bool) (D V : list (string * option vtype)) (cs : cstate) : Prop :=
  forall x, lookup x V = None -> ~ reserved IM x ->
    match lookup x D with
    | Some (Some t) => lookup x (cs_vars cs) = Some ((vt_sg t, vt_w t), None)
    | _ => lookup x (cs_vars cs) = None
    end.
(* the temporaries h_tmp<n> of the loops' i++ are IL locals that C does not have: each is unset or holds a 32 bit value *)
Definition htmp_ok (ms : mstate) : Prop :=
  forall x, is_htmp x = true -> lookup x (locals ms) = None \/ exists v, lookup x (locals ms) = Some (VBv 32 v).
Lemma htmp_ok_set_local ms x v : is_htmp x = false -> htmp_ok ms -> htmp_ok (set_local ms x v).
Proof.
  intros Hx H y Hy. cbn [locals set_local lookup]. destruct (String.eqb_spec y x) as [->|_]; [congruence | exact (H y Hy)].
Qed.
Lemma htmp_ok_set_htmp ms x v : htmp_ok ms -> htmp_ok (set_local ms x (VBv 32 v)).
Proof. intros H y Hy. cbn [locals set_local lookup]. destruct (String.eqb_spec y x) as [->|_]; [right; eauto | exact (H y Hy)]. Qed.
Definition srel (IM : string -> bool) (E : cenv) (D V : list (string * option vtype)) (cs : cstate) (ms : mstate) : Prop :=
  rel IM E V cs ms /\ (forall x, lookup x V = None -> ~ reserved IM x -> lookup x (locals ms) = None) /\
  cs_mem cs = mem ms /\ cs_ret cs = None /\
  (forall x, reserved IM x -> lookup x D = None) /\ jrel cs ms /\
  (forall l, IM l = true ->
     lookup l (locals ms) = None \/ lookup l (locals ms) = Some (VBv 32 (cimm E cs l))) /\
  drel IM D V cs /\ vext V D /\ htmp_ok ms.

Lemma srel_ret IM E D V cs ms : srel IM E D V cs ms -> cs_ret cs = None.
Proof. intros H. apply H. Qed.
Lemma srel_vext IM E D V cs ms : srel IM E D V cs ms -> vext V D.
Proof. intros H. apply H. Qed.

Lemma srel_nr IM E D V cs ms x t : srel IM E D V cs ms -> lookup x V = Some t -> ~ reserved IM x.
Proof.
  intros [_ [_ [_ [_ [H5 [_ [_ [_ [H9 _]]]]]]]]] Hx Hr. pose proof (H5 x Hr) as Q. rewrite (H9 _ _ Hx) in Q. discriminate Q.
Qed.

Lemma not_reserved_imm IM x : ~ reserved IM x -> IM x = false /\ imm_cname x = false.
Proof.
  intros H. split.
  - destruct (IM x) eqn:Ei; [|reflexivity]. exfalso. apply H. right. right. left. exact Ei.
  - destruct (imm_cname x) eqn:Ei; [|reflexivity]. exfalso. apply H. right. right. right. left. exact Ei.
Qed.
Lemma not_reserved_htmp IM x : ~ reserved IM x -> is_htmp x = false.
Proof. intros H. destruct (is_htmp x) eqn:Ei; [|reflexivity]. exfalso. apply H. right. right. right. right. exact Ei. Qed.

Lemma srel_set_reg IM E D V cs ms r z : srel IM E D V cs ms -> regop_eqb pc_op r = false ->
  srel IM E D V (set_regw cs r z) (set_reg ms r z).
Proof.
  intros [[R1 [R2 [R3 [R4 [R5 [R6 [R7 [R8 [R9 R10]]]]]]]]] [H2 [H3 [H4 [H5 [H6 [H7 [H8 [H9 H10]]]]]]]]] Hpc. split; [|split; [exact H2|]].
  - unfold rel. cbn [cs_vars cs_regw cs_mem set_regw locals rnew rold rnew0 imms mem mem0 pktaddr set_reg lookup_reg]. rewrite R2, Hpc, <- R2.
    auto 12.
  - cbn [cs_mem set_regw mem set_reg cs_ret]. auto 10.
Qed.

Lemma ty_int_inj sg w sg' w' : ty_int sg w = ty_int sg' w' -> sg = sg' /\ w = w'.
Proof. unfold ty_int. intros H. injection H. auto. Qed.

(* a local that is not one of the jump locals is set on both sides *)
Lemma jrel_set IM cs ms x cv v : ~ reserved IM x -> jrel cs ms -> jrel (CSem.set_var cs x cv) (set_local ms x v).
Proof.
  intros Hx. unfold jrel. cbn [cs_jump CSem.set_var locals set_local lookup].
  destruct (String.eqb_spec "jump_flag" x) as [<-|_]; [exfalso; apply Hx; left; reflexivity|].
  destruct (String.eqb_spec "jump_target" x) as [<-|_]; [exfalso; apply Hx; right; left; reflexivity|].
  auto.
Qed.

Lemma imm_cname_neq x l : imm_cname x = false -> String.eqb ("imm:" +++ l) x = false.
Proof. intros H. destruct (String.eqb_spec ("imm:" +++ l) x) as [<-|_]; [|reflexivity]. rewrite imm_cname_imm in H. discriminate H. Qed.
Lemma imm_letter_neq (IM : string -> bool) x l : IM x = false -> IM l = true -> String.eqb l x = false.
Proof. intros Hx Hl. destruct (String.eqb_spec l x) as [->|_]; [congruence | reflexivity]. Qed.

Lemma vext_app V D x t : vext V D -> lookup x D = None -> vext (V ++ [(x, t)]) (D ++ [(x, t)]).
Proof.
  intros Hv Hx y u Hy. rewrite lookup_app in *. destruct (lookup y V) as [r|] eqn:Ely.
  - injection Hy as <-. rewrite (Hv _ _ Ely). reflexivity.
  - cbn [lookup] in *. destruct (String.eqb_spec y x) as [->|_]; [|discriminate]. rewrite Hx. exact Hy.
Qed.
Lemma vext_app_r V D x t : vext V D -> vext V (D ++ [(x, t)]).
Proof. intros Hv y u Hy. rewrite lookup_app, (Hv _ _ Hy). reflexivity. Qed.
Lemma vext_app_l V D x t : vext V D -> lookup x D = Some t -> vext (V ++ [(x, t)]) D.
Proof.
  intros Hv Hx y u Hy. rewrite lookup_app in Hy. destruct (lookup y V) as [r|] eqn:Ely.
  - injection Hy as <-. exact (Hv _ _ Ely).
  - cbn [lookup] in Hy. destruct (String.eqb_spec y x) as [->|_]; [|discriminate]. injection Hy as <-. exact Hx.
Qed.
Lemma vext_none V D x : vext V D -> lookup x D = None -> lookup x V = None.
Proof. intros Hv Hx. destruct (lookup x V) as [t|] eqn:E; [|reflexivity]. rewrite (Hv _ _ E) in Hx. discriminate Hx. Qed.

(* a C local that is not the carrier of an immediate does not change the value of any immediate *)
Lemma cimm_cons E cs x e l vars' : imm_cname x = false -> cs_vars cs = (x, e) :: vars' ->
  cimm E cs l = match lookup ("imm:" +++ l) vars' with Some (_, Some v) => v | _ => wrap 32 (ce_imms E l) end.
Proof. intros Hx Hv. unfold cimm. rewrite Hv. cbn [lookup]. rewrite (imm_cname_neq x l Hx). reflexivity. Qed.
Lemma cimm_set_var E cs x cv l : imm_cname x = false -> cimm E (CSem.set_var cs x cv) l = cimm E cs l.
Proof. intros Hx. rewrite (cimm_cons E (CSem.set_var cs x cv) x _ l (cs_vars cs) Hx eq_refl). reflexivity. Qed.
Lemma cimm_vars E cs cs' l : cs_vars cs' = cs_vars cs -> cimm E cs' l = cimm E cs l.
Proof. intros H. unfold cimm. rewrite H. reflexivity. Qed.

(* the part of [rel] about the declared locals with a value, when the local x is given the value z *)
Lemma rel_vars_set IM E V cs ms x sg w z t V' : rel IM E V cs ms -> imm_cname x = false ->
  (forall y sg' w', lookup y V' = Some (Some (ty_int sg' w')) -> okw w' ->
     (y = x /\ sg' = sg /\ w' = w) \/ (y <> x /\ lookup y V = Some (Some (ty_int sg' w')))) ->
  0 <= z < pow2 w -> t = (sg, w) ->
  rel IM E V' (CSem.set_var cs x (t, z)) (set_local ms x (VBv w z)).
Proof.
  intros [R1 [R2 [R3 [R4 [R5 [R6 R7]]]]]] Hic HV Hz ->. unfold rel.
  cbn [cs_vars cs_regw cs_mem CSem.set_var locals rnew rold rnew0 imms mem mem0 set_local fst snd].
  split; [|split; [exact R2|split; [exact R3|split; [exact R4|split; [exact R5|split; [|exact R7]]]]]].
  - intros y sg' w' Hy Hw'. cbn [lookup]. destruct (HV y sg' w' Hy Hw') as [[-> [-> ->]] | [Hne Hy']].
    + rewrite String.eqb_refl. exists z. auto.
    + destruct (String.eqb_spec y x) as [->|_]; [contradiction|]. exact (R1 y sg' w' Hy' Hw').
  - intros l Hl. unfold cimm. cbn [CSem.set_var cs_vars lookup fst snd]. rewrite (imm_cname_neq x l Hic). exact (R6 l Hl).
Qed.

Lemma drel_set_var IM D V V' cs x cv : drel IM D V cs ->
  (forall y, lookup y V' = None -> y <> x /\ lookup y V = None) -> drel IM D V' (CSem.set_var cs x cv).
Proof.
  intros H HV y Hy Hyr. destruct (HV y Hy) as [Hne Hy']. specialize (H y Hy' Hyr).
  unfold CSem.set_var. cbn [cs_vars lookup]. destruct (String.eqb_spec y x) as [->|_]; [contradiction | exact H].
Qed.

(* a declared local that has a value is assigned *)
Lemma srel_set_var IM E D V cs ms x sg w z : srel IM E D V cs ms -> lookup x V = Some (Some (ty_int sg w)) -> 0 <= z < pow2 w ->
  srel IM E D V (CSem.set_var cs x ((sg, w), z)) (set_local ms x (VBv w z)).
Proof.
  intros [R [H2 [H3 [H4 [H5 [H6 [H7 [H8 [H9 H10]]]]]]]]] Hx Hz.
  assert (Hnr : ~ reserved IM x) by (intros Hr; pose proof (H5 x Hr) as Q; rewrite (H9 _ _ Hx) in Q; discriminate Q).
  destruct (not_reserved_imm IM x Hnr) as [Hil Hic].
  split; [|split].
  - apply (rel_vars_set IM E V cs ms x sg w z (sg, w) V R Hic); [|exact Hz | reflexivity].
    intros y sg' w' Hy Hw'. destruct (String.eqb_spec y x) as [->|Hne]; [|right; auto].
    left. assert (Hy' : ty_int sg w = ty_int sg' w') by congruence. apply ty_int_inj in Hy'. destruct Hy' as [<- <-]. auto.
  - intros y Hy Hyr. cbn [locals set_local lookup].
    destruct (String.eqb_spec y x) as [->|Hne]; [congruence | exact (H2 y Hy Hyr)].
  - cbn [CSem.set_var cs_mem mem set_local cs_ret]. repeat (split; [assumption|]).
    split; [apply (jrel_set IM); assumption|]. split; [|split; [|split; [exact H9 | apply htmp_ok_set_local; [exact (not_reserved_htmp IM x Hnr) | exact H10]]]].
    + intros l Hl. cbn [locals set_local lookup imms]. rewrite (imm_letter_neq IM x l Hil Hl), (cimm_set_var E cs x _ l Hic). exact (H7 l Hl).
    + apply (drel_set_var IM D V V cs x _ H8). intros y Hy. split; [intros ->; congruence | exact Hy].
Qed.

(* a fresh local is declared with a value:  T x = e;   EA = e; *)
Lemma srel_decl IM E D V cs ms x sg w z : srel IM E D V cs ms -> lookup x D = None -> ~ reserved IM x -> 0 <= z < pow2 w ->
  srel IM E (D ++ [(x, Some (ty_int sg w))]) (V ++ [(x, Some (ty_int sg w))])
       (CSem.set_var cs x ((sg, w), z)) (set_local ms x (VBv w z)).
Proof.
  intros [R [H2 [H3 [H4 [H5 [H6 [H7 [H8 [H9 H10]]]]]]]]] HxD Hnr Hz.
  pose proof (vext_none V D x H9 HxD) as Hx.
  destruct (not_reserved_imm IM x Hnr) as [Hil Hic].
  split; [|split].
  - apply (rel_vars_set IM E V cs ms x sg w z (sg, w) _ R Hic); [|exact Hz | reflexivity].
    intros y sg' w' Hy Hw'. rewrite lookup_app in Hy. destruct (lookup y V) as [r|] eqn:Ely.
    + injection Hy as ->. right. split; [intros ->; congruence | reflexivity].
    + cbn [lookup] in Hy. destruct (String.eqb_spec y x) as [->|Hne]; [|discriminate].
      left. assert (Hy' : ty_int sg w = ty_int sg' w') by congruence. apply ty_int_inj in Hy'. destruct Hy' as [<- <-]. auto.
  - intros y Hy Hyr. rewrite lookup_app in Hy. cbn [locals set_local lookup] in *.
    destruct (lookup y V) eqn:Ely; [discriminate|].
    destruct (String.eqb_spec y x) as [->|Hne]; [discriminate | exact (H2 y Ely Hyr)].
  - cbn [CSem.set_var cs_mem mem set_local cs_ret]. repeat (split; [assumption|]).
    split; [|split; [apply (jrel_set IM); assumption|]].
    + intros y Hyr. rewrite lookup_app, (H5 y Hyr). cbn [lookup].
      destruct (String.eqb_spec y x) as [->|_]; [contradiction | reflexivity].
    + split; [|split; [|split; [apply vext_app; assumption | apply htmp_ok_set_local; [exact (not_reserved_htmp IM x Hnr) | exact H10]]]].
      * intros l Hl. cbn [locals set_local lookup imms]. rewrite (imm_letter_neq IM x l Hil Hl), (cimm_set_var E cs x _ l Hic). exact (H7 l Hl).
      * intros y Hy Hyr. rewrite lookup_app in Hy. unfold CSem.set_var. cbn [cs_vars lookup] in *.
        destruct (lookup y V) eqn:Ely; [discriminate|].
        destruct (String.eqb_spec y x) as [->|Hne]; [discriminate|].
        specialize (H8 y Ely Hyr). rewrite lookup_app. destruct (lookup y D) as [[t|]|]; try exact H8.
        cbn [lookup]. destruct (String.eqb_spec y x) as [->|_]; [contradiction | exact H8].
Qed.

(* a fresh local is declared without a value:  T x; *)
Lemma srel_decl0 IM E D V cs ms x sg w : srel IM E D V cs ms -> lookup x D = None -> ~ reserved IM x ->
  srel IM E (D ++ [(x, Some (ty_int sg w))]) V
       (mkcs ((x, ((sg, w), None)) :: cs_vars cs) (cs_regw cs) (cs_mem cs) (cs_jump cs) (cs_ret cs) (cs_events cs)) ms.
Proof.
  intros [[R1 [R2 [R3 [R4 [R5 [R6 R7]]]]]] [H2 [H3 [H4 [H5 [H6 [H7 [H8 [H9 H10]]]]]]]]] HxD Hnr.
  pose proof (vext_none V D x H9 HxD) as Hx.
  destruct (not_reserved_imm IM x Hnr) as [Hil Hic].
  split; [|split; [exact H2|]].
  - unfold rel. cbn [cs_vars cs_regw cs_mem lookup]. split; [|split; [exact R2|split; [exact R3|split; [exact R4|split; [exact R5|split; [|exact R7]]]]]].
    + intros y sg' w' Hy Hw'. destruct (String.eqb_spec y x) as [->|_]; [congruence|]. exact (R1 y sg' w' Hy Hw').
    + intros l Hl. unfold cimm. cbn [cs_vars lookup]. rewrite (imm_cname_neq x l Hic). exact (R6 l Hl).
  - cbn [cs_mem cs_ret]. repeat (split; [assumption|]).
    split; [|split; [exact H6|split; [|split; [|split; [apply vext_app_r; exact H9 | exact H10]]]]].
    2:{ intros l Hl. unfold cimm. cbn [cs_vars lookup]. rewrite (imm_cname_neq x l Hic). exact (H7 l Hl). }
    + intros y Hyr. rewrite lookup_app, (H5 y Hyr). cbn [lookup].
      destruct (String.eqb_spec y x) as [->|_]; [contradiction | reflexivity].
    + intros y Hy Hyr. cbn [cs_vars lookup]. rewrite lookup_app.
      destruct (String.eqb_spec y x) as [->|Hne].
      * rewrite HxD. cbn [lookup]. rewrite String.eqb_refl. reflexivity.
      * specialize (H8 y Hy Hyr). destruct (lookup y D) as [[t|]|]; try exact H8.
        cbn [lookup]. destruct (String.eqb_spec y x) as [->|_]; [contradiction | exact H8].
Qed.

(* a declared local without value gets its first value:  x = e; *)
Lemma srel_first IM E D V cs ms x sg w z : srel IM E D V cs ms ->
  lookup x D = Some (Some (ty_int sg w)) -> lookup x V = None -> 0 <= z < pow2 w ->
  srel IM E D (V ++ [(x, Some (ty_int sg w))]) (CSem.set_var cs x ((sg, w), z)) (set_local ms x (VBv w z)).
Proof.
  intros [R [H2 [H3 [H4 [H5 [H6 [H7 [H8 [H9 H10]]]]]]]]] HxD Hx Hz.
  assert (Hnr : ~ reserved IM x) by (intros Hr; rewrite (H5 x Hr) in HxD; discriminate HxD).
  destruct (not_reserved_imm IM x Hnr) as [Hil Hic].
  split; [|split].
  - apply (rel_vars_set IM E V cs ms x sg w z (sg, w) _ R Hic); [|exact Hz | reflexivity].
    intros y sg' w' Hy Hw'. rewrite lookup_app in Hy. destruct (lookup y V) as [r|] eqn:Ely.
    + injection Hy as ->. right. split; [intros ->; congruence | reflexivity].
    + cbn [lookup] in Hy. destruct (String.eqb_spec y x) as [->|Hne]; [|discriminate].
      left. assert (Hy' : ty_int sg w = ty_int sg' w') by congruence. apply ty_int_inj in Hy'. destruct Hy' as [<- <-]. auto.
  - intros y Hy Hyr. rewrite lookup_app in Hy. cbn [locals set_local lookup] in *.
    destruct (lookup y V) eqn:Ely; [discriminate|].
    destruct (String.eqb_spec y x) as [->|Hne]; [discriminate | exact (H2 y Ely Hyr)].
  - cbn [CSem.set_var cs_mem mem set_local cs_ret]. repeat (split; [assumption|]).
    split; [apply (jrel_set IM); assumption|]. split; [|split; [|split; [apply vext_app_l; assumption | apply htmp_ok_set_local; [exact (not_reserved_htmp IM x Hnr) | exact H10]]]].
    + intros l Hl. cbn [locals set_local lookup imms]. rewrite (imm_letter_neq IM x l Hil Hl), (cimm_set_var E cs x _ l Hic). exact (H7 l Hl).
    + apply (drel_set_var IM D V _ cs x _ H8). intros y Hy. rewrite lookup_app in Hy.
      destruct (lookup y V) eqn:Ely; [discriminate|]. cbn [lookup] in Hy.
      destruct (String.eqb_spec y x) as [->|Hne]; [discriminate | auto].
Qed.

(* the temporary of a loop's i++ is set (an IL local only: the C state does not change) *)
Lemma srel_set_htmp IM E D V cs ms x v : im_ok IM -> srel IM E D V cs ms -> is_htmp x = true ->
  srel IM E D V cs (set_local ms x (VBv 32 v)).
Proof.
  intros [_ [_ HI3]] [[R1 R2] [H2 [H3 [H4 [H5 [H6 [H7 [H8 [H9 H10]]]]]]]]] Hx.
  assert (Hr : reserved IM x) by (right; right; right; right; exact Hx).
  assert (HxV : lookup x V = None) by exact (vext_none V D x H9 (H5 x Hr)).
  split; [|split; [|split; [exact H3|split; [exact H4|split; [exact H5|split; [|split; [|split; [exact H8|split; [exact H9|]]]]]]]]].
  - split; [|exact R2]. intros y sg w Hy Hw. cbn [locals set_local lookup].
    destruct (String.eqb_spec y x) as [->|_]; [congruence | exact (R1 y sg w Hy Hw)].
  - intros y Hy Hyr. cbn [locals set_local lookup]. destruct (String.eqb_spec y x) as [->|_]; [contradiction | exact (H2 y Hy Hyr)].
  - unfold jrel in *. cbn [locals set_local lookup].
    destruct (String.eqb_spec "jump_flag" x) as [<-|_]; [discriminate Hx|].
    destruct (String.eqb_spec "jump_target" x) as [<-|_]; [discriminate Hx|]. exact H6.
  - intros l Hl. cbn [locals set_local lookup]. destruct (String.eqb_spec l x) as [->|_]; [rewrite (HI3 x Hx) in Hl; discriminate Hl | exact (H7 l Hl)].
  - apply htmp_ok_set_htmp. exact H10.
Qed.

(* an immediate is assigned:  riV = e;  (CSem keeps the value in the C local "imm:r", the IL in the local r of the prologue) *)
Lemma imm_name_eqb l' l : String.eqb ("imm:" +++ l') ("imm:" +++ l) = String.eqb l' l.
Proof. reflexivity. Qed.
Lemma cimm_asg E cs l sg z l' :
  cimm E (CSem.set_var cs ("imm:" +++ l) ((sg, 32%N), z)) l' = if String.eqb l' l then z else cimm E cs l'.
Proof. unfold cimm. cbn [CSem.set_var cs_vars lookup fst snd]. rewrite imm_name_eqb. destruct (String.eqb l' l); reflexivity. Qed.

Lemma srel_asg_imm IM E D V cs ms l sg z : im_ok IM -> srel IM E D V cs ms -> IM l = true -> 0 <= z < pow2 32 ->
  srel IM E D V (CSem.set_var cs ("imm:" +++ l) ((sg, 32%N), z)) (set_local ms l (VBv 32 z)).
Proof.
  intros [HI1 [HI2 _]] Hrel Hl Hz. pose proof Hrel as [[R1 [R2 [R3 [R4 [R5 [R6 R7]]]]]] [H2 [H3 [H4 [H5 [H6 [H7 [H8 [H9 H10]]]]]]]]].
  assert (Hr : reserved IM l) by (right; right; left; exact Hl).
  assert (Hrc : reserved IM ("imm:" +++ l)) by (right; right; right; left; apply imm_cname_imm).
  split; [|split].
  - unfold rel. cbn [cs_vars cs_regw cs_mem CSem.set_var locals rnew rold rnew0 imms mem mem0 pktaddr set_local fst snd].
    split; [|split; [exact R2|split; [exact R3|split; [exact R4|split; [exact R5|split; [|exact R7]]]]]].
    + intros y sg' w' Hy Hw'. pose proof (srel_nr _ _ _ _ _ _ _ _ Hrel Hy) as Hnr. destruct (not_reserved_imm IM y Hnr) as [Hyi Hyc].
      cbn [lookup]. rewrite (String.eqb_sym y), (imm_cname_neq y l Hyc), (String.eqb_sym y l), (imm_letter_neq IM y l Hyi Hl).
      exact (R1 y sg' w' Hy Hw').
    + intros l' Hl'. rewrite (cimm_asg E cs l sg z l'). destruct (String.eqb l' l); [exact Hz | exact (R6 l' Hl')].
  - intros y Hy Hyr. cbn [locals set_local lookup].
    destruct (String.eqb_spec y l) as [->|_]; [contradiction | exact (H2 y Hy Hyr)].
  - cbn [CSem.set_var cs_mem mem set_local cs_ret]. repeat (split; [assumption|]). split.
    + unfold jrel in *. cbn [cs_jump locals set_local lookup].
      destruct (String.eqb_spec "jump_flag" l) as [<-|_]; [congruence|].
      destruct (String.eqb_spec "jump_target" l) as [<-|_]; [congruence|]. exact H6.
    + split; [|split; [|split; [exact H9 | apply htmp_ok_set_htmp; exact H10]]].
      * intros l' Hl'. cbn [locals set_local lookup]. rewrite (cimm_asg E cs l sg z l').
        destruct (String.eqb l' l); [right; reflexivity | exact (H7 l' Hl')].
      * intros y Hy Hyr. specialize (H8 y Hy Hyr). unfold CSem.set_var. cbn [cs_vars lookup].
        destruct (String.eqb_spec y ("imm:" +++ l)) as [->|_]; [contradiction | exact H8].
Qed.

Lemma imms_done_asg_imm IM E J cs ms l sg z : imms_done IM E J cs ms ->
  imms_done IM E J (CSem.set_var cs ("imm:" +++ l) ((sg, 32%N), z)) (set_local ms l (VBv 32 z)).
Proof.
  intros H l' Hl' Hin. cbn [locals set_local lookup]. rewrite (cimm_asg E cs l sg z l').
  destruct (String.eqb l' l); [reflexivity | exact (H l' Hl' Hin)].
Qed.

(* the prologue entries that have been executed stay executed *)
Lemma imms_done_gen IM E J cs cs' ms ms' :
  (forall l, IM l = true -> cimm E cs' l = cimm E cs l) ->
  (forall l, IM l = true -> lookup l (locals ms') = lookup l (locals ms)) ->
  imms_done IM E J cs ms -> imms_done IM E J cs' ms'.
Proof. intros Hc Hm H l Hl Hin. rewrite (Hc l Hl), (Hm l Hl). exact (H l Hl Hin). Qed.

Lemma imms_done_set_local IM E J cs ms x cv v : ~ reserved IM x -> imms_done IM E J cs ms ->
  imms_done IM E J (CSem.set_var cs x cv) (set_local ms x v).
Proof.
  intros Hx. destruct (not_reserved_imm IM x Hx) as [Hi Hc]. apply imms_done_gen.
  - intros l _. apply cimm_set_var. exact Hc.
  - intros l Hl. cbn [locals set_local lookup]. rewrite (imm_letter_neq IM x l Hi Hl). reflexivity.
Qed.
(* a local of the IL alone (jump_flag / jump_target) *)
Lemma imms_done_il_local IM E J cs cs' ms x v : IM x = false -> cs_vars cs' = cs_vars cs -> imms_done IM E J cs ms ->
  imms_done IM E J cs' (set_local ms x v).
Proof.
  intros Hi Hv. apply imms_done_gen.
  - intros l _. apply cimm_vars. exact Hv.
  - intros l Hl. cbn [locals set_local lookup]. rewrite (imm_letter_neq IM x l Hi Hl). reflexivity.
Qed.
Lemma imms_done_set_reg IM E J cs ms r z : imms_done IM E J cs ms -> imms_done IM E J (set_regw cs r z) (set_reg ms r z).
Proof. apply imms_done_gen; intros; reflexivity. Qed.
Lemma imms_done_set_mem IM E J cs ms a v n m : imms_done IM E J cs ms -> imms_done IM E J (c_store cs a v n) (set_mem ms m).
Proof. apply imms_done_gen; intros; reflexivity. Qed.

(* ================================================================== Layer 4: the fragment *)
(* the declaration specifiers of the fragment: the cast types of ExprCorrect (intN_t / uintN_t / int /
   unsigned / unsigned int) and QEMU's sizeNs_t / sizeNu_t *)
Definition decl_ty (ts : tyspec) (sg : bool) (w : N) : Prop :=
  cast_ty ts sg w \/ (exists b, ts = [TS_sizeN b sg] /\ w = (b * 8)%N /\ okw w).

(* the names the dialect declares implicitly as 32-bit unsigned locals (Lower.lower_operand, CSem.operand_lval) *)
Definition implicit_name (x : string) : Prop := x = "EA" \/ x = "i" \/ x = "j" \/ x = "k".

(* a plain name that is neither a declared local, an immediate letter nor an implicitly declared local: the compiler
   passes it on as text (pkt, slot, ...) *)
Definition raw_name (IM : string -> bool) (D : list (string * option vtype)) (x : string) : Prop :=
  lookup x D = None /\ IM x = false /\ ~ implicit_name x /\ is_htmp x = false.
(* an argument of the call statement STORE_SLOT_CANCELLED: such a name, or an expression of the fragment *)
Inductive carg (rw : regwidth) (IM : string -> bool) (D V : list (string * option vtype)) : cexpr -> Prop :=
| ca_raw x : raw_name IM D x -> carg rw IM D V (EOp (OIdent x))
| ca_expr e : pfrag rw IM V e -> carg rw IM D V e.
(* (the theorems assume that neither sub-routine table knows this name: ExprCorrect.subs_ext / csub_ext) *)
Definition ssc_name : string := "STORE_SLOT_CANCELLED".
Lemma ssc_ext : In ssc_name ext_calls.
Proof. left. reflexivity. Qed.

(* statements without a loop inside *)
Fixpoint noloop (s : cstmt) : bool :=
  match s with
  | SFor _ _ _ _ | SWhile _ _ | SDo _ _ => false
  | SIf _ t f => noloop t && match f with Some f => noloop f | None => true end
  | SBlock l => (fix go (l : cstmts) : bool := match l with SNil => true | SCons s t => noloop s && go t end) l
  | _ => true
  end.
Fixpoint noloops (l : cstmts) : bool := match l with SNil => true | SCons s t => noloop s && noloops t end.
Lemma noloop_block l : noloop (SBlock l) = noloops l.
Proof. induction l as [|s t IH]; [reflexivity|]. cbn [noloops]. rewrite <- IH. reflexivity. Qed.

(* [sfrag rw IM D V s D' V']: statement s of the fragment, lowered with DECLARED locals D of which V have a value
   (expressions may read the locals of V only), leaves D' / V'.
   rw is the register-width environment of the IL semantics: a destination register operand must
   have the width the machine gives its operand handle. *)
Inductive sfrag (rw : regwidth) (IM : string -> bool) :
  list (string * option vtype) -> list (string * option vtype) -> cstmt ->
  list (string * option vtype) -> list (string * option vtype) -> Prop :=
| sf_asg_reg D V cls letters acc e :                  (* RdV = e;  RxxV = e;  PdV = e; ... *)
    dest_cls cls -> access_of_letters letters = Some acc ->
    rw (RIsa cls (substring 0 1 letters) false) = dest_w cls acc ->
    pfrag rw IM V e -> sfrag rw IM D V (SExpr (EAssign AAssign (EOp (OReg cls letters)) e)) D V
| sf_asg_alias D V name new e :                       (* HEX_REG_ALIAS_LC0 = e;  HEX_REG_ALIAS_USR = e; ... *)
    In name alias_names -> rw (alias_op name new) = alias_w name ->
    pfrag rw IM V e -> sfrag rw IM D V (SExpr (EAssign AAssign (EOp (OAlias name new)) e)) D V
| sf_asg_expl D V name new e :                        (* P0 = e;  (fWRITE_P0(e)) ... an explicitly named register *)
    In name expl_names -> rw (expl_op name new) = expl_w name ->
    pfrag rw IM V e -> sfrag rw IM D V (SExpr (EAssign AAssign (EOp (OExplicit name new)) e)) D V
| sf_asg_imm D V l e :                                (* riV = e;  an immediate is assigned (fPCALIGN: riV = riV & ~3) *)
    IM l = true -> pfrag rw IM V e -> sfrag rw IM D V (SExpr (EAssign AAssign (EOp (OImm l)) e)) D V
| sf_asg_var D V x sg w e :                           (* x = e;  for a declared local that has a value *)
    lookup x V = Some (Some (ty_int sg w)) -> okw w ->
    pfrag rw IM V e -> sfrag rw IM D V (SExpr (EAssign AAssign (EOp (OIdent x)) e)) D V
| sf_asg_first D V x sg w e :                         (* x = e;  the FIRST assignment of a local declared without initialiser *)
    lookup x D = Some (Some (ty_int sg w)) -> lookup x V = None -> okw w ->
    pfrag rw IM V e -> sfrag rw IM D V (SExpr (EAssign AAssign (EOp (OIdent x)) e)) D (V ++ [(x, Some (ty_int sg w))])
| sf_asg_implicit D V x e :                           (* EA = e;  the FIRST assignment of EA (i, j, k): declares it, uint32_t *)
    implicit_name x -> lookup x D = None -> lookup x V = None -> ~ reserved IM x ->
    pfrag rw IM V e ->
    sfrag rw IM D V (SExpr (EAssign AAssign (EOp (OIdent x)) e)) (D ++ [(x, Some (ty_int false 32))]) (V ++ [(x, Some (ty_int false 32))])
| sf_casg_var D V a x sg w e :                        (* x += e;  x -= e;  x *= e;  for a declared local that has a value *)
    (a = AAdd \/ a = ASub \/ a = AMul) ->
    lookup x V = Some (Some (ty_int sg w)) -> okw w ->
    pfrag rw IM V e -> sfrag rw IM D V (SExpr (EAssign a (EOp (OIdent x)) e)) D V
| sf_basg_var D V a x sg w e :                        (* x &= e;  x |= e;  x ^= e;  for a declared local that has a value *)
    (a = AAnd \/ a = AOr \/ a = AXor) ->
    lookup x V = Some (Some (ty_int sg w)) -> okw w ->
    pfrag rw IM V e -> sfrag rw IM D V (SExpr (EAssign a (EOp (OIdent x)) e)) D V
| sf_basg_reg D V a cls letters acc e :               (* RxV &= e;  RxV |= e;  RxV ^= e; *)
    (a = AAnd \/ a = AOr \/ a = AXor) ->
    dest_cls cls -> access_of_letters letters = Some acc ->
    rw (RIsa cls (substring 0 1 letters) false) = dest_w cls acc ->
    pfrag rw IM V e -> sfrag rw IM D V (SExpr (EAssign a (EOp (OReg cls letters)) e)) D V
| sf_casg_reg D V a cls letters acc e :               (* RxV += e;  RxV -= e;  RxV *= e;  (also RdV, PxV, RxxV ...) *)
    (a = AAdd \/ a = ASub \/ a = AMul) ->
    dest_cls cls -> access_of_letters letters = Some acc ->
    rw (RIsa cls (substring 0 1 letters) false) = dest_w cls acc ->
    pfrag rw IM V e -> sfrag rw IM D V (SExpr (EAssign a (EOp (OReg cls letters)) e)) D V
| sf_sasg_var D V a x sg w e :                        (* x <<= e;  x >>= e;  for a declared local that has a value *)
    (a = AShl \/ a = AShr) ->
    lookup x V = Some (Some (ty_int sg w)) -> okw w ->
    pfrag rw IM V e -> sfrag rw IM D V (SExpr (EAssign a (EOp (OIdent x)) e)) D V
| sf_sasg_reg D V a cls letters acc e :               (* RxV <<= e;  RxV >>= e; *)
    (a = AShl \/ a = AShr) ->
    dest_cls cls -> access_of_letters letters = Some acc ->
    rw (RIsa cls (substring 0 1 letters) false) = dest_w cls acc ->
    pfrag rw IM V e -> sfrag rw IM D V (SExpr (EAssign a (EOp (OReg cls letters)) e)) D V
| sf_decl D V ts sg w x e :                           (* T x = e;  for a fresh name *)
    decl_ty ts sg w -> lookup x D = None -> ~ reserved IM x ->
    pfrag rw IM V e ->
    sfrag rw IM D V (SDecl ts x (Some e)) (D ++ [(x, Some (ty_int sg w))]) (V ++ [(x, Some (ty_int sg w))])
| sf_decl0 D V ts sg w x :                            (* T x;  for a fresh name: declared, no value yet *)
    decl_ty ts sg w -> lookup x D = None -> ~ reserved IM x ->
    sfrag rw IM D V (SDecl ts x None) (D ++ [(x, Some (ty_int sg w))]) V
| sf_expr_imm D V l :                                  (* (uiV);  an immediate as expression statement (QEMU's fIMMEXT(uiV)): declares it *)
    IM l = true -> sfrag rw IM D V (SExpr (EOp (OImm l))) D V
| sf_empty D V : sfrag rw IM D V SEmpty D V              (* ; *)
| sf_nop D V : sfrag rw IM D V SNop D V
| sf_cancel D V : sfrag rw IM D V SCancel D V           (* cancel_slot;  (CSem prescribes no result for it: see sinv_cancel) *)
| sf_ssc D V a b :                                    (* STORE_SLOT_CANCELLED(a, b);  (CSem prescribes no result for it: see sinv_ssc) *)
    carg rw IM D V a -> carg rw IM D V b ->
    sfrag rw IM D V (SExpr (Ast.ECall ssc_name (ECons a (ECons b ENil)))) D V
| sf_store D V sg w a v :                             (* mem_store_<s|u><w>(a, v); *)
    okw w -> pfrag rw IM V a -> pfrag rw IM V v -> sfrag rw IM D V (SStore sg w (ECons a (ECons v ENil))) D V
| sf_jump D V e : pfrag rw IM V e -> sfrag rw IM D V (SJump e) D V   (* JUMP(e); *)
| sf_block D V l D' V' : sfrags rw IM D V l D' V' -> sfrag rw IM D V (SBlock l) D' V'      (* { ... } *)
| sf_if D V c t : pfrag rw IM V c -> sfrag rw IM D V t D V -> sfrag rw IM D V (SIf c t None) D V
| sf_ifelse D V c t f V1 :                            (* both branches may give the same declared locals their first value *)
    pfrag rw IM V c -> sfrag rw IM D V t D V1 -> sfrag rw IM D V f D V1 -> sfrag rw IM D V (SIf c t (Some f)) D V1
| sf_for D V e0 D1 V1 c inc i sg b :                  (* for (i = e; c; i++) body   (also i--): i a 32 bit local, body without loop *)
    sfrag rw IM D V (SExpr e0) D1 V1 -> pfrag rw IM V1 c ->
    lookup i V1 = Some (Some (ty_int sg 32)) ->
    sfrag rw IM D1 V1 b D1 V1 -> noloop b = true ->
    sfrag rw IM D V (SFor (SExpr e0) (SExpr c) (Some (EPost inc (EOp (OIdent i)))) b) D1 V1
with sfrags (rw : regwidth) (IM : string -> bool) :
  list (string * option vtype) -> list (string * option vtype) -> cstmts ->
  list (string * option vtype) -> list (string * option vtype) -> Prop :=
| sfs_nil D V : sfrags rw IM D V SNil D V
| sfs_cons D V s D1 V1 l D2 V2 : sfrag rw IM D V s D1 V1 -> sfrags rw IM D1 V1 l D2 V2 -> sfrags rw IM D V (SCons s l) D2 V2.

Scheme sfrag_mut := Minimality for sfrag Sort Prop
with sfrags_mut := Minimality for sfrags Sort Prop.
Combined Scheme sfrag_mutind from sfrag_mut, sfrags_mut.

(* the locals with a value stay among the declared ones *)
Lemma sfrag_vext_both rw IM :
  (forall D V s D' V', sfrag rw IM D V s D' V' -> vext V D -> vext V' D') /\
  (forall D V l D' V', sfrags rw IM D V l D' V' -> vext V D -> vext V' D').
Proof.
  apply sfrag_mutind; intros; auto using vext_app, vext_app_r, vext_app_l.
Qed.
Lemma sfrag_vext rw IM D V s D' V' : sfrag rw IM D V s D' V' -> vext V D -> vext V' D'.
Proof. apply (proj1 (sfrag_vext_both rw IM)). Qed.
Lemma sfrags_vext rw IM D V l D' V' : sfrags rw IM D V l D' V' -> vext V D -> vext V' D'.
Proof. apply (proj2 (sfrag_vext_both rw IM)). Qed.

(* ================================================================== Layer 5: the simulation *)
Section StmtCorrect.
  Variables (subsigs : list subsig) (macs : list macsig) (cret : option vtype) (hstart : N).
  (* the macro table gives QEMU's bit-field macros their standard signatures (ExprCorrect.macs_std) *)
  Hypothesis Hmacs : macs_std macs.
  (* STORE_SLOT_CANCELLED is not a compiled sub-routine (only sinv_ssc uses this) *)
  Hypothesis Hssc : subs_ext subsigs.
  Local Notation cfg := (mkcfg all_fixes subsigs macs [] cret hstart).
  Variable rw : regwidth.
  (* the immediates the behaviour uses *)
  Variable IM : string -> bool.
  Hypothesis HIM : im_ok IM.
  (* the register table / removed names the effect is finalised against, and the executed immediate prologue *)
  Variables (R : list (string * reginfo)) (rem : list string) (J : list effect).
  Variable ilsubs : subenv.
  Variable E : cenv.
  Variable csub : csubs.
  (* ... and CSem's sub-routine table gives it no body (only sinv_ssc uses this) *)
  Hypothesis Hcssc : csub_ext csub.
  Variable xi : string -> bool -> option (regop * N).
  Hypothesis Hxiok : xi_ok xi.

  (* ------------------------------------------------------------------ model-side helpers *)
  Lemma goodpv_numeric p : goodpv p -> is_numeric (pv_ty p) = true /\ vt_const (pv_ty p) = false.
  Proof. intros [[Ht _] | [s0 [w0 [_ [Ht _]]]]]; rewrite Ht; split; reflexivity. Qed.

  Lemma vtype_eqb_refl t : vtype_eqb t t = true.
  Proof. unfold vtype_eqb. rewrite !eqb_reflx, N.eqb_refl. reflexivity. Qed.

  (* the conversion of an assignment's source to the (integer) type of its destination *)
  Lemma cast_imm_ok dest src st sg w : okw w -> ity (pv_ty dest) sg w -> goodpv src ->
    exists src', cast_operands cfg true dest src st = OK ((dest, src'), st) /\ (ity (pv_ty src') sg w /\ pv_tmps src' = []) /\
      forall ms v, sem rw R rem ms src v ->
        exists z, 0 <= z < pow2 w /\ eval rw ms [] (fin_pure R rem (pv_term src')) = Some (VBv w z) /\
                  conv (sg, w) (cval_of (pv_ty src) v) = ((sg, w), z).
  Proof.
    intros Hw Hd Hg. destruct (ity_inv _ _ _ Hd) as [hd Ed]. unfold cast_operands, bind, ty_eq. rewrite Ed.
    rewrite (proj1 (goodpv_numeric src Hg)). cbn [is_numeric ty_h vt_void vt_ext negb andb ret].
    destruct (vtype_eqb (ty_h hd sg w) (pv_ty src)) eqn:Eeq.
    - exists src. split; [reflexivity|].
      pose proof Hg as [[Ht _] | [s0 [w0 [Hw0 [Ht _]]]]].
      + rewrite Ht in Eeq. exfalso. unfold vtype_eqb in Eeq. cbn in Eeq. okw_cases Hw; discriminate.
      + destruct (ity_inv _ _ _ Ht) as [h0 Et]. rewrite Et in Eeq.
        apply (vtype_eqb_h hd sg w h0 s0 w0) in Eeq. destruct Eeq as [<- <-]. split; [split; [exact Ht | exact (goodpv_tmps src Hg)]|].
        intros ms v Hs. destruct (sem_int rw R rem ms src v sg w Ht Hs) as [z [-> [Hz He]]].
        exists z. split; [exact Hz|]. split; [exact He|]. rewrite (cval_of_ity _ sg w z Ht).
        apply (conv_same ((sg, w), z)). split; auto.
    - destruct (init_a_cast_gen subsigs macs cret hstart rw R rem (ty_h hd sg w) sg w src st Hw (ity_h _ _ _) Hg) as [p' [H1 [H2 [H3 [_ H5]]]]].
      rewrite H1. exists p'. split; [reflexivity|]. split; [split; [exact H3 | exact (goodpv_tmps p' H2)]|].
      intros ms v Hs. destruct (H5 ms v Hs) as [v' [Hs' Hc]].
      destruct (sem_int rw R rem ms p' v' sg w H3 Hs') as [z [-> [Hz He]]].
      exists z. split; [exact Hz|]. split; [exact He|]. rewrite <- Hc, (cval_of_ity _ sg w z H3). reflexivity.
  Qed.

  Lemma cast_self_ok dest src st : goodpv src -> pv_ty dest = pv_ty src ->
    cast_operands cfg true dest src st = OK ((dest, src), st).
  Proof.
    intros Hg Hd. unfold cast_operands, bind, ty_eq. rewrite Hd, (proj1 (goodpv_numeric src Hg)).
    cbn [andb ret]. rewrite vtype_eqb_refl. reflexivity.
  Qed.

  Lemma bind_bind_OK {A B C} (m : M A) (f : A -> M B) (g : B -> M C) st b st' :
    bind m f st = OK (b, st') -> bind m (fun a => bind (f a) g) st = g b st'.
  Proof. unfold bind. destruct (m st) as [[a s1]|]; [|discriminate]. intros ->. reflexivity. Qed.

  (* chk_hybrid_dep leaves an effect alone when no hybrid is pending, and also when the effect mentions no temporary
     (inside the body of a for loop the hybrid of the loop's i++ is pending: it belongs to the loop, not to the body) *)
  Lemma chk_nil e b st : st_pending st = [] \/ le_tmps e = [] -> chk_hybrid_dep e b false st = OK (e, st).
  Proof.
    intros [H | H]; unfold chk_hybrid_dep, bind, get; [rewrite H; reflexivity|].
    destruct (st_pending st) as [|p0 l]; [reflexivity|]. rewrite H. reflexivity.
  Qed.

  Lemma hyb_nil e st : st_pending st = [] \/ le_tmps e = [] -> hyb_wrapped e st = OK (false, st).
  Proof.
    intros [H | H]; unfold hyb_wrapped, bind, get, ret; [rewrite H; reflexivity|].
    destruct (st_pending st) as [|p0 l]; [reflexivity|]. rewrite H. reflexivity.
  Qed.

  Lemma decl_ty_ok ts sg w st : decl_ty ts sg w ->
    decl_type ts st = OK (ty_int sg w, st) /\ resolve_ty_c ts = Some (sg, w) /\ okw w.
  Proof.
    intros [H | [b [-> [-> Hw]]]].
    - destruct (cast_ty_ok ts sg w st H) as [_ [H2 H3]]. split; [|auto].
      destruct H as [[-> Hw] | [[-> [-> ->]] | [[-> [-> ->]] | [[-> [-> ->]] | [b [-> [-> Hw]]]]]]]; reflexivity.
    - repeat split; auto.
  Qed.

  (* ------------------------------------------------------------------ C-side helpers *)
  (* unfolding equations of the fuelled executor, stated with the constants (cbn leaves the mutual
     fixpoint unfolded) *)
  Lemma cexec_0 s st : cexec E csub xi 0 s st = None.
  Proof. reflexivity. Qed.
  Lemma cexec_expr k s e : cs_ret s = None -> cexec E csub xi (S k) s (SExpr e) = option_map fst (ceval E csub xi k s e).
  Proof. intros H. cbn [cexec]. rewrite H. reflexivity. Qed.
  Lemma cexec_decl k s t x e : cs_ret s = None ->
    cexec E csub xi (S k) s (SDecl t x (Some e)) =
    match resolve_ty_c t, ceval E csub xi k s e with
    | Some ty, Some (s1, v) => Some (CSem.set_var s1 x (conv ty v))
    | _, _ => None end.
  Proof. intros H. cbn [cexec]. rewrite H. reflexivity. Qed.
  Lemma cexec_if k s c t f : cs_ret s = None ->
    cexec E csub xi (S k) s (SIf c t f) =
    match ceval E csub xi k s c with
    | Some (s1, vc) => if negb (snd vc =? 0) then cexec E csub xi k s1 t
                       else match f with Some fs => cexec E csub xi k s1 fs | None => Some s1 end
    | None => None end.
  Proof. intros H. cbn [cexec]. rewrite H. reflexivity. Qed.
  Lemma cexec_block k s l : cs_ret s = None -> cexec E csub xi (S k) s (SBlock l) = cexecs E csub xi k s l.
  Proof. intros H. cbn [cexec]. rewrite H. reflexivity. Qed.
  Lemma cexec_empty k s : cs_ret s = None -> cexec E csub xi (S k) s SEmpty = Some s.
  Proof. intros H. cbn [cexec]. rewrite H. reflexivity. Qed.
  Lemma cexec_nop k s : cs_ret s = None -> cexec E csub xi (S k) s SNop = Some s.
  Proof. intros H. cbn [cexec]. rewrite H. reflexivity. Qed.
  Lemma cexecs_0 s l : cexecs E csub xi 0 s l = None.
  Proof. reflexivity. Qed.
  Lemma cexecs_nil k s : cexecs E csub xi (S k) s SNil = Some s.
  Proof. reflexivity. Qed.
  Lemma cexecs_cons k s st t :
    cexecs E csub xi (S k) s (SCons st t) =
    match cexec E csub xi k s st with Some s1 => cexecs E csub xi k s1 t | None => None end.
  Proof. reflexivity. Qed.
  Lemma ceval_0 s e : ceval E csub xi 0 s e = None.
  Proof. reflexivity. Qed.
  Lemma ceval_asg k s o e :
    ceval E csub xi (S k) s (EAssign AAssign (EOp o) e) =
    match ceval E csub xi k s e with
    | Some (s1, vr) => match operand_lval E xi s1 o with
                       | Some lv => Some (write_lval s1 lv vr, conv (lval_ty lv) vr)
                       | None => None end
    | None => None end.
  Proof. reflexivity. Qed.

  Lemma cexec_asg_inv fuel cs o e cs' : cs_ret cs = None ->
    cexec E csub xi fuel cs (SExpr (EAssign AAssign (EOp o) e)) = Some cs' ->
    exists k s1 vr lv, ceval E csub xi k cs e = Some (s1, vr) /\ operand_lval E xi s1 o = Some lv /\
                       cs' = write_lval s1 lv vr.
  Proof.
    intros Hr H. destruct fuel as [|[|k]]; [rewrite cexec_0 in H; discriminate H| |]; rewrite cexec_expr in H by exact Hr.
    - rewrite ceval_0 in H. discriminate H.
    - rewrite ceval_asg in H.
      destruct (ceval E csub xi k cs e) as [[s1 vr]|] eqn:Ee; [|discriminate H].
      destruct (operand_lval E xi s1 o) as [lv|] eqn:Eo; [|discriminate H].
      cbn [option_map fst] in H. injection H as <-. eauto 10.
  Qed.

  Lemma operand_lval_reg cs cls letters acc : dest_cls cls -> access_of_letters letters = Some acc ->
    exists fb, operand_lval E xi cs (OReg cls letters) =
               Some (LReg (RIsa cls (substring 0 1 letters) false) (true, dest_w cls acc) fb).
  Proof.
    intros Hc Ha. cbn [operand_lval]. rewrite (proj1 (proj2 (dest_cls_widths cls Hc))).
    rewrite <- (access_pair _ _ Ha). unfold dest_w. eexists. reflexivity.
  Qed.

  (* ------------------------------------------------------------------ IL-side helpers *)
  Lemma runs_writereg r p ms w z : eval rw ms [] p = Some (VBv w z) -> rw r = w ->
    runs rw ilsubs (EWriteReg r p) ms (set_reg ms r z).
  Proof. intros He Hw. exists 1%nat. cbn [exec]. rewrite He, Hw, N.eqb_refl. reflexivity. Qed.

  Lemma runs_setl x p ms v : eval rw ms [] p = Some v ->
    (lookup x (locals ms) = None \/ exists old, lookup x (locals ms) = Some old /\ sort_of_val old = sort_of_val v) ->
    runs rw ilsubs (ESetL x p) ms (set_local ms x v).
  Proof.
    intros He Hl. exists 1%nat. cbn [exec]. rewrite He.
    destruct Hl as [-> | [old [-> Hs]]]; [reflexivity|]. rewrite Hs, sort_eqb_refl. reflexivity.
  Qed.

  (* ------------------------------------------------------------------ unfolding equations of the model's traversal *)
  Definition asg_tail (il ir : item) : M item :=
    do dest <- (match il with IPure p => ret p | _ => fail "assignment destination" end);
    do '(src, chained) <- (match ir with
                           | IPure p => ret (p, None)
                           | IAsg e p => ret (p, Some e)
                           | _ => fail "assignment source" end);
    do '(dest', src') <- cast_operands cfg true dest src;
    do src0 <- compound_src cfg AAssign dest' src';
    do src'' <- ret src0;
    do asg <- mk_assign dest' src'';
    do w <- hyb_wrapped asg;
    do r <- chk_hybrid_dep asg false false;
    match chained with
    | None => if w then ret (IEff r) else ret (IAsg r src'')
    | Some inner =>
        let '(sq, _) := mk_sequence [IEff r; IEff inner] in
        do _ <- touch;
        do r2 <- chk_hybrid_dep sq false false;
        ret (IEff r2)
    end.
  Lemma lower_expr_asg l r :
    lower_expr cfg (EAssign AAssign l r) = (do il <- lower_expr cfg l; do ir <- lower_expr cfg r; asg_tail il ir).
  Proof. reflexivity. Qed.
  Lemma lower_expr_op o : lower_expr cfg (EOp o) = lower_operand cfg o.
  Proof. reflexivity. Qed.
  Lemma lower_stmt_expr e : lower_stmt cfg (SExpr e) = (do i <- lower_expr cfg e; ret [i]).
  Proof. reflexivity. Qed.

  Definition decl_tail (ty : vtype) (x : string) (ii : item) : M (list item) :=
    do src <- as_pure "initializer" ii;
    do _ <- (match lookup x (cfg_params cfg) with Some _ => fail "already defined as parameter" | None => ret tt end);
    do s0 <- get;
    do dty <- (match lookup x (st_vars s0) with
               | Some (Some t0) => ret t0
               | _ => ret (pv_ty src) end);
    do '(_, src1) <- cast_operands cfg true (mkpv (PVarL x) dty (KVar x) []) src;
    do _ <- (if vt_const dty then fail "Can not write to the value declared as const" else ret tt);
    do _ <- set_var x (Some ty);
    do '(_, src2) <- cast_operands cfg true (mkpv (PVarL x) ty (KVar x) []) src1;
    do asg <- chk_hybrid_dep (mkle (ESetL x (rd src2)) (pv_tmps src1) false) false false;
    ret [IEff asg].
  Lemma lower_stmt_decl ts x e :
    lower_stmt cfg (SDecl ts x (Some e)) = (do ty <- decl_type ts; do ii <- lower_expr cfg e; decl_tail ty x ii).
  Proof. reflexivity. Qed.

  Definition if_tail (ic : item) (it : list item) (e : option cstmt) : M (list item) :=
    let '(tseq, ttree) := mk_sequence it in
    do _ <- touch;
    do tseq' <- chk_hybrid_dep tseq false ttree;
    match e with
    | None =>
        do pc <- (match ic with IPure p => ret p | _ => fail "condition" end);
        do r <- chk_hybrid_dep (mkle (EBranch (cond_of cfg pc) (le_term tseq') EEmpty) (item_tmps ic ++ le_tmps tseq') false) false false;
        ret [IEff r]
    | Some es =>
        do ie <- lower_stmt cfg es;
        let '(eseq, etree) := mk_sequence ie in
        do eseq' <- chk_hybrid_dep eseq false etree;
        do pc <- (match ic with IPure p => ret p | _ => fail "condition" end);
        do r <- chk_hybrid_dep (mkle (EBranch (cond_of cfg pc) (le_term tseq') (le_term eseq')) (item_tmps ic ++ le_tmps tseq' ++ le_tmps eseq') false) false false;
        ret [IEff r]
    end.
  Lemma lower_stmt_if c t e :
    lower_stmt cfg (SIf c t e) = (do ic <- lower_expr cfg c; do it <- lower_stmt cfg t; if_tail ic it e).
  Proof. reflexivity. Qed.
  Lemma lower_stmt_empty : lower_stmt cfg SEmpty = (do _ <- touch; do r <- chk_hybrid_dep empty_eff false false; ret [IEff r]).
  Proof. reflexivity. Qed.
  Lemma lower_stmt_nop : lower_stmt cfg SNop = (do _ <- touch; ret [IEff (mkle ENop [] false)]).
  Proof. reflexivity. Qed.
  Lemma lower_stmt_block_nil :
    lower_stmt cfg (SBlock SNil) = (do _ <- touch; do r <- chk_hybrid_dep empty_eff false false; ret [IEff r]).
  Proof. reflexivity. Qed.
  Lemma lower_stmt_block_cons s t : lower_stmt cfg (SBlock (SCons s t)) = lower_stmts cfg (SCons s t).
  Proof. reflexivity. Qed.
  Lemma lower_stmts_nil : lower_stmts cfg SNil = ret [].
  Proof. reflexivity. Qed.
  Lemma lower_stmts_cons s t :
    lower_stmts cfg (SCons s t) = (do a <- lower_stmt cfg s; do b <- lower_stmts cfg t; ret (a ++ b)).
  Proof. reflexivity. Qed.

  (* ------------------------------------------------------------------ the invariant *)
  Definition plain_item (i : item) : Prop := match i with IEff _ | IAsg _ _ | IVoid _ | IPure _ => True | _ => False end.
  (* the items of a loop-free statement mention no temporary *)
  Definition pitem (nl : bool) (i : item) : Prop := plain_item i /\ (nl = true -> item_tmps i = []).
  Lemma pitem_plain nl items : Forall (pitem nl) items -> Forall plain_item items.
  Proof. intros H. eapply Forall_impl; [|exact H]. intros i [Hi _]. exact Hi. Qed.
  Lemma pitem_weaken nl nl' items : (nl' = true -> nl = true) -> Forall (pitem nl) items -> Forall (pitem nl') items.
  Proof. intros Hn H. eapply Forall_impl; [|exact H]. intros i [Hi Ht]. split; [exact Hi | intros E'; exact (Ht (Hn E'))]. Qed.
  Lemma pitem_tmps items : Forall (pitem true) items -> flat_map item_tmps items = [].
  Proof. induction 1 as [|i l [_ Hi] _ IH]; [reflexivity|]. cbn [flat_map]. rewrite (Hi eq_refl), IH. reflexivity. Qed.

  (* the simulation diagram, for the C executor cex (cexec on a statement / cexecs on a list); J is the
     immediate prologue that has been executed (any list containing the entries the model has created) *)
  Definition sim (D V D' V' : list (string * option vtype)) (eff : effect) (cex : nat -> cstate -> option cstate) : Prop :=
    forall cs ms fuel cs', srel IM E D V cs ms -> imms_done IM E J cs ms -> cex fuel cs = Some cs' ->
      exists ms', runs rw ilsubs eff ms ms' /\ srel IM E D' V' cs' ms' /\ imms_done IM E J cs' ms'.

  Definition post (D V D' V' : list (string * option vtype)) (nl : bool) (st st' : lstate) (items : list item)
                  (cex : nat -> cstate -> option cstate) : Prop :=
    lst_ok IM D' st' /\ st_ext st st' /\ Forall (pitem nl) items /\
    (regs_le (st_regs st') R -> norem rem -> incl (st_imms st') J ->
      sim D V D' V' (fin_eff R rem (seqn (flat_map item_effects items))) cex).

  (* (D is the model's variable table, V the locals the run-time states are related on; vext V D) *)
  Definition SInv (D V : list (string * option vtype)) (s : cstmt) (D' V' : list (string * option vtype)) : Prop :=
    forall st, vext V D -> lst_ok IM D st -> st_pending st = [] \/ noloop s = true ->
      exists items st', lower_stmt cfg s st = OK (items, st') /\
        post D V D' V' (noloop s) st st' items (fun fuel cs => cexec E csub xi fuel cs s) /\
        (started st -> st_nonempty st' = true).

  Definition SsInv (D V : list (string * option vtype)) (l : cstmts) (D' V' : list (string * option vtype)) : Prop :=
    forall st, vext V D -> lst_ok IM D st -> st_pending st = [] \/ noloops l = true ->
      exists items st', lower_stmts cfg l st = OK (items, st') /\
        post D V D' V' (noloops l) st st' items (fun fuel cs => cexecs E csub xi fuel cs l) /\
        (started st -> l <> SNil -> st_nonempty st' = true).

  Lemma mk_assign_reg dest src st st' name : vt_const (pv_ty dest) = false -> pv_kind dest = KReg name ->
    add_write_property name st = OK (tt, st') ->
    mk_assign dest src st = OK (mkle (EWriteReg (RParam ("$reg:" +++ name)) (rd src)) (pv_tmps dest ++ pv_tmps src) false, st').
  Proof. intros H1 H2 H3. unfold mk_assign. rewrite H1, H2. unfold bind. rewrite H3. reflexivity. Qed.

  Lemma mk_assign_var dest src st x : vt_const (pv_ty dest) = false ->
    (pv_kind dest = KVar x \/ exists b, pv_kind dest = KTmp x b) ->
    mk_assign dest src st = OK (mkle (ESetL x (rd src)) (pv_tmps dest ++ pv_tmps src) false, st).
  Proof. intros H1 [H2 | [b H2]]; unfold mk_assign; rewrite H1, H2; reflexivity. Qed.

  Ltac step H := rewrite H; cbv beta iota.
  (* "this effect / item mentions no temporary" *)
  Ltac tm0 :=
    repeat match goal with x := _ : pval |- _ => subst x end;
    cbn [le_tmps item_tmps pv_tmps app empty_eff];
    repeat match goal with
    | H : pv_tmps ?p = [] |- context [pv_tmps ?p] => rewrite H
    | H : _ /\ pv_tmps ?p = [] |- context [pv_tmps ?p] => rewrite (proj2 H)
    | H : goodpv ?p |- context [pv_tmps ?p] => rewrite (goodpv_tmps p H)
    end; cbn [app]; reflexivity.
  Ltac pl0 := repeat (apply Forall_cons || apply Forall_nil); try (split; [exact I | intros _; tm0]).

  (* the expression of a statement: ExprCorrect.expr_inv, with the premises of its semantic half discharged
     from those of the statement's simulation *)
  (* (the model state may know more declared locals, Vl, than the run-time states are related on: ExprCorrect.vext) *)
  Lemma expr_sim_ext V Vl e st : pfrag rw IM V e -> vext V Vl -> lst_ok IM Vl st ->
    exists pv st2, lower_expr cfg e st = OK (IPure pv, st2) /\ st_ext st st2 /\ lst_ok IM Vl st2 /\ goodpv pv /\
      forall st3, st_ext st2 st3 -> regs_le (st_regs st3) R -> norem rem -> incl (st_imms st3) J ->
      forall cs ms, rel IM E V cs ms -> imms_done IM E J cs ms ->
        exists ilv, sem rw R rem ms pv ilv /\
          forall fuel cs' cv, ceval E csub xi fuel cs e = Some (cs', cv) -> cs' = cs /\ cv = cval_of (pv_ty pv) ilv.
  Proof.
    intros Hfrag Hext Hok.
    destruct (expr_inv subsigs macs cret hstart Hmacs Hssc rw R rem IM E csub Hcssc xi Hxiok V e Hfrag Vl st Hext Hok) as [pv [st2 [L2 [X2 [K2 [G2 [_ [_ Hsem]]]]]]]].
    exists pv, st2. repeat (split; [assumption|]).
    intros st3 X3 HR Hrem HJ cs ms Hrel Himm.
    destruct (Hsem (regs_le_trans _ _ _ (st_ext_regs _ _ X3) HR) Hrem cs ms Hrel
                   (imms_done_incl _ _ _ _ _ _ (incl_tran (st_ext_imms _ _ X3) HJ) Himm)) as [ilv [Sv Hcv]].
    exists ilv. split; [exact Sv|]. intros fuel cs' cv Hce. exact (Hcv fuel cs' cv Hce I).
  Qed.

  (* ------------------------------------------------------------------ RdV = e; *)
  Lemma sinv_asg_reg D V cls letters acc e :
    dest_cls cls -> access_of_letters letters = Some acc ->
    rw (RIsa cls (substring 0 1 letters) false) = dest_w cls acc ->
    pfrag rw IM V e -> SInv D V (SExpr (EAssign AAssign (EOp (OReg cls letters)) e)) D V.
  Proof.
    intros Hc Ha Hrw Hfrag st Hext Hok Hp.
    destruct (lower_reg_ok cls letters acc false st (or_introl Hc) Ha (lst_ok_regs_ok _ _ _ Hok)) as [st1 [L1 [V1 [I1 [X1 [R1 [N1 [ri1 Lk1]]]]]]]].
    assert (Hok1 : lst_ok IM D st1) by (eapply lst_ok_regs; eassumption).
    destruct (expr_sim_ext V D e st1 Hfrag Hext Hok1) as [pv [st2 [L2 [X2 [Hok2 [G2 Hsem]]]]]].
    set (n := rname cls letters false) in *.
    pose (dest := mkpv (PRaw ("$reg:" +++ n)) (ty_int true (dest_w cls acc)) (KReg n) []).
    destruct (cast_imm_ok dest pv st2 true (dest_w cls acc) (dest_w_okw cls acc Hc) (ity_int _ _) G2) as [src' [C1 [T1 Hc1]]].
    destruct (add_write_property_ok n st2 (lst_ok_regs_ok _ _ _ Hok2) (isa_not_pcname cls letters false (reg_cls_any false _ (or_introl Hc)) (access_in_table _ _ Ha))) as [st3 [W1 [V3 [I3 [X3 R3]]]]].
    assert (Hok3 : lst_ok IM D st3) by (eapply lst_ok_regs; eassumption).
    assert (X13 : st_ext st st3) by (eapply st_ext_trans; [exact X1|]; eapply st_ext_trans; eassumption).
    exists [IAsg (mkle (EWriteReg (RParam ("$reg:" +++ n)) (rd src')) (pv_tmps dest ++ pv_tmps src') false) src'], st3.
    split.
    { rewrite lower_stmt_expr, lower_expr_asg, lower_expr_op. cbn [lower_operand]. unfold asg_tail, bind, ret.
      step L1. step L2. fold dest. step C1. cbn [compound_src]. unfold ret.
      rewrite (mk_assign_reg dest src' st2 st3 n eq_refl eq_refl W1).
      rewrite ?hyb_nil by (right; tm0); rewrite chk_nil by (right; tm0). reflexivity. }
    split.
    { split; [exact Hok3|]. split; [exact X13|]. split; [pl0|].
      intros HR Hrem HJ cs ms fuel cs' Hrel Himm Hce.
      pose proof Hrel as [Hrel0 [Hloc [Hmem [Hret [Hres [Hj [Himl [Hcloc [Hvx Hht]]]]]]]]].
      destruct (Hsem st3 X3 HR Hrem HJ cs ms Hrel0 Himm) as [ilv [Sv Hcv]].
      destruct (Hc1 ms ilv Sv) as [z [Hz [Ez Cz]]].
      destruct (cexec_asg_inv fuel cs _ e cs' Hret Hce) as [k [s1 [vr [lv [Ee [Eo ->]]]]]].
      destruct (Hcv k s1 vr Ee) as [-> ->].
      destruct (operand_lval_reg cs cls letters acc Hc Ha) as [fb Eo']. rewrite Eo' in Eo. injection Eo as <-.
      cbn [write_lval]. rewrite Cz. cbn [snd].
      exists (set_reg ms (RIsa cls (substring 0 1 letters) false) z). split; [|split; [apply srel_set_reg; [exact Hrel | reflexivity] | apply imms_done_set_reg; exact Himm]].
      cbn [flat_map item_effects le_empty le_term app seqn fin_eff].
      assert (Lk3 : exists ri3, lookup_reg_info n (st_regs st3) = Some ri3).
      { destruct (st_ext_regs _ _ X2 _ _ Lk1) as [ri2 [H2 _]]. destruct (st_ext_regs _ _ X3 _ _ H2) as [ri3 [H3 _]]. eauto. }
      destruct Lk3 as [ri3 Lk3]. unfold n in *.
      rewrite (fin_op_dest R rem (st_regs st3) cls letters acc ri3 Hc Ha R3 Lk3 HR Hrem).
      eapply runs_writereg; [exact Ez | exact Hrw]. }
    intros Hst. eapply st_ext_nonempty; [exact X3|]. eapply st_ext_nonempty; [exact X2|]. exact (N1 Hst).
  Qed.


  (* ------------------------------------------------------------------ HEX_REG_ALIAS_<name> = e; *)
  Lemma sinv_asg_alias D V name new e :
    In name alias_names -> rw (alias_op name new) = alias_w name ->
    pfrag rw IM V e -> SInv D V (SExpr (EAssign AAssign (EOp (OAlias name new)) e)) D V.
  Proof.
    intros Hin Hrw Hfrag st Hext Hok Hp. destruct (alias_facts name Hin) as [_ [_ Hw]].
    destruct (lower_alias_ok cfg name new st Hin (lst_ok_regs_ok _ _ _ Hok)) as [st1 [L1 [V1 [I1 [X1 [R1 [N1 [ri1 Lk1]]]]]]]].
    assert (Hok1 : lst_ok IM D st1) by (eapply lst_ok_regs; eassumption).
    destruct (expr_sim_ext V D e st1 Hfrag Hext Hok1) as [pv [st2 [L2 [X2 [Hok2 [G2 Hsem]]]]]].
    set (n := alias_tname name new) in *.
    pose (dest := mkpv (PRaw ("$reg:" +++ n)) (ty_int false (alias_w name)) (KReg n) []).
    destruct (cast_imm_ok dest pv st2 false (alias_w name) Hw (ity_int _ _) G2) as [src' [C1 [T1 Hc1]]].
    destruct (add_write_property_ok n st2 (lst_ok_regs_ok _ _ _ Hok2) (alias_not_pcname name new Hin)) as [st3 [W1 [V3 [I3 [X3 R3]]]]].
    assert (Hok3 : lst_ok IM D st3) by (eapply lst_ok_regs; eassumption).
    assert (X13 : st_ext st st3) by (eapply st_ext_trans; [exact X1|]; eapply st_ext_trans; eassumption).
    exists [IAsg (mkle (EWriteReg (RParam ("$reg:" +++ n)) (rd src')) (pv_tmps dest ++ pv_tmps src') false) src'], st3.
    split.
    { rewrite lower_stmt_expr, lower_expr_asg, lower_expr_op. unfold asg_tail, bind, ret.
      step L1. step L2. fold dest. step C1. cbn [compound_src]. unfold ret.
      rewrite (mk_assign_reg dest src' st2 st3 n eq_refl eq_refl W1).
      rewrite ?hyb_nil by (right; tm0); rewrite chk_nil by (right; tm0). reflexivity. }
    split.
    { split; [exact Hok3|]. split; [exact X13|]. split; [pl0|].
      intros HR Hrem HJ cs ms fuel cs' Hrel Himm Hce.
      pose proof Hrel as [Hrel0 [Hloc [Hmem [Hret [Hres [Hj [Himl [Hcloc [Hvx Hht]]]]]]]]].
      destruct (Hsem st3 X3 HR Hrem HJ cs ms Hrel0 Himm) as [ilv [Sv Hcv]].
      destruct (Hc1 ms ilv Sv) as [z [Hz [Ez Cz]]].
      destruct (cexec_asg_inv fuel cs _ e cs' Hret Hce) as [k [s1 [vr [lv [Ee [Eo ->]]]]]].
      destruct (Hcv k s1 vr Ee) as [-> ->].
      cbn [operand_lval] in Eo. injection Eo as <-.
      change (RAlias ("HEX_REG_ALIAS_" ++ name)%string new) with (alias_op name new).
      cbn [write_lval]. fold (alias_w name). rewrite Cz. cbn [snd].
      exists (set_reg ms (alias_op name new) z). split; [|split; [apply srel_set_reg; [exact Hrel | apply alias_op_not_pc; exact Hin] | apply imms_done_set_reg; exact Himm]].
      cbn [flat_map item_effects le_empty le_term app seqn fin_eff].
      assert (Lk3 : exists ri3, lookup_reg_info n (st_regs st3) = Some ri3).
      { destruct (st_ext_regs _ _ X2 _ _ Lk1) as [ri2 [H2 _]]. destruct (st_ext_regs _ _ X3 _ _ H2) as [ri3 [H3 _]]. eauto. }
      destruct Lk3 as [ri3 Lk3]. unfold n in *.
      rewrite (fin_op_alias R rem (st_regs st3) name new ri3 Hin R3 Lk3 HR Hrem).
      eapply runs_writereg; [exact Ez | exact Hrw]. }
    intros Hst. eapply st_ext_nonempty; [exact X3|]. eapply st_ext_nonempty; [exact X2|]. exact (N1 Hst).
  Qed.


  (* ------------------------------------------------------------------ P0 = e;  (an explicit register: fWRITE_P0(e)) *)
  Lemma sinv_asg_expl D V name new e :
    In name expl_names -> rw (expl_op name new) = expl_w name ->
    pfrag rw IM V e -> SInv D V (SExpr (EAssign AAssign (EOp (OExplicit name new)) e)) D V.
  Proof.
    intros Hin Hrw Hfrag st Hext Hok Hp. destruct (expl_facts name new Hin) as [Hinfo [_ Hw]].
    destruct (lower_expl_ok cfg name new st Hin (lst_ok_regs_ok _ _ _ Hok)) as [st1 [L1 [V1 [I1 [X1 [R1 [N1 [ri1 Lk1]]]]]]]].
    assert (Hok1 : lst_ok IM D st1) by (eapply lst_ok_regs; eassumption).
    destruct (expr_sim_ext V D e st1 Hfrag Hext Hok1) as [pv [st2 [L2 [X2 [Hok2 [G2 Hsem]]]]]].
    set (n := expl_tname name new) in *.
    pose (dest := mkpv (PRaw ("$reg:" +++ n)) (ty_int true (expl_w name)) (KReg n) []).
    destruct (cast_imm_ok dest pv st2 true (expl_w name) Hw (ity_int _ _) G2) as [src' [C1 [T1 Hc1]]].
    destruct (add_write_property_ok n st2 (lst_ok_regs_ok _ _ _ Hok2) (expl_not_pcname name new Hin)) as [st3 [W1 [V3 [I3 [X3 R3]]]]].
    assert (Hok3 : lst_ok IM D st3) by (eapply lst_ok_regs; eassumption).
    assert (X13 : st_ext st st3) by (eapply st_ext_trans; [exact X1|]; eapply st_ext_trans; eassumption).
    exists [IAsg (mkle (EWriteReg (RParam ("$reg:" +++ n)) (rd src')) (pv_tmps dest ++ pv_tmps src') false) src'], st3.
    split.
    { rewrite lower_stmt_expr, lower_expr_asg, lower_expr_op. unfold asg_tail, bind, ret.
      step L1. step L2. fold dest. step C1. cbn [compound_src]. unfold ret.
      rewrite (mk_assign_reg dest src' st2 st3 n eq_refl eq_refl W1).
      rewrite ?hyb_nil by (right; tm0); rewrite chk_nil by (right; tm0). reflexivity. }
    split.
    { split; [exact Hok3|]. split; [exact X13|]. split; [pl0|].
      intros HR Hrem HJ cs ms fuel cs' Hrel Himm Hce.
      pose proof Hrel as [Hrel0 [Hloc [Hmem [Hret [Hres [Hj [Himl [Hcloc [Hvx Hht]]]]]]]]].
      destruct (Hsem st3 X3 HR Hrem HJ cs ms Hrel0 Himm) as [ilv [Sv Hcv]].
      destruct (Hc1 ms ilv Sv) as [z [Hz [Ez Cz]]].
      destruct (cexec_asg_inv fuel cs _ e cs' Hret Hce) as [k [s1 [vr [lv [Ee [Eo ->]]]]]].
      destruct (Hcv k s1 vr Ee) as [-> ->].
      cbn [operand_lval] in Eo. rewrite (Hxiok name new Hin), Hinfo in Eo. injection Eo as <-.
      cbn [write_lval]. rewrite Cz. cbn [snd].
      exists (set_reg ms (expl_op name new) z). split; [|split; [apply srel_set_reg; [exact Hrel | apply expl_op_not_pc; exact Hin] | apply imms_done_set_reg; exact Himm]].
      cbn [flat_map item_effects le_empty le_term app seqn fin_eff].
      assert (Lk3 : exists ri3, lookup_reg_info n (st_regs st3) = Some ri3).
      { destruct (st_ext_regs _ _ X2 _ _ Lk1) as [ri2 [H2 _]]. destruct (st_ext_regs _ _ X3 _ _ H2) as [ri3 [H3 _]]. eauto. }
      destruct Lk3 as [ri3 Lk3]. unfold n in *.
      rewrite (fin_op_expl R rem (st_regs st3) name new ri3 Hin R3 Lk3 HR Hrem).
      eapply runs_writereg; [exact Ez | exact Hrw]. }
    intros Hst. eapply st_ext_nonempty; [exact X3|]. eapply st_ext_nonempty; [exact X2|]. exact (N1 Hst).
  Qed.

  (* ------------------------------------------------------------------ riV = e;  (an immediate is assigned) *)
  Lemma sinv_asg_imm D V l e : IM l = true -> pfrag rw IM V e -> SInv D V (SExpr (EAssign AAssign (EOp (OImm l)) e)) D V.
  Proof.
    intros Hl Hfrag st Hext Hok Hp.
    destruct (imm_low subsigs macs cret hstart IM D l st Hl Hok) as [st1 [L1 [X1 [Hok1 [In1 N1]]]]].
    destruct (expr_sim_ext V D e st1 Hfrag Hext Hok1) as [pv [st2 [L2 [X2 [Hok2 [G2 Hsem]]]]]].
    pose (dest := mkpv (PVarL l) (imm_ty l) (KVar l) []).
    destruct (cast_imm_ok dest pv st2 (imm_signed l) 32 okw32 (ity_int _ _) G2) as [src' [C1 [T1 Hc1]]].
    exists [IAsg (mkle (ESetL l (rd src')) (pv_tmps dest ++ pv_tmps src') false) src'], st2.
    split.
    { rewrite lower_stmt_expr, lower_expr_asg, lower_expr_op. unfold bind at 1. unfold bind at 1. rewrite L1.
      unfold bind at 1. rewrite L2. unfold asg_tail, bind, ret. fold dest. step C1. cbn [compound_src]. unfold ret.
      rewrite (mk_assign_var dest src' st2 l eq_refl) by (left; reflexivity).
      rewrite ?hyb_nil by (right; tm0); rewrite chk_nil by (right; tm0). reflexivity. }
    split.
    { split; [exact Hok2|]. split; [eapply st_ext_trans; eassumption|]. split; [pl0|].
      intros HR Hrem HJ cs ms fuel cs' Hrel Himm Hce.
      pose proof Hrel as [Hrel0 [Hloc [Hmem [Hret _]]]].
      destruct (Hsem st2 (st_ext_refl _) HR Hrem HJ cs ms Hrel0 Himm) as [ilv [Sv Hcv]].
      destruct (Hc1 ms ilv Sv) as [z [Hz [Ez Cz]]].
      destruct (cexec_asg_inv fuel cs _ e cs' Hret Hce) as [k [s1 [vr [lv [Ee [Eo ->]]]]]].
      destruct (Hcv k s1 vr Ee) as [-> ->].
      cbn [operand_lval] in Eo. injection Eo as <-. cbn [write_lval].
      unfold imm_signed in Cz. cbn [existsb] in Cz. rewrite Cz.
      exists (set_local ms l (VBv 32 z)). split; [|split; [apply srel_asg_imm; assumption | apply imms_done_asg_imm; exact Himm]].
      cbn [flat_map item_effects le_empty le_term app seqn fin_eff].
      eapply runs_setl; [exact Ez|].
      right. exists (VBv 32 (cimm E cs l)). split; [|reflexivity]. apply (Himm l Hl). apply HJ. apply (st_ext_imms _ _ X2). exact In1. }
    intros Hst. eapply st_ext_nonempty; [exact X2|]. exact (N1 Hst).
  Qed.

  (* ------------------------------------------------------------------ x = e; *)
  Lemma sinv_asg_var D V x sg w e :
    lookup x V = Some (Some (ty_int sg w)) -> okw w ->
    pfrag rw IM V e -> SInv D V (SExpr (EAssign AAssign (EOp (OIdent x)) e)) D V.
  Proof.
    intros Hx Hw Hfrag st Hext Hok Hp.
    destruct (lst_ok_local IM D st x sg w Hok (Hext _ _ Hx)) as [Hxi [Hxh [tx [Hxs Htx]]]].
    destruct (expr_sim_ext V D e st Hfrag Hext Hok) as [pv [st2 [L2 [X2 [Hok2 [G2 Hsem]]]]]].
    pose (dest := mkpv (PVarL x) tx (if String.eqb (substring 0 5 x) "h_tmp" then KTmp x false else KVar x) []).
    destruct (cast_imm_ok dest pv st2 sg w Hw Htx G2) as [src' [C1 [T1 Hc1]]].
    exists [IAsg (mkle (ESetL x (rd src')) (pv_tmps dest ++ pv_tmps src') false) src'], st2.
    split.
    { rewrite lower_stmt_expr, lower_expr_asg, lower_expr_op. cbn [lower_operand cfg_params lookup].
      unfold asg_tail, bind, ret, get. rewrite Hxs. cbv beta iota. step L2. fold dest. step C1.
      cbn [compound_src]. unfold ret.
      rewrite (mk_assign_var dest src' st2 x (ity_const _ _ _ Htx)).
      2:{ unfold dest. cbn [pv_kind]. destruct (String.eqb (substring 0 5 x) "h_tmp"); eauto. }
      rewrite ?hyb_nil by (right; tm0); rewrite chk_nil by (right; tm0). reflexivity. }
    split.
    { split; [exact Hok2|]. split; [exact X2|]. split; [pl0|].
      intros HR Hrem HJ cs ms fuel cs' Hrel Himm Hce.
      pose proof Hrel as [Hrel0 [Hloc [Hmem [Hret [Hres [Hj [Himl [Hcloc [Hvx Hht]]]]]]]]].
      destruct (Hsem st2 (st_ext_refl _) HR Hrem HJ cs ms Hrel0 Himm) as [ilv [Sv Hcv]].
      destruct (Hc1 ms ilv Sv) as [z [Hz [Ez Cz]]].
      destruct (cexec_asg_inv fuel cs _ e cs' Hret Hce) as [k [s1 [vr [lv [Ee [Eo ->]]]]]].
      destruct (Hcv k s1 vr Ee) as [-> ->].
      destruct (proj1 Hrel0 x sg w Hx Hw) as [v [Hcx [Hv Hmx]]].
      cbn [operand_lval] in Eo. rewrite Hcx in Eo. injection Eo as <-.
      cbn [write_lval]. rewrite Cz.
      exists (set_local ms x (VBv w z)). split; [|split; [apply srel_set_var; assumption | apply imms_done_set_local; [exact (srel_nr _ _ _ _ _ _ _ _ Hrel Hx) | exact Himm]]].
      cbn [flat_map item_effects le_empty le_term app seqn fin_eff].
      eapply runs_setl; [exact Ez|].
      right. exists (VBv w v). split; [exact Hmx | reflexivity]. }
    intros [Hst | [Hst _]]; [exact (st_ext_nonempty _ _ X2 Hst)|]. rewrite Hst in Hxs. discriminate Hxs.
  Qed.

  (* ------------------------------------------------------------------ x += e;  x -= e;  x *= e; *)
  Definition casg_tail (a : asgop) (il ir : item) : M item :=
    do dest <- (match il with IPure p => ret p | _ => fail "assignment destination" end);
    do '(src, chained) <- (match ir with
                           | IPure p => ret (p, None)
                           | IAsg e p => ret (p, Some e)
                           | _ => fail "assignment source" end);
    do '(dest', src') <- (match a with
                          | AMod | AShr | AShl => ret (dest, src)
                          | ADiv => if fx_divmod (fx cfg) then ret (dest, src) else cast_operands cfg true dest src
                          | _ => cast_operands cfg true dest src end);
    do src0 <- compound_src cfg a dest' src';
    do src'' <- (match a with
                 | AAssign => ret src0
                 | _ => if fx_compound_conv (fx cfg)
                        then (do eq <- ty_eq (pv_ty dest') (pv_ty src0); if eq then ret src0 else init_a_cast cfg (pv_ty dest') src0)
                        else ret src0
                 end);
    do asg <- mk_assign dest' src'';
    do w <- hyb_wrapped asg;
    do r <- chk_hybrid_dep asg false false;
    match chained with
    | None => if w then ret (IEff r) else ret (IAsg r src'')
    | Some inner =>
        let '(sq, _) := mk_sequence [IEff r; IEff inner] in
        do _ <- touch;
        do r2 <- chk_hybrid_dep sq false false;
        ret (IEff r2)
    end.
  Lemma lower_expr_casg a l r :
    lower_expr cfg (EAssign a l r) = (do il <- lower_expr cfg l; do ir <- lower_expr cfg r; casg_tail a il ir).
  Proof. reflexivity. Qed.

  Definition cfun (a : asgop) : Z -> Z -> Z := match a with AAdd => Z.add | ASub => Z.sub | _ => Z.mul end.
  Definition cbop (a : asgop) : Ast.binop := match a with AAdd => Ast.BAdd | ASub => Ast.BSub | _ => Ast.BMul end.
  Definition cop (a : asgop) : RzIL.binop := match a with AAdd => RzIL.BAdd | ASub => RzIL.BSub | _ => RzIL.BMul end.

  Lemma ceval_casg k s a o e : (a = AAdd \/ a = ASub \/ a = AMul) ->
    ceval E csub xi (S k) s (EAssign a (EOp o) e) =
    match ceval E csub xi k s e with
    | Some (s1, vr) =>
        match operand_lval E xi s1 o with
        | Some lv => match read_lval E s1 lv with
                     | Some old => Some (write_lval s1 lv (c_arith (cfun a) old vr), conv (lval_ty lv) (c_arith (cfun a) old vr))
                     | None => None end
        | None => None end
    | None => None end.
  Proof. intros [-> | [-> | ->]]; reflexivity. Qed.

  (* conversion back to the type of the destination (D14 repaired) *)
  Lemma conv_back_ok T src st sg w : okw w -> ity T sg w -> goodpv src ->
    exists src', (do eq <- ty_eq T (pv_ty src); if eq then ret src else init_a_cast cfg T src) st = OK (src', st) /\
      ity (pv_ty src') sg w /\ goodpv src' /\
      forall ms v, sem rw R rem ms src v ->
        exists z, 0 <= z < pow2 w /\ eval rw ms [] (fin_pure R rem (pv_term src')) = Some (VBv w z) /\
                  conv (sg, w) (cval_of (pv_ty src) v) = ((sg, w), z).
  Proof.
    intros Hw HT Hg. destruct (ity_inv _ _ _ HT) as [hT ->]. unfold bind, ty_eq.
    rewrite (proj1 (goodpv_numeric src Hg)). cbn [is_numeric ty_h vt_void vt_ext negb andb ret].
    destruct (vtype_eqb (ty_h hT sg w) (pv_ty src)) eqn:Eeq.
    - exists src. split; [reflexivity|].
      pose proof Hg as [[Ht _] | [s0 [w0 [Hw0 [Ht _]]]]].
      + rewrite Ht in Eeq. exfalso. unfold vtype_eqb in Eeq. cbn in Eeq. okw_cases Hw; discriminate.
      + destruct (ity_inv _ _ _ Ht) as [h0 Et]. rewrite Et in Eeq.
        apply (vtype_eqb_h hT sg w h0 s0 w0) in Eeq. destruct Eeq as [<- <-]. split; [exact Ht|]. split; [exact Hg|].
        intros ms v Hs. destruct (sem_int rw R rem ms src v sg w Ht Hs) as [z [-> [Hz He]]].
        exists z. split; [exact Hz|]. split; [exact He|]. rewrite (cval_of_ity _ sg w z Ht).
        apply (conv_same ((sg, w), z)). split; auto.
    - destruct (init_a_cast_gen subsigs macs cret hstart rw R rem (ty_h hT sg w) sg w src st Hw (ity_h _ _ _) Hg) as [p' [H1 [H2 [H3 [_ H5]]]]].
      rewrite H1. exists p'. split; [reflexivity|]. split; [exact H3|]. split; [exact H2|].
      intros ms v Hs. destruct (H5 ms v Hs) as [v' [Hs' Hc]].
      destruct (sem_int rw R rem ms p' v' sg w H3 Hs') as [z [-> [Hz He]]].
      exists z. split; [exact Hz|]. split; [exact He|]. rewrite <- Hc, (cval_of_ity _ sg w z H3). reflexivity.
  Qed.

  Lemma cast_operands_imm a b st :
    cast_operands cfg true a b st =
    (do b' <- (do eq <- ty_eq (pv_ty a) (pv_ty b); if eq then ret b else init_a_cast cfg (pv_ty a) b); ret (a, b')) st.
  Proof. unfold cast_operands, bind. destruct (ty_eq (pv_ty a) (pv_ty b) st) as [[[|] s1]|]; reflexivity. Qed.

  Lemma sinv_casg_var D V a x sg w e :
    (a = AAdd \/ a = ASub \/ a = AMul) ->
    lookup x V = Some (Some (ty_int sg w)) -> okw w ->
    pfrag rw IM V e -> SInv D V (SExpr (EAssign a (EOp (OIdent x)) e)) D V.
  Proof.
    intros Ha Hx Hw Hfrag st Hext Hok Hp.
    destruct (lst_ok_local IM D st x sg w Hok (Hext _ _ Hx)) as [Hxi [Hxh [tx [Hxs Htx]]]].
    destruct (expr_sim_ext V D e st Hfrag Hext Hok) as [pv [st2 [L2 [X2 [Hok2 [G2 Hsem]]]]]].
    pose (kx := if String.eqb (substring 0 5 x) "h_tmp" then KTmp x false else KVar x).
    pose (dest := mkpv (PVarL x) tx kx []).
    assert (Gd : goodpv dest).
    { apply (goodpv_i _ sg w); [exact Hw | exact Htx | | reflexivity]. unfold dest, kx. cbn [pv_kind].
      destruct (String.eqb (substring 0 5 x) "h_tmp"); exact I. }
    (* the source converted to the type of x *)
    destruct (conv_back_ok tx pv st2 sg w Hw Htx G2) as [src' [C1 [T1 [G1 Hc1]]]].
    (* both operands promoted *)
    destruct (promotion_cast_ok subsigs macs cret hstart rw R rem dest st2 Gd) as [pd [A1 [A2 [A3 [A4 [_ A5]]]]]].
    destruct (promotion_cast_ok subsigs macs cret hstart rw R rem src' st2 G1) as [ps [B1 [B2 [B3 [B4 [_ B5]]]]]].
    rewrite (cty_of_ity _ sg w T1) in B3, B4, B5. change (pv_ty dest) with tx in A3, A4, A5.
    rewrite (cty_of_ity _ sg w Htx) in A3, A4, A5.
    set (tp := promote (sg, w)) in *.
    destruct (ity_inv _ _ _ A3) as [hA EA3]. destruct (ity_inv _ _ _ B3) as [hB EB3].
    pose (src0 := mkpv (PBin (cop a) (rd pd) (rd ps)) (pv_ty pd) KExec (pv_tmps pd ++ pv_tmps ps)).
    assert (G0 : goodpv src0).
    { apply (goodpv_i _ (fst tp) (snd tp)); [exact A4 | exact A3 | exact I | exact (goodpv_tmps2 pd ps A2 B2)]. }
    destruct (conv_back_ok tx src0 st2 sg w Hw Htx G0) as [src2 [D1 [T2 [Gs2 Hd1]]]].
    exists [IAsg (mkle (ESetL x (rd src2)) (pv_tmps dest ++ pv_tmps src2) false) src2], st2.
    split.
    { rewrite lower_stmt_expr, lower_expr_casg, lower_expr_op. cbn [lower_operand cfg_params lookup].
      unfold casg_tail. unfold bind at 1. unfold bind at 1. unfold bind at 1. unfold get. rewrite Hxs. unfold ret at 1.
      unfold bind at 1. rewrite L2. unfold bind at 1. unfold ret at 1. unfold bind at 1. unfold ret at 1. cbv beta iota.
      fold kx. fold dest.
      assert (Hco : cast_operands cfg true dest pv st2 = OK ((dest, src'), st2)).
      { rewrite cast_operands_imm. unfold bind at 1. change (pv_ty dest) with tx. rewrite C1. reflexivity. }
      assert (Hcs : compound_src cfg a dest src' st2 = OK (src0, st2)).
      { destruct Ha as [-> | [-> | ->]]; cbn [compound_src]; unfold bind; rewrite A1, B1; unfold ret, arith_il_exec, src0;
        rewrite EA3, EB3; cbn [vt_float ty_h andb]; reflexivity. }
      destruct Ha as [-> | [-> | ->]]; unfold bind at 1; rewrite Hco; cbv beta iota; unfold bind at 1; rewrite Hcs;
      cbn [fx cfg_fx fx_compound_conv all_fixes]; unfold bind at 1; change (pv_ty dest) with tx; rewrite D1;
      unfold bind; rewrite (mk_assign_var dest src2 st2 x (ity_const _ _ _ Htx));
      try (rewrite ?hyb_nil by (right; tm0); rewrite chk_nil by (right; tm0); reflexivity);
      unfold dest, kx; cbn [pv_kind]; destruct (String.eqb (substring 0 5 x) "h_tmp"); eauto. }
    split.
    { split; [exact Hok2|]. split; [exact X2|]. split; [pl0|].
      intros HR Hrem HJ cs ms fuel cs' Hrel Himm Hce.
      pose proof Hrel as [Hrel0 [Hloc [Hmem [Hret [Hres [Hj [Himl [Hcloc [Hvx Hht]]]]]]]]].
      destruct (proj1 Hrel0 x sg w Hx Hw) as [v0 [Hcx [Hv0 Hmx]]].
      assert (Sd : sem rw R rem ms dest (VBv w v0)) by (split; [exact Hmx | apply (shape_ity _ sg w); [exact Htx | exact Hv0]]).
      destruct (Hsem st2 (st_ext_refl _) HR Hrem HJ cs ms Hrel0 Himm) as [ilv [Sv Hcv]].
      destruct (Hc1 ms ilv Sv) as [z1 [Hz1 [Ez1 Cz1]]].
      assert (Ss : sem rw R rem ms src' (VBv w z1)) by (split; [exact Ez1 | apply (shape_ity _ _ _ _ T1); exact Hz1]).
      destruct (A5 ms _ Sd) as [vd [Sd' Cd]]. destruct (B5 ms _ Ss) as [vs [Ss' Cs]].
      destruct (sem_int rw R rem ms pd vd _ _ A3 Sd') as [xd [-> [Hxd Ed]]].
      destruct (sem_int rw R rem ms ps vs _ _ B3 Ss') as [xs [-> [Hxs' Es]]].
      rewrite EA3 in Cd. rewrite EB3 in Cs. rewrite (cval_of_ity _ _ _ z1 T1) in Cs. change (pv_ty dest) with tx in Cd.
      rewrite (cval_of_ity _ _ _ v0 Htx) in Cd. cbn [cval_of vt_sg ty_int ty_h] in Cd, Cs.
      assert (S0 : sem rw R rem ms src0 (VBv (snd tp) (wrap (snd tp) (cfun a xd xs)))).
      { split; [|unfold src0; cbn [pv_ty]; rewrite EA3; apply shape_h; apply wrap_range].
        unfold src0. cbn [pv_term fin_pure eval]. unfold rd. rewrite Ed, Es, N.eqb_refl.
        destruct Ha as [-> | [-> | ->]]; reflexivity. }
      destruct (Hd1 ms _ S0) as [z [Hz [Ez Cz]]].
      unfold src0 in Cz. cbn [pv_ty] in Cz. rewrite EA3 in Cz. cbn [cval_of vt_sg ty_h] in Cz.
      (* the C side *)
      destruct fuel as [|[|k]]; [rewrite cexec_0 in Hce; discriminate Hce| |]; rewrite cexec_expr in Hce by exact Hret.
      { rewrite ceval_0 in Hce. discriminate Hce. }
      rewrite (ceval_casg k cs a (OIdent x) e Ha) in Hce.
      destruct (ceval E csub xi k cs e) as [[s1 vr]|] eqn:Ee; [|discriminate Hce].
      destruct (Hcv k s1 vr Ee) as [-> ->].
      cbn [operand_lval] in Hce. rewrite Hcx in Hce. cbn [read_lval] in Hce. rewrite Hcx in Hce.
      cbn [option_map fst write_lval] in Hce.
      assert (Hval : conv (sg, w) (c_arith (cfun a) ((sg, w), v0) (cval_of (pv_ty pv) ilv)) = ((sg, w), z)).
      { rewrite compound_value; [| exact Hw | apply wfc_cval_of; [exact G2 | apply Sv] | destruct Ha as [-> | [-> | ->]]; unfold ring_fun; cbn; auto].
        fold tp. rewrite Cz1. rewrite <- Cd, <- Cs. cbn [snd]. destruct tp as [sp wp]. exact Cz. }
      assert (Hcs' : cs' = CSem.set_var cs x ((sg, w), z)) by (injection Hce as <-; f_equal; exact Hval).
      subst cs'. clear Hce.
      exists (set_local ms x (VBv w z)). split; [|split; [apply srel_set_var; assumption | apply imms_done_set_local; [exact (srel_nr _ _ _ _ _ _ _ _ Hrel Hx) | exact Himm]]].
      cbn [flat_map item_effects le_empty le_term app seqn fin_eff].
      eapply runs_setl; [exact Ez|].
      right. exists (VBv w v0). split; [exact Hmx | reflexivity]. }
    intros [Hst | [Hst _]]; [exact (st_ext_nonempty _ _ X2 Hst)|]. rewrite Hst in Hxs. discriminate Hxs.
  Qed.

  (* ------------------------------------------------------------------ RxV += e;  RxV -= e;  RxV *= e; *)
  (* the tail of the model's assignment callback, once its pieces are known *)
  Lemma casg_tail_ok a dest pv src' src0 src2 asg st2 st3 : (a = AAdd \/ a = ASub \/ a = AMul) ->
    cast_operands cfg true dest pv st2 = OK ((dest, src'), st2) ->
    compound_src cfg a dest src' st2 = OK (src0, st2) ->
    (do eq <- ty_eq (pv_ty dest) (pv_ty src0); if eq then ret src0 else init_a_cast cfg (pv_ty dest) src0) st2 = OK (src2, st2) ->
    mk_assign dest src2 st2 = OK (asg, st3) -> le_tmps asg = [] ->
    casg_tail a (IPure dest) (IPure pv) st2 = OK (IAsg asg src2, st3).
  Proof.
    intros Ha Hco Hcs D1 Hm Hp. unfold casg_tail.
    unfold bind at 1. unfold ret at 1. unfold bind at 1. unfold ret at 1. cbv beta iota.
    destruct Ha as [-> | [-> | ->]]; unfold bind at 1; rewrite Hco; cbv beta iota; unfold bind at 1; rewrite Hcs;
    cbn [fx cfg_fx fx_compound_conv all_fixes]; unfold bind at 1; rewrite D1;
    unfold bind; rewrite Hm; rewrite ?hyb_nil by (right; exact Hp); rewrite chk_nil by (right; exact Hp); reflexivity.
  Qed.

  Lemma read_lval_reg cs cls letters acc lv : dest_cls cls -> access_of_letters letters = Some acc ->
    operand_lval E xi cs (OReg cls letters) = Some lv ->
    lv = LReg (RIsa cls (substring 0 1 letters) false) (true, dest_w cls acc)
              (if write_only acc then Some 0 else Some (ce_rold E (RIsa cls (substring 0 1 letters) false))) /\
    read_lval E cs lv =
    Some (mkval (true, dest_w cls acc)
            (match lookup_reg (RIsa cls (substring 0 1 letters) false) (cs_regw cs) with
             | Some v => v
             | None => if write_only acc then 0 else ce_rold E (RIsa cls (substring 0 1 letters) false) end)).
  Proof.
    intros Hc Ha. cbn [operand_lval]. rewrite (proj1 (proj2 (dest_cls_widths cls Hc))).
    rewrite <- (access_pair _ _ Ha). change (if is_pair acc then (cls_w cls * 2)%N else cls_w cls) with (dest_w cls acc).
    cbn [existsb]. rewrite orb_false_r. rewrite <- (proj1 (access_write_only _ _ Ha)).
    intros H. injection H as <-. split; [reflexivity|]. cbn [read_lval].
    destruct (lookup_reg _ (cs_regw cs)); [reflexivity|]. destruct (write_only acc); reflexivity.
  Qed.

  Lemma sinv_casg_reg D V a cls letters acc e :
    (a = AAdd \/ a = ASub \/ a = AMul) ->
    dest_cls cls -> access_of_letters letters = Some acc ->
    rw (RIsa cls (substring 0 1 letters) false) = dest_w cls acc ->
    pfrag rw IM V e -> SInv D V (SExpr (EAssign a (EOp (OReg cls letters)) e)) D V.
  Proof.
    intros Ha Hc Hacc Hrw Hfrag st Hext Hok Hp.
    set (w := dest_w cls acc) in *. assert (Hw : okw w) by (apply dest_w_okw; exact Hc).
    set (r := RIsa cls (substring 0 1 letters) false) in *.
    destruct (lower_reg_ok cls letters acc false st (or_introl Hc) Hacc (lst_ok_regs_ok _ _ _ Hok)) as [st1 [L1 [V1 [I1 [X1 [R1 [N1 [ri1 Lk1]]]]]]]].
    assert (Hok1 : lst_ok IM D st1) by (eapply lst_ok_regs; eassumption).
    destruct (expr_sim_ext V D e st1 Hfrag Hext Hok1) as [pv [st2 [L2 [X2 [Hok2 [G2 Hsem]]]]]].
    set (n := rname cls letters false) in *.
    pose (dest := mkpv (PRaw ("$reg:" +++ n)) (ty_int true w) (KReg n) []).
    assert (Gd : goodpv dest) by (apply goodpv_reg; exact Hw).
    (* the source converted to the type of the register *)
    destruct (conv_back_ok (ty_int true w) pv st2 true w Hw (ity_int _ _) G2) as [src' [C1 [T1 [G1 Hc1]]]].
    (* both operands promoted *)
    destruct (promotion_cast_ok subsigs macs cret hstart rw R rem dest st2 Gd) as [pd [A1 [A2 [A3 [A4 [_ A5]]]]]].
    destruct (promotion_cast_ok subsigs macs cret hstart rw R rem src' st2 G1) as [ps [B1 [B2 [B3 [B4 [_ B5]]]]]].
    rewrite (cty_of_ity _ true w T1) in B3, B4, B5. change (pv_ty dest) with (ty_int true w) in A3, A4, A5.
    change (cty_of (ty_int true w)) with (true, w) in *.
    set (tp := promote (true, w)) in *.
    destruct (ity_inv _ _ _ A3) as [hA EA3]. destruct (ity_inv _ _ _ B3) as [hB EB3].
    pose (src0 := mkpv (PBin (cop a) (rd pd) (rd ps)) (pv_ty pd) KExec (pv_tmps pd ++ pv_tmps ps)).
    assert (G0 : goodpv src0).
    { apply (goodpv_i _ (fst tp) (snd tp)); [exact A4 | exact A3 | exact I | exact (goodpv_tmps2 pd ps A2 B2)]. }
    destruct (conv_back_ok (ty_int true w) src0 st2 true w Hw (ity_int _ _) G0) as [src2 [D1 [T2 [Gs2 Hd1]]]].
    destruct (add_write_property_ok n st2 (lst_ok_regs_ok _ _ _ Hok2) (isa_not_pcname cls letters false (reg_cls_any false _ (or_introl Hc)) (access_in_table _ _ Hacc))) as [st3 [W1 [V3 [I3 [X3 R3]]]]].
    assert (Hok3 : lst_ok IM D st3) by (eapply lst_ok_regs; eassumption).
    exists [IAsg (mkle (EWriteReg (RParam ("$reg:" +++ n)) (rd src2)) (pv_tmps dest ++ pv_tmps src2) false) src2], st3.
    split.
    { rewrite lower_stmt_expr, lower_expr_casg, lower_expr_op. cbn [lower_operand].
      unfold bind at 1. unfold bind at 1. unfold bind at 1. rewrite L1. unfold ret at 1. unfold bind at 1. rewrite L2.
      fold dest.
      assert (Hco : cast_operands cfg true dest pv st2 = OK ((dest, src'), st2)).
      { rewrite cast_operands_imm. unfold bind at 1. change (pv_ty dest) with (ty_int true w). rewrite C1. reflexivity. }
      assert (Hcs : compound_src cfg a dest src' st2 = OK (src0, st2)).
      { destruct Ha as [-> | [-> | ->]]; cbn [compound_src]; unfold bind; rewrite A1, B1; unfold ret, arith_il_exec, src0;
        rewrite EA3, EB3; cbn [vt_float ty_h andb]; reflexivity. }
      change (mkpv (PRaw ("$reg:" +++ n)) (ty_int true (dest_w cls acc)) (KReg n) []) with dest.
      rewrite (casg_tail_ok a dest pv src' src0 src2 _ st2 st3 Ha Hco Hcs D1
                 (mk_assign_reg dest src2 st2 st3 n eq_refl eq_refl W1)) by tm0. reflexivity. }
    split.
    { split; [exact Hok3|]. split; [eapply st_ext_trans; [exact X1|]; eapply st_ext_trans; eassumption|]. split; [pl0|].
      intros HR Hrem HJ cs ms fuel cs' Hrel Himm Hce.
      pose proof Hrel as [Hrel0 [Hloc [Hmem [Hret [Hres [Hj [Himl [Hcloc [Hvx Hht]]]]]]]]].
      pose proof Hrel0 as [_ [Hregw [Hrold _]]].
      (* the old value of the register, read on the IL side *)
      set (v0 := wrap w (match lookup_reg r (rnew ms) with Some v => v | None => if write_only acc then 0 else rold ms r end)).
      assert (Hle2 : regs_le (st_regs st1) R).
      { eapply regs_le_trans; [exact (st_ext_regs _ _ X2)|]. eapply regs_le_trans; [exact (st_ext_regs _ _ X3) | exact HR]. }
      assert (Sd : sem rw R rem ms dest (VBv w v0)).
      { split; [|apply shape_int; apply wrap_range]. unfold dest. cbn [pv_term]. unfold n.
        rewrite (fin_reg_read R rem (st_regs st1) cls letters acc false ri1 (or_introl Hc) Hacc R1 Lk1 Hle2 Hrem).
        cbn [eval]. rewrite orb_false_r, (rop_dest cls letters false Hc), (read_reg_src rw ms cls letters acc Hacc).
        fold r. rewrite Hrw. reflexivity. }
      destruct (Hsem st3 X3 HR Hrem HJ cs ms Hrel0 Himm) as [ilv [Sv Hcv]].
      destruct (Hc1 ms ilv Sv) as [z1 [Hz1 [Ez1 Cz1]]].
      assert (Ss : sem rw R rem ms src' (VBv w z1)) by (split; [exact Ez1 | apply (shape_ity _ _ _ _ T1); exact Hz1]).
      destruct (A5 ms _ Sd) as [vd [Sd' Cd]]. destruct (B5 ms _ Ss) as [vs [Ss' Cs]].
      destruct (sem_int rw R rem ms pd vd _ _ A3 Sd') as [xd [-> [Hxd Ed]]].
      destruct (sem_int rw R rem ms ps vs _ _ B3 Ss') as [xs [-> [Hxs' Es]]].
      rewrite EA3 in Cd. rewrite EB3 in Cs. rewrite (cval_of_ity _ _ _ z1 T1) in Cs. cbn [cval_of vt_sg ty_int ty_h pv_ty dest] in Cd, Cs.
      assert (S0 : sem rw R rem ms src0 (VBv (snd tp) (wrap (snd tp) (cfun a xd xs)))).
      { split; [|unfold src0; cbn [pv_ty]; rewrite EA3; apply shape_h; apply wrap_range].
        unfold src0. cbn [pv_term fin_pure eval]. unfold rd. rewrite Ed, Es, N.eqb_refl.
        destruct Ha as [-> | [-> | ->]]; reflexivity. }
      destruct (Hd1 ms _ S0) as [z [Hz [Ez Cz]]].
      unfold src0 in Cz. cbn [pv_ty] in Cz. rewrite EA3 in Cz. cbn [cval_of vt_sg ty_h] in Cz.
      (* the C side *)
      destruct fuel as [|[|k]]; [rewrite cexec_0 in Hce; discriminate Hce| |]; rewrite cexec_expr in Hce by exact Hret.
      { rewrite ceval_0 in Hce. discriminate Hce. }
      rewrite (ceval_casg k cs a (OReg cls letters) e Ha) in Hce.
      destruct (ceval E csub xi k cs e) as [[s1 vr]|] eqn:Ee; [|discriminate Hce].
      destruct (Hcv k s1 vr Ee) as [-> ->].
      destruct (operand_lval E xi cs (OReg cls letters)) as [lv|] eqn:Eo; [|discriminate Hce].
      destruct (read_lval_reg cs cls letters acc lv Hc Hacc Eo) as [-> Erd]. rewrite Erd in Hce.
      cbn [option_map fst write_lval] in Hce. fold r w in Hce. rewrite Hregw, Hrold in Hce.
      unfold mkval in Hce. cbn [snd] in Hce. fold v0 in Hce.
      assert (Hval : conv (true, w) (c_arith (cfun a) ((true, w), v0) (cval_of (pv_ty pv) ilv)) = ((true, w), z)).
      { rewrite compound_value; [| exact Hw | apply wfc_cval_of; [exact G2 | apply Sv] | destruct Ha as [-> | [-> | ->]]; unfold ring_fun; cbn; auto].
        fold tp. rewrite Cz1. rewrite <- Cd, <- Cs. cbn [snd]. destruct tp as [sp wp]. exact Cz. }
      assert (Hcs' : cs' = set_regw cs r z).
      { injection Hce as <-. apply (f_equal (set_regw cs r)). exact (f_equal snd Hval). }
      subst cs'. clear Hce.
      exists (set_reg ms r z). split; [|split; [apply srel_set_reg; [exact Hrel | reflexivity] | apply imms_done_set_reg; exact Himm]].
      cbn [flat_map item_effects le_empty le_term app seqn fin_eff].
      assert (Lk3 : exists ri3, lookup_reg_info n (st_regs st3) = Some ri3).
      { destruct (st_ext_regs _ _ X2 _ _ Lk1) as [ri2 [H2 _]]. destruct (st_ext_regs _ _ X3 _ _ H2) as [ri3 [H3 _]]. eauto. }
      destruct Lk3 as [ri3 Lk3]. unfold n in *.
      rewrite (fin_op_dest R rem (st_regs st3) cls letters acc ri3 Hc Hacc R3 Lk3 HR Hrem).
      eapply runs_writereg; [exact Ez | exact Hrw]. }
    intros Hst. eapply st_ext_nonempty; [exact X3|]. eapply st_ext_nonempty; [exact X2|]. exact (N1 Hst).
  Qed.


  (* ------------------------------------------------------------------ x <<= e;  x >>= e;  RxV <<= e;  RxV >>= e; *)
  Definition is_sasg (a : asgop) : Prop := a = AShl \/ a = AShr.
  Definition sleft (a : asgop) : bool := match a with AShl => true | _ => false end.
  Lemma ceval_sasg k s a o e : is_sasg a ->
    ceval E csub xi (S k) s (EAssign a (EOp o) e) =
    match ceval E csub xi k s e with
    | Some (s1, vr) =>
        match operand_lval E xi s1 o with
        | Some lv => match read_lval E s1 lv with
                     | Some old => match c_shift (sleft a) old vr with
                                   | Some res => Some (write_lval s1 lv res, conv (lval_ty lv) res)
                                   | None => None end
                     | None => None end
        | None => None end
    | None => None end.
  Proof. intros [-> | ->]; reflexivity. Qed.

  (* the tail of the model's assignment callback for the compound shifts: the source is NOT converted to the type of the
     destination first; both operands are promoted, the result is converted back *)
  Lemma sasg_tail_ok a dest pv src0 src2 asg st2 st3 : is_sasg a ->
    compound_src cfg a dest pv st2 = OK (src0, st2) ->
    (do eq <- ty_eq (pv_ty dest) (pv_ty src0); if eq then ret src0 else init_a_cast cfg (pv_ty dest) src0) st2 = OK (src2, st2) ->
    mk_assign dest src2 st2 = OK (asg, st3) -> le_tmps asg = [] ->
    casg_tail a (IPure dest) (IPure pv) st2 = OK (IAsg asg src2, st3).
  Proof.
    intros Ha Hcs D1 Hm Hp. unfold casg_tail.
    unfold bind at 1. unfold ret at 1. unfold bind at 1. unfold ret at 1. cbv beta iota.
    destruct Ha as [-> | ->]; unfold bind at 1; unfold ret at 1; cbv beta iota; unfold bind at 1; rewrite Hcs;
    cbn [fx cfg_fx fx_compound_conv all_fixes]; unfold bind at 1; rewrite D1;
    unfold bind; rewrite Hm; rewrite ?hyb_nil by (right; exact Hp); rewrite chk_nil by (right; exact Hp); reflexivity.
  Qed.

  Lemma sinv_sasg_var D V a x sg w e :
    is_sasg a -> lookup x V = Some (Some (ty_int sg w)) -> okw w ->
    pfrag rw IM V e -> SInv D V (SExpr (EAssign a (EOp (OIdent x)) e)) D V.
  Proof.
    intros Ha Hx Hw Hfrag st Hext Hok Hp.
    destruct (lst_ok_local IM D st x sg w Hok (Hext _ _ Hx)) as [Hxi [Hxh [tx [Hxs Htx]]]].
    destruct (expr_sim_ext V D e st Hfrag Hext Hok) as [pv [st2 [L2 [X2 [Hok2 [G2 Hsem]]]]]].
    pose (kx := if String.eqb (substring 0 5 x) "h_tmp" then KTmp x false else KVar x).
    pose (dest := mkpv (PVarL x) tx kx []).
    assert (Gd : goodpv dest).
    { apply (goodpv_i _ sg w); [exact Hw | exact Htx | | reflexivity]. unfold dest, kx. cbn [pv_kind].
      destruct (String.eqb (substring 0 5 x) "h_tmp"); exact I. }
    destruct (shift_compound_ok subsigs macs cret hstart rw R rem a dest pv st2 Ha Gd G2) as [src0 [Hcs [G0 Hs0]]].
    destruct (conv_back_ok tx src0 st2 sg w Hw Htx G0) as [src2 [D1 [T2 [Gs2 Hd1]]]].
    exists [IAsg (mkle (ESetL x (rd src2)) (pv_tmps dest ++ pv_tmps src2) false) src2], st2.
    split.
    { rewrite lower_stmt_expr, lower_expr_casg, lower_expr_op. cbn [lower_operand cfg_params lookup].
      unfold bind at 1. unfold bind at 1. unfold bind at 1. unfold get. rewrite Hxs. unfold ret at 1.
      unfold bind at 1. rewrite L2. fold kx. fold dest.
      rewrite (sasg_tail_ok a dest pv src0 src2 _ st2 st2 Ha Hcs D1 (mk_assign_var dest src2 st2 x (ity_const _ _ _ Htx)
                 ltac:(unfold dest, kx; cbn [pv_kind]; destruct (String.eqb (substring 0 5 x) "h_tmp"); eauto))) by tm0.
      reflexivity. }
    split.
    { split; [exact Hok2|]. split; [exact X2|]. split; [pl0|].
      intros HR Hrem HJ cs ms fuel cs' Hrel Himm Hce.
      pose proof Hrel as [Hrel0 [Hloc [Hmem [Hret [Hres [Hj [Himl [Hcloc [Hvx Hht]]]]]]]]].
      destruct (proj1 Hrel0 x sg w Hx Hw) as [v0 [Hcx [Hv0 Hmx]]].
      assert (Sd : sem rw R rem ms dest (VBv w v0)) by (split; [exact Hmx | apply (shape_ity _ sg w); [exact Htx | exact Hv0]]).
      destruct (Hsem st2 (st_ext_refl _) HR Hrem HJ cs ms Hrel0 Himm) as [ilv [Sv Hcv]].
      destruct (Hs0 ms _ _ Sd Sv) as [vr0 [S0 Hc0]].
      destruct (Hd1 ms _ S0) as [z [Hz [Ez Cz]]].
      change (pv_ty dest) with tx in Hc0. rewrite (cval_of_ity _ _ _ v0 Htx) in Hc0.
      (* the C side *)
      destruct fuel as [|[|k]]; [rewrite cexec_0 in Hce; discriminate Hce| |]; rewrite cexec_expr in Hce by exact Hret.
      { rewrite ceval_0 in Hce. discriminate Hce. }
      rewrite (ceval_sasg k cs a (OIdent x) e Ha) in Hce.
      destruct (ceval E csub xi k cs e) as [[s1 vr]|] eqn:Ee; [|discriminate Hce].
      destruct (Hcv k s1 vr Ee) as [-> ->].
      cbn [operand_lval] in Hce. rewrite Hcx in Hce. cbn [read_lval] in Hce. rewrite Hcx in Hce.
      assert (Hsl : sleft a = match a with AShl => true | _ => false end) by reflexivity. rewrite Hsl in Hce.
      match type of Hce with context [c_shift ?a1 ?a2 ?a3] => destruct (c_shift a1 a2 a3) as [res|] eqn:Esh end; [|discriminate Hce].
      rewrite (Hc0 res Esh) in Hce. cbn [option_map fst] in Hce. unfold write_lval in Hce.
      assert (Hcs' : cs' = CSem.set_var cs x ((sg, w), z)) by (injection Hce as <-; f_equal; exact Cz).
      subst cs'. clear Hce.
      exists (set_local ms x (VBv w z)). split; [|split; [apply srel_set_var; assumption | apply imms_done_set_local; [exact (srel_nr _ _ _ _ _ _ _ _ Hrel Hx) | exact Himm]]].
      cbn [flat_map item_effects le_empty le_term app seqn fin_eff].
      eapply runs_setl; [exact Ez|].
      right. exists (VBv w v0). split; [exact Hmx | reflexivity]. }
    intros [Hst | [Hst _]]; [exact (st_ext_nonempty _ _ X2 Hst)|]. rewrite Hst in Hxs. discriminate Hxs.
  Qed.

  Lemma sinv_sasg_reg D V a cls letters acc e :
    is_sasg a -> dest_cls cls -> access_of_letters letters = Some acc ->
    rw (RIsa cls (substring 0 1 letters) false) = dest_w cls acc ->
    pfrag rw IM V e -> SInv D V (SExpr (EAssign a (EOp (OReg cls letters)) e)) D V.
  Proof.
    intros Ha Hc Hacc Hrw Hfrag st Hext Hok Hp.
    set (w := dest_w cls acc) in *. assert (Hw : okw w) by (apply dest_w_okw; exact Hc).
    set (r := RIsa cls (substring 0 1 letters) false) in *.
    destruct (lower_reg_ok cls letters acc false st (or_introl Hc) Hacc (lst_ok_regs_ok _ _ _ Hok)) as [st1 [L1 [V1 [I1 [X1 [R1 [N1 [ri1 Lk1]]]]]]]].
    assert (Hok1 : lst_ok IM D st1) by (eapply lst_ok_regs; eassumption).
    destruct (expr_sim_ext V D e st1 Hfrag Hext Hok1) as [pv [st2 [L2 [X2 [Hok2 [G2 Hsem]]]]]].
    set (n := rname cls letters false) in *.
    pose (dest := mkpv (PRaw ("$reg:" +++ n)) (ty_int true w) (KReg n) []).
    assert (Gd : goodpv dest) by (apply (goodpv_i _ true w); [exact Hw | apply ity_int | exact I | reflexivity]).
    destruct (shift_compound_ok subsigs macs cret hstart rw R rem a dest pv st2 Ha Gd G2) as [src0 [Hcs [G0 Hs0]]].
    destruct (conv_back_ok (ty_int true w) src0 st2 true w Hw (ity_int _ _) G0) as [src2 [D1 [T2 [Gs2 Hd1]]]].
    destruct (add_write_property_ok n st2 (lst_ok_regs_ok _ _ _ Hok2) (isa_not_pcname cls letters false (reg_cls_any false _ (or_introl Hc)) (access_in_table _ _ Hacc))) as [st3 [W1 [V3 [I3 [X3 R3]]]]].
    assert (Hok3 : lst_ok IM D st3) by (eapply lst_ok_regs; eassumption).
    exists [IAsg (mkle (EWriteReg (RParam ("$reg:" +++ n)) (rd src2)) (pv_tmps dest ++ pv_tmps src2) false) src2], st3.
    split.
    { rewrite lower_stmt_expr, lower_expr_casg, lower_expr_op. cbn [lower_operand].
      unfold bind at 1. unfold bind at 1. unfold bind at 1. rewrite L1. unfold ret at 1. unfold bind at 1. rewrite L2.
      fold dest.
      change (mkpv (PRaw ("$reg:" +++ n)) (ty_int true (dest_w cls acc)) (KReg n) []) with dest.
      rewrite (sasg_tail_ok a dest pv src0 src2 _ st2 st3 Ha Hcs D1 (mk_assign_reg dest src2 st2 st3 n eq_refl eq_refl W1)) by tm0.
      reflexivity. }
    split.
    { split; [exact Hok3|]. split; [eapply st_ext_trans; [exact X1|]; eapply st_ext_trans; eassumption|]. split; [pl0|].
      intros HR Hrem HJ cs ms fuel cs' Hrel Himm Hce.
      pose proof Hrel as [Hrel0 [Hloc [Hmem [Hret [Hres [Hj [Himl [Hcloc [Hvx Hht]]]]]]]]].
      pose proof Hrel0 as [_ [Hregw [Hrold _]]].
      set (v0 := wrap w (match lookup_reg r (rnew ms) with Some v => v | None => if write_only acc then 0 else rold ms r end)).
      assert (Hv0 : 0 <= v0 < pow2 w) by apply wrap_range.
      assert (Hle2 : regs_le (st_regs st1) R).
      { eapply regs_le_trans; [exact (st_ext_regs _ _ X2)|]. eapply regs_le_trans; [exact (st_ext_regs _ _ X3) | exact HR]. }
      assert (Ed : eval rw ms [] (fin_pure R rem (pv_term dest)) = Some (VBv w v0)).
      { unfold dest. cbn [pv_term]. unfold n.
        rewrite (fin_reg_read R rem (st_regs st1) cls letters acc false ri1 (or_introl Hc) Hacc R1 Lk1 Hle2 Hrem).
        cbn [eval]. rewrite orb_false_r, (rop_dest cls letters false Hc), (read_reg_src rw ms cls letters acc Hacc).
        fold r. rewrite Hrw. reflexivity. }
      assert (Sd : sem rw R rem ms dest (VBv w v0)) by (split; [exact Ed | apply (shape_ity _ true w); [apply ity_int | exact Hv0]]).
      destruct (Hsem st3 X3 HR Hrem HJ cs ms Hrel0 Himm) as [ilv [Sv Hcv]].
      destruct (Hs0 ms _ _ Sd Sv) as [vr0 [S0 Hc0]].
      destruct (Hd1 ms _ S0) as [z [Hz [Ez Cz]]].
      change (pv_ty dest) with (ty_int true w) in Hc0. cbn [cval_of vt_sg ty_int] in Hc0.
      destruct fuel as [|[|k]]; [rewrite cexec_0 in Hce; discriminate Hce| |]; rewrite cexec_expr in Hce by exact Hret.
      { rewrite ceval_0 in Hce. discriminate Hce. }
      rewrite (ceval_sasg k cs a (OReg cls letters) e Ha) in Hce.
      destruct (ceval E csub xi k cs e) as [[s1 vr]|] eqn:Ee; [|discriminate Hce].
      destruct (Hcv k s1 vr Ee) as [-> ->].
      destruct (operand_lval E xi cs (OReg cls letters)) as [lv|] eqn:Eo; [|discriminate Hce].
      destruct (read_lval_reg cs cls letters acc lv Hc Hacc Eo) as [-> Erd]. rewrite Erd in Hce.
      fold r w in Hce. rewrite Hregw, Hrold in Hce.
      unfold mkval in Hce. cbn [snd] in Hce. fold v0 in Hce.
      assert (Hsl : sleft a = match a with AShl => true | _ => false end) by reflexivity. rewrite Hsl in Hce.
      match type of Hce with context [c_shift ?a1 ?a2 ?a3] => destruct (c_shift a1 a2 a3) as [res|] eqn:Esh end; [|discriminate Hce].
      rewrite (Hc0 res Esh) in Hce. cbn [option_map fst] in Hce. unfold write_lval in Hce.
      assert (Hcs' : cs' = set_regw cs r z).
      { injection Hce as <-. apply (f_equal (set_regw cs r)). exact (f_equal snd Cz). }
      subst cs'. clear Hce.
      exists (set_reg ms r z). split; [|split; [apply srel_set_reg; [exact Hrel | reflexivity] | apply imms_done_set_reg; exact Himm]].
      cbn [flat_map item_effects le_empty le_term app seqn fin_eff].
      assert (Lk3 : exists ri3, lookup_reg_info n (st_regs st3) = Some ri3).
      { destruct (st_ext_regs _ _ X2 _ _ Lk1) as [ri2 [H2 _]]. destruct (st_ext_regs _ _ X3 _ _ H2) as [ri3 [H3 _]]. eauto. }
      destruct Lk3 as [ri3 Lk3]. unfold n in *.
      rewrite (fin_op_dest R rem (st_regs st3) cls letters acc ri3 Hc Hacc R3 Lk3 HR Hrem).
      eapply runs_writereg; [exact Ez | exact Hrw]. }
    intros Hst. eapply st_ext_nonempty; [exact X3|]. eapply st_ext_nonempty; [exact X2|]. exact (N1 Hst).
  Qed.

  (* ------------------------------------------------------------------ x &= e;  x |= e;  x ^= e;  RxV &= e; ... *)
  Definition bfun (a : asgop) : Z -> Z -> Z := match a with AAnd => Z.land | AOr => Z.lor | _ => Z.lxor end.
  Definition bop (a : asgop) : RzIL.binop := match a with AAnd => BLogAnd | AOr => BLogOr | _ => BLogXor end.
  Definition is_basg (a : asgop) : Prop := a = AAnd \/ a = AOr \/ a = AXor.
  Lemma bfun_bit a : bit_fun3 (bfun a).
  Proof. unfold bit_fun3. destruct a; cbn; auto. Qed.

  Lemma ceval_basg k s a o e : is_basg a ->
    ceval E csub xi (S k) s (EAssign a (EOp o) e) =
    match ceval E csub xi k s e with
    | Some (s1, vr) =>
        match operand_lval E xi s1 o with
        | Some lv => match read_lval E s1 lv with
                     | Some old => Some (write_lval s1 lv (c_bitop (bfun a) old vr), conv (lval_ty lv) (c_bitop (bfun a) old vr))
                     | None => None end
        | None => None end
    | None => None end.
  Proof. intros [-> | [-> | ->]]; reflexivity. Qed.

  (* the tail of the model's assignment callback for the bitwise compound operators: no promotion, the operation is done
     at the type of the destination, and the conversion back (D14) is the identity *)
  Lemma basg_tail_ok a dest pv src' asg st2 st3 h sg w : is_basg a -> pv_ty dest = ty_h h sg w ->
    cast_operands cfg true dest pv st2 = OK ((dest, src'), st2) ->
    mk_assign dest (mkpv (PBin (bop a) (rd dest) (rd src')) (ty_h h sg w) KExec (pv_tmps dest ++ pv_tmps src')) st2 = OK (asg, st3) ->
    le_tmps asg = [] ->
    casg_tail a (IPure dest) (IPure pv) st2 =
    OK (IAsg asg (mkpv (PBin (bop a) (rd dest) (rd src')) (ty_h h sg w) KExec (pv_tmps dest ++ pv_tmps src')), st3).
  Proof.
    intros Ha Hd Hco Hm Hp. unfold casg_tail.
    unfold bind at 1. unfold ret at 1. unfold bind at 1. unfold ret at 1. cbv beta iota.
    destruct Ha as [-> | [-> | ->]]; unfold bind at 1; rewrite Hco; cbv beta iota; cbn [compound_src];
    unfold bind at 1; unfold bind at 1; unfold need_numeric; rewrite Hd; cbn [is_numeric ty_h vt_void vt_ext negb andb];
    unfold ret at 1; unfold ret at 1; cbn [fx cfg_fx fx_compound_conv all_fixes pv_ty];
    unfold bind at 1; unfold bind at 1; unfold ty_eq; cbn [is_numeric ty_h vt_void vt_ext negb andb]; unfold ret at 1;
    rewrite vtype_eqb_refl; unfold ret at 1;
    unfold bitop_il_exec; cbn [String.eqb Ascii.eqb Bool.eqb bop] in *;
    unfold bind; rewrite Hm; rewrite ?hyb_nil by (right; exact Hp); rewrite chk_nil by (right; exact Hp); reflexivity.
  Qed.

  Lemma sinv_basg_var D V a x sg w e :
    is_basg a -> lookup x V = Some (Some (ty_int sg w)) -> okw w ->
    pfrag rw IM V e -> SInv D V (SExpr (EAssign a (EOp (OIdent x)) e)) D V.
  Proof.
    intros Ha Hx Hw Hfrag st Hext Hok Hp.
    destruct (lst_ok_local IM D st x sg w Hok (Hext _ _ Hx)) as [Hxi [Hxh [tx [Hxs Htx]]]].
    destruct (ity_inv _ _ _ Htx) as [hx Etx].
    destruct (expr_sim_ext V D e st Hfrag Hext Hok) as [pv [st2 [L2 [X2 [Hok2 [G2 Hsem]]]]]].
    pose (kx := if String.eqb (substring 0 5 x) "h_tmp" then KTmp x false else KVar x).
    pose (dest := mkpv (PVarL x) tx kx []).
    destruct (conv_back_ok tx pv st2 sg w Hw Htx G2) as [src' [C1 [T1 [G1 Hc1]]]].
    pose (src0 := mkpv (PBin (bop a) (rd dest) (rd src')) (ty_h hx sg w) KExec (pv_tmps dest ++ pv_tmps src')).
    exists [IAsg (mkle (ESetL x (rd src0)) (pv_tmps dest ++ pv_tmps src0) false) src0], st2.
    split.
    { rewrite lower_stmt_expr, lower_expr_casg, lower_expr_op. cbn [lower_operand cfg_params lookup].
      unfold bind at 1. unfold bind at 1. unfold bind at 1. unfold get. rewrite Hxs. unfold ret at 1.
      unfold bind at 1. rewrite L2. fold kx. fold dest.
      assert (Hco : cast_operands cfg true dest pv st2 = OK ((dest, src'), st2)).
      { rewrite cast_operands_imm. unfold bind at 1. change (pv_ty dest) with tx. rewrite C1. reflexivity. }
      rewrite (basg_tail_ok a dest pv src' _ st2 st2 hx sg w Ha Etx Hco (mk_assign_var dest src0 st2 x (ity_const _ _ _ Htx)
                 ltac:(unfold dest, kx; cbn [pv_kind]; destruct (String.eqb (substring 0 5 x) "h_tmp"); eauto))) by tm0.
      reflexivity. }
    split.
    { split; [exact Hok2|]. split; [exact X2|]. split; [pl0|].
      intros HR Hrem HJ cs ms fuel cs' Hrel Himm Hce.
      pose proof Hrel as [Hrel0 [Hloc [Hmem [Hret [Hres [Hj [Himl [Hcloc [Hvx Hht]]]]]]]]].
      destruct (proj1 Hrel0 x sg w Hx Hw) as [v0 [Hcx [Hv0 Hmx]]].
      destruct (Hsem st2 (st_ext_refl _) HR Hrem HJ cs ms Hrel0 Himm) as [ilv [Sv Hcv]].
      destruct (Hc1 ms ilv Sv) as [z1 [Hz1 [Ez1 Cz1]]].
      pose proof (bit_fun3_range (bfun a) w v0 z1 (bfun_bit a) Hw Hv0 Hz1) as Hz.
      assert (Ez : eval rw ms [] (fin_pure R rem (pv_term src0)) = Some (VBv w (bfun a v0 z1))).
      { unfold src0. cbn [pv_term fin_pure eval]. unfold rd at 1. cbn [pv_term dest fin_pure eval]. unfold rd. rewrite Hmx, Ez1, N.eqb_refl.
        destruct Ha as [-> | [-> | ->]]; reflexivity. }
      destruct fuel as [|[|k]]; [rewrite cexec_0 in Hce; discriminate Hce| |]; rewrite cexec_expr in Hce by exact Hret.
      { rewrite ceval_0 in Hce. discriminate Hce. }
      rewrite (ceval_basg k cs a (OIdent x) e Ha) in Hce.
      destruct (ceval E csub xi k cs e) as [[s1 vr]|] eqn:Ee; [|discriminate Hce].
      destruct (Hcv k s1 vr Ee) as [-> ->].
      cbn [operand_lval] in Hce. rewrite Hcx in Hce. cbn [read_lval] in Hce. rewrite Hcx in Hce.
      cbn [option_map fst write_lval] in Hce.
      assert (Hval : conv (sg, w) (c_bitop (bfun a) ((sg, w), v0) (cval_of (pv_ty pv) ilv)) = ((sg, w), bfun a v0 z1)).
      { rewrite bit_compound_value; [| exact Hw | apply wfc_cval_of; [exact G2 | apply Sv] | apply bfun_bit | exact Hv0].
        rewrite Cz1. reflexivity. }
      assert (Hcs' : cs' = CSem.set_var cs x ((sg, w), bfun a v0 z1)) by (injection Hce as <-; f_equal; exact Hval).
      subst cs'. clear Hce.
      exists (set_local ms x (VBv w (bfun a v0 z1))). split; [|split; [apply srel_set_var; assumption | apply imms_done_set_local; [exact (srel_nr _ _ _ _ _ _ _ _ Hrel Hx) | exact Himm]]].
      cbn [flat_map item_effects le_empty le_term app seqn fin_eff].
      eapply runs_setl; [exact Ez|].
      right. exists (VBv w v0). split; [exact Hmx | reflexivity]. }
    intros [Hst | [Hst _]]; [exact (st_ext_nonempty _ _ X2 Hst)|]. rewrite Hst in Hxs. discriminate Hxs.
  Qed.

  Lemma sinv_basg_reg D V a cls letters acc e :
    is_basg a -> dest_cls cls -> access_of_letters letters = Some acc ->
    rw (RIsa cls (substring 0 1 letters) false) = dest_w cls acc ->
    pfrag rw IM V e -> SInv D V (SExpr (EAssign a (EOp (OReg cls letters)) e)) D V.
  Proof.
    intros Ha Hc Hacc Hrw Hfrag st Hext Hok Hp.
    set (w := dest_w cls acc) in *. assert (Hw : okw w) by (apply dest_w_okw; exact Hc).
    set (r := RIsa cls (substring 0 1 letters) false) in *.
    destruct (lower_reg_ok cls letters acc false st (or_introl Hc) Hacc (lst_ok_regs_ok _ _ _ Hok)) as [st1 [L1 [V1 [I1 [X1 [R1 [N1 [ri1 Lk1]]]]]]]].
    assert (Hok1 : lst_ok IM D st1) by (eapply lst_ok_regs; eassumption).
    destruct (expr_sim_ext V D e st1 Hfrag Hext Hok1) as [pv [st2 [L2 [X2 [Hok2 [G2 Hsem]]]]]].
    set (n := rname cls letters false) in *.
    pose (dest := mkpv (PRaw ("$reg:" +++ n)) (ty_int true w) (KReg n) []).
    destruct (conv_back_ok (ty_int true w) pv st2 true w Hw (ity_int _ _) G2) as [src' [C1 [T1 [G1 Hc1]]]].
    pose (src0 := mkpv (PBin (bop a) (rd dest) (rd src')) (ty_int true w) KExec (pv_tmps dest ++ pv_tmps src')).
    destruct (add_write_property_ok n st2 (lst_ok_regs_ok _ _ _ Hok2) (isa_not_pcname cls letters false (reg_cls_any false _ (or_introl Hc)) (access_in_table _ _ Hacc))) as [st3 [W1 [V3 [I3 [X3 R3]]]]].
    assert (Hok3 : lst_ok IM D st3) by (eapply lst_ok_regs; eassumption).
    exists [IAsg (mkle (EWriteReg (RParam ("$reg:" +++ n)) (rd src0)) (pv_tmps dest ++ pv_tmps src0) false) src0], st3.
    split.
    { rewrite lower_stmt_expr, lower_expr_casg, lower_expr_op. cbn [lower_operand].
      unfold bind at 1. unfold bind at 1. unfold bind at 1. rewrite L1. unfold ret at 1. unfold bind at 1. rewrite L2.
      fold dest.
      assert (Hco : cast_operands cfg true dest pv st2 = OK ((dest, src'), st2)).
      { rewrite cast_operands_imm. unfold bind at 1. change (pv_ty dest) with (ty_int true w). rewrite C1. reflexivity. }
      change (mkpv (PRaw ("$reg:" +++ n)) (ty_int true (dest_w cls acc)) (KReg n) []) with dest.
      rewrite (basg_tail_ok a dest pv src' _ st2 st3 false true w Ha eq_refl Hco (mk_assign_reg dest src0 st2 st3 n eq_refl eq_refl W1)) by tm0.
      reflexivity. }
    split.
    { split; [exact Hok3|]. split; [eapply st_ext_trans; [exact X1|]; eapply st_ext_trans; eassumption|]. split; [pl0|].
      intros HR Hrem HJ cs ms fuel cs' Hrel Himm Hce.
      pose proof Hrel as [Hrel0 [Hloc [Hmem [Hret [Hres [Hj [Himl [Hcloc [Hvx Hht]]]]]]]]].
      pose proof Hrel0 as [_ [Hregw [Hrold _]]].
      set (v0 := wrap w (match lookup_reg r (rnew ms) with Some v => v | None => if write_only acc then 0 else rold ms r end)).
      assert (Hv0 : 0 <= v0 < pow2 w) by apply wrap_range.
      assert (Hle2 : regs_le (st_regs st1) R).
      { eapply regs_le_trans; [exact (st_ext_regs _ _ X2)|]. eapply regs_le_trans; [exact (st_ext_regs _ _ X3) | exact HR]. }
      assert (Ed : eval rw ms [] (fin_pure R rem (pv_term dest)) = Some (VBv w v0)).
      { unfold dest. cbn [pv_term]. unfold n.
        rewrite (fin_reg_read R rem (st_regs st1) cls letters acc false ri1 (or_introl Hc) Hacc R1 Lk1 Hle2 Hrem).
        cbn [eval]. rewrite orb_false_r, (rop_dest cls letters false Hc), (read_reg_src rw ms cls letters acc Hacc).
        fold r. rewrite Hrw. reflexivity. }
      destruct (Hsem st3 X3 HR Hrem HJ cs ms Hrel0 Himm) as [ilv [Sv Hcv]].
      destruct (Hc1 ms ilv Sv) as [z1 [Hz1 [Ez1 Cz1]]].
      pose proof (bit_fun3_range (bfun a) w v0 z1 (bfun_bit a) Hw Hv0 Hz1) as Hz.
      assert (Ez : eval rw ms [] (fin_pure R rem (pv_term src0)) = Some (VBv w (bfun a v0 z1))).
      { unfold src0. cbn [pv_term fin_pure eval]. unfold rd at 1. rewrite Ed. unfold rd. rewrite Ez1, N.eqb_refl.
        destruct Ha as [-> | [-> | ->]]; reflexivity. }
      destruct fuel as [|[|k]]; [rewrite cexec_0 in Hce; discriminate Hce| |]; rewrite cexec_expr in Hce by exact Hret.
      { rewrite ceval_0 in Hce. discriminate Hce. }
      rewrite (ceval_basg k cs a (OReg cls letters) e Ha) in Hce.
      destruct (ceval E csub xi k cs e) as [[s1 vr]|] eqn:Ee; [|discriminate Hce].
      destruct (Hcv k s1 vr Ee) as [-> ->].
      destruct (operand_lval E xi cs (OReg cls letters)) as [lv|] eqn:Eo; [|discriminate Hce].
      destruct (read_lval_reg cs cls letters acc lv Hc Hacc Eo) as [-> Erd]. rewrite Erd in Hce.
      cbn [option_map fst write_lval] in Hce. fold r w in Hce. rewrite Hregw, Hrold in Hce.
      unfold mkval in Hce. cbn [snd] in Hce. fold v0 in Hce.
      assert (Hval : conv (true, w) (c_bitop (bfun a) ((true, w), v0) (cval_of (pv_ty pv) ilv)) = ((true, w), bfun a v0 z1)).
      { rewrite bit_compound_value; [| exact Hw | apply wfc_cval_of; [exact G2 | apply Sv] | apply bfun_bit | exact Hv0].
        rewrite Cz1. reflexivity. }
      assert (Hcs' : cs' = set_regw cs r (bfun a v0 z1)).
      { injection Hce as <-. apply (f_equal (set_regw cs r)). exact (f_equal snd Hval). }
      subst cs'. clear Hce.
      exists (set_reg ms r (bfun a v0 z1)). split; [|split; [apply srel_set_reg; [exact Hrel | reflexivity] | apply imms_done_set_reg; exact Himm]].
      cbn [flat_map item_effects le_empty le_term app seqn fin_eff].
      assert (Lk3 : exists ri3, lookup_reg_info n (st_regs st3) = Some ri3).
      { destruct (st_ext_regs _ _ X2 _ _ Lk1) as [ri2 [H2 _]]. destruct (st_ext_regs _ _ X3 _ _ H2) as [ri3 [H3 _]]. eauto. }
      destruct Lk3 as [ri3 Lk3]. unfold n in *.
      rewrite (fin_op_dest R rem (st_regs st3) cls letters acc ri3 Hc Hacc R3 Lk3 HR Hrem).
      eapply runs_writereg; [exact Ez | exact Hrw]. }
    intros Hst. eapply st_ext_nonempty; [exact X3|]. eapply st_ext_nonempty; [exact X2|]. exact (N1 Hst).
  Qed.

  (* ------------------------------------------------------------------ T x = e; *)
  Lemma set_var_fresh x t st : lookup x (st_vars st) = None ->
    set_var x t st = OK (tt, mkst (st_vars st ++ [(x, t)]) (st_regs st) (st_pending st) (st_hcount st) (st_imms st) true (st_removed st)).
  Proof. intros H. unfold set_var, bind, get, put. rewrite (lookup_none_existsb x _ H). reflexivity. Qed.

  Lemma lst_ok_decl V st x sg w : lst_ok IM V st -> ~ reserved IM x ->
    lst_ok IM (V ++ [(x, Some (ty_int sg w))])
      (mkst (st_vars st ++ [(x, Some (ty_int sg w))]) (st_regs st) (st_pending st) (st_hcount st) (st_imms st) true (st_removed st)).
  Proof.
    intros [H1 [H2 [H3 [H4 H5]]]] Hnr. destruct (not_reserved_imm IM x Hnr) as [Hx _]. pose proof (not_reserved_htmp IM x Hnr) as Hxh.
    unfold lst_ok. cbn [st_vars st_imms st_regs].
    split; [|split; [|split; [|split; [|exact H5]]]].
    - intros y Hy Hh. rewrite !lookup_app. specialize (H1 y Hy Hh).
      destruct (lookup y (st_vars st)) as [o|]; cbn [option_map] in *; rewrite <- H1; [reflexivity|].
      cbn [lookup]. destruct (String.eqb y x); reflexivity.
    - intros l Hl. rewrite lookup_app, (H2 l Hl). cbn [lookup].
      destruct (String.eqb_spec l x) as [->|_]; [|reflexivity]. destruct Hl as [Hl | Hl]; congruence.
    - intros l Hl. rewrite lookup_snoc_other by (apply (imm_letter_neq IM); assumption). exact (H3 l Hl).
    - eapply Forall_impl; [|exact H4]. intros e [l [A [B C]]]. exists l. split; [exact A|]. split; [exact B|].
      apply lookup_snoc_some. exact C.
  Qed.

  Lemma sinv_decl D V ts sg w x e :
    decl_ty ts sg w -> lookup x D = None -> ~ reserved IM x ->
    pfrag rw IM V e -> SInv D V (SDecl ts x (Some e)) (D ++ [(x, Some (ty_int sg w))]) (V ++ [(x, Some (ty_int sg w))]).
  Proof.
    intros Hts Hx Hnr Hfrag st Hext Hok Hp. pose proof (vext_none V D x Hext Hx) as HxV.
    destruct (not_reserved_imm IM x Hnr) as [Hxi _].
    destruct (decl_ty_ok ts sg w st Hts) as [Hdt [Hrc Hw]].
    destruct (expr_sim_ext V D e st Hfrag Hext Hok) as [pv [st2 [L2 [X2 [Hok2 [G2 Hsem]]]]]].
    assert (Hx2 : lookup x (st_vars st2) = None) by (exact (lst_ok_none IM D st2 x Hok2 Hxi (not_reserved_htmp IM x Hnr) Hx)).
    set (st3 := mkst (st_vars st2 ++ [(x, Some (ty_int sg w))]) (st_regs st2) (st_pending st2) (st_hcount st2) (st_imms st2) true (st_removed st2)).
    assert (X3 : st_ext st2 st3).
    { unfold st_ext, st3; cbn [st_pending st_hcount st_imms st_removed st_nonempty st_regs]. repeat split; auto using incl_refl, regs_le_refl, N.le_refl. }
    destruct (cast_imm_ok (mkpv (PVarL x) (ty_int sg w) (KVar x) []) pv st3 sg w Hw (ity_int _ _) G2) as [src2 [C2 [T2 Hc2]]].
    exists [IEff (mkle (ESetL x (rd src2)) (pv_tmps pv) false)], st3.
    split.
    { rewrite lower_stmt_decl. unfold bind. rewrite Hdt. step L2.
      unfold decl_tail, bind, ret, get. cbn [as_pure cfg_params lookup ret]. unfold ret. rewrite Hx2.
      rewrite (cast_self_ok (mkpv (PVarL x) (pv_ty pv) (KVar x) []) pv st2 G2 eq_refl). cbv beta iota.
      rewrite (proj2 (goodpv_numeric pv G2)). rewrite (set_var_fresh x _ st2 Hx2). fold st3. step C2.
      rewrite ?hyb_nil by (right; tm0); rewrite chk_nil by (right; tm0). reflexivity. }
    split.
    { split; [apply lst_ok_decl; assumption|]. split; [eapply st_ext_trans; eassumption|]. split; [pl0|].
      intros HR Hrem HJ cs ms fuel cs' Hrel Himm Hce.
      pose proof Hrel as [Hrel0 [Hloc [Hmem [Hret [Hres [Hj [Himl [Hcloc [Hvx Hht]]]]]]]]].
      destruct (Hsem st3 X3 HR Hrem HJ cs ms Hrel0 Himm) as [ilv [Sv Hcv]].
      destruct (Hc2 ms ilv Sv) as [z [Hz [Ez Cz]]].
      destruct fuel as [|k]; [rewrite cexec_0 in Hce; discriminate Hce|].
      rewrite cexec_decl in Hce by exact Hret. rewrite Hrc in Hce.
      destruct (ceval E csub xi k cs e) as [[s1 vr]|] eqn:Ee; [|discriminate Hce].
      destruct (Hcv k s1 vr Ee) as [-> ->]. injection Hce as <-. rewrite Cz.
      exists (set_local ms x (VBv w z)). split; [|split; [apply srel_decl; assumption | apply imms_done_set_local; assumption]].
      cbn [flat_map item_effects le_empty le_term app seqn fin_eff].
      eapply runs_setl; [exact Ez|]. left. exact (Hloc x HxV Hnr). }
    intros _. reflexivity.
  Qed.

  (* ------------------------------------------------------------------ T x;   (declared, no value yet) *)
  Lemma lower_stmt_decl0 ts x :
    lower_stmt cfg (SDecl ts x None) =
    (do ty <- decl_type ts;
     do s0 <- get;
     do _ <- (match lookup x (cfg_params cfg) with Some _ => fail "already defined as parameter" | None => ret tt end);
     do _ <- (if existsb (fun p => String.eqb (fst p) x) (st_vars s0) then ret tt else set_var x (Some ty));
     do _ <- touch;
     do r <- chk_hybrid_dep empty_eff false false; ret [IEff r]).
  Proof. reflexivity. Qed.
  Lemma cexec_decl0 k s t x : cs_ret s = None ->
    cexec E csub xi (S k) s (SDecl t x None) =
    match resolve_ty_c t with
    | Some ty => Some (mkcs ((x, (ty, None)) :: cs_vars s) (cs_regw s) (cs_mem s) (cs_jump s) (cs_ret s) (cs_events s))
    | None => None end.
  Proof. intros H. cbn [cexec]. rewrite H. reflexivity. Qed.

  Lemma sinv_decl0 D V ts sg w x :
    decl_ty ts sg w -> lookup x D = None -> ~ reserved IM x ->
    SInv D V (SDecl ts x None) (D ++ [(x, Some (ty_int sg w))]) V.
  Proof.
    intros Hts Hx Hnr st Hext Hok Hp.
    destruct (not_reserved_imm IM x Hnr) as [Hxi _].
    destruct (decl_ty_ok ts sg w st Hts) as [Hdt [Hrc Hw]].
    assert (Hx2 : lookup x (st_vars st) = None) by (exact (lst_ok_none IM D st x Hok Hxi (not_reserved_htmp IM x Hnr) Hx)).
    set (st3 := mkst (st_vars st ++ [(x, Some (ty_int sg w))]) (st_regs st) (st_pending st) (st_hcount st) (st_imms st) true (st_removed st)).
    exists [IEff empty_eff], st3.
    split.
    { rewrite lower_stmt_decl0. unfold bind at 1. rewrite Hdt. unfold bind at 1. unfold get. cbn [cfg_params lookup].
      unfold bind at 1. unfold ret at 1. unfold bind at 1.
      rewrite (lookup_none_existsb x _ Hx2). rewrite (set_var_fresh x _ st Hx2). fold st3.
      unfold bind at 1. rewrite touch_eq. change (touched st3) with st3.
      unfold bind. rewrite chk_nil by (right; tm0). reflexivity. }
    split; [|intros _; reflexivity].
    split; [apply lst_ok_decl; assumption|].
    split. { unfold st_ext, st3; cbn [st_pending st_hcount st_imms st_removed st_nonempty st_regs]. repeat split; auto using incl_refl, regs_le_refl, N.le_refl. }
    split; [pl0|].
    intros HR Hrem HJ cs ms fuel cs' Hrel Himm Hce.
    destruct fuel as [|k]; [rewrite cexec_0 in Hce; discriminate Hce|].
    rewrite cexec_decl0 in Hce by (apply (srel_ret _ _ _ _ _ _ Hrel)). rewrite Hrc in Hce. injection Hce as <-.
    exists ms. split; [|split; [apply srel_decl0; assumption|]].
    2:{ revert Himm. apply imms_done_gen; [|reflexivity]. intros l _.
        destruct (not_reserved_imm IM x Hnr) as [_ Hic]. unfold cimm. cbn [cs_vars lookup]. rewrite (imm_cname_neq x l Hic). reflexivity. }
    cbn [flat_map item_effects le_empty empty_eff app seqn fin_eff]. apply runs_empty. reflexivity.
  Qed.

  (* ------------------------------------------------------------------ x = e;   (the first assignment of a local declared without initialiser) *)
  Lemma sinv_asg_first D V x sg w e :
    lookup x D = Some (Some (ty_int sg w)) -> lookup x V = None -> okw w ->
    pfrag rw IM V e -> SInv D V (SExpr (EAssign AAssign (EOp (OIdent x)) e)) D (V ++ [(x, Some (ty_int sg w))]).
  Proof.
    intros Hx HxV Hw Hfrag st Hext Hok Hp.
    destruct (lst_ok_local IM D st x sg w Hok Hx) as [Hxi [Hxh [tx [Hxs Htx]]]].
    destruct (expr_sim_ext V D e st Hfrag Hext Hok) as [pv [st2 [L2 [X2 [Hok2 [G2 Hsem]]]]]].
    pose (dest := mkpv (PVarL x) tx (if String.eqb (substring 0 5 x) "h_tmp" then KTmp x false else KVar x) []).
    destruct (cast_imm_ok dest pv st2 sg w Hw Htx G2) as [src' [C1 [T1 Hc1]]].
    exists [IAsg (mkle (ESetL x (rd src')) (pv_tmps dest ++ pv_tmps src') false) src'], st2.
    split.
    { rewrite lower_stmt_expr, lower_expr_asg, lower_expr_op. cbn [lower_operand cfg_params lookup].
      unfold asg_tail, bind, ret, get. rewrite Hxs. cbv beta iota. step L2. fold dest. step C1.
      cbn [compound_src]. unfold ret.
      rewrite (mk_assign_var dest src' st2 x (ity_const _ _ _ Htx)).
      2:{ unfold dest. cbn [pv_kind]. destruct (String.eqb (substring 0 5 x) "h_tmp"); eauto. }
      rewrite ?hyb_nil by (right; tm0); rewrite chk_nil by (right; tm0). reflexivity. }
    split.
    { split; [exact Hok2|]. split; [exact X2|]. split; [pl0|].
      intros HR Hrem HJ cs ms fuel cs' Hrel Himm Hce.
      pose proof Hrel as [Hrel0 [Hloc [Hmem [Hret [Hres [Hj [Himl [Hcloc [Hvx Hht]]]]]]]]].
      assert (Hnr : ~ reserved IM x) by (intros Hr; rewrite (Hres x Hr) in Hx; discriminate Hx).
      destruct (Hsem st2 (st_ext_refl _) HR Hrem HJ cs ms Hrel0 Himm) as [ilv [Sv Hcv]].
      destruct (Hc1 ms ilv Sv) as [z [Hz [Ez Cz]]].
      destruct (cexec_asg_inv fuel cs _ e cs' Hret Hce) as [k [s1 [vr [lv [Ee [Eo ->]]]]]].
      destruct (Hcv k s1 vr Ee) as [-> ->].
      pose proof (Hcloc x HxV Hnr) as Hcx. rewrite Hx in Hcx. cbn [vt_sg vt_w ty_int] in Hcx.
      cbn [operand_lval] in Eo. rewrite Hcx in Eo. injection Eo as <-.
      cbn [write_lval]. rewrite Cz.
      exists (set_local ms x (VBv w z)). split; [|split; [apply srel_first; assumption | apply imms_done_set_local; assumption]].
      cbn [flat_map item_effects le_empty le_term app seqn fin_eff].
      eapply runs_setl; [exact Ez|]. left. exact (Hloc x HxV Hnr). }
    intros [Hst | [Hst _]]; [exact (st_ext_nonempty _ _ X2 Hst)|]. rewrite Hst in Hxs. discriminate Hxs.
  Qed.


  (* ------------------------------------------------------------------ EA = e;  (first assignment: implicit declaration) *)
  Lemma lower_operand_implicit x st : implicit_name x -> lookup x (st_vars st) = None ->
    lower_operand cfg (OIdent x) st =
    OK (IPure (mkpv (PVarL x) (ty_int false 32) (KVar x) []),
        mkst (st_vars st ++ [(x, Some (ty_int false 32))]) (st_regs st) (st_pending st) (st_hcount st) (st_imms st) true (st_removed st)).
  Proof.
    intros [-> | [-> | [-> | ->]]] H; cbn [lower_operand cfg_params lookup]; unfold bind, get; rewrite H; reflexivity.
  Qed.
  Lemma operand_lval_implicit cs x : implicit_name x -> lookup x (cs_vars cs) = None ->
    operand_lval E xi cs (OIdent x) = Some (LVar x (false, 32%N)).
  Proof. intros [-> | [-> | [-> | ->]]] H; cbn [operand_lval]; rewrite H; reflexivity. Qed.

  Lemma sinv_asg_implicit D V x e : implicit_name x -> lookup x D = None -> ~ reserved IM x ->
    pfrag rw IM V e ->
    SInv D V (SExpr (EAssign AAssign (EOp (OIdent x)) e)) (D ++ [(x, Some (ty_int false 32))]) (V ++ [(x, Some (ty_int false 32))]).
  Proof.
    intros Hi Hx Hnr Hfrag st Hext Hok Hp. pose proof (vext_none V D x Hext Hx) as HxV.
    destruct (not_reserved_imm IM x Hnr) as [Hxi _].
    assert (Hxs : lookup x (st_vars st) = None) by (exact (lst_ok_none IM D st x Hok Hxi (not_reserved_htmp IM x Hnr) Hx)).
    set (st1 := mkst (st_vars st ++ [(x, Some (ty_int false 32))]) (st_regs st) (st_pending st) (st_hcount st) (st_imms st) true (st_removed st)).
    assert (Hok1 : lst_ok IM (D ++ [(x, Some (ty_int false 32))]) st1) by (apply lst_ok_decl; assumption).
    assert (X1 : st_ext st st1).
    { unfold st_ext, st1; cbn [st_pending st_hcount st_imms st_removed st_nonempty st_regs]. repeat split; auto using incl_refl, regs_le_refl, N.le_refl. }
    destruct (expr_sim_ext V (D ++ [(x, Some (ty_int false 32))]) e st1 Hfrag (vext_app_r V D x _ Hext) Hok1) as [pv [st2 [L2 [X2 [Hok2 [G2 Hsem]]]]]].
    pose (dest := mkpv (PVarL x) (ty_int false 32) (KVar x) []).
    destruct (cast_imm_ok dest pv st2 false 32 okw32 (ity_int _ _) G2) as [src' [C1 [T1 Hc1]]].
    exists [IAsg (mkle (ESetL x (rd src')) (pv_tmps dest ++ pv_tmps src') false) src'], st2.
    split.
    { rewrite lower_stmt_expr, lower_expr_asg, lower_expr_op. unfold bind at 1. unfold bind at 1.
      rewrite (lower_operand_implicit x st Hi Hxs). fold st1. unfold bind at 1. rewrite L2.
      unfold asg_tail, bind, ret. fold dest. step C1. cbn [compound_src]. unfold ret.
      rewrite (mk_assign_var dest src' st2 x eq_refl) by (left; reflexivity).
      rewrite ?hyb_nil by (right; tm0); rewrite chk_nil by (right; tm0). reflexivity. }
    split.
    { split; [exact Hok2|]. split; [eapply st_ext_trans; eassumption|]. split; [pl0|].
      intros HR Hrem HJ cs ms fuel cs' Hrel Himm Hce.
      pose proof Hrel as [Hrel0 [Hloc [Hmem [Hret [Hres [Hj [Himl [Hcloc [Hvx Hht]]]]]]]]].
      destruct (Hsem st2 (st_ext_refl _) HR Hrem HJ cs ms Hrel0 Himm) as [ilv [Sv Hcv]].
      destruct (Hc1 ms ilv Sv) as [z [Hz [Ez Cz]]].
      destruct (cexec_asg_inv fuel cs _ e cs' Hret Hce) as [k [s1 [vr [lv [Ee [Eo ->]]]]]].
      destruct (Hcv k s1 vr Ee) as [-> ->].
      pose proof (Hcloc x HxV Hnr) as Hcx. rewrite Hx in Hcx.
      rewrite (operand_lval_implicit cs x Hi Hcx) in Eo. injection Eo as <-.
      cbn [write_lval]. rewrite Cz.
      exists (set_local ms x (VBv 32 z)). split; [|split; [apply srel_decl; assumption | apply imms_done_set_local; assumption]].
      cbn [flat_map item_effects le_empty le_term app seqn fin_eff].
      eapply runs_setl; [exact Ez|]. left. exact (Hloc x HxV Hnr). }
    intros _. eapply st_ext_nonempty; [exact X2 | reflexivity].
  Qed.

  (* ------------------------------------------------------------------ ; , NOP, {} *)
  Lemma lst_ok_touched V st : lst_ok IM V st -> lst_ok IM V (touched st).
  Proof. intros H. eapply lst_ok_regs; [exact H | reflexivity | reflexivity | apply H]. Qed.

  Lemma sinv_skip D V s items eff :
    (forall st, lower_stmt cfg s st = OK (items, touched st)) ->
    Forall (pitem true) items -> seqn (flat_map item_effects items) = eff -> (eff = EEmpty \/ eff = ENop) ->
    (forall fuel cs cs', cs_ret cs = None -> cexec E csub xi fuel cs s = Some cs' -> cs' = cs) ->
    SInv D V s D V.
  Proof.
    intros Hlow Hplain Heff Hskip Hc st Hext Hok Hp.
    exists items, (touched st). split; [apply Hlow|]. split; [|reflexivity].
    split; [apply lst_ok_touched; exact Hok|]. split; [apply st_ext_touched|].
    split; [eapply Forall_impl; [|exact Hplain]; intros i [Hi Ht]; split; [exact Hi | intros _; exact (Ht eq_refl)]|].
    intros HR Hrem HJ cs ms fuel cs' Hrel Himm Hce.
    rewrite (Hc fuel cs cs' (srel_ret _ _ _ _ _ _ Hrel) Hce).
    exists ms. split; [|split; [exact Hrel | exact Himm]]. rewrite Heff.
    destruct Hskip as [-> | ->]; cbn [fin_eff]; [apply runs_empty | apply runs_nop]; reflexivity.
  Qed.

  Lemma sinv_empty D V : SInv D V SEmpty D V.
  Proof.
    apply (sinv_skip D V SEmpty [IEff empty_eff] EEmpty).
    - intros st. rewrite lower_stmt_empty. unfold bind. rewrite touch_eq.
      rewrite ?hyb_nil by (right; tm0); rewrite chk_nil by (right; tm0). reflexivity.
    - pl0.
    - reflexivity.
    - auto.
    - intros fuel cs cs' Hret H. destruct fuel as [|k]; [rewrite cexec_0 in H; discriminate H|].
      rewrite cexec_empty in H by exact Hret. congruence.
  Qed.

  Lemma sinv_nop D V : SInv D V SNop D V.
  Proof.
    apply (sinv_skip D V SNop [IEff (mkle ENop [] false)] ENop).
    - intros st. rewrite lower_stmt_nop. unfold bind. rewrite touch_eq. reflexivity.
    - pl0.
    - reflexivity.
    - auto.
    - intros fuel cs cs' Hret H. destruct fuel as [|k]; [rewrite cexec_0 in H; discriminate H|].
      rewrite cexec_nop in H by exact Hret. congruence.
  Qed.

  (* cancel_slot: the compiler emits NOP.  CSem gives the statement no meaning at all (cexec = None: the field
     cs_events that was meant to record it is never written), so the simulation holds vacuously on every path
     that executes it; what the theorem does give for a behaviour containing it is the lowering itself and the
     simulation of all the paths that do NOT reach the cancel_slot. *)
  Lemma lower_stmt_cancel : lower_stmt cfg SCancel = (do _ <- touch; do r <- chk_hybrid_dep (mkle ENop [] false) false false; ret [IEff r]).
  Proof. reflexivity. Qed.
  Lemma cexec_cancel fuel s : cexec E csub xi fuel s SCancel = match fuel with O => None | S _ => match cs_ret s with Some _ => Some s | None => None end end.
  Proof. destruct fuel; reflexivity. Qed.
  Lemma sinv_cancel D V : SInv D V SCancel D V.
  Proof.
    apply (sinv_skip D V SCancel [IEff (mkle ENop [] false)] ENop).
    - intros st. rewrite lower_stmt_cancel. unfold bind. rewrite touch_eq.
      rewrite ?hyb_nil by (right; tm0); rewrite chk_nil by (right; tm0). reflexivity.
    - pl0.
    - reflexivity.
    - auto.
    - intros fuel cs cs' Hret H. rewrite cexec_cancel, Hret in H. destruct fuel; discriminate H.
  Qed.

  Lemma sinv_block_nil D V : SInv D V (SBlock SNil) D V.
  Proof.
    apply (sinv_skip D V (SBlock SNil) [IEff empty_eff] EEmpty).
    - intros st. rewrite lower_stmt_block_nil. unfold bind. rewrite touch_eq.
      rewrite ?hyb_nil by (right; tm0); rewrite chk_nil by (right; tm0). reflexivity.
    - pl0.
    - reflexivity.
    - auto.
    - intros fuel cs cs' Hret H. destruct fuel as [|k]; [rewrite cexec_0 in H; discriminate H|].
      rewrite cexec_block in H by exact Hret.
      destruct k as [|k]; [rewrite cexecs_0 in H; discriminate H|]. rewrite cexecs_nil in H. congruence.
  Qed.

  (* ------------------------------------------------------------------ mem_store_<s|u><w>(a, v); *)
  Definition store_tail (sg : bool) (w : N) (items : list item) : M (list item) :=
    match items with
    | [iva; IPure data] =>
        do va0 <- as_pure "mem_store address" iva; do va <- addr_of cfg va0;
        do eq <- ty_eq (ty_tok sg w) (pv_ty data);
        do d <- (if eq then ret data else init_a_cast cfg (ty_tok sg w) data);
        do _ <- touch;
        do r <- chk_hybrid_dep (mkle (EStore (rd va) (rd d)) (pv_tmps va ++ pv_tmps d) false) false false;
        ret [IEff r]
    | _ => fail "mem_store arguments"
    end.
  Lemma lower_stmt_store sg w args :
    lower_stmt cfg (SStore sg w args) = (do items <- lower_exprs cfg args; store_tail sg w items).
  Proof. reflexivity. Qed.
  Lemma lower_exprs_two a v :
    lower_exprs cfg (ECons a (ECons v ENil)) =
    (do i <- lower_expr cfg a; do r <- (do i2 <- lower_expr cfg v; do r2 <- ret []; ret (i2 :: r2)); ret (i :: r)).
  Proof. reflexivity. Qed.
  Lemma cexec_store k s sg w a v : cs_ret s = None ->
    cexec E csub xi (S k) s (SStore sg w (ECons a (ECons v ENil))) =
    match ceval E csub xi k s a with
    | Some (s1, va) => match ceval E csub xi k s1 v with
                       | Some (s2, vv) => Some (c_store s2 (snd (conv (false, 32%N) va)) (snd (conv (sg, w) vv)) (N.to_nat (w / 8)))
                       | None => None end
    | None => None end.
  Proof. intros H. cbn [cexec]. rewrite H. reflexivity. Qed.

  (* the stored value: converted to the operation type (a Token-width type in the compiler) *)
  Lemma tok_cast_ok sg w p st : okw w -> goodpv p ->
    exists p', (do eq <- ty_eq (ty_tok sg w) (pv_ty p); if eq then ret p else init_a_cast cfg (ty_tok sg w) p) st = OK (p', st) /\
      pv_tmps p' = [] /\
      forall ms v, sem rw R rem ms p v ->
        exists z, 0 <= z < pow2 w /\ eval rw ms [] (fin_pure R rem (pv_term p')) = Some (VBv w z) /\
                  conv (sg, w) (cval_of (pv_ty p) v) = ((sg, w), z).
  Proof.
    intros Hw Hp. destruct p as [tm ty k tmps].
    destruct Hp as [[Ht [Hk Htm]] | [sg0 [w0 [Hw0 [Ht [Hk Htm]]]]]]; cbn [pv_ty pv_kind pv_tmps] in *; subst tmps.
    - (* boolean source *)
      subst ty.
      unfold init_a_cast, bind, ty_eq, ret.
      cbn [pv_ty pv_kind pv_tmps vt_float ty_tok ty_bool orb is_numeric vt_void vt_ext negb andb].
      assert (vtype_eqb (ty_tok sg w) ty_bool = false) as -> by reflexivity.
      assert (Hcw : match k with KBoolOp => true | KLit _ true => fx_bool_int (fx cfg) | _ => false end = true).
      { destruct k as [? [|]| | | | | | | |]; cbn in Hk; try contradiction; reflexivity. }
      rewrite Hcw. cbn [vt_bool ty_bool ty_tok andb negb cond_wrap rd pv_term].
      eexists; split; [reflexivity|]. split; [reflexivity|].
      intros ms v Hs. apply sem_bool in Hs; [|reflexivity]. destruct Hs as [b [-> He]]. cbn [pv_term] in He.
      exists (if b then wrap w 1 else wrap w 0). split; [destruct b; apply wrap_range|]. split.
      + cbn [pv_term fin_pure eval lit_pure vt_sg vt_w ty_tok]. rewrite He. cbn [sort_of_val sort_eqb]. rewrite N.eqb_refl.
        destruct b; reflexivity.
      + cbn [pv_ty cval_of]. unfold conv, mkval, vint, int_t, interp. cbn [fst snd]. destruct b; f_equal.
    - (* integer source *)
      destruct (ity_inv _ _ _ Ht) as [h0 Et]. subst ty. clear Ht.
      unfold init_a_cast, bind, ty_eq, ret.
      cbn [pv_ty pv_kind pv_tmps vt_float ty_tok ty_h orb is_numeric vt_void vt_ext negb andb].
      assert (vtype_eqb (ty_tok sg w) (ty_h h0 sg0 w0) = false) as -> by reflexivity.
      cbn [vt_bool ty_h ty_tok andb fx cfg_fx fx_cast_fill all_fixes vt_w vt_sg rd pv_term].
      eexists; split; [reflexivity|]. split; [reflexivity|].
      intros ms v Hs. eapply sem_int in Hs; [|apply ity_h]. destruct Hs as [z [-> [Hz He]]]. cbn [pv_term] in He.
      exists (wrap w (interp (sg0, w0) z)). split; [apply wrap_range|]. split; [|reflexivity].
      cbn [pv_term]. destruct (w0 <? w)%N eqn:Elt.
      + destruct sg0; cbn [fin_pure eval]; rewrite He; f_equal; f_equal.
        * apply (cast_widen w0 w true z); auto.
        * apply (cast_widen w0 w false z); auto.
      + unfold cast_il_exec. cbn [vt_w vt_sg ty_h ty_tok fin_pure eval]. rewrite Elt, andb_false_r. cbn [andb]. rewrite orb_false_r.
        destruct (sg && sg0); cbn [fin_pure eval]; rewrite He; f_equal; f_equal; apply cast_narrow; auto; lia.
  Qed.

  Lemma srel_store D V cs ms a v n : srel IM E D V cs ms -> srel IM E D V (c_store cs a v n) (set_mem ms (write_bytes (mem ms) a v n)).
  Proof.
    intros [H1 [H2 [H3 [H4 [H5 [H6 [H7 [H8 [H9 H10]]]]]]]]]. split; [|split; [exact H2|]].
    - destruct H1 as [R1 [R2 [R3 [R4 [R5 [R6 [R7 R8]]]]]]]. unfold rel.
      cbn [c_store cs_vars cs_regw cs_mem locals rnew rold rnew0 imms mem mem0 set_mem]. rewrite R7. auto 10.
    - cbn [c_store cs_mem mem set_mem cs_ret]. rewrite H3. auto 10.
  Qed.

  Lemma runs_store a v ms w1 x w y : eval rw ms [] a = Some (VBv w1 x) -> eval rw ms [] v = Some (VBv w y) ->
    runs rw ilsubs (EStore a v) ms (set_mem ms (write_bytes (mem ms) x y (N.to_nat (w / 8)))).
  Proof. intros Ha Hv. exists 1%nat. cbn [exec]. rewrite Ha, Hv. reflexivity. Qed.

  Lemma sinv_store D V sg w a v : okw w -> pfrag rw IM V a -> pfrag rw IM V v -> SInv D V (SStore sg w (ECons a (ECons v ENil))) D V.
  Proof.
    intros Hw Hfa Hfv st Hext Hok Hp.
    destruct (expr_sim_ext V D a st Hfa Hext Hok) as [pa [st1 [L1 [X1 [Hok1 [G1 Hsema]]]]]].
    destruct (expr_sim_ext V D v st1 Hfv Hext Hok1) as [pd [st2 [L2 [X2 [Hok2 [G2 Hsemv]]]]]].
    destruct (addr_ok subsigs macs cret hstart rw R rem pa st2 G1) as [va [A1 [At A2]]].
    destruct (tok_cast_ok sg w pd st2 Hw G2) as [d [D1 [Dt D2]]].
    exists [IEff (mkle (EStore (rd va) (rd d)) (pv_tmps va ++ pv_tmps d) false)], (touched st2).
    split.
    { rewrite lower_stmt_store, lower_exprs_two. unfold bind at 1. unfold bind at 1. rewrite L1.
      unfold bind at 1. unfold bind at 1. rewrite L2. unfold bind at 1. unfold ret at 1 2 3. cbv beta iota.
      unfold store_tail. cbn [as_pure]. unfold bind at 1. unfold ret at 1. unfold bind at 1. rewrite A1.
      erewrite bind_bind_OK by exact D1. unfold bind. rewrite touch_eq.
      rewrite ?hyb_nil by (right; tm0); rewrite chk_nil by (right; tm0). reflexivity. }
    split; [|reflexivity].
    split; [apply lst_ok_touched; exact Hok2|].
    split; [eapply st_ext_trans; [exact X1|]; eapply st_ext_trans; [exact X2 | apply st_ext_touched]|].
    split; [pl0|].
    intros HR Hrem HJ cs ms fuel cs' Hrel Himm Hce.
    pose proof Hrel as [Hrel0 [_ [Hmem [Hret _]]]].
    destruct (Hsema (touched st2) (st_ext_trans _ _ _ X2 (st_ext_touched st2)) HR Hrem HJ cs ms Hrel0 Himm) as [ila [Sa Hca]].
    destruct (Hsemv (touched st2) (st_ext_touched st2) HR Hrem HJ cs ms Hrel0 Himm) as [ilv [Sv Hcv]].
    destruct (A2 ms ila Sa) as [w1 [x [Ea Cx]]]. destruct (D2 ms ilv Sv) as [y [Hy [Ey Cy]]].
    destruct fuel as [|k]; [rewrite cexec_0 in Hce; discriminate Hce|].
    rewrite cexec_store in Hce by exact Hret.
    destruct (ceval E csub xi k cs a) as [[s1 cva]|] eqn:Eca; [|discriminate Hce].
    destruct (Hca k s1 cva Eca) as [-> ->].
    destruct (ceval E csub xi k cs v) as [[s2 cvv]|] eqn:Ecv; [|discriminate Hce].
    destruct (Hcv k s2 cvv Ecv) as [-> ->]. rewrite Cx, Cy in Hce. cbn [snd] in Hce.
    assert (Hcs : c_store cs x y (N.to_nat (w / 8)) = cs') by congruence. rewrite <- Hcs.
    exists (set_mem ms (write_bytes (mem ms) x y (N.to_nat (w / 8)))).
    split; [|split; [apply srel_store; exact Hrel | apply imms_done_set_mem; exact Himm]].
    cbn [flat_map item_effects le_empty le_term app seqn fin_eff].
    eapply runs_store; eassumption.
  Qed.


  (* ------------------------------------------------------------------ STORE_SLOT_CANCELLED(a, b); *)
  (* The compiler emits the plugin effect HEX_STORE_SLOT_CANCELLED(pkt, hi->slot) (a void hybrid, whatever the two
     arguments are).  CSem gives a call to a routine without body no meaning (ceval = None): as for cancel_slot the
     simulation holds vacuously on the paths that execute the call; the theorem gives the lowering and the simulation of
     the other paths. *)
  Lemma carg_low D V e st : carg rw IM D V e -> vext V D -> lst_ok IM D st ->
    exists i st', lower_expr cfg e st = OK (i, st') /\ st_ext st st' /\ lst_ok IM D st' /\ item_tmps i = [].
  Proof.
    intros [x [Hx [Hi [Hn Hh]]] | e0 Hf] Hext Hok.
    - exists (IStr x), st. split; [|split; [apply st_ext_refl | split; [exact Hok | reflexivity]]].
      rewrite lower_expr_op. cbn [lower_operand cfg_params lookup]. unfold bind, get.
      rewrite (lst_ok_none IM D st x Hok Hi Hh Hx).
      assert (He : existsb (String.eqb x) ["EA"; "i"; "k"; "j"] = false).
      { cbn [existsb]. rewrite !orb_false_r. unfold implicit_name in Hn.
        destruct (String.eqb_spec x "EA"); [tauto|]. destruct (String.eqb_spec x "i"); [tauto|].
        destruct (String.eqb_spec x "k"); [tauto|]. destruct (String.eqb_spec x "j"); [tauto|]. reflexivity. }
      rewrite He. reflexivity.
    - destruct (expr_sim_ext V D e0 st Hf Hext Hok) as [pv [st2 [L2 [X2 [Hok2 [G2 _]]]]]].
      exists (IPure pv), st2. repeat (split; [assumption|]). exact (goodpv_tmps pv G2).
  Qed.

  Lemma lower_expr_ssc args st ia ib st' : lower_exprs cfg args st = OK ([ia; ib], st') ->
    lower_expr cfg (Ast.ECall ssc_name args) st =
    OK (IVoid (mkle (EPlugin "HEX_STORE_SLOT_CANCELLED" [ARaw "pkt"; ARaw "hi->slot"]) (flat_map item_tmps [ia; ib]) false), touched st').
  Proof.
    intros H. cbn [lower_expr].
    match goal with |- bind ?m _ _ = _ => change m with (lower_exprs cfg args) end.
    unfold bind at 1. rewrite H.
    change (String.eqb ssc_name "fatal") with false. change (String.eqb ssc_name "MEM_STORE0") with false. cbv iota.
    unfold find_sub. cbn [cfg_subs]. rewrite (Hssc ssc_name ssc_ext).
    change (String.eqb ssc_name "sizeof") with false. change (String.eqb ssc_name "STORE_SLOT_CANCELLED") with true. cbv iota.
    unfold bind at 1. rewrite touch_eq. reflexivity.
  Qed.

  Lemma cexec_ssc fuel cs args cs' : cs_ret cs = None -> cexec E csub xi fuel cs (SExpr (Ast.ECall ssc_name args)) = Some cs' -> False.
  Proof.
    intros Hr H. destruct fuel as [|[|k]]; [rewrite cexec_0 in H; discriminate H| |]; rewrite cexec_expr in H by exact Hr.
    - rewrite ceval_0 in H. discriminate H.
    - cbn [ceval] in H. rewrite (Hcssc ssc_name ssc_ext) in H. discriminate H.
  Qed.

  Lemma sinv_ssc D V a b : carg rw IM D V a -> carg rw IM D V b ->
    SInv D V (SExpr (Ast.ECall ssc_name (ECons a (ECons b ENil)))) D V.
  Proof.
    intros Ha Hb st Hext Hok Hp.
    destruct (carg_low D V a st Ha Hext Hok) as [ia [st1 [L1 [X1 [Hok1 Ta]]]]].
    destruct (carg_low D V b st1 Hb Hext Hok1) as [ib [st2 [L2 [X2 [Hok2 Tb]]]]].
    eexists _, (touched st2).
    split.
    { rewrite lower_stmt_expr. unfold bind at 1.
      rewrite (lower_expr_ssc _ st ia ib st2); [reflexivity|].
      rewrite lower_exprs_two. unfold bind at 1. rewrite L1. unfold bind at 1. unfold bind at 1. rewrite L2. reflexivity. }
    split; [|reflexivity].
    split; [apply lst_ok_touched; exact Hok2|].
    split; [eapply st_ext_trans; [exact X1|]; eapply st_ext_trans; [exact X2 | apply st_ext_touched]|].
    split; [repeat constructor; intros _; cbn [item_tmps le_tmps flat_map]; rewrite Ta, Tb; reflexivity|].
    intros HR Hrem HJ cs ms fuel cs' Hrel Himm Hce. exfalso.
    exact (cexec_ssc fuel cs _ cs' (srel_ret _ _ _ _ _ _ Hrel) Hce).
  Qed.

  (* ------------------------------------------------------------------ JUMP(e); *)
  Definition jump_tail (ie : item) : M (list item) :=
    do ta <- as_pure "jump target" ie;
    do _ <- need_numeric (pv_ty ta);
    do ta' <- (if (vt_w (pv_ty ta) =? 32)%N && negb (vt_tok (pv_ty ta)) then ret ta else init_a_cast cfg (ty_int false 32) ta);
    do _ <- touch;
    do r <- chk_hybrid_dep (mkle (ESeq (ESetL "jump_flag" (PBool true)) (ESetL "jump_target" (rd ta'))) (pv_tmps ta') false) false false;
    ret [IEff r].
  Lemma lower_stmt_jump e : lower_stmt cfg (SJump e) = (do ie <- lower_expr cfg e; jump_tail ie).
  Proof. reflexivity. Qed.
  Lemma cexec_jump k s e : cs_ret s = None ->
    cexec E csub xi (S k) s (SJump e) =
    match ceval E csub xi k s e with
    | Some (s1, v) => Some (mkcs (cs_vars s1) (cs_regw s1) (cs_mem s1) (Some (snd (conv (false, 32%N) v))) (cs_ret s1) (cs_events s1))
    | None => None end.
  Proof. intros H. cbn [cexec]. rewrite H. reflexivity. Qed.

  Lemma jump_cast_ok p st : goodpv p ->
    exists p', (if (vt_w (pv_ty p) =? 32)%N && negb (vt_tok (pv_ty p)) then ret p else init_a_cast cfg (ty_int false 32) p) st = OK (p', st) /\
      pv_tmps p' = [] /\
      forall ms v, sem rw R rem ms p v ->
        exists z, 0 <= z < pow2 32 /\ eval rw ms [] (fin_pure R rem (pv_term p')) = Some (VBv 32 z) /\
                  snd (conv (false, 32%N) (cval_of (pv_ty p) v)) = z.
  Proof.
    intros Hg.
    destruct (init_a_cast_ok subsigs macs cret hstart rw R rem false 32 p st okw32 Hg) as [p2 [H1 [G2 [H3 [_ H5]]]]].
    assert (Hcast : exists p', init_a_cast cfg (ty_int false 32) p st = OK (p', st) /\ pv_tmps p' = [] /\
              forall ms v, sem rw R rem ms p v ->
                exists z, 0 <= z < pow2 32 /\ eval rw ms [] (fin_pure R rem (pv_term p')) = Some (VBv 32 z) /\
                          snd (conv (false, 32%N) (cval_of (pv_ty p) v)) = z).
    { exists p2. split; [exact H1|]. split; [exact (goodpv_tmps p2 G2)|]. intros ms v Hs. destruct (H5 ms v Hs) as [v2 [S2 C2]].
      destruct (sem_int rw R rem ms p2 v2 false 32 H3 S2) as [z [-> [Hz He]]].
      exists z. split; [exact Hz|]. split; [exact He|]. rewrite <- C2, (cval_of_ity _ false 32 z H3). reflexivity. }
    pose proof Hg as [[Ht _] | [s0 [w0 [Hw0 [Ht _]]]]].
    - assert (Hc : (vt_w (pv_ty p) =? 32)%N && negb (vt_tok (pv_ty p)) = false) by (rewrite Ht; reflexivity).
      rewrite Hc. exact Hcast.
    - destruct (ity_inv _ _ _ Ht) as [h0 Et]. destruct (w0 =? 32)%N eqn:Ew.
      + assert (Hc : (vt_w (pv_ty p) =? 32)%N && negb (vt_tok (pv_ty p)) = true)
          by (rewrite Et; cbn [vt_w vt_tok ty_h negb]; rewrite Ew; reflexivity).
        rewrite Hc. apply N.eqb_eq in Ew. subst w0. exists p. split; [reflexivity|]. split; [exact (goodpv_tmps p Hg)|].
        intros ms v Hs. destruct (sem_int rw R rem ms p v s0 32 Ht Hs) as [z [-> [Hz He]]].
        exists z. split; [exact Hz|]. split; [exact He|]. rewrite (cval_of_ity _ s0 32 z Ht).
        unfold conv, mkval, vint. cbn [fst snd]. rewrite wrap_interp. apply wrap_small. exact Hz.
      + assert (Hc : (vt_w (pv_ty p) =? 32)%N && negb (vt_tok (pv_ty p)) = false)
          by (rewrite Et; cbn [vt_w vt_tok ty_h negb]; rewrite Ew; reflexivity).
        rewrite Hc. exact Hcast.
  Qed.

  Lemma rel_jump_flag V cs ms v : (forall x, reserved IM x -> lookup x V = None) -> rel IM E V cs ms ->
    rel IM E V cs (set_local ms "jump_flag" v).
  Proof.
    intros Hres [R1 [R2 [R3 [R4 [R5 R6]]]]]. unfold rel. cbn [locals rnew rold rnew0 imms set_local].
    split; [|auto 10].
    intros y sg w Hy Hw. cbn [lookup].
    destruct (String.eqb_spec y "jump_flag") as [->|_]; [rewrite Hres in Hy by (left; reflexivity); discriminate Hy|].
    exact (R1 y sg w Hy Hw).
  Qed.

  Lemma srel_jump D V cs ms z : srel IM E D V cs ms -> 0 <= z < pow2 32 ->
    srel IM E D V (mkcs (cs_vars cs) (cs_regw cs) (cs_mem cs) (Some z) (cs_ret cs) (cs_events cs))
           (set_local (set_local ms "jump_flag" (VB true)) "jump_target" (VBv 32 z)).
  Proof.
    intros [[R1 [R2 [R3 [R4 [R5 R6]]]]] [H2 [H3 [H4 [H5 [H6 [H7 [H8 [H9 H10]]]]]]]]] Hz. split; [|split].
    - unfold rel. cbn [cs_vars cs_regw locals rnew rold rnew0 imms set_local]. split; [|auto 10].
      intros y sg w Hy Hw. cbn [lookup]. apply H9 in Hy as HyD.
      destruct (String.eqb_spec y "jump_target") as [->|_]; [rewrite H5 in HyD by (right; left; reflexivity); discriminate HyD|].
      destruct (String.eqb_spec y "jump_flag") as [->|_]; [rewrite H5 in HyD by (left; reflexivity); discriminate HyD|].
      exact (R1 y sg w Hy Hw).
    - intros y Hy Hyr. cbn [locals set_local lookup].
      destruct (String.eqb_spec y "jump_target") as [->|_]; [exfalso; apply Hyr; right; left; reflexivity|].
      destruct (String.eqb_spec y "jump_flag") as [->|_]; [exfalso; apply Hyr; left; reflexivity|].
      exact (H2 y Hy Hyr).
    - cbn [cs_mem mem set_local cs_ret]. repeat (split; [assumption|]).
      split; [unfold jrel; cbn [cs_jump locals set_local]; repeat split; try reflexivity; apply Hz|].
      split; [|split; [exact H8 | split; [exact H9 | apply htmp_ok_set_local; [reflexivity|]; apply htmp_ok_set_local; [reflexivity | exact H10]]]].
      intros l Hl. cbn [locals set_local lookup imms].
      destruct (String.eqb_spec l "jump_target") as [->|_]; [rewrite (proj1 (proj2 HIM)) in Hl; discriminate Hl|].
      destruct (String.eqb_spec l "jump_flag") as [->|_]; [rewrite (proj1 HIM) in Hl; discriminate Hl|].
      exact (H7 l Hl).
  Qed.

  Lemma sinv_jump D V e : pfrag rw IM V e -> SInv D V (SJump e) D V.
  Proof.
    intros Hfrag st Hext Hok Hp.
    destruct (expr_sim_ext V D e st Hfrag Hext Hok) as [pv [st2 [L2 [X2 [Hok2 [G2 Hsem]]]]]].
    destruct (jump_cast_ok pv st2 G2) as [ta [J1 [Jt J2]]].
    exists [IEff (mkle (ESeq (ESetL "jump_flag" (PBool true)) (ESetL "jump_target" (rd ta))) (pv_tmps ta) false)], (touched st2).
    split.
    { rewrite lower_stmt_jump. unfold bind at 1. rewrite L2. unfold jump_tail. cbn [as_pure].
      unfold bind at 1. unfold ret at 1. unfold bind at 1. unfold need_numeric.
      rewrite (proj1 (goodpv_numeric pv G2)). unfold ret at 1. unfold bind at 1. rewrite J1.
      unfold bind. rewrite touch_eq. rewrite ?hyb_nil by (right; tm0); rewrite chk_nil by (right; tm0). reflexivity. }
    split; [|reflexivity].
    split; [apply lst_ok_touched; exact Hok2|].
    split; [eapply st_ext_trans; [exact X2 | apply st_ext_touched]|].
    split; [pl0|].
    intros HR Hrem HJ cs ms fuel cs' Hrel Himm Hce.
    pose proof Hrel as [Hrel0 [_ [_ [Hret [Hres [Hj _]]]]]].
    (* the target is evaluated after jump_flag was set: it does not depend on it *)
    set (ms1 := set_local ms "jump_flag" (VB true)).
    assert (Hrel1 : rel IM E V cs ms1).
    { apply rel_jump_flag; [|exact Hrel0]. intros y Hy. apply (vext_none V D y (srel_vext _ _ _ _ _ _ Hrel)). exact (Hres y Hy). }
    assert (Himm1 : imms_done IM E J cs ms1) by (apply (imms_done_il_local IM E J cs cs ms); [exact (proj1 HIM) | reflexivity | exact Himm]).
    destruct (Hsem (touched st2) (st_ext_touched st2) HR Hrem HJ cs ms1 Hrel1 Himm1) as [ilv [Sv Hcv]].
    destruct (J2 ms1 ilv Sv) as [z [Hz [Ez Cz]]].
    destruct fuel as [|k]; [rewrite cexec_0 in Hce; discriminate Hce|].
    rewrite cexec_jump in Hce by exact Hret.
    destruct (ceval E csub xi k cs e) as [[s1 vr]|] eqn:Ee; [|discriminate Hce].
    destruct (Hcv k s1 vr Ee) as [-> ->]. rewrite Cz in Hce.
    assert (Hcs : mkcs (cs_vars cs) (cs_regw cs) (cs_mem cs) (Some z) (cs_ret cs) (cs_events cs) = cs') by congruence.
    rewrite <- Hcs.
    exists (set_local ms1 "jump_target" (VBv 32 z)).
    split; [|split; [apply srel_jump; assumption | apply (imms_done_il_local IM E J cs _ ms1); [exact (proj1 (proj2 HIM)) | reflexivity | exact Himm1]]].
    cbn [flat_map item_effects le_empty le_term app seqn fin_eff fin_pure].
    apply runs_seq. exists ms1. split.
    - apply runs_setl; [reflexivity|]. unfold jrel in Hj. destruct (cs_jump cs) as [t|].
      + right. exists (VB true). split; [apply Hj | reflexivity].
      + left. apply Hj.
    - apply runs_setl; [exact Ez|]. unfold ms1. cbn [locals set_local lookup].
      change (String.eqb "jump_target" "jump_flag") with false. cbv iota.
      unfold jrel in Hj. destruct (cs_jump cs) as [t|].
      + right. exists (VBv 32 t). split; [apply Hj | reflexivity].
      + left. apply Hj.
  Qed.

  (* ------------------------------------------------------------------ (uiV);   an immediate as expression statement *)
  (* the statement emits nothing; it registers the immediate (variable + prologue entry) when it is its first use *)
  Lemma lower_imm_nonempty l st pv st2 : lower_expr cfg (EOp (OImm l)) st = OK (IPure pv, st2) -> started st -> st_nonempty st2 = true.
  Proof.
    cbn [lower_expr lower_operand]. unfold bind, get. intros H Hs.
    destruct (lookup l (st_vars st)) as [[t|]|] eqn:El.
    - injection H as _ <-. destruct Hs as [Hs | [Hv _]]; [exact Hs|]. rewrite Hv in El. discriminate El.
    - discriminate H.
    - unfold put, ret in H. injection H as _ <-. reflexivity.
  Qed.

  Lemma sinv_expr_imm D V l : IM l = true -> SInv D V (SExpr (EOp (OImm l))) D V.
  Proof.
    intros Hl st Hext Hok Hp.
    destruct (expr_sim_ext V D (EOp (OImm l)) st (pf_imm rw IM V l Hl) Hext Hok) as [pv [st2 [L2 [X2 [Hok2 [G2 Hsem]]]]]].
    exists [IPure pv], st2.
    split. { rewrite lower_stmt_expr. unfold bind. rewrite L2. reflexivity. }
    split; [|exact (lower_imm_nonempty l st pv st2 L2)].
    split; [exact Hok2|]. split; [exact X2|].
    split. { constructor; [|constructor]. split; [exact I|]. intros _. cbn [item_tmps]. exact (goodpv_tmps pv G2). }
    intros HR Hrem HJ cs ms fuel cs' Hrel Himm Hce.
    pose proof Hrel as [Hrel0 [_ [_ [Hret _]]]].
    destruct (Hsem st2 (st_ext_refl st2) HR Hrem HJ cs ms Hrel0 Himm) as [ilv [Sv Hcv]].
    destruct fuel as [|k]; [rewrite cexec_0 in Hce; discriminate Hce|].
    rewrite cexec_expr in Hce by exact Hret.
    destruct (ceval E csub xi k cs (EOp (OImm l))) as [[s1 vr]|] eqn:Ee; [|discriminate Hce].
    destruct (Hcv k s1 vr Ee) as [-> _]. cbn [option_map fst] in Hce. injection Hce as <-.
    exists ms. split; [|split; [exact Hrel | exact Himm]].
    cbn [flat_map item_effects app seqn fin_eff]. apply runs_empty. reflexivity.
  Qed.

  (* ------------------------------------------------------------------ sequences and blocks *)
  Lemma post_cex D V D' V' nl st st' items (cex cex' : nat -> cstate -> option cstate) :
    (forall fuel cs cs', cex' fuel cs = Some cs' -> exists fuel', cex fuel' cs = Some cs') ->
    post D V D' V' nl st st' items cex -> post D V D' V' nl st st' items cex'.
  Proof.
    intros Hc [H1 [H2 [H3 H6]]]. repeat (split; [assumption|]).
    intros HR Hrem HJ cs ms fuel cs' Hrel Himm Hce. destruct (Hc fuel cs cs' Hce) as [fuel' Hce'].
    exact (H6 HR Hrem HJ cs ms fuel' cs' Hrel Himm Hce').
  Qed.

  Lemma ssinv_nil D V : SsInv D V SNil D V.
  Proof.
    intros st Hext Hok Hp. exists [], st. split; [reflexivity|]. split; [|intros _ H; congruence].
    split; [exact Hok|]. split; [apply st_ext_refl|]. split; [constructor|].
    intros HR Hrem HJ cs ms fuel cs' Hrel Himm Hce.
    destruct fuel as [|k]; [rewrite cexecs_0 in Hce; discriminate Hce|]. rewrite cexecs_nil in Hce. injection Hce as <-.
    exists ms. split; [|split; [exact Hrel | exact Himm]]. cbn [flat_map seqn fin_eff]. apply runs_empty. reflexivity.
  Qed.

  Lemma ssinv_cons D V s D1 V1 l D2 V2 : (vext V D -> vext V1 D1) ->
    SInv D V s D1 V1 -> SsInv D1 V1 l D2 V2 -> SsInv D V (SCons s l) D2 V2.
  Proof.
    intros Hv1 IH1 IH2 st Hext Hok Hp. cbn [noloops] in *.
    assert (Hp0 : st_pending st = [] \/ noloop s = true).
    { destruct Hp as [Hp | Hp]; [left; exact Hp | right; apply andb_prop in Hp; tauto]. }
    destruct (IH1 st Hext Hok Hp0) as [a [st1 [L1 [[Hok1 [X1 [Pl1 S1]]] N1]]]].
    assert (P1 : st_pending st1 = [] \/ noloops l = true).
    { destruct Hp as [Hp | Hp]; [left; eapply st_ext_pending; eassumption | right; apply andb_prop in Hp; tauto]. }
    destruct (IH2 st1 (Hv1 Hext) Hok1 P1) as [b [st2 [L2 [[Hok2 [X2 [Pl2 S2]]] N2]]]].
    exists (a ++ b), st2.
    split. { rewrite lower_stmts_cons. unfold bind. rewrite L1, L2. reflexivity. }
    split.
    { split; [exact Hok2|]. split; [eapply st_ext_trans; eauto|].
      split; [apply Forall_app; split; [eapply pitem_weaken; [|exact Pl1] | eapply pitem_weaken; [|exact Pl2]];
              intros Hn; apply andb_prop in Hn; tauto|].
      intros HR Hrem HJ cs ms fuel cs' Hrel Himm Hce.
      destruct fuel as [|k]; [rewrite cexecs_0 in Hce; discriminate Hce|]. rewrite cexecs_cons in Hce.
      destruct (cexec E csub xi k cs s) as [cs1|] eqn:Ec1; [|discriminate Hce].
      destruct (S1 (regs_le_trans _ _ _ (st_ext_regs _ _ X2) HR) Hrem (incl_tran (st_ext_imms _ _ X2) HJ) cs ms k cs1 Hrel Himm Ec1)
        as [ms1 [Run1 [Rel1 Imm1]]].
      destruct (S2 HR Hrem HJ cs1 ms1 k cs' Rel1 Imm1 Hce) as [ms2 [Run2 [Rel2 Imm2]]].
      exists ms2. split; [|split; [exact Rel2 | exact Imm2]].
      rewrite flat_map_app, fin_eff_seqn, map_app. apply runs_seqn_app. exists ms1.
      rewrite <- !fin_eff_seqn. split; assumption. }
    intros Hst _. eapply st_ext_nonempty; [exact X2|]. exact (N1 Hst).
  Qed.

  Lemma sinv_block D V l D' V' : sfrags rw IM D V l D' V' -> SsInv D V l D' V' -> SInv D V (SBlock l) D' V'.
  Proof.
    destruct l as [|s t].
    - intros H _. inversion H; subst. apply sinv_block_nil.
    - intros _ IH st Hext Hok Hp. rewrite noloop_block in *. destruct (IH st Hext Hok Hp) as [items [st' [L [Post N]]]].
      exists items, st'. split; [rewrite lower_stmt_block_cons; exact L|].
      split; [|intros Hst; apply N; [exact Hst | discriminate]].
      assert (Hpost : post D V D' V' (noloops (SCons s t)) st st' items (fun fuel cs => match cs_ret cs with Some _ => None | None => cexec E csub xi fuel cs (SBlock (SCons s t)) end)).
      { eapply post_cex; [|exact Post]. intros fuel cs cs' H. cbv beta in H.
        destruct (cs_ret cs) eqn:Hret; [discriminate H|].
        destruct fuel as [|k]; [rewrite cexec_0 in H; discriminate H|]. rewrite cexec_block in H by exact Hret. eauto. }
      destruct Hpost as [H1 [H2 [H3 H6]]]. repeat (split; [assumption|]).
      intros HR Hrem HJ cs ms fuel cs' Hrel Himm Hce. apply (H6 HR Hrem HJ cs ms fuel cs' Hrel Himm).
      rewrite (srel_ret _ _ _ _ _ _ Hrel). exact Hce.
  Qed.

  (* ------------------------------------------------------------------ if (c) t   and   if (c) t else f *)
  Lemma mk_sequence_term items : le_term (fst (mk_sequence items)) = seqn (flat_map item_effects items).
  Proof. reflexivity. Qed.
  Lemma mk_sequence_notree items : Forall plain_item items -> snd (mk_sequence items) = false.
  Proof.
    intros H. unfold mk_sequence. cbn [snd]. induction H as [|i l Hi _ IH]; [reflexivity|].
    cbn [existsb]. rewrite IH. destruct i; try contradiction Hi; reflexivity.
  Qed.
  Lemma mk_sequence_tmps items : Forall (pitem true) items -> le_tmps (fst (mk_sequence items)) = [].
  Proof.
    intros H. unfold mk_sequence. cbn [fst le_tmps]. induction H as [|i l [Hi Ht] _ IH]; [reflexivity|].
    cbn [flat_map]. apply app_eq_nil in IH. destruct IH as [IH1 IH2]. rewrite IH1, IH2.
    specialize (Ht eq_refl). destruct i as [p | | e | e | e | |]; try contradiction Hi; cbn [item_tmps] in Ht; cbn [app item_tmps];
      rewrite ?Ht; try destruct (le_empty e); reflexivity.
  Qed.
  (* the sequence of a statement's items passes chk_hybrid_dep unchanged: nothing is pending, or (in a loop body) the
     items mention no temporary *)
  Lemma chk_seq nl items st : Forall (pitem nl) items -> st_pending st = [] \/ nl = true ->
    chk_hybrid_dep (fst (mk_sequence items)) false (snd (mk_sequence items)) st = OK (fst (mk_sequence items), st).
  Proof.
    intros H Hp. rewrite (mk_sequence_notree items (pitem_plain nl items H)). apply chk_nil.
    destruct Hp as [Hp | ->]; [left; exact Hp | right; apply mk_sequence_tmps; exact H].
  Qed.

  (* the condition: lowered by ExprCorrect, evaluated on both sides *)
  Lemma cond_sim D V c st : pfrag rw IM V c -> vext V D -> lst_ok IM D st ->
    exists pc st1, lower_expr cfg c st = OK (IPure pc, st1) /\ st_ext st st1 /\ lst_ok IM D st1 /\ pv_tmps pc = [] /\
      forall st3, st_ext st1 st3 -> regs_le (st_regs st3) R -> norem rem -> incl (st_imms st3) J ->
      forall cs ms, rel IM E V cs ms -> imms_done IM E J cs ms ->
        exists b, eval rw ms [] (fin_pure R rem (cond_of cfg pc)) = Some (VB b) /\
          forall k s1 vc, ceval E csub xi k cs c = Some (s1, vc) -> s1 = cs /\ negb (snd vc =? 0) = b.
  Proof.
    intros Hfrag Hext Hok.
    destruct (expr_sim_ext V D c st Hfrag Hext Hok) as [pc [st1 [L1 [X1 [Hok1 [G1 Hsem]]]]]].
    exists pc, st1. split; [exact L1|]. split; [exact X1|]. split; [exact Hok1|]. split; [exact (goodpv_tmps pc G1)|].
    intros st3 X3 HR Hrem HJ cs ms Hrel Himm. destruct (Hsem st3 X3 HR Hrem HJ cs ms Hrel Himm) as [ilv [Sv Hcv]].
    exists (truth (cval_of (pv_ty pc) ilv)). split; [apply cond_ok; assumption|].
    intros k s1 vc Hce. destruct (Hcv k s1 vc Hce) as [-> ->]. split; reflexivity.
  Qed.

  Lemma pend_ext nl st st' : st_ext st st' -> st_pending st = [] \/ nl = true -> st_pending st' = [] \/ nl = true.
  Proof. intros X [H | H]; [left; eapply st_ext_pending; eassumption | right; exact H]. Qed.

  Lemma sinv_if D V c t : pfrag rw IM V c -> SInv D V t D V -> SInv D V (SIf c t None) D V.
  Proof.
    intros Hc IHt st Hext Hok Hp. cbn [noloop] in *. rewrite andb_true_r in *.
    destruct (cond_sim D V c st Hc Hext Hok) as [pc [st1 [L1 [X1 [Hok1 [Tc Hcond]]]]]].
    assert (Hp1 := pend_ext _ _ _ X1 Hp).
    destruct (IHt st1 Hext Hok1 Hp1) as [it [st2 [L2 [[Hok2 [X2 [Pl2 S2]]] N2]]]].
    assert (Hp2 : st_pending (touched st2) = [] \/ noloop t = true) by exact (pend_ext _ _ _ X2 Hp1).
    pose proof (chk_seq _ it (touched st2) Pl2 Hp2) as Hchk.
    destruct (mk_sequence it) as [tseq ttree] eqn:Emk. cbn [fst snd] in Hchk.
    assert (Ht : le_term tseq = seqn (flat_map item_effects it)) by (rewrite <- mk_sequence_term, Emk; reflexivity).
    assert (Htm : noloop t = true -> le_tmps tseq = []).
    { intros Hn. rewrite Hn in Pl2. pose proof (mk_sequence_tmps it Pl2) as H. rewrite Emk in H. exact H. }
    exists [IEff (mkle (EBranch (cond_of cfg pc) (le_term tseq) EEmpty) (item_tmps (IPure pc) ++ le_tmps tseq) false)], (touched st2).
    split.
    { rewrite lower_stmt_if. unfold bind. rewrite L1, L2. unfold if_tail. rewrite Emk. unfold bind. rewrite touch_eq.
      rewrite Hchk. unfold ret. rewrite chk_nil; [reflexivity|].
      destruct Hp2 as [Hp2 | Hp2]; [left; exact Hp2 | right; cbn [le_tmps item_tmps]; rewrite Tc, (Htm Hp2); reflexivity]. }
    split; [|reflexivity].
    split; [apply lst_ok_touched; exact Hok2|].
    split; [eapply st_ext_trans; [exact X1|]; eapply st_ext_trans; [exact X2 | apply st_ext_touched]|].
    split; [repeat constructor; intros Hn; cbn [le_tmps item_tmps]; rewrite Tc, (Htm Hn); reflexivity|].
    intros HR Hrem HJ cs ms fuel cs' Hrel Himm Hce.
    destruct (Hcond (touched st2) (st_ext_trans _ _ _ X2 (st_ext_touched st2)) HR Hrem HJ cs ms (proj1 Hrel) Himm) as [b [Ec Hcb]].
    destruct fuel as [|k]; [rewrite cexec_0 in Hce; discriminate Hce|].
    rewrite cexec_if in Hce by (apply (srel_ret _ _ _ _ _ _ Hrel)).
    destruct (ceval E csub xi k cs c) as [[s1 vc]|] eqn:Ece; [|discriminate Hce].
    destruct (Hcb k s1 vc Ece) as [-> Hb]. rewrite Hb in Hce.
    cbn [flat_map item_effects le_empty le_term app seqn fin_eff].
    destruct b.
    - destruct (S2 HR Hrem HJ cs ms k cs' Hrel Himm Hce) as [ms' [Run [Rel Imm]]].
      exists ms'. split; [|split; [exact Rel | exact Imm]]. apply runs_branch_inv. left.
      split; [exact Ec | rewrite Ht; exact Run].
    - injection Hce as <-. exists ms. split; [|split; [exact Hrel | exact Himm]]. apply runs_branch_inv. right.
      split; [exact Ec | apply runs_empty; reflexivity].
  Qed.

  Lemma sinv_ifelse D V c t f V1 : pfrag rw IM V c -> SInv D V t D V1 -> SInv D V f D V1 -> SInv D V (SIf c t (Some f)) D V1.
  Proof.
    intros Hc IHt IHf st Hext Hok Hp. cbn [noloop] in *.
    assert (Hpt : st_pending st = [] \/ noloop t = true).
    { destruct Hp as [Hp | Hp]; [left; exact Hp | right; apply andb_prop in Hp; tauto]. }
    assert (Hnf : noloop t && noloop f = true -> noloop t = true /\ noloop f = true) by (intros Hn; apply andb_prop in Hn; exact Hn).
    destruct (cond_sim D V c st Hc Hext Hok) as [pc [st1 [L1 [X1 [Hok1 [Tc Hcond]]]]]].
    assert (Hp1 := pend_ext _ _ _ X1 Hpt).
    destruct (IHt st1 Hext Hok1 Hp1) as [it [st2 [L2 [[Hok2 [X2 [Pl2 S2]]] N2]]]].
    assert (Hp2 : st_pending (touched st2) = [] \/ noloop t = true) by exact (pend_ext _ _ _ X2 Hp1).
    assert (Hpf : st_pending (touched st2) = [] \/ noloop f = true).
    { destruct Hp as [Hp | Hp]; [left | right; apply andb_prop in Hp; tauto].
      change (st_pending st2 = []). eapply st_ext_pending; [exact X2|]. eapply st_ext_pending; [exact X1 | exact Hp]. }
    destruct (IHf (touched st2) Hext (lst_ok_touched _ _ Hok2) Hpf) as [ie [st3 [L3 [[Hok3 [X3 [Pl3 S3]]] N3]]]].
    assert (Hp3 : st_pending st3 = [] \/ noloop f = true) by exact (pend_ext _ _ _ X3 Hpf).
    assert (X23 : st_ext st2 st3) by (eapply st_ext_trans; [apply st_ext_touched | exact X3]).
    pose proof (chk_seq _ it (touched st2) Pl2 Hp2) as Hchk.
    pose proof (chk_seq _ ie st3 Pl3 Hp3) as Hchke.
    destruct (mk_sequence it) as [tseq ttree] eqn:Emk. cbn [fst snd] in Hchk.
    assert (Ht : le_term tseq = seqn (flat_map item_effects it)) by (rewrite <- mk_sequence_term, Emk; reflexivity).
    destruct (mk_sequence ie) as [eseq etree] eqn:Emke. cbn [fst snd] in Hchke.
    assert (He : le_term eseq = seqn (flat_map item_effects ie)) by (rewrite <- mk_sequence_term, Emke; reflexivity).
    assert (Htm : noloop t = true -> le_tmps tseq = []).
    { intros Hn. rewrite Hn in Pl2. pose proof (mk_sequence_tmps it Pl2) as H. rewrite Emk in H. exact H. }
    assert (Hem : noloop f = true -> le_tmps eseq = []).
    { intros Hn. rewrite Hn in Pl3. pose proof (mk_sequence_tmps ie Pl3) as H. rewrite Emke in H. exact H. }
    assert (Hbr : st_pending st3 = [] \/ item_tmps (IPure pc) ++ le_tmps tseq ++ le_tmps eseq = []).
    { destruct Hp as [Hp | Hp].
      - left. eapply st_ext_pending; [exact X3|]. change (st_pending st2 = []).
        eapply st_ext_pending; [exact X2|]. eapply st_ext_pending; [exact X1 | exact Hp].
      - right. destruct (Hnf Hp) as [Hn1 Hn2]. cbn [item_tmps]. rewrite Tc, (Htm Hn1), (Hem Hn2). reflexivity. }
    exists [IEff (mkle (EBranch (cond_of cfg pc) (le_term tseq) (le_term eseq))
                       (item_tmps (IPure pc) ++ le_tmps tseq ++ le_tmps eseq) false)], st3.
    split.
    { rewrite lower_stmt_if. unfold bind. rewrite L1, L2. unfold if_tail. rewrite Emk. unfold bind. rewrite touch_eq.
      rewrite Hchk. rewrite L3. rewrite Emke. unfold bind, ret.
      rewrite Hchke. rewrite chk_nil; [reflexivity | exact Hbr]. }
    split; [|intros _; eapply st_ext_nonempty; [exact X3 | reflexivity]].
    split; [exact Hok3|].
    split; [eapply st_ext_trans; [exact X1|]; eapply st_ext_trans; [exact X2 | exact X23]|].
    split; [repeat constructor; intros Hn; destruct (Hnf Hn) as [Hn1 Hn2]; cbn [le_tmps item_tmps]; rewrite Tc, (Htm Hn1), (Hem Hn2); reflexivity|].
    intros HR Hrem HJ cs ms fuel cs' Hrel Himm Hce.
    destruct (Hcond st3 (st_ext_trans _ _ _ X2 X23) HR Hrem HJ cs ms (proj1 Hrel) Himm) as [b [Ec Hcb]].
    destruct fuel as [|k]; [rewrite cexec_0 in Hce; discriminate Hce|].
    rewrite cexec_if in Hce by (apply (srel_ret _ _ _ _ _ _ Hrel)).
    destruct (ceval E csub xi k cs c) as [[s1 vc]|] eqn:Ece; [|discriminate Hce].
    destruct (Hcb k s1 vc Ece) as [-> Hb]. rewrite Hb in Hce.
    cbn [flat_map item_effects le_empty le_term app seqn fin_eff].
    destruct b.
    - destruct (S2 (regs_le_trans _ _ _ (st_ext_regs _ _ X23) HR) Hrem (incl_tran (st_ext_imms _ _ X23) HJ) cs ms k cs' Hrel Himm Hce)
        as [ms' [Run [Rel Imm]]].
      exists ms'. split; [|split; [exact Rel | exact Imm]]. apply runs_branch_inv. left.
      split; [exact Ec | rewrite Ht; exact Run].
    - destruct (S3 HR Hrem HJ cs ms k cs' Hrel Himm Hce) as [ms' [Run [Rel Imm]]].
      exists ms'. split; [|split; [exact Rel | exact Imm]]. apply runs_branch_inv. right.
      split; [exact Ec | rewrite He; exact Run].
  Qed.

  (* ------------------------------------------------------------------ for (init; c; i++) body *)
  (* Lower.set_var on the variable table *)
  Definition vars_set (x : string) (t : option vtype) (vars : list (string * option vtype)) : list (string * option vtype) :=
    if existsb (fun p => String.eqb (fst p) x) vars
    then map (fun p => if String.eqb (fst p) x then (x, t) else p) vars
    else vars ++ [(x, t)].
  Lemma set_var_eq x t st :
    set_var x t st = OK (tt, mkst (vars_set x t (st_vars st)) (st_regs st) (st_pending st) (st_hcount st) (st_imms st) true (st_removed st)).
  Proof. reflexivity. Qed.
  Lemma lookup_vars_set x t vars y : lookup y (vars_set x t vars) = if String.eqb y x then Some t else lookup y vars.
  Proof.
    unfold vars_set. destruct (existsb (fun p => String.eqb (fst p) x) vars) eqn:Ee.
    - induction vars as [|[k v] r IH]; [discriminate Ee|]. cbn [existsb fst] in Ee. cbn [map fst lookup].
      destruct (String.eqb_spec k x) as [->|Hk].
      + cbn [lookup]. destruct (String.eqb_spec y x) as [_|Hy]; [reflexivity|].
        clear IH Ee. induction r as [|[k2 v2] r2 IH2]; [reflexivity|]. cbn [map fst lookup].
        destruct (String.eqb_spec k2 x) as [->|Hk2]; cbn [lookup].
        * destruct (String.eqb_spec y x); [contradiction | exact IH2].
        * destruct (String.eqb y k2); [reflexivity | exact IH2].
      + cbn [orb] in Ee. cbn [lookup]. destruct (String.eqb_spec y k) as [->|Hyk].
        * destruct (String.eqb_spec k x); [contradiction | reflexivity].
        * exact (IH Ee).
    - rewrite lookup_app. cbn [lookup].
      assert (Hn : lookup x vars = None).
      { clear t. induction vars as [|[k v] r IH]; [reflexivity|]. cbn [existsb fst] in Ee. apply orb_false_elim in Ee.
        destruct Ee as [E1 E2]. cbn [lookup]. rewrite String.eqb_sym, E1. exact (IH E2). }
      destruct (String.eqb_spec y x) as [->|_]; [rewrite Hn; reflexivity | destruct (lookup y vars); reflexivity].
  Qed.

  (* the name of the next temporary is one of the reserved names h_tmp<n> *)
  Definition htmp_name (st : lstate) : string := "h_tmp" +++ string_of_N (st_hcount st).
  Lemma htmp_name_is st : is_htmp (htmp_name st) = true.
  Proof. unfold is_htmp, htmp_name. generalize (string_of_N (st_hcount st)). intros s. cbn [String.append substring]. destruct s; reflexivity. Qed.

  (* the pending entry of i++ / i-- on the local i *)
  Definition step_entry (name : string) (inc : bool) (i : string) : pend :=
    mkpend name [] (ESetL i (PIncDec inc (PVarL i) 32)) (ESetL name (PVarL i)) false [name].
  Definition step_state (st : lstate) (inc : bool) (i : string) (sg : bool) : lstate :=
    mkst (vars_set (htmp_name st) (Some (ty_h true sg 32)) (vars_set i (Some (ty_h true sg 32)) (st_vars st)))
         (st_regs st) [step_entry (htmp_name st) inc i] (st_hcount st + 1) (st_imms st) true (st_removed st).
  Lemma lower_expr_post inc a :
    lower_expr cfg (EPost inc a) =
    (do ia <- lower_expr cfg a;
     do p <- as_pure "postfix" ia;
     do _ <- need_numeric (pv_ty p);
     match pv_kind p with
     | KReg n =>
         do s0 <- get;
         do _ <- (match lookup_reg_info n (st_regs s0) with
                  | Some ri => put (mkst (st_vars s0) (update_reg_info n (mkreg (r_op ri) (set_hybrid_vt (r_ty ri)) (r_acc ri) (r_x ri) (r_pc ri) (r_new ri)) (st_regs s0))
                                         (st_pending s0) (st_hcount s0) (st_imms s0) (st_nonempty s0) (st_removed s0))
                  | None => ret tt end);
         resolve_hybrid (pv_ty p) (rd p) (EWriteReg (RParam ("$reg:" +++ n)) (PIncDec inc (rd p) (vt_w (pv_ty p)))) false false (pv_tmps p) false
     | KVar n | KTmp n _ =>
         do s0 <- get;
         do _ <- (match lookup n (st_vars s0) with
                  | Some (Some t) => set_var n (Some (set_hybrid_vt t))
                  | _ => ret tt end);
         resolve_hybrid (pv_ty p) (rd p) (ESetL n (PIncDec inc (rd p) (vt_w (pv_ty p)))) false false (pv_tmps p) false
     | _ => fail "No scope letter given"
     end).
  Proof. reflexivity. Qed.

  Lemma lower_step_ok inc i st h sg : lookup i (st_vars st) = Some (Some (ty_h h sg 32)) -> is_htmp i = false ->
    st_pending st = [] ->
    lower_expr cfg (EPost inc (EOp (OIdent i))) st =
    OK (IPure (mkpv (PVarL (htmp_name st)) (ty_h true sg 32) (KTmp (htmp_name st) false) [htmp_name st]), step_state st inc i sg).
  Proof.
    intros Hi Hh Hp. rewrite lower_expr_post, lower_expr_op. cbn [lower_operand cfg_params lookup].
    unfold bind at 1. unfold bind at 1. unfold get at 1. rewrite Hi. unfold ret at 1.
    unfold is_htmp in Hh. rewrite Hh.
    unfold bind at 1. cbn [as_pure]. unfold ret at 1.
    unfold bind at 1. cbn [pv_ty need_numeric is_numeric ty_h vt_void vt_ext negb andb]. unfold ret at 1.
    cbn [pv_kind]. unfold bind at 1. unfold get at 1. unfold bind at 1. rewrite Hi. rewrite set_var_eq.
    unfold resolve_hybrid. cbn [ty_h vt_void]. unfold bind at 1. unfold get at 1.
    unfold bind at 1. unfold put at 1. unfold bind at 1. rewrite set_var_eq.
    unfold bind at 1. unfold get at 1. cbn [st_pending st_vars st_regs st_hcount st_imms st_removed]. rewrite Hp.
    unfold bind at 1. unfold ret at 1. cbn [collect_deps pop_pending app flat_map map].
    unfold bind at 1. unfold put at 1. unfold ret. cbn [rd pv_term pv_tmps pv_ty vt_w ty_h set_hybrid_vt vt_sg vt_bool vt_void vt_ext vt_float vt_const vt_tok].
    reflexivity.
  Qed.

  Lemma lst_ok_step V st inc i sg h : lst_ok IM V st -> lookup i (st_vars st) = Some (Some (ty_h h sg 32)) ->
    IM i = false -> is_htmp i = false -> lst_ok IM V (step_state st inc i sg).
  Proof.
    intros [H1 [H2 [H3 [H4 H5]]]] Hi Him Hih. pose proof (htmp_name_is st) as Hn.
    assert (Hnm : IM (htmp_name st) = false) by exact (proj2 (proj2 HIM) _ Hn).
    unfold lst_ok, step_state. cbn [st_vars st_imms st_regs].
    split; [|split; [exact H2|split; [|split; [|exact H5]]]].
    - intros x Hx Hxh. rewrite !lookup_vars_set.
      destruct (String.eqb_spec x (htmp_name st)) as [->|_]; [congruence|].
      destruct (String.eqb_spec x i) as [->|_]; [|exact (H1 x Hx Hxh)].
      rewrite <- (H1 i Him Hih), Hi. cbn [option_map unhyb_o]. destruct h; reflexivity.
    - intros l Hl. rewrite !lookup_vars_set.
      destruct (String.eqb_spec l (htmp_name st)) as [->|_]; [congruence|].
      destruct (String.eqb_spec l i) as [->|_]; [congruence|]. exact (H3 l Hl).
    - eapply Forall_impl; [|exact H4]. intros e [l [Hl [He Hlk]]]. exists l. split; [exact Hl|]. split; [exact He|].
      rewrite !lookup_vars_set.
      destruct (String.eqb_spec l (htmp_name st)) as [->|_]; [congruence|].
      destruct (String.eqb_spec l i) as [->|_]; [congruence|]. exact Hlk.
  Qed.

  (* what the compiler sequences as the loop's compound: the body's effects; its leaves are the temporary of the step *)
  Lemma mk_sequence_loop ib hp : Forall (pitem true) ib ->
    mk_sequence (ib ++ [IPure hp]) =
    (mkle (seqn (flat_map item_effects ib)) (pv_tmps hp) (match flat_map item_effects ib with [] => true | _ => false end), false).
  Proof.
    intros H. unfold mk_sequence.
    assert (E1 : flat_map (fun i => match i with IEff e | IVoid e | IAsg e _ => if le_empty e then [] else [le_term e] | _ => [] end) (ib ++ [IPure hp])
                 = flat_map item_effects ib).
    { rewrite flat_map_app. cbn [flat_map]. rewrite app_nil_r. reflexivity. }
    assert (E2 : flat_map (fun i => match i with IEff _ | IVoid _ | IAsg _ _ => [] | _ => item_tmps i end) (ib ++ [IPure hp]) = pv_tmps hp).
    { rewrite flat_map_app. cbn [flat_map item_tmps]. rewrite app_nil_r.
      assert (E0 : flat_map (fun i => match i with IEff _ | IVoid _ | IAsg _ _ => [] | _ => item_tmps i end) ib = []).
      { clear E1. induction H as [|i l [Hi Ht] _ IH]; [reflexivity|]. cbn [flat_map]. rewrite IH. specialize (Ht eq_refl).
        destruct i; try contradiction Hi; cbn [item_tmps] in Ht; cbn [item_tmps]; rewrite ?Ht; reflexivity. }
      rewrite E0. reflexivity. }
    assert (E3 : flat_map (fun i => match i with IEff e | IVoid e | IAsg e _ => if le_empty e then [] else le_tmps e | _ => [] end) (ib ++ [IPure hp]) = []).
    { rewrite flat_map_app. cbn [flat_map]. rewrite app_nil_r. clear E1 E2.
      induction H as [|i l [Hi Ht] _ IH]; [reflexivity|]. cbn [flat_map]. rewrite IH. specialize (Ht eq_refl).
      destruct i as [p | | e | e | e | |]; try contradiction Hi; cbn [item_tmps] in Ht; rewrite ?Ht; try destruct (le_empty e); reflexivity. }
    assert (E4 : existsb (fun i => match i with ITree _ => true | _ => false end) (ib ++ [IPure hp]) = false).
    { rewrite existsb_app. cbn [existsb]. rewrite !orb_false_r.
      clear E1 E2 E3. induction H as [|i l [Hi _] _ IH]; [reflexivity|]. cbn [existsb]. rewrite IH. destruct i; try contradiction Hi; reflexivity. }
    rewrite E1, E2, E3, E4, app_nil_r. reflexivity.
  Qed.

  (* CSem's loop of a for statement (the local fixpoint of CSem.cexec), and its unfolding *)
  Fixpoint cloop (k : nat) (ce step : cexpr) (b : cstmt) (n : nat) (s : cstate) : option cstate :=
    match n with O => None | S n' =>
      match cs_ret s with Some _ => Some s | None =>
        match ceval E csub xi k s ce with
        | Some (s1, vc) =>
            if snd vc =? 0 then Some s1
            else match cexec E csub xi k s1 b with
                 | Some s2 => match cs_ret s2 with
                              | Some _ => Some s2
                              | None => match ceval E csub xi k s2 step with Some (s3, _) => cloop k ce step b n' s3 | None => None end
                              end
                 | None => None end
        | None => None end end end.
  Lemma cexec_for k s i ce step b : cs_ret s = None ->
    cexec E csub xi (S k) s (SFor i (SExpr ce) (Some step) b) =
    match cexec E csub xi k s i with Some s1 => cloop k ce step b k s1 | None => None end.
  Proof.
    intros H. cbn [cexec]. rewrite H. destruct (cexec E csub xi k s i) as [s1|]; [|reflexivity].
    match goal with |- ?f0 k s1 = _ => set (f := f0) end.
    assert (Hstep : forall n s0, f (S n) s0 =
              match cs_ret s0 with Some _ => Some s0 | None =>
                match ceval E csub xi k s0 ce with
                | Some (s1, vc) =>
                    if snd vc =? 0 then Some s1
                    else match cexec E csub xi k s1 b with
                         | Some s2 => match cs_ret s2 with
                                      | Some _ => Some s2
                                      | None => match ceval E csub xi k s2 step with Some (s3, _) => f n s3 | None => None end
                                      end
                         | None => None end
                | None => None end end) by (intros; reflexivity).
    assert (Hf : forall n s0, f n s0 = cloop k ce step b n s0).
    { induction n as [|n IH]; intros s0; [reflexivity|]. rewrite Hstep. cbn [cloop].
      destruct (cs_ret s0); [reflexivity|]. destruct (ceval E csub xi k s0 ce) as [[s2 vc]|]; [|reflexivity].
      destruct (snd vc =? 0); [reflexivity|]. destruct (cexec E csub xi k s2 b) as [s3|]; [|reflexivity].
      destruct (cs_ret s3); [reflexivity|]. destruct (ceval E csub xi k s3 step) as [[s4 v4]|]; [|reflexivity]. apply IH. }
    apply Hf.
  Qed.

  (* i++ / i-- on a 32 bit local: C computes in the promoted type and converts back; the IL increments at 32 bits *)
  Lemma incdec_value (inc sg : bool) v0 : 0 <= v0 < pow2 32 ->
    conv (sg, 32%N) (c_arith (if inc then Z.add else Z.sub) ((sg, 32%N), v0) (mkval int_t 1)) =
    ((sg, 32%N), wrap 32 (if inc then v0 + 1 else v0 - 1)).
  Proof.
    intros Hv.
    assert (Hw32 : okw 32) by (right; right; left; reflexivity).
    assert (Hwf : wfc (mkval int_t 1)) by (split; [exact Hw32 | vm_compute; split; [discriminate | reflexivity]]).
    rewrite compound_value; [|exact Hw32 | exact Hwf | destruct inc; unfold ring_fun; auto].
    assert (Ep : promote (sg, 32%N) = (sg, 32%N)) by (destruct sg; reflexivity). rewrite Ep. cbn [snd].
    assert (E1 : conv (sg, 32%N) (conv (sg, 32%N) (mkval int_t 1)) = ((sg, 32%N), 1)) by (destruct sg; reflexivity).
    rewrite E1. cbn [snd].
    assert (E0 : conv (sg, 32%N) ((sg, 32%N), v0) = ((sg, 32%N), v0)).
    { rewrite <- (wrap_small 32 v0) at 1 by exact Hv. rewrite conv_trunc; [|exact Hw32..|lia].
      rewrite wrap_small by exact Hv. reflexivity. }
    rewrite E0. cbn [snd]. rewrite conv_trunc; [|exact Hw32..|lia].
    destruct inc; reflexivity.
  Qed.

  Definition for_tail (ii ic is_ ib : list item) : M (list item) :=
    do init <- (match ii with [x] => ret x | _ => fail "for init" end);
    do cnd <- (match ic with [IPure p] => ret p | _ => fail "for condition" end);
    let '(comp, ctree) := mk_sequence (ib ++ is_) in
    do _ <- touch;
    do comp' <- chk_hybrid_dep comp true ctree;
    let loop := mkle (ERepeat (cond_of cfg cnd) (le_term comp')) (pv_tmps cnd ++ le_tmps comp') false in
    let '(sq, stree) := mk_sequence [init; IEff loop] in
    do r <- chk_hybrid_dep sq false stree;
    ret [IEff r].
  Lemma lower_stmt_for i c st b :
    lower_stmt cfg (SFor i c (Some st) b) =
    (do ii <- lower_stmt cfg i; do ic <- lower_stmt cfg c; do is_ <- (do x <- lower_expr cfg st; ret [x]);
     do ib <- lower_stmt cfg b; for_tail ii ic is_ ib).
  Proof. reflexivity. Qed.

  Lemma sinv_for D V e0 D1 V1 c inc i sg b :
    (vext V D -> vext V1 D1) -> SInv D V (SExpr e0) D1 V1 -> pfrag rw IM V1 c -> lookup i V1 = Some (Some (ty_int sg 32)) ->
    SInv D1 V1 b D1 V1 -> noloop b = true ->
    SInv D V (SFor (SExpr e0) (SExpr c) (Some (EPost inc (EOp (OIdent i)))) b) D1 V1.
  Proof.
    intros Hv1 IHi Hc Hi IHb Hnl st Hext Hok Hp. cbn [noloop] in Hp. destruct Hp as [Hp | Hp]; [|discriminate Hp].
    pose proof (Hv1 Hext) as Hext1.
    (* the initialisation *)
    destruct (IHi st Hext Hok (or_introl Hp)) as [ii [st1 [L1 [[Hok1 [X1 [Pl1 S1]]] N1]]]].
    assert (Hsingle : exists x0, ii = [x0]).
    { rewrite lower_stmt_expr in L1. unfold bind in L1. destruct (lower_expr cfg e0 st) as [[x0 s0]|]; [|discriminate L1].
      injection L1 as <- _. eauto. }
    destruct Hsingle as [x0 ->].
    assert (Hp1 : st_pending st1 = []) by (eapply st_ext_pending; eassumption).
    (* the condition *)
    destruct (cond_sim D1 V1 c st1 Hc Hext1 Hok1) as [pc [st2 [L2 [X2 [Hok2 [Tc Hcond]]]]]].
    assert (Hp2 : st_pending st2 = []) by (eapply st_ext_pending; eassumption).
    (* the step *)
    destruct (lst_ok_local IM D1 st2 i sg 32 Hok2 (Hext1 _ _ Hi)) as [Hii [Hih [ti [Hti Hity]]]].
    destruct (ity_inv _ _ _ Hity) as [hi Eti]. rewrite Eti in Hti.
    pose proof (lower_step_ok inc i st2 hi sg Hti Hih Hp2) as L3.
    pose proof (lst_ok_step D1 st2 inc i sg hi Hok2 Hti Hii Hih) as Hok3.
    pose proof (htmp_name_is st2) as Hname.
    set (name := htmp_name st2) in *. set (st3 := step_state st2 inc i sg) in *.
    set (hp := mkpv (PVarL name) (ty_h true sg 32) (KTmp name false) [name]) in *.
    (* the body *)
    destruct (IHb st3 Hext1 Hok3 (or_intror Hnl)) as [ib [st4 [L4 [[Hok4 [X4 [Pl4 S4]]] N4]]]]. rewrite Hnl in Pl4.
    assert (Hp4 : st_pending st4 = [step_entry name inc i]) by (rewrite (proj1 X4); reflexivity).
    set (st5 := mkst (st_vars st4) (st_regs st4) [] (st_hcount st4) (st_imms st4) true (st_removed st4)).
    set (beff := seqn (flat_map item_effects ib)).
    set (pe := ESeq (ESetL name (PVarL i)) (ESetL i (PIncDec inc (PVarL i) 32))).
    set (loop := mkle (ERepeat (cond_of cfg pc) (ESeq beff pe)) (pv_tmps pc ++ [name; name]) false).
    assert (Hpl : Forall (pitem false) [x0; IEff loop]).
    { inversion Pl1 as [|? ? [Hx0 _] _]; subst. repeat constructor; try exact Hx0; intros Hf; discriminate Hf. }
    pose proof (chk_seq false [x0; IEff loop] st5 Hpl (or_introl eq_refl)) as Hchk.
    destruct (mk_sequence [x0; IEff loop]) as [sq stree] eqn:Emk. cbn [fst snd] in Hchk.
    assert (Hsq : le_term sq = seqn (flat_map item_effects [x0; IEff loop])) by (rewrite <- mk_sequence_term, Emk; reflexivity).
    assert (Hemp : le_empty sq = false).
    { pose proof (f_equal (fun p => le_empty (fst p)) Emk) as Q. cbn [fst] in Q. rewrite <- Q. unfold mk_sequence.
      cbn [fst le_empty flat_map loop].
      match goal with |- match ?l ++ _ with _ => _ end = _ => destruct l; reflexivity end. }
    exists [IEff sq], st5.
    split.
    { rewrite lower_stmt_for. unfold bind at 1. rewrite L1. unfold bind at 1. rewrite lower_stmt_expr. unfold bind at 1. rewrite L2.
      unfold ret at 1. unfold bind at 1. unfold bind at 1. rewrite L3. unfold ret at 1. unfold bind at 1. rewrite L4.
      unfold for_tail. unfold bind at 1. unfold ret at 1. unfold bind at 1. unfold ret at 1.
      rewrite (mk_sequence_loop ib hp Pl4). unfold bind at 1. rewrite touch_eq.
      unfold bind at 1. unfold chk_hybrid_dep at 1. unfold bind at 1. unfold get at 1.
      cbn [touched st_pending st_vars st_regs st_hcount st_imms st_removed]. rewrite Hp4.
      cbn [le_tmps hp pv_tmps collect_deps pop_pending step_entry pd_name]. rewrite String.eqb_refl.
      unfold bind at 1. unfold put at 1. unfold ret at 1.
      unfold step_entry, pend_effect. cbn [map pd_pre pd_exec_first pd_set pd_hyb app seqn le_term flat_map pd_tmps le_tmps].
      fold beff. fold pe. fold loop. rewrite Emk. fold st5. unfold bind. rewrite Hchk. reflexivity. }
    assert (L45 : st_hcount st4 = st_hcount st5 /\ st_imms st4 = st_imms st5 /\ st_removed st4 = st_removed st5 /\ st_regs st4 = st_regs st5)
      by (repeat split; reflexivity).
    assert (X35 : (st_hcount st3 <= st_hcount st5)%N /\ incl (st_imms st3) (st_imms st5) /\ st_removed st5 = st_removed st3 /\
                  regs_le (st_regs st3) (st_regs st5)).
    { destruct X4 as [_ [A2 [A3 [A4 [_ A6]]]]]. repeat split; assumption. }
    assert (X25 : st_ext st2 st5).
    { destruct X35 as [B2 [B3 [B4 B6]]]. unfold st_ext. split; [exact (eq_sym Hp2)|].
      split; [eapply N.le_trans; [|exact B2]; unfold st3, step_state; cbn [st_hcount]; lia|].
      split; [exact B3|]. split; [exact B4|]. split; [intros _; reflexivity | exact B6]. }
    split; [|intros _; reflexivity].
    split; [destruct Hok4 as [K1 [K2 [K3 [K4 K5]]]]; repeat split; assumption|].
    split; [eapply st_ext_trans; [exact X1|]; eapply st_ext_trans; [exact X2 | exact X25]|].
    split; [repeat constructor; intros Hf; discriminate Hf|].
    intros HR Hrem HJ cs ms fuel cs' Hrel Himm Hce.
    assert (HR4 : regs_le (st_regs st4) R) by exact HR.
    assert (HJ4 : incl (st_imms st4) J) by exact HJ.
    assert (HR1 : regs_le (st_regs st1) R) by (eapply regs_le_trans; [|exact HR]; eapply regs_le_trans; [exact (st_ext_regs _ _ X2) | exact (st_ext_regs _ _ X25)]).
    assert (HJ1 : incl (st_imms st1) J) by (eapply incl_tran; [|exact HJ]; eapply incl_tran; [exact (st_ext_imms _ _ X2) | exact (st_ext_imms _ _ X25)]).
    destruct fuel as [|k]; [rewrite cexec_0 in Hce; discriminate Hce|].
    rewrite cexec_for in Hce by (apply (srel_ret _ _ _ _ _ _ Hrel)).
    destruct (cexec E csub xi k cs (SExpr e0)) as [cs1|] eqn:Ec1; [|discriminate Hce].
    destruct (S1 HR1 Hrem HJ1 cs ms k cs1 Hrel Himm Ec1) as [ms1 [Run1 [Rel1 Imm1]]].
    (* the loop: by induction on the number of iterations CSem was given *)
    assert (Hloop : forall n csa msa csb, srel IM E D1 V1 csa msa -> imms_done IM E J csa msa ->
              cloop k c (EPost inc (EOp (OIdent i))) b n csa = Some csb ->
              exists msb, runs rw ilsubs (fin_eff R rem (ERepeat (cond_of cfg pc) (ESeq beff pe))) msa msb /\
                          srel IM E D1 V1 csb msb /\ imms_done IM E J csb msb).
    { induction n as [|n IHn]; intros csa msa csb Rela Imma Hl; [discriminate Hl|].
      cbn [cloop] in Hl. rewrite (srel_ret _ _ _ _ _ _ Rela) in Hl.
      destruct (Hcond st5 X25 HR Hrem HJ csa msa (proj1 Rela) Imma) as [bb [Ecn Hcb]].
      destruct (ceval E csub xi k csa c) as [[s1 vc]|] eqn:Ece; [|discriminate Hl].
      destruct (Hcb k s1 vc Ece) as [-> Hb]. cbn [fin_eff].
      destruct (snd vc =? 0) eqn:Ez; cbn [negb] in Hb; subst bb.
      - injection Hl as <-. exists msa. split; [apply runs_repeat_false; exact Ecn | split; assumption].
      - destruct (cexec E csub xi k csa b) as [cs2|] eqn:Eb; [|discriminate Hl].
        destruct (S4 HR4 Hrem HJ4 csa msa k cs2 Rela Imma Eb) as [ms2 [Run2 [Rel2 Imm2]]].
        rewrite (srel_ret _ _ _ _ _ _ Rel2) in Hl.
        destruct (ceval E csub xi k cs2 (EPost inc (EOp (OIdent i)))) as [[cs3 v3]|] eqn:Es; [|discriminate Hl].
        (* the step on both sides *)
        destruct (proj1 (proj1 Rel2) i sg 32%N Hi (or_intror (or_intror (or_introl eq_refl)))) as [v0 [Hcx [Hv0 Hmx]]].
        destruct k as [|k']; [rewrite ceval_0 in Es; discriminate Es|].
        cbn [ceval operand_lval] in Es. rewrite Hcx in Es. cbn [read_lval] in Es. rewrite Hcx in Es.
        unfold write_lval in Es. injection Es as Ecs3 _.
        set (z := wrap 32 (if inc then v0 + 1 else v0 - 1)) in *.
        assert (Ecs3' : cs3 = CSem.set_var cs2 i ((sg, 32%N), z)) by (rewrite <- Ecs3; f_equal; apply incdec_value; exact Hv0).
        clear Ecs3. subst cs3.
        set (msh := set_local ms2 name (VBv 32 v0)).
        assert (Relh : srel IM E D1 V1 cs2 msh) by (apply srel_set_htmp; assumption).
        assert (Immh : imms_done IM E J cs2 msh).
        { apply (imms_done_il_local IM E J cs2 cs2 ms2); [exact (proj2 (proj2 HIM) _ Hname) | reflexivity | exact Imm2]. }
        assert (Rel3 : srel IM E D1 V1 (CSem.set_var cs2 i ((sg, 32%N), z)) (set_local msh i (VBv 32 z))).
        { apply srel_set_var; [exact Relh | exact Hi | apply wrap_range]. }
        assert (Imm3 : imms_done IM E J (CSem.set_var cs2 i ((sg, 32%N), z)) (set_local msh i (VBv 32 z))).
        { apply imms_done_set_local; [exact (srel_nr _ _ _ _ _ _ _ _ Rel2 Hi) | exact Immh]. }
        destruct (IHn _ _ csb Rel3 Imm3 Hl) as [msb [Run3 [Relb Immb]]].
        exists msb. split; [|split; assumption].
        cbn [fin_eff] in Run3. eapply runs_repeat_true; [exact Ecn | | exact Run3].
        apply runs_seq. exists ms2. split; [exact Run2|].
        unfold pe. cbn [fin_eff fin_pure]. apply runs_seq. exists msh. split.
        + apply runs_setl; [cbn [eval]; exact Hmx|].
          destruct (proj2 (proj2 (proj2 (proj2 (proj2 (proj2 (proj2 (proj2 (proj2 Rel2)))))))) name Hname) as [Hn | [vn Hn]];
            [left; exact Hn | right; exists (VBv 32 vn); split; [exact Hn | reflexivity]].
        + assert (Hmx' : lookup i (locals msh) = Some (VBv 32 v0)).
          { unfold msh. cbn [locals set_local lookup]. destruct (String.eqb_spec i name) as [Ein|_]; [|exact Hmx].
            rewrite Ein in Hih. congruence. }
          apply runs_setl; [cbn [eval]; rewrite Hmx'; rewrite N.eqb_refl; reflexivity|].
          right. exists (VBv 32 v0). split; [exact Hmx' | reflexivity]. }
    destruct (Hloop k cs1 ms1 cs' Rel1 Imm1 Hce) as [ms' [Run2 [Rel2 Imm2]]].
    exists ms'. split; [|split; assumption].
    cbn [flat_map item_effects app]. rewrite Hemp. cbn [app seqn]. rewrite Hsq.
    change [x0; IEff loop] with ([x0] ++ [IEff loop]). rewrite flat_map_app, fin_eff_seqn, map_app. apply runs_seqn_app. exists ms1.
    rewrite <- !fin_eff_seqn. split; [exact Run1|]. cbn [flat_map item_effects le_empty loop le_term app seqn]. exact Run2.
  Qed.

  (* ------------------------------------------------------------------ the fragment satisfies the invariant *)
  Theorem stmt_inv :
    (forall D V s D' V', sfrag rw IM D V s D' V' -> SInv D V s D' V') /\
    (forall D V l D' V', sfrags rw IM D V l D' V' -> SsInv D V l D' V').
  Proof.
    apply sfrag_mutind.
    - intros. apply (sinv_asg_reg D V cls letters acc e); assumption.
    - intros. apply sinv_asg_alias; assumption.
    - intros. apply sinv_asg_expl; assumption.
    - intros. apply sinv_asg_imm; assumption.
    - intros. apply (sinv_asg_var D V x sg w e); assumption.
    - intros. apply sinv_asg_first; assumption.
    - intros. apply sinv_asg_implicit; assumption.
    - intros. apply (sinv_casg_var D V a x sg w e); assumption.
    - intros. apply (sinv_basg_var D V a x sg w e); assumption.
    - intros. apply (sinv_basg_reg D V a cls letters acc e); assumption.
    - intros. apply (sinv_casg_reg D V a cls letters acc e); assumption.
    - intros. apply (sinv_sasg_var D V a x sg w e); assumption.
    - intros. apply (sinv_sasg_reg D V a cls letters acc e); assumption.
    - intros. apply sinv_decl; assumption.
    - intros. apply sinv_decl0; assumption.
    - intros. apply sinv_expr_imm; assumption.
    - intros. apply sinv_empty.
    - intros. apply sinv_nop.
    - intros. apply sinv_cancel.
    - intros. apply sinv_ssc; assumption.
    - intros. apply sinv_store; assumption.
    - intros. apply sinv_jump; assumption.
    - intros. apply sinv_block; assumption.
    - intros. apply sinv_if; assumption.
    - intros. apply sinv_ifelse; assumption.
    - intros D V e0 D1 V1 c inc i sg b H0 IH0 Hc Hi Hb IHb Hnl. apply (sinv_for D V e0 D1 V1 c inc i sg b); try assumption.
      exact (sfrag_vext rw IM D V _ D1 V1 H0).
    - intros. apply ssinv_nil.
    - intros D V s D1 V1 l D2 V2 Hs IHs Hl IHl. eapply ssinv_cons; [|exact IHs | exact IHl].
      exact (sfrag_vext rw IM D V s D1 V1 Hs).
  Qed.
End StmtCorrect.

(* ================================================================== the theorems, for any configuration with all repairs on *)

Lemma exists_forall_swap3 {A B X Y Z : Type} (f : res (A * B)) (P : X -> Y -> Z -> A -> B -> Prop) (x0 : X) (y0 : Y) (z0 : Z) :
  (forall x y z, exists a b, f = OK (a, b) /\ P x y z a b) ->
  exists a b, f = OK (a, b) /\ forall x y z, P x y z a b.
Proof.
  intros H.
  destruct (exists_forall_swap f (fun (t : X * Y * Z) a b => P (fst (fst t)) (snd (fst t)) (snd t) a b) (x0, y0, z0)) as [a [b [L Hp]]].
  - intros [[x y] z]. exact (H x y z).
  - exists a, b. split; [exact L|]. intros x y z. exact (Hp (x, y, z)).
Qed.

(* Statement level, function Lower.lower_stmt: from any model state st of the fragment whose declared
   locals are V ([lst_ok IM V st]; the initial state qualifies, V = []), with no pending hybrid.  The emitted
   effect is the sequence of the returned items' effects (exactly what mk_sequence / tlower_info build),
   finalised against ANY later register table R, run in a state in which ANY later immediate prologue J
   has been executed. *)
Theorem stmt_correct : forall (cfg : config) (rw : regwidth) (IM : string -> bool) (ilsubs : subenv) (E : cenv) (csub : csubs) xi D V s D' V' st,
  cfg_fx cfg = all_fixes -> cfg_params cfg = [] -> macs_std (cfg_macros cfg) -> subs_ext (cfg_subs cfg) -> csub_ext csub -> xi_ok xi -> im_ok IM ->
  vext V D -> lst_ok IM D st -> st_pending st = [] ->
  sfrag rw IM D V s D' V' ->
  exists items st', lower_stmt cfg s st = OK (items, st') /\
    lst_ok IM D' st' /\ st_ext st st' /\ Forall plain_item items /\
    forall R rem J, regs_le (st_regs st') R -> norem rem -> incl (st_imms st') J ->
    forall cs ms fuel cs', srel IM E D V cs ms -> imms_done IM E J cs ms -> cexec E csub xi fuel cs s = Some cs' ->
      exists ms', runs rw ilsubs (fin_eff R rem (seqn (flat_map item_effects items))) ms ms' /\ srel IM E D' V' cs' ms' /\ imms_done IM E J cs' ms'.
Proof.
  intros cfg rw IM ilsubs E csub xi D V s D' V' st Hfx Hpar Hmacs Hssc Hcssc Hxi HIM Hext Hok Hp Hfrag.
  destruct cfg as [fx0 subs macs params cret hstart]. cbn in Hfx, Hpar, Hmacs, Hssc. subst fx0 params.
  destruct (exists_forall_swap3 (lower_stmt (mkcfg all_fixes subs macs [] cret hstart) s st)
              (fun R rem J items st' => lst_ok IM D' st' /\ st_ext st st' /\ Forall plain_item items /\
                 (regs_le (st_regs st') R -> norem rem -> incl (st_imms st') J ->
                  forall cs ms fuel cs', srel IM E D V cs ms -> imms_done IM E J cs ms -> cexec E csub xi fuel cs s = Some cs' ->
                    exists ms', runs rw ilsubs (fin_eff R rem (seqn (flat_map item_effects items))) ms ms' /\ srel IM E D' V' cs' ms' /\ imms_done IM E J cs' ms'))
              (@nil (string * reginfo)) (@nil string) (@nil effect)) as [items [st' [L H]]].
  - intros R rem J.
    destruct (proj1 (stmt_inv subs macs cret hstart Hmacs Hssc rw IM HIM R rem J ilsubs E csub Hcssc xi Hxi) D V s D' V' Hfrag st Hext Hok (or_introl Hp))
      as [items [st' [L [[H1 [H2 [H3 H6]]] _]]]].
    apply pitem_plain in H3.
    exists items, st'. split; [exact L|]. repeat (split; [assumption|]). exact H6.
  - exists items, st'. split; [exact L|]. destruct (H [] [] []) as [H1 [H2 [H3 _]]]. repeat (split; [assumption|]).
    intros R rem J. apply (H R rem J).
Qed.
Print Assumptions stmt_correct.

(* Statement lists, function Lower.lower_stmts: sequences of any length *)
Theorem stmts_correct : forall (cfg : config) (rw : regwidth) (IM : string -> bool) (ilsubs : subenv) (E : cenv) (csub : csubs) xi D V l D' V' st,
  cfg_fx cfg = all_fixes -> cfg_params cfg = [] -> macs_std (cfg_macros cfg) -> subs_ext (cfg_subs cfg) -> csub_ext csub -> xi_ok xi -> im_ok IM ->
  vext V D -> lst_ok IM D st -> st_pending st = [] ->
  sfrags rw IM D V l D' V' ->
  exists items st', lower_stmts cfg l st = OK (items, st') /\
    lst_ok IM D' st' /\ st_ext st st' /\ Forall plain_item items /\ (started st -> l <> SNil -> st_nonempty st' = true) /\
    forall R rem J, regs_le (st_regs st') R -> norem rem -> incl (st_imms st') J ->
    forall cs ms fuel cs', srel IM E D V cs ms -> imms_done IM E J cs ms -> cexecs E csub xi fuel cs l = Some cs' ->
      exists ms', runs rw ilsubs (fin_eff R rem (seqn (flat_map item_effects items))) ms ms' /\ srel IM E D' V' cs' ms' /\ imms_done IM E J cs' ms'.
Proof.
  intros cfg rw IM ilsubs E csub xi D V l D' V' st Hfx Hpar Hmacs Hssc Hcssc Hxi HIM Hext Hok Hp Hfrag.
  destruct cfg as [fx0 subs macs params cret hstart]. cbn in Hfx, Hpar, Hmacs, Hssc. subst fx0 params.
  destruct (exists_forall_swap3 (lower_stmts (mkcfg all_fixes subs macs [] cret hstart) l st)
              (fun R rem J items st' => lst_ok IM D' st' /\ st_ext st st' /\ Forall plain_item items /\
                 (started st -> l <> SNil -> st_nonempty st' = true) /\
                 (regs_le (st_regs st') R -> norem rem -> incl (st_imms st') J ->
                  forall cs ms fuel cs', srel IM E D V cs ms -> imms_done IM E J cs ms -> cexecs E csub xi fuel cs l = Some cs' ->
                    exists ms', runs rw ilsubs (fin_eff R rem (seqn (flat_map item_effects items))) ms ms' /\ srel IM E D' V' cs' ms' /\ imms_done IM E J cs' ms'))
              (@nil (string * reginfo)) (@nil string) (@nil effect)) as [items [st' [L H]]].
  - intros R rem J.
    destruct (proj2 (stmt_inv subs macs cret hstart Hmacs Hssc rw IM HIM R rem J ilsubs E csub Hcssc xi Hxi) D V l D' V' Hfrag st Hext Hok (or_introl Hp))
      as [items [st' [L [[H1 [H2 [H3 H6]]] N]]]].
    apply pitem_plain in H3.
    exists items, st'. split; [exact L|]. repeat (split; [assumption|]). exact H6.
  - exists items, st'. split; [exact L|]. destruct (H [] [] []) as [H1 [H2 [H3 [H4 _]]]]. repeat (split; [assumption|]).
    intros R rem J. apply (H R rem J).
Qed.
Print Assumptions stmts_correct.

Lemma plain_not_dropped items : Forall plain_item items ->
  existsb (fun i => match i with ITree _ | ITok _ => true | _ => false end) items = false.
Proof. induction 1 as [|i t Hi _ IH]; [reflexivity|]. cbn [existsb]. rewrite IH. destruct i; cbn in Hi; try contradiction; reflexivity. Qed.

(* ------------------------------------------------------------------ the immediate prologue *)
(* tlower_info keeps every prologue entry whose immediate is still declared: all of them, in the fragment *)
Lemma imms_kept (IM : string -> bool) (vars : list (string * option vtype)) (l : list effect) :
  Forall (fun e => exists x, IM x = true /\ e = imm_entry x /\ lookup x vars = Some (Some (imm_ty x))) l ->
  map (fun e => match e with
                | ESetL x (PImm _ _ _) => if existsb (fun v => String.eqb (fst v) x) vars then e else ESetL x (PRaw x)
                | _ => e end) l = l.
Proof.
  induction 1 as [|e t [x [_ [-> Hx]]] _ IH]; [reflexivity|]. cbn [map imm_entry].
  rewrite (lookup_some_existsb x vars _ Hx), IH. reflexivity.
Qed.

(* no immediate has been assigned: the state of the C side when the instruction starts *)
Definition imm_fresh (IM : string -> bool) (cs : cstate) : Prop :=
  forall l, IM l = true -> lookup ("imm:" +++ l) (cs_vars cs) = None.
Lemma cimm_fresh IM E cs l : imm_fresh IM cs -> IM l = true -> cimm E cs l = wrap 32 (ce_imms E l).
Proof. intros H Hl. unfold cimm. rewrite (H l Hl). reflexivity. Qed.

Lemma srel_set_imm IM E D V cs ms x : im_ok IM -> imm_fresh IM cs -> srel IM E D V cs ms -> IM x = true ->
  srel IM E D V cs (set_local ms x (VBv 32 (wrap 32 (imms ms x)))).
Proof.
  intros [HI1 [HI2 _]] Hfr [[R1 [R2 [R3 [R4 [R5 R6]]]]] [H2 [H3 [H4 [H5 [H6 [H7 [H8 [H9 H10]]]]]]]]] Hx.
  assert (Hr : reserved IM x) by (right; right; left; exact Hx).
  split; [|split].
  - unfold rel. cbn [locals rnew rold rnew0 imms set_local]. split; [|auto 10].
    intros y sg w Hy Hw. cbn [lookup].
    destruct (String.eqb_spec y x) as [->|_]; [rewrite (vext_none V D x H9 (H5 x Hr)) in Hy; discriminate Hy|]. exact (R1 y sg w Hy Hw).
  - intros y Hy Hyr. cbn [locals set_local lookup].
    destruct (String.eqb_spec y x) as [->|_]; [contradiction | exact (H2 y Hy Hyr)].
  - cbn [mem set_local]. repeat (split; [assumption|]). split.
    + unfold jrel in *. cbn [locals set_local lookup].
      destruct (String.eqb_spec "jump_flag" x) as [<-|_]; [congruence|].
      destruct (String.eqb_spec "jump_target" x) as [<-|_]; [congruence|]. exact H6.
    + split; [|split; [exact H8 | split; [exact H9 | apply htmp_ok_set_htmp; exact H10]]]. intros l Hl. cbn [locals set_local lookup imms].
      destruct (String.eqb_spec l x) as [->|_]; [|exact (H7 l Hl)].
      right. rewrite (cimm_fresh IM E cs x Hfr Hx), R5. reflexivity.
Qed.

Lemma imms_done_set_imm IM E J cs ms x : imm_fresh IM cs -> (forall l, ce_imms E l = imms ms l) -> IM x = true ->
  imms_done IM E J cs ms -> imms_done IM E J cs (set_local ms x (VBv 32 (wrap 32 (imms ms x)))).
Proof.
  intros Hfr R5 Hx H l Hl Hin. cbn [locals set_local lookup imms].
  destruct (String.eqb_spec l x) as [->|_]; [|exact (H l Hl Hin)].
  rewrite (cimm_fresh IM E cs x Hfr Hx), R5. reflexivity.
Qed.

Lemma imm_entry_inj x y : imm_entry x = imm_entry y -> x = y.
Proof. unfold imm_entry. intros H. injection H. auto. Qed.

(* running the prologue from a related state in which no immediate has been assigned: the immediates' locals get their
   encoded values *)
Lemma run_prologue rw IM ilsubs E R rem D V cs (l : list effect) : im_ok IM -> imm_fresh IM cs ->
  Forall (fun e => exists x, IM x = true /\ e = imm_entry x) l ->
  forall ms, srel IM E D V cs ms ->
    exists ms1, runs rw ilsubs (seqn (map (fin_eff R rem) l)) ms ms1 /\ srel IM E D V cs ms1 /\ imms_done IM E l cs ms1 /\
                (forall J, imms_done IM E J cs ms -> imms_done IM E J cs ms1).
Proof.
  intros HIM Hfr. induction 1 as [|e t [x [Hx ->]] _ IH]; intros ms Hrel.
  - exists ms. split; [apply runs_empty; reflexivity|]. split; [exact Hrel|]. split; [intros l0 _ []|auto].
  - set (ms0 := set_local ms x (VBv 32 (wrap 32 (imms ms x)))).
    assert (Hrel0 : srel IM E D V cs ms0) by (apply srel_set_imm; assumption).
    assert (R5 : forall l, ce_imms E l = imms ms l) by (apply Hrel).
    destruct (IH ms0 Hrel0) as [ms1 [Run [Rel1 [Done1 Pres1]]]].
    exists ms1. split; [|split; [exact Rel1|split]].
    + cbn [map]. apply runs_seqn_cons. exists ms0. split; [|exact Run].
      cbn [imm_entry fin_eff fin_pure]. exists 1%nat. cbn [exec eval].
      destruct Hrel as [_ [_ [_ [_ [_ [_ [H7 _]]]]]]]. destruct (H7 x Hx) as [-> | ->]; reflexivity.
    + intros y Hy [Hin | Hin].
      * apply imm_entry_inj in Hin. subst y.
        apply (Pres1 [imm_entry x]); [|exact Hy | left; reflexivity].
        intros z _ [Hz | []]. apply imm_entry_inj in Hz. subst z. unfold ms0. cbn [locals set_local lookup imms].
        rewrite String.eqb_refl. rewrite (cimm_fresh IM E cs x Hfr Hx), R5. reflexivity.
      * exact (Done1 y Hy Hin).
    + intros J0 HJ0. apply Pres1. apply imms_done_set_imm; assumption.
Qed.

(* Top level, functions Lower.tlower_info / Lower.tlower INCLUDING the final wrapping (immediate
   prologue, hoisted leftovers, the emptiness test, finalisation of register operands against the
   final register table): a whole behaviour of the fragment, started in the initial model state.
   Besides the simulation: the hybrid counter is untouched, nothing is left over, nothing is dropped. *)
Theorem tlower_correct : forall (cfg : config) (rw : regwidth) (IM : string -> bool) (ilsubs : subenv) (E : cenv) (csub : csubs) xi prog D' V',
  cfg_fx cfg = all_fixes -> cfg_params cfg = [] -> macs_std (cfg_macros cfg) -> subs_ext (cfg_subs cfg) -> csub_ext csub -> xi_ok xi -> im_ok IM ->
  sfrags rw IM [] [] prog D' V' ->
  exists eff h', tlower_info cfg prog = OK (mkti eff h' 0 false []) /\
    tlower cfg prog = OK (eff, h') /\ (cfg_hstart cfg <= h')%N /\
    forall cs ms fuel cs', srel IM E [] [] cs ms -> imm_fresh IM cs -> cexecs E csub xi fuel cs prog = Some cs' ->
      exists ms', runs rw ilsubs eff ms ms' /\ srel IM E D' V' cs' ms'.
Proof.
  intros cfg rw IM ilsubs E csub xi prog D' V' Hfx Hpar Hmacs Hssc Hcssc Hxi HIM Hfrag.
  destruct (stmts_correct cfg rw IM ilsubs E csub xi [] [] prog D' V' (init_state cfg) Hfx Hpar Hmacs Hssc Hcssc Hxi HIM (vext_refl _) (lst_ok_init IM cfg) eq_refl Hfrag)
    as [items [st' [L [Hok [X [H5 [N H6]]]]]]].
  destruct X as [Fp [Fh [_ [Fr _]]]]. cbn [init_state st_pending st_hcount st_removed] in Fp, Fh, Fr.
  destruct prog as [|s t].
  - (* the empty behaviour *)
    inversion Hfrag; subst. exists ENop, (cfg_hstart cfg). split; [reflexivity|]. split; [reflexivity|]. split; [apply N.le_refl|].
    intros cs ms fuel cs' Hrel Hfr Hce. destruct fuel as [|k]; [discriminate Hce|]. cbn in Hce. injection Hce as <-.
    exists ms. split; [apply runs_nop; reflexivity | exact Hrel].
  - assert (Hne : st_nonempty st' = true) by (apply N; [right; split; reflexivity | discriminate]).
    exists (fin_eff (st_regs st') [] (seqn (st_imms st' ++ flat_map item_effects items))), (st_hcount st').
    assert (Hinfo : tlower_info cfg (SCons s t) =
                    OK (mkti (fin_eff (st_regs st') [] (seqn (st_imms st' ++ flat_map item_effects items))) (st_hcount st') 0 false [])).
    { unfold tlower_info. rewrite L. rewrite (plain_not_dropped items H5), Hne, Fp, Fr. cbn [negb map app List.length].
      rewrite (imms_kept IM (st_vars st') (st_imms st') (proj1 (proj2 (proj2 (proj2 Hok))))). reflexivity. }
    split; [exact Hinfo|]. split; [unfold tlower; rewrite Hinfo; reflexivity|]. split; [exact Fh|].
    intros cs ms fuel cs' Hrel Hfr Hce.
    assert (Hwf : Forall (fun e => exists x, IM x = true /\ e = imm_entry x) (st_imms st')).
    { eapply Forall_impl; [|exact (proj1 (proj2 (proj2 (proj2 Hok))))]. intros e [x [A [B _]]]. eauto. }
    destruct (run_prologue rw IM ilsubs E (st_regs st') [] [] [] cs (st_imms st') HIM Hfr Hwf ms Hrel) as [ms1 [Run1 [Rel1 [Done1 _]]]].
    destruct (H6 (st_regs st') [] (st_imms st') (regs_le_refl _) norem_nil (incl_refl _) cs ms1 fuel cs' Rel1 Done1 Hce)
      as [ms' [Run2 [Rel2 _]]].
    exists ms'. split; [|exact Rel2].
    rewrite fin_eff_seqn, map_app. apply runs_seqn_app. exists ms1. rewrite <- (fin_eff_seqn _ _ (flat_map _ _)). split; assumption.
Qed.
Print Assumptions tlower_correct.

(* the same with the fuel of the IL interpreter made explicit: every sufficiently large fuel works *)
Corollary tlower_correct_fuel : forall (cfg : config) (rw : regwidth) (IM : string -> bool) (ilsubs : subenv) (E : cenv) (csub : csubs) xi prog D' V' eff h,
  cfg_fx cfg = all_fixes -> cfg_params cfg = [] -> macs_std (cfg_macros cfg) -> subs_ext (cfg_subs cfg) -> csub_ext csub -> xi_ok xi -> im_ok IM ->
  sfrags rw IM [] [] prog D' V' -> tlower cfg prog = OK (eff, h) ->
  forall cs ms fuel cs', srel IM E [] [] cs ms -> imm_fresh IM cs -> cexecs E csub xi fuel cs prog = Some cs' ->
    exists n ms', (forall fuel', (n <= fuel')%nat -> exec rw ilsubs fuel' eff ms = Some ms') /\ srel IM E D' V' cs' ms'.
Proof.
  intros cfg rw IM ilsubs E csub xi prog D' V' eff h Hfx Hpar Hmacs Hssc Hcssc Hxi HIM Hfrag Hlow cs ms fuel cs' Hrel Hfr Hce.
  destruct (tlower_correct cfg rw IM ilsubs E csub xi prog D' V' Hfx Hpar Hmacs Hssc Hcssc Hxi HIM Hfrag) as [eff0 [h0 [_ [Hlow0 [_ Hsim]]]]].
  rewrite Hlow0 in Hlow. injection Hlow as <- _.
  destruct (Hsim cs ms fuel cs' Hrel Hfr Hce) as [ms' [[n Hn] Hrel']].
  exists n, ms'. split; [|exact Hrel'].
  intros fuel' Hle. exact (exec_mono rw ilsubs n eff0 ms ms' Hn fuel' Hle).
Qed.
Print Assumptions tlower_correct_fuel.

(* ================================================================== the fragment is inhabited *)
Module Example.
  Definition num (v : Z) := EOp (ONum v false "").
  Definition var (x : string) := EOp (OIdent x).
  Definition reg (cls letters : string) := EOp (OReg cls letters).
  Definition imm (l : string) := EOp (OImm l).
  (*  int32_t x = 5;
      size1u_t b = 250;
      if (x > 3) { RdV = x + 1; JUMP(x * 4); } else RdV = -x;
      x = x * 2;
      b += x;                      (wraps around: 250 + 10 = 4 in 8 bits)
      mem_store_u16(x + 4, b);                            *)
  Definition prog : cstmts :=
    SCons (SDecl [TS_intN true 32] "x" (Some (num 5)))
   (SCons (SDecl [TS_sizeN 1 false] "b" (Some (num 250)))
   (SCons (SIf (EBin BGt (var "x") (num 3))
               (SBlock (SCons (SExpr (EAssign AAssign (EOp (OReg "R" "d")) (EBin Ast.BAdd (var "x") (num 1))))
                       (SCons (SJump (EBin Ast.BMul (var "x") (num 4))) SNil)))
               (Some (SExpr (EAssign AAssign (EOp (OReg "R" "d")) (EUn UMinus (var "x"))))))
   (SCons (SExpr (EAssign AAssign (var "x") (EBin Ast.BMul (var "x") (num 2))))
   (SCons (SExpr (EAssign AAdd (var "b") (var "x")))
   (SCons (SStore false 16 (ECons (EBin Ast.BAdd (var "x") (num 4)) (ECons (var "b") ENil))) SNil))))).

  Definition cfg := mkcfg all_fixes [] std_macs [] None 0.
  Definition rw : regwidth := fun _ => 32%N.
  Definition env : cenv := mkce (fun _ => 0) (fun _ => 0) (fun _ => 0) 0 (fun _ => 0).
  Definition nosubs : csubs := fun _ => None.
  (* (the table of explicit registers the C semantics is given: the standard one, ExprCorrect.xi_ok_std) *)
  Definition noxi : string -> bool -> option (regop * N) := explicit_reg_info.
  (* the IL machine state that starts from the operand environment E, before the instruction has done anything *)
  Definition ms_of (E : cenv) : mstate :=
    {| locals := []; rold := ce_rold E; rnew := []; rnew0 := ce_rnew0 E; imms := ce_imms E;
       pktaddr := ce_pktaddr E; mem := []; mem0 := ce_mem0 E; events := [] |}.
  Definition ms0 : mstate := ms_of env.
  Definition Vx : list (string * option vtype) := [("x", Some (ty_int true 32)); ("b", Some (ty_int false 8))].

  Ltac pf :=
    repeat first
      [ eapply pf_num; [lia | reflexivity]
      | eapply pf_ident; [reflexivity | unfold okw; auto]
      | eapply (pf_reg _ _ _ "R" "s" AR); [left; reflexivity | reflexivity | reflexivity]
      | eapply (pf_reg _ _ _ "R" "t" AR); [left; reflexivity | reflexivity | reflexivity]
      | eapply (pf_reg _ _ _ "R" "d" AW); [left; reflexivity | reflexivity | reflexivity]
      | apply pf_imm; reflexivity
      | apply pf_bin; [unfold is_folding_op, is_plain_op, is_cmp; auto 15 | | ]
      | apply pf_un; [auto | ] ].

  Ltac not_reserved := intros [Hres | [Hres | [Hres | [Hres | Hres]]]]; try discriminate Hres; vm_compute in Hres; discriminate Hres.

  (* every operand environment is related to its initial machine state *)
  Lemma srel_init IM E : srel IM E [] [] cs0 (ms_of E).
  Proof.
    split; [|split; [reflexivity|]].
    - unfold rel. cbn [cs0 ms_of cs_vars cs_regw cs_mem locals rnew rold rnew0 imms mem mem0 pktaddr lookup lookup_reg].
      split; [intros x sg w H; discriminate H|].
      repeat (split; [reflexivity|]). split; [|auto 10]. intros l _. unfold cimm. cbn [cs0 cs_vars lookup]. apply wrap_range.
    - cbn. repeat split; try reflexivity; try (intros x t H; discriminate H); try (intros l _; left; reflexivity).
  Qed.
  Lemma fresh_init IM : imm_fresh IM cs0.
  Proof. intros l _. reflexivity. Qed.

  Example prog_in_fragment : sfrags rw imm_letter [] [] prog Vx Vx.
  Proof.
    unfold prog, Vx.
    eapply sfs_cons.
    { eapply (sf_decl rw imm_letter [] [] [TS_intN true 32] true 32 "x"); [left; left; auto | reflexivity | not_reserved | unfold num; pf]. }
    cbn [app].
    eapply sfs_cons.
    { eapply (sf_decl rw imm_letter _ _ [TS_sizeN 1 false] false 8 "b");
        [right; exists 1%N; unfold okw; auto | reflexivity | not_reserved | unfold num; pf]. }
    cbn [app].
    eapply sfs_cons.
    { apply sf_ifelse.
      - unfold var, num. pf.
      - apply sf_block. eapply sfs_cons.
        { eapply (sf_asg_reg rw imm_letter _ _ "R" "d" AW); [left; reflexivity | reflexivity | reflexivity | unfold var, num; pf]. }
        eapply sfs_cons; [|apply sfs_nil]. apply sf_jump. unfold var, num. pf.
      - eapply (sf_asg_reg rw imm_letter _ _ "R" "d" AW); [left; reflexivity | reflexivity | reflexivity | unfold var; pf]. }
    eapply sfs_cons.
    { eapply (sf_asg_var rw imm_letter _ _ "x" true 32); [reflexivity | auto | unfold var, num; pf]. }
    eapply sfs_cons.
    { eapply (sf_casg_var rw imm_letter _ _ AAdd "b" false 8); [auto | reflexivity | unfold okw; auto | unfold var; pf]. }
    eapply sfs_cons; [|apply sfs_nil].
    apply sf_store; [unfold okw; auto | unfold var, num; pf | unfold var; pf].
  Qed.

  (* the premises of tlower_correct are satisfiable: configuration, related initial states, and a
     terminating C execution *)
  Example premises_satisfiable :
    cfg_fx cfg = all_fixes /\ cfg_params cfg = [] /\ srel imm_letter env [] [] cs0 ms0 /\
    exists cs', cexecs env nosubs noxi 20 cs0 prog = Some cs' /\
                lookup "x" (cs_vars cs') = Some ((true, 32%N), Some 10) /\
                lookup "b" (cs_vars cs') = Some ((false, 8%N), Some 4) /\
                cs_regw cs' = [(RIsa "R" "d" false, 6)] /\ cs_mem cs' = [(15, 0); (14, 4)] /\ cs_jump cs' = Some 20.
  Proof.
    split; [reflexivity|]. split; [reflexivity|]. split; [apply srel_init|].
    eexists. split; [vm_compute; reflexivity|]. repeat split; reflexivity.
  Qed.

  (* what the compiler model emits for it (the function the theorem is about), and the theorem applied *)
  Example prog_lowered :
    tlower cfg prog =
    OK (ESeq (ESetL "x" (PBv true 32 5))
       (ESeq (ESetL "b" (PCast 8 (PBool false) (PBv true 32 250)))
       (ESeq (EBranch (PCmp CSgt (PVarL "x") (PBv true 32 3))
                      (ESeq (EWriteReg (RIsa "R" "d" false) (PBin RzIL.BAdd (PVarL "x") (PBv true 32 1)))
                      (ESeq (ESetL "jump_flag" (PBool true))
                            (ESetL "jump_target" (PBin RzIL.BMul (PVarL "x") (PBv true 32 4)))))
                      (EWriteReg (RIsa "R" "d" false) (PUn UNeg (PVarL "x"))))
       (ESeq (ESetL "x" (PBin RzIL.BMul (PVarL "x") (PBv true 32 2)))
       (ESeq (ESetL "b" (PCast 8 (PBool false)
                           (PBin RzIL.BAdd (PCast 32 (PBool false) (PVarL "b"))
                                           (PCast 32 (PBool false) (PCast 8 (PBool false) (PVarL "x"))))))
             (EStore (PBin RzIL.BAdd (PVarL "x") (PBv true 32 4)) (PCast 16 (PBool false) (PVarL "b"))))))), 0%N).
  Proof. vm_compute. reflexivity. Qed.

  Example prog_simulated : forall ilsubs,
    exists eff cs' ms', tlower cfg prog = OK (eff, 0%N) /\
      cexecs env nosubs noxi 20 cs0 prog = Some cs' /\ runs rw ilsubs eff ms0 ms' /\ srel imm_letter env Vx Vx cs' ms'.
  Proof.
    intros ilsubs.
    destruct (tlower_correct cfg rw imm_letter ilsubs env nosubs noxi prog Vx Vx eq_refl eq_refl macs_std_self subs_ext_nil csub_ext_none xi_ok_std im_ok_letters prog_in_fragment) as [eff [h0 [_ [Hl [_ Hsim]]]]].
    assert (Eh : h0 = 0%N) by (pose proof Hl as Hl'; vm_compute in Hl'; injection Hl' as _ Eh; symmetry; exact Eh). subst h0.
    destruct premises_satisfiable as [_ [_ [Hrel [cs' [Hc _]]]]].
    destruct (Hsim cs0 ms0 20%nat cs' Hrel (fresh_init _) Hc) as [ms' [Hrun Hrel']].
    exists eff, cs', ms'. auto.
  Qed.

  (* ------------------------------------------------------------------ second program: register operands and an immediate
        int32_t t = RsV + siV;
        if (t > RtV) { RdV = t; } else { RdV = RtV - 1; }
        mem_store_u32(RsV, RdV);            (RdV read back after it was written)
     run with RsV = 1000, RtV = 2000, siV = -7: t = 993, the else branch writes RdV = 1999, which is stored at 1000 *)
  Definition prog2 : cstmts :=
    SCons (SDecl [TS_intN true 32] "t" (Some (EBin Ast.BAdd (reg "R" "s") (imm "s"))))
   (SCons (SIf (EBin BGt (var "t") (reg "R" "t"))
               (SBlock (SCons (SExpr (EAssign AAssign (reg "R" "d") (var "t"))) SNil))
               (Some (SBlock (SCons (SExpr (EAssign AAssign (reg "R" "d") (EBin Ast.BSub (reg "R" "t") (num 1)))) SNil))))
   (SCons (SStore false 32 (ECons (reg "R" "s") (ECons (reg "R" "d") ENil))) SNil)).
  Definition Vt : list (string * option vtype) := [("t", Some (ty_int true 32))].
  Definition env2 : cenv :=
    mkce (fun r => if regop_eqb r (RIsa "R" "s" false) then 1000 else if regop_eqb r (RIsa "R" "t" false) then 2000 else 77)
         (fun _ => 0) (fun l => if String.eqb l "s" then -7 else 0) 0 (fun _ => 0).

  Example prog2_in_fragment : sfrags rw imm_letter [] [] prog2 Vt Vt.
  Proof.
    unfold prog2, Vt.
    eapply sfs_cons.
    { eapply (sf_decl rw imm_letter [] [] [TS_intN true 32] true 32 "t"); [left; left; auto | reflexivity | not_reserved | unfold reg, imm; pf]. }
    cbn [app].
    eapply sfs_cons.
    { apply sf_ifelse.
      - unfold var, reg. pf.
      - apply sf_block. eapply sfs_cons; [|apply sfs_nil].
        eapply (sf_asg_reg rw imm_letter _ _ "R" "d" AW); [left; reflexivity | reflexivity | reflexivity | unfold var; pf].
      - apply sf_block. eapply sfs_cons; [|apply sfs_nil].
        eapply (sf_asg_reg rw imm_letter _ _ "R" "d" AW); [left; reflexivity | reflexivity | reflexivity | unfold reg, num; pf]. }
    eapply sfs_cons; [|apply sfs_nil].
    apply sf_store; [unfold okw; auto | unfold reg; pf | unfold reg; pf].
  Qed.

  Example premises2_satisfiable :
    cfg_fx cfg = all_fixes /\ cfg_params cfg = [] /\ srel imm_letter env2 [] [] cs0 (ms_of env2) /\
    exists cs', cexecs env2 nosubs noxi 20 cs0 prog2 = Some cs' /\
                lookup "t" (cs_vars cs') = Some ((true, 32%N), Some 993) /\
                cs_regw cs' = [(RIsa "R" "d" false, 1999)] /\
                cs_mem cs' = [(1003, 0); (1002, 0); (1001, 7); (1000, 207)].
  Proof.
    split; [reflexivity|]. split; [reflexivity|]. split; [apply srel_init|].
    eexists. split; [vm_compute; reflexivity|]. repeat split; reflexivity.
  Qed.

  (* the immediate prologue comes first; source operands are READ_REG(op, false); the destination operand read
     back in the store is READ_REG(op, true), the new bank *)
  Example prog2_lowered :
    tlower cfg prog2 =
    OK (ESeq (ESetL "s" (PImm "s" true 32))
       (ESeq (ESetL "t" (PBin RzIL.BAdd (PReg (RIsa "R" "s" false) false) (PVarL "s")))
       (ESeq (EBranch (PCmp CSgt (PVarL "t") (PReg (RIsa "R" "t" false) false))
                      (EWriteReg (RIsa "R" "d" false) (PVarL "t"))
                      (EWriteReg (RIsa "R" "d" false) (PBin RzIL.BSub (PReg (RIsa "R" "t" false) false) (PBv true 32 1))))
             (EStore (PReg (RIsa "R" "s" false) false) (PCast 32 (PBool false) (PReg (RIsa "R" "d" false) true))))), 0%N).
  Proof. vm_compute. reflexivity. Qed.

  Example prog2_simulated : forall ilsubs,
    exists eff cs' ms', tlower cfg prog2 = OK (eff, 0%N) /\
      cexecs env2 nosubs noxi 20 cs0 prog2 = Some cs' /\ runs rw ilsubs eff (ms_of env2) ms' /\ srel imm_letter env2 Vt Vt cs' ms' /\
      rnew ms' = [(RIsa "R" "d" false, 1999)] /\ mem ms' = [(1003, 0); (1002, 0); (1001, 7); (1000, 207)].
  Proof.
    intros ilsubs.
    destruct (tlower_correct cfg rw imm_letter ilsubs env2 nosubs noxi prog2 Vt Vt eq_refl eq_refl macs_std_self subs_ext_nil csub_ext_none xi_ok_std im_ok_letters prog2_in_fragment) as [eff [h0 [_ [Hl [_ Hsim]]]]].
    assert (Eh : h0 = 0%N) by (pose proof Hl as Hl'; vm_compute in Hl'; injection Hl' as _ Eh; symmetry; exact Eh). subst h0.
    destruct premises2_satisfiable as [_ [_ [Hrel [cs' [Hc [_ [Hr Hm]]]]]]].
    destruct (Hsim cs0 (ms_of env2) 20%nat cs' Hrel (fresh_init _) Hc) as [ms' [Hrun Hrel']].
    exists eff, cs', ms'. repeat (split; [assumption|]).
    destruct Hrel' as [[_ [Hregw _]] [_ [Hmem _]]]. split; congruence.
  Qed.

  (* ------------------------------------------------------------------ third program: predicates, pairs, .new operands,
     a read-write operand; the width environment gives every operand handle the width of the operand
        if (PuN) { RddV = RssV; } else { RddV = RttV + 1; }
        if (PvV) RxV = RxV + NsN;                                                                       *)
  Definition nreg (cls letters : string) := EOp (ONewReg cls letters).
  Definition prog3 : cstmts :=
    SCons (SIf (nreg "P" "u")
               (SBlock (SCons (SExpr (EAssign AAssign (reg "R" "dd") (reg "R" "ss"))) SNil))
               (Some (SBlock (SCons (SExpr (EAssign AAssign (reg "R" "dd") (EBin Ast.BAdd (reg "R" "tt") (num 1)))) SNil))))
   (SCons (SIf (reg "P" "v") (SExpr (EAssign AAssign (reg "R" "x") (EBin Ast.BAdd (reg "R" "x") (nreg "N" "s")))) None) SNil).
  Definition rw3 : regwidth := fun r =>
    match r with
    | RIsa "P" _ _ => 8%N
    | RIsa "R" l false => if existsb (String.eqb l) ["d"; "s"; "t"] then 64%N else 32%N
    | _ => 32%N
    end.
  Definition env3 : cenv :=
    mkce (fun r => if regop_eqb r (RIsa "R" "t" false) then 18446744073709551615       (* RttV = -1 *)
                   else if regop_eqb r (RIsa "R" "x" false) then 40 else if regop_eqb r (RIsa "P" "v" false) then 255 else 3)
         (fun r => if regop_eqb r (RNreg "s") then 2 else 0)                            (* PuN = 0, NsN = 2 *)
         (fun _ => 0) 0 (fun _ => 0).

  Example prog3_in_fragment : sfrags rw3 imm_letter [] [] prog3 [] [].
  Proof.
    unfold prog3.
    eapply sfs_cons.
    { apply sf_ifelse.
      - eapply (pf_newreg _ _ _ "P" "u" AR); [left; right; left; reflexivity | reflexivity | reflexivity].
      - apply sf_block. eapply sfs_cons; [|apply sfs_nil].
        eapply (sf_asg_reg rw3 imm_letter _ _ "R" "dd" APW); [left; reflexivity | reflexivity | reflexivity |].
        eapply (pf_reg _ _ _ "R" "ss" APR); [left; reflexivity | reflexivity | reflexivity].
      - apply sf_block. eapply sfs_cons; [|apply sfs_nil].
        eapply (sf_asg_reg rw3 imm_letter _ _ "R" "dd" APW); [left; reflexivity | reflexivity | reflexivity |].
        apply pf_bin; [unfold is_folding_op; auto | | unfold num; pf].
        eapply (pf_reg _ _ _ "R" "tt" APR); [left; reflexivity | reflexivity | reflexivity]. }
    eapply sfs_cons; [|apply sfs_nil].
    apply sf_if.
    - eapply (pf_reg _ _ _ "P" "v" AR); [right; left; reflexivity | reflexivity | reflexivity].
    - eapply (sf_asg_reg rw3 imm_letter _ _ "R" "x" ARW); [left; reflexivity | reflexivity | reflexivity |].
      apply pf_bin; [unfold is_folding_op; auto | | ].
      + eapply (pf_reg _ _ _ "R" "x" ARW); [left; reflexivity | reflexivity | reflexivity].
      + eapply (pf_newreg _ _ _ "N" "s" AR); [right; split; reflexivity | reflexivity | reflexivity].
  Qed.

  Example prog3_lowered :
    tlower cfg prog3 =
    OK (ESeq (EBranch (PNonZero (PReg (RIsa "P" "u" true) true))
                      (EWriteReg (RIsa "R" "d" false) (PReg (RIsa "R" "s" false) false))
                      (EWriteReg (RIsa "R" "d" false)
                         (PBin RzIL.BAdd (PReg (RIsa "R" "t" false) false)
                                         (PCast 64 (PMsb (PBv true 32 1)) (PBv true 32 1)))))
             (EBranch (PNonZero (PReg (RIsa "P" "v" false) false))
                      (EWriteReg (RIsa "R" "x" false) (PBin RzIL.BAdd (PReg (RIsa "R" "x" false) false) (PReg (RNreg "s") true)))
                      EEmpty), 0%N).
  Proof. vm_compute. reflexivity. Qed.

  Example prog3_simulated : forall ilsubs,
    exists eff cs' ms', tlower cfg prog3 = OK (eff, 0%N) /\
      cexecs env3 nosubs noxi 20 cs0 prog3 = Some cs' /\ runs rw3 ilsubs eff (ms_of env3) ms' /\ srel imm_letter env3 [] [] cs' ms' /\
      rnew ms' = [(RIsa "R" "x" false, 42); (RIsa "R" "d" false, 0)].      (* RddV = -1 + 1 = 0; RxV = 40 + 2 *)
  Proof.
    intros ilsubs.
    destruct (tlower_correct cfg rw3 imm_letter ilsubs env3 nosubs noxi prog3 [] [] eq_refl eq_refl macs_std_self subs_ext_nil csub_ext_none xi_ok_std im_ok_letters prog3_in_fragment) as [eff [h0 [_ [Hl [_ Hsim]]]]].
    assert (Eh : h0 = 0%N) by (pose proof Hl as Hl'; vm_compute in Hl'; injection Hl' as _ Eh; symmetry; exact Eh). subst h0.
    assert (Hc : exists cs', cexecs env3 nosubs noxi 20 cs0 prog3 = Some cs' /\ cs_regw cs' = [(RIsa "R" "x" false, 42); (RIsa "R" "d" false, 0)]).
    { eexists. split; [vm_compute; reflexivity | reflexivity]. }
    destruct Hc as [cs' [Hc Hr]].
    destruct (Hsim cs0 (ms_of env3) 20%nat cs' (srel_init imm_letter env3) (fresh_init _) Hc) as [ms' [Hrun Hrel']].
    exists eff, cs', ms'. repeat (split; [assumption|]).
    destruct Hrel' as [[_ [Hregw _]] _]. congruence.
  Qed.

  (* Why sf_decl demands a FRESH name.  Legal C with two disjoint block scopes:
        { int8_t x = 1; }  { int32_t x = 300; RdV = x; }
     C11 (CSem) gives RdV = 300.  The model (all repairs on) converts the initialiser to the type of the
     EXISTING variable first (300 -> int8_t = 44) and only then to the declared type, and re-types the
     RzIL local x from 8 to 32 bits: the emitted effect is ill-sorted (exec = None), and would write 44. *)
  Definition redecl : cstmts :=
    SCons (SBlock (SCons (SDecl [TS_intN true 8] "x" (Some (num 1))) SNil))
   (SCons (SBlock (SCons (SDecl [TS_intN true 32] "x" (Some (num 300)))
                  (SCons (SExpr (EAssign AAssign (EOp (OReg "R" "d")) (var "x"))) SNil))) SNil).
  Example redeclaration_counterexample :
    option_map cs_regw (cexecs env nosubs noxi 20 cs0 redecl) = Some [(RIsa "R" "d" false, 300)] /\
    tlower cfg redecl =
      OK (ESeq (ESetL "x" (PCast 8 (PMsb (PBv true 32 1)) (PBv true 32 1)))
         (ESeq (ESetL "x" (PCast 32 (PMsb (PCast 8 (PMsb (PBv true 32 300)) (PBv true 32 300)))
                                    (PCast 8 (PMsb (PBv true 32 300)) (PBv true 32 300))))
               (EWriteReg (RIsa "R" "d" false) (PVarL "x"))), 0%N) /\
    (forall e h, tlower cfg redecl = OK (e, h) -> exec rw (fun _ => None) 20 e ms0 = None) /\
    eval rw ms0 [] (PCast 32 (PMsb (PCast 8 (PMsb (PBv true 32 300)) (PBv true 32 300)))
                             (PCast 8 (PMsb (PBv true 32 300)) (PBv true 32 300))) = Some (VBv 32 44).
  Proof.
    split; [vm_compute; reflexivity|]. split; [vm_compute; reflexivity|]. split; [|vm_compute; reflexivity].
    intros e h H. vm_compute in H. injection H as <- _. vm_compute. reflexivity.
  Qed.

  (* Why the fragment reserves the letters of the immediates a behaviour uses (IM) as names of locals.  The model keeps
     immediates and declared locals in ONE table keyed by the bare letter, C does not:
        { int32_t s = 5; RdV = siV; }          with siV = 9
     C11 (CSem) gives RdV = 9 (the immediate).  The model (all repairs on) finds the local `s` when it lowers
     `siV`, emits no prologue and reads the local: the emitted effect writes 5.  In the other order
        { RdV = siV; int32_t s = 5; ReV = siV; }
     the declaration overwrites the RzIL local of the immediate: ReV gets 5 instead of 9. *)
  Definition env9 : cenv := mkce (fun _ => 0) (fun _ => 0) (fun l => if String.eqb l "s" then 9 else 0) 0 (fun _ => 0).
  Definition clash1 : cstmts :=
    SCons (SDecl [TS_intN true 32] "s" (Some (num 5)))
   (SCons (SExpr (EAssign AAssign (reg "R" "d") (imm "s"))) SNil).
  Definition clash2 : cstmts :=
    SCons (SExpr (EAssign AAssign (reg "R" "d") (imm "s")))
   (SCons (SDecl [TS_intN true 32] "s" (Some (num 5)))
   (SCons (SExpr (EAssign AAssign (reg "R" "e") (imm "s"))) SNil)).
  Example imm_local_clash_refuted :
    (option_map cs_regw (cexecs env9 nosubs noxi 20 cs0 clash1) = Some [(RIsa "R" "d" false, 9)] /\
     tlower cfg clash1 = OK (ESeq (ESetL "s" (PBv true 32 5)) (EWriteReg (RIsa "R" "d" false) (PVarL "s")), 0%N) /\
     forall e h, tlower cfg clash1 = OK (e, h) ->
       option_map rnew (exec rw (fun _ => None) 20 e (ms_of env9)) = Some [(RIsa "R" "d" false, 5)]) /\
    (option_map cs_regw (cexecs env9 nosubs noxi 20 cs0 clash2) = Some [(RIsa "R" "e" false, 9); (RIsa "R" "d" false, 9)] /\
     forall e h, tlower cfg clash2 = OK (e, h) ->
       option_map rnew (exec rw (fun _ => None) 20 e (ms_of env9)) = Some [(RIsa "R" "e" false, 5); (RIsa "R" "d" false, 9)]).
  Proof.
    split; (split; [vm_compute; reflexivity|]).
    - split; [vm_compute; reflexivity|]. intros e h H. vm_compute in H. injection H as <- _. vm_compute. reflexivity.
    - intros e h H. vm_compute in H. injection H as <- _. vm_compute. reflexivity.
  Qed.

  (* ------------------------------------------------------------------ the immediate set is a parameter: only the immediates the
     behaviour uses are reserved.  A local named like ANOTHER immediate letter of the grammar is fine:
        int32_t n = siV + 1;  RdV = n;          (uses siV only: IM = {s}) *)
  Definition only_s : string -> bool := fun l => String.eqb l "s".
  Lemma im_ok_only_s : im_ok only_s.
  Proof.
    destruct (proj1 (im_ok_l_iff ["s"]) eq_refl) as [_ [_ C]]. split; [reflexivity|]. split; [reflexivity|].
    intros x Hx. specialize (C x Hx). cbn [existsb] in C. rewrite orb_false_r in C. exact C.
  Qed.
  Definition prog4 : cstmts :=
    SCons (SDecl [TS_intN true 32] "n" (Some (EBin Ast.BAdd (imm "s") (num 1))))
   (SCons (SExpr (EAssign AAssign (reg "R" "d") (var "n"))) SNil).
  Example prog4_in_fragment : sfrags rw only_s [] [] prog4 [("n", Some (ty_int true 32))] [("n", Some (ty_int true 32))].
  Proof.
    unfold prog4.
    eapply sfs_cons.
    { eapply (sf_decl rw only_s [] [] [TS_intN true 32] true 32 "n"); [left; left; auto | reflexivity | not_reserved | ].
      apply pf_bin; [unfold is_folding_op; auto | apply pf_imm; reflexivity | unfold num; pf]. }
    cbn [app].
    eapply sfs_cons; [|apply sfs_nil].
    eapply (sf_asg_reg rw only_s _ _ "R" "d" AW); [left; reflexivity | reflexivity | reflexivity | unfold var; pf].
  Qed.
  Example prog4_simulated : forall ilsubs,
    exists eff cs' ms', tlower cfg prog4 = OK (eff, 0%N) /\
      cexecs env9 nosubs noxi 20 cs0 prog4 = Some cs' /\ runs rw ilsubs eff (ms_of env9) ms' /\
      srel only_s env9 [("n", Some (ty_int true 32))] [("n", Some (ty_int true 32))] cs' ms' /\ rnew ms' = [(RIsa "R" "d" false, 10)].
  Proof.
    intros ilsubs.
    assert (HIM : im_ok only_s) by exact im_ok_only_s.
    destruct (tlower_correct cfg rw only_s ilsubs env9 nosubs noxi prog4 _ _ eq_refl eq_refl macs_std_self subs_ext_nil csub_ext_none xi_ok_std HIM prog4_in_fragment) as [eff [h0 [_ [Hl [_ Hsim]]]]].
    assert (Eh : h0 = 0%N) by (pose proof Hl as Hl'; vm_compute in Hl'; injection Hl' as _ Eh; symmetry; exact Eh). subst h0.
    assert (Hc : exists cs', cexecs env9 nosubs noxi 20 cs0 prog4 = Some cs' /\ cs_regw cs' = [(RIsa "R" "d" false, 10)]).
    { eexists. split; [vm_compute; reflexivity | reflexivity]. }
    destruct Hc as [cs' [Hc Hr]].
    destruct (Hsim cs0 (ms_of env9) 20%nat cs' (srel_init only_s env9) (fresh_init _) Hc) as [ms' [Hrun Hrel']].
    exists eff, cs', ms'. repeat (split; [assumption|]).
    destruct Hrel' as [[_ [Hregw _]] _]. congruence.
  Qed.

  (* ------------------------------------------------------------------ fifth program: accumulate into a read-write operand, a predicate result
        RxV += RsV * RtV;            (multiply-accumulate)
        PdV = RxV > siV;             (RxV read after its own write: the value written) *)
  Definition prog5 : cstmts :=
    SCons (SExpr (EAssign AAdd (reg "R" "x") (EBin Ast.BMul (reg "R" "s") (reg "R" "t"))))
   (SCons (SExpr (EAssign AAssign (reg "P" "d") (EBin BGt (reg "R" "x") (imm "s")))) SNil).
  Definition rw5 : regwidth := fun r => match r with RIsa "P" _ _ => 8%N | _ => 32%N end.
  Definition env5 : cenv :=
    mkce (fun r => if regop_eqb r (RIsa "R" "x" false) then 10 else if regop_eqb r (RIsa "R" "s" false) then 3
                   else if regop_eqb r (RIsa "R" "t" false) then 4 else 0)
         (fun _ => 0) (fun l => if String.eqb l "s" then 20 else 0) 0 (fun _ => 0).
  Example prog5_in_fragment : sfrags rw5 only_s [] [] prog5 [] [].
  Proof.
    unfold prog5.
    eapply sfs_cons.
    { eapply (sf_casg_reg rw5 only_s _ _ AAdd "R" "x" ARW); [auto | left; reflexivity | reflexivity | reflexivity |].
      apply pf_bin; [unfold is_folding_op; auto | | ].
      - eapply (pf_reg _ _ _ "R" "s" AR); [left; reflexivity | reflexivity | reflexivity].
      - eapply (pf_reg _ _ _ "R" "t" AR); [left; reflexivity | reflexivity | reflexivity]. }
    eapply sfs_cons; [|apply sfs_nil].
    eapply (sf_asg_reg rw5 only_s _ _ "P" "d" AW); [right; left; reflexivity | reflexivity | reflexivity |].
    apply pf_bin; [unfold is_folding_op, is_cmp; auto 10 | | apply pf_imm; reflexivity].
    eapply (pf_reg _ _ _ "R" "x" ARW); [left; reflexivity | reflexivity | reflexivity].
  Qed.
  Example prog5_lowered :
    tlower cfg prog5 =
    OK (ESeq (ESetL "s" (PImm "s" true 32))
       (ESeq (EWriteReg (RIsa "R" "x" false)
                (PBin RzIL.BAdd (PReg (RIsa "R" "x" false) false)
                   (PBin RzIL.BMul (PReg (RIsa "R" "s" false) false) (PReg (RIsa "R" "t" false) false))))
             (EWriteReg (RIsa "P" "d" false)
                (PIte (PCmp CSgt (PReg (RIsa "R" "x" false) false) (PVarL "s")) (PBv true 8 1) (PBv true 8 0)))), 0%N).
  Proof. vm_compute. reflexivity. Qed.
  Example prog5_simulated : forall ilsubs,
    exists eff cs' ms', tlower cfg prog5 = OK (eff, 0%N) /\
      cexecs env5 nosubs noxi 20 cs0 prog5 = Some cs' /\ runs rw5 ilsubs eff (ms_of env5) ms' /\
      srel only_s env5 [] [] cs' ms' /\ rnew ms' = [(RIsa "P" "d" false, 1); (RIsa "R" "x" false, 22)].
  Proof.
    intros ilsubs.
    assert (HIM : im_ok only_s) by exact im_ok_only_s.
    destruct (tlower_correct cfg rw5 only_s ilsubs env5 nosubs noxi prog5 _ _ eq_refl eq_refl macs_std_self subs_ext_nil csub_ext_none xi_ok_std HIM prog5_in_fragment) as [eff [h0 [_ [Hl [_ Hsim]]]]].
    assert (Eh : h0 = 0%N) by (pose proof Hl as Hl'; vm_compute in Hl'; injection Hl' as _ Eh; symmetry; exact Eh). subst h0.
    assert (Hc : exists cs', cexecs env5 nosubs noxi 20 cs0 prog5 = Some cs' /\
                             cs_regw cs' = [(RIsa "P" "d" false, 1); (RIsa "R" "x" false, 22)]).
    { eexists. split; [vm_compute; reflexivity | reflexivity]. }
    destruct Hc as [cs' [Hc Hr]].
    destruct (Hsim cs0 (ms_of env5) 20%nat cs' (srel_init only_s env5) (fresh_init _) Hc) as [ms' [Hrun Hrel']].
    exists eff, cs', ms'. repeat (split; [assumption|]).
    destruct Hrel' as [[_ [Hregw _]] _]. congruence.
  Qed.

  (* Why register operands of class N are in the fragment only as .new operands (NsN).  For the (ungrammatical)
     spelling NsV the two sides name DIFFERENT operand handles: CSem reads the old value of ISA2REG(hi,'s') of
     class N, the model emits READ_REG(NREG2OP(bundle,'s'), false): with an old register file that tells the
     two handles apart the values differ. *)
  Definition envN : cenv :=
    mkce (fun r => match r with RNreg _ => 1 | _ => 2 end) (fun _ => 0) (fun _ => 0) 0 (fun _ => 0).
  Definition nsv : cstmts := SCons (SExpr (EAssign AAssign (reg "R" "d") (reg "N" "s"))) SNil.
  Example nreg_not_new_refuted :
    option_map cs_regw (cexecs envN nosubs noxi 20 cs0 nsv) = Some [(RIsa "R" "d" false, 2)] /\
    tlower cfg nsv = OK (EWriteReg (RIsa "R" "d" false) (PReg (RNreg "s") false), 0%N) /\
    forall e h, tlower cfg nsv = OK (e, h) ->
      option_map rnew (exec rw (fun _ => None) 20 e (ms_of envN)) = Some [(RIsa "R" "d" false, 1)].
  Proof.
    split; [vm_compute; reflexivity|]. split; [vm_compute; reflexivity|].
    intros e h H. vm_compute in H. injection H as <- _. vm_compute. reflexivity.
  Qed.
End Example.
Print Assumptions Example.prog_simulated.
Print Assumptions Example.prog2_simulated.
Print Assumptions Example.prog3_simulated.
Print Assumptions Example.prog4_simulated.
Print Assumptions Example.prog5_simulated.
Print Assumptions Example.redeclaration_counterexample.
Print Assumptions Example.imm_local_clash_refuted.
Print Assumptions Example.nreg_not_new_refuted.
