(* FragCheck: the fragments [pfrag] / [sfrag] / [sfrags] of ExprCorrect / StmtCorrect DECIDED by computation,
   and the packaged corollary [covered_correct]: for a concrete behaviour, one [vm_compute] of
   [covered h prog] yields the full simulation theorem for the configuration the real compiler has.

   - [ops_ss] : every operand of a program, in textual order; [imms_of] / [IM_of] : its immediate letters;
     [rw_of_prog] : the register-width environment that gives every operand handle the width demanded by
     the FIRST operand that uses the handle (RsV and RssV share ISA2REG(hi,'s'): mixing them fails the check).
   - [pfrag_check] / [sfrag_check] / [sfrags_check] follow the constructors of the fragments; every side
     condition has a boolean version with a reflection lemma.  Soundness AND completeness are proved.
   - [tinfo_res_eqb] : strict structural equality on [res tinfo] (RzIL.pure_eqb compares literals modulo
     their width, so it does not give Leibniz equality; [pure_seqb] / [effect_seqb] here do).
   - [covered] compares the translation under the real configuration [cfg_insn h] with the one under the
     configuration of the theorem, [cfg_thm h] = all repairs on, NO routine parameters.
     (NOTE: [cfg_params (cfg_insn h)] is NOT [[]]: an instruction body is compiled with the parameters
      pkt / hi / bundle.  tlower_correct wants [cfg_params cfg = []], hence the comparison is made against
      the configuration with the parameter list emptied; a behaviour that mentions one of these three
      names is translated differently by the two and is reported as not covered.) *)
From Coq Require Import ZArith NArith List Bool String Ascii Lia.
From RZ.lib Require Import BV PyHeap.
From RZ.sem Require Import RzIL CSem.
From RZ.gen Require Import TypeRules Resources.
From RZ.model Require Import Ast Types OpTables Lower Guards.
From RZ.proofs Require Import SeqLaws SortSound ExprCorrect StmtCorrect.
Import ListNotations.
Local Open Scope string_scope.
Local Open Scope list_scope.

(* ================================================================== 1. operands of a program *)
Fixpoint ops_e (e : cexpr) : list operand :=
  match e with
  | EOp o => [o]
  | ECast _ a | EUn _ a | EPost _ a | EMember a _ | EPtrMember a _ | ECallEmpty a => ops_e a
  | EBin _ l r | EAssign _ l r | EComma l r | EIndex l r => ops_e l ++ ops_e r
  | ECond c t f => ops_e c ++ ops_e t ++ ops_e f
  | Ast.ECall _ args | EMacro _ args | ELoad _ _ args => ops_es args
  | EStmtExpr items last => ops_ss items ++ ops_s last
  | ESizeofT _ | EOther _ => []
  end
with ops_es (l : cexprs) : list operand :=
  match l with ENil => [] | ECons e t => ops_e e ++ ops_es t end
with ops_s (s : cstmt) : list operand :=
  match s with
  | SExpr e | SJump e | SReturn (Some e) => ops_e e
  | SDecl _ _ (Some e) => ops_e e
  | SIf c t None => ops_e c ++ ops_s t
  | SIf c t (Some f) => ops_e c ++ ops_s t ++ ops_s f
  | SFor i c None b => ops_s i ++ ops_s c ++ ops_s b
  | SFor i c (Some st) b => ops_s i ++ ops_s c ++ ops_e st ++ ops_s b
  | SBlock l => ops_ss l
  | SStore _ _ args => ops_es args
  | SWhile c b => ops_e c ++ ops_s b
  | SDo b c => ops_s b ++ ops_e c
  | SSwitch c b => ops_e c ++ ops_s b
  | SLabel _ b | SCase b => ops_s b
  | _ => []
  end
with ops_ss (l : cstmts) : list operand :=
  match l with SNil => [] | SCons s t => ops_s s ++ ops_ss t end.

Definition imms_of (prog : cstmts) : list string :=
  flat_map (fun o => match o with OImm l => [l] | _ => [] end) (ops_ss prog).
Definition IM_of (prog : cstmts) : string -> bool := fun l => existsb (String.eqb l) (imms_of prog).

(* ================================================================== 4. register widths *)
(* the standard Hexagon widths of SINGLE register operands: predicates 8 bit, everything else 32 bit
   (= ExprCorrect.cls_w on the class of the handle) *)
Definition rw_std : regwidth := fun r => match r with RIsa cls _ _ => cls_w cls | _ => 32%N end.

(* the width an operand demands of its handle (ExprCorrect.dest_w: pairs are double width) *)
Definition demand_of (o : operand) : list (regop * N) :=
  match o with
  | OReg cls letters =>
      match access_of_letters letters with
      | Some acc => [(RIsa cls (substring 0 1 letters) false, dest_w cls acc)]
      | None => []
      end
  | ONewReg cls letters =>
      match access_of_letters letters with
      | Some acc => [(rop cls letters true, dest_w cls acc)]
      | None => []
      end
  | _ => []
  end.
Definition demands (prog : cstmts) : list (regop * N) := flat_map demand_of (ops_ss prog).
(* each handle gets the width demanded by its first occurrence; handles the program does not use: rw_std *)
Definition rw_of_prog (prog : cstmts) : regwidth := fun r =>
  match find (fun d => regop_eqb r (fst d)) (demands prog) with Some d => snd d | None => rw_std r end.

(* ================================================================== 2. boolean side conditions *)
Ltac split_andb :=
  repeat match goal with
         | H : (_ && _)%bool = true |- _ => apply andb_prop in H; destruct H
         end.

Lemma andb2 a b : (a && b)%bool = true -> a = true /\ b = true.
Proof. destruct a, b; auto. Qed.
Lemma andb3 a b c : (a && b && c)%bool = true -> a = true /\ b = true /\ c = true.
Proof. destruct a, b, c; auto. Qed.
Lemma andb4 a b c d : (a && b && c && d)%bool = true -> a = true /\ b = true /\ c = true /\ d = true.
Proof. destruct a, b, c, d; auto. Qed.

Definition okw_b (w : N) : bool := (N.eqb w 8 || N.eqb w 16 || N.eqb w 32 || N.eqb w 64)%bool.
Lemma okw_b_iff w : okw_b w = true <-> okw w.
Proof.
  unfold okw_b, okw. rewrite !orb_true_iff, !N.eqb_eq. tauto.
Qed.

Definition dest_cls_b (cls : string) : bool := existsb (String.eqb cls) ["R"; "P"; "C"; "M"].
Lemma dest_cls_b_iff cls : dest_cls_b cls = true <-> dest_cls cls.
Proof.
  unfold dest_cls_b, dest_cls. cbn [existsb]. rewrite !orb_true_iff, !String.eqb_eq. intuition discriminate.
Qed.

Definition reg_cls_b (new : bool) (cls : string) : bool := (dest_cls_b cls || (new && String.eqb cls "N"))%bool.
Lemma reg_cls_b_iff new cls : reg_cls_b new cls = true <-> reg_cls new cls.
Proof.
  unfold reg_cls_b, reg_cls. rewrite orb_true_iff, andb_true_iff, dest_cls_b_iff, String.eqb_eq. tauto.
Qed.

Definition reserved_b (IM : string -> bool) (x : string) : bool :=
  (String.eqb x "jump_flag" || String.eqb x "jump_target" || IM x || imm_cname x)%bool.
Lemma reserved_b_iff IM x : reserved_b IM x = true <-> reserved IM x.
Proof.
  unfold reserved_b, reserved. rewrite !orb_true_iff, !String.eqb_eq. tauto.
Qed.
Lemma reserved_b_false IM x : reserved_b IM x = false <-> ~ reserved IM x.
Proof. rewrite <- reserved_b_iff. destruct (reserved_b IM x); split; intros H; congruence. Qed.

Definition im_ok_b (IM : string -> bool) : bool := (negb (IM "jump_flag") && negb (IM "jump_target"))%bool.
Lemma im_ok_b_iff IM : im_ok_b IM = true <-> im_ok IM.
Proof. unfold im_ok_b, im_ok. rewrite andb_true_iff, !negb_true_iff. tauto. Qed.

Definition cast_ty_of (ts : tyspec) : option (bool * N) :=
  match ts with
  | [TS_intN sg w] => if okw_b w then Some (sg, w) else None
  | [TS_int] => Some (true, 32%N)
  | [TS_unsigned] => Some (false, 32%N)
  | [TS_unsigned; TS_int] => Some (false, 32%N)
  | _ => None
  end.
Lemma cast_ty_of_iff ts sg w : cast_ty_of ts = Some (sg, w) <-> cast_ty ts sg w.
Proof.
  unfold cast_ty. split.
  - intros H.
    destruct ts as [|t1 [|t2 [|t3 r]]]; [discriminate H | | | ].
    + destruct t1; cbn [cast_ty_of] in H; try discriminate H.
      * injection H as <- <-. auto 10.
      * injection H as <- <-. auto 10.
      * destruct (okw_b w0) eqn:Ew; [|discriminate H]. injection H as <- <-. apply okw_b_iff in Ew. auto 10.
    + destruct t1; cbn [cast_ty_of] in H; try discriminate H.
      destruct t2; try discriminate H. injection H as <- <-. auto 10.
    + destruct t1; cbn [cast_ty_of] in H; try discriminate H.
      destruct t2; discriminate H.
  - intros [[-> Hw] | [[-> [-> ->]] | [[-> [-> ->]] | [-> [-> ->]]]]]; cbn [cast_ty_of]; try reflexivity.
    apply okw_b_iff in Hw. rewrite Hw. reflexivity.
Qed.

Definition decl_ty_of (ts : tyspec) : option (bool * N) :=
  match cast_ty_of ts with
  | Some r => Some r
  | None =>
      match ts with
      | [TS_sizeN b sg] => if okw_b (b * 8) then Some (sg, (b * 8)%N) else None
      | _ => None
      end
  end.
Lemma decl_ty_of_iff ts sg w : decl_ty_of ts = Some (sg, w) <-> decl_ty ts sg w.
Proof.
  unfold decl_ty_of, decl_ty. split.
  - destruct (cast_ty_of ts) as [[s0 w0]|] eqn:Ec.
    + intros H. injection H as <- <-. left. apply cast_ty_of_iff. exact Ec.
    + intros H. right.
      destruct ts as [|t1 [|t2 r]]; [discriminate H | | destruct t1; discriminate H].
      destruct t1; try discriminate H.
      destruct (okw_b (bytes * 8)) eqn:Ew; [|discriminate H]. injection H as <- <-.
      apply okw_b_iff in Ew. exists bytes. auto.
  - intros [H | [b [-> [-> Hw]]]].
    + apply cast_ty_of_iff in H. rewrite H. reflexivity.
    + cbn [cast_ty_of]. apply okw_b_iff in Hw. rewrite Hw. reflexivity.
Qed.

(* strict equality of types, and of variable tables *)
Definition vtype_seqb (a b : vtype) : bool :=
  (Bool.eqb (vt_sg a) (vt_sg b) && N.eqb (vt_w a) (vt_w b) && Bool.eqb (vt_bool a) (vt_bool b) &&
   Bool.eqb (vt_void a) (vt_void b) && Bool.eqb (vt_ext a) (vt_ext b) && Bool.eqb (vt_float a) (vt_float b) &&
   Bool.eqb (vt_hyb a) (vt_hyb b) && Bool.eqb (vt_const a) (vt_const b) && Bool.eqb (vt_tok a) (vt_tok b))%bool.
Lemma vtype_seqb_sound a b : vtype_seqb a b = true -> a = b.
Proof.
  unfold vtype_seqb. destruct a as [a1 a2 a3 a4 a5 a6 a7 a8 a9], b as [b1 b2 b3 b4 b5 b6 b7 b8 b9]. cbn [vt_sg vt_w vt_bool vt_void vt_ext vt_float vt_hyb vt_const vt_tok].
  intros H. split_andb.
  repeat match goal with
         | H : Bool.eqb _ _ = true |- _ => apply eqb_prop in H
         | H : N.eqb _ _ = true |- _ => apply N.eqb_eq in H
         end.
  subst. reflexivity.
Qed.
Lemma vtype_seqb_refl a : vtype_seqb a a = true.
Proof. unfold vtype_seqb. rewrite !eqb_reflx, N.eqb_refl. reflexivity. Qed.

Definition ovtype_seqb (a b : option vtype) : bool :=
  match a, b with Some x, Some y => vtype_seqb x y | None, None => true | _, _ => false end.
Fixpoint venv_eqb (a b : list (string * option vtype)) : bool :=
  match a, b with
  | [], [] => true
  | (x, t) :: a', (y, u) :: b' => (String.eqb x y && ovtype_seqb t u && venv_eqb a' b')%bool
  | _, _ => false
  end.
Lemma venv_eqb_sound a : forall b, venv_eqb a b = true -> a = b.
Proof.
  induction a as [|[x t] a' IH]; intros [|[y u] b'] H; cbn [venv_eqb] in H; try discriminate H; [reflexivity|].
  apply andb3 in H. destruct H as [Hx [Ht Ha]]. apply String.eqb_eq in Hx. subst y. rewrite (IH b' Ha).
  destruct t as [t|], u as [u|]; cbn [ovtype_seqb] in Ht; try discriminate Ht; [|reflexivity].
  apply vtype_seqb_sound in Ht. subst u. reflexivity.
Qed.
Lemma venv_eqb_refl a : venv_eqb a a = true.
Proof.
  induction a as [|[x t] a' IH]; [reflexivity|]. cbn [venv_eqb]. rewrite String.eqb_refl, IH.
  destruct t as [t|]; cbn [ovtype_seqb]; [rewrite vtype_seqb_refl|]; reflexivity.
Qed.

(* a declared integer local of a width of the fragment *)
Definition intvar_b (V : list (string * option vtype)) (x : string) : bool :=
  match lookup x V with
  | Some (Some t) => (vtype_seqb t (ty_int (vt_sg t) (vt_w t)) && okw_b (vt_w t))%bool
  | _ => false
  end.
Lemma intvar_b_sound V x : intvar_b V x = true -> exists sg w, lookup x V = Some (Some (ty_int sg w)) /\ okw w.
Proof.
  unfold intvar_b. destruct (lookup x V) as [[t|]|]; try discriminate. intros H. apply andb2 in H. destruct H as [H H0].
  apply vtype_seqb_sound in H. apply okw_b_iff in H0. exists (vt_sg t), (vt_w t). rewrite <- H. auto.
Qed.
Lemma intvar_b_complete V x sg w : lookup x V = Some (Some (ty_int sg w)) -> okw w -> intvar_b V x = true.
Proof.
  intros Hl Hw. unfold intvar_b. rewrite Hl. cbn [ty_int vt_sg vt_w]. fold (ty_int sg w).
  rewrite vtype_seqb_refl. apply okw_b_iff in Hw. rewrite Hw. reflexivity.
Qed.

Definition unop_ok (u : Ast.unop) : bool := match u with UNot | UMinus | ULNot => true | _ => false end.
Lemma unop_ok_iff u : unop_ok u = true <-> (u = UNot \/ u = UMinus \/ u = ULNot).
Proof. destruct u; cbn [unop_ok]; intuition discriminate. Qed.

Definition binop_ok (b : Ast.binop) : bool := match b with Ast.BDiv | Ast.BMod => false | _ => true end.
Lemma binop_ok_iff b : binop_ok b = true <-> (is_folding_op b \/ is_plain_op b).
Proof.
  unfold is_folding_op, is_plain_op, is_cmp. destruct b; cbn [binop_ok]; split; intros H; auto 20; try discriminate H;
    intuition discriminate.
Qed.

Definition casg_ok (a : asgop) : bool := match a with AAdd | ASub | AMul => true | _ => false end.
Lemma casg_ok_iff a : casg_ok a = true <-> (a = AAdd \/ a = ASub \/ a = AMul).
Proof. destruct a; cbn [casg_ok]; intuition discriminate. Qed.

(* a register operand whose handle has the width the operand demands *)
Definition regw_b (rw : regwidth) (cls letters : string) : bool :=
  match access_of_letters letters with
  | Some acc => N.eqb (rw (RIsa cls (substring 0 1 letters) false)) (dest_w cls acc)
  | None => false
  end.
Lemma regw_b_iff rw cls letters :
  regw_b rw cls letters = true <->
  exists acc, access_of_letters letters = Some acc /\ rw (RIsa cls (substring 0 1 letters) false) = dest_w cls acc.
Proof.
  unfold regw_b. destruct (access_of_letters letters) as [acc|].
  - rewrite N.eqb_eq. split; [eauto|]. intros [acc' [H1 H2]]. injection H1 as <-. exact H2.
  - split; [discriminate|]. intros [acc' [H1 _]]. discriminate H1.
Qed.
Definition newregw_b (rw : regwidth) (cls letters : string) : bool :=
  match access_of_letters letters with
  | Some acc => N.eqb (rw (rop cls letters true)) (dest_w cls acc)
  | None => false
  end.
Lemma newregw_b_iff rw cls letters :
  newregw_b rw cls letters = true <->
  exists acc, access_of_letters letters = Some acc /\ rw (rop cls letters true) = dest_w cls acc.
Proof.
  unfold newregw_b. destruct (access_of_letters letters) as [acc|].
  - rewrite N.eqb_eq. split; [eauto|]. intros [acc' [H1 H2]]. injection H1 as <-. exact H2.
  - split; [discriminate|]. intros [acc' [H1 _]]. discriminate H1.
Qed.

(* ================================================================== 2. the checkers *)
Section Check.
  Variable rw : regwidth.
  Variable IM : string -> bool.

  Fixpoint pfrag_check (V : list (string * option vtype)) (e : cexpr) {struct e} : bool :=
    match e with
    | EOp (OIdent x) => intvar_b V x
    | EOp (ONum v hex suf) =>
        (Z.leb 0 v && match literal_type v hex suf with Some _ => true | None => false end)%bool
    | EOp (OReg cls letters) => (dest_cls_b cls && regw_b rw cls letters)%bool
    | EOp (ONewReg cls letters) => (reg_cls_b true cls && newregw_b rw cls letters)%bool
    | EOp (OImm l) => IM l
    | ECast ts a => (match cast_ty_of ts with Some _ => true | None => false end && pfrag_check V a)%bool
    | EUn u a => (unop_ok u && pfrag_check V a)%bool
    | EBin b l r => (binop_ok b && pfrag_check V l && pfrag_check V r)%bool
    | ECond c t f => (pfrag_check V c && pfrag_check V t && pfrag_check V f && negb (litlike c))%bool
    | _ => false
    end.

  Fixpoint sfrag_check (V : list (string * option vtype)) (s : cstmt) {struct s} : option (list (string * option vtype)) :=
    match s with
    | SExpr (EAssign a (EOp (OReg cls letters)) e) =>
        if ((match a with AAssign => true | _ => casg_ok a end) && dest_cls_b cls && regw_b rw cls letters && pfrag_check V e)%bool
        then Some V else None
    | SExpr (EAssign a (EOp (OIdent x)) e) =>
        if ((match a with AAssign => true | _ => casg_ok a end) && intvar_b V x && pfrag_check V e)%bool
        then Some V else None
    | SDecl ts x (Some e) =>
        match decl_ty_of ts with
        | Some (sg, w) =>
            if (match lookup x V with None => true | Some _ => false end && negb (reserved_b IM x) && pfrag_check V e)%bool
            then Some (V ++ [(x, Some (ty_int sg w))]) else None
        | None => None
        end
    | SEmpty => Some V
    | SNop => Some V
    | SStore sg w (ECons a (ECons v ENil)) =>
        if (okw_b w && pfrag_check V a && pfrag_check V v)%bool then Some V else None
    | SJump e => if pfrag_check V e then Some V else None
    | SBlock l => sfrags_check V l
    | SIf c t None =>
        if pfrag_check V c then
          match sfrag_check V t with
          | Some V1 => if venv_eqb V1 V then Some V else None
          | None => None
          end
        else None
    | SIf c t (Some f) =>
        if pfrag_check V c then
          match sfrag_check V t, sfrag_check V f with
          | Some V1, Some V2 => if (venv_eqb V1 V && venv_eqb V2 V)%bool then Some V else None
          | _, _ => None
          end
        else None
    | _ => None
    end
  with sfrags_check (V : list (string * option vtype)) (l : cstmts) {struct l} : option (list (string * option vtype)) :=
    match l with
    | SNil => Some V
    | SCons s t => match sfrag_check V s with Some V1 => sfrags_check V1 t | None => None end
    end.

  (* ================================================================== 3. soundness *)
  Theorem pfrag_check_sound : forall V e, pfrag_check V e = true -> pfrag rw IM V e.
  Proof.
    intros V.
    induction e using cexpr_mut with (P0 := fun _ => True) (P1 := fun _ => True) (P2 := fun _ => True);
      try exact I; cbn [pfrag_check]; try discriminate.
    - (* operands *)
      destruct o as [cls letters | cls letters | | | l | v hex suf | x | |]; try discriminate.
      + intros H. apply andb2 in H. destruct H as [H H0]. apply dest_cls_b_iff in H. apply regw_b_iff in H0. destruct H0 as [acc [Ha Hw]].
        exact (pf_reg rw IM V cls letters acc H Ha Hw).
      + intros H. apply andb2 in H. destruct H as [H H0]. apply reg_cls_b_iff in H. apply newregw_b_iff in H0. destruct H0 as [acc [Ha Hw]].
        exact (pf_newreg rw IM V cls letters acc H Ha Hw).
      + intros H. exact (pf_imm rw IM V l H).
      + intros H. apply andb2 in H. destruct H as [H H0]. destruct (literal_type v hex suf) as [t|] eqn:El; [|discriminate H0].
        apply Z.leb_le in H. exact (pf_num rw IM V v hex suf t H El).
      + intros H. destruct (intvar_b_sound V x H) as [sg [w [Hl Hw]]]. exact (pf_ident rw IM V x sg w Hl Hw).
    - (* cast *)
      intros H. apply andb2 in H. destruct H as [H H0]. destruct (cast_ty_of t) as [[sg w]|] eqn:Ec; [|discriminate H].
      apply cast_ty_of_iff in Ec. exact (pf_cast rw IM V t sg w e Ec (IHe H0)).
    - (* unary *)
      intros H. apply andb2 in H. destruct H as [H H0]. apply unop_ok_iff in H. exact (pf_un rw IM V u e H (IHe H0)).
    - (* binary *)
      intros H. apply andb3 in H. destruct H as [H [H1 H2]]. apply binop_ok_iff in H. exact (pf_bin rw IM V b e1 e2 H (IHe1 H1) (IHe2 H2)).
    - (* conditional *)
      intros H. apply andb4 in H. destruct H as [H1 [H2 [H3 H4]]]. apply negb_true_iff in H4.
      exact (pf_cond rw IM V e1 e2 e3 (IHe1 H1) (IHe2 H2) (IHe3 H3) H4).
  Qed.

  Theorem pfrag_check_complete : forall V e, pfrag rw IM V e -> pfrag_check V e = true.
  Proof.
    intros V e H.
    induction H as [x sg w Hl Hw | v hex suf t Hv Hl | cls letters acc Hc Ha Hw | cls letters acc Hc Ha Hw | l Hl
                   | ts sg w e Hts _ IH | u e Hu _ IH | b l r Hb _ IHl _ IHr | c t f _ IHc _ IHt _ IHf Hlit];
      cbn [pfrag_check].
    - exact (intvar_b_complete V x sg w Hl Hw).
    - rewrite Hl. apply Z.leb_le in Hv. rewrite Hv. reflexivity.
    - apply dest_cls_b_iff in Hc. rewrite Hc. apply (proj2 (regw_b_iff rw cls letters)). eauto.
    - apply reg_cls_b_iff in Hc. rewrite Hc. apply (proj2 (newregw_b_iff rw cls letters)). eauto.
    - exact Hl.
    - apply cast_ty_of_iff in Hts. rewrite Hts, IH. reflexivity.
    - apply unop_ok_iff in Hu. rewrite Hu, IH. reflexivity.
    - apply binop_ok_iff in Hb. rewrite Hb, IHl, IHr. reflexivity.
    - rewrite IHc, IHt, IHf, Hlit. reflexivity.
  Qed.

  Definition sound_s (s : cstmt) : Prop := forall V V', sfrag_check V s = Some V' -> sfrag rw IM V s V'.
  Definition sound_ss (l : cstmts) : Prop := forall V V', sfrags_check V l = Some V' -> sfrags rw IM V l V'.

  Lemma sound_expr_stmt e : sound_s (SExpr e).
  Proof.
    intros V V'. cbn [sfrag_check].
    destruct e as [| | | | | a l r | | | | | | | | | | | |]; try discriminate.
    destruct l as [o| | | | | | | | | | | | | | | | |]; try discriminate.
    destruct o as [cls letters | | | | | | x | |]; try discriminate.
    - match goal with |- (if ?c then _ else _) = _ -> _ => destruct c eqn:Ec end; [|discriminate].
      intros H. injection H as <-. apply andb4 in Ec. destruct Ec as [H [H1 [H0 Ec]]].
      apply dest_cls_b_iff in H1. apply regw_b_iff in H0. destruct H0 as [acc [Ha Hw]]. apply pfrag_check_sound in Ec.
      destruct a; try (apply casg_ok_iff in H; exact (sf_casg_reg rw IM V _ cls letters acc r H H1 Ha Hw Ec)).
      exact (sf_asg_reg rw IM V cls letters acc r H1 Ha Hw Ec).
    - match goal with |- (if ?c then _ else _) = _ -> _ => destruct c eqn:Ec end; [|discriminate].
      intros H. injection H as <-. apply andb3 in Ec. destruct Ec as [H [H0 Ec]].
      destruct (intvar_b_sound V x H0) as [sg [w [Hl Hw]]]. apply pfrag_check_sound in Ec.
      destruct a; try (apply casg_ok_iff in H; exact (sf_casg_var rw IM V _ x sg w r H Hl Hw Ec)).
      exact (sf_asg_var rw IM V x sg w r Hl Hw Ec).
  Qed.

  (* (the Scheme of Ast gives no induction hypothesis for the else-branch, which sits under an option: direct
     mutual structural recursion) *)
  Lemma sfrag_check_sound_s : forall s, sound_s s
  with sfrag_check_sound_ss : forall l, sound_ss l.
  Proof.
    - intros s. destruct s as [e | | ts x init | what | c t f | i c st b | l | sg w args | e | | | e | c b | b c | c b | lb b | b | lb | |];
        try (intros V V' H; cbn [sfrag_check] in H; discriminate H).
      + (* SExpr *) apply sound_expr_stmt.
      + (* SEmpty *) intros V V' H. cbn [sfrag_check] in H. injection H as <-. apply sf_empty.
      + (* SDecl *)
        intros V V' H. cbn [sfrag_check] in H. destruct init as [e|]; [|discriminate H].
        destruct (decl_ty_of ts) as [[sg w]|] eqn:Ed; [|discriminate H].
        match type of H with (if ?c then _ else _) = _ => destruct c eqn:Ec end; [|discriminate H].
        injection H as <-. apply andb3 in Ec. destruct Ec as [H [H0 Ec]].
        apply decl_ty_of_iff in Ed. apply negb_true_iff in H0. apply reserved_b_false in H0.
        apply pfrag_check_sound in Ec. destruct (lookup x V) eqn:El; [discriminate H|].
        exact (sf_decl rw IM V ts sg w x e Ed El H0 Ec).
      + (* SIf *)
        intros V V' H. cbn [sfrag_check] in H.
        destruct f as [f|].
        * destruct (pfrag_check V c) eqn:Ec; [|discriminate H]. apply pfrag_check_sound in Ec.
          destruct (sfrag_check V t) as [V1|] eqn:Et; [|discriminate H].
          destruct (sfrag_check V f) as [V2|] eqn:Ef; [|discriminate H].
          destruct (venv_eqb V1 V && venv_eqb V2 V)%bool eqn:Ev; [|discriminate H]. injection H as <-.
          apply andb2 in Ev. destruct Ev as [H H0]. apply venv_eqb_sound in H, H0. subst V1 V2.
          exact (sf_ifelse rw IM V c t f Ec (sfrag_check_sound_s t V V Et) (sfrag_check_sound_s f V V Ef)).
        * destruct (pfrag_check V c) eqn:Ec; [|discriminate H]. apply pfrag_check_sound in Ec.
          destruct (sfrag_check V t) as [V1|] eqn:Et; [|discriminate H].
          destruct (venv_eqb V1 V) eqn:Ev; [|discriminate H]. injection H as <-.
          apply venv_eqb_sound in Ev. subst V1.
          exact (sf_if rw IM V c t Ec (sfrag_check_sound_s t V V Et)).
      + (* SBlock *) intros V V' H. cbn [sfrag_check] in H. apply sf_block. exact (sfrag_check_sound_ss l V V' H).
      + (* SStore *)
        intros V V' H. cbn [sfrag_check] in H.
        destruct args as [|a [|v [|x0 r]]]; try discriminate H.
        match type of H with (if ?c then _ else _) = _ => destruct c eqn:Ec end; [|discriminate H].
        injection H as <-. apply andb3 in Ec. destruct Ec as [H [H0 Ec]]. apply okw_b_iff in H. apply pfrag_check_sound in H0, Ec.
        exact (sf_store rw IM V sg w a v H H0 Ec).
      + (* SJump *)
        intros V V' H. cbn [sfrag_check] in H. destruct (pfrag_check V e) eqn:Ec; [|discriminate H].
        injection H as <-. apply sf_jump. apply pfrag_check_sound. exact Ec.
      + (* SNop *) intros V V' H. cbn [sfrag_check] in H. injection H as <-. apply sf_nop.
    - intros l. destruct l as [|s t]; intros V V' H; cbn [sfrags_check] in H.
      + injection H as <-. apply sfs_nil.
      + destruct (sfrag_check V s) as [V1|] eqn:Es; [|discriminate H].
        exact (sfs_cons rw IM V s V1 t V' (sfrag_check_sound_s s V V1 Es) (sfrag_check_sound_ss t V1 V' H)).
  Qed.

  Theorem sfrag_check_sound : forall V s V', sfrag_check V s = Some V' -> sfrag rw IM V s V'.
  Proof. intros V s V'. apply sfrag_check_sound_s. Qed.
  Theorem sfrags_check_sound : forall V l V', sfrags_check V l = Some V' -> sfrags rw IM V l V'.
  Proof. intros V l V'. apply sfrag_check_sound_ss. Qed.
End Check.

(* completeness of the statement checkers *)
Theorem sfrag_check_complete_both rw IM :
  (forall V s V', sfrag rw IM V s V' -> sfrag_check rw IM V s = Some V') /\
  (forall V l V', sfrags rw IM V l V' -> sfrags_check rw IM V l = Some V').
Proof.
  apply sfrag_mutind.
  - intros V cls letters acc e Hc Ha Hw He. cbn [sfrag_check].
    rewrite (proj2 (dest_cls_b_iff cls) Hc), (proj2 (regw_b_iff rw cls letters) (ex_intro _ acc (conj Ha Hw))),
      (pfrag_check_complete rw IM V e He). reflexivity.
  - intros V x sg w e Hl Hw He. cbn [sfrag_check].
    rewrite (intvar_b_complete V x sg w Hl Hw), (pfrag_check_complete rw IM V e He). reflexivity.
  - intros V a x sg w e Ha Hl Hw He. cbn [sfrag_check].
    rewrite (intvar_b_complete V x sg w Hl Hw), (pfrag_check_complete rw IM V e He).
    destruct Ha as [-> | [-> | ->]]; reflexivity.
  - intros V a cls letters acc e Ha Hc Hacc Hw He. cbn [sfrag_check].
    rewrite (proj2 (dest_cls_b_iff cls) Hc), (proj2 (regw_b_iff rw cls letters) (ex_intro _ acc (conj Hacc Hw))),
      (pfrag_check_complete rw IM V e He).
    destruct Ha as [-> | [-> | ->]]; reflexivity.
  - intros V ts sg w x e Hd Hl Hr He. cbn [sfrag_check].
    rewrite (proj2 (decl_ty_of_iff ts sg w) Hd), Hl, (proj2 (reserved_b_false IM x) Hr), (pfrag_check_complete rw IM V e He).
    reflexivity.
  - reflexivity.
  - reflexivity.
  - intros V sg w a v Hw Ha Hv. cbn [sfrag_check].
    rewrite (proj2 (okw_b_iff w) Hw), (pfrag_check_complete rw IM V a Ha), (pfrag_check_complete rw IM V v Hv). reflexivity.
  - intros V e He. cbn [sfrag_check]. rewrite (pfrag_check_complete rw IM V e He). reflexivity.
  - intros V l V' _ IH. exact IH.
  - intros V c t Hc _ IHt. cbn [sfrag_check]. rewrite (pfrag_check_complete rw IM V c Hc), IHt, venv_eqb_refl. reflexivity.
  - intros V c t f Hc _ IHt _ IHf. cbn [sfrag_check].
    rewrite (pfrag_check_complete rw IM V c Hc), IHt, IHf, venv_eqb_refl. reflexivity.
  - reflexivity.
  - intros V s V1 l V2 _ IHs _ IHl.
    change (sfrags_check rw IM V (SCons s l))
      with (match sfrag_check rw IM V s with Some V0 => sfrags_check rw IM V0 l | None => None end).
    rewrite IHs. exact IHl.
Qed.
Theorem sfrag_check_complete rw IM V s V' : sfrag rw IM V s V' -> sfrag_check rw IM V s = Some V'.
Proof. apply (proj1 (sfrag_check_complete_both rw IM)). Qed.
Theorem sfrags_check_complete rw IM V l V' : sfrags rw IM V l V' -> sfrags_check rw IM V l = Some V'.
Proof. apply (proj2 (sfrag_check_complete_both rw IM)). Qed.

Print Assumptions pfrag_check_sound.
Print Assumptions sfrag_check_sound.
Print Assumptions sfrags_check_sound.
Print Assumptions sfrags_check_complete.

(* ================================================================== 5. strict structural equality on translation results *)
(* RzIL.pure_eqb identifies PBv s w v and PBv s w v' when v and v' agree modulo 2^w: it is an equivalence
   coarser than Leibniz equality.  The comparisons below are strict. *)
Lemma regop_eqb_sound a b : regop_eqb a b = true -> a = b.
Proof.
  destruct a, b; cbn [regop_eqb]; try discriminate; intros H.
  - apply andb3 in H. destruct H as [H1 [H2 H3]]. apply String.eqb_eq in H1, H2. apply eqb_prop in H3. subst. reflexivity.
  - apply andb3 in H. destruct H as [H1 [H2 H3]]. apply Z.eqb_eq in H1. apply String.eqb_eq in H2. apply eqb_prop in H3.
    subst. reflexivity.
  - apply andb2 in H. destruct H as [H1 H2]. apply String.eqb_eq in H1. apply eqb_prop in H2. subst. reflexivity.
  - apply String.eqb_eq in H. subst. reflexivity.
  - apply String.eqb_eq in H. subst. reflexivity.
Qed.

Lemma unop_eqb_sound a b : unop_eqb a b = true -> a = b.
Proof. destruct a, b; cbn [unop_eqb]; try discriminate; reflexivity. Qed.
Lemma binop_tag_inj a b : N.eqb (binop_tag a) (binop_tag b) = true -> a = b.
Proof. destruct a, b; cbn [binop_tag]; intros H; try reflexivity; discriminate H. Qed.
Lemma cmpop_tag_inj a b : N.eqb (cmpop_tag a) (cmpop_tag b) = true -> a = b.
Proof. destruct a, b; cbn [cmpop_tag]; intros H; try reflexivity; discriminate H. Qed.

Fixpoint pure_seqb (a b : pure) {struct a} : bool :=
  match a, b with
  | PBv s w v, PBv s' w' v' => Bool.eqb s s' && N.eqb w w' && Z.eqb v v'
  | PBool x, PBool y => Bool.eqb x y
  | PVarL x, PVarL y => String.eqb x y
  | PVarLP x, PVarLP y => String.eqb x y
  | PLet x e c, PLet x' e' c' => String.eqb x x' && pure_seqb e e' && pure_seqb c c'
  | PReg r n, PReg r' n' => regop_eqb r r' && Bool.eqb n n'
  | PImm l s w, PImm l' s' w' => String.eqb l l' && Bool.eqb s s' && N.eqb w w'
  | PPktAddr, PPktAddr => true
  | PParam x, PParam y => String.eqb x y
  | PUn o x, PUn o' x' => unop_eqb o o' && pure_seqb x x'
  | PBin o x y, PBin o' x' y' => N.eqb (binop_tag o) (binop_tag o') && pure_seqb x x' && pure_seqb y y'
  | PCmp o x y, PCmp o' x' y' => N.eqb (cmpop_tag o) (cmpop_tag o') && pure_seqb x x' && pure_seqb y y'
  | PCast w f x, PCast w' f' x' => N.eqb w w' && pure_seqb f f' && pure_seqb x x'
  | PMsb x, PMsb x' => pure_seqb x x'
  | PNonZero x, PNonZero x' => pure_seqb x x'
  | PInv x, PInv x' => pure_seqb x x'
  | PAnd x y, PAnd x' y' => pure_seqb x x' && pure_seqb y y'
  | POr x y, POr x' y' => pure_seqb x x' && pure_seqb y y'
  | PIte c x y, PIte c' x' y' => pure_seqb c c' && pure_seqb x x' && pure_seqb y y'
  | PLoad w x, PLoad w' x' => N.eqb w w' && pure_seqb x x'
  | PSignExt s w x, PSignExt s' w' x' => Bool.eqb s s' && N.eqb w w' && pure_seqb x x'
  | PIncDec i x w, PIncDec i' x' w' => Bool.eqb i i' && N.eqb w w' && pure_seqb x x'
  | PApp h l, PApp h' l' =>
      String.eqb h h' &&
      (fix go (l l' : list pure) : bool :=
         match l, l' with [] , [] => true | x :: t, x' :: t' => pure_seqb x x' && go t t' | _, _ => false end) l l'
  | PRaw s, PRaw s' => String.eqb s s'
  | _, _ => false
  end.

Ltac eqb_all :=
  repeat match goal with
         | H : (_ && _)%bool = true |- _ => apply andb2 in H; let H1 := fresh H in destruct H as [H H1]
         | H : String.eqb _ _ = true |- _ => apply String.eqb_eq in H
         | H : Bool.eqb _ _ = true |- _ => apply eqb_prop in H
         | H : N.eqb (binop_tag _) (binop_tag _) = true |- _ => apply binop_tag_inj in H
         | H : N.eqb (cmpop_tag _) (cmpop_tag _) = true |- _ => apply cmpop_tag_inj in H
         | H : N.eqb _ _ = true |- _ => apply N.eqb_eq in H
         | H : Nat.eqb _ _ = true |- _ => apply Nat.eqb_eq in H
         | H : Z.eqb _ _ = true |- _ => apply Z.eqb_eq in H
         | H : regop_eqb _ _ = true |- _ => apply regop_eqb_sound in H
         | H : unop_eqb _ _ = true |- _ => apply unop_eqb_sound in H
         end.

Lemma pure_seqb_sound : forall a b, pure_seqb a b = true -> a = b.
Proof.
  fix IH 1. intros a b. destruct a; destruct b; cbn [pure_seqb]; try discriminate; intros H; eqb_all;
    repeat match goal with
           | H : pure_seqb _ _ = true |- _ => apply IH in H
           end; try (subst; reflexivity).
  (* PApp *)
  subst head0. f_equal. revert args0 H0.
  induction args as [|x t IHt]; intros [|x' t'] H0; try discriminate H0; [reflexivity|].
  apply andb2 in H0. destruct H0 as [Hx Ht]. apply IH in Hx. rewrite Hx, (IHt t' Ht). reflexivity.
Qed.

Definition arg_seqb (a b : arg) : bool :=
  match a, b with
  | APure p, APure q => pure_seqb p q
  | AOp r, AOp r' => regop_eqb r r'
  | ARaw s, ARaw s' => String.eqb s s'
  | _, _ => false
  end.
Lemma arg_seqb_sound a b : arg_seqb a b = true -> a = b.
Proof.
  destruct a, b; cbn [arg_seqb]; try discriminate; intros H.
  - apply pure_seqb_sound in H. subst. reflexivity.
  - apply regop_eqb_sound in H. subst. reflexivity.
  - apply String.eqb_eq in H. subst. reflexivity.
Qed.
Fixpoint args_seqb (l l' : list arg) : bool :=
  match l, l' with [], [] => true | x :: t, x' :: t' => arg_seqb x x' && args_seqb t t' | _, _ => false end.
Lemma args_seqb_sound l : forall l', args_seqb l l' = true -> l = l'.
Proof.
  induction l as [|x t IHt]; intros [|x' t'] H; cbn [args_seqb] in H; try discriminate H; [reflexivity|].
  apply andb2 in H. destruct H as [Hx Ht]. apply arg_seqb_sound in Hx. rewrite Hx, (IHt t' Ht). reflexivity.
Qed.

Fixpoint effect_seqb (a b : effect) : bool :=
  match a, b with
  | ESetL x p, ESetL x' p' => String.eqb x x' && pure_seqb p p'
  | EWriteReg r p, EWriteReg r' p' => regop_eqb r r' && pure_seqb p p'
  | EStore x y, EStore x' y' => pure_seqb x x' && pure_seqb y y'
  | ESeq x y, ESeq x' y' => effect_seqb x x' && effect_seqb y y'
  | EBranch c x y, EBranch c' x' y' => pure_seqb c c' && effect_seqb x x' && effect_seqb y y'
  | ERepeat c x, ERepeat c' x' => pure_seqb c c' && effect_seqb x x'
  | ENop, ENop => true
  | EEmpty, EEmpty => true
  | RzIL.ECall f l, RzIL.ECall f' l' => String.eqb f f' && args_seqb l l'
  | EPlugin f l, EPlugin f' l' => String.eqb f f' && args_seqb l l'
  | _, _ => false
  end.
Lemma effect_seqb_sound : forall a b, effect_seqb a b = true -> a = b.
Proof.
  induction a as [x p | r p | x y | x IHx y IHy | c x IHx y IHy | c x IHx | | | f l | f l]; intros b; destruct b;
    cbn [effect_seqb]; try discriminate; intros H; eqb_all;
    repeat match goal with
           | H : pure_seqb _ _ = true |- _ => apply pure_seqb_sound in H
           | H : args_seqb _ _ = true |- _ => apply args_seqb_sound in H
           end;
    repeat match goal with
           | IH : forall b, effect_seqb ?x b = true -> ?x = b, H : effect_seqb ?x _ = true |- _ => apply IH in H
           end;
    subst; reflexivity.
Qed.

Fixpoint strs_eqb (a b : list string) : bool :=
  match a, b with [], [] => true | x :: t, y :: u => String.eqb x y && strs_eqb t u | _, _ => false end.
Lemma strs_eqb_sound a : forall b, strs_eqb a b = true -> a = b.
Proof.
  induction a as [|x t IHt]; intros [|y u] H; cbn [strs_eqb] in H; try discriminate H; [reflexivity|].
  apply andb2 in H. destruct H as [Hx Ht]. apply String.eqb_eq in Hx. rewrite Hx, (IHt u Ht). reflexivity.
Qed.

Definition tinfo_eqb (a b : tinfo) : bool :=
  effect_seqb (ti_eff a) (ti_eff b) && N.eqb (ti_hcount a) (ti_hcount b) && Nat.eqb (ti_leftover a) (ti_leftover b) &&
  Bool.eqb (ti_dropped a) (ti_dropped b) && strs_eqb (ti_removed a) (ti_removed b).
Definition tinfo_res_eqb (a b : res tinfo) : bool :=
  match a, b with
  | OK x, OK y => tinfo_eqb x y
  | Err m, Err m' => String.eqb m m'
  | _, _ => false
  end.
Lemma tinfo_res_eqb_sound a b : tinfo_res_eqb a b = true -> a = b.
Proof.
  destruct a as [[e1 h1 l1 d1 r1]|m1], b as [[e2 h2 l2 d2 r2]|m2]; cbn [tinfo_res_eqb]; try discriminate.
  - unfold tinfo_eqb. cbn [ti_eff ti_hcount ti_leftover ti_dropped ti_removed]. intros H.
    apply andb4 in H. destruct H as [H [Hl [Hd Hr]]]. apply andb2 in H. destruct H as [He Hh].
    apply effect_seqb_sound in He. apply N.eqb_eq in Hh. apply Nat.eqb_eq in Hl. apply eqb_prop in Hd.
    apply strs_eqb_sound in Hr. subst. reflexivity.
  - intros H. apply String.eqb_eq in H. subst. reflexivity.
Qed.

(* ================================================================== 5. the packaged corollary *)
(* the configuration of the theorem: every repair on, the routine has no parameters; sub-routine and macro
   tables, return type and the hybrid counter as in the real configuration *)
Definition no_params (c : config) : config :=
  mkcfg (cfg_fx c) (cfg_subs c) (cfg_macros c) [] (cfg_ret c) (cfg_hstart c).
Definition cfg_thm (h : N) : config := no_params (with_fx all_fixes (cfg_insn h)).

Lemma cfg_thm_fx h : cfg_fx (cfg_thm h) = all_fixes. Proof. reflexivity. Qed.
Lemma cfg_thm_params h : cfg_params (cfg_thm h) = []. Proof. reflexivity. Qed.
Lemma cfg_thm_hstart h : cfg_hstart (cfg_thm h) = h. Proof. reflexivity. Qed.
(* the real configuration does have parameters *)
Lemma cfg_insn_params h : map fst (cfg_params (cfg_insn h)) = ["pkt"; "hi"; "bundle"]. Proof. reflexivity. Qed.

Definition covered (h : N) (prog : cstmts) : bool :=
  im_ok_b (IM_of prog) &&
  (match sfrags_check (rw_of_prog prog) (IM_of prog) [] prog with Some _ => true | None => false end) &&
  tinfo_res_eqb (tlower_info (cfg_insn h) prog) (tlower_info (cfg_thm h) prog).

Theorem covered_correct : forall h prog, covered h prog = true ->
  exists eff V', tlower_info (cfg_insn h) prog = OK (mkti eff h 0 false []) /\
    forall ilsubs E csub xi cs ms fuel cs', srel (IM_of prog) E [] cs ms -> cexecs E csub xi fuel cs prog = Some cs' ->
      exists ms', runs (rw_of_prog prog) ilsubs eff ms ms' /\ srel (IM_of prog) E V' cs' ms'.
Proof.
  intros h prog H. unfold covered in H. apply andb3 in H. destruct H as [Him [Hfrag Heq]].
  apply im_ok_b_iff in Him. apply tinfo_res_eqb_sound in Heq.
  destruct (sfrags_check (rw_of_prog prog) (IM_of prog) [] prog) as [V'|] eqn:Ec; [|discriminate Hfrag].
  apply sfrags_check_sound in Ec.
  destruct (tlower_info (cfg_thm h) prog) as [[eff hc lo dr rm]|msg] eqn:Ei.
  - exists eff, V'.
    assert (Hshape : hc = h /\ lo = 0%nat /\ dr = false /\ rm = []).
    { destruct (tlower_correct (cfg_thm h) (rw_of_prog prog) (IM_of prog) (fun _ => None) Example.env Example.nosubs Example.noxi
                  prog V' (cfg_thm_fx h) (cfg_thm_params h) Him Ec) as [eff0 [Hi0 _]].
      rewrite Ei in Hi0. rewrite cfg_thm_hstart in Hi0. injection Hi0 as _ -> -> -> ->. auto. }
    destruct Hshape as [-> [-> [-> ->]]].
    split; [exact Heq|].
    intros ilsubs E csub xi cs ms fuel cs' Hrel Hce.
    destruct (tlower_correct (cfg_thm h) (rw_of_prog prog) (IM_of prog) ilsubs E csub xi prog V'
                (cfg_thm_fx h) (cfg_thm_params h) Him Ec) as [eff0 [Hi0 [_ Hsim]]].
    rewrite Ei in Hi0. injection Hi0 as <-.
    exact (Hsim cs ms fuel cs' Hrel Hce).
  - exfalso.
    destruct (tlower_correct (cfg_thm h) (rw_of_prog prog) (IM_of prog) (fun _ => None) Example.env Example.nosubs Example.noxi
                prog V' (cfg_thm_fx h) (cfg_thm_params h) Him Ec) as [eff0 [Hi0 _]].
    rewrite Ei in Hi0. discriminate Hi0.
Qed.
Print Assumptions covered_correct.

(* ================================================================== 6. examples *)
Module CheckExamples.
  Definition reg (cls letters : string) := EOp (OReg cls letters).
  Definition imm (l : string) := EOp (OImm l).
  Definition num (v : Z) := EOp (ONum v false "").
  Definition var (x : string) := EOp (OIdent x).
  Definition asg (a b : cexpr) := SExpr (EAssign AAssign a b).
  Definition one (s : cstmt) : cstmts := SCons s SNil.

  (* { RdV = RsV + RtV; } *)
  Definition p_add := one (asg (reg "R" "d") (EBin Ast.BAdd (reg "R" "s") (reg "R" "t"))).
  (* { RdV = RsV + siV; } *)
  Definition p_addi := one (asg (reg "R" "d") (EBin Ast.BAdd (reg "R" "s") (imm "s"))).
  (* { if (PuV) { RdV = RsV; } else { RdV = RtV; } } *)
  Definition p_mux :=
    one (SIf (reg "P" "u") (SBlock (one (asg (reg "R" "d") (reg "R" "s")))) (Some (SBlock (one (asg (reg "R" "d") (reg "R" "t")))))).
  (* { RddV = RssV; } *)
  Definition p_pair := one (asg (reg "R" "dd") (reg "R" "ss")).
  (* { RxV += RsV * RtV; } *)
  Definition p_mac := one (SExpr (EAssign AAdd (reg "R" "x") (EBin Ast.BMul (reg "R" "s") (reg "R" "t")))).
  (* { mem_store_u32(RsV + siV, RtV); } *)
  Definition p_store := one (SStore false 32 (ECons (EBin Ast.BAdd (reg "R" "s") (imm "s")) (ECons (reg "R" "t") ENil))).

  Example covered_positive : map (covered 0) [p_add; p_addi; p_mux; p_pair; p_mac; p_store] = [true; true; true; true; true; true].
  Proof. vm_compute. reflexivity. Qed.

  (* the width environment computed for the programs: the handle 's' is 32 bit where RsV is used, 64 bit where RssV is *)
  Example rw_single : rw_of_prog p_add (RIsa "R" "s" false) = 32%N /\ rw_of_prog p_mux (RIsa "P" "u" false) = 8%N.
  Proof. split; reflexivity. Qed.
  Example rw_pair : rw_of_prog p_pair (RIsa "R" "s" false) = 64%N /\ rw_of_prog p_pair (RIsa "R" "d" false) = 64%N /\
                    rw_of_prog p_pair (RIsa "R" "t" false) = 32%N.
  Proof. repeat split; reflexivity. Qed.
  Example im_addi : IM_of p_addi "s" = true /\ IM_of p_addi "u" = false /\ imms_of p_add = [].
  Proof. repeat split; reflexivity. Qed.

  (* one vm_compute gives the simulation theorem for the real configuration *)
  Example p_mac_simulated :
    exists eff V', tlower_info (cfg_insn 0) p_mac = OK (mkti eff 0 0 false []) /\
      forall ilsubs E csub xi cs ms fuel cs', srel (IM_of p_mac) E [] cs ms -> cexecs E csub xi fuel cs p_mac = Some cs' ->
        exists ms', runs (rw_of_prog p_mac) ilsubs eff ms ms' /\ srel (IM_of p_mac) E V' cs' ms'.
  Proof. apply covered_correct. vm_compute. reflexivity. Qed.

  (* --- not covered --- *)
  (* { int i; ... }  a loop:  int32_t i = 0; for (i = 0; i < 2; i++) { RdV = RsV; }
     NOT covered: [sfrag] has no constructor for SFor (nor SWhile / SDo): sfrag_check returns None at the loop. *)
  Definition p_loop :=
    SCons (SDecl [TS_intN true 32] "i" (Some (num 0)))
   (SCons (SFor (asg (var "i") (num 0)) (SExpr (EBin Ast.BLt (var "i") (num 2))) (Some (EPost true (var "i")))
                (SBlock (one (asg (reg "R" "d") (reg "R" "s"))))) SNil).
  Example loop_not_covered :
    covered 0 p_loop = false /\ sfrags_check (rw_of_prog p_loop) (IM_of p_loop) [] p_loop = None.
  Proof. split; vm_compute; reflexivity. Qed.

  (* { RdV = RsV / RtV; }
     NOT covered: division is neither [is_folding_op] nor [is_plain_op] (pf_bin): pfrag_check is false on the
     right-hand side.  (The two configurations also translate it differently: the repair fx_divmod is off in the
     real one.) *)
  Definition p_div := one (asg (reg "R" "d") (EBin Ast.BDiv (reg "R" "s") (reg "R" "t"))).
  Example div_not_covered :
    covered 0 p_div = false /\ sfrags_check (rw_of_prog p_div) (IM_of p_div) [] p_div = None /\
    tinfo_res_eqb (tlower_info (cfg_insn 0) p_div) (tlower_info (cfg_thm 0) p_div) = false.
  Proof. repeat split; vm_compute; reflexivity. Qed.

  (* { RdV = RsV; RddV = RssV; }
     NOT covered: RsV and RssV share the operand handle ISA2REG(hi,'s').  rw_of_prog gives it the width of its
     first use (RsV: 32), and pf_reg for RssV needs rw (RIsa "R" "s" false) = dest_w "R" APR = 64.  No width
     environment satisfies both.  The translations themselves agree: the width equation is the only failing
     conjunct. *)
  Definition p_mix := SCons (asg (reg "R" "d") (reg "R" "s")) (SCons (asg (reg "R" "dd") (reg "R" "ss")) SNil).
  Example mix_not_covered :
    covered 0 p_mix = false /\ sfrags_check (rw_of_prog p_mix) (IM_of p_mix) [] p_mix = None /\
    rw_of_prog p_mix (RIsa "R" "s" false) = 32%N /\
    tinfo_res_eqb (tlower_info (cfg_insn 0) p_mix) (tlower_info (cfg_thm 0) p_mix) = true.
  Proof. repeat split; vm_compute; reflexivity. Qed.
  (* ... and indeed no rw at all puts it into the fragment *)
  Example mix_not_in_fragment : forall rw IM V', ~ sfrags rw IM [] p_mix V'.
  Proof.
    intros rw IM V' H. apply sfrags_check_complete in H. unfold p_mix, one, asg, reg in H.
    cbn [sfrags_check sfrag_check pfrag_check dest_cls_b existsb String.eqb Ascii.eqb Bool.eqb orb andb] in H.
    unfold regw_b in H. cbn in H.
    destruct (N.eqb_spec (rw (RIsa "R" "s" false)) 32) as [E|_]; [|destruct (rw (RIsa "R" "d" false) =? 32)%N; discriminate H].
    rewrite E in H. destruct (rw (RIsa "R" "d" false) =? 32)%N; cbn in H; try discriminate H.
    destruct (rw (RIsa "R" "d" false) =? 64)%N; discriminate H.
  Qed.

  (* a local named like a parameter of the instruction routine: the real configuration rejects the declaration
     ("already defined as parameter"), the parameter-free configuration of the theorem accepts it: not covered,
     although the behaviour is in the fragment *)
  Definition p_pkt := SCons (SDecl [TS_intN true 32] "pkt" (Some (num 1))) (SCons (asg (reg "R" "d") (var "pkt")) SNil).
  Example pkt_not_covered :
    covered 0 p_pkt = false /\
    (match sfrags_check (rw_of_prog p_pkt) (IM_of p_pkt) [] p_pkt with Some _ => true | None => false end) = true.
  Proof. split; vm_compute; reflexivity. Qed.
End CheckExamples.
