(* FragCheck: the fragments [pfrag] / [sfrag] / [sfrags] of ExprCorrect / StmtCorrect DECIDED by computation,
   and the packaged corollary [covered_correct]: for a concrete behaviour, one [vm_compute] of
   [covered h prog] yields the full simulation theorem for the configuration the real compiler has.

   - [ops_ss] : every operand of a program, in textual order; [imms_of] / [IM_of] : its immediate letters;
     [rw_of_prog] : the register-width environment that gives every operand handle the width demanded by
     the FIRST operand that uses the handle (RsV and RssV share ISA2REG(hi,'s'): mixing them fails the check).
   - [pfrag_check] / [sfrag_check] / [sfrags_check] follow the constructors of the fragments; every side
     condition has a boolean version with a reflection lemma.  Soundness AND completeness are proved.
   - [tinfo_res_eqb] : strict structural equality on [res tinfo] (RzIL.pure_eqb compares literals modulo
     their width, so it does not give Leibniz equality; [pure_seqb] / [effect_seqb] here do).
   - [covered] compares the translation under the real configuration [cfg_insn h] with the one under the
     configuration of the theorem, [cfg_thm h] = all repairs on, NO routine parameters.
     (NOTE: [cfg_params (cfg_insn h)] is NOT [[]]: an instruction body is compiled with the parameters
      pkt / hi / bundle.  tlower_correct wants [cfg_params cfg = []], hence the comparison is made against
      the configuration with the parameter list emptied; a behaviour that mentions one of these three
      names is translated differently by the two and is reported as not covered.)
     [covered_correct] returns the effect, the final hybrid counter h' (h <= h': one temporary h_tmp<n> per for loop)
     and the declared / valued locals D', V' the behaviour ends with.
   - [im_ok_b prog] decides StmtCorrect.im_ok for the immediate letters of the behaviour (none is named jump_flag,
     jump_target or h_tmp...).
   - Section 6 (CheckExamples) has, for every constructor of the fragments, a shipped-style behaviour shown covered
     by vm_compute, the effect the real configuration emits for it, and executed runs (loads, macros, aliases,
     jumps, for loops); and the behaviours found NOT covered (defect D3: sextract64 of a signed 32 bit argument;
     write to the PC alias; nested loops; loop variables that are not 32 bits wide; division ...). *)
From Coq Require Import ZArith NArith List Bool String Ascii Lia.
From RZ.lib Require Import BV PyHeap.
From RZ.sem Require Import RzIL CSem.
From RZ.gen Require Import TypeRules Resources.
From RZ.model Require Import Ast Types OpTables Lower Guards.
From RZ.proofs Require Import SeqLaws SortSound ExprCorrect StmtCorrect.
Import ListNotations.
Local Open Scope string_scope.
Local Open Scope list_scope.

(* ================================================================== 1. operands of a program *)
Fixpoint ops_e (e : cexpr) : list operand :=
  match e with
  | EOp o => [o]
  | ECast _ a | EUn _ a | EPost _ a | EMember a _ | EPtrMember a _ | ECallEmpty a => ops_e a
  | EBin _ l r | EAssign _ l r | EComma l r | EIndex l r => ops_e l ++ ops_e r
  | ECond c t f => ops_e c ++ ops_e t ++ ops_e f
  | Ast.ECall _ args | EMacro _ args | ELoad _ _ args => ops_es args
  | EStmtExpr items last => ops_ss items ++ ops_s last
  | ESizeofT _ | EOther _ => []
  end
with ops_es (l : cexprs) : list operand :=
  match l with ENil => [] | ECons e t => ops_e e ++ ops_es t end
with ops_s (s : cstmt) : list operand :=
  match s with
  | SExpr e | SJump e | SReturn (Some e) => ops_e e
  | SDecl _ _ (Some e) => ops_e e
  | SIf c t None => ops_e c ++ ops_s t
  | SIf c t (Some f) => ops_e c ++ ops_s t ++ ops_s f
  | SFor i c None b => ops_s i ++ ops_s c ++ ops_s b
  | SFor i c (Some st) b => ops_s i ++ ops_s c ++ ops_e st ++ ops_s b
  | SBlock l => ops_ss l
  | SStore _ _ args => ops_es args
  | SWhile c b => ops_e c ++ ops_s b
  | SDo b c => ops_s b ++ ops_e c
  | SSwitch c b => ops_e c ++ ops_s b
  | SLabel _ b | SCase b => ops_s b
  | _ => []
  end
with ops_ss (l : cstmts) : list operand :=
  match l with SNil => [] | SCons s t => ops_s s ++ ops_ss t end.

Definition imms_of (prog : cstmts) : list string :=
  flat_map (fun o => match o with OImm l => [l] | _ => [] end) (ops_ss prog).
Definition IM_of (prog : cstmts) : string -> bool := fun l => existsb (String.eqb l) (imms_of prog).

(* ================================================================== 4. register widths *)
(* the standard Hexagon widths of SINGLE register operands: predicates 8 bit, everything else 32 bit
   (= ExprCorrect.cls_w on the class of the handle) *)
Definition rw_std : regwidth := fun r => match r with RIsa cls _ _ => cls_w cls | _ => 32%N end.

(* the width an operand demands of its handle (ExprCorrect.dest_w: pairs are double width) *)
Definition demand_of (o : operand) : list (regop * N) :=
  match o with
  | OReg cls letters =>
      match access_of_letters letters with
      | Some acc => [(RIsa cls (substring 0 1 letters) false, dest_w cls acc)]
      | None => []
      end
  | ONewReg cls letters =>
      match access_of_letters letters with
      | Some acc => [(rop cls letters true, dest_w cls acc)]
      | None => []
      end
  | OAlias name new => [(alias_op name new, alias_w name)]
  | OExplicit name new => [(expl_op name new, expl_w name)]
  | _ => []
  end.
Definition demands (prog : cstmts) : list (regop * N) := flat_map demand_of (ops_ss prog).
(* each handle gets the width demanded by its first occurrence; handles the program does not use: rw_std *)
Definition rw_of_prog (prog : cstmts) : regwidth := fun r =>
  match find (fun d => regop_eqb r (fst d)) (demands prog) with Some d => snd d | None => rw_std r end.

(* ================================================================== 2. boolean side conditions *)
Ltac split_andb :=
  repeat match goal with
         | H : (_ && _)%bool = true |- _ => apply andb_prop in H; destruct H
         end.

Lemma andb2 a b : (a && b)%bool = true -> a = true /\ b = true.
Proof. destruct a, b; auto. Qed.
Lemma andb3 a b c : (a && b && c)%bool = true -> a = true /\ b = true /\ c = true.
Proof. destruct a, b, c; auto. Qed.
Lemma andb4 a b c d : (a && b && c && d)%bool = true -> a = true /\ b = true /\ c = true /\ d = true.
Proof. destruct a, b, c, d; auto. Qed.

Definition okw_b (w : N) : bool := (N.eqb w 8 || N.eqb w 16 || N.eqb w 32 || N.eqb w 64)%bool.
Lemma okw_b_iff w : okw_b w = true <-> okw w.
Proof.
  unfold okw_b, okw. rewrite !orb_true_iff, !N.eqb_eq. tauto.
Qed.

Definition dest_cls_b (cls : string) : bool := existsb (String.eqb cls) ["R"; "P"; "C"; "M"].
Lemma dest_cls_b_iff cls : dest_cls_b cls = true <-> dest_cls cls.
Proof.
  unfold dest_cls_b, dest_cls. cbn [existsb]. rewrite !orb_true_iff, !String.eqb_eq. intuition discriminate.
Qed.

Definition reg_cls_b (new : bool) (cls : string) : bool := (dest_cls_b cls || (new && String.eqb cls "N"))%bool.
Lemma reg_cls_b_iff new cls : reg_cls_b new cls = true <-> reg_cls new cls.
Proof.
  unfold reg_cls_b, reg_cls. rewrite orb_true_iff, andb_true_iff, dest_cls_b_iff, String.eqb_eq. tauto.
Qed.

Definition reserved_b (IM : string -> bool) (x : string) : bool :=
  (String.eqb x "jump_flag" || String.eqb x "jump_target" || IM x || imm_cname x || is_htmp x)%bool.
Lemma reserved_b_iff IM x : reserved_b IM x = true <-> reserved IM x.
Proof.
  unfold reserved_b, reserved. rewrite !orb_true_iff, !String.eqb_eq. tauto.
Qed.
Lemma reserved_b_false IM x : reserved_b IM x = false <-> ~ reserved IM x.
Proof. rewrite <- reserved_b_iff. destruct (reserved_b IM x); split; intros H; congruence. Qed.

(* the immediate letters of a behaviour are not the names of JUMP's locals nor of the compiler's temporaries h_tmp<n>
   (decided on the list of letters: StmtCorrect.im_ok_l) *)
Definition im_ok_b (prog : cstmts) : bool := im_ok_l (imms_of prog).
Lemma im_ok_b_iff prog : im_ok_b prog = true <-> im_ok (IM_of prog).
Proof. apply im_ok_l_iff. Qed.

Definition cast_ty_of (ts : tyspec) : option (bool * N) :=
  match ts with
  | [TS_intN sg w] => if okw_b w then Some (sg, w) else None
  | [TS_int] => Some (true, 32%N)
  | [TS_unsigned] => Some (false, 32%N)
  | [TS_unsigned; TS_int] => Some (false, 32%N)
  | [TS_sizeN b sg] => if okw_b (b * 8) then Some (sg, (b * 8)%N) else None
  | _ => None
  end.
Lemma cast_ty_of_iff ts sg w : cast_ty_of ts = Some (sg, w) <-> cast_ty ts sg w.
Proof.
  unfold cast_ty. split.
  - intros H.
    destruct ts as [|t1 [|t2 [|t3 r]]]; [discriminate H | | | ].
    + destruct t1; cbn [cast_ty_of] in H; try discriminate H.
      * injection H as <- <-. auto 10.
      * injection H as <- <-. auto 10.
      * destruct (okw_b w0) eqn:Ew; [|discriminate H]. injection H as <- <-. apply okw_b_iff in Ew. auto 10.
      * destruct (okw_b (bytes * 8)) eqn:Ew; [|discriminate H]. injection H as <- <-. apply okw_b_iff in Ew.
        right. right. right. right. exists bytes. auto.
    + destruct t1; cbn [cast_ty_of] in H; try discriminate H.
      destruct t2; try discriminate H. injection H as <- <-. auto 10.
    + destruct t1; cbn [cast_ty_of] in H; try discriminate H.
      destruct t2; discriminate H.
  - intros [[-> Hw] | [[-> [-> ->]] | [[-> [-> ->]] | [[-> [-> ->]] | [b [-> [-> Hw]]]]]]]; cbn [cast_ty_of]; try reflexivity.
    + apply okw_b_iff in Hw. rewrite Hw. reflexivity.
    + apply okw_b_iff in Hw. rewrite Hw. reflexivity.
Qed.

Definition decl_ty_of (ts : tyspec) : option (bool * N) :=
  match cast_ty_of ts with
  | Some r => Some r
  | None =>
      match ts with
      | [TS_sizeN b sg] => if okw_b (b * 8) then Some (sg, (b * 8)%N) else None
      | _ => None
      end
  end.
Lemma decl_ty_of_iff ts sg w : decl_ty_of ts = Some (sg, w) <-> decl_ty ts sg w.
Proof.
  unfold decl_ty_of, decl_ty. split.
  - destruct (cast_ty_of ts) as [[s0 w0]|] eqn:Ec.
    + intros H. injection H as <- <-. left. apply cast_ty_of_iff. exact Ec.
    + intros H. right.
      destruct ts as [|t1 [|t2 r]]; [discriminate H | | destruct t1; discriminate H].
      destruct t1; try discriminate H.
      destruct (okw_b (bytes * 8)) eqn:Ew; [|discriminate H]. injection H as <- <-.
      apply okw_b_iff in Ew. exists bytes. auto.
  - intros [H | [b [-> [-> Hw]]]].
    + apply cast_ty_of_iff in H. rewrite H. reflexivity.
    + cbn [cast_ty_of]. apply okw_b_iff in Hw. rewrite Hw. reflexivity.
Qed.

(* strict equality of types, and of variable tables *)
Definition vtype_seqb (a b : vtype) : bool :=
  (Bool.eqb (vt_sg a) (vt_sg b) && N.eqb (vt_w a) (vt_w b) && Bool.eqb (vt_bool a) (vt_bool b) &&
   Bool.eqb (vt_void a) (vt_void b) && Bool.eqb (vt_ext a) (vt_ext b) && Bool.eqb (vt_float a) (vt_float b) &&
   Bool.eqb (vt_hyb a) (vt_hyb b) && Bool.eqb (vt_const a) (vt_const b) && Bool.eqb (vt_tok a) (vt_tok b))%bool.
Lemma vtype_seqb_sound a b : vtype_seqb a b = true -> a = b.
Proof.
  unfold vtype_seqb. destruct a as [a1 a2 a3 a4 a5 a6 a7 a8 a9], b as [b1 b2 b3 b4 b5 b6 b7 b8 b9]. cbn [vt_sg vt_w vt_bool vt_void vt_ext vt_float vt_hyb vt_const vt_tok].
  intros H. split_andb.
  repeat match goal with
         | H : Bool.eqb _ _ = true |- _ => apply eqb_prop in H
         | H : N.eqb _ _ = true |- _ => apply N.eqb_eq in H
         end.
  subst. reflexivity.
Qed.
Lemma vtype_seqb_refl a : vtype_seqb a a = true.
Proof. unfold vtype_seqb. rewrite !eqb_reflx, N.eqb_refl. reflexivity. Qed.

Definition ovtype_seqb (a b : option vtype) : bool :=
  match a, b with Some x, Some y => vtype_seqb x y | None, None => true | _, _ => false end.
Fixpoint venv_eqb (a b : list (string * option vtype)) : bool :=
  match a, b with
  | [], [] => true
  | (x, t) :: a', (y, u) :: b' => (String.eqb x y && ovtype_seqb t u && venv_eqb a' b')%bool
  | _, _ => false
  end.
Lemma venv_eqb_sound a : forall b, venv_eqb a b = true -> a = b.
Proof.
  induction a as [|[x t] a' IH]; intros [|[y u] b'] H; cbn [venv_eqb] in H; try discriminate H; [reflexivity|].
  apply andb3 in H. destruct H as [Hx [Ht Ha]]. apply String.eqb_eq in Hx. subst y. rewrite (IH b' Ha).
  destruct t as [t|], u as [u|]; cbn [ovtype_seqb] in Ht; try discriminate Ht; [|reflexivity].
  apply vtype_seqb_sound in Ht. subst u. reflexivity.
Qed.
Lemma venv_eqb_refl a : venv_eqb a a = true.
Proof.
  induction a as [|[x t] a' IH]; [reflexivity|]. cbn [venv_eqb]. rewrite String.eqb_refl, IH.
  destruct t as [t|]; cbn [ovtype_seqb]; [rewrite vtype_seqb_refl|]; reflexivity.
Qed.

(* a declared integer local of a width of the fragment *)
Definition intvar_b (V : list (string * option vtype)) (x : string) : bool :=
  match lookup x V with
  | Some (Some t) => (vtype_seqb t (ty_int (vt_sg t) (vt_w t)) && okw_b (vt_w t))%bool
  | _ => false
  end.
Lemma intvar_b_sound V x : intvar_b V x = true -> exists sg w, lookup x V = Some (Some (ty_int sg w)) /\ okw w.
Proof.
  unfold intvar_b. destruct (lookup x V) as [[t|]|]; try discriminate. intros H. apply andb2 in H. destruct H as [H H0].
  apply vtype_seqb_sound in H. apply okw_b_iff in H0. exists (vt_sg t), (vt_w t). rewrite <- H. auto.
Qed.
Lemma intvar_b_complete V x sg w : lookup x V = Some (Some (ty_int sg w)) -> okw w -> intvar_b V x = true.
Proof.
  intros Hl Hw. unfold intvar_b. rewrite Hl. cbn [ty_int vt_sg vt_w]. fold (ty_int sg w).
  rewrite vtype_seqb_refl. apply okw_b_iff in Hw. rewrite Hw. reflexivity.
Qed.

(* a 32 bit local with a value (the variable of a for loop) *)
Definition int32var_b (V : list (string * option vtype)) (x : string) : bool :=
  match lookup x V with
  | Some (Some t) => vtype_seqb t (ty_int (vt_sg t) 32)
  | _ => false
  end.
Lemma int32var_b_sound V x : int32var_b V x = true -> exists sg, lookup x V = Some (Some (ty_int sg 32)).
Proof.
  unfold int32var_b. destruct (lookup x V) as [[t|]|]; try discriminate. intros H.
  apply vtype_seqb_sound in H. exists (vt_sg t). rewrite <- H. reflexivity.
Qed.
Lemma int32var_b_complete V x sg : lookup x V = Some (Some (ty_int sg 32)) -> int32var_b V x = true.
Proof. intros Hl. unfold int32var_b. rewrite Hl. cbn [ty_int vt_sg]. fold (ty_int sg 32). apply vtype_seqb_refl. Qed.

Definition unop_ok (u : Ast.unop) : bool := match u with UNot | UMinus | ULNot => true | _ => false end.
Lemma unop_ok_iff u : unop_ok u = true <-> (u = UNot \/ u = UMinus \/ u = ULNot).
Proof. destruct u; cbn [unop_ok]; intuition discriminate. Qed.

Definition binop_ok (b : Ast.binop) : bool := match b with Ast.BDiv | Ast.BMod => false | _ => true end.
Lemma binop_ok_iff b : binop_ok b = true <-> (is_folding_op b \/ is_plain_op b).
Proof.
  unfold is_folding_op, is_plain_op, is_cmp. destruct b; cbn [binop_ok]; split; intros H; auto 20; try discriminate H;
    intuition discriminate.
Qed.

Definition casg_ok (a : asgop) : bool := match a with AAdd | ASub | AMul | AAnd | AOr | AXor | AShl | AShr => true | _ => false end.
Lemma casg_ok_iff a : casg_ok a = true <-> ((a = AAdd \/ a = ASub \/ a = AMul) \/ (a = AAnd \/ a = AOr \/ a = AXor) \/ (a = AShl \/ a = AShr)).
Proof. destruct a; cbn [casg_ok]; intuition discriminate. Qed.

Definition alias_b (rw : regwidth) (name : string) (new : bool) : bool :=
  (existsb (String.eqb name) alias_names && N.eqb (rw (alias_op name new)) (alias_w name))%bool.
Lemma alias_b_iff rw name new : alias_b rw name new = true <-> In name alias_names /\ rw (alias_op name new) = alias_w name.
Proof.
  unfold alias_b. rewrite andb_true_iff, N.eqb_eq, existsb_exists. split.
  - intros [[y [Hy He]] Hw]. apply String.eqb_eq in He. subst y. auto.
  - intros [Hin Hw]. split; [|exact Hw]. exists name. split; [exact Hin | apply String.eqb_refl].
Qed.

Definition expl_b (rw : regwidth) (name : string) (new : bool) : bool :=
  (existsb (String.eqb name) expl_names && N.eqb (rw (expl_op name new)) (expl_w name))%bool.
Lemma expl_b_iff rw name new : expl_b rw name new = true <-> In name expl_names /\ rw (expl_op name new) = expl_w name.
Proof.
  unfold expl_b. rewrite andb_true_iff, N.eqb_eq, existsb_exists. split.
  - intros [[y [Hy He]] Hw]. apply String.eqb_eq in He. subst y. auto.
  - intros [Hin Hw]. split; [|exact Hw]. exists name. split; [exact Hin | apply String.eqb_refl].
Qed.

Definition implicit_b (x : string) : bool := existsb (String.eqb x) ["EA"; "i"; "j"; "k"].
Lemma implicit_b_iff x : implicit_b x = true <-> implicit_name x.
Proof. unfold implicit_b, implicit_name. cbn [existsb]. rewrite !orb_true_iff, !String.eqb_eq. intuition discriminate. Qed.

Definition raw_name_b (IM : string -> bool) (V : list (string * option vtype)) (x : string) : bool :=
  (match lookup x V with None => true | Some _ => false end && negb (IM x) && negb (implicit_b x) && negb (is_htmp x))%bool.
Lemma raw_name_b_iff IM V x : raw_name_b IM V x = true <-> raw_name IM V x.
Proof.
  unfold raw_name_b, raw_name. rewrite !andb_true_iff, !negb_true_iff. rewrite <- implicit_b_iff.
  destruct (lookup x V); destruct (implicit_b x); intuition congruence.
Qed.

Definition mac1_b (m : string) : bool := existsb (String.eqb m) ["bswap16"; "bswap32"; "bswap64"].
Definition mac3_b (m : string) : bool := existsb (String.eqb m) ["extract32"; "extract64"; "sextract64"].
Definition mac4_b (m : string) : bool := existsb (String.eqb m) ["deposit32"; "deposit64"].
Lemma mac1_b_iff m : mac1_b m = true <-> is_mac1 m.
Proof. unfold mac1_b, is_mac1. cbn [existsb]. rewrite !orb_true_iff, !String.eqb_eq. intuition discriminate. Qed.
Lemma mac3_b_iff m : mac3_b m = true <-> is_mac3 m.
Proof. unfold mac3_b, is_mac3. cbn [existsb]. rewrite !orb_true_iff, !String.eqb_eq. intuition discriminate. Qed.
Lemma mac4_b_iff m : mac4_b m = true <-> is_mac4 m.
Proof. unfold mac4_b, is_mac4. cbn [existsb]. rewrite !orb_true_iff, !String.eqb_eq. intuition discriminate. Qed.

(* a register operand whose handle has the width the operand demands *)
Definition regw_b (rw : regwidth) (cls letters : string) : bool :=
  match access_of_letters letters with
  | Some acc => N.eqb (rw (RIsa cls (substring 0 1 letters) false)) (dest_w cls acc)
  | None => false
  end.
Lemma regw_b_iff rw cls letters :
  regw_b rw cls letters = true <->
  exists acc, access_of_letters letters = Some acc /\ rw (RIsa cls (substring 0 1 letters) false) = dest_w cls acc.
Proof.
  unfold regw_b. destruct (access_of_letters letters) as [acc|].
  - rewrite N.eqb_eq. split; [eauto|]. intros [acc' [H1 H2]]. injection H1 as <-. exact H2.
  - split; [discriminate|]. intros [acc' [H1 _]]. discriminate H1.
Qed.
Definition newregw_b (rw : regwidth) (cls letters : string) : bool :=
  match access_of_letters letters with
  | Some acc => N.eqb (rw (rop cls letters true)) (dest_w cls acc)
  | None => false
  end.
Lemma newregw_b_iff rw cls letters :
  newregw_b rw cls letters = true <->
  exists acc, access_of_letters letters = Some acc /\ rw (rop cls letters true) = dest_w cls acc.
Proof.
  unfold newregw_b. destruct (access_of_letters letters) as [acc|].
  - rewrite N.eqb_eq. split; [eauto|]. intros [acc' [H1 H2]]. injection H1 as <-. exact H2.
  - split; [discriminate|]. intros [acc' [H1 _]]. discriminate H1.
Qed.

(* ================================================================== 2. the checkers *)
Section Check.
  Variable rw : regwidth.
  Variable IM : string -> bool.

  Fixpoint pfrag_check (V : list (string * option vtype)) (e : cexpr) {struct e} : bool :=
    match e with
    | EOp (OIdent x) => intvar_b V x
    | EOp (ONum v hex suf) =>
        (Z.leb 0 v && match literal_type v hex suf with Some _ => true | None => false end)%bool
    | EOp (OReg cls letters) => (dest_cls_b cls && regw_b rw cls letters)%bool
    | EOp (ONewReg cls letters) => (reg_cls_b true cls && newregw_b rw cls letters)%bool
    | EOp (OImm l) => IM l
    | EOp (OAlias name new) => (alias_b rw name new || (String.eqb name "PC" && negb new))%bool
    | EOp (OExplicit name new) => expl_b rw name new
    | ECast ts a =>
        (match cast_ty_of ts with Some _ => true | None => false end &&
         (pfrag_check V a ||
          match a with ELoad _ lw (ECons x ENil) => okw_b lw && pfrag_check V x | _ => false end))%bool
    | EUn u a => (unop_ok u && pfrag_check V a)%bool
    | EBin b l r => (binop_ok b && pfrag_check V l && pfrag_check V r)%bool
    | ECond c t f => (pfrag_check V c && pfrag_check V t && pfrag_check V f)%bool
    | Ast.ECall f (ECons a ENil) => (String.eqb f "sizeof" && pfrag_check V a)%bool
    | EMacro m (ECons x ENil) => (mac1_b m && pfrag_check V x)%bool
    | EMacro m (ECons x (ECons s (ECons l ENil))) => (mac3_b m && pfrag_check V x && pfrag_check V s && pfrag_check V l)%bool
    | EMacro m (ECons x (ECons s (ECons l (ECons f ENil)))) =>
        (mac4_b m && pfrag_check V x && pfrag_check V s && pfrag_check V l && pfrag_check V f)%bool
    | _ => false
    end.

  Definition carg_b (D V : list (string * option vtype)) (e : cexpr) : bool :=
    (pfrag_check V e || match e with EOp (OIdent x) => raw_name_b IM D x | _ => false end)%bool.

  Definition fresh_b (D : list (string * option vtype)) (x : string) : bool :=
    match lookup x D with None => true | Some _ => false end.

  (* D = the declared locals, V = those that have a value *)
  Fixpoint sfrag_check (D V : list (string * option vtype)) (s : cstmt) {struct s}
    : option (list (string * option vtype) * list (string * option vtype)) :=
    match s with
    | SExpr (Ast.ECall f (ECons a (ECons b ENil))) =>
        if (String.eqb f ssc_name && carg_b D V a && carg_b D V b)%bool then Some (D, V) else None
    | SExpr (EAssign a (EOp (OReg cls letters)) e) =>
        if ((match a with AAssign => true | _ => casg_ok a end) && dest_cls_b cls && regw_b rw cls letters && pfrag_check V e)%bool
        then Some (D, V) else None
    | SExpr (EAssign a (EOp (OAlias name new)) e) =>
        if ((match a with AAssign => true | _ => false end) && alias_b rw name new && pfrag_check V e)%bool then Some (D, V) else None
    | SExpr (EAssign a (EOp (OExplicit name new)) e) =>
        if ((match a with AAssign => true | _ => false end) && expl_b rw name new && pfrag_check V e)%bool then Some (D, V) else None
    | SExpr (EAssign a (EOp (OImm l)) e) =>
        if ((match a with AAssign => true | _ => false end) && IM l && pfrag_check V e)%bool then Some (D, V) else None
    | SExpr (EAssign a (EOp (OIdent x)) e) =>
        if ((match a with AAssign => true | _ => casg_ok a end) && intvar_b V x && pfrag_check V e)%bool
        then Some (D, V)
        else if ((match a with AAssign => true | _ => false end) && fresh_b V x && pfrag_check V e)%bool then
          match lookup x D with
          | Some (Some t) =>                           (* the first assignment of a local declared without initialiser *)
              if (vtype_seqb t (ty_int (vt_sg t) (vt_w t)) && okw_b (vt_w t))%bool
              then Some (D, V ++ [(x, Some (ty_int (vt_sg t) (vt_w t)))]) else None
          | Some None => None
          | None =>                                    (* the first assignment of EA / i / j / k *)
              if (implicit_b x && negb (reserved_b IM x))%bool
              then Some (D ++ [(x, Some (ty_int false 32))], V ++ [(x, Some (ty_int false 32))]) else None
          end
        else None
    | SExpr (EOp (OImm l)) => if IM l then Some (D, V) else None      (* (uiV); *)
    | SDecl ts x (Some e) =>
        match decl_ty_of ts with
        | Some (sg, w) =>
            if (fresh_b D x && negb (reserved_b IM x) && pfrag_check V e)%bool
            then Some (D ++ [(x, Some (ty_int sg w))], V ++ [(x, Some (ty_int sg w))]) else None
        | None => None
        end
    | SDecl ts x None =>
        match decl_ty_of ts with
        | Some (sg, w) =>
            if (fresh_b D x && negb (reserved_b IM x))%bool then Some (D ++ [(x, Some (ty_int sg w))], V) else None
        | None => None
        end
    | SEmpty => Some (D, V)
    | SNop => Some (D, V)
    | SCancel => Some (D, V)
    | SStore sg w (ECons a (ECons v ENil)) =>
        if (okw_b w && pfrag_check V a && pfrag_check V v)%bool then Some (D, V) else None
    | SJump e => if pfrag_check V e then Some (D, V) else None
    | SBlock l => sfrags_check D V l
    | SIf c t None =>
        if pfrag_check V c then
          match sfrag_check D V t with
          | Some (D1, V1) => if (venv_eqb D1 D && venv_eqb V1 V)%bool then Some (D, V) else None
          | None => None
          end
        else None
    | SIf c t (Some f) =>
        if pfrag_check V c then
          match sfrag_check D V t, sfrag_check D V f with
          | Some (D1, V1), Some (D2, V2) =>
              if (venv_eqb D1 D && venv_eqb D2 D && venv_eqb V2 V1)%bool then Some (D, V1) else None
          | _, _ => None
          end
        else None
    | SFor i (SExpr c) (Some (EPost inc (EOp (OIdent x)))) b =>      (* for (i = e; c; i++) body *)
        match i with
        | SExpr _ =>
            match sfrag_check D V i with
            | Some (D1, V1) =>
                if (pfrag_check V1 c && int32var_b V1 x && noloop b)%bool then
                  match sfrag_check D1 V1 b with
                  | Some (D2, V2) => if (venv_eqb D2 D1 && venv_eqb V2 V1)%bool then Some (D1, V1) else None
                  | None => None
                  end
                else None
            | None => None
            end
        | _ => None
        end
    | _ => None
    end
  with sfrags_check (D V : list (string * option vtype)) (l : cstmts) {struct l}
    : option (list (string * option vtype) * list (string * option vtype)) :=
    match l with
    | SNil => Some (D, V)
    | SCons s t => match sfrag_check D V s with Some (D1, V1) => sfrags_check D1 V1 t | None => None end
    end.

  (* ================================================================== 3. soundness *)
  Theorem pfrag_check_sound : forall V e, pfrag_check V e = true -> pfrag rw IM V e.
  Proof.
    intros V. fix IH 1. intros e.
    destruct e as [o | t e | u e | b e1 e2 | e1 e2 e3 | a l r | inc e | f args | m args | sg w args | items last
                   | l r | a i | a f | a f | a | t | what]; cbn [pfrag_check]; try discriminate.
    - (* operands *)
      destruct o as [cls letters | cls letters | name new | name new | l | v hex suf | x | |]; try discriminate.
      + intros H. apply andb2 in H. destruct H as [H H0]. apply dest_cls_b_iff in H. apply regw_b_iff in H0. destruct H0 as [acc [Ha Hw]].
        exact (pf_reg rw IM V cls letters acc H Ha Hw).
      + intros H. apply andb2 in H. destruct H as [H H0]. apply reg_cls_b_iff in H. apply newregw_b_iff in H0. destruct H0 as [acc [Ha Hw]].
        exact (pf_newreg rw IM V cls letters acc H Ha Hw).
      + intros H. apply expl_b_iff in H. destruct H as [H H0]. exact (pf_expl rw IM V name new H H0).
      + intros H. apply orb_true_iff in H. destruct H as [H | H].
        * apply alias_b_iff in H. destruct H as [H H0]. exact (pf_alias rw IM V name new H H0).
        * apply andb2 in H. destruct H as [H H0]. apply String.eqb_eq in H. apply negb_true_iff in H0. subst name new. exact (pf_pc rw IM V).
      + intros H. exact (pf_imm rw IM V l H).
      + intros H. apply andb2 in H. destruct H as [H H0]. destruct (literal_type v hex suf) as [t|] eqn:El; [|discriminate H0].
        apply Z.leb_le in H. exact (pf_num rw IM V v hex suf t H El).
      + intros H. destruct (intvar_b_sound V x H) as [sg [w [Hl Hw]]]. exact (pf_ident rw IM V x sg w Hl Hw).
    - (* cast, and cast of a load *)
      intros H. apply andb2 in H. destruct H as [H H0]. destruct (cast_ty_of t) as [[sg w]|] eqn:Ec; [|discriminate H].
      apply cast_ty_of_iff in Ec. apply orb_true_iff in H0. destruct H0 as [H0 | H0].
      + exact (pf_cast rw IM V t sg w e Ec (IH e H0)).
      + destruct e as [| | | | | | | | | lsg lw args | | | | | | | |]; try discriminate H0.
        destruct args as [|x [|y r]]; try discriminate H0.
        apply andb2 in H0. destruct H0 as [Hw Hx]. apply okw_b_iff in Hw.
        exact (pf_load rw IM V t sg w lsg lw x Ec Hw (IH x Hx)).
    - (* unary *)
      intros H. apply andb2 in H. destruct H as [H H0]. apply unop_ok_iff in H. exact (pf_un rw IM V u e H (IH e H0)).
    - (* binary *)
      intros H. apply andb3 in H. destruct H as [H [H1 H2]]. apply binop_ok_iff in H. exact (pf_bin rw IM V b e1 e2 H (IH e1 H1) (IH e2 H2)).
    - (* conditional *)
      intros H. apply andb3 in H. destruct H as [H1 [H2 H3]].
      exact (pf_cond rw IM V e1 e2 e3 (IH e1 H1) (IH e2 H2) (IH e3 H3)).
    - (* sizeof *)
      destruct args as [|x [|y r]]; try discriminate.
      intros H. apply andb2 in H. destruct H as [H H0]. apply String.eqb_eq in H. subst f. exact (pf_sizeof rw IM V x (IH x H0)).
    - (* macros *)
      destruct args as [|x [|s [|l [|f [|g r]]]]]; try discriminate.
      + intros H. apply andb2 in H. destruct H as [H H0]. apply mac1_b_iff in H. exact (pf_mac1 rw IM V m x H (IH x H0)).
      + intros H. apply andb4 in H. destruct H as [H [H1 [H2 H3]]]. apply mac3_b_iff in H.
        exact (pf_mac3 rw IM V m x s l H (IH x H1) (IH s H2) (IH l H3)).
      + intros H. apply andb2 in H. destruct H as [H H4]. apply andb4 in H. destruct H as [H [H1 [H2 H3]]]. apply mac4_b_iff in H.
        exact (pf_mac4 rw IM V m x s l f H (IH x H1) (IH s H2) (IH l H3) (IH f H4)).
  Qed.

  Theorem pfrag_check_complete : forall V e, pfrag rw IM V e -> pfrag_check V e = true.
  Proof.
    intros V e H.
    induction H as [x sg w Hl Hw | v hex suf t Hv Hl | cls letters acc Hc Ha Hw | cls letters acc Hc Ha Hw | l Hl
                   | name new Hin Hw | name new Hin Hw |
                   | ts sg w e Hts _ IH | u e Hu _ IH | b l r Hb _ IHl _ IHr | c t f _ IHc _ IHt _ IHf
                   | e _ IH
                   | ts sg w lsg lw a Hts Hlw _ IH | m x Hm _ IHx | m x s l Hm _ IHx _ IHs _ IHl
                   | m x s l f Hm _ IHx _ IHs _ IHl _ IHf];
      cbn [pfrag_check].
    - exact (intvar_b_complete V x sg w Hl Hw).
    - rewrite Hl. apply Z.leb_le in Hv. rewrite Hv. reflexivity.
    - apply dest_cls_b_iff in Hc. rewrite Hc. apply (proj2 (regw_b_iff rw cls letters)). eauto.
    - apply reg_cls_b_iff in Hc. rewrite Hc. apply (proj2 (newregw_b_iff rw cls letters)). eauto.
    - exact Hl.
    - apply orb_true_iff. left. apply alias_b_iff. auto.
    - apply expl_b_iff. auto.
    - apply orb_true_r.
    - apply cast_ty_of_iff in Hts. rewrite Hts, IH. reflexivity.
    - apply unop_ok_iff in Hu. rewrite Hu, IH. reflexivity.
    - apply binop_ok_iff in Hb. rewrite Hb, IHl, IHr. reflexivity.
    - rewrite IHc, IHt, IHf. reflexivity.
    - rewrite IH. reflexivity.
    - apply cast_ty_of_iff in Hts. rewrite Hts, IH. apply okw_b_iff in Hlw. rewrite Hlw. reflexivity.
    - apply mac1_b_iff in Hm. rewrite Hm, IHx. reflexivity.
    - apply mac3_b_iff in Hm. rewrite Hm, IHx, IHs, IHl. reflexivity.
    - apply mac4_b_iff in Hm. rewrite Hm, IHx, IHs, IHl, IHf. reflexivity.
  Qed.

  Lemma carg_b_sound D V e : carg_b D V e = true -> carg rw IM D V e.
  Proof.
    unfold carg_b. intros H. apply orb_true_iff in H. destruct H as [H | H].
    - apply ca_expr. apply pfrag_check_sound. exact H.
    - destruct e as [o| | | | | | | | | | | | | | | | |]; try discriminate H. destruct o; try discriminate H.
      apply ca_raw. apply raw_name_b_iff. exact H.
  Qed.
  Lemma carg_b_complete D V e : carg rw IM D V e -> carg_b D V e = true.
  Proof.
    unfold carg_b. intros [x Hx | e0 He].
    - apply raw_name_b_iff in Hx. rewrite Hx. apply orb_true_r.
    - rewrite (pfrag_check_complete V e0 He). reflexivity.
  Qed.

  Lemma fresh_b_iff D x : fresh_b D x = true <-> lookup x D = None.
  Proof. unfold fresh_b. destruct (lookup x D); split; intros H; congruence. Qed.

  Definition sound_s (s : cstmt) : Prop := forall D V D' V', sfrag_check D V s = Some (D', V') -> sfrag rw IM D V s D' V'.
  Definition sound_ss (l : cstmts) : Prop := forall D V D' V', sfrags_check D V l = Some (D', V') -> sfrags rw IM D V l D' V'.

  Lemma sound_expr_stmt e : sound_s (SExpr e).
  Proof.
    intros D V D' V'. cbn [sfrag_check].
    destruct e as [o0 | | | | | a l r | | f args | | | | | | | | | |]; try discriminate.
    1:{ destruct o0 as [| | | | l0 | | | |]; try discriminate. destruct (IM l0) eqn:El; [|discriminate].
        intros H. injection H as <- <-. exact (sf_expr_imm rw IM D V l0 El). }
    2:{ destruct args as [|a [|b [|c r]]]; try discriminate.
        match goal with |- (if ?c then _ else _) = _ -> _ => destruct c eqn:Ec end; [|discriminate].
        intros H. injection H as <- <-. apply andb3 in Ec. destruct Ec as [Hf [Ha Hb]]. apply String.eqb_eq in Hf. subst f.
        exact (sf_ssc rw IM D V a b (carg_b_sound D V a Ha) (carg_b_sound D V b Hb)). }
    destruct l as [o| | | | | | | | | | | | | | | | |]; try discriminate.
    destruct o as [cls letters | | xname xnew | name new | l0 | | x | |]; try discriminate.
    2:{ match goal with |- (if ?c then _ else _) = _ -> _ => destruct c eqn:Ec end; [|discriminate].
        intros H. injection H as <- <-. apply andb3 in Ec. destruct Ec as [Ha [Hal He]].
        destruct a; try discriminate Ha. apply expl_b_iff in Hal. destruct Hal as [Hin Hw]. apply pfrag_check_sound in He.
        exact (sf_asg_expl rw IM D V xname xnew r Hin Hw He). }
    3:{ match goal with |- (if ?c then _ else _) = _ -> _ => destruct c eqn:Ec end; [|discriminate].
        intros H. injection H as <- <-. apply andb3 in Ec. destruct Ec as [Ha [Hl He]].
        destruct a; try discriminate Ha. apply pfrag_check_sound in He.
        exact (sf_asg_imm rw IM D V l0 r Hl He). }
    2:{ match goal with |- (if ?c then _ else _) = _ -> _ => destruct c eqn:Ec end; [|discriminate].
        intros H. injection H as <- <-. apply andb3 in Ec. destruct Ec as [Ha [Hal He]].
        destruct a; try discriminate Ha. apply alias_b_iff in Hal. destruct Hal as [Hin Hw]. apply pfrag_check_sound in He.
        exact (sf_asg_alias rw IM D V name new r Hin Hw He). }
    - match goal with |- (if ?c then _ else _) = _ -> _ => destruct c eqn:Ec end; [|discriminate].
      intros H. injection H as <- <-. apply andb4 in Ec. destruct Ec as [H [H1 [H0 Ec]]].
      apply dest_cls_b_iff in H1. apply regw_b_iff in H0. destruct H0 as [acc [Ha Hw]]. apply pfrag_check_sound in Ec.
      destruct a; try (apply casg_ok_iff in H; destruct H as [H | [H | H]];
                       [exact (sf_casg_reg rw IM D V _ cls letters acc r H H1 Ha Hw Ec) | exact (sf_basg_reg rw IM D V _ cls letters acc r H H1 Ha Hw Ec)
                        | exact (sf_sasg_reg rw IM D V _ cls letters acc r H H1 Ha Hw Ec)]).
      exact (sf_asg_reg rw IM D V cls letters acc r H1 Ha Hw Ec).
    - match goal with |- (if ?c then _ else _) = _ -> _ => destruct c eqn:Ec end.
      + intros H. injection H as <- <-. apply andb3 in Ec. destruct Ec as [H [H0 Ec]].
        destruct (intvar_b_sound V x H0) as [sg [w [Hl Hw]]]. apply pfrag_check_sound in Ec.
        destruct a; try (apply casg_ok_iff in H; destruct H as [H | [H | H]];
                         [exact (sf_casg_var rw IM D V _ x sg w r H Hl Hw Ec) | exact (sf_basg_var rw IM D V _ x sg w r H Hl Hw Ec)
                          | exact (sf_sasg_var rw IM D V _ x sg w r H Hl Hw Ec)]).
        exact (sf_asg_var rw IM D V x sg w r Hl Hw Ec).
      + clear Ec. match goal with |- (if ?c then _ else _) = _ -> _ => destruct c eqn:Ec end; [|discriminate].
        apply andb3 in Ec. destruct Ec as [Ha [Hv He]]. destruct a; try discriminate Ha. apply fresh_b_iff in Hv. apply pfrag_check_sound in He.
        destruct (lookup x D) as [[t|]|] eqn:El; try discriminate.
        * match goal with |- (if ?c then _ else _) = _ -> _ => destruct c eqn:Ec end; [|discriminate].
          intros H. injection H as <- <-. apply andb2 in Ec. destruct Ec as [Ht Hw]. apply vtype_seqb_sound in Ht. apply okw_b_iff in Hw.
          rewrite Ht in El. exact (sf_asg_first rw IM D V x (vt_sg t) (vt_w t) r El Hv Hw He).
        * match goal with |- (if ?c then _ else _) = _ -> _ => destruct c eqn:Ec end; [|discriminate].
          intros H. injection H as <- <-. apply andb2 in Ec. destruct Ec as [Hi Hr].
          apply implicit_b_iff in Hi. apply negb_true_iff in Hr. apply reserved_b_false in Hr.
          exact (sf_asg_implicit rw IM D V x r Hi El Hv Hr He).
  Qed.

  (* (the Scheme of Ast gives no induction hypothesis for the else-branch, which sits under an option: direct
     mutual structural recursion) *)
  Lemma sfrag_check_sound_s : forall s, sound_s s
  with sfrag_check_sound_ss : forall l, sound_ss l.
  Proof.
    - intros s. destruct s as [e | | ts x init | what | c t f | i c st b | l | sg w args | e | | | e | c b | b c | c b | lb b | b | lb | |];
        try (intros D V D' V' H; cbn [sfrag_check] in H; discriminate H).
      + (* SExpr *) apply sound_expr_stmt.
      + (* SEmpty *) intros D V D' V' H. cbn [sfrag_check] in H. injection H as <- <-. apply sf_empty.
      + (* SDecl *)
        intros D V D' V' H. cbn [sfrag_check] in H. destruct init as [e|].
        * destruct (decl_ty_of ts) as [[sg w]|] eqn:Ed; [|discriminate H].
          match type of H with (if ?c then _ else _) = _ => destruct c eqn:Ec end; [|discriminate H].
          injection H as <- <-. apply andb3 in Ec. destruct Ec as [H [H0 Ec]].
          apply decl_ty_of_iff in Ed. apply negb_true_iff in H0. apply reserved_b_false in H0. apply fresh_b_iff in H.
          apply pfrag_check_sound in Ec.
          exact (sf_decl rw IM D V ts sg w x e Ed H H0 Ec).
        * destruct (decl_ty_of ts) as [[sg w]|] eqn:Ed; [|discriminate H].
          match type of H with (if ?c then _ else _) = _ => destruct c eqn:Ec end; [|discriminate H].
          injection H as <- <-. apply andb2 in Ec. destruct Ec as [H H0].
          apply decl_ty_of_iff in Ed. apply negb_true_iff in H0. apply reserved_b_false in H0. apply fresh_b_iff in H.
          exact (sf_decl0 rw IM D V ts sg w x Ed H H0).
      + (* SIf *)
        intros D V D' V' H. cbn [sfrag_check] in H.
        destruct f as [f|].
        * destruct (pfrag_check V c) eqn:Ec; [|discriminate H]. apply pfrag_check_sound in Ec.
          destruct (sfrag_check D V t) as [[D1 V1]|] eqn:Et; [|discriminate H].
          destruct (sfrag_check D V f) as [[D2 V2]|] eqn:Ef; [|discriminate H].
          destruct (venv_eqb D1 D && venv_eqb D2 D && venv_eqb V2 V1)%bool eqn:Ev; [|discriminate H]. injection H as <- <-.
          apply andb3 in Ev. destruct Ev as [H [H0 H1]]. apply venv_eqb_sound in H, H0, H1. subst D1 D2 V2.
          exact (sf_ifelse rw IM D V c t f V1 Ec (sfrag_check_sound_s t D V D V1 Et) (sfrag_check_sound_s f D V D V1 Ef)).
        * destruct (pfrag_check V c) eqn:Ec; [|discriminate H]. apply pfrag_check_sound in Ec.
          destruct (sfrag_check D V t) as [[D1 V1]|] eqn:Et; [|discriminate H].
          destruct (venv_eqb D1 D && venv_eqb V1 V)%bool eqn:Ev; [|discriminate H]. injection H as <- <-.
          apply andb2 in Ev. destruct Ev as [H H0]. apply venv_eqb_sound in H, H0. subst D1 V1.
          exact (sf_if rw IM D V c t Ec (sfrag_check_sound_s t D V D V Et)).
      + (* SFor *)
        intros D V D' V' H. cbn [sfrag_check] in H.
        destruct c as [c |  |  |  |  |  |  |  |  |  |  |  |  |  |  |  |  |  |  | ]; try discriminate H.
        destruct st as [[ |  |  |  |  |  | inc [[ |  |  |  |  |  | x |  | ] |  |  |  |  |  |  |  |  |  |  |  |  |  |  |  |  | ] |  |  |  |  |  |  |  |  |  |  | ] | ]; try discriminate H.
        destruct i as [e0 |  |  |  |  |  |  |  |  |  |  |  |  |  |  |  |  |  |  | ] eqn:Ei; try discriminate H. rewrite <- Ei in *.
        destruct (sfrag_check D V i) as [[D1 V1]|] eqn:E0; [|discriminate H].
        match type of H with (if ?cnd then _ else _) = _ => destruct cnd eqn:Ec end; [|discriminate H].
        destruct (sfrag_check D1 V1 b) as [[D2 V2]|] eqn:Eb; [|discriminate H].
        destruct (venv_eqb D2 D1 && venv_eqb V2 V1)%bool eqn:Ev; [|discriminate H]. injection H as <- <-.
        apply andb2 in Ev. destruct Ev as [H H0]. apply venv_eqb_sound in H, H0. subst D2 V2.
        apply andb3 in Ec. destruct Ec as [Hc [Hx Hn]]. apply pfrag_check_sound in Hc.
        destruct (int32var_b_sound V1 x Hx) as [sg Hl].
        pose proof (sfrag_check_sound_s i D V D1 V1 E0) as Hi. rewrite Ei in Hi |- *.
        exact (sf_for rw IM D V e0 D1 V1 c inc x sg b Hi Hc Hl (sfrag_check_sound_s b D1 V1 D1 V1 Eb) Hn).
      + (* SBlock *) intros D V D' V' H. cbn [sfrag_check] in H. apply sf_block. exact (sfrag_check_sound_ss l D V D' V' H).
      + (* SStore *)
        intros D V D' V' H. cbn [sfrag_check] in H.
        destruct args as [|a [|v [|x0 r]]]; try discriminate H.
        match type of H with (if ?c then _ else _) = _ => destruct c eqn:Ec end; [|discriminate H].
        injection H as <- <-. apply andb3 in Ec. destruct Ec as [H [H0 Ec]]. apply okw_b_iff in H. apply pfrag_check_sound in H0, Ec.
        exact (sf_store rw IM D V sg w a v H H0 Ec).
      + (* SJump *)
        intros D V D' V' H. cbn [sfrag_check] in H. destruct (pfrag_check V e) eqn:Ec; [|discriminate H].
        injection H as <- <-. apply sf_jump. apply pfrag_check_sound. exact Ec.
      + (* SNop *) intros D V D' V' H. cbn [sfrag_check] in H. injection H as <- <-. apply sf_nop.
      + (* SCancel *) intros D V D' V' H. cbn [sfrag_check] in H. injection H as <- <-. apply sf_cancel.
    - intros l. destruct l as [|s t]; intros D V D' V' H; cbn [sfrags_check] in H.
      + injection H as <- <-. apply sfs_nil.
      + destruct (sfrag_check D V s) as [[D1 V1]|] eqn:Es; [|discriminate H].
        exact (sfs_cons rw IM D V s D1 V1 t D' V' (sfrag_check_sound_s s D V D1 V1 Es) (sfrag_check_sound_ss t D1 V1 D' V' H)).
  Qed.

  Theorem sfrag_check_sound : forall D V s D' V', sfrag_check D V s = Some (D', V') -> sfrag rw IM D V s D' V'.
  Proof. intros D V s D' V'. apply sfrag_check_sound_s. Qed.
  Theorem sfrags_check_sound : forall D V l D' V', sfrags_check D V l = Some (D', V') -> sfrags rw IM D V l D' V'.
  Proof. intros D V l D' V'. apply sfrag_check_sound_ss. Qed.
End Check.

(* completeness of the statement checkers *)
Theorem sfrag_check_complete_both rw IM :
  (forall D V s D' V', sfrag rw IM D V s D' V' -> sfrag_check rw IM D V s = Some (D', V')) /\
  (forall D V l D' V', sfrags rw IM D V l D' V' -> sfrags_check rw IM D V l = Some (D', V')).
Proof.
  apply sfrag_mutind.
  - intros D V cls letters acc e Hc Ha Hw He. cbn [sfrag_check].
    rewrite (proj2 (dest_cls_b_iff cls) Hc), (proj2 (regw_b_iff rw cls letters) (ex_intro _ acc (conj Ha Hw))),
      (pfrag_check_complete rw IM V e He). reflexivity.
  - intros D V name new e Hin Hw He. cbn [sfrag_check].
    rewrite (proj2 (alias_b_iff rw name new) (conj Hin Hw)), (pfrag_check_complete rw IM V e He). reflexivity.
  - intros D V name new e Hin Hw He. cbn [sfrag_check].
    rewrite (proj2 (expl_b_iff rw name new) (conj Hin Hw)), (pfrag_check_complete rw IM V e He). reflexivity.
  - intros D V l e Hl He. cbn [sfrag_check]. rewrite Hl, (pfrag_check_complete rw IM V e He). reflexivity.
  - intros D V x sg w e Hl Hw He. cbn [sfrag_check].
    rewrite (intvar_b_complete V x sg w Hl Hw), (pfrag_check_complete rw IM V e He). reflexivity.
  - (* first assignment *)
    intros D V x sg w e HlD HlV Hw He. cbn [sfrag_check].
    assert (Hiv : intvar_b V x = false) by (unfold intvar_b; rewrite HlV; reflexivity).
    rewrite Hiv, (proj2 (fresh_b_iff V x) HlV), (pfrag_check_complete rw IM V e He), HlD. cbn [andb ty_int vt_sg vt_w].
    fold (ty_int sg w). rewrite vtype_seqb_refl, (proj2 (okw_b_iff w) Hw). reflexivity.
  - (* implicit *)
    intros D V x e Hi HlD HlV Hr He. cbn [sfrag_check].
    assert (Hiv : intvar_b V x = false) by (unfold intvar_b; rewrite HlV; reflexivity).
    rewrite Hiv, (proj2 (fresh_b_iff V x) HlV), (pfrag_check_complete rw IM V e He), HlD,
      (proj2 (implicit_b_iff x) Hi), (proj2 (reserved_b_false IM x) Hr). reflexivity.
  - intros D V a x sg w e Ha Hl Hw He. cbn [sfrag_check].
    rewrite (intvar_b_complete V x sg w Hl Hw), (pfrag_check_complete rw IM V e He).
    destruct Ha as [-> | [-> | ->]]; reflexivity.
  - intros D V a x sg w e Ha Hl Hw He. cbn [sfrag_check].
    rewrite (intvar_b_complete V x sg w Hl Hw), (pfrag_check_complete rw IM V e He).
    destruct Ha as [-> | [-> | ->]]; reflexivity.
  - intros D V a cls letters acc e Ha Hc Hacc Hw He. cbn [sfrag_check].
    rewrite (proj2 (dest_cls_b_iff cls) Hc), (proj2 (regw_b_iff rw cls letters) (ex_intro _ acc (conj Hacc Hw))),
      (pfrag_check_complete rw IM V e He).
    destruct Ha as [-> | [-> | ->]]; reflexivity.
  - intros D V a cls letters acc e Ha Hc Hacc Hw He. cbn [sfrag_check].
    rewrite (proj2 (dest_cls_b_iff cls) Hc), (proj2 (regw_b_iff rw cls letters) (ex_intro _ acc (conj Hacc Hw))),
      (pfrag_check_complete rw IM V e He).
    destruct Ha as [-> | [-> | ->]]; reflexivity.
  - intros D V a x sg w e Ha Hl Hw He. cbn [sfrag_check].
    rewrite (intvar_b_complete V x sg w Hl Hw), (pfrag_check_complete rw IM V e He).
    destruct Ha as [-> | ->]; reflexivity.
  - intros D V a cls letters acc e Ha Hc Hacc Hw He. cbn [sfrag_check].
    rewrite (proj2 (dest_cls_b_iff cls) Hc), (proj2 (regw_b_iff rw cls letters) (ex_intro _ acc (conj Hacc Hw))),
      (pfrag_check_complete rw IM V e He).
    destruct Ha as [-> | ->]; reflexivity.
  - intros D V ts sg w x e Hd Hl Hr He. cbn [sfrag_check].
    rewrite (proj2 (decl_ty_of_iff ts sg w) Hd), (proj2 (fresh_b_iff D x) Hl), (proj2 (reserved_b_false IM x) Hr), (pfrag_check_complete rw IM V e He).
    reflexivity.
  - intros D V ts sg w x Hd Hl Hr. cbn [sfrag_check].
    rewrite (proj2 (decl_ty_of_iff ts sg w) Hd), (proj2 (fresh_b_iff D x) Hl), (proj2 (reserved_b_false IM x) Hr). reflexivity.
  - intros D V l Hl. cbn [sfrag_check]. rewrite Hl. reflexivity.
  - reflexivity.
  - reflexivity.
  - reflexivity.
  - intros D V a b Ha Hb. cbn [sfrag_check]. rewrite (carg_b_complete rw IM D V a Ha), (carg_b_complete rw IM D V b Hb). reflexivity.
  - intros D V sg w a v Hw Ha Hv. cbn [sfrag_check].
    rewrite (proj2 (okw_b_iff w) Hw), (pfrag_check_complete rw IM V a Ha), (pfrag_check_complete rw IM V v Hv). reflexivity.
  - intros D V e He. cbn [sfrag_check]. rewrite (pfrag_check_complete rw IM V e He). reflexivity.
  - intros D V l D' V' _ IH. exact IH.
  - intros D V c t Hc _ IHt. cbn [sfrag_check]. rewrite (pfrag_check_complete rw IM V c Hc), IHt, !venv_eqb_refl. reflexivity.
  - intros D V c t f V1 Hc _ IHt _ IHf. cbn [sfrag_check].
    rewrite (pfrag_check_complete rw IM V c Hc), IHt, IHf, !venv_eqb_refl. reflexivity.
  - intros D V e0 D1 V1 c inc i sg b _ IH0 Hc Hi _ IHb Hn.
    change (sfrag_check rw IM D V (SFor (SExpr e0) (SExpr c) (Some (EPost inc (EOp (OIdent i)))) b))
      with (match sfrag_check rw IM D V (SExpr e0) with
            | Some (D1, V1) =>
                if (pfrag_check rw IM V1 c && int32var_b V1 i && noloop b)%bool then
                  match sfrag_check rw IM D1 V1 b with
                  | Some (D2, V2) => if (venv_eqb D2 D1 && venv_eqb V2 V1)%bool then Some (D1, V1) else None
                  | None => None
                  end
                else None
            | None => None
            end).
    rewrite IH0, (pfrag_check_complete rw IM V1 c Hc), (int32var_b_complete V1 i sg Hi), Hn, IHb, !venv_eqb_refl. reflexivity.
  - reflexivity.
  - intros D V s D1 V1 l D2 V2 _ IHs _ IHl.
    change (sfrags_check rw IM D V (SCons s l))
      with (match sfrag_check rw IM D V s with Some (D0, V0) => sfrags_check rw IM D0 V0 l | None => None end).
    rewrite IHs. exact IHl.
Qed.
Theorem sfrag_check_complete rw IM D V s D' V' : sfrag rw IM D V s D' V' -> sfrag_check rw IM D V s = Some (D', V').
Proof. apply (proj1 (sfrag_check_complete_both rw IM)). Qed.
Theorem sfrags_check_complete rw IM D V l D' V' : sfrags rw IM D V l D' V' -> sfrags_check rw IM D V l = Some (D', V').
Proof. apply (proj2 (sfrag_check_complete_both rw IM)). Qed.

Print Assumptions pfrag_check_sound.
Print Assumptions sfrag_check_sound.
Print Assumptions sfrags_check_sound.
Print Assumptions sfrags_check_complete.

(* ================================================================== 5. strict structural equality on translation results *)
(* RzIL.pure_eqb identifies PBv s w v and PBv s w v' when v and v' agree modulo 2^w: it is an equivalence
   coarser than Leibniz equality.  The comparisons below are strict. *)
Lemma regop_eqb_sound a b : regop_eqb a b = true -> a = b.
Proof.
  destruct a, b; cbn [regop_eqb]; try discriminate; intros H.
  - apply andb3 in H. destruct H as [H1 [H2 H3]]. apply String.eqb_eq in H1, H2. apply eqb_prop in H3. subst. reflexivity.
  - apply andb3 in H. destruct H as [H1 [H2 H3]]. apply Z.eqb_eq in H1. apply String.eqb_eq in H2. apply eqb_prop in H3.
    subst. reflexivity.
  - apply andb2 in H. destruct H as [H1 H2]. apply String.eqb_eq in H1. apply eqb_prop in H2. subst. reflexivity.
  - apply String.eqb_eq in H. subst. reflexivity.
  - apply String.eqb_eq in H. subst. reflexivity.
Qed.

Lemma unop_eqb_sound a b : unop_eqb a b = true -> a = b.
Proof. destruct a, b; cbn [unop_eqb]; try discriminate; reflexivity. Qed.
Lemma binop_tag_inj a b : N.eqb (binop_tag a) (binop_tag b) = true -> a = b.
Proof. destruct a, b; cbn [binop_tag]; intros H; try reflexivity; discriminate H. Qed.
Lemma cmpop_tag_inj a b : N.eqb (cmpop_tag a) (cmpop_tag b) = true -> a = b.
Proof. destruct a, b; cbn [cmpop_tag]; intros H; try reflexivity; discriminate H. Qed.

Fixpoint pure_seqb (a b : pure) {struct a} : bool :=
  match a, b with
  | PBv s w v, PBv s' w' v' => Bool.eqb s s' && N.eqb w w' && Z.eqb v v'
  | PBool x, PBool y => Bool.eqb x y
  | PVarL x, PVarL y => String.eqb x y
  | PVarLP x, PVarLP y => String.eqb x y
  | PLet x e c, PLet x' e' c' => String.eqb x x' && pure_seqb e e' && pure_seqb c c'
  | PReg r n, PReg r' n' => regop_eqb r r' && Bool.eqb n n'
  | PImm l s w, PImm l' s' w' => String.eqb l l' && Bool.eqb s s' && N.eqb w w'
  | PPktAddr, PPktAddr => true
  | PParam x, PParam y => String.eqb x y
  | PUn o x, PUn o' x' => unop_eqb o o' && pure_seqb x x'
  | PBin o x y, PBin o' x' y' => N.eqb (binop_tag o) (binop_tag o') && pure_seqb x x' && pure_seqb y y'
  | PCmp o x y, PCmp o' x' y' => N.eqb (cmpop_tag o) (cmpop_tag o') && pure_seqb x x' && pure_seqb y y'
  | PCast w f x, PCast w' f' x' => N.eqb w w' && pure_seqb f f' && pure_seqb x x'
  | PMsb x, PMsb x' => pure_seqb x x'
  | PNonZero x, PNonZero x' => pure_seqb x x'
  | PInv x, PInv x' => pure_seqb x x'
  | PAnd x y, PAnd x' y' => pure_seqb x x' && pure_seqb y y'
  | POr x y, POr x' y' => pure_seqb x x' && pure_seqb y y'
  | PIte c x y, PIte c' x' y' => pure_seqb c c' && pure_seqb x x' && pure_seqb y y'
  | PLoad w x, PLoad w' x' => N.eqb w w' && pure_seqb x x'
  | PSignExt s w x, PSignExt s' w' x' => Bool.eqb s s' && N.eqb w w' && pure_seqb x x'
  | PIncDec i x w, PIncDec i' x' w' => Bool.eqb i i' && N.eqb w w' && pure_seqb x x'
  | PApp h l, PApp h' l' =>
      String.eqb h h' &&
      (fix go (l l' : list pure) : bool :=
         match l, l' with [] , [] => true | x :: t, x' :: t' => pure_seqb x x' && go t t' | _, _ => false end) l l'
  | PRaw s, PRaw s' => String.eqb s s'
  | _, _ => false
  end.

Ltac eqb_all :=
  repeat match goal with
         | H : (_ && _)%bool = true |- _ => apply andb2 in H; let H1 := fresh H in destruct H as [H H1]
         | H : String.eqb _ _ = true |- _ => apply String.eqb_eq in H
         | H : Bool.eqb _ _ = true |- _ => apply eqb_prop in H
         | H : N.eqb (binop_tag _) (binop_tag _) = true |- _ => apply binop_tag_inj in H
         | H : N.eqb (cmpop_tag _) (cmpop_tag _) = true |- _ => apply cmpop_tag_inj in H
         | H : N.eqb _ _ = true |- _ => apply N.eqb_eq in H
         | H : Nat.eqb _ _ = true |- _ => apply Nat.eqb_eq in H
         | H : Z.eqb _ _ = true |- _ => apply Z.eqb_eq in H
         | H : regop_eqb _ _ = true |- _ => apply regop_eqb_sound in H
         | H : unop_eqb _ _ = true |- _ => apply unop_eqb_sound in H
         end.

Lemma pure_seqb_sound : forall a b, pure_seqb a b = true -> a = b.
Proof.
  fix IH 1. intros a b. destruct a; destruct b; cbn [pure_seqb]; try discriminate; intros H; eqb_all;
    repeat match goal with
           | H : pure_seqb _ _ = true |- _ => apply IH in H
           end; try (subst; reflexivity).
  (* PApp *)
  subst head0. f_equal. revert args0 H0.
  induction args as [|x t IHt]; intros [|x' t'] H0; try discriminate H0; [reflexivity|].
  apply andb2 in H0. destruct H0 as [Hx Ht]. apply IH in Hx. rewrite Hx, (IHt t' Ht). reflexivity.
Qed.

Definition arg_seqb (a b : arg) : bool :=
  match a, b with
  | APure p, APure q => pure_seqb p q
  | AOp r, AOp r' => regop_eqb r r'
  | ARaw s, ARaw s' => String.eqb s s'
  | _, _ => false
  end.
Lemma arg_seqb_sound a b : arg_seqb a b = true -> a = b.
Proof.
  destruct a, b; cbn [arg_seqb]; try discriminate; intros H.
  - apply pure_seqb_sound in H. subst. reflexivity.
  - apply regop_eqb_sound in H. subst. reflexivity.
  - apply String.eqb_eq in H. subst. reflexivity.
Qed.
Fixpoint args_seqb (l l' : list arg) : bool :=
  match l, l' with [], [] => true | x :: t, x' :: t' => arg_seqb x x' && args_seqb t t' | _, _ => false end.
Lemma args_seqb_sound l : forall l', args_seqb l l' = true -> l = l'.
Proof.
  induction l as [|x t IHt]; intros [|x' t'] H; cbn [args_seqb] in H; try discriminate H; [reflexivity|].
  apply andb2 in H. destruct H as [Hx Ht]. apply arg_seqb_sound in Hx. rewrite Hx, (IHt t' Ht). reflexivity.
Qed.

Fixpoint effect_seqb (a b : effect) : bool :=
  match a, b with
  | ESetL x p, ESetL x' p' => String.eqb x x' && pure_seqb p p'
  | EWriteReg r p, EWriteReg r' p' => regop_eqb r r' && pure_seqb p p'
  | EStore x y, EStore x' y' => pure_seqb x x' && pure_seqb y y'
  | ESeq x y, ESeq x' y' => effect_seqb x x' && effect_seqb y y'
  | EBranch c x y, EBranch c' x' y' => pure_seqb c c' && effect_seqb x x' && effect_seqb y y'
  | ERepeat c x, ERepeat c' x' => pure_seqb c c' && effect_seqb x x'
  | ENop, ENop => true
  | EEmpty, EEmpty => true
  | RzIL.ECall f l, RzIL.ECall f' l' => String.eqb f f' && args_seqb l l'
  | EPlugin f l, EPlugin f' l' => String.eqb f f' && args_seqb l l'
  | _, _ => false
  end.
Lemma effect_seqb_sound : forall a b, effect_seqb a b = true -> a = b.
Proof.
  induction a as [x p | r p | x y | x IHx y IHy | c x IHx y IHy | c x IHx | | | f l | f l]; intros b; destruct b;
    cbn [effect_seqb]; try discriminate; intros H; eqb_all;
    repeat match goal with
           | H : pure_seqb _ _ = true |- _ => apply pure_seqb_sound in H
           | H : args_seqb _ _ = true |- _ => apply args_seqb_sound in H
           end;
    repeat match goal with
           | IH : forall b, effect_seqb ?x b = true -> ?x = b, H : effect_seqb ?x _ = true |- _ => apply IH in H
           end;
    subst; reflexivity.
Qed.

Fixpoint strs_eqb (a b : list string) : bool :=
  match a, b with [], [] => true | x :: t, y :: u => String.eqb x y && strs_eqb t u | _, _ => false end.
Lemma strs_eqb_sound a : forall b, strs_eqb a b = true -> a = b.
Proof.
  induction a as [|x t IHt]; intros [|y u] H; cbn [strs_eqb] in H; try discriminate H; [reflexivity|].
  apply andb2 in H. destruct H as [Hx Ht]. apply String.eqb_eq in Hx. rewrite Hx, (IHt u Ht). reflexivity.
Qed.

Definition tinfo_eqb (a b : tinfo) : bool :=
  effect_seqb (ti_eff a) (ti_eff b) && N.eqb (ti_hcount a) (ti_hcount b) && Nat.eqb (ti_leftover a) (ti_leftover b) &&
  Bool.eqb (ti_dropped a) (ti_dropped b) && strs_eqb (ti_removed a) (ti_removed b).
Definition tinfo_res_eqb (a b : res tinfo) : bool :=
  match a, b with
  | OK x, OK y => tinfo_eqb x y
  | Err m, Err m' => String.eqb m m'
  | _, _ => false
  end.
Lemma tinfo_res_eqb_sound a b : tinfo_res_eqb a b = true -> a = b.
Proof.
  destruct a as [[e1 h1 l1 d1 r1]|m1], b as [[e2 h2 l2 d2 r2]|m2]; cbn [tinfo_res_eqb]; try discriminate.
  - unfold tinfo_eqb. cbn [ti_eff ti_hcount ti_leftover ti_dropped ti_removed]. intros H.
    apply andb4 in H. destruct H as [H [Hl [Hd Hr]]]. apply andb2 in H. destruct H as [He Hh].
    apply effect_seqb_sound in He. apply N.eqb_eq in Hh. apply Nat.eqb_eq in Hl. apply eqb_prop in Hd.
    apply strs_eqb_sound in Hr. subst. reflexivity.
  - intros H. apply String.eqb_eq in H. subst. reflexivity.
Qed.

(* ================================================================== 5. the packaged corollary *)
(* the configuration of the theorem: every repair on, the routine has no parameters; sub-routine and macro
   tables, return type and the hybrid counter as in the real configuration *)
Definition no_params (c : config) : config :=
  mkcfg (cfg_fx c) (cfg_subs c) (cfg_macros c) [] (cfg_ret c) (cfg_hstart c).
Definition cfg_thm (h : N) : config := no_params (with_fx all_fixes (cfg_insn h)).

Lemma cfg_thm_fx h : cfg_fx (cfg_thm h) = all_fixes. Proof. reflexivity. Qed.
(* the real macro table gives QEMU's bit-field macros the signatures the theorems assume *)
Lemma macs_std_macs0 : macs_std macs0.
Proof. intros sg H. cbn [std_macs In] in H. repeat (destruct H as [<- | H]; [vm_compute; reflexivity|]). contradiction. Qed.
Lemma cfg_insn_macs h : macs_std (cfg_macros (cfg_insn h)). Proof. exact macs_std_macs0. Qed.
Lemma cfg_thm_macs h : macs_std (cfg_macros (cfg_thm h)). Proof. exact macs_std_macs0. Qed.
(* STORE_SLOT_CANCELLED is not one of the compiled sub-routines, and the C sub-routine table of the harness has no body for it *)
(* neither sub-routine table knows the names STORE_SLOT_CANCELLED / sizeof *)
Lemma subs_ext_subs0 : subs_ext Resources.subs0.
Proof. intros f H. cbn [ext_calls In] in H. repeat (destruct H as [<- | H]; [reflexivity|]). contradiction. Qed.
Lemma cfg_thm_ssc h : subs_ext (cfg_subs (cfg_thm h)). Proof. exact subs_ext_subs0. Qed.
Lemma cfg_insn_ssc h : subs_ext (cfg_subs (cfg_insn h)). Proof. exact subs_ext_subs0. Qed.
Lemma csub_table_ext : csub_ext csub_table.
Proof. intros f H. cbn [ext_calls In] in H. repeat (destruct H as [<- | H]; [reflexivity|]). contradiction. Qed.
Lemma cfg_thm_params h : cfg_params (cfg_thm h) = []. Proof. reflexivity. Qed.
Lemma cfg_thm_hstart h : cfg_hstart (cfg_thm h) = h. Proof. reflexivity. Qed.
(* the real configuration does have parameters *)
Lemma cfg_insn_params h : map fst (cfg_params (cfg_insn h)) = ["pkt"; "hi"; "bundle"]. Proof. reflexivity. Qed.

Definition covered (h : N) (prog : cstmts) : bool :=
  im_ok_b prog &&
  (match sfrags_check (rw_of_prog prog) (IM_of prog) [] [] prog with Some _ => true | None => false end) &&
  tinfo_res_eqb (tlower_info (cfg_insn h) prog) (tlower_info (cfg_thm h) prog).

(* D' = the locals the behaviour declares, V' = those of them it has given a value *)
Theorem covered_correct : forall h prog, covered h prog = true ->
  exists eff h' D' V', tlower_info (cfg_insn h) prog = OK (mkti eff h' 0 false []) /\ (h <= h')%N /\
    forall ilsubs E csub xi cs ms fuel cs', csub_ext csub -> xi_ok xi ->
      srel (IM_of prog) E [] [] cs ms -> imm_fresh (IM_of prog) cs -> cexecs E csub xi fuel cs prog = Some cs' ->
      exists ms', runs (rw_of_prog prog) ilsubs eff ms ms' /\ srel (IM_of prog) E D' V' cs' ms'.
Proof.
  intros h prog H. unfold covered in H. apply andb3 in H. destruct H as [Him [Hfrag Heq]].
  apply im_ok_b_iff in Him. apply tinfo_res_eqb_sound in Heq.
  destruct (sfrags_check (rw_of_prog prog) (IM_of prog) [] [] prog) as [[D' V']|] eqn:Ec; [|discriminate Hfrag].
  apply sfrags_check_sound in Ec.
  destruct (tlower_info (cfg_thm h) prog) as [[eff hc lo dr rm]|msg] eqn:Ei.
  - exists eff, hc, D', V'.
    assert (Hshape : (h <= hc)%N /\ lo = 0%nat /\ dr = false /\ rm = []).
    { destruct (tlower_correct (cfg_thm h) (rw_of_prog prog) (IM_of prog) (fun _ => None) Example.env Example.nosubs Example.noxi
                  prog D' V' (cfg_thm_fx h) (cfg_thm_params h) (cfg_thm_macs h) (cfg_thm_ssc h) csub_ext_none xi_ok_std Him Ec) as [eff0 [h0 [Hi0 [_ [Hle _]]]]].
      rewrite Ei in Hi0. rewrite cfg_thm_hstart in Hle. injection Hi0 as _ -> -> -> ->. auto. }
    destruct Hshape as [Hle [-> [-> ->]]].
    split; [exact Heq|]. split; [exact Hle|].
    intros ilsubs E csub xi cs ms fuel cs' Hcs Hxi Hrel Hfr Hce.
    destruct (tlower_correct (cfg_thm h) (rw_of_prog prog) (IM_of prog) ilsubs E csub xi prog D' V'
                (cfg_thm_fx h) (cfg_thm_params h) (cfg_thm_macs h) (cfg_thm_ssc h) Hcs Hxi Him Ec) as [eff0 [h0 [Hi0 [_ [_ Hsim]]]]].
    rewrite Ei in Hi0. injection Hi0 as <- _.
    exact (Hsim cs ms fuel cs' Hrel Hfr Hce).
  - exfalso.
    destruct (tlower_correct (cfg_thm h) (rw_of_prog prog) (IM_of prog) (fun _ => None) Example.env Example.nosubs Example.noxi
                prog D' V' (cfg_thm_fx h) (cfg_thm_params h) (cfg_thm_macs h) (cfg_thm_ssc h) csub_ext_none xi_ok_std Him Ec) as [eff0 [h0 [Hi0 _]]].
    rewrite Ei in Hi0. discriminate Hi0.
Qed.
Print Assumptions covered_correct.

(* an instruction with several behaviour parts (the 72 two-part definitions of the corpus): every part is compiled on its own, the
   temporary counter runs on from part to part; [covered_parts] chains the counter as the compiler does *)
Fixpoint covered_parts (h : N) (ps : list cstmts) : list bool :=
  match ps with
  | [] => []
  | p :: t => covered h p :: covered_parts (match tlower_info (cfg_insn h) p with OK i => ti_hcount i | Err _ => h end) t
  end.
Fixpoint part_counters (h : N) (ps : list cstmts) : list N :=
  match ps with
  | [] => []
  | p :: t => h :: part_counters (match tlower_info (cfg_insn h) p with OK i => ti_hcount i | Err _ => h end) t
  end.
Lemma covered_parts_spec h ps : covered_parts h ps = map (fun hp => covered (fst hp) (snd hp)) (combine (part_counters h ps) ps).
Proof. revert h. induction ps as [|p t IH]; intros h; [reflexivity|]. cbn [covered_parts part_counters combine map fst snd]. rewrite IH. reflexivity. Qed.
(* every part reported covered satisfies the premise of [covered_correct] at the counter the compiler has when it reaches the part *)
Theorem covered_parts_correct h ps k p hk : nth_error ps k = Some p -> nth_error (part_counters h ps) k = Some hk ->
  nth_error (covered_parts h ps) k = Some true -> covered hk p = true.
Proof.
  revert h k. induction ps as [|q t IH]; intros h k Hp Hh Hc; [destruct k; discriminate Hp|].
  destruct k as [|k]; cbn [nth_error covered_parts part_counters] in *.
  - injection Hp as ->. injection Hh as <-. injection Hc as ->. reflexivity.
  - exact (IH _ k Hp Hh Hc).
Qed.
Print Assumptions covered_parts_correct.

(* ================================================================== 6. examples *)
Module CheckExamples.
  Definition reg (cls letters : string) := EOp (OReg cls letters).
  Definition imm (l : string) := EOp (OImm l).
  Definition num (v : Z) := EOp (ONum v false "").
  Definition var (x : string) := EOp (OIdent x).
  Definition asg (a b : cexpr) := SExpr (EAssign AAssign a b).
  Definition one (s : cstmt) : cstmts := SCons s SNil.

  (* { RdV = RsV + RtV; } *)
  Definition p_add := one (asg (reg "R" "d") (EBin Ast.BAdd (reg "R" "s") (reg "R" "t"))).
  (* { RdV = RsV + siV; } *)
  Definition p_addi := one (asg (reg "R" "d") (EBin Ast.BAdd (reg "R" "s") (imm "s"))).
  (* { if (PuV) { RdV = RsV; } else { RdV = RtV; } } *)
  Definition p_mux :=
    one (SIf (reg "P" "u") (SBlock (one (asg (reg "R" "d") (reg "R" "s")))) (Some (SBlock (one (asg (reg "R" "d") (reg "R" "t")))))).
  (* { RddV = RssV; } *)
  Definition p_pair := one (asg (reg "R" "dd") (reg "R" "ss")).
  (* { RxV += RsV * RtV; } *)
  Definition p_mac := one (SExpr (EAssign AAdd (reg "R" "x") (EBin Ast.BMul (reg "R" "s") (reg "R" "t")))).
  (* { mem_store_u32(RsV + siV, RtV); } *)
  Definition p_store := one (SStore false 32 (ECons (EBin Ast.BAdd (reg "R" "s") (imm "s")) (ECons (reg "R" "t") ENil))).

  Example covered_positive : map (covered 0) [p_add; p_addi; p_mux; p_pair; p_mac; p_store] = [true; true; true; true; true; true].
  Proof. vm_compute. reflexivity. Qed.

  (* --- memory loads, QEMU's bit-field macros, cancel_slot --- *)
  Definition mac (m : string) (l : list cexpr) : cexpr := EMacro m (fold_right ECons ENil l).
  Definition load (ts : tyspec) (sg : bool) (w : N) (a : cexpr) : cexpr := ECast ts (ELoad sg w (ECons a ENil)).
  (* { RdV = sextract64(RssV, 0, 8); } *)
  Definition p_sxtb := one (asg (reg "R" "d") (mac "sextract64" [reg "R" "ss"; num 0; num 8])).
  (* { RdV = extract64(RssV, 8, 16); } *)
  Definition p_ext64 := one (asg (reg "R" "d") (mac "extract64" [reg "R" "ss"; num 8; num 16])).
  (* { RdV = extract32(RsV, uiV, 5); } *)
  Definition p_ext32 := one (asg (reg "R" "d") (mac "extract32" [reg "R" "s"; imm "u"; num 5])).
  (* { RxV = deposit32(RxV, 0, 16, RsV); } *)
  Definition p_dep32 := one (asg (reg "R" "x") (mac "deposit32" [reg "R" "x"; num 0; num 16; reg "R" "s"])).
  (* { RddV = deposit64(RssV, 32, 32, RttV); } *)
  Definition p_dep64 := one (asg (reg "R" "dd") (mac "deposit64" [reg "R" "ss"; num 32; num 32; reg "R" "tt"])).
  (* { RdV = bswap32(RsV); } *)
  Definition p_bswap := one (asg (reg "R" "d") (mac "bswap32" [reg "R" "s"])).
  (* { RdV = (size2s_t) mem_load_s16(RsV + siV); } *)
  Definition p_loadh := one (asg (reg "R" "d") (load [TS_sizeN 2 true] true 16 (EBin Ast.BAdd (reg "R" "s") (imm "s")))).
  (* { RddV = (size8u_t) mem_load_u64(RsV); } *)
  Definition p_loadd := one (asg (reg "R" "dd") (load [TS_sizeN 8 false] false 64 (reg "R" "s"))).
  (* { if (!PvV) { cancel_slot; } else { mem_store_u32(RsV, RtV); } } *)
  Definition p_pstore :=
    one (SIf (EUn ULNot (reg "P" "v")) (SBlock (one SCancel))
             (Some (SBlock (one (SStore false 32 (ECons (reg "R" "s") (ECons (reg "R" "t") ENil))))))).
  (* { if (PtV) { RdV = (size1u_t) mem_load_u8(RsV + uiV); } else { cancel_slot; } } *)
  Definition p_pload :=
    one (SIf (reg "P" "t") (SBlock (one (asg (reg "R" "d") (load [TS_sizeN 1 false] false 8 (EBin Ast.BAdd (reg "R" "s") (imm "u"))))))
             (Some (SBlock (one SCancel)))).
  (* L2_ploadrubt_io:  { EA = RsV + uiV; if (PtV & 1) { RdV = (size1u_t) mem_load_u8(EA); } else { cancel_slot; } }
     (EA is declared implicitly by its first assignment) *)
  Definition p_pload_ea :=
    SCons (asg (var "EA") (EBin Ast.BAdd (reg "R" "s") (imm "u")))
   (SCons (SIf (EBin Ast.BAnd (reg "P" "t") (num 1))
               (SBlock (one (asg (reg "R" "d") (load [TS_sizeN 1 false] false 8 (var "EA")))))
               (Some (SBlock (one SCancel)))) SNil).
  (* L2_loadri_pi:  { EA = RxV; RxV = RxV + siV; RdV = (size4u_t) mem_load_u32(EA); } *)
  Definition p_load_pi :=
    SCons (asg (var "EA") (reg "R" "x"))
   (SCons (asg (reg "R" "x") (EBin Ast.BAdd (reg "R" "x") (imm "s")))
   (SCons (asg (reg "R" "d") (load [TS_sizeN 4 false] false 32 (var "EA"))) SNil)).
  (* S2_storerh_io:  { EA = RsV + siV; mem_store_u16(EA, RtV); } *)
  Definition p_store_ea :=
    SCons (asg (var "EA") (EBin Ast.BAdd (reg "R" "s") (imm "s")))
   (SCons (SStore false 16 (ECons (var "EA") (ECons (reg "R" "t") ENil))) SNil).
  (* S2_pstorerbt_io:  { EA = RsV + uiV; if (PvV & 1) { mem_store_u8(EA, RtV); } else { STORE_SLOT_CANCELLED(pkt, slot); } }
     (the call statement; its arguments are passed on as text: the emitted effect is HEX_STORE_SLOT_CANCELLED(pkt, hi->slot)) *)
  Definition ssc (a b : string) : cstmt := SExpr (Ast.ECall "STORE_SLOT_CANCELLED" (ECons (var a) (ECons (var b) ENil))).
  Definition p_pstore_ea (a b : string) :=
    SCons (asg (var "EA") (EBin Ast.BAdd (reg "R" "s") (imm "u")))
   (SCons (SIf (EBin Ast.BAnd (reg "P" "v") (num 1))
               (SBlock (one (SStore false 8 (ECons (var "EA") (ECons (reg "R" "t") ENil)))))
               (Some (SBlock (one (ssc a b))))) SNil).
  Example covered_store_slot_cancelled : map (covered 0) [p_pstore_ea "pkt" "slot"; p_pstore_ea "thread" "slot"] = [true; true].
  Proof. vm_compute. reflexivity. Qed.
  Example p_pstore_ea_lowered :
    tlower (cfg_insn 0) (p_pstore_ea "pkt" "slot") =
    OK (ESeq (ESetL "u" (PImm "u" false 32))
       (ESeq (ESetL "EA" (PBin RzIL.BAdd (PCast 32 (PBool false) (PReg (RIsa "R" "s" false) false)) (PVarL "u")))
             (EBranch (PNonZero (PBin BLogAnd (PCast 32 (PMsb (PReg (RIsa "P" "v" false) false)) (PReg (RIsa "P" "v" false) false)) (PBv true 32 1)))
                      (EStore (PVarL "EA") (PCast 8 (PBool false) (PReg (RIsa "R" "t" false) false)))
                      (EPlugin "HEX_STORE_SLOT_CANCELLED" [ARaw "pkt"; ARaw "hi->slot"]))), 0%N).
  Proof. vm_compute. reflexivity. Qed.

  (* --- the program counter alias (read only) --- *)
  (* { RdV = HEX_REG_ALIAS_PC + uiV; }   { JUMP(HEX_REG_ALIAS_PC + 8); } *)
  Definition p_pc_rd := one (asg (reg "R" "d") (EBin Ast.BAdd (EOp (OAlias "PC" false)) (imm "u"))).
  Definition p_pc_jump := one (SJump (EBin Ast.BAdd (EOp (OAlias "PC" false)) (num 8))).
  Example covered_pc : map (covered 0) [p_pc_rd; p_pc_jump] = [true; true].
  Proof. vm_compute. reflexivity. Qed.
  Example p_pc_jump_lowered :
    tlower (cfg_insn 0) p_pc_jump =
    OK (ESeq (ESetL "jump_flag" (PBool true)) (ESetL "jump_target" (PBin RzIL.BAdd PPktAddr (PCast 32 (PBool false) (PBv true 32 8)))), 0%N).
  Proof. vm_compute. reflexivity. Qed.
  (* a write to the alias is outside the fragment: the emitted effect names an undeclared operand handle *)
  Definition p_pc_wr := one (asg (EOp (OAlias "PC" false)) (reg "R" "s")).
  Example pc_write_not_covered : covered 0 p_pc_wr = false /\
    tlower (cfg_insn 0) p_pc_wr = OK (EWriteReg (RParam "pc_op") (PCast 32 (PBool false) (PReg (RIsa "R" "s" false) false)), 0%N).
  Proof. split; vm_compute; reflexivity. Qed.

  (* --- an immediate is assigned --- *)
  (* J2_jump:  { riV = riV & ~3; JUMP(HEX_REG_ALIAS_PC + riV); }     (fIMMEXT; fPCALIGN; fJUMP(fREAD_PC() + riV)) *)
  Definition p_jump :=
    SCons (asg (imm "r") (EBin Ast.BAnd (imm "r") (EUn UNot (num 3))))
   (SCons (SJump (EBin Ast.BAdd (EOp (OAlias "PC" false)) (imm "r"))) SNil).
  Example covered_jump : covered 0 p_jump = true.
  Proof. vm_compute. reflexivity. Qed.
  Example p_jump_lowered :
    tlower (cfg_insn 0) p_jump =
    OK (ESeq (ESetL "r" (PImm "r" true 32))
       (ESeq (ESetL "r" (PBin BLogAnd (PVarL "r") (PBv true 32 (-4))))
       (ESeq (ESetL "jump_flag" (PBool true))
             (ESetL "jump_target" (PBin RzIL.BAdd PPktAddr (PCast 32 (PBool false) (PVarL "r")))))), 0%N).
  Proof. vm_compute. reflexivity. Qed.
  (* executed: riV = 0x1f6 (502), packet address 0x1000: the target is 0x1000 + 0x1f4 = 4596 *)
  Definition env_jump : cenv := mkce (fun _ => 0%Z) (fun _ => 0%Z) (fun l => if String.eqb l "r" then 502%Z else 0%Z) 4096%Z (fun _ => 0%Z).
  Example p_jump_simulated : forall ilsubs,
    exists eff cs' ms', tlower_info (cfg_insn 0) p_jump = OK (mkti eff 0 0 false []) /\
      cexecs env_jump Example.nosubs Example.noxi 30 cs0 p_jump = Some cs' /\ cs_jump cs' = Some 4596%Z /\
      runs (rw_of_prog p_jump) ilsubs eff (Example.ms_of env_jump) ms' /\
      lookup "jump_target" (locals ms') = Some (VBv 32 4596%Z).
  Proof.
    intros ilsubs.
    destruct (covered_correct 0 p_jump ltac:(vm_compute; reflexivity)) as [eff [h' [D' [V' [Hl [_ Hsim]]]]]].
    assert (Eh : h' = 0%N) by (pose proof Hl as Hl'; vm_compute in Hl'; injection Hl' as _ Eh; symmetry; exact Eh). subst h'.
    assert (Hc : exists cs', cexecs env_jump Example.nosubs Example.noxi 30 cs0 p_jump = Some cs' /\ cs_jump cs' = Some 4596%Z).
    { eexists. split; [vm_compute; reflexivity | reflexivity]. }
    destruct Hc as [cs' [Hc Hj]].
    destruct (Hsim ilsubs env_jump Example.nosubs Example.noxi cs0 (Example.ms_of env_jump) 30%nat cs' csub_ext_none xi_ok_std
                (Example.srel_init _ env_jump) (Example.fresh_init _) Hc) as [ms' [Hrun Hrel']].
    exists eff, cs', ms'. repeat (split; [assumption|]).
    destruct Hrel' as [_ [_ [_ [_ [_ [Hjr _]]]]]]. unfold jrel in Hjr. rewrite Hj in Hjr. apply Hjr.
  Qed.

  (* --- sizeof --- *)
  (* { RdV = RsV >> (sizeof(RsV) * 8 - 1); }   (the compiler folds sizeof(RsV) to the literal 4, typed int) *)
  Definition p_sizeof :=
    one (asg (reg "R" "d") (EBin Ast.BShr (reg "R" "s")
           (EBin Ast.BSub (EBin Ast.BMul (Ast.ECall "sizeof" (ECons (reg "R" "s") ENil)) (num 8)) (num 1)))).
  Example covered_sizeof : covered 0 p_sizeof = true.
  Proof. vm_compute. reflexivity. Qed.
  Example p_sizeof_lowered :
    tlower (cfg_insn 0) p_sizeof = OK (EWriteReg (RIsa "R" "d" false) (PBin BShra (PReg (RIsa "R" "s" false) false) (PBv true 32 31)), 0%N).
  Proof. vm_compute. reflexivity. Qed.
  (* CSem has no sizeof (it reads it as a call of a routine without body): for this behaviour the simulation theorem holds
     vacuously -- the C side prescribes nothing *)
  Example p_sizeof_no_c_value : cexecs Example.env Example.nosubs Example.noxi 50 cs0 p_sizeof = None.
  Proof. vm_compute. reflexivity. Qed.

  (* --- declarations without initialiser --- *)
  (* { size4s_t tmp; tmp = RsV + RtV; RdV = tmp; } *)
  Definition p_decl0 :=
    SCons (SDecl [TS_sizeN 4 true] "tmp" None)
   (SCons (asg (var "tmp") (EBin Ast.BAdd (reg "R" "s") (reg "R" "t"))) (SCons (asg (reg "R" "d") (var "tmp")) SNil)).
  (* { int x; if (PuV) { x = 1; } else { x = 2; } RdV = x; }    (both branches give x its first value) *)
  Definition p_decl0_if :=
    SCons (SDecl [TS_int] "x" None)
   (SCons (SIf (reg "P" "u") (SBlock (one (asg (var "x") (num 1)))) (Some (SBlock (one (asg (var "x") (num 2))))))
   (SCons (asg (reg "R" "d") (var "x")) SNil)).
  (* { int x; RdV = x; }   NOT covered: x is read before it has a value (C prescribes no result) *)
  Definition p_decl0_read := SCons (SDecl [TS_int] "x" None) (SCons (asg (reg "R" "d") (var "x")) SNil).
  (* { int x; if (PuV) { x = 1; } RdV = x; }   NOT covered: x has a value on one path only *)
  Definition p_decl0_half :=
    SCons (SDecl [TS_int] "x" None)
   (SCons (SIf (reg "P" "u") (SBlock (one (asg (var "x") (num 1)))) None) (SCons (asg (reg "R" "d") (var "x")) SNil)).
  Example covered_decl0 : map (covered 0) [p_decl0; p_decl0_if; p_decl0_read; p_decl0_half] = [true; true; false; false].
  Proof. vm_compute. reflexivity. Qed.
  Example p_decl0_envs :
    sfrags_check (rw_of_prog p_decl0_if) (IM_of p_decl0_if) [] [] p_decl0_if =
    Some ([("x", Some (ty_int true 32))], [("x", Some (ty_int true 32))]) /\
    sfrags_check (rw_of_prog p_decl0_read) (IM_of p_decl0_read) [] [] (SCons (SDecl [TS_int] "x" None) SNil) =
    Some ([("x", Some (ty_int true 32))], []).
  Proof. split; vm_compute; reflexivity. Qed.

  (* --- bitwise compound assignment --- *)
  (* M4_or_and:  { RxV |= (RsV & RtV); }      S2_asl_i_r_xacc-like:  { RxV ^= (RsV << uiV); } *)
  Definition p_oracc := one (SExpr (EAssign AOr (reg "R" "x") (EBin Ast.BAnd (reg "R" "s") (reg "R" "t")))).
  Definition p_xacc := one (SExpr (EAssign AXor (reg "R" "x") (EBin Ast.BShl (reg "R" "s") (imm "u")))).
  (* { uint8_t m = 15; m &= RsV; PdV = m; } *)
  Definition p_andvar :=
    SCons (SDecl [TS_intN false 8] "m" (Some (num 15))) (SCons (SExpr (EAssign AAnd (var "m") (reg "R" "s"))) (SCons (asg (reg "P" "d") (var "m")) SNil)).
  Example covered_bitwise_compound : map (covered 0) [p_oracc; p_xacc; p_andvar] = [true; true; true].
  Proof. vm_compute. reflexivity. Qed.

  (* --- compound shifts --- *)
  (* { RxV <<= uiV; }     { int32_t t = RsV; t >>= 3; RdV = t; }     { uint8_t m = 15; m <<= RsV; PdV = m; } *)
  Definition p_shlacc := one (SExpr (EAssign AShl (reg "R" "x") (imm "u"))).
  Definition p_shrvar :=
    SCons (SDecl [TS_intN true 32] "t" (Some (reg "R" "s"))) (SCons (SExpr (EAssign AShr (var "t") (num 3))) (SCons (asg (reg "R" "d") (var "t")) SNil)).
  Definition p_shl8 :=
    SCons (SDecl [TS_intN false 8] "m" (Some (num 15))) (SCons (SExpr (EAssign AShl (var "m") (reg "R" "s"))) (SCons (asg (reg "P" "d") (var "m")) SNil)).
  Example covered_compound_shifts : map (covered 0) [p_shlacc; p_shrvar; p_shl8] = [true; true; true].
  Proof. vm_compute. reflexivity. Qed.
  Example p_shrvar_lowered :
    tlower (cfg_insn 0) p_shrvar =
    OK (ESeq (ESetL "t" (PReg (RIsa "R" "s" false) false))
       (ESeq (ESetL "t" (PBin BShra (PVarL "t") (PBv true 32 3)))
             (EWriteReg (RIsa "R" "d" false) (PVarL "t"))), 0%N).
  Proof. vm_compute. reflexivity. Qed.

  (* --- explicitly named registers --- *)
  (* fWRITE_P0(RsV & 255):  { P0 = RsV & 255; }      fREAD_P0():  { RdV = P0; }      { RdV = P3_NEW + R31; } *)
  Definition expl (n : string) := EOp (OExplicit n false).
  Definition p_p0_wr := one (asg (expl "P0") (EBin Ast.BAnd (reg "R" "s") (num 255))).
  Definition p_p0_rd := one (asg (reg "R" "d") (expl "P0")).
  Definition p_p3new := one (asg (reg "R" "d") (EBin Ast.BAdd (EOp (OExplicit "P3" true)) (expl "R31"))).
  (* { P1 = RsV; RdV = P1; }   the register written is read back *)
  Definition p_p1_rw := SCons (asg (expl "P1") (reg "R" "s")) (SCons (asg (reg "R" "d") (expl "P1")) SNil).
  Example covered_explicit : map (covered 0) [p_p0_wr; p_p0_rd; p_p3new; p_p1_rw] = [true; true; true; true].
  Proof. vm_compute. reflexivity. Qed.
  Example p_p1_rw_lowered :
    tlower (cfg_insn 0) p_p1_rw =
    OK (ESeq (EWriteReg (RExpl 1 "HEX_REG_CLASS_PRED_REGS" false) (PCast 8 (PMsb (PReg (RIsa "R" "s" false) false)) (PReg (RIsa "R" "s" false) false)))
             (EWriteReg (RIsa "R" "d" false) (PCast 32 (PMsb (PReg (RExpl 1 "HEX_REG_CLASS_PRED_REGS" false) true))
                                                       (PReg (RExpl 1 "HEX_REG_CLASS_PRED_REGS" false) true))), 0%N).
  Proof. vm_compute. reflexivity. Qed.
  Definition env_expl : cenv :=
    mkce (fun r => if regop_eqb r (RIsa "R" "s" false) then 511%Z else 0%Z) (fun _ => 0%Z) (fun _ => 0%Z) 0%Z (fun _ => 0%Z).
  (* RsV = 511: P1 := 255 (8 bits), read back as the signed 8 bit value -1: RdV = 0xffffffff *)
  Example p_p1_rw_simulated : forall ilsubs,
    exists eff cs' ms', tlower_info (cfg_insn 0) p_p1_rw = OK (mkti eff 0 0 false []) /\
      cexecs env_expl Example.nosubs explicit_reg_info 30 cs0 p_p1_rw = Some cs' /\
      runs (rw_of_prog p_p1_rw) ilsubs eff (Example.ms_of env_expl) ms' /\
      rnew ms' = [(RIsa "R" "d" false, 4294967295%Z); (RExpl 1 "HEX_REG_CLASS_PRED_REGS" false, 255%Z)].
  Proof.
    intros ilsubs.
    destruct (covered_correct 0 p_p1_rw ltac:(vm_compute; reflexivity)) as [eff [h' [D' [V' [Hl [_ Hsim]]]]]].
    assert (Eh : h' = 0%N) by (pose proof Hl as Hl'; vm_compute in Hl'; injection Hl' as _ Eh; symmetry; exact Eh). subst h'.
    assert (Hc : exists cs', cexecs env_expl Example.nosubs explicit_reg_info 30 cs0 p_p1_rw = Some cs' /\
                             cs_regw cs' = [(RIsa "R" "d" false, 4294967295%Z); (RExpl 1 "HEX_REG_CLASS_PRED_REGS" false, 255%Z)]).
    { eexists. split; [vm_compute; reflexivity | reflexivity]. }
    destruct Hc as [cs' [Hc Hr]].
    destruct (Hsim ilsubs env_expl Example.nosubs explicit_reg_info cs0 (Example.ms_of env_expl) 30%nat cs' csub_ext_none xi_ok_std (Example.srel_init _ env_expl) (Example.fresh_init _) Hc)
      as [ms' [Hrun Hrel']].
    exists eff, cs', ms'. repeat (split; [assumption|]).
    destruct Hrel' as [[_ [Hregw _]] _]. congruence.
  Qed.
  (* not covered: registers outside ExprCorrect.expl_names (R0 ...), compound assignment to an explicit register *)
  Example explicit_not_covered :
    map (covered 0) [one (asg (reg "R" "d") (expl "R0")); one (SExpr (EAssign AOr (expl "P0") (reg "R" "s")))] = [false; false].
  Proof. vm_compute. reflexivity. Qed.

  (* --- register aliases --- *)
  Definition alias (n : string) := EOp (OAlias n false).
  (* { RdV = HEX_REG_ALIAS_GP + uiV; } *)
  Definition p_alias_rd := one (asg (reg "R" "d") (EBin Ast.BAdd (alias "GP") (imm "u"))).
  (* { HEX_REG_ALIAS_LC0 = RsV; HEX_REG_ALIAS_SA0 = RtV; } *)
  Definition p_alias_wr := SCons (asg (alias "LC0") (reg "R" "s")) (SCons (asg (alias "SA0") (reg "R" "t")) SNil).
  (* { ReV = HEX_REG_ALIAS_LR; HEX_REG_ALIAS_LR = HEX_REG_ALIAS_LR + 4; RdV = HEX_REG_ALIAS_LR; }
     (an alias the behaviour writes: EVERY read of it, also the one before the write, is emitted as a read of the new bank) *)
  Definition p_alias_rw :=
    SCons (asg (reg "R" "e") (alias "LR")) (SCons (asg (alias "LR") (EBin Ast.BAdd (alias "LR") (num 4))) (SCons (asg (reg "R" "d") (alias "LR")) SNil)).
  (* { RddV = HEX_REG_ALIAS_UPCYCLE; }   (a 64-bit alias) *)
  Definition p_alias_64 := one (asg (reg "R" "dd") (alias "UPCYCLE")).
  Example covered_aliases : map (covered 0) [p_alias_rd; p_alias_wr; p_alias_rw; p_alias_64] = [true; true; true; true].
  Proof. vm_compute. reflexivity. Qed.
  Example p_alias_rw_lowered :
    tlower (cfg_insn 0) p_alias_rw =
    OK (ESeq (EWriteReg (RIsa "R" "e" false) (PCast 32 (PBool false) (PReg (RAlias "HEX_REG_ALIAS_LR" false) true)))
       (ESeq (EWriteReg (RAlias "HEX_REG_ALIAS_LR" false)
                (PBin RzIL.BAdd (PReg (RAlias "HEX_REG_ALIAS_LR" false) true) (PCast 32 (PBool false) (PBv true 32 4))))
             (EWriteReg (RIsa "R" "d" false) (PCast 32 (PBool false) (PReg (RAlias "HEX_REG_ALIAS_LR" false) true)))), 0%N).
  Proof. vm_compute. reflexivity. Qed.
  Definition env_alias : cenv :=
    mkce (fun r => if regop_eqb r (alias_op "LR" false) then 100%Z else 0%Z) (fun _ => 0%Z) (fun _ => 0%Z) 0%Z (fun _ => 0%Z).
  Example p_alias_rw_simulated : forall ilsubs,
    exists eff cs' ms', tlower_info (cfg_insn 0) p_alias_rw = OK (mkti eff 0 0 false []) /\
      cexecs env_alias Example.nosubs Example.noxi 30 cs0 p_alias_rw = Some cs' /\
      runs (rw_of_prog p_alias_rw) ilsubs eff (Example.ms_of env_alias) ms' /\
      rnew ms' = [(RIsa "R" "d" false, 104%Z); (RAlias "HEX_REG_ALIAS_LR" false, 104%Z); (RIsa "R" "e" false, 100%Z)].
  Proof.
    intros ilsubs.
    destruct (covered_correct 0 p_alias_rw ltac:(vm_compute; reflexivity)) as [eff [h' [D' [V' [Hl [_ Hsim]]]]]].
    assert (Eh : h' = 0%N) by (pose proof Hl as Hl'; vm_compute in Hl'; injection Hl' as _ Eh; symmetry; exact Eh). subst h'.
    assert (Hc : exists cs', cexecs env_alias Example.nosubs Example.noxi 30 cs0 p_alias_rw = Some cs' /\
                             cs_regw cs' = [(RIsa "R" "d" false, 104%Z); (RAlias "HEX_REG_ALIAS_LR" false, 104%Z); (RIsa "R" "e" false, 100%Z)]).
    { eexists. split; [vm_compute; reflexivity | reflexivity]. }
    destruct Hc as [cs' [Hc Hr]].
    destruct (Hsim ilsubs env_alias Example.nosubs Example.noxi cs0 (Example.ms_of env_alias) 30%nat cs' csub_ext_none xi_ok_std (Example.srel_init _ env_alias) (Example.fresh_init _) Hc)
      as [ms' [Hrun Hrel']].
    exists eff, cs', ms'. repeat (split; [assumption|]).
    destruct Hrel' as [[_ [Hregw _]] _]. congruence.
  Qed.

  Example covered_implicit_EA : map (covered 0) [p_pload_ea; p_load_pi; p_store_ea] = [true; true; true].
  Proof. vm_compute. reflexivity. Qed.
  Example p_pload_ea_lowered :
    tlower (cfg_insn 0) p_pload_ea =
    OK (ESeq (ESetL "u" (PImm "u" false 32))
       (ESeq (ESetL "EA" (PBin RzIL.BAdd (PCast 32 (PBool false) (PReg (RIsa "R" "s" false) false)) (PVarL "u")))
             (EBranch (PNonZero (PBin BLogAnd (PCast 32 (PMsb (PReg (RIsa "P" "t" false) false)) (PReg (RIsa "P" "t" false) false)) (PBv true 32 1)))
                      (EWriteReg (RIsa "R" "d" false)
                         (PCast 32 (PBool false) (PCast 8 (PBool false) (PLoad 8 (PVarL "EA")))))
                      ENop)), 0%N).
  Proof. vm_compute. reflexivity. Qed.
  (* one vm_compute gives the simulation theorem for the predicated load, for the real configuration *)
  Example p_pload_ea_simulated :
    exists eff D' V', tlower_info (cfg_insn 0) p_pload_ea = OK (mkti eff 0 0 false []) /\
      forall ilsubs E csub xi cs ms fuel cs', csub_ext csub -> xi_ok xi -> srel (IM_of p_pload_ea) E [] [] cs ms -> imm_fresh (IM_of p_pload_ea) cs -> cexecs E csub xi fuel cs p_pload_ea = Some cs' ->
        exists ms', runs (rw_of_prog p_pload_ea) ilsubs eff ms ms' /\ srel (IM_of p_pload_ea) E D' V' cs' ms'.
  Proof.
    destruct (covered_correct 0 p_pload_ea ltac:(vm_compute; reflexivity)) as [eff [h' [D' [V' [Hl [_ Hsim]]]]]].
    assert (Eh : h' = 0%N) by (pose proof Hl as Hl'; vm_compute in Hl'; injection Hl' as _ Eh; symmetry; exact Eh). subst h'.
    exists eff, D', V'. split; assumption.
  Qed.

  (* the theorem is not vacuous for these constructs: a behaviour with a load, a macro and an (untaken) cancel_slot, EXECUTED.
        EA = RsV + 4;  RdV = (size2s_t) mem_load_s16(EA);  RxV = extract32(RdV, 4, 8);  if (RsV == 0) { cancel_slot; }
     with RsV = 1000 and the bytes 0x34 0xF2 at 1004: the halfword 0xF234 is sign-extended, RdV = 0xFFFFF234, RxV = 0x23 *)
  Definition p_run :=
    SCons (asg (var "EA") (EBin Ast.BAdd (reg "R" "s") (num 4)))
   (SCons (asg (reg "R" "d") (load [TS_sizeN 2 true] true 16 (var "EA")))
   (SCons (asg (reg "R" "x") (mac "extract32" [reg "R" "d"; num 4; num 8]))
   (SCons (SIf (EBin Ast.BEq (reg "R" "s") (num 0)) (SBlock (one SCancel)) None) SNil))).
  Definition env_run : cenv :=
    mkce (fun r => if regop_eqb r (RIsa "R" "s" false) then 1000%Z else 0%Z) (fun _ => 0%Z) (fun _ => 0%Z) 0%Z
         (fun a => if Z.eqb a 1004 then 52%Z else if Z.eqb a 1005 then 242%Z else 0%Z).
  Example p_run_simulated : forall ilsubs,
    exists eff cs' ms', tlower_info (cfg_insn 0) p_run = OK (mkti eff 0 0 false []) /\
      cexecs env_run Example.nosubs Example.noxi 30 cs0 p_run = Some cs' /\
      runs (rw_of_prog p_run) ilsubs eff (Example.ms_of env_run) ms' /\
      rnew ms' = [(RIsa "R" "x" false, 35%Z); (RIsa "R" "d" false, 4294963764%Z)].
  Proof.
    intros ilsubs.
    destruct (covered_correct 0 p_run ltac:(vm_compute; reflexivity)) as [eff [h' [D' [V' [Hl [_ Hsim]]]]]].
    assert (Eh : h' = 0%N) by (pose proof Hl as Hl'; vm_compute in Hl'; injection Hl' as _ Eh; symmetry; exact Eh). subst h'.
    assert (Hc : exists cs', cexecs env_run Example.nosubs Example.noxi 30 cs0 p_run = Some cs' /\
                             cs_regw cs' = [(RIsa "R" "x" false, 35%Z); (RIsa "R" "d" false, 4294963764%Z)]).
    { eexists. split; [vm_compute; reflexivity | reflexivity]. }
    destruct Hc as [cs' [Hc Hr]].
    destruct (Hsim ilsubs env_run Example.nosubs Example.noxi cs0 (Example.ms_of env_run) 30%nat cs' csub_ext_none xi_ok_std (Example.srel_init _ env_run) (Example.fresh_init _) Hc)
      as [ms' [Hrun Hrel']].
    exists eff, cs', ms'. repeat (split; [assumption|]).
    destruct Hrel' as [[_ [Hregw _]] _]. congruence.
  Qed.

  Example covered_loads_macros_cancel :
    map (covered 0) [p_sxtb; p_ext64; p_ext32; p_dep32; p_dep64; p_bswap; p_loadh; p_loadd; p_pstore; p_pload]
    = [true; true; true; true; true; true; true; true; true; true].
  Proof. vm_compute. reflexivity. Qed.
  Example p_sxtb_lowered :
    tlower (cfg_insn 0) p_sxtb =
    OK (EWriteReg (RIsa "R" "d" false)
          (PCast 32 (PMsb (PApp "SEXTRACT64" [PCast 64 (PBool false) (PReg (RIsa "R" "s" false) false); PBv true 32 0; PBv true 32 8]))
             (PApp "SEXTRACT64" [PCast 64 (PBool false) (PReg (RIsa "R" "s" false) false); PBv true 32 0; PBv true 32 8])), 0%N).
  Proof. vm_compute. reflexivity. Qed.
  (* { RdV = sextract64(RsV, 0, 8); }  (QEMU's fSXTN(8,64,RsV)): IN the fragment, but NOT covered: the 32-bit SIGNED operand is passed to
     the macro's uint64_t parameter; the real configuration (repair D3 off) zero-extends it (fill bit IL_FALSE), the
     configuration of the theorem sign-extends it (MSB), as C does.  The two translations differ, so the behaviour is reported
     as not covered (for start + len <= 32 the extracted field does not depend on the fill, but `covered` compares terms). *)
  Definition p_sxtb32 := one (asg (reg "R" "d") (mac "sextract64" [reg "R" "s"; num 0; num 8])).
  (* (before the fix: commit for D3 the real configuration zero-extended the signed 32 bit argument and this behaviour was not covered) *)
  Example sxtb32_covered :
    covered 0 p_sxtb32 = true /\
    tlower (cfg_insn 0) p_sxtb32 =
      OK (EWriteReg (RIsa "R" "d" false)
            (PCast 32 (PMsb (PApp "SEXTRACT64" [PCast 64 (PMsb (PReg (RIsa "R" "s" false) false)) (PReg (RIsa "R" "s" false) false); PBv true 32 0; PBv true 32 8]))
               (PApp "SEXTRACT64" [PCast 64 (PMsb (PReg (RIsa "R" "s" false) false)) (PReg (RIsa "R" "s" false) false); PBv true 32 0; PBv true 32 8])), 0%N).
  Proof. repeat split; vm_compute; reflexivity. Qed.
  Example p_loadh_lowered :
    tlower (cfg_insn 0) p_loadh =
    OK (ESeq (ESetL "s" (PImm "s" true 32))
             (EWriteReg (RIsa "R" "d" false)
                (PCast 32 (PMsb (PCast 16 (PMsb (PLoad 16 (PBin RzIL.BAdd (PReg (RIsa "R" "s" false) false) (PVarL "s"))))
                                          (PLoad 16 (PBin RzIL.BAdd (PReg (RIsa "R" "s" false) false) (PVarL "s")))))
                          (PCast 16 (PMsb (PLoad 16 (PBin RzIL.BAdd (PReg (RIsa "R" "s" false) false) (PVarL "s"))))
                                    (PLoad 16 (PBin RzIL.BAdd (PReg (RIsa "R" "s" false) false) (PVarL "s")))))), 0%N).
  Proof. vm_compute. reflexivity. Qed.

  (* the width environment computed for the programs: the handle 's' is 32 bit where RsV is used, 64 bit where RssV is *)
  Example rw_single : rw_of_prog p_add (RIsa "R" "s" false) = 32%N /\ rw_of_prog p_mux (RIsa "P" "u" false) = 8%N.
  Proof. split; reflexivity. Qed.
  Example rw_pair : rw_of_prog p_pair (RIsa "R" "s" false) = 64%N /\ rw_of_prog p_pair (RIsa "R" "d" false) = 64%N /\
                    rw_of_prog p_pair (RIsa "R" "t" false) = 32%N.
  Proof. repeat split; reflexivity. Qed.
  Example im_addi : IM_of p_addi "s" = true /\ IM_of p_addi "u" = false /\ imms_of p_add = [].
  Proof. repeat split; reflexivity. Qed.

  (* one vm_compute gives the simulation theorem for the real configuration *)
  Example p_mac_simulated :
    exists eff D' V', tlower_info (cfg_insn 0) p_mac = OK (mkti eff 0 0 false []) /\
      forall ilsubs E csub xi cs ms fuel cs', csub_ext csub -> xi_ok xi -> srel (IM_of p_mac) E [] [] cs ms -> imm_fresh (IM_of p_mac) cs -> cexecs E csub xi fuel cs p_mac = Some cs' ->
        exists ms', runs (rw_of_prog p_mac) ilsubs eff ms ms' /\ srel (IM_of p_mac) E D' V' cs' ms'.
  Proof.
    destruct (covered_correct 0 p_mac ltac:(vm_compute; reflexivity)) as [eff [h' [D' [V' [Hl [_ Hsim]]]]]].
    assert (Eh : h' = 0%N) by (pose proof Hl as Hl'; vm_compute in Hl'; injection Hl' as _ Eh; symmetry; exact Eh). subst h'.
    exists eff, D', V'. split; assumption.
  Qed.

  (* --- not covered --- *)
  (* --- for loops --- *)
  (* int32_t i = 0; for (i = 0; i < 2; i++) { RdV = RsV; }
     COVERED since sf_for: the loop variable is a 32 bit local, the step is i++ (or i--), the body has no loop.
     The compiler turns i++ into a "hybrid": the temporary h_tmp0 keeps the old value of i, the increment is sequenced
     after the body; the final hybrid counter is 1 (covered_correct gives h <= h'). *)
  Definition p_loop :=
    SCons (SDecl [TS_intN true 32] "i" (Some (num 0)))
   (SCons (SFor (asg (var "i") (num 0)) (SExpr (EBin Ast.BLt (var "i") (num 2))) (Some (EPost true (var "i")))
                (SBlock (one (asg (reg "R" "d") (reg "R" "s"))))) SNil).
  (* for (i = 0; i < 4; i++) { RxV += i; }       (i implicitly declared by its first assignment, as in the shipped vector helpers)
     int j; for (j = 3; j > 0; j--) { if (j > 1) { RxV |= j; } }      (declaration without initialiser; a decreasing loop) *)
  Definition p_loop_acc :=
    one (SFor (asg (var "i") (num 0)) (SExpr (EBin Ast.BLt (var "i") (num 4))) (Some (EPost true (var "i")))
              (SBlock (one (SExpr (EAssign AAdd (reg "R" "x") (var "i")))))).
  Definition p_loop_dec :=
    SCons (SDecl [TS_int] "j" None)
   (SCons (SFor (asg (var "j") (num 3)) (SExpr (EBin Ast.BGt (var "j") (num 0))) (Some (EPost false (var "j")))
                (SBlock (one (SIf (EBin Ast.BGt (var "j") (num 1)) (SBlock (one (SExpr (EAssign AOr (reg "R" "x") (var "j"))))) None)))) SNil).
  (* two loops in a row: each gets its own temporary *)
  Definition p_loop_two :=
    SCons (SFor (asg (var "i") (num 0)) (SExpr (EBin Ast.BLt (var "i") (num 2))) (Some (EPost true (var "i")))
                (SBlock (one (SExpr (EAssign AAdd (reg "R" "x") (num 1))))))
   (SCons (SFor (asg (var "i") (num 0)) (SExpr (EBin Ast.BLt (var "i") (num 2))) (Some (EPost true (var "i")))
                (SBlock (one (SExpr (EAssign AAdd (reg "R" "x") (num 2)))))) SNil).
  Example covered_loops : map (covered 0) [p_loop; p_loop_acc; p_loop_dec; p_loop_two] = [true; true; true; true].
  Proof. vm_compute. reflexivity. Qed.
  Example p_loop_acc_lowered :
    tlower_info (cfg_insn 0) p_loop_acc =
    OK (mkti (ESeq (ESetL "i" (PCast 32 (PBool false) (PBv true 32 0)))
                (ERepeat (PCmp CUlt (PVarL "i") (PCast 32 (PBool false) (PBv true 32 4)))
                   (ESeq (EWriteReg (RIsa "R" "x" false)
                            (PBin RzIL.BAdd (PReg (RIsa "R" "x" false) false) (PCast 32 (PBool false) (PVarL "i"))))
                         (ESeq (ESetL "h_tmp0" (PVarL "i")) (ESetL "i" (PIncDec true (PVarL "i") 32))))))
             1 0 false []).
  Proof. vm_compute. reflexivity. Qed.
  (* the loop executed on both sides: RxV = 10 initially, the C run ends with RxV = 10 + 0 + 1 + 2 + 3 = 16, and so does the IL run *)
  Definition env_loop : cenv :=
    mkce (fun r => if regop_eqb r (RIsa "R" "x" false) then 10%Z else 0%Z) (fun _ => 0%Z) (fun _ => 0%Z) 0%Z (fun _ => 0%Z).
  Example p_loop_acc_simulated : forall ilsubs,
    exists eff cs' ms', tlower_info (cfg_insn 0) p_loop_acc = OK (mkti eff 1 0 false []) /\
      cexecs env_loop Example.nosubs Example.noxi 30 cs0 p_loop_acc = Some cs' /\
      runs (rw_of_prog p_loop_acc) ilsubs eff (Example.ms_of env_loop) ms' /\
      lookup_reg (RIsa "R" "x" false) (rnew ms') = Some 16%Z.
  Proof.
    intros ilsubs.
    destruct (covered_correct 0 p_loop_acc ltac:(vm_compute; reflexivity)) as [eff [h' [D' [V' [Hl [_ Hsim]]]]]].
    assert (Eh : h' = 1%N) by (pose proof Hl as Hl'; vm_compute in Hl'; injection Hl' as _ Eh; symmetry; exact Eh). subst h'.
    assert (Hc : exists cs', cexecs env_loop Example.nosubs Example.noxi 30 cs0 p_loop_acc = Some cs' /\
                             lookup_reg (RIsa "R" "x" false) (cs_regw cs') = Some 16%Z).
    { eexists. split; [vm_compute; reflexivity | reflexivity]. }
    destruct Hc as [cs' [Hc Hr]].
    destruct (Hsim ilsubs env_loop Example.nosubs Example.noxi cs0 (Example.ms_of env_loop) 30%nat cs' csub_ext_none xi_ok_std (Example.srel_init _ env_loop) (Example.fresh_init _) Hc)
      as [ms' [Hrun Hrel']].
    exists eff, cs', ms'. repeat (split; [assumption|]).
    destruct Hrel' as [[_ [Hregw _]] _]. rewrite <- Hregw. exact Hr.
  Qed.
  (* NOT covered: a loop inside a loop body, a loop variable that is not 32 bits wide, while loops *)
  Definition p_loop_nested :=
    one (SFor (asg (var "i") (num 0)) (SExpr (EBin Ast.BLt (var "i") (num 2))) (Some (EPost true (var "i")))
              (SBlock (one (SFor (asg (var "j") (num 0)) (SExpr (EBin Ast.BLt (var "j") (num 2))) (Some (EPost true (var "j")))
                                 (SBlock (one (SExpr (EAssign AAdd (reg "R" "x") (num 1))))))))).
  Definition p_loop_u8 :=
    SCons (SDecl [TS_intN false 8] "c" (Some (num 0)))
   (SCons (SFor (asg (var "c") (num 0)) (SExpr (EBin Ast.BLt (var "c") (num 2))) (Some (EPost true (var "c")))
                (SBlock (one (asg (reg "R" "d") (reg "R" "s"))))) SNil).
  Example loops_not_covered : map (covered 0) [p_loop_nested; p_loop_u8] = [false; false].
  Proof. vm_compute. reflexivity. Qed.

  (* { RdV = RsV / RtV; }
     NOT covered: division is neither [is_folding_op] nor [is_plain_op] (pf_bin): pfrag_check is false on the
     right-hand side.  (The two configurations also translate it differently: the repair fx_divmod is off in the
     real one.) *)
  Definition p_div := one (asg (reg "R" "d") (EBin Ast.BDiv (reg "R" "s") (reg "R" "t"))).
  Example div_not_covered :
    covered 0 p_div = false /\ sfrags_check (rw_of_prog p_div) (IM_of p_div) [] [] p_div = None /\
    tinfo_res_eqb (tlower_info (cfg_insn 0) p_div) (tlower_info (cfg_thm 0) p_div) = false.
  Proof. repeat split; vm_compute; reflexivity. Qed.

  (* { RdV = RsV; RddV = RssV; }
     NOT covered: RsV and RssV share the operand handle ISA2REG(hi,'s').  rw_of_prog gives it the width of its
     first use (RsV: 32), and pf_reg for RssV needs rw (RIsa "R" "s" false) = dest_w "R" APR = 64.  No width
     environment satisfies both.  The translations themselves agree: the width equation is the only failing
     conjunct. *)
  Definition p_mix := SCons (asg (reg "R" "d") (reg "R" "s")) (SCons (asg (reg "R" "dd") (reg "R" "ss")) SNil).
  Example mix_not_covered :
    covered 0 p_mix = false /\ sfrags_check (rw_of_prog p_mix) (IM_of p_mix) [] [] p_mix = None /\
    rw_of_prog p_mix (RIsa "R" "s" false) = 32%N /\
    tinfo_res_eqb (tlower_info (cfg_insn 0) p_mix) (tlower_info (cfg_thm 0) p_mix) = true.
  Proof. repeat split; vm_compute; reflexivity. Qed.
  (* ... and indeed no rw at all puts it into the fragment *)
  Example mix_not_in_fragment : forall rw IM D' V', ~ sfrags rw IM [] [] p_mix D' V'.
  Proof.
    intros rw IM D' V' H. apply sfrags_check_complete in H. unfold p_mix, one, asg, reg in H.
    cbn [sfrags_check sfrag_check pfrag_check dest_cls_b existsb String.eqb Ascii.eqb Bool.eqb orb andb] in H.
    unfold regw_b in H. cbn in H.
    destruct (N.eqb_spec (rw (RIsa "R" "s" false)) 32) as [E|_]; [|destruct (rw (RIsa "R" "d" false) =? 32)%N; discriminate H].
    rewrite E in H. destruct (rw (RIsa "R" "d" false) =? 32)%N; cbn in H; try discriminate H.
    destruct (rw (RIsa "R" "d" false) =? 64)%N; discriminate H.
  Qed.

  (* a local named like a parameter of the instruction routine: the real configuration rejects the declaration
     ("already defined as parameter"), the parameter-free configuration of the theorem accepts it: not covered,
     although the behaviour is in the fragment *)
  Definition p_pkt := SCons (SDecl [TS_intN true 32] "pkt" (Some (num 1))) (SCons (asg (reg "R" "d") (var "pkt")) SNil).
  Example pkt_not_covered :
    covered 0 p_pkt = false /\
    (match sfrags_check (rw_of_prog p_pkt) (IM_of p_pkt) [] [] p_pkt with Some _ => true | None => false end) = true.
  Proof. split; vm_compute; reflexivity. Qed.
End CheckExamples.
