(* Semantic correctness of the lowering of side-effect-free integer expressions, for the
   REPAIRED compiler model (cfg_fx = all_fixes): whenever C11 (sem/CSem.v) gives the expression a
   value, the emitted RzIL term (sem/RzIL.v) evaluates to that value, at the C type.

   Leaves of the fragment [pfrag rw V e]: integer literals, declared locals (V), and the instruction's
   OPERANDS: register operands of classes R P C M with any access letters of Lower.access_of_letters
   (sources RsV..RwV, read-write RxV..RzV, destinations RdV ReV read back, pairs RssV..RxxV RddV),
   .new operands (PuN, NsN, ...) and immediates (siV, uiV, ...; any set IM of letters, [imm_letter] = the
   eight letters of the grammar).
   The model emits a register read as a placeholder that Lower.fin_pure resolves at emission time from
   the FINAL access kind of the register, so the theorem is about the FINALISED term, for every later
   register table R ([regs_le]); an immediate is read through the RzIL local its prologue entry
   (Lower.st_imms) sets, so the IL state is one in which that prologue has run ([imms_done]).  The
   state relation [rel] ties the C operand environment (cenv: old register file, new-value bank,
   immediates) and the registers assigned so far to the IL machine state; READ_REG follows the contract
   of RzIL.read_reg.
   Further leaves and forms: the 17 aliased control registers HEX_REG_ALIAS_<n> ([alias_names]) and the PC alias
   (read as the packet address as long as it is not written), the explicitly named registers P0 .. P3, R29, R30, R31
   and their _NEW forms ([expl_names]; premise [xi_ok]: CSem's table of explicit registers agrees with
   OpTables.explicit_reg_info on these names), memory loads under a cast
   `(T) mem_load_<s|u><w>(a)` (incl. the size<N><s|u>_t casts), the pure macros sextract64 / extract64 / extract32 /
   deposit32 / deposit64 / bswap16 / bswap32 / bswap64 (premise [macs_std]: the macro table has the standard entries;
   proved for the shipped table in FragCheck), and sizeof(e) (premises [subs_ext] / [csub_ext]: neither sub-routine
   table knows the names of [ext_calls]; CSem gives sizeof no value, so that case is vacuous).
   The variable types of the model may carry the HYBRID flag (set on a local once ++ was applied to it: [ity],
   [ty_h]); a value of the fragment mentions no compiler temporary ([goodpv]: pv_tmps = []); [lst_ok] relates the
   model's variable table to the declared locals up to that flag and up to the temporaries h_tmp<n> ([is_htmp]). *)
From Coq Require Import ZArith NArith List Bool String Ascii Lia ZifyBool ZifyN.
From RZ.lib Require Import BV PyHeap.
From RZ.sem Require Import RzIL CSem.
From RZ.gen Require Import TypeRules.
From RZ.model Require Import Ast Types OpTables Lower.
Import ListNotations.
Local Open Scope string_scope.
Local Open Scope Z_scope.
Local Open Scope list_scope.

(* ================================================================== Layer 0: bit-vector arithmetic *)

Definition okw (w : N) : Prop := w = 8%N \/ w = 16%N \/ w = 32%N \/ w = 64%N.

Lemma pow2_8 : pow2 8 = 256. Proof. reflexivity. Qed.
Lemma pow2_16 : pow2 16 = 65536. Proof. reflexivity. Qed.
Lemma pow2_32 : pow2 32 = 4294967296. Proof. reflexivity. Qed.
Lemma pow2_64 : pow2 64 = 18446744073709551616. Proof. reflexivity. Qed.
Lemma pow2_7 : pow2 7 = 128. Proof. reflexivity. Qed.
Lemma pow2_15 : pow2 15 = 32768. Proof. reflexivity. Qed.
Lemma pow2_31 : pow2 31 = 2147483648. Proof. reflexivity. Qed.
Lemma pow2_63 : pow2 63 = 9223372036854775808. Proof. reflexivity. Qed.

Ltac norm_w :=
  change (8 - 1)%N with 7%N in *; change (16 - 1)%N with 15%N in *;
  change (32 - 1)%N with 31%N in *; change (64 - 1)%N with 63%N in *;
  change (8 =? 0)%N with false in *; change (16 =? 0)%N with false in *;
  change (32 =? 0)%N with false in *; change (64 =? 0)%N with false in *;
  rewrite ?pow2_8, ?pow2_16, ?pow2_32, ?pow2_64, ?pow2_7, ?pow2_15, ?pow2_31, ?pow2_63 in *.

Ltac okw_cases H := destruct H as [H | [H | [H | H]]]; subst.

Ltac Zify.zify_post_hook ::= Z.to_euclidean_division_equations.

Ltac split_ifs :=
  repeat match goal with |- context [if ?b then _ else _] => destruct b eqn:? end.

Lemma okw_pos w : okw w -> (w =? 0)%N = false.
Proof. intros H; okw_cases H; reflexivity. Qed.

Lemma wrap_sval w x : wrap w (sval w x) = wrap w x.
Proof.
  unfold sval. destruct (w =? 0)%N eqn:E.
  - apply N.eqb_eq in E. subst. unfold wrap. change (pow2 0) with 1. rewrite !Z.mod_1_r. reflexivity.
  - destruct (wrap w x <? pow2 (w - 1)).
    + apply wrap_idem.
    + unfold wrap. pose proof (pow2_pos w).
      replace (x mod pow2 w - pow2 w) with (x mod pow2 w + (-1) * pow2 w) by lia.
      rewrite Z_mod_plus_full. apply Z.mod_mod. lia.
Qed.

Lemma wrap_interp sg w z : wrap w (interp (sg, w) z) = wrap w z.
Proof. unfold interp; cbn [fst snd]. destruct sg; [apply wrap_sval | apply wrap_idem]. Qed.

Lemma wrap_add w a b : wrap w (a + b) = wrap w (wrap w a + wrap w b).
Proof. unfold wrap. apply Zplus_mod. Qed.
Lemma wrap_sub w a b : wrap w (a - b) = wrap w (wrap w a - wrap w b).
Proof. unfold wrap. apply Zminus_mod. Qed.
Lemma wrap_mul w a b : wrap w (a * b) = wrap w (wrap w a * wrap w b).
Proof. unfold wrap. apply Zmult_mod. Qed.
Lemma wrap_opp w a : wrap w (- a) = wrap w (- wrap w a).
Proof. replace (- a) with (0 - a) by lia. replace (- wrap w a) with (0 - wrap w a) by lia.
  rewrite wrap_sub. rewrite (wrap_sub w 0 (wrap w a)). rewrite wrap_idem. reflexivity. Qed.

Lemma wrap_not_wrap w z : wrap w (- wrap w z - 1) = wrap w (- z - 1).
Proof. rewrite wrap_sub, <- wrap_opp, <- wrap_sub. reflexivity. Qed.

Lemma arith_interp_add sg w x y : wrap w (interp (sg, w) x + interp (sg, w) y) = wrap w (x + y).
Proof. rewrite wrap_add, !wrap_interp, <- wrap_add. reflexivity. Qed.
Lemma arith_interp_sub sg w x y : wrap w (interp (sg, w) x - interp (sg, w) y) = wrap w (x - y).
Proof. rewrite wrap_sub, !wrap_interp, <- wrap_sub. reflexivity. Qed.
Lemma arith_interp_mul sg w x y : wrap w (interp (sg, w) x * interp (sg, w) y) = wrap w (x * y).
Proof. rewrite wrap_mul, !wrap_interp, <- wrap_mul. reflexivity. Qed.
Lemma arith_interp_neg sg w x : wrap w (- interp (sg, w) x) = wrap w (- x).
Proof. rewrite wrap_opp, wrap_interp, <- wrap_opp. reflexivity. Qed.
Lemma arith_interp_not sg w x : wrap w (- interp (sg, w) x - 1) = wrap w (- x - 1).
Proof. rewrite wrap_sub, wrap_opp, wrap_interp, <- wrap_opp, <- wrap_sub. reflexivity. Qed.

(* the value read at its own type is the representative itself when unsigned *)
Lemma interp_unsigned w z : 0 <= z < pow2 w -> interp (false, w) z = z.
Proof. intros. unfold interp; cbn [fst snd]. apply wrap_small; auto. Qed.

(* ------------------------------------------------------------------ casts *)
Lemma cast_narrow w w' fb sg z : okw w -> okw w' -> (w' <=? w)%N = true -> 0 <= z < pow2 w ->
  bvcast w w' fb z = wrap w' (interp (sg, w) z).
Proof.
  intros Hw Hw' Hle Hz. unfold bvcast. rewrite Hle. unfold interp, sval, wrap; cbn [fst snd].
  okw_cases Hw; okw_cases Hw'; try discriminate Hle; norm_w; destruct sg; split_ifs; lia.
Qed.

Lemma cast_widen w w' sg z : okw w -> okw w' -> (w <? w')%N = true -> 0 <= z < pow2 w ->
  bvcast w w' (sg && msb w z) z = wrap w' (interp (sg, w) z).
Proof.
  intros Hw Hw' Hlt Hz. unfold bvcast.
  assert ((w' <=? w)%N = false) as -> by lia.
  unfold interp, sval, msb, wrap; cbn [fst snd].
  okw_cases Hw; okw_cases Hw'; try discriminate Hlt; norm_w; destruct sg; cbn [andb]; split_ifs; lia.
Qed.

(* ------------------------------------------------------------------ C values in range *)
Definition wfc (c : cval) : Prop := okw (snd (fst c)) /\ 0 <= snd c < pow2 (snd (fst c)).

Lemma promote_okw sg w : okw w -> okw (snd (promote (sg, w))).
Proof. intros H. unfold promote; cbn [fst snd]. okw_cases H; cbn; unfold okw; auto. Qed.

Lemma vint_conv_promote c : wfc c -> vint (conv (promote (fst c)) c) = vint c.
Proof.
  destruct c as [[sg w] z]. intros [Hw Hz]; cbn [fst snd] in *.
  unfold conv, mkval, vint, promote, int_t, interp, sval, wrap; cbn [fst snd].
  okw_cases Hw; cbn [N.ltb N.compare Pos.compare Pos.compare_cont fst snd]; norm_w; destruct sg; split_ifs; lia.
Qed.

Lemma conv_conv_promote t c : wfc c -> conv t (conv (promote (fst c)) c) = conv t c.
Proof. intros H. unfold conv at 1. rewrite vint_conv_promote by auto. reflexivity. Qed.

Lemma conv_wfc t c : okw (snd t) -> wfc (conv t c).
Proof. intros H. unfold conv, mkval, wfc; cbn [fst snd]. split; auto. apply wrap_range. Qed.

Lemma conv_same c : wfc c -> conv (fst c) c = c.
Proof.
  destruct c as [[sg w] z]. intros [Hw Hz]; cbn [fst snd] in *. unfold conv, mkval, vint. cbn [fst snd].
  rewrite wrap_interp. rewrite wrap_small by auto. reflexivity.
Qed.

Lemma fst_conv t c : fst (conv t c) = t. Proof. reflexivity. Qed.

(* ------------------------------------------------------------------ bitwise bounds *)
Lemma log2_bound x W : 0 < W -> 0 <= x < 2 ^ W -> Z.log2 x < W.
Proof.
  intros HW [H0 H1]. destruct (Z.eq_dec x 0) as [->|Hn]; [cbn; lia|].
  apply Z.log2_lt_pow2; lia.
Qed.

Lemma bit_bound (f : Z -> Z -> Z) x y W :
  (forall a b, 0 <= a -> 0 <= b -> 0 <= f a b) ->
  (forall a b, 0 <= a -> 0 <= b -> Z.log2 (f a b) <= Z.max (Z.log2 a) (Z.log2 b)) ->
  0 < W -> 0 <= x < 2 ^ W -> 0 <= y < 2 ^ W -> 0 <= f x y < 2 ^ W.
Proof.
  intros Hnn Hlog HW Hx Hy. split; [apply Hnn; lia|].
  destruct (Z.eq_dec (f x y) 0) as [E|E]; [rewrite E; apply Z.pow_pos_nonneg; lia|].
  assert (0 < f x y) by (specialize (Hnn x y); lia).
  apply Z.log2_lt_pow2; auto.
  pose proof (Hlog x y ltac:(lia) ltac:(lia)).
  pose proof (log2_bound x W HW Hx). pose proof (log2_bound y W HW Hy). lia.
Qed.

Lemma okw_Zpos w : okw w -> 0 < Z.of_N w.
Proof. intros H; okw_cases H; lia. Qed.

Lemma land_range w x y : okw w -> 0 <= x < pow2 w -> 0 <= y < pow2 w -> 0 <= Z.land x y < pow2 w.
Proof.
  intros Hw. unfold pow2. apply bit_bound; [| |apply okw_Zpos; auto].
  - intros. apply Z.land_nonneg. auto.
  - intros a b Ha Hb. pose proof (Z.log2_land a b Ha Hb). lia.
Qed.
Lemma lor_range w x y : okw w -> 0 <= x < pow2 w -> 0 <= y < pow2 w -> 0 <= Z.lor x y < pow2 w.
Proof.
  intros Hw. unfold pow2. apply bit_bound; [| |apply okw_Zpos; auto].
  - intros. apply Z.lor_nonneg. auto.
  - intros a b Ha Hb. rewrite (Z.log2_lor a b Ha Hb). lia.
Qed.
Lemma lxor_range w x y : okw w -> 0 <= x < pow2 w -> 0 <= y < pow2 w -> 0 <= Z.lxor x y < pow2 w.
Proof.
  intros Hw. unfold pow2. apply bit_bound; [| |apply okw_Zpos; auto].
  - intros. apply Z.lxor_nonneg. lia.
  - intros a b Ha Hb. apply (Z.log2_lxor a b Ha Hb).
Qed.

(* ------------------------------------------------------------------ shifts *)
Lemma shl_ok sg w x n : 0 <= n < Z.of_N w ->
  shl0 w x n = wrap w (interp (sg, w) x * 2 ^ n).
Proof.
  intros Hn. unfold shl0. assert (n <? Z.of_N w = true) as -> by lia.
  rewrite (wrap_mul w (interp (sg, w) x)). rewrite wrap_interp.
  rewrite (wrap_mul w (wrap w x)). rewrite wrap_idem. reflexivity.
Qed.

Lemma shr_ok w x n : 0 <= n < Z.of_N w -> 0 <= x < pow2 w ->
  shr0 w x n = wrap w (interp (false, w) x / 2 ^ n).
Proof.
  intros Hn Hx. unfold shr0. assert (n <? Z.of_N w = true) as -> by lia.
  rewrite interp_unsigned by auto. rewrite (wrap_small w x) by auto.
  symmetry. apply wrap_small.
  assert (0 < 2 ^ n) by (apply Z.pow_pos_nonneg; lia).
  split; [apply Z.div_pos; lia|]. apply Z.div_lt_upper_bound; nia.
Qed.

Lemma shra_ok w x n : 0 <= n < Z.of_N w ->
  shra w x n = wrap w (interp (true, w) x / 2 ^ n).
Proof. intros Hn. unfold shra. assert (n <? Z.of_N w = true) as -> by lia. reflexivity. Qed.

(* a non-negative value read at its own type is the representative *)
Lemma interp_nonneg sg w y : okw w -> 0 <= y < pow2 w -> 0 <= interp (sg, w) y -> interp (sg, w) y = y.
Proof.
  intros Hw Hy. unfold interp, sval, wrap; cbn [fst snd].
  okw_cases Hw; norm_w; destruct sg; split_ifs; lia.
Qed.

(* ================================================================== Layer 1: the type rules on plain integer types *)
Lemma promoted_vtype_plain sg w : okw w ->
  promoted_vtype (ty_int sg w) = Some (ty_int (fst (promote (sg, w))) (snd (promote (sg, w)))).
Proof. intros H. okw_cases H; destruct sg; vm_compute; reflexivity. Qed.

Lemma promoted_vtype_bool : promoted_vtype ty_bool = Some (ty_int true 32).
Proof. vm_compute. reflexivity. Qed.

Lemma c11_vtypes_plain s1 w1 s2 w2 : okw w1 -> okw w2 ->
  c11_vtypes (ty_int s1 w1) (ty_int s2 w2) =
  Some (ty_int (fst (uac (s1, w1) (s2, w2))) (snd (uac (s1, w1) (s2, w2))),
        ty_int (fst (uac (s1, w1) (s2, w2))) (snd (uac (s1, w1) (s2, w2)))).
Proof. intros H1 H2. okw_cases H1; okw_cases H2; destruct s1, s2; vm_compute; reflexivity. Qed.

Lemma uac_okw s1 w1 s2 w2 : okw w1 -> okw w2 -> okw (snd (uac (s1, w1) (s2, w2))).
Proof. intros H1 H2. okw_cases H1; okw_cases H2; destruct s1, s2; vm_compute; auto 6. Qed.

Lemma literal_vtype_eq v hex suf :
  c11_literal_vtype v hex suf = option_map (fun t : cty => ty_int (fst t) (snd t)) (literal_type v hex suf).
Proof.
  unfold c11_literal_vtype, literal_type, fits.
  repeat match goal with |- context [String.eqb suf ?s] => destruct (String.eqb suf s) end;
  try destruct hex; cbn [find fst snd option_map];
  change (2 ^ (Z.of_N 32 - 1)) with 2147483648; change (2 ^ (Z.of_N 64 - 1)) with 9223372036854775808;
  change (2 ^ Z.of_N 32) with 4294967296; change (2 ^ Z.of_N 64) with 18446744073709551616;
  change (pow2 (32 - 1)) with 2147483648; change (pow2 (64 - 1)) with 9223372036854775808;
  change (pow2 32) with 4294967296; change (pow2 64) with 18446744073709551616;
  repeat match goal with |- context [Z.ltb v ?c] => destruct (Z.ltb v c) end; reflexivity.
Qed.

Lemma literal_type_cases v hex suf t : literal_type v hex suf = Some t ->
  (snd t = 32%N \/ snd t = 64%N) /\ fits t v = true.
Proof.
  unfold literal_type. intros H. apply find_some in H. destruct H as [Hin Hf]. split; auto.
  repeat match type of Hin with context [String.eqb suf ?s] => destruct (String.eqb suf s) end;
  try destruct hex; cbn [In] in Hin; intuition (subst; cbn; auto).
Qed.

(* ================================================================== Layer 1b: operand names, immediates, the register table of the model state *)
Lemma append_empty_r s : s +++ "" = s.
Proof. induction s as [|c s IH]; cbn [append]; [reflexivity | rewrite IH; reflexivity]. Qed.

Lemma substring_full s : substring 0 (String.length s) s = s.
Proof. induction s as [|c s IH]; cbn [String.length substring]; [reflexivity | rewrite IH; reflexivity]. Qed.

Lemma substring_0_0 s : substring 0 0 s = "".
Proof. destruct s; reflexivity. Qed.

Lemma reg_name_of_reg n : reg_name_of ("$reg:" +++ n) = Some n.
Proof.
  unfold reg_name_of, reg_prefix. cbn [append substring String.length].
  rewrite substring_0_0. cbn [String.eqb Ascii.eqb Bool.eqb Nat.sub].
  rewrite Nat.sub_0_r, substring_full. reflexivity.
Qed.

Lemma lookup_app {A} x (l1 l2 : list (string * A)) :
  lookup x (l1 ++ l2) = match lookup x l1 with Some v => Some v | None => lookup x l2 end.
Proof.
  induction l1 as [|[y v] t IH]; cbn [app lookup]; [reflexivity|].
  destruct (String.eqb x y); [reflexivity | exact IH].
Qed.

Lemma lookup_none_existsb {A} x (l : list (string * A)) :
  lookup x l = None -> existsb (fun p => String.eqb (fst p) x) l = false.
Proof.
  induction l as [|[y v] t IH]; cbn [lookup existsb fst]; [reflexivity|].
  rewrite (String.eqb_sym y x). destruct (String.eqb x y); [discriminate|]. exact IH.
Qed.

Lemma lookup_some_existsb {A} x (l : list (string * A)) v :
  lookup x l = Some v -> existsb (fun p => String.eqb (fst p) x) l = true.
Proof.
  induction l as [|[y w] t IH]; cbn [lookup existsb fst]; [discriminate|].
  rewrite (String.eqb_sym y x). destruct (String.eqb x y); [reflexivity|]. exact IH.
Qed.

(* ------------------------------------------------------------------ immediates *)
(* the letters the grammar accepts in <letter>iV (gen/GrammarTables.term_IMMEDIATE = /[rRsSuUmn]/) *)
Definition imm_letter (l : string) : bool := existsb (String.eqb l) ["r"; "R"; "s"; "S"; "u"; "U"; "m"; "n"].
Definition imm_ty (l : string) : vtype := ty_int (imm_signed l) 32.
Definition imm_entry (l : string) : effect := ESetL l (PImm l (imm_signed l) 32).
(* CSem keeps an assigned immediate in the C local "imm:<letter>" *)
Definition imm_cname (x : string) : bool := String.eqb (substring 0 4 x) "imm:".
(* the names of the temporaries the compiler introduces for ++ / -- *)
Definition is_htmp (x : string) : bool := String.eqb (substring 0 5 x) "h_tmp".
Lemma imm_cname_imm l : imm_cname ("imm:" +++ l) = true.
Proof. unfold imm_cname. cbn [append substring]. rewrite substring_0_0. reflexivity. Qed.

(* ------------------------------------------------------------------ register operands *)
(* register operands of the fragment: classes R P C M with the access letters of Lower.access_of_letters,
   and for .new operands also class N (NsN) *)
Definition dest_cls (cls : string) : Prop := cls = "R" \/ cls = "P" \/ cls = "C" \/ cls = "M".
Definition reg_cls (new : bool) (cls : string) : Prop := dest_cls cls \/ (new = true /\ cls = "N").
Definition cls_w (cls : string) : N := if String.eqb cls "P" then 8%N else 32%N.
Definition dest_w (cls : string) (acc : access) : N := if is_pair acc then (cls_w cls * 2)%N else cls_w cls.
Definition sfx (new : bool) : string := if new then "_new" else "".
(* the name under which Lower.lower_reg registers the operand, and its operand handle *)
Definition rname (cls letters : string) (new : bool) : string := cls +++ letters +++ sfx new.
Definition rop (cls letters : string) (new : bool) : regop :=
  if String.eqb cls "N" then RNreg (substring 0 1 letters) else RIsa cls (substring 0 1 letters) new.

Lemma rname_false cls letters : rname cls letters false = cls +++ letters.
Proof. unfold rname, sfx. rewrite append_empty_r. reflexivity. Qed.
Lemma rop_dest cls letters new : dest_cls cls -> rop cls letters new = RIsa cls (substring 0 1 letters) new.
Proof. intros [-> | [-> | [-> | ->]]]; reflexivity. Qed.

Lemma dest_cls_widths cls : dest_cls cls ->
  reg_width cls = Some (cls_w cls) /\ class_width cls = Some (cls_w cls) /\ String.eqb cls "N" = false.
Proof. intros [-> | [-> | [-> | ->]]]; repeat split; reflexivity. Qed.
Lemma reg_cls_widths new cls : reg_cls new cls ->
  reg_width cls = Some (cls_w cls) /\ class_width cls = Some (cls_w cls).
Proof. intros [[-> | [-> | [-> | ->]]] | [_ ->]]; split; reflexivity. Qed.

Lemma dest_w_okw cls acc : dest_cls cls -> okw (dest_w cls acc).
Proof. intros [-> | [-> | [-> | ->]]]; unfold dest_w; destruct (is_pair acc); vm_compute; auto 6. Qed.
Lemma reg_w_okw new cls acc : reg_cls new cls -> okw (dest_w cls acc).
Proof. intros [H | [_ ->]]; [apply dest_w_okw; exact H|]. unfold dest_w; destruct (is_pair acc); vm_compute; auto 6. Qed.

Definition letter_table : list string :=
  ["s"; "t"; "u"; "v"; "w"; "d"; "e"; "x"; "y"; "z"; "ss"; "tt"; "uu"; "vv"; "dd"; "xx"; "yy"].

Ltac letters_cases letters tac :=
  unfold access_of_letters; cbn [existsb];
  repeat match goal with
         | |- context [String.eqb letters ?s] =>
             destruct (String.eqb_spec letters s) as [->|?]; [tac|]
         end;
  cbn; discriminate.

Lemma access_pair letters acc : access_of_letters letters = Some acc -> is_pair acc = is_pair_letters letters.
Proof. letters_cases letters ltac:(cbn; intros H; injection H as <-; reflexivity). Qed.

Lemma access_in_table letters acc : access_of_letters letters = Some acc -> In letters letter_table.
Proof. letters_cases letters ltac:(intros _; cbn; tauto). Qed.

(* destination-only operands (d, e, dd): the only ones whose reads are finalised to the NEW bank, and the
   ones C initialises to 0 *)
Lemma access_write_only letters acc : access_of_letters letters = Some acc ->
  write_only acc = (String.eqb (substring 0 1 letters) "d" || String.eqb (substring 0 1 letters) "e") /\ acc <> AUnknown.
Proof. letters_cases letters ltac:(cbn; intros H; injection H as <-; split; [reflexivity | discriminate]). Qed.

Definition any_cls (cls : string) : Prop := cls = "R" \/ cls = "P" \/ cls = "C" \/ cls = "M" \/ cls = "N".
Lemma reg_cls_any new cls : reg_cls new cls -> any_cls cls.
Proof. unfold any_cls. intros [[-> | [-> | [-> | ->]]] | [_ ->]]; auto 6. Qed.

Lemma name_inj cls cls' l l' : any_cls cls -> any_cls cls' -> cls +++ l = cls' +++ l' -> cls = cls' /\ l = l'.
Proof. intros [-> | [-> | [-> | [-> | ->]]]] [-> | [-> | [-> | [-> | ->]]]]; cbn [append]; intros H; inversion H; auto. Qed.

Definition lsfx_all : list (string * bool) := flat_map (fun l => [(l, true); (l, false)]) letter_table.
Lemma lsfx_check :
  forallb (fun a => forallb (fun b => implb (String.eqb (fst a +++ sfx (snd a)) (fst b +++ sfx (snd b)))
                                            (String.eqb (fst a) (fst b) && Bool.eqb (snd a) (snd b))) lsfx_all) lsfx_all = true.
Proof. vm_compute. reflexivity. Qed.

Lemma lsfx_inj l l' n n' : In l letter_table -> In l' letter_table -> l +++ sfx n = l' +++ sfx n' -> l = l' /\ n = n'.
Proof.
  intros Hl Hl' He.
  assert (Hin : forall l0 n0, In l0 letter_table -> In (l0, n0) lsfx_all).
  { intros l0 n0 H0. unfold lsfx_all. apply in_flat_map. exists l0. split; [exact H0|]. destruct n0; cbn; auto. }
  pose proof lsfx_check as Hc. rewrite forallb_forall in Hc. specialize (Hc _ (Hin l n Hl)).
  rewrite forallb_forall in Hc. specialize (Hc _ (Hin l' n' Hl')). cbn [fst snd] in Hc.
  rewrite He, String.eqb_refl in Hc. cbn [implb] in Hc. apply andb_true_iff in Hc. destruct Hc as [H1 H2].
  apply String.eqb_eq in H1. apply eqb_prop in H2. auto.
Qed.

Lemma rname_inj cls cls' l l' n n' : any_cls cls -> any_cls cls' -> In l letter_table -> In l' letter_table ->
  rname cls l n = rname cls' l' n' -> cls = cls' /\ l = l' /\ n = n'.
Proof.
  intros Hc Hc' Hl Hl' He. unfold rname in He.
  destruct (name_inj _ _ _ _ Hc Hc' He) as [-> He']. destruct (lsfx_inj _ _ _ _ Hl Hl' He') as [-> ->]. auto.
Qed.

(* ------------------------------------------------------------------ register ALIAS operands (HEX_REG_ALIAS_USR ...) *)
(* the aliases of the fragment: the named registers of the ISA except the program counter (reads of HEX_REG_ALIAS_PC are
   emitted as the packet address and a write names an undeclared handle: outside the fragment) *)
Definition alias_names : list string :=
  ["USR"; "SP"; "LR"; "GP"; "FP"; "LC0"; "LC1"; "SA0"; "SA1"; "M0"; "M1"; "CS0"; "CS1"; "UPCYCLE"; "PKTCOUNT"; "UTIMER"; "UGP"; "FRAMEKEY"].
(* the name under which Lower.lower_operand registers the alias, its operand handle, its width *)
Definition alias_tname (name : string) (new : bool) : string := lower_ascii name +++ sfx new.
Definition alias_op (name : string) (new : bool) : regop := RAlias ("HEX_REG_ALIAS_" +++ name) new.
Definition alias_w (name : string) : N := alias_width name.

Definition alias_all : list (string * bool) := flat_map (fun a => [(a, true); (a, false)]) alias_names.
Definition isa_all : list (string * (string * bool)) :=
  flat_map (fun c => map (fun lb => (c, lb)) lsfx_all) ["R"; "P"; "C"; "M"; "N"].
Lemma alias_check :
  forallb (fun a => forallb (fun b => implb (String.eqb (alias_tname (fst a) (snd a)) (alias_tname (fst b) (snd b)))
                                            (String.eqb (fst a) (fst b) && Bool.eqb (snd a) (snd b))) alias_all) alias_all = true /\
  forallb (fun a => forallb (fun i => negb (String.eqb (alias_tname (fst a) (snd a)) (rname (fst i) (fst (snd i)) (snd (snd i))))) isa_all) alias_all = true /\
  forallb (fun a => N.eqb (if existsb (String.eqb (lower_ascii a)) ["upcycle"; "pktcount"; "utimer"] then 64 else 32) (alias_w a) &&
                    negb (String.eqb (lower_ascii a) "pc") && (N.eqb (alias_w a) 32 || N.eqb (alias_w a) 64))%bool alias_names = true.
Proof. repeat split; vm_compute; reflexivity. Qed.
(* the program counter alias is registered under the name "pc": no other operand of the fragment has that name *)
Lemma pc_name_check :
  forallb (fun a => negb (String.eqb (alias_tname (fst a) (snd a)) "pc")) alias_all = true /\
  forallb (fun i => negb (String.eqb (rname (fst i) (fst (snd i)) (snd (snd i))) "pc")) isa_all = true.
Proof. split; vm_compute; reflexivity. Qed.
Definition pc_op : regop := RAlias "HEX_REG_ALIAS_PC" false.

Lemma alias_in_all name new : In name alias_names -> In (name, new) alias_all.
Proof. intros H. unfold alias_all. apply in_flat_map. exists name. split; [exact H|]. destruct new; cbn; auto. Qed.

Lemma alias_tname_inj name name' new new' : In name alias_names -> In name' alias_names ->
  alias_tname name new = alias_tname name' new' -> name = name' /\ new = new'.
Proof.
  intros H H' He. pose proof (proj1 alias_check) as Hc. rewrite forallb_forall in Hc. specialize (Hc _ (alias_in_all name new H)).
  rewrite forallb_forall in Hc. specialize (Hc _ (alias_in_all name' new' H')). cbn [fst snd] in Hc.
  rewrite He, String.eqb_refl in Hc. cbn [implb] in Hc. apply andb_true_iff in Hc. destruct Hc as [H1 H2].
  apply String.eqb_eq in H1. apply eqb_prop in H2. auto.
Qed.

Lemma alias_isa_neq name new cls letters new' : In name alias_names -> any_cls cls -> In letters letter_table ->
  alias_tname name new <> rname cls letters new'.
Proof.
  intros H Hc Hl He. pose proof (proj1 (proj2 alias_check)) as Hk. rewrite forallb_forall in Hk. specialize (Hk _ (alias_in_all name new H)).
  rewrite forallb_forall in Hk.
  assert (Hin : In (cls, (letters, new')) isa_all).
  { unfold isa_all. apply in_flat_map. exists cls. split.
    - unfold any_cls in Hc. cbn. intuition.
    - apply in_map. unfold lsfx_all. apply in_flat_map. exists letters. split; [exact Hl|]. destruct new'; cbn; auto. }
  specialize (Hk _ Hin). cbn [fst snd] in Hk. rewrite He, String.eqb_refl in Hk. discriminate Hk.
Qed.

Lemma in_isa_all cls letters new : any_cls cls -> In letters letter_table -> In (cls, (letters, new)) isa_all.
Proof.
  intros Hc Hl. unfold isa_all. apply in_flat_map. exists cls. split.
  - unfold any_cls in Hc. cbn. intuition.
  - apply in_map. unfold lsfx_all. apply in_flat_map. exists letters. split; [exact Hl|]. destruct new; cbn; auto.
Qed.
Lemma alias_not_pcname name new : In name alias_names -> alias_tname name new <> "pc".
Proof.
  intros H He. pose proof (proj1 pc_name_check) as Hk. rewrite forallb_forall in Hk. specialize (Hk _ (alias_in_all name new H)).
  cbn [fst snd] in Hk. rewrite He in Hk. discriminate Hk.
Qed.
Lemma isa_not_pcname cls letters new : any_cls cls -> In letters letter_table -> rname cls letters new <> "pc".
Proof.
  intros Hc Hl He. pose proof (proj2 pc_name_check) as Hk. rewrite forallb_forall in Hk. specialize (Hk _ (in_isa_all cls letters new Hc Hl)).
  cbn [fst snd] in Hk. rewrite He in Hk. discriminate Hk.
Qed.

Lemma alias_facts name : In name alias_names ->
  (if existsb (String.eqb (lower_ascii name)) ["upcycle"; "pktcount"; "utimer"] then 64%N else 32%N) = alias_w name /\
  String.eqb (lower_ascii name) "pc" = false /\ okw (alias_w name).
Proof.
  intros H. pose proof (proj2 (proj2 alias_check)) as Hk. rewrite forallb_forall in Hk. specialize (Hk _ H).
  apply andb_true_iff in Hk. destruct Hk as [Hk H3]. apply andb_true_iff in Hk. destruct Hk as [H1 H2].
  apply N.eqb_eq in H1. apply negb_true_iff in H2. split; [exact H1|]. split; [exact H2|].
  apply orb_true_iff in H3. unfold okw. destruct H3 as [H3 | H3]; apply N.eqb_eq in H3; auto.
Qed.

(* explicitly named registers (P0 .. P3 of fREAD_P0 / fWRITE_P0 ..., R29 R30 R31): registered under their own name *)
Definition expl_names : list string := ["P0"; "P1"; "P2"; "P3"; "R29"; "R30"; "R31"].
Definition expl_tname (name : string) (new : bool) : string := name +++ sfx new.
Definition expl_op (name : string) (new : bool) : regop :=
  match explicit_reg_info name new with Some (r, _) => r | None => RParam "" end.
Definition expl_w (name : string) : N := match explicit_reg_info name false with Some (_, w) => w | None => 0%N end.
Definition expl_all : list (string * bool) := flat_map (fun a => [(a, true); (a, false)]) expl_names.
Definition is_rexpl (r : regop) (new : bool) : bool := match r with RExpl _ _ n => Bool.eqb n new | _ => false end.
Lemma expl_check :
  forallb (fun a => forallb (fun b => implb (String.eqb (expl_tname (fst a) (snd a)) (expl_tname (fst b) (snd b)))
                                            (String.eqb (fst a) (fst b) && Bool.eqb (snd a) (snd b))) expl_all) expl_all = true /\
  forallb (fun a => forallb (fun i => negb (String.eqb (expl_tname (fst a) (snd a)) (rname (fst i) (fst (snd i)) (snd (snd i))))) isa_all) expl_all = true /\
  forallb (fun a => forallb (fun b => negb (String.eqb (expl_tname (fst a) (snd a)) (alias_tname (fst b) (snd b)))) alias_all) expl_all = true /\
  forallb (fun a => negb (String.eqb (expl_tname (fst a) (snd a)) "pc")) expl_all = true /\
  forallb (fun a => match explicit_reg_info (fst a) (snd a) with
                    | Some (r, w) => is_rexpl r (snd a) && N.eqb w (expl_w (fst a)) && (N.eqb w 8 || N.eqb w 32)
                    | None => false end)%bool expl_all = true.
Proof. repeat split; vm_compute; reflexivity. Qed.
Lemma expl_in_all name new : In name expl_names -> In (name, new) expl_all.
Proof. intros H. unfold expl_all. apply in_flat_map. exists name. split; [exact H|]. destruct new; cbn; auto. Qed.
Lemma expl_tname_inj name name' new new' : In name expl_names -> In name' expl_names ->
  expl_tname name new = expl_tname name' new' -> name = name' /\ new = new'.
Proof.
  intros H H' He. pose proof (proj1 expl_check) as Hc. rewrite forallb_forall in Hc. specialize (Hc _ (expl_in_all name new H)).
  rewrite forallb_forall in Hc. specialize (Hc _ (expl_in_all name' new' H')). cbn [fst snd] in Hc.
  rewrite He, String.eqb_refl in Hc. cbn [implb] in Hc. apply andb_true_iff in Hc. destruct Hc as [H1 H2].
  apply String.eqb_eq in H1. apply eqb_prop in H2. auto.
Qed.
Lemma in_isa_all' cls letters new : any_cls cls -> In letters letter_table -> In (cls, (letters, new)) isa_all.
Proof. exact (in_isa_all cls letters new). Qed.
Lemma expl_isa_neq name new cls letters new' : In name expl_names -> any_cls cls -> In letters letter_table ->
  expl_tname name new <> rname cls letters new'.
Proof.
  intros H Hc Hl He. pose proof (proj1 (proj2 expl_check)) as Hk. rewrite forallb_forall in Hk. specialize (Hk _ (expl_in_all name new H)).
  rewrite forallb_forall in Hk. specialize (Hk _ (in_isa_all cls letters new' Hc Hl)). cbn [fst snd] in Hk.
  rewrite He, String.eqb_refl in Hk. discriminate Hk.
Qed.
Lemma expl_alias_neq name new name' new' : In name expl_names -> In name' alias_names ->
  expl_tname name new <> alias_tname name' new'.
Proof.
  intros H H' He. pose proof (proj1 (proj2 (proj2 expl_check))) as Hk. rewrite forallb_forall in Hk. specialize (Hk _ (expl_in_all name new H)).
  rewrite forallb_forall in Hk. specialize (Hk _ (alias_in_all name' new' H')). cbn [fst snd] in Hk.
  rewrite He, String.eqb_refl in Hk. discriminate Hk.
Qed.
Lemma expl_not_pcname name new : In name expl_names -> expl_tname name new <> "pc".
Proof.
  intros H He. pose proof (proj1 (proj2 (proj2 (proj2 expl_check)))) as Hk. rewrite forallb_forall in Hk. specialize (Hk _ (expl_in_all name new H)).
  cbn [fst snd] in Hk. rewrite He in Hk. discriminate Hk.
Qed.
Lemma expl_facts name new : In name expl_names ->
  explicit_reg_info name new = Some (expl_op name new, expl_w name) /\ is_rexpl (expl_op name new) new = true /\ okw (expl_w name).
Proof.
  intros H. pose proof (proj2 (proj2 (proj2 (proj2 expl_check)))) as Hk. rewrite forallb_forall in Hk. specialize (Hk _ (expl_in_all name new H)).
  cbn [fst snd] in Hk. unfold expl_op. destruct (explicit_reg_info name new) as [[r w]|]; [|discriminate Hk].
  apply andb_true_iff in Hk. destruct Hk as [Hk H3]. apply andb_true_iff in Hk. destruct Hk as [H1 H2].
  apply N.eqb_eq in H2. subst w. split; [reflexivity|]. split; [exact H1|].
  apply orb_true_iff in H3. destruct H3 as [H3 | H3]; apply N.eqb_eq in H3; rewrite H3; unfold okw; auto.
Qed.
(* the C semantics is given the table of the explicit registers *)
Definition xi_ok (xi : string -> bool -> option (regop * N)) : Prop :=
  forall name new, In name expl_names -> xi name new = explicit_reg_info name new.
Lemma xi_ok_std : xi_ok explicit_reg_info.
Proof. intros name new _. reflexivity. Qed.

(* an entry of the model's register table, as the fragment creates it: for an ISA operand, or for an alias *)
Definition isa_entry (n : string) (ri : reginfo) : Prop :=
  exists cls letters acc new, reg_cls new cls /\ access_of_letters letters = Some acc /\ n = rname cls letters new /\
    r_op ri = rop cls letters new /\ r_ty ri = ty_int true (dest_w cls acc) /\ r_pc ri = false /\ r_new ri = new /\
    write_only (r_acc ri) = write_only acc /\ r_acc ri <> AUnknown.
Definition alias_entry (n : string) (ri : reginfo) : Prop :=
  exists name new, In name alias_names /\ n = alias_tname name new /\ r_op ri = alias_op name new /\
    r_ty ri = ty_int false (alias_w name) /\ r_pc ri = false /\ r_new ri = new.
(* the program counter alias, read only: its reads are emitted as the packet address as long as it is not written *)
Definition pc_entry (n : string) (ri : reginfo) : Prop :=
  n = "pc" /\ r_op ri = pc_op /\ r_ty ri = ty_int false 32 /\ r_pc ri = true /\ r_new ri = false /\ r_acc ri = AUnknown.
Definition expl_entry (n : string) (ri : reginfo) : Prop :=
  exists name new, In name expl_names /\ n = expl_tname name new /\ r_op ri = expl_op name new /\
    r_ty ri = ty_int true (expl_w name) /\ r_pc ri = false /\ r_new ri = new.
Definition entry_ok (n : string) (ri : reginfo) : Prop := isa_entry n ri \/ alias_entry n ri \/ pc_entry n ri \/ expl_entry n ri.
(* which kind an entry is, is decided by its name *)
Lemma entry_isa n ri cls letters new : entry_ok n ri -> any_cls cls -> In letters letter_table -> n = rname cls letters new -> isa_entry n ri.
Proof.
  intros [H | [[nm [nw [Hin [Hn _]]]] | [[Hn _] | [nm [nw [Hin [Hn _]]]]]]] Hc Hl He; [exact H | exfalso | exfalso | exfalso].
  - rewrite He in Hn. exact (alias_isa_neq nm nw cls letters new Hin Hc Hl (eq_sym Hn)).
  - rewrite He in Hn. exact (isa_not_pcname cls letters new Hc Hl Hn).
  - rewrite He in Hn. exact (expl_isa_neq nm nw cls letters new Hin Hc Hl (eq_sym Hn)).
Qed.
Lemma entry_alias n ri name new : entry_ok n ri -> In name alias_names -> n = alias_tname name new -> alias_entry n ri.
Proof.
  intros [[cls' [l' [acc' [new' [Hc' [Ha' [Hn _]]]]]]] | [H | [[Hn _] | [nm [nw [Hin' [Hn _]]]]]]] Hin He; [exfalso | exact H | exfalso | exfalso].
  - rewrite He in Hn. exact (alias_isa_neq name new cls' l' new' Hin (reg_cls_any _ _ Hc') (access_in_table _ _ Ha') Hn).
  - rewrite He in Hn. exact (alias_not_pcname name new Hin Hn).
  - rewrite He in Hn. exact (expl_alias_neq nm nw name new Hin' Hin (eq_sym Hn)).
Qed.
Lemma entry_pc n ri : entry_ok n ri -> n = "pc" -> pc_entry n ri.
Proof.
  intros [[cls' [l' [acc' [new' [Hc' [Ha' [Hn _]]]]]]] | [[nm [nw [Hin [Hn _]]]] | [H | [nm [nw [Hin [Hn _]]]]]]] He; [exfalso | exfalso | exact H | exfalso].
  - rewrite He in Hn. exact (isa_not_pcname cls' l' new' (reg_cls_any _ _ Hc') (access_in_table _ _ Ha') (eq_sym Hn)).
  - rewrite He in Hn. exact (alias_not_pcname nm nw Hin (eq_sym Hn)).
  - rewrite He in Hn. exact (expl_not_pcname nm nw Hin (eq_sym Hn)).
Qed.
Lemma entry_expl n ri name new : entry_ok n ri -> In name expl_names -> n = expl_tname name new -> expl_entry n ri.
Proof.
  intros [[cls' [l' [acc' [new' [Hc' [Ha' [Hn _]]]]]]] | [[nm [nw [Hin' [Hn _]]]] | [[Hn _] | H]]] Hin He; [exfalso | exfalso | exfalso | exact H].
  - rewrite He in Hn. exact (expl_isa_neq name new cls' l' new' Hin (reg_cls_any _ _ Hc') (access_in_table _ _ Ha') Hn).
  - rewrite He in Hn. exact (expl_alias_neq name new nm nw Hin Hin' Hn).
  - rewrite He in Hn. exact (expl_not_pcname name new Hin Hn).
Qed.

Definition regs_ok (regs : list (string * reginfo)) : Prop :=
  forall n ri, lookup_reg_info n regs = Some ri -> entry_ok n ri.
(* a later table: what finalisation (Lower.reg_read / reg_handle) looks at is unchanged, except that an entry whose
   access kind is still unknown (an alias that has not been written yet) may become a written one *)
Definition acc_le (pc : bool) (a a' : access) : Prop :=
  (pc = false /\ a = AUnknown) \/ (write_only a' = write_only a /\ (a <> AUnknown -> a' <> AUnknown)).
Definition regs_le (regs regs' : list (string * reginfo)) : Prop :=
  forall n ri, lookup_reg_info n regs = Some ri ->
    exists ri', lookup_reg_info n regs' = Some ri' /\ r_op ri' = r_op ri /\ r_pc ri' = r_pc ri /\ r_new ri' = r_new ri /\
                acc_le (r_pc ri) (r_acc ri) (r_acc ri').

Lemma acc_le_refl pc a : acc_le pc a a.
Proof. unfold acc_le. right. auto. Qed.
Lemma acc_le_trans pc a b c : acc_le pc a b -> acc_le pc b c -> acc_le pc a c.
Proof.
  unfold acc_le. intros [H1 | [W1 H1]] H2; [left; exact H1|]. destruct H2 as [[Hp H2] | [W2 H2]].
  - left. split; [exact Hp|]. destruct a; try reflexivity; exfalso; apply H1; try discriminate; exact H2.
  - right. split; [congruence | auto].
Qed.
Lemma regs_le_refl r : regs_le r r.
Proof. intros n ri H. exists ri. auto using acc_le_refl. Qed.
Lemma regs_le_trans a b c : regs_le a b -> regs_le b c -> regs_le a c.
Proof.
  intros H1 H2 n ri H. destruct (H1 n ri H) as [ri1 [L1 [O1 [P1 [N1 W1]]]]]. destruct (H2 n ri1 L1) as [ri2 [L2 [O2 [P2 [N2 W2]]]]].
  exists ri2. split; [exact L2|]. split; [congruence|]. split; [congruence|]. split; [congruence|]. rewrite P1 in W2. eapply acc_le_trans; eassumption.
Qed.
Lemma regs_ok_nil : regs_ok [].
Proof. intros n ri H. discriminate H. Qed.

Lemma lookup_reg_info_app n l k v :
  lookup_reg_info n (l ++ [(k, v)]) =
  match lookup_reg_info n l with Some r => Some r | None => if String.eqb k n then Some v else None end.
Proof.
  induction l as [|[k0 v0] t IH]; cbn [app lookup_reg_info]; [reflexivity|].
  destruct (String.eqb k0 n); [reflexivity | exact IH].
Qed.

Lemma lookup_reg_info_update n name v l :
  lookup_reg_info n (update_reg_info name v l) =
  match lookup_reg_info n l with None => None | Some r => if String.eqb name n then Some v else Some r end.
Proof.
  induction l as [|[k o] t IH]; cbn [update_reg_info lookup_reg_info]; [reflexivity|].
  destruct (String.eqb_spec k name) as [->|Hkn]; cbn [lookup_reg_info].
  - destruct (String.eqb name n); [reflexivity | destruct (lookup_reg_info n t); reflexivity].
  - destruct (String.eqb_spec k n) as [->|Hk]; [|exact IH].
    destruct (String.eqb_spec name n) as [->|_]; [congruence | reflexivity].
Qed.

Definition norem (rem : list string) : Prop := forall n, existsb (String.eqb (reg_prefix +++ n)) rem = false.
Lemma norem_nil : norem [].
Proof. intros n. reflexivity. Qed.

(* what the model state may change while a statement or expression of the fragment is lowered: nothing is
   pending, removed or numbered; the immediate prologue and the register table only grow *)
Definition st_ext (s s' : lstate) : Prop :=
  st_pending s' = st_pending s /\ (st_hcount s <= st_hcount s')%N /\ incl (st_imms s) (st_imms s') /\
  st_removed s' = st_removed s /\ (st_nonempty s = true -> st_nonempty s' = true) /\
  regs_le (st_regs s) (st_regs s').
Lemma st_ext_refl s : st_ext s s.
Proof. unfold st_ext. repeat split; auto using incl_refl, regs_le_refl, N.le_refl. Qed.
Lemma st_ext_trans a b c : st_ext a b -> st_ext b c -> st_ext a c.
Proof.
  intros [A1 [A2 [A3 [A4 [A5 A6]]]]] [B1 [B2 [B3 [B4 [B5 B6]]]]].
  repeat split; try congruence; eauto using incl_tran, regs_le_trans, N.le_trans.
Qed.

(* holder.is_empty() is false as soon as anything was registered *)
Definition started (st : lstate) : Prop := st_nonempty st = true \/ (st_vars st = [] /\ st_regs st = []).

(* reading / naming a register operand: Lower.lower_reg *)
Lemma lower_reg_ok cls letters acc new st : reg_cls new cls -> access_of_letters letters = Some acc -> regs_ok (st_regs st) ->
  exists st', lower_reg cls letters new st =
                OK (mkpv (PRaw ("$reg:" +++ rname cls letters new)) (ty_int true (dest_w cls acc)) (KReg (rname cls letters new)) [], st') /\
    st_vars st' = st_vars st /\ st_imms st' = st_imms st /\ st_ext st st' /\ regs_ok (st_regs st') /\
    (started st -> st_nonempty st' = true) /\
    exists ri, lookup_reg_info (rname cls letters new) (st_regs st') = Some ri.
Proof.
  intros Hc Ha Hr. destruct (reg_cls_widths new cls Hc) as [Hrw _].
  unfold lower_reg. rewrite Ha, Hrw. cbv zeta.
  change (if is_pair acc then (cls_w cls * 2)%N else cls_w cls) with (dest_w cls acc).
  change (cls +++ letters +++ (if new then "_new" else "")) with (rname cls letters new).
  change (if String.eqb cls "N" then RNreg (substring 0 1 letters) else RIsa cls (substring 0 1 letters) new) with (rop cls letters new).
  unfold add_reg, bind, get.
  destruct (lookup_reg_info (rname cls letters new) (st_regs st)) as [old|] eqn:El.
  - exists st. split.
    { unfold ret, reg_value.
      destruct (entry_isa _ _ cls letters new (Hr _ _ El) (reg_cls_any _ _ Hc) (access_in_table _ _ Ha) eq_refl)
        as [cls' [l' [acc' [new' [Hc' [Ha' [Hn [_ [Ht _]]]]]]]]].
      destruct (rname_inj _ _ _ _ _ _ (reg_cls_any _ _ Hc) (reg_cls_any _ _ Hc') (access_in_table _ _ Ha) (access_in_table _ _ Ha') Hn)
        as [<- [<- <-]].
      rewrite Ha in Ha'. injection Ha' as <-. rewrite Ht. reflexivity. }
    split; [reflexivity|]. split; [reflexivity|]. split; [apply st_ext_refl|]. split; [exact Hr|].
    split; [|eauto].
    intros [Hs | [_ Hs]]; [exact Hs|]. rewrite Hs in El. discriminate El.
  - eexists. split; [reflexivity|]. cbn [st_vars st_regs st_nonempty st_imms].
    split; [reflexivity|]. split; [reflexivity|].
    split.
    { unfold st_ext; cbn [st_pending st_hcount st_imms st_removed st_nonempty st_regs].
      repeat split; auto using incl_refl, N.le_refl. intros n ri H. exists ri. rewrite lookup_reg_info_app, H. auto using acc_le_refl. }
    split.
    { intros n ri. rewrite lookup_reg_info_app. destruct (lookup_reg_info n (st_regs st)) eqn:Eln.
      - intros H; injection H as <-. exact (Hr _ _ Eln).
      - destruct (String.eqb_spec (rname cls letters new) n) as [<-|_]; [|discriminate].
        intros H; injection H as <-. left. exists cls, letters, acc, new. cbn [r_op r_ty r_pc r_new r_acc].
        destruct (access_write_only _ _ Ha) as [_ Hu]. auto 12. }
    split; [reflexivity|].
    rewrite lookup_reg_info_app, El, String.eqb_refl. eauto.
Qed.

(* reading / naming an alias operand: Lower.lower_operand on OAlias *)
Lemma lower_alias_ok cfg name new st : In name alias_names -> regs_ok (st_regs st) ->
  exists st', lower_operand cfg (OAlias name new) st =
                OK (IPure (mkpv (PRaw ("$reg:" +++ alias_tname name new)) (ty_int false (alias_w name)) (KReg (alias_tname name new)) []), st') /\
    st_vars st' = st_vars st /\ st_imms st' = st_imms st /\ st_ext st st' /\ regs_ok (st_regs st') /\
    (started st -> st_nonempty st' = true) /\
    exists ri, lookup_reg_info (alias_tname name new) (st_regs st') = Some ri.
Proof.
  intros Hin Hr. destruct (alias_facts name Hin) as [Hw [Hpc _]].
  cbn [lower_operand]. cbv zeta. rewrite Hw, Hpc. cbn [andb].
  change (lower_ascii name +++ (if new then "_new" else "")) with (alias_tname name new).
  change (RAlias ("HEX_REG_ALIAS_" +++ name) new) with (alias_op name new).
  unfold add_reg, bind, get.
  destruct (lookup_reg_info (alias_tname name new) (st_regs st)) as [old|] eqn:El.
  - exists st. split.
    { unfold ret, reg_value.
      destruct (entry_alias _ _ name new (Hr _ _ El) Hin eq_refl) as [nm [nw [Hin' [Hn [_ [Ht _]]]]]].
      destruct (alias_tname_inj _ _ _ _ Hin Hin' Hn) as [<- <-]. rewrite Ht. reflexivity. }
    split; [reflexivity|]. split; [reflexivity|]. split; [apply st_ext_refl|]. split; [exact Hr|].
    split; [|eauto].
    intros [Hs | [_ Hs]]; [exact Hs|]. rewrite Hs in El. discriminate El.
  - eexists. split; [reflexivity|]. cbn [st_vars st_regs st_nonempty st_imms].
    split; [reflexivity|]. split; [reflexivity|].
    split.
    { unfold st_ext; cbn [st_pending st_hcount st_imms st_removed st_nonempty st_regs].
      repeat split; auto using incl_refl, N.le_refl. intros n ri H. exists ri. rewrite lookup_reg_info_app, H. auto using acc_le_refl. }
    split.
    { intros n ri. rewrite lookup_reg_info_app. destruct (lookup_reg_info n (st_regs st)) eqn:Eln.
      - intros H; injection H as <-. exact (Hr _ _ Eln).
      - destruct (String.eqb_spec (alias_tname name new) n) as [<-|_]; [|discriminate].
        intros H; injection H as <-. right. left. exists name, new. cbn [r_op r_ty r_pc r_new r_acc]. auto 10. }
    split; [reflexivity|].
    rewrite lookup_reg_info_app, El, String.eqb_refl. eauto.
Qed.

(* reading / naming an explicit register: Lower.lower_operand on OExplicit *)
Lemma lower_expl_ok cfg name new st : In name expl_names -> regs_ok (st_regs st) ->
  exists st', lower_operand cfg (OExplicit name new) st =
                OK (IPure (mkpv (PRaw ("$reg:" +++ expl_tname name new)) (ty_int true (expl_w name)) (KReg (expl_tname name new)) []), st') /\
    st_vars st' = st_vars st /\ st_imms st' = st_imms st /\ st_ext st st' /\ regs_ok (st_regs st') /\
    (started st -> st_nonempty st' = true) /\
    exists ri, lookup_reg_info (expl_tname name new) (st_regs st') = Some ri.
Proof.
  intros Hin Hr. destruct (expl_facts name new Hin) as [Hinfo _].
  cbn [lower_operand]. rewrite Hinfo.
  change (name +++ (if new then "_new" else "")) with (expl_tname name new).
  unfold add_reg, bind, get.
  destruct (lookup_reg_info (expl_tname name new) (st_regs st)) as [old|] eqn:El.
  - exists st. split.
    { unfold ret, reg_value.
      destruct (entry_expl _ _ name new (Hr _ _ El) Hin eq_refl) as [nm [nw [Hin' [Hn [_ [Ht _]]]]]].
      destruct (expl_tname_inj _ _ _ _ Hin Hin' Hn) as [<- <-]. rewrite Ht. reflexivity. }
    split; [reflexivity|]. split; [reflexivity|]. split; [apply st_ext_refl|]. split; [exact Hr|].
    split; [|eauto].
    intros [Hs | [_ Hs]]; [exact Hs|]. rewrite Hs in El. discriminate El.
  - eexists. split; [reflexivity|]. cbn [st_vars st_regs st_nonempty st_imms].
    split; [reflexivity|]. split; [reflexivity|].
    split.
    { unfold st_ext; cbn [st_pending st_hcount st_imms st_removed st_nonempty st_regs].
      repeat split; auto using incl_refl, N.le_refl. intros n ri H. exists ri. rewrite lookup_reg_info_app, H. auto using acc_le_refl. }
    split.
    { intros n ri. rewrite lookup_reg_info_app. destruct (lookup_reg_info n (st_regs st)) eqn:Eln.
      - intros H; injection H as <-. exact (Hr _ _ Eln).
      - destruct (String.eqb_spec (expl_tname name new) n) as [<-|_]; [|discriminate].
        intros H; injection H as <-. right. right. right. exists name, new. cbn [r_op r_ty r_pc r_new r_acc]. auto 10. }
    split; [reflexivity|].
    rewrite lookup_reg_info_app, El, String.eqb_refl. eauto.
Qed.

(* reading the program counter alias: Lower.lower_operand on OAlias "PC" *)
Lemma lower_pc_ok cfg st : regs_ok (st_regs st) ->
  exists st', lower_operand cfg (OAlias "PC" false) st =
                OK (IPure (mkpv (PRaw ("$reg:" +++ "pc")) (ty_int false 32) (KReg "pc") []), st') /\
    st_vars st' = st_vars st /\ st_imms st' = st_imms st /\ st_ext st st' /\ regs_ok (st_regs st') /\
    (started st -> st_nonempty st' = true) /\
    exists ri, lookup_reg_info "pc" (st_regs st') = Some ri.
Proof.
  intros Hr. cbn [lower_operand]. cbv zeta.
  change (lower_ascii "PC") with "pc".
  change (if existsb (String.eqb "pc") ["upcycle"; "pktcount"; "utimer"] then 64%N else 32%N) with 32%N.
  change ("pc" +++ "") with "pc". change (String.eqb "pc" "pc" && negb false) with true.
  change (RAlias ("HEX_REG_ALIAS_" +++ "PC") false) with pc_op.
  unfold add_reg, bind, get.
  destruct (lookup_reg_info "pc" (st_regs st)) as [old|] eqn:El.
  - exists st. split.
    { unfold ret, reg_value. destruct (entry_pc _ _ (Hr _ _ El) eq_refl) as [_ [_ [Ht _]]]. rewrite Ht. reflexivity. }
    split; [reflexivity|]. split; [reflexivity|]. split; [apply st_ext_refl|]. split; [exact Hr|].
    split; [|eauto].
    intros [Hs | [_ Hs]]; [exact Hs|]. rewrite Hs in El. discriminate El.
  - eexists. split; [reflexivity|]. cbn [st_vars st_regs st_nonempty st_imms].
    split; [reflexivity|]. split; [reflexivity|].
    split.
    { unfold st_ext; cbn [st_pending st_hcount st_imms st_removed st_nonempty st_regs].
      repeat split; auto using incl_refl, N.le_refl. intros n ri H. exists ri. rewrite lookup_reg_info_app, H. auto using acc_le_refl. }
    split.
    { intros n ri. rewrite lookup_reg_info_app. destruct (lookup_reg_info n (st_regs st)) eqn:Eln.
      - intros H; injection H as <-. exact (Hr _ _ Eln).
      - destruct (String.eqb_spec "pc" n) as [<-|_]; [|discriminate].
        intros H; injection H as <-. right. right. unfold pc_entry. cbn [r_op r_ty r_pc r_new r_acc]. auto 10. }
    split; [reflexivity|].
    rewrite lookup_reg_info_app, El, String.eqb_refl. eauto.
Qed.

(* ================================================================== Layer 2: values, and the conversion helpers of the model *)
Definition cval_of (t : vtype) (v : val) : cval :=
  match v with VB b => (int_t, if b then 1 else 0) | VBv w z => ((vt_sg t, w), z) end.
Definition shape (t : vtype) (v : val) : Prop :=
  if vt_bool t then exists b, v = VB b else exists z, v = VBv (vt_w t) z /\ 0 <= z < pow2 (vt_w t).
Definition intkind (k : kind) : Prop :=
  match k with KVar _ | KReg _ | KExec | KTmp _ false | KLit _ false | KMacro => True | _ => False end.
Definition boolkind (k : kind) : Prop :=
  match k with KBoolOp | KLit _ true => True | _ => False end.
(* an integer type, possibly carrying the HYBRID_LVAR flag (the compiler sets it on the type of a variable it has applied
   ++ / -- to; nothing in the repaired translation reads it): [ity t sg w] = "t is ty_int sg w up to that flag" *)
Definition ty_h (h sg : bool) (w : N) : vtype := mkvt sg w false false false false h false false.
Definition ity (t : vtype) (sg : bool) (w : N) : Prop := t = ty_h (vt_hyb t) sg w.
Lemma ity_int sg w : ity (ty_int sg w) sg w. Proof. reflexivity. Qed.
Lemma ity_h h sg w : ity (ty_h h sg w) sg w. Proof. reflexivity. Qed.
Lemma ity_eq t sg w : t = ty_int sg w -> ity t sg w. Proof. intros ->. reflexivity. Qed.
Lemma ity_const t sg w : ity t sg w -> vt_const t = false. Proof. intros ->. reflexivity. Qed.
Lemma ity_inj t sg w sg' w' : ity t sg w -> ity t sg' w' -> sg = sg' /\ w = w'.
Proof. unfold ity, ty_h. intros H1 H2. rewrite H1 in H2. injection H2. auto. Qed.

(* erasing the flag *)
Definition unhyb (t : vtype) : vtype :=
  mkvt (vt_sg t) (vt_w t) (vt_bool t) (vt_void t) (vt_ext t) (vt_float t) false (vt_const t) (vt_tok t).
Definition unhyb_o (t : option vtype) : option vtype := option_map unhyb t.
Lemma unhyb_int sg w : unhyb (ty_int sg w) = ty_int sg w. Proof. reflexivity. Qed.
Lemma unhyb_ity t sg w : unhyb t = ty_int sg w -> ity t sg w.
Proof. destruct t as [a b c d e f g h i]. unfold unhyb, ity, ty_h, ty_int. cbn. intros H. injection H as -> -> -> -> -> -> -> ->. reflexivity. Qed.

(* the pvals of the fragment: boolean or integer typed, of the kinds the fragment produces, without hybrid temporaries *)
Definition goodpv (p : pval) : Prop :=
  (pv_ty p = ty_bool /\ boolkind (pv_kind p) /\ pv_tmps p = []) \/
  (exists sg w, okw w /\ ity (pv_ty p) sg w /\ intkind (pv_kind p) /\ pv_tmps p = []).
Lemma goodpv_tmps p : goodpv p -> pv_tmps p = [].
Proof. intros [[_ [_ H]] | [sg [w [_ [_ [_ H]]]]]]; exact H. Qed.
Lemma goodpv_tmps2 a c : goodpv a -> goodpv c -> pv_tmps a ++ pv_tmps c = [].
Proof. intros Ha Hc. rewrite (goodpv_tmps a Ha), (goodpv_tmps c Hc). reflexivity. Qed.

(* the type rules on integer types that may carry the hybrid flag: the flag of each operand is kept *)
Lemma promoted_vtype_h h sg w : okw w ->
  exists h', promoted_vtype (ty_h h sg w) = Some (ty_h h' (fst (promote (sg, w))) (snd (promote (sg, w)))).
Proof. intros H. okw_cases H; destruct sg, h; vm_compute; eexists; reflexivity. Qed.
Lemma c11_vtypes_h h1 s1 w1 h2 s2 w2 : okw w1 -> okw w2 ->
  c11_vtypes (ty_h h1 s1 w1) (ty_h h2 s2 w2) =
  Some (ty_h h1 (fst (uac (s1, w1) (s2, w2))) (snd (uac (s1, w1) (s2, w2))),
        ty_h h2 (fst (uac (s1, w1) (s2, w2))) (snd (uac (s1, w1) (s2, w2)))).
Proof. intros H1 H2. okw_cases H1; okw_cases H2; destruct s1, s2, h1, h2; vm_compute; reflexivity. Qed.

Lemma okw32 : okw 32. Proof. unfold okw; auto. Qed.
Lemma okw64 : okw 64. Proof. unfold okw; auto. Qed.
Global Hint Resolve okw32 okw64 : core.


(* ------------------------------------------------------------------ the macro table *)
(* the signatures of QEMU's pure bit-field macros (bitops.h / bswap.h) as the compiler's macro table
   (Resources/macros.json, gen/Resources.macs0) declares them: RzIL head, return type, parameter types *)
Definition std_macs : list macsig :=
  [ mkmac "bswap16" "BSWAP16" (ty_int false 16) [ty_int false 16];
    mkmac "bswap32" "BSWAP32" (ty_int false 32) [ty_int false 32];
    mkmac "bswap64" "BSWAP64" (ty_int false 64) [ty_int false 64];
    mkmac "extract64" "EXTRACT64" (ty_int false 64) [ty_int false 64; ty_int true 32; ty_int true 32];
    mkmac "sextract64" "SEXTRACT64" (ty_int true 64) [ty_int false 64; ty_int true 32; ty_int true 32];
    mkmac "deposit64" "DEPOSIT64" (ty_int false 64) [ty_int false 64; ty_int true 32; ty_int true 32; ty_int false 64];
    mkmac "deposit32" "DEPOSIT32" (ty_int false 32) [ty_int false 32; ty_int true 32; ty_int true 32; ty_int false 32];
    mkmac "extract32" "EXTRACT32" (ty_int false 32) [ty_int false 32; ty_int true 32; ty_int true 32] ].
(* a macro table that gives these eight names their standard signature (whatever else it contains) *)
Definition macs_std (macs : list macsig) : Prop :=
  forall sg, In sg std_macs -> find (fun s => String.eqb (mac_name s) (mac_name sg)) macs = Some sg.
Lemma macs_std_self : macs_std std_macs.
Proof. intros sg H. cbn [std_macs In] in H. repeat (destruct H as [<- | H]; [reflexivity|]). contradiction. Qed.

(* ------------------------------------------------------------------ calls that are not sub-routine calls *)
(* `sizeof(e)` and the call statement `STORE_SLOT_CANCELLED(a, b)` are written like calls of a sub-routine; the compiler
   treats them specially only when its sub-routine table (Lower.cfg_subs) does not declare the name, and CSem looks the
   name up in its own table of sub-routine bodies.  The theorems assume that neither table knows the two names. *)
Definition ext_calls : list string := ["STORE_SLOT_CANCELLED"; "sizeof"].
Definition subs_ext (subsigs : list subsig) : Prop :=
  forall f, In f ext_calls -> find (fun s => String.eqb (sub_name s) f) subsigs = None.
Definition csub_ext (csub : csubs) : Prop := forall f, In f ext_calls -> csub f = None.
Lemma subs_ext_nil : subs_ext [].
Proof. intros f _. reflexivity. Qed.
Lemma csub_ext_none : csub_ext (fun _ => None).
Proof. intros f _. reflexivity. Qed.

(* ------------------------------------------------------------------ the model state after `touch` *)
Definition touched (st : lstate) : lstate :=
  mkst (st_vars st) (st_regs st) (st_pending st) (st_hcount st) (st_imms st) true (st_removed st).
Lemma touch_eq st : touch st = OK (tt, touched st).
Proof. reflexivity. Qed.
Lemma st_ext_touched st : st_ext st (touched st).
Proof. unfold st_ext, touched; cbn. repeat split; auto using incl_refl, regs_le_refl, N.le_refl. Qed.

(* ------------------------------------------------------------------ memory reads *)
Lemma read_bytes_rel (E : cenv) cs ms : cs_mem cs = mem ms -> (forall a, ce_mem0 E a = mem0 ms a) ->
  forall n a, c_read_bytes E cs a n = read_bytes ms a n.
Proof.
  intros Hm H0. unfold c_read_bytes. induction n as [|n IH]; intros a; [reflexivity|].
  cbn [read_bytes]. rewrite <- IH. unfold read_byte. rewrite Hm, H0. reflexivity.
Qed.

(* ------------------------------------------------------------------ the bit-field macros: C (CSem.c_macro) against the IL (RzIL.app_sem) *)
Definition i32_t : cty := (true, 32%N).
Lemma i32_arg c s : conv i32_t c = (i32_t, s) -> 0 <= s < pow2 32 -> 0 <= vint (conv int_t c) -> vint (conv int_t c) = s.
Proof.
  change int_t with i32_t. intros -> Hs. unfold vint, i32_t. cbn [fst snd]. intros H. apply interp_nonneg; auto.
Qed.

Lemma extract_range w x s l : 0 <= extract w x s l < pow2 w.
Proof. unfold extract. apply wrap_range. Qed.

Lemma mac_extract64 cx cs cl x s l :
  conv (false, 64%N) cx = ((false, 64%N), x) -> conv i32_t cs = (i32_t, s) -> conv i32_t cl = (i32_t, l) ->
  0 <= s < pow2 32 -> 0 <= l < pow2 32 ->
  exists z, app_sem "EXTRACT64" [VBv 64 x; VBv 32 s; VBv 32 l] = Some (VBv 64 z) /\ 0 <= z < pow2 64 /\
    forall r, c_macro "extract64" [cx; cs; cl] = Some r -> r = ((false, 64%N), z).
Proof.
  intros Hx Hs Hl Rs Rl. eexists. split; [reflexivity|]. split; [apply extract_range|].
  intros r H. cbn [c_macro] in H. rewrite Hx in H. cbn [snd] in H.
  destruct ((0 <=? vint (conv int_t cs)) && (0 <? vint (conv int_t cl)) && (vint (conv int_t cs) + vint (conv int_t cl) <=? 64)) eqn:Ec; [|discriminate H].
  rewrite (i32_arg cs s Hs Rs) in H by lia. rewrite (i32_arg cl l Hl Rl) in H by lia.
  injection H as <-. unfold mkval. cbn [snd]. f_equal. unfold extract. apply wrap_idem.
Qed.

Lemma mac_extract32 cx cs cl x s l :
  conv (false, 32%N) cx = ((false, 32%N), x) -> conv i32_t cs = (i32_t, s) -> conv i32_t cl = (i32_t, l) ->
  0 <= s < pow2 32 -> 0 <= l < pow2 32 ->
  exists z, app_sem "EXTRACT32" [VBv 32 x; VBv 32 s; VBv 32 l] = Some (VBv 32 z) /\ 0 <= z < pow2 32 /\
    forall r, c_macro "extract32" [cx; cs; cl] = Some r -> r = ((false, 32%N), z).
Proof.
  intros Hx Hs Hl Rs Rl. eexists. split; [reflexivity|]. split; [apply extract_range|].
  intros r H. cbn [c_macro] in H. rewrite Hx in H. cbn [snd] in H.
  destruct ((0 <=? vint (conv int_t cs)) && (0 <? vint (conv int_t cl)) && (vint (conv int_t cs) + vint (conv int_t cl) <=? 32)) eqn:Ec; [|discriminate H].
  rewrite (i32_arg cs s Hs Rs) in H by lia. rewrite (i32_arg cl l Hl Rl) in H by lia.
  injection H as <-. unfold mkval. cbn [snd]. f_equal. unfold extract. apply wrap_idem.
Qed.

Lemma mac_sextract64 cx cs cl x s l :
  conv (false, 64%N) cx = ((false, 64%N), x) -> conv i32_t cs = (i32_t, s) -> conv i32_t cl = (i32_t, l) ->
  0 <= s < pow2 32 -> 0 <= l < pow2 32 ->
  exists z, app_sem "SEXTRACT64" [VBv 64 x; VBv 32 s; VBv 32 l] = Some (VBv 64 z) /\ 0 <= z < pow2 64 /\
    forall r, c_macro "sextract64" [cx; cs; cl] = Some r -> r = ((true, 64%N), z).
Proof.
  intros Hx Hs Hl Rs Rl. eexists. split; [reflexivity|]. split; [apply wrap_range|].
  intros r H. cbn [c_macro] in H. rewrite Hx in H. cbn [snd] in H.
  destruct ((0 <=? vint (conv int_t cs)) && (0 <? vint (conv int_t cl)) && (vint (conv int_t cs) + vint (conv int_t cl) <=? 64)) eqn:Ec; [|discriminate H].
  assert (El : vint (conv int_t cl) = l) by (apply (i32_arg cl l Hl Rl); lia).
  rewrite (i32_arg cs s Hs Rs) in H by lia. rewrite El in *.
  injection H as <-. unfold mkval. cbn [snd]. f_equal.
  assert (0 <? l = true) as -> by lia. reflexivity.
Qed.

Lemma mac_deposit32 cx cs cl cf x s l f :
  conv (false, 32%N) cx = ((false, 32%N), x) -> conv i32_t cs = (i32_t, s) -> conv i32_t cl = (i32_t, l) ->
  conv (false, 32%N) cf = ((false, 32%N), f) -> 0 <= s < pow2 32 -> 0 <= l < pow2 32 ->
  exists z, app_sem "DEPOSIT32" [VBv 32 x; VBv 32 s; VBv 32 l; VBv 32 f] = Some (VBv 32 z) /\ 0 <= z < pow2 32 /\
    forall r, c_macro "deposit32" [cx; cs; cl; cf] = Some r -> r = ((false, 32%N), z).
Proof.
  intros Hx Hs Hl Hf Rs Rl. eexists. split; [reflexivity|]. split; [apply wrap_range|].
  intros r H. cbn [c_macro] in H. rewrite Hx, Hf in H. cbn [snd] in H.
  destruct ((0 <=? vint (conv int_t cs)) && (0 <? vint (conv int_t cl)) && (vint (conv int_t cs) + vint (conv int_t cl) <=? 32)) eqn:Ec; [|discriminate H].
  rewrite (i32_arg cs s Hs Rs) in H by lia. rewrite (i32_arg cl l Hl Rl) in H by lia.
  injection H as <-. reflexivity.
Qed.

Lemma mac_deposit64 cx cs cl cf x s l f :
  conv (false, 64%N) cx = ((false, 64%N), x) -> conv i32_t cs = (i32_t, s) -> conv i32_t cl = (i32_t, l) ->
  conv (false, 64%N) cf = ((false, 64%N), f) -> 0 <= s < pow2 32 -> 0 <= l < pow2 32 ->
  exists z, app_sem "DEPOSIT64" [VBv 64 x; VBv 32 s; VBv 32 l; VBv 64 f] = Some (VBv 64 z) /\ 0 <= z < pow2 64 /\
    forall r, c_macro "deposit64" [cx; cs; cl; cf] = Some r -> r = ((false, 64%N), z).
Proof.
  intros Hx Hs Hl Hf Rs Rl. eexists. split; [reflexivity|]. split; [apply wrap_range|].
  intros r H. cbn [c_macro] in H. rewrite Hx, Hf in H. cbn [snd] in H.
  destruct ((0 <=? vint (conv int_t cs)) && (0 <? vint (conv int_t cl)) && (vint (conv int_t cs) + vint (conv int_t cl) <=? 64)) eqn:Ec; [|discriminate H].
  rewrite (i32_arg cs s Hs Rs) in H by lia. rewrite (i32_arg cl l Hl Rl) in H by lia.
  injection H as <-. reflexivity.
Qed.

Lemma mac_bswap16 cx x : conv (false, 16%N) cx = ((false, 16%N), x) -> 0 <= x < pow2 16 ->
  exists z, app_sem "BSWAP16" [VBv 16 x] = Some (VBv 16 z) /\ 0 <= z < pow2 16 /\
    forall r, c_macro "bswap16" [cx] = Some r -> r = ((false, 16%N), z).
Proof.
  intros Hx Rx. eexists. split; [reflexivity|]. rewrite pow2_16 in *. split; [lia|].
  intros r H. cbn [c_macro] in H. rewrite Hx in H. cbn [snd] in H. injection H as <-. unfold mkval. cbn [snd]. f_equal.
  apply wrap_small. rewrite pow2_16. lia.
Qed.
Lemma mac_bswap32 cx x : conv (false, 32%N) cx = ((false, 32%N), x) -> 0 <= x < pow2 32 ->
  exists z, app_sem "BSWAP32" [VBv 32 x] = Some (VBv 32 z) /\ 0 <= z < pow2 32 /\
    forall r, c_macro "bswap32" [cx] = Some r -> r = ((false, 32%N), z).
Proof.
  intros Hx Rx. eexists. split; [reflexivity|]. rewrite pow2_32 in *. split; [lia|].
  intros r H. cbn [c_macro] in H. rewrite Hx in H. cbn [snd] in H. injection H as <-. unfold mkval. cbn [snd]. f_equal.
  apply wrap_small. rewrite pow2_32. lia.
Qed.
Lemma mac_bswap64 cx x : conv (false, 64%N) cx = ((false, 64%N), x) -> 0 <= x < pow2 64 ->
  exists z, app_sem "BSWAP64" [VBv 64 x] = Some (VBv 64 z) /\ 0 <= z < pow2 64 /\
    forall r, c_macro "bswap64" [cx] = Some r -> r = ((false, 64%N), z).
Proof.
  intros Hx Rx. eexists. split; [reflexivity|]. rewrite pow2_64 in *. split; [lia|].
  intros r H. cbn [c_macro] in H. rewrite Hx in H. cbn [snd] in H. injection H as <-. unfold mkval. cbn [snd]. f_equal.
  apply wrap_small. rewrite pow2_64. lia.
Qed.

Section Correct.
  Variables (subsigs : list subsig) (macs : list macsig) (cret : option vtype) (hstart : N).
  (* the macro table gives QEMU's bit-field macros their standard signatures (only the lemmas about EMacro use this) *)
  Hypothesis Hmacs : macs_std macs.
  (* `sizeof` is not a compiled sub-routine (only the lemma about sizeof uses this) *)
  Hypothesis Hsubs : subs_ext subsigs.
  Local Notation cfg := (mkcfg all_fixes subsigs macs [] cret hstart).
  Variable rw : regwidth.
  (* the register table and the removed names against which the emitted term is finalised (Lower.fin_pure):
     register operands are resolved at emission time, from the FINAL access kind of the register *)
  Variables (R : list (string * reginfo)) (rem : list string).
  Local Notation fin := (fin_pure R rem).
  (* the immediates the behaviour uses (any set of letters; [imm_letter] = all the grammar has).  The model
     keeps immediates and declared locals in one table: no declared local may be named like one of them *)
  Variable IM : string -> bool.

  Definition sem (ms : mstate) (p : pval) (v : val) : Prop :=
    eval rw ms [] (fin (pv_term p)) = Some v /\ shape (pv_ty p) v.

  Lemma sem_bool ms p v : pv_ty p = ty_bool -> sem ms p v ->
    exists b, v = VB b /\ eval rw ms [] (fin (pv_term p)) = Some (VB b).
  Proof. intros Ht [He Hs]. rewrite Ht in Hs. destruct Hs as [b ->]. eauto. Qed.
  Lemma ity_inv t sg w : ity t sg w -> exists h, t = ty_h h sg w.
  Proof. intros H. exists (vt_hyb t). exact H. Qed.

  Lemma sem_int ms p v sg w : ity (pv_ty p) sg w -> sem ms p v ->
    exists z, v = VBv w z /\ 0 <= z < pow2 w /\ eval rw ms [] (fin (pv_term p)) = Some (VBv w z).
  Proof. intros Ht [He Hs]. rewrite Ht in Hs. destruct Hs as [z [-> Hz]]. eauto. Qed.

  Lemma shape_h h sg w z : 0 <= z < pow2 w -> shape (ty_h h sg w) (VBv w z).
  Proof. intros. unfold shape. cbn [vt_bool ty_h vt_w]. eauto. Qed.
  Lemma shape_int sg w z : 0 <= z < pow2 w -> shape (ty_int sg w) (VBv w z).
  Proof. apply (shape_h false). Qed.
  Lemma shape_ity t sg w z : ity t sg w -> 0 <= z < pow2 w -> shape t (VBv w z).
  Proof. intros Ht. rewrite Ht. apply shape_h. Qed.
  Lemma shape_bool b : shape ty_bool (VB b).
  Proof. unfold shape. cbn [vt_bool ty_bool]. eauto. Qed.
  Definition cty_of (t : vtype) : cty := if vt_bool t then int_t else (vt_sg t, vt_w t).

  Lemma fst_cval_of t v : shape t v -> fst (cval_of t v) = cty_of t.
  Proof.
    unfold shape, cty_of. destruct (vt_bool t).
    - intros [b ->]. reflexivity.
    - intros [z [-> _]]. reflexivity.
  Qed.

  Lemma cval_of_ity t sg w z : ity t sg w -> cval_of t (VBv w z) = ((sg, w), z).
  Proof. intros ->. reflexivity. Qed.
  Lemma cty_of_ity t sg w : ity t sg w -> cty_of t = (sg, w).
  Proof. intros ->. reflexivity. Qed.

  Lemma wfc_cval_of p v : goodpv p -> shape (pv_ty p) v -> wfc (cval_of (pv_ty p) v).
  Proof.
    intros [[Ht _] | [sg [w [Hw [Ht _]]]]] Hs; rewrite Ht in *.
    - destruct Hs as [b ->]. cbn. split; [auto|]. destruct b; cbn; lia.
    - destruct Hs as [z [-> Hz]]. cbn in *. split; auto.
  Qed.

  (* constructors of goodpv *)
  Lemma goodpv_i p sg w : okw w -> ity (pv_ty p) sg w -> intkind (pv_kind p) -> pv_tmps p = [] -> goodpv p.
  Proof. intros. right. exists sg, w. auto. Qed.
  Lemma goodpv_b p : pv_ty p = ty_bool -> boolkind (pv_kind p) -> pv_tmps p = [] -> goodpv p.
  Proof. intros. left. auto. Qed.
  (* finishes a goodpv goal once the disjunct and the witnesses are chosen *)
  Ltac gp := cbn [pv_ty pv_kind pv_tmps intkind boolkind app]; repeat split;
             auto using ity_int, ity_h, goodpv_tmps2, goodpv_tmps; try exact I; try reflexivity.

  Lemma vtype_eqb_h h1 s1 w1 h2 s2 w2 : vtype_eqb (ty_h h1 s1 w1) (ty_h h2 s2 w2) = true -> s1 = s2 /\ w1 = w2.
  Proof. unfold vtype_eqb; cbn. intros H. split; [destruct s1, s2; cbn in H; try lia; reflexivity | lia]. Qed.
  Lemma vtype_eqb_int s1 w1 s2 w2 : vtype_eqb (ty_int s1 w1) (ty_int s2 w2) = true -> s1 = s2 /\ w1 = w2.
  Proof. apply (vtype_eqb_h false s1 w1 false s2 w2). Qed.

  (* Cast to an integer type T (= ty_int sg w up to the hybrid flag) *)
  Lemma init_a_cast_gen T sg w p st : okw w -> ity T sg w -> goodpv p ->
    exists p', init_a_cast cfg T p st = OK (p', st) /\ goodpv p' /\ ity (pv_ty p') sg w /\
      (forall v b, pv_kind p' = KLit v b -> p' = p) /\
      forall ms v, sem ms p v ->
        exists v', sem ms p' v' /\ cval_of (pv_ty p') v' = conv (sg, w) (cval_of (pv_ty p) v).
  Proof.
    intros Hw HT Hp. destruct (ity_inv _ _ _ HT) as [hT ->]. destruct p as [tm ty k tmps].
    destruct Hp as [[Ht [Hk Htm]] | [sg0 [w0 [Hw0 [Ht [Hk Htm]]]]]]; cbn [pv_ty pv_kind pv_tmps] in *; subst tmps.
    - (* boolean source *)
      subst ty.
      unfold init_a_cast, bind, ty_eq, ret. cbn [pv_ty pv_kind pv_tmps vt_float ty_h ty_bool orb is_numeric vt_void vt_ext negb andb].
      assert (vtype_eqb (ty_h hT sg w) ty_bool = false) as ->.
      { unfold vtype_eqb; cbn. okw_cases Hw; reflexivity. }
      assert (Hcw : match k with KBoolOp => true | KLit _ true => fx_bool_int (fx cfg) | _ => false end = true).
      { destruct k as [? [|]| | | | | | | |]; cbn in Hk; try contradiction; reflexivity. }
      rewrite Hcw.
      cbn [vt_bool ty_bool ty_h andb negb cond_wrap rd pv_term].
      eexists; split; [reflexivity|]. split; [|split; [apply ity_h|split; [discriminate|]]].
      { apply (goodpv_i _ sg w); [exact Hw | apply ity_h | exact I | reflexivity]. }
      intros ms v Hs. apply sem_bool in Hs; [|reflexivity]. destruct Hs as [b [-> He]]. cbn [pv_term] in He.
      exists (VBv w (if b then wrap w 1 else wrap w 0)). split.
      + split.
        * cbn [pv_term fin_pure eval lit_pure ty_h vt_sg vt_w]. rewrite He. cbn [sort_of_val sort_eqb]. rewrite N.eqb_refl. destruct b; reflexivity.
        * cbn [pv_ty]. apply shape_h. destruct b; apply wrap_range.
      + cbn [pv_ty cval_of ty_h vt_sg]. unfold conv, mkval, vint, int_t, interp. cbn [fst snd].
        destruct b; f_equal.
    - (* integer source *)
      destruct (ity_inv _ _ _ Ht) as [h0 E]. subst ty. clear Ht.
      unfold init_a_cast, bind, ty_eq, ret. cbn [pv_ty pv_kind pv_tmps vt_float ty_h orb is_numeric vt_void vt_ext negb andb].
      destruct (vtype_eqb (ty_h hT sg w) (ty_h h0 sg0 w0)) eqn:Eeq.
      + apply vtype_eqb_h in Eeq. destruct Eeq as [<- <-].
        eexists; split; [reflexivity|]. split; [|split; [apply ity_h|split; [reflexivity|]]].
        { apply (goodpv_i _ sg w); [exact Hw | apply ity_h | exact Hk | reflexivity]. }
        intros ms v Hs. exists v. split; auto. cbn [pv_ty].
        destruct Hs as [_ [z [-> Hz]]]. cbn [cval_of vt_sg vt_w ty_h] in *.
        symmetry. apply (conv_same ((sg, w), z)). split; auto.
      + cbn [vt_bool ty_h andb fx cfg_fx fx_cast_fill all_fixes vt_w vt_sg rd pv_term].
        eexists; split; [reflexivity|]. split; [|split; [apply ity_h|split; [discriminate|]]].
        { apply (goodpv_i _ sg w); [exact Hw | apply ity_h | exact I | reflexivity]. }
        intros ms v Hs. eapply sem_int in Hs; [|apply ity_h]. destruct Hs as [z [-> [Hz He]]]. cbn [pv_term] in He.
        exists (VBv w (wrap w (interp (sg0, w0) z))). split.
        * split; [|cbn [pv_ty]; apply shape_h; apply wrap_range].
          cbn [pv_term]. destruct (w0 <? w)%N eqn:Elt.
          -- cbn [fin_pure eval]. destruct sg0.
             ++ cbn [fin_pure eval]. rewrite He. f_equal. f_equal. apply (cast_widen w0 w true z); auto.
             ++ cbn [fin_pure eval]. rewrite He. f_equal. f_equal. apply (cast_widen w0 w false z); auto.
          -- unfold cast_il_exec. cbn [vt_w vt_sg ty_h fin_pure eval]. rewrite Elt, andb_false_r. cbn [andb]. rewrite orb_false_r.
             destruct (sg && sg0); cbn [fin_pure eval]; rewrite He; f_equal; f_equal; apply cast_narrow; auto; lia.
        * cbn [pv_ty cval_of ty_h vt_sg]. reflexivity.
  Qed.

  Lemma init_a_cast_ok sg w p st : okw w -> goodpv p ->
    exists p', init_a_cast cfg (ty_int sg w) p st = OK (p', st) /\ goodpv p' /\ ity (pv_ty p') sg w /\
      (forall v b, pv_kind p' = KLit v b -> p' = p) /\
      forall ms v, sem ms p v ->
        exists v', sem ms p' v' /\ cval_of (pv_ty p') v' = conv (sg, w) (cval_of (pv_ty p) v).
  Proof. intros Hw Hp. exact (init_a_cast_gen (ty_int sg w) sg w p st Hw (ity_int sg w) Hp). Qed.

  (* ------------------------------------------------------------------ argument passing: cast_sub_routine_args / build_arg_list *)
  (* every argument of a call is converted to the type of its parameter (C11 6.5.2.2p7: as if by assignment), whatever the
     argument expression, for every list of arguments and integer parameter types *)
  Lemma vtype_eqb_sym a b : vtype_eqb a b = vtype_eqb b a.
  Proof. unfold vtype_eqb. destruct (vt_tok a), (vt_tok b), (vt_sg a), (vt_sg b); cbn; rewrite ?(N.eqb_sym (vt_w a)); reflexivity. Qed.

  Definition int_ptype (pt : vtype) : Prop := exists sg w, okw w /\ pt = ty_int sg w.

  Lemma arg_conv_eq pt p st : int_ptype pt -> goodpv p ->
    (do eq <- ty_eq (pv_ty p) pt; do p' <- (if eq then ret p else init_a_cast cfg pt p); ret p') st = init_a_cast cfg pt p st.
  Proof.
    intros [sg [w [Hw ->]]] Hg.
    assert (Hn : is_numeric (pv_ty p) = true /\ vt_float (pv_ty p) = false).
    { destruct Hg as [[Ht _] | [s0 [w0 [_ [Ht _]]]]]; rewrite Ht; split; reflexivity. }
    destruct Hn as [Hn Hf].
    unfold init_a_cast, bind, ty_eq. rewrite Hn, Hf. cbn [is_numeric ty_int ty_h vt_void vt_ext vt_float negb andb orb]. unfold ret.
    rewrite (vtype_eqb_sym (ty_int sg w)). destruct (vtype_eqb (pv_ty p) (ty_int sg w)); [reflexivity|].
    match goal with |- match ?X with _ => _ end = _ => destruct X as [[q s1]|]; reflexivity end.
  Qed.

  Theorem lower_args_ok : forall (ps : list pval) (pts : list vtype) st,
    Forall goodpv ps -> Forall int_ptype pts -> List.length ps = List.length pts ->
    exists args, lower_args cfg (map IPure ps) pts st = OK ((args, []), st) /\
      forall ms, forall k p pt v, nth_error ps k = Some p -> nth_error pts k = Some pt -> sem ms p v ->
        exists t v', nth_error args k = Some (APure t) /\ eval rw ms [] (fin t) = Some v' /\ shape pt v' /\
                     cval_of pt v' = conv (vt_sg pt, vt_w pt) (cval_of (pv_ty p) v).
  Proof.
    induction ps as [|p ps IH]; intros pts st Hg Hp Hl.
    - destruct pts; [|discriminate Hl]. exists []. split; [reflexivity|]. intros ms k p pt v Hk. destruct k; discriminate Hk.
    - destruct pts as [|pt pts]; [discriminate Hl|]. injection Hl as Hl.
      inversion Hg as [|? ? Hgp Hgps]; subst. inversion Hp as [|? ? Hpt Hpts]; subst.
      destruct (IH pts st Hgps Hpts Hl) as [rest [Lr Sr]].
      pose proof Hpt as [sg [w [Hw Ept]]].
      destruct (init_a_cast_ok sg w p st Hw Hgp) as [p' [C1 [C2 [C3 [_ C5]]]]].
      exists (APure (rd p') :: rest). split.
      + cbn [map lower_args]. unfold bind at 1. rewrite Lr. cbv beta iota.
        assert (Hext : vt_ext pt = false) by (rewrite Ept; reflexivity). rewrite Hext.
        pose proof (arg_conv_eq pt p st Hpt Hgp) as Ha. rewrite Ept in Ha |- *. rewrite C1 in Ha.
        unfold bind in Ha |- *. destruct (ty_eq (pv_ty p) (ty_int sg w) st) as [[eq s1]|]; [|discriminate Ha].
        destruct ((if eq then ret p else init_a_cast cfg (ty_int sg w) p) s1) as [[q s2]|]; [|discriminate Ha].
        unfold ret in Ha |- *. injection Ha as -> ->. rewrite (goodpv_tmps p' C2). reflexivity.
      + intros ms k q qt v Hk Hkt Hs. destruct k as [|k]; cbn [nth_error] in *.
        * injection Hk as <-. injection Hkt as <-.
          destruct (C5 ms v Hs) as [v' [[He Hsh] Hc]].
          exists (rd p'), v'. split; [reflexivity|]. split; [exact He|].
          destruct (ity_inv _ _ _ C3) as [h Eh]. rewrite Eh in Hsh, Hc. rewrite Ept. cbn [vt_sg vt_w ty_int ty_h].
          split; [exact Hsh | exact Hc].
        * exact (Sr ms k q qt v Hk Hkt Hs).
  Qed.

  Lemma promote_cases t : promote t = t \/ promote t = int_t.
  Proof. unfold promote. destruct (snd t <? 32)%N; auto. Qed.

  Lemma promotion_cast_ok p st : goodpv p ->
    exists p', promotion_cast cfg p st = OK (p', st) /\ goodpv p' /\
      ity (pv_ty p') (fst (promote (cty_of (pv_ty p)))) (snd (promote (cty_of (pv_ty p)))) /\
      okw (snd (promote (cty_of (pv_ty p)))) /\
      (forall v b, pv_kind p' = KLit v b -> p' = p) /\
      forall ms v, sem ms p v ->
        exists v', sem ms p' v' /\ cval_of (pv_ty p') v' = conv (promote (cty_of (pv_ty p))) (cval_of (pv_ty p) v).
  Proof.
    intros Hp. unfold promotion_cast, bind, need_numeric, ret.
    pose proof Hp as [[Ht Hk] | [sg0 [w0 [Hw0 [Ht Hk]]]]].
    - rewrite Ht. cbn [is_numeric ty_bool vt_void vt_ext negb andb]. rewrite promoted_vtype_bool.
      unfold ty_eq, ret. cbn [is_numeric ty_bool ty_int vt_void vt_ext negb andb].
      change (vtype_eqb (ty_int true 32) ty_bool) with false. cbv iota.
      destruct (init_a_cast_ok true 32 p st okw32 Hp) as [p' [H1 [H2 [H3 [H4 H5]]]]].
      exists p'. rewrite <- Ht. split; [exact H1|]. split; [exact H2|]. rewrite Ht. cbn. split; [exact H3|]. split; [auto|].
      split; [exact H4|]. intros ms v Hs. destruct (H5 ms v Hs) as [v' [Hs' Hc]]. exists v'. split; auto. rewrite Ht in Hc. exact Hc.
    - destruct (ity_inv _ _ _ Ht) as [h0 E]. rewrite E. cbn [is_numeric ty_h vt_void vt_ext negb andb].
      destruct (promoted_vtype_h h0 sg0 w0 Hw0) as [h' Ep]. rewrite Ep.
      unfold ty_eq, ret. cbn [is_numeric ty_h vt_void vt_ext negb andb].
      unfold cty_of. cbn [vt_bool ty_h vt_sg vt_w].
      pose proof (promote_okw sg0 w0 Hw0) as Hpw.
      destruct (vtype_eqb _ _) eqn:Eeq.
      + apply vtype_eqb_h in Eeq. destruct Eeq as [E1 E2].
        exists p. split; [reflexivity|]. split; [auto|]. rewrite E1, E2. split; [exact Ht|]. split; [auto|]. split; [reflexivity|].
        intros ms v Hs. exists v. split; auto.
        destruct (sem_int ms p v sg0 w0 Ht Hs) as [z [-> [Hz He]]]. rewrite E.
        cbn [cval_of vt_sg vt_w ty_h] in *.
        replace (promote (sg0, w0)) with (sg0, w0) by (destruct (promote (sg0, w0)); cbn in *; congruence).
        symmetry. apply (conv_same ((sg0, w0), z)). split; auto.
      + destruct (init_a_cast_gen (ty_h h' (fst (promote (sg0, w0))) (snd (promote (sg0, w0)))) _ _ p st Hpw (ity_h _ _ _) Hp)
          as [p' [H1 [H2 [H3 [H4 H5]]]]].
        exists p'. rewrite <- E. split; [exact H1|]. split; [exact H2|]. split; [exact H3|]. split; [auto|].
        split; [exact H4|]. intros ms v Hs. destruct (H5 ms v Hs) as [v' [Hs' Hc]]. exists v'. split; auto.
        rewrite Hc. rewrite E. destruct (promote (sg0, w0)); reflexivity.
  Qed.

  Lemma goodpv_int p sg w : okw w -> ity (pv_ty p) sg w -> goodpv p -> intkind (pv_kind p).
  Proof. intros Hw Ht [[Hb _] | [s0 [w0 [_ [_ [Hk _]]]]]]; [rewrite Ht in Hb; discriminate | exact Hk]. Qed.

  Lemma uac_same s w : uac (s, w) (s, w) = (s, w).
  Proof. unfold uac; cbn [fst snd]. rewrite eqb_reflx. rewrite N.max_id. reflexivity. Qed.

  (* conversion of one operand to the common type T, as cast_operands does it *)
  Lemma maybe_cast_ok T sg w p st s0 w0 : okw w -> okw w0 -> ity T sg w -> goodpv p -> ity (pv_ty p) s0 w0 ->
    exists p', (if negb (N.eqb (vt_w T) (vt_w (pv_ty p))) || negb (Bool.eqb (vt_sg T) (vt_sg (pv_ty p)))
                then init_a_cast cfg T p else ret p) st = OK (p', st) /\ goodpv p' /\
      ity (pv_ty p') sg w /\
      forall ms v, sem ms p v ->
        exists v', sem ms p' v' /\ cval_of (pv_ty p') v' = conv (sg, w) (cval_of (pv_ty p) v).
  Proof.
    intros Hw Hw0 HT Hg Ht.
    destruct (negb (N.eqb (vt_w T) (vt_w (pv_ty p))) || negb (Bool.eqb (vt_sg T) (vt_sg (pv_ty p)))) eqn:E.
    - destruct (init_a_cast_gen T sg w p st Hw HT Hg) as [p' [H1 [H2 [H3 [H4 H5]]]]]. exists p'. auto.
    - rewrite HT, Ht in E. cbn [vt_w vt_sg ty_h] in E.
      assert (w = w0) by lia. assert (sg = s0) by (destruct sg, s0; cbn in E; try lia; reflexivity). subst w0 s0.
      exists p. split; [reflexivity|]. split; [auto|]. split; [auto|].
      intros ms v Hs. exists v. split; auto.
      destruct (sem_int ms p v sg w Ht Hs) as [z [-> [Hz He]]]. rewrite (cval_of_ity _ sg w z Ht).
      symmetry. apply (conv_same ((sg, w), z)). split; auto.
  Qed.

  Lemma cast_operands_ok a b st sa wa sb wb : okw wa -> okw wb -> goodpv a -> goodpv b ->
    ity (pv_ty a) sa wa -> ity (pv_ty b) sb wb ->
    exists a' b', cast_operands cfg false a b st = OK ((a', b'), st) /\ goodpv a' /\ goodpv b' /\
      ity (pv_ty a') (fst (uac (sa, wa) (sb, wb))) (snd (uac (sa, wa) (sb, wb))) /\
      ity (pv_ty b') (fst (uac (sa, wa) (sb, wb))) (snd (uac (sa, wa) (sb, wb))) /\
      forall ms va vb, sem ms a va -> sem ms b vb ->
        exists va' vb', sem ms a' va' /\ sem ms b' vb' /\
          cval_of (pv_ty a') va' = conv (uac (sa, wa) (sb, wb)) (cval_of (pv_ty a) va) /\
          cval_of (pv_ty b') vb' = conv (uac (sa, wa) (sb, wb)) (cval_of (pv_ty b) vb).
  Proof.
    intros Hwa Hwb Hga Hgb Hta Htb.
    destruct (ity_inv _ _ _ Hta) as [ha Ea]. destruct (ity_inv _ _ _ Htb) as [hb Eb].
    unfold cast_operands, bind, ty_eq, ret. rewrite Ea, Eb.
    cbn [is_numeric ty_h vt_void vt_ext negb andb].
    destruct (vtype_eqb (ty_h ha sa wa) (ty_h hb sb wb)) eqn:Eeq.
    - apply vtype_eqb_h in Eeq. destruct Eeq as [<- <-]. rewrite uac_same. cbn [fst snd].
      exists a, b. split; [reflexivity|]. repeat (split; [assumption|]).
      intros ms va vb Hsa Hsb. exists va, vb. split; [auto|]. split; [auto|].
      destruct (sem_int ms a va sa wa Hta Hsa) as [za [-> [Hza _]]].
      destruct (sem_int ms b vb sa wa Htb Hsb) as [zb [-> [Hzb _]]].
      rewrite Ea, Eb. cbn [cval_of vt_sg vt_w ty_h].
      split; symmetry; [apply (conv_same ((sa, wa), za)) | apply (conv_same ((sa, wa), zb))]; split; auto.
    - rewrite c11_vtypes_h by auto.
      pose proof (uac_okw sa wa sb wb Hwa Hwb) as Hwu.
      destruct (uac (sa, wa) (sb, wb)) as [su wu] eqn:Eu. cbn [fst snd] in *.
      destruct (maybe_cast_ok (ty_h ha su wu) su wu a st sa wa Hwu Hwa (ity_h _ _ _) Hga Hta) as [a' [A1 [A2 [A3 A4]]]].
      rewrite Ea in A1. unfold ret in A1. rewrite A1.
      destruct (maybe_cast_ok (ty_h hb su wu) su wu b st sb wb Hwu Hwb (ity_h _ _ _) Hgb Htb) as [b' [B1 [B2 [B3 B4]]]].
      rewrite Eb in B1. unfold ret in B1. rewrite B1.
      exists a', b'. split; [reflexivity|]. repeat (split; [assumption|]).
      intros ms va vb Hsa Hsb.
      destruct (A4 ms va Hsa) as [va' [Sa Ca]]. destruct (B4 ms vb Hsb) as [vb' [Sb Cb]].
      exists va', vb'. rewrite Ea, Eb in *. auto.
  Qed.

  (* the operand preparation shared by + - * & | ^ comparisons and ?: *)
  Lemma prep_ok a c st : goodpv a -> goodpv c ->
    exists a' c', (do pa <- promotion_cast cfg a; do pc <- promotion_cast cfg c; cast_operands cfg false pa pc) st = OK ((a', c'), st) /\
      goodpv a' /\ goodpv c' /\
      ity (pv_ty a') (fst (arith_ty (cty_of (pv_ty a)) (cty_of (pv_ty c)))) (snd (arith_ty (cty_of (pv_ty a)) (cty_of (pv_ty c)))) /\
      ity (pv_ty c') (fst (arith_ty (cty_of (pv_ty a)) (cty_of (pv_ty c)))) (snd (arith_ty (cty_of (pv_ty a)) (cty_of (pv_ty c)))) /\
      okw (snd (arith_ty (cty_of (pv_ty a)) (cty_of (pv_ty c)))) /\
      forall ms va vc, sem ms a va -> sem ms c vc ->
        exists va' vc', sem ms a' va' /\ sem ms c' vc' /\
          cval_of (pv_ty a') va' = conv (arith_ty (cty_of (pv_ty a)) (cty_of (pv_ty c))) (cval_of (pv_ty a) va) /\
          cval_of (pv_ty c') vc' = conv (arith_ty (cty_of (pv_ty a)) (cty_of (pv_ty c))) (cval_of (pv_ty c) vc).
  Proof.
    intros Hga Hgc. unfold bind.
    destruct (promotion_cast_ok a st Hga) as [pa [A1 [A2 [A3 [A4 [_ A5]]]]]]. rewrite A1.
    destruct (promotion_cast_ok c st Hgc) as [pc [C1 [C2 [C3 [C4 [_ C5]]]]]]. rewrite C1.
    unfold arith_ty.
    destruct (promote (cty_of (pv_ty a))) as [sa wa] eqn:Ea. destruct (promote (cty_of (pv_ty c))) as [sc wc] eqn:Ec.
    cbn [fst snd] in *.
    destruct (cast_operands_ok pa pc st sa wa sc wc A4 C4 A2 C2 A3 C3) as [a' [c' [H1 [H2 [H3 [H4 [H5 H6]]]]]]].
    exists a', c'. split; [exact H1|]. repeat (split; [assumption|]).
    split; [apply uac_okw; auto|].
    intros ms va vc Hsa Hsc.
    destruct (A5 ms va Hsa) as [va1 [Sa1 Ca1]]. destruct (C5 ms vc Hsc) as [vc1 [Sc1 Cc1]].
    destruct (H6 ms va1 vc1 Sa1 Sc1) as [va' [vc' [Sa' [Sc' [Ca' Cc']]]]].
    exists va', vc'. split; [auto|]. split; [auto|].
    rewrite Ca', Cc', Ca1, Cc1.
    pose proof (wfc_cval_of a va Hga (proj2 Hsa)) as Wa. pose proof (wfc_cval_of c vc Hgc (proj2 Hsc)) as Wc.
    rewrite <- (fst_cval_of _ _ (proj2 Hsa)) in Ea. rewrite <- (fst_cval_of _ _ (proj2 Hsc)) in Ec.
    rewrite <- Ea, <- Ec. rewrite !conv_conv_promote by auto. auto.
  Qed.

  Lemma int_of_bool_ok p st : goodpv p ->
    exists p' sg w, int_of_bool cfg p st = OK (p', st) /\ goodpv p' /\ ity (pv_ty p') sg w /\ okw w /\
      forall ms v, sem ms p v -> exists v', sem ms p' v' /\ cval_of (pv_ty p') v' = cval_of (pv_ty p) v.
  Proof.
    intros Hg. unfold int_of_bool. cbn [fx cfg_fx fx_bool_int all_fixes andb].
    pose proof Hg as [[Ht Hk] | [sg0 [w0 [Hw0 [Ht Hk]]]]].
    - rewrite Ht. cbn [vt_bool ty_bool].
      destruct (init_a_cast_ok true 32 p st okw32 Hg) as [p' [H1 [H2 [H3 [_ H5]]]]].
      exists p', true, 32%N. repeat (split; [auto|]).
      intros ms v Hs. destruct (H5 ms v Hs) as [v' [S' C']]. exists v'. split; [auto|]. rewrite C'.
      pose proof (wfc_cval_of p v Hg (proj2 Hs)) as W. assert (F : fst (cval_of (pv_ty p) v) = (true, 32%N)) by (rewrite (fst_cval_of _ _ (proj2 Hs)), Ht; reflexivity).
      rewrite <- Ht. rewrite <- F. apply conv_same. auto.
    - rewrite Ht. cbn [vt_bool ty_h]. rewrite <- Ht.
      exists p, sg0, w0. split; [reflexivity|]. repeat (split; [auto|]). intros ms v Hs. exists v. auto.
  Qed.

  Lemma bind_OK {A B} (m : M A) (f : A -> M B) st a st' : m st = OK (a, st') -> bind m f st = f a st'.
  Proof. intros H. unfold bind. rewrite H. reflexivity. Qed.

  Definition islit (p : pval) : Prop := match pv_kind p with KLit _ _ => True | _ => False end.

  (* ------------------------------------------------------------------ addresses, loaded values, macro arguments *)
  (* the address of mem_load / mem_store: converted to the 32-bit address type (D20 repaired) *)
  Lemma addr_ok p st : goodpv p ->
    exists p', addr_of cfg p st = OK (p', st) /\ pv_tmps p' = [] /\
      forall ms v, sem ms p v ->
        exists w1 z, eval rw ms [] (fin (pv_term p')) = Some (VBv w1 z) /\
                     snd (conv (false, 32%N) (cval_of (pv_ty p) v)) = z.
  Proof.
    intros Hg.
    destruct (int_of_bool_ok p st Hg) as [p1 [s1 [w1 [I1 [G1 [T1 [W1 I5]]]]]]].
    destruct (ity_inv _ _ _ T1) as [h1 E1].
    unfold addr_of. unfold bind at 1. rewrite I1. cbn [fx cfg_fx fx_addr all_fixes].
    unfold bind, ty_eq, ret. rewrite E1. cbn [is_numeric ty_int ty_h vt_void vt_ext negb andb vt_w vt_tok].
    destruct (vtype_eqb (ty_h h1 s1 w1) (ty_int false 32)) eqn:Eeq; [|destruct (w1 =? 32)%N eqn:Ew].
    - apply (vtype_eqb_h h1 s1 w1 false false 32) in Eeq. destruct Eeq as [-> ->].
      exists p1. split; [reflexivity|]. split; [exact (goodpv_tmps p1 G1)|]. intros ms v Hs. destruct (I5 ms v Hs) as [v1 [S1 C1]].
      destruct (sem_int ms p1 v1 false 32 T1 S1) as [z [-> [Hz He]]].
      exists 32%N, z. split; [exact He|]. rewrite <- C1, (cval_of_ity _ false 32 z T1).
      unfold conv, mkval, vint. cbn [fst snd]. rewrite wrap_interp. apply wrap_small. exact Hz.
    - apply N.eqb_eq in Ew. subst w1. cbn [andb].
      exists p1. split; [reflexivity|]. split; [exact (goodpv_tmps p1 G1)|]. intros ms v Hs. destruct (I5 ms v Hs) as [v1 [S1 C1]].
      destruct (sem_int ms p1 v1 s1 32 T1 S1) as [z [-> [Hz He]]].
      exists 32%N, z. split; [exact He|]. rewrite <- C1, (cval_of_ity _ s1 32 z T1).
      unfold conv, mkval, vint. cbn [fst snd]. rewrite wrap_interp. apply wrap_small. exact Hz.
    - cbn [andb].
      destruct (init_a_cast_ok false 32 p1 st okw32 G1) as [p2 [H1 [G2 [H3 [_ H5]]]]].
      rewrite H1. exists p2. split; [reflexivity|]. split; [exact (goodpv_tmps p2 G2)|]. intros ms v Hs. destruct (I5 ms v Hs) as [v1 [S1 C1]].
      destruct (H5 ms v1 S1) as [v2 [S2 C2]].
      destruct (sem_int ms p2 v2 false 32 H3 S2) as [z [-> [Hz He]]].
      exists 32%N, z. split; [exact He|]. rewrite <- C1, <- C2, (cval_of_ity _ false 32 z H3). reflexivity.
  Qed.

  (* a value of a Token-width type (the result type of mem_load) converted to an integer type *)
  Lemma init_a_cast_tok_ok sg w s0 w0 tm k st : okw w -> okw w0 ->
    exists p', init_a_cast cfg (ty_int sg w) (mkpv tm (ty_tok s0 w0) k []) st = OK (p', st) /\
      goodpv p' /\ pv_ty p' = ty_int sg w /\ pv_kind p' = KExec /\
      forall ms z, eval rw ms [] (fin tm) = Some (VBv w0 z) -> 0 <= z < pow2 w0 ->
        exists v', sem ms p' v' /\ cval_of (pv_ty p') v' = conv (sg, w) ((s0, w0), z).
  Proof.
    intros Hw Hw0.
    unfold init_a_cast, bind, ty_eq, ret. cbn [pv_ty pv_kind pv_tmps vt_float ty_int ty_h ty_tok orb is_numeric vt_void vt_ext negb andb].
    assert (vtype_eqb (ty_int sg w) (ty_tok s0 w0) = false) as -> by reflexivity.
    cbn [vt_bool ty_int ty_h ty_tok andb fx cfg_fx fx_cast_fill all_fixes vt_w vt_sg rd pv_term].
    eexists; split; [reflexivity|]. split; [|split; [reflexivity|split; [reflexivity|]]].
    { right. exists sg, w. gp. }
    intros ms z He Hz.
    exists (VBv w (wrap w (interp (s0, w0) z))). split.
    - split; [|cbn [pv_ty]; apply shape_int; apply wrap_range].
      cbn [pv_term]. destruct (w0 <? w)%N eqn:Elt.
      + destruct s0; cbn [fin_pure eval]; rewrite He; f_equal; f_equal.
        * apply (cast_widen w0 w true z); auto.
        * apply (cast_widen w0 w false z); auto.
      + unfold cast_il_exec. cbn [vt_w vt_sg ty_int ty_h ty_tok fin_pure eval]. rewrite Elt, andb_false_r. cbn [andb]. rewrite orb_false_r.
        destruct (sg && s0); cbn [fin_pure eval]; rewrite He; f_equal; f_equal; apply cast_narrow; auto; lia.
    - cbn [pv_ty cval_of ty_int ty_h vt_sg]. reflexivity.
  Qed.

  (* one argument of a macro / sub-routine call converted to the parameter type: a step of Lower.lower_args *)
  Lemma lower_args_cons p it sg w ptt rest tm st : okw w -> goodpv p ->
    lower_args cfg it ptt st = OK ((rest, tm), st) ->
    exists p', lower_args cfg (IPure p :: it) (ty_int sg w :: ptt) st = OK ((APure (rd p') :: rest, pv_tmps p' ++ tm), st) /\
      pv_tmps p' = [] /\
      forall ms v, sem ms p v ->
        exists z, 0 <= z < pow2 w /\ eval rw ms [] (fin (pv_term p')) = Some (VBv w z) /\
                  conv (sg, w) (cval_of (pv_ty p) v) = ((sg, w), z).
  Proof.
    intros Hw Hg Hrest. cbn [lower_args]. unfold bind at 1. rewrite Hrest. cbn [vt_ext ty_int].
    unfold bind, ty_eq, ret.
    assert (Hnum : is_numeric (pv_ty p) && is_numeric (ty_int sg w) = true).
    { destruct Hg as [[Ht _] | [s0 [w0 [_ [Ht _]]]]]; rewrite Ht; reflexivity. }
    rewrite Hnum.
    destruct (vtype_eqb (pv_ty p) (ty_int sg w)) eqn:Eeq.
    - exists p. split; [reflexivity|]. split; [exact (goodpv_tmps p Hg)|]. intros ms v Hs.
      pose proof Hg as [[Ht _] | [s0 [w0 [Hw0 [Ht _]]]]].
      + rewrite Ht in Eeq. exfalso. unfold vtype_eqb in Eeq. cbn in Eeq. okw_cases Hw; discriminate.
      + destruct (ity_inv _ _ _ Ht) as [h0 E]. rewrite E in Eeq.
        apply (vtype_eqb_h h0 s0 w0 false sg w) in Eeq. destruct Eeq as [-> ->].
        destruct (sem_int _ _ _ _ _ Ht Hs) as [z [-> [Hz He]]]. exists z. split; [exact Hz|]. split; [exact He|].
        rewrite (cval_of_ity _ sg w z Ht). apply (conv_same ((sg, w), z)). split; auto.
    - destruct (init_a_cast_ok sg w p st Hw Hg) as [p' [H1 [H2 [H3 [_ H5]]]]]. rewrite H1.
      exists p'. split; [reflexivity|]. split; [exact (goodpv_tmps p' H2)|]. intros ms v Hs. destruct (H5 ms v Hs) as [v' [Hs' Hc]].
      destruct (sem_int ms p' v' sg w H3 Hs') as [z [-> [Hz He]]].
      exists z. split; [exact Hz|]. split; [exact He|]. rewrite <- Hc, (cval_of_ity _ sg w z H3). reflexivity.
  Qed.

  Lemma find_mac_std sg : In sg std_macs -> find_mac cfg (mac_name sg) = Some sg.
  Proof. intros H. unfold find_mac. cbn [cfg_macros]. exact (Hmacs sg H). Qed.

  Lemma lit_match2 {A} (ka kc : kind) (X : Z -> bool -> Z -> bool -> A) (Y : A) :
    ~ ((match ka with KLit _ _ => True | _ => False end) /\ (match kc with KLit _ _ => True | _ => False end)) ->
    match ka, kc with KLit va ba, KLit vb bb => X va ba vb bb | _, _ => Y end = Y.
  Proof. destruct ka, kc; cbn; intros; try reflexivity. tauto. Qed.

  Definition arith_fun (b : Ast.binop) : Z -> Z -> Z :=
    match b with Ast.BAdd => Z.add | Ast.BSub => Z.sub | _ => Z.mul end.

  Lemma lower_arith_ok b a c st : (b = Ast.BAdd \/ b = Ast.BSub \/ b = Ast.BMul) -> goodpv a -> goodpv c ->
    ~ (islit a /\ islit c) ->
    exists r, lower_binop cfg b (IPure a) (IPure c) st = OK (IPure r, st) /\ goodpv r /\ ~ islit r /\
      forall ms va vc, sem ms a va -> sem ms c vc ->
        exists vr, sem ms r vr /\
          c_binop b (cval_of (pv_ty a) va) (cval_of (pv_ty c) vc) = Some (cval_of (pv_ty r) vr).
  Proof.
    intros Hb Hga Hgc Hnl.
    destruct (prep_ok a c st Hga Hgc) as [a' [c' [H1 [Ga' [Gc' [Ta' [Tc' [Hw H2]]]]]]]].
    destruct (ity_inv _ _ _ Ta') as [ha' Ea']. destruct (ity_inv _ _ _ Tc') as [hc' Ec'].
    set (t := arith_ty (cty_of (pv_ty a)) (cty_of (pv_ty c))) in *.
    exists (mkpv (PBin (match b with Ast.BAdd => RzIL.BAdd | Ast.BSub => RzIL.BSub | _ => RzIL.BMul end) (rd a') (rd c'))
                 (pv_ty a') KExec (pv_tmps a' ++ pv_tmps c')).
    split.
    { destruct Hb as [-> | [-> | ->]]; cbn [lower_binop];
      (erewrite bind_OK by reflexivity); (erewrite bind_OK by reflexivity);
      (rewrite lit_match2 by exact Hnl); cbn [arith_of];
      (erewrite bind_OK by exact H1); cbn beta iota; unfold ret, arith_il_exec;
      rewrite Ea'; cbn [vt_float ty_int ty_h andb vt_sg];
      destruct (fx cfg).(fx_divmod); destruct (fst t); reflexivity. }
    split. { right. exists (fst t), (snd t). gp. }
    split. { cbn. auto. }
    intros ms va vc Sa Sc.
    destruct (H2 ms va vc Sa Sc) as [va' [vc' [Sa' [Sc' [Ca' Cc']]]]].
    destruct (sem_int _ _ _ _ _ Ta' Sa') as [x [-> [Hx Ex]]]. destruct (sem_int _ _ _ _ _ Tc' Sc') as [y [-> [Hy Ey]]].
    exists (VBv (snd t) (wrap (snd t) (arith_fun b x y))). split.
    - split.
      + cbn [pv_term fin_pure eval]. unfold rd. rewrite Ex, Ey. rewrite N.eqb_refl.
        destruct Hb as [-> | [-> | ->]]; cbn; reflexivity.
      + cbn [pv_ty]. rewrite Ea'. apply shape_h. apply wrap_range.
    - cbn [pv_ty]. rewrite Ea' in *. rewrite Ec' in *. cbn [cval_of vt_sg ty_int ty_h] in *.
      assert (Hfa : fst (cval_of (pv_ty a) va) = cty_of (pv_ty a)) by (apply fst_cval_of; apply Sa).
      assert (Hfc : fst (cval_of (pv_ty c) vc) = cty_of (pv_ty c)) by (apply fst_cval_of; apply Sc).
      assert (forall f, c_arith f (cval_of (pv_ty a) va) (cval_of (pv_ty c) vc) =
                        (t, wrap (snd t) (f (interp t x) (interp t y)))) as Hc.
      { intros f. unfold c_arith. rewrite Hfa, Hfc. fold t. rewrite <- Ca', <- Cc'. reflexivity. }
      destruct t as [sg w] eqn:Et. cbn [fst snd] in *.
      destruct Hb as [-> | [-> | ->]]; cbn [c_binop arith_fun]; rewrite Hc; do 2 f_equal.
      + apply arith_interp_add. + apply arith_interp_sub. + apply arith_interp_mul.
  Qed.


  Lemma prep_seq {B} a c st a' c' (k : pval * pval -> M B) :
    (do pa <- promotion_cast cfg a; do pc <- promotion_cast cfg c; cast_operands cfg false pa pc) st = OK ((a', c'), st) ->
    (do pa <- promotion_cast cfg a; do pc <- promotion_cast cfg c; do r <- cast_operands cfg false pa pc; k r) st = k (a', c') st.
  Proof.
    unfold bind. intros H.
    destruct (promotion_cast cfg a st) as [[pa s1]|]; [|discriminate].
    destruct (promotion_cast cfg c s1) as [[pc s2]|]; [|discriminate].
    rewrite H. reflexivity.
  Qed.

  Definition bit_fun (b : Ast.binop) : Z -> Z -> Z :=
    match b with Ast.BAnd => Z.land | Ast.BOr => Z.lor | _ => Z.lxor end.

  Lemma bit_fun_range b w x y : okw w -> 0 <= x < pow2 w -> 0 <= y < pow2 w -> 0 <= bit_fun b x y < pow2 w.
  Proof. intros. destruct b; cbn [bit_fun]; auto using land_range, lor_range, lxor_range. Qed.

  Lemma lower_bit_ok b a c st : (b = Ast.BAnd \/ b = Ast.BOr \/ b = Ast.BXor) -> goodpv a -> goodpv c ->
    exists r, lower_binop cfg b (IPure a) (IPure c) st = OK (IPure r, st) /\ goodpv r /\ ~ islit r /\
      forall ms va vc, sem ms a va -> sem ms c vc ->
        exists vr, sem ms r vr /\
          c_binop b (cval_of (pv_ty a) va) (cval_of (pv_ty c) vc) = Some (cval_of (pv_ty r) vr).
  Proof.
    intros Hb Hga Hgc.
    destruct (prep_ok a c st Hga Hgc) as [a' [c' [H1 [Ga' [Gc' [Ta' [Tc' [Hw H2]]]]]]]].
    destruct (ity_inv _ _ _ Ta') as [ha' Ea']. destruct (ity_inv _ _ _ Tc') as [hc' Ec'].
    set (t := arith_ty (cty_of (pv_ty a)) (cty_of (pv_ty c))) in *.
    exists (mkpv (PBin (match b with Ast.BAnd => BLogAnd | Ast.BOr => BLogOr | _ => BLogXor end) (rd a') (rd c'))
                 (pv_ty a') KExec (pv_tmps a' ++ pv_tmps c')).
    split.
    { destruct Hb as [-> | [-> | ->]]; cbn [lower_binop];
      (erewrite bind_OK by reflexivity); (erewrite bind_OK by reflexivity);
      (erewrite prep_seq by exact H1); reflexivity. }
    split. { right. exists (fst t), (snd t). gp. }
    split. { cbn. auto. }
    intros ms va vc Sa Sc.
    destruct (H2 ms va vc Sa Sc) as [va' [vc' [Sa' [Sc' [Ca' Cc']]]]].
    destruct (sem_int _ _ _ _ _ Ta' Sa') as [x [-> [Hx Ex]]]. destruct (sem_int _ _ _ _ _ Tc' Sc') as [y [-> [Hy Ey]]].
    exists (VBv (snd t) (bit_fun b x y)). split.
    - split.
      + cbn [pv_term fin_pure eval]. unfold rd. rewrite Ex, Ey. rewrite N.eqb_refl.
        destruct Hb as [-> | [-> | ->]]; cbn; reflexivity.
      + cbn [pv_ty]. rewrite Ea'. apply shape_h. apply bit_fun_range; auto.
    - cbn [pv_ty]. rewrite Ea' in *. rewrite Ec' in *. cbn [cval_of vt_sg ty_int ty_h] in *.
      assert (Hfa : fst (cval_of (pv_ty a) va) = cty_of (pv_ty a)) by (apply fst_cval_of; apply Sa).
      assert (Hfc : fst (cval_of (pv_ty c) vc) = cty_of (pv_ty c)) by (apply fst_cval_of; apply Sc).
      assert (forall f, c_bitop f (cval_of (pv_ty a) va) (cval_of (pv_ty c) vc) = (t, wrap (snd t) (f x y))) as Hc.
      { intros f. unfold c_bitop. rewrite Hfa, Hfc. fold t. rewrite <- Ca', <- Cc'. reflexivity. }
      pose proof (bit_fun_range b (snd t) x y Hw Hx Hy) as Hr.
      destruct t as [sg w] eqn:Et. cbn [fst snd] in *.
      destruct Hb as [-> | [-> | ->]]; cbn [c_binop bit_fun] in *; rewrite Hc; do 2 f_equal; apply wrap_small; auto.
  Qed.

  (* ------------------------------------------------------------------ comparisons *)
  Definition cmp_fun (b : Ast.binop) : Z -> Z -> bool :=
    match b with
    | Ast.BLt => Z.ltb | Ast.BGt => Z.gtb | Ast.BLe => Z.leb | Ast.BGe => Z.geb | Ast.BEq => Z.eqb
    | _ => fun a b => negb (Z.eqb a b) end.
  Definition is_cmp (b : Ast.binop) : Prop :=
    b = Ast.BLt \/ b = Ast.BGt \/ b = Ast.BLe \/ b = Ast.BGe \/ b = Ast.BEq \/ b = Ast.BNe.

  Lemma interp_eqb sg w x y : okw w -> 0 <= x < pow2 w -> 0 <= y < pow2 w ->
    (interp (sg, w) x =? interp (sg, w) y) = (x =? y).
  Proof.
    intros Hw Hx Hy. unfold interp, sval, wrap; cbn [fst snd].
    okw_cases Hw; norm_w; destruct sg; split_ifs; lia.
  Qed.

  Lemma lower_cmp_ok b a c st : is_cmp b -> goodpv a -> goodpv c -> ~ (islit a /\ islit c) ->
    exists r, lower_binop cfg b (IPure a) (IPure c) st = OK (IPure r, st) /\ goodpv r /\ ~ islit r /\
      forall ms va vc, sem ms a va -> sem ms c vc ->
        exists vr, sem ms r vr /\
          c_binop b (cval_of (pv_ty a) va) (cval_of (pv_ty c) vc) = Some (cval_of (pv_ty r) vr).
  Proof.
    intros Hb Hga Hgc Hnl.
    destruct (prep_ok a c st Hga Hgc) as [a' [c' [H1 [Ga' [Gc' [Ta' [Tc' [Hw H2]]]]]]]].
    destruct (ity_inv _ _ _ Ta') as [ha' Ea']. destruct (ity_inv _ _ _ Tc') as [hc' Ec'].
    set (t := arith_ty (cty_of (pv_ty a)) (cty_of (pv_ty c))) in *.
    exists (mkpv (cmp_il_exec (match b with Ast.BLt => "<" | Ast.BGt => ">" | Ast.BLe => "<=" | Ast.BGe => ">=" | Ast.BEq => "==" | _ => "!=" end)
                              (pv_ty a') (pv_ty c') (rd a') (rd c')) ty_bool KBoolOp (pv_tmps a' ++ pv_tmps c')).
    split.
    { destruct Hb as [-> | [-> | [-> | [-> | [-> | ->]]]]]; cbn [lower_binop];
      (erewrite bind_OK by reflexivity); (erewrite bind_OK by reflexivity);
      (rewrite lit_match2 by exact Hnl); cbn [fx cfg_fx fx_cmp_promote all_fixes];
      (erewrite bind_OK by exact H1); cbn beta iota;
      unfold need_numeric; rewrite Ea', Ec'; cbn [is_numeric ty_int ty_h vt_void vt_ext negb andb];
      (erewrite bind_OK by reflexivity); (erewrite bind_OK by reflexivity); reflexivity. }
    split. { left. gp. }
    split. { cbn. auto. }
    intros ms va vc Sa Sc.
    destruct (H2 ms va vc Sa Sc) as [va' [vc' [Sa' [Sc' [Ca' Cc']]]]].
    destruct (sem_int _ _ _ _ _ Ta' Sa') as [x [-> [Hx Ex]]]. destruct (sem_int _ _ _ _ _ Tc' Sc') as [y [-> [Hy Ey]]].
    exists (VB (cmp_fun b (interp t x) (interp t y))). split.
    - split; [|apply shape_bool].
      cbn [pv_term]. rewrite Ea', Ec'. unfold cmp_il_exec. cbn [vt_sg ty_int ty_h vt_float andb]. unfold rd.
      destruct t as [sg w] eqn:Et. cbn [fst snd] in *.
      assert (Hu : forall z, 0 <= z < pow2 w -> interp (false, w) z = z) by (intros; apply interp_unsigned; auto).
      destruct Hb as [-> | [-> | [-> | [-> | [-> | ->]]]]]; cbn [String.eqb Ascii.eqb Bool.eqb cmp_fun];
      destruct sg; cbn [orb fin_pure eval]; rewrite Ex, Ey, N.eqb_refl; cbn [cmp_sem interp fst snd negb];
      rewrite ?Z.gtb_ltb, ?Z.geb_leb; try reflexivity;
      try (change (sval w x) with (interp (true, w) x); change (sval w y) with (interp (true, w) y); rewrite interp_eqb by auto; reflexivity);
      try (change (wrap w x) with (interp (false, w) x); change (wrap w y) with (interp (false, w) y); rewrite !Hu by auto; reflexivity).
    - cbn [pv_ty]. rewrite Ea' in *. rewrite Ec' in *. cbn [cval_of vt_sg ty_int ty_h] in *.
      assert (Hfa : fst (cval_of (pv_ty a) va) = cty_of (pv_ty a)) by (apply fst_cval_of; apply Sa).
      assert (Hfc : fst (cval_of (pv_ty c) vc) = cty_of (pv_ty c)) by (apply fst_cval_of; apply Sc).
      assert (forall f, c_cmp f (cval_of (pv_ty a) va) (cval_of (pv_ty c) vc) =
                        (int_t, if f (interp t x) (interp t y) then 1 else 0)) as Hc.
      { intros f. unfold c_cmp. rewrite Hfa, Hfc. fold t. rewrite <- Ca', <- Cc'. unfold mkval, vint. cbn [fst snd].
        change (interp (fst t, snd t)) with (interp t).
        destruct (f (interp t x) (interp t y)); reflexivity. }
      destruct Hb as [-> | [-> | [-> | [-> | [-> | ->]]]]]; cbn [c_binop cmp_fun]; rewrite Hc; reflexivity.
  Qed.


  (* ------------------------------------------------------------------ shifts *)
  Lemma lower_shift_ok b a c st : (b = Ast.BShl \/ b = Ast.BShr) -> goodpv a -> goodpv c ->
    exists r, lower_binop cfg b (IPure a) (IPure c) st = OK (IPure r, st) /\ goodpv r /\ ~ islit r /\
      forall ms va vc, sem ms a va -> sem ms c vc ->
        exists vr, sem ms r vr /\
          forall cv, c_binop b (cval_of (pv_ty a) va) (cval_of (pv_ty c) vc) = Some cv -> cv = cval_of (pv_ty r) vr.
  Proof.
    intros Hb Hga Hgc.
    destruct (int_of_bool_ok c st Hgc) as [c' [sc [wc [C1 [C2 [C3 [C4 C5]]]]]]].
    destruct (promotion_cast_ok a st Hga) as [a' [A1 [A2 [A3 [A4 [_ A5]]]]]].
    destruct (ity_inv _ _ _ A3) as [ha3 EA3]. destruct (ity_inv _ _ _ C3) as [hc3 EC3].
    set (t := promote (cty_of (pv_ty a))) in *.
    exists (mkpv (PBin (match b with Ast.BShl => BShl0 | _ => if fst t then BShra else BShr0 end) (rd a') (rd c'))
                 (pv_ty a') KExec (pv_tmps a' ++ pv_tmps c')).
    split.
    { destruct Hb as [-> | ->]; cbn [lower_binop];
      (erewrite bind_OK by reflexivity); (erewrite bind_OK by reflexivity);
      (erewrite bind_OK by exact C1); cbn [fx cfg_fx fx_shift_promote all_fixes];
      (erewrite bind_OK by exact A1);
      unfold need_numeric; rewrite EA3; cbn [is_numeric ty_int ty_h vt_void vt_ext negb andb];
      (erewrite bind_OK by reflexivity); [reflexivity|].
      unfold bitop_il_exec. cbn [String.eqb Ascii.eqb Bool.eqb vt_sg ty_int ty_h]. destruct (fst t); reflexivity. }
    split. { right. exists (fst t), (snd t). gp. }
    split. { cbn. auto. }
    intros ms va vc Sa Sc.
    destruct (A5 ms va Sa) as [va' [Sa' Ca']]. destruct (C5 ms vc Sc) as [vc' [Sc' Cc']].
    destruct (sem_int _ _ _ _ _ A3 Sa') as [x [-> [Hx Ex]]]. destruct (sem_int _ _ _ _ _ C3 Sc') as [y [-> [Hy Ey]]].
    set (o := match b with Ast.BShl => BShl0 | _ => if fst t then BShra else BShr0 end).
    assert (Ho : is_shift o = true) by (unfold o; destruct Hb as [-> | ->]; [|destruct (fst t)]; reflexivity).
    assert (exists res, bin_sem o (snd t) x y = Some res /\ 0 <= res < pow2 (snd t) /\
               (0 <= y < Z.of_N (snd t) ->
                res = wrap (snd t) (if match b with Ast.BShl => true | _ => false end then interp t x * 2 ^ y else interp t x / 2 ^ y)))
      as [res [Hres [Hrange Hval]]].
    { unfold o. destruct t as [sg w] eqn:Et. cbn [fst snd] in *.
      destruct Hb as [-> | ->]; [|destruct sg]; cbn [bin_sem]; eexists; (split; [reflexivity|]).
      - split. + unfold shl0. destruct (y <? Z.of_N w); [apply wrap_range | pose proof (pow2_pos w); lia].
        + intros Hn. apply shl_ok; auto.
      - split. + unfold shra. destruct (y <? Z.of_N w); [apply wrap_range|]. pose proof (pow2_pos w). destruct (msb w x); lia.
        + intros Hn. apply shra_ok; auto.
      - split. + unfold shr0. pose proof (pow2_pos w). destruct (y <? Z.of_N w); [|lia].
          rewrite wrap_small by auto. assert (0 < 2 ^ y) by (apply Z.pow_pos_nonneg; lia).
          split; [apply Z.div_pos; lia|]. apply Z.div_lt_upper_bound; nia.
        + intros Hn. apply shr_ok; auto. }
    exists (VBv (snd t) res). split.
    - split.
      + cbn [pv_term fin_pure eval]. unfold rd. rewrite Ex, Ey. fold o. rewrite Ho. cbn [orb]. rewrite Hres. reflexivity.
      + cbn [pv_ty]. rewrite EA3. apply shape_h. auto.
    - intros cv Hcv. cbn [pv_ty]. rewrite EA3 in *. rewrite EC3 in *. cbn [cval_of vt_sg ty_int ty_h] in *.
      pose proof (wfc_cval_of a va Hga (proj2 Sa)) as Wa. pose proof (wfc_cval_of c vc Hgc (proj2 Sc)) as Wc.
      assert (Hfa : fst (cval_of (pv_ty a) va) = cty_of (pv_ty a)) by (apply fst_cval_of; apply Sa).
      assert (Hcs : c_shift (match b with Ast.BShl => true | _ => false end) (cval_of (pv_ty a) va) (cval_of (pv_ty c) vc) = Some cv).
      { destruct Hb as [-> | ->]; exact Hcv. }
      clear Hcv. unfold c_shift in Hcs. rewrite vint_conv_promote in Hcs by auto. rewrite Hfa in Hcs. fold t in Hcs.
      rewrite <- Ca', <- Cc' in Hcs.
      destruct ((0 <=? vint (sc, wc, y)) && (vint (sc, wc, y) <? Z.of_N (snd t))) eqn:Erange; [|discriminate].
      injection Hcs as <-.
      unfold vint in Erange. cbn [fst snd] in Erange.
      assert (Hn : interp (sc, wc) y = y) by (apply interp_nonneg; auto; lia).
      unfold vint. cbn [fst snd]. rewrite Hn in *. unfold mkval.
      rewrite Hval by lia. change (interp (fst t, snd t)) with (interp t).
      destruct t as [sg w]; reflexivity.
  Qed.

  (* x <<= e;  x >>= e : Lower.compound_src promotes both operands (the count of a compound shift is promoted, unlike
     that of a binary shift) *)
  Lemma shift_compound_ok (a : asgop) d c st : (a = AShl \/ a = AShr) -> goodpv d -> goodpv c ->
    exists r, compound_src cfg a d c st = OK (r, st) /\ goodpv r /\
      forall ms vd vc, sem ms d vd -> sem ms c vc ->
        exists vr, sem ms r vr /\
          forall cv, c_shift (match a with AShl => true | _ => false end) (cval_of (pv_ty d) vd) (cval_of (pv_ty c) vc) = Some cv ->
                     cv = cval_of (pv_ty r) vr.
  Proof.
    intros Hb Hgd Hgc.
    destruct (promotion_cast_ok d st Hgd) as [a' [A1 [A2 [A3 [A4 [_ A5]]]]]].
    destruct (promotion_cast_ok c st Hgc) as [c' [C1 [C2 [C3 [C4 [_ C5]]]]]].
    destruct (ity_inv _ _ _ A3) as [ha3 EA3]. destruct (ity_inv _ _ _ C3) as [hc3 EC3].
    set (t := promote (cty_of (pv_ty d))) in *. set (tc := promote (cty_of (pv_ty c))) in *.
    exists (mkpv (PBin (match a with AShl => BShl0 | _ => if fst t then BShra else BShr0 end) (rd a') (rd c'))
                 (pv_ty a') KExec (pv_tmps a' ++ pv_tmps c')).
    split.
    { destruct Hb as [-> | ->]; cbn [compound_src]; unfold bind; rewrite A1, C1; unfold ret;
      unfold bitop_il_exec; rewrite EA3; cbn [String.eqb Ascii.eqb Bool.eqb vt_sg ty_int ty_h]; [reflexivity|].
      destruct (fst t); reflexivity. }
    split. { right. exists (fst t), (snd t). gp. }
    intros ms va vc Sa Sc.
    destruct (A5 ms va Sa) as [va' [Sa' Ca']]. destruct (C5 ms vc Sc) as [vc' [Sc' Cc']].
    destruct (sem_int _ _ _ _ _ A3 Sa') as [x [-> [Hx Ex]]]. destruct (sem_int _ _ _ _ _ C3 Sc') as [y [-> [Hy Ey]]].
    set (o := match a with AShl => BShl0 | _ => if fst t then BShra else BShr0 end).
    assert (Ho : is_shift o = true) by (unfold o; destruct Hb as [-> | ->]; [|destruct (fst t)]; reflexivity).
    assert (exists res, bin_sem o (snd t) x y = Some res /\ 0 <= res < pow2 (snd t) /\
               (0 <= y < Z.of_N (snd t) ->
                res = wrap (snd t) (if match a with AShl => true | _ => false end then interp t x * 2 ^ y else interp t x / 2 ^ y)))
      as [res [Hres [Hrange Hval]]].
    { unfold o. destruct t as [sg w] eqn:Et. cbn [fst snd] in *.
      destruct Hb as [-> | ->]; [|destruct sg]; cbn [bin_sem]; eexists; (split; [reflexivity|]).
      - split. + unfold shl0. destruct (y <? Z.of_N w); [apply wrap_range | pose proof (pow2_pos w); lia].
        + intros Hn. apply shl_ok; auto.
      - split. + unfold shra. destruct (y <? Z.of_N w); [apply wrap_range|]. pose proof (pow2_pos w). destruct (msb w x); lia.
        + intros Hn. apply shra_ok; auto.
      - split. + unfold shr0. pose proof (pow2_pos w). destruct (y <? Z.of_N w); [|lia].
          rewrite wrap_small by auto. assert (0 < 2 ^ y) by (apply Z.pow_pos_nonneg; lia).
          split; [apply Z.div_pos; lia|]. apply Z.div_lt_upper_bound; nia.
        + intros Hn. apply shr_ok; auto. }
    exists (VBv (snd t) res). split.
    - split.
      + cbn [pv_term fin_pure eval]. unfold rd. rewrite Ex, Ey. fold o. rewrite Ho. cbn [orb]. rewrite Hres. reflexivity.
      + cbn [pv_ty]. rewrite EA3. apply shape_h. auto.
    - intros cv Hcs. cbn [pv_ty]. rewrite EA3 in *. rewrite EC3 in *. cbn [cval_of vt_sg ty_int ty_h] in *.
      pose proof (wfc_cval_of d va Hgd (proj2 Sa)) as Wa. pose proof (wfc_cval_of c vc Hgc (proj2 Sc)) as Wc.
      assert (Hfa : fst (cval_of (pv_ty d) va) = cty_of (pv_ty d)) by (apply fst_cval_of; apply Sa).
      assert (Hfc : fst (cval_of (pv_ty c) vc) = cty_of (pv_ty c)) by (apply fst_cval_of; apply Sc).
      unfold c_shift in Hcs. rewrite Hfa, Hfc in Hcs. fold t in Hcs. fold tc in Hcs.
      rewrite <- Ca', <- Cc' in Hcs.
      destruct ((0 <=? vint (fst tc, snd tc, y)) && (vint (fst tc, snd tc, y) <? Z.of_N (snd t))) eqn:Erange; [|discriminate].
      injection Hcs as <-.
      unfold vint in Erange. cbn [fst snd] in Erange.
      assert (Hn : interp (fst tc, snd tc) y = y) by (apply interp_nonneg; auto; lia).
      unfold vint. cbn [fst snd]. rewrite Hn in *. unfold mkval.
      rewrite Hval by lia. change (interp (fst t, snd t)) with (interp t).
      destruct t as [sg w]; reflexivity.
  Qed.

  (* ------------------------------------------------------------------ conditions, logical operators *)
  Definition truth (c : cval) : bool := negb (snd c =? 0).

  Lemma is_boolop_good p : goodpv p -> is_boolop cfg p = vt_bool (pv_ty p).
  Proof.
    unfold is_boolop. intros [[Ht [Hk _]] | [sg [w [_ [Ht [Hk _]]]]]]; rewrite Ht.
    - destruct (pv_kind p) as [? [|]| | | | |? [|] | | |]; cbn in Hk; try contradiction; reflexivity.
    - cbn [vt_bool ty_int ty_h]. destruct (pv_kind p) as [? [|]| | | | |? [|] | | |]; cbn in Hk; try contradiction; reflexivity.
  Qed.

  Lemma cond_ok p ms v : goodpv p -> sem ms p v ->
    eval rw ms [] (fin (cond_of cfg p)) = Some (VB (truth (cval_of (pv_ty p) v))).
  Proof.
    intros Hg Hs. unfold cond_of. rewrite is_boolop_good by auto.
    destruct Hg as [[Ht [Hk _]] | [sg [w [_ [Ht [Hk _]]]]]].
    - destruct (sem_bool _ _ _ Ht Hs) as [b [-> He]]. rewrite Ht. cbn [vt_bool ty_bool cond_wrap]. unfold rd. rewrite He.
      destruct b; reflexivity.
    - destruct (sem_int _ _ _ _ _ Ht Hs) as [z [-> [Hz He]]]. rewrite Ht. cbn [vt_bool ty_int ty_h cond_wrap fin_pure eval]. unfold rd. rewrite He.
      reflexivity.
  Qed.

  Lemma lower_logic_ok b a c st : (b = Ast.BLAnd \/ b = Ast.BLOr) -> goodpv a -> goodpv c ->
    exists r, lower_binop cfg b (IPure a) (IPure c) st = OK (IPure r, st) /\ goodpv r /\ ~ islit r /\
      forall ms va vc, sem ms a va -> sem ms c vc ->
        sem ms r (VB (match b with Ast.BLAnd => andb | _ => orb end
                        (truth (cval_of (pv_ty a) va)) (truth (cval_of (pv_ty c) vc)))).
  Proof.
    intros Hb Hga Hgc.
    exists (mkpv (boolop_il_exec (match b with Ast.BLAnd => "&&" | _ => "||" end) (is_boolop cfg a) (is_boolop cfg c) (rd a) (rd c))
                 ty_bool KBoolOp (pv_tmps a ++ pv_tmps c)).
    split.
    { destruct Hb as [-> | ->]; cbn [lower_binop];
      (erewrite bind_OK by reflexivity); (erewrite bind_OK by reflexivity);
      cbn [fx cfg_fx fx_bool_int all_fixes]; (erewrite bind_OK by reflexivity); reflexivity. }
    split. { left. gp. }
    split. { cbn. auto. }
    intros ms va vc Sa Sc. split; [|apply shape_bool].
    pose proof (cond_ok a ms va Hga Sa) as Ea. pose proof (cond_ok c ms vc Hgc Sc) as Ec. unfold cond_of in Ea, Ec.
    cbn [pv_term]. unfold boolop_il_exec.
    destruct Hb as [-> | ->]; cbn [String.eqb Ascii.eqb Bool.eqb fin_pure eval]; rewrite Ea, Ec; reflexivity.
  Qed.


  (* ------------------------------------------------------------------ unary operators *)
  Lemma simplify_unary_nolit u p : ~ islit p -> simplify_unary cfg u p = None.
  Proof. unfold simplify_unary, islit. destruct (pv_kind p); destruct u; intros H; try reflexivity; exfalso; apply H; exact I. Qed.
  Lemma simplify_unary_lnot p : simplify_unary cfg ULNot p = None.
  Proof. unfold simplify_unary. destruct (pv_kind p); reflexivity. Qed.

  Lemma lower_unop_ok u a st : (u = UNot \/ u = UMinus) -> goodpv a -> ~ islit a ->
    exists r, lower_unop cfg u (IPure a) st = OK (IPure r, st) /\ goodpv r /\ ~ islit r /\
      forall ms va, sem ms a va ->
        exists vr, sem ms r vr /\ c_unop u (cval_of (pv_ty a) va) = Some (cval_of (pv_ty r) vr).
  Proof.
    intros Hu Hga Hnl.
    destruct (promotion_cast_ok a st Hga) as [a' [A1 [A2 [A3 [A4 [_ A5]]]]]].
    destruct (ity_inv _ _ _ A3) as [ha3 EA3].
    set (t := promote (cty_of (pv_ty a))) in *.
    exists (mkpv (PUn (match u with UNot => ULogNot | _ => UNeg end) (rd a')) (pv_ty a') KExec (pv_tmps a')).
    split.
    { destruct Hu as [-> | ->]; cbn [lower_unop]; (erewrite bind_OK by reflexivity);
      rewrite simplify_unary_nolit by exact Hnl; (erewrite bind_OK by exact A1); reflexivity. }
    split. { right. exists (fst t), (snd t). gp. }
    split. { cbn. auto. }
    intros ms va Sa. destruct (A5 ms va Sa) as [va' [Sa' Ca']].
    destruct (sem_int _ _ _ _ _ A3 Sa') as [x [-> [Hx Ex]]].
    exists (VBv (snd t) (match u with UNot => wrap (snd t) (- x - 1) | _ => wrap (snd t) (- x) end)). split.
    - split.
      + cbn [pv_term fin_pure eval]. unfold rd. rewrite Ex. destruct Hu as [-> | ->]; reflexivity.
      + cbn [pv_ty]. rewrite EA3. apply shape_h. destruct u; apply wrap_range.
    - cbn [pv_ty]. rewrite EA3 in *. cbn [cval_of vt_sg ty_int ty_h] in *.
      assert (Hfa : fst (cval_of (pv_ty a) va) = cty_of (pv_ty a)) by (apply fst_cval_of; apply Sa).
      destruct Hu as [-> | ->]; cbn [c_unop]; rewrite Hfa; fold t; rewrite <- Ca'; unfold mkval, vint; cbn [fst snd];
      change (interp (fst t, snd t)) with (interp t); destruct t as [sg w]; cbn [fst snd]; do 2 f_equal.
      + apply arith_interp_not. + apply arith_interp_neg.
  Qed.

  Lemma lower_lnot_ok a st : goodpv a ->
    exists r, lower_unop cfg ULNot (IPure a) st = OK (IPure r, st) /\ goodpv r /\ ~ islit r /\
      forall ms va, sem ms a va ->
        exists vr, sem ms r vr /\ c_unop ULNot (cval_of (pv_ty a) va) = Some (cval_of (pv_ty r) vr).
  Proof.
    intros Hga.
    exists (mkpv (boolop_il_exec "!" (is_boolop cfg a) false (rd a) (rd a)) ty_bool KBoolOp (pv_tmps a)).
    split.
    { cbn [lower_unop]. (erewrite bind_OK by reflexivity). rewrite simplify_unary_lnot. reflexivity. }
    split. { left. gp. }
    split. { cbn. auto. }
    intros ms va Sa. exists (VB (negb (truth (cval_of (pv_ty a) va)))). split.
    - split; [|apply shape_bool]. pose proof (cond_ok a ms va Hga Sa) as Ea. unfold cond_of in Ea.
      cbn [pv_term]. unfold boolop_il_exec. cbn [String.eqb Ascii.eqb Bool.eqb fin_pure eval]. rewrite Ea. reflexivity.
    - cbn [c_unop pv_ty cval_of]. unfold truth. destruct (snd (cval_of (pv_ty a) va) =? 0); reflexivity.
  Qed.

  (* literal operands are folded by the compiler; a literal pval carries its Python value *)
  Definition litinv (p : pval) : Prop := forall v b, pv_kind p = KLit v b ->
    (b = false /\ exists sg w, (w = 32%N \/ w = 64%N) /\ pv_ty p = ty_int sg w /\ pv_term p = PBv sg w v /\
                               norm_lit (ty_int sg w) v = v) \/
    (b = true /\ pv_ty p = ty_bool /\ exists bb : bool, pv_term p = PBool bb /\ v = if bb then 1 else 0).

  Lemma promoted_or_self_wide sg w : (w = 32%N \/ w = 64%N) -> promoted_or_self (ty_int sg w) = ty_int sg w.
  Proof. intros [-> | ->]; destruct sg; reflexivity. Qed.

  Lemma wrap_norm_lit sg w z : wrap w (norm_lit (ty_int sg w) z) = wrap w z.
  Proof. unfold norm_lit. cbn [vt_sg vt_w ty_int ty_h]. destruct sg; [apply wrap_sval | apply wrap_idem]. Qed.

  Lemma norm_lit_interp sg w z : norm_lit (ty_int sg w) z = interp (sg, w) (wrap w z).
  Proof.
    unfold norm_lit, interp. cbn [vt_sg vt_w ty_int ty_h fst snd]. destruct sg; [|rewrite wrap_idem; reflexivity].
    unfold sval. rewrite wrap_idem. reflexivity.
  Qed.

  Lemma norm_lit_idem sg w z : norm_lit (ty_int sg w) (norm_lit (ty_int sg w) z) = norm_lit (ty_int sg w) z.
  Proof. rewrite (norm_lit_interp sg w (norm_lit _ _)). rewrite wrap_norm_lit. symmetry. apply norm_lit_interp. Qed.

  (* converting a literal's C value: what the folding code computes with norm_lit *)
  Lemma vint_conv_lit T sg w v : norm_lit (ty_int sg w) v = v ->
    vint (conv T ((sg, w), wrap w v)) = norm_lit (ty_int (fst T) (snd T)) v.
  Proof.
    intros Hn. unfold conv, mkval, vint. cbn [fst snd]. rewrite <- norm_lit_interp, Hn.
    rewrite norm_lit_interp. destruct T; reflexivity.
  Qed.

  Lemma lit_sem p v b : litinv p -> pv_kind p = KLit v b ->
    (snd (cty_of (pv_ty p)) = 32%N \/ snd (cty_of (pv_ty p)) = 64%N) /\
    promoted_or_self (pv_ty p) = ty_int (fst (cty_of (pv_ty p))) (snd (cty_of (pv_ty p))) /\
    norm_lit (ty_int (fst (cty_of (pv_ty p))) (snd (cty_of (pv_ty p)))) v = v /\
    forall ms ilv, sem ms p ilv -> cval_of (pv_ty p) ilv = (cty_of (pv_ty p), wrap (snd (cty_of (pv_ty p))) v).
  Proof.
    intros Hli Hk. destruct (Hli v b Hk) as [[_ [sg [w [Hw [Ht [Htm Hn]]]]]] | [_ [Ht [bb [Htm ->]]]]]; rewrite Ht.
    - unfold cty_of. cbn [vt_bool ty_int ty_h vt_sg vt_w fst snd]. split; [exact Hw|]. split; [apply promoted_or_self_wide; auto|].
      split; [exact Hn|]. intros ms ilv [He _]. rewrite Htm in He. cbn [fin_pure eval] in He. injection He as <-. reflexivity.
    - unfold cty_of. cbn [vt_bool ty_bool int_t fst snd]. split; [auto|]. split; [reflexivity|].
      split; [destruct bb; reflexivity|]. intros ms ilv [He _]. rewrite Htm in He. cbn [fin_pure eval] in He. injection He as <-.
      destruct bb; reflexivity.
  Qed.

  Lemma promote_wide t : (snd t = 32%N \/ snd t = 64%N) -> promote t = t.
  Proof. destruct t as [sg w]. cbn [snd]. intros [-> | ->]; reflexivity. Qed.

  Lemma lower_unop_lit_ok u a st v b : (u = UNot \/ u = UMinus) -> goodpv a -> litinv a -> pv_kind a = KLit v b ->
    exists r, lower_unop cfg u (IPure a) st = OK (IPure r, st) /\ goodpv r /\ litinv r /\
      forall ms va, sem ms a va ->
        exists vr, sem ms r vr /\ c_unop u (cval_of (pv_ty a) va) = Some (cval_of (pv_ty r) vr).
  Proof.
    intros Hu Hga Hli Hk. destruct (lit_sem a v b Hli Hk) as [Hw [Hpr [Hn Hsem]]].
    destruct (cty_of (pv_ty a)) as [sg w] eqn:Et. cbn [fst snd] in *.
    assert (Hokw : okw w) by (destruct Hw as [-> | ->]; auto).
    set (r' := norm_lit (ty_int sg w) (match u with UNot => - v - 1 | _ => - v end)).
    exists (mkpv (PBv sg w r') (ty_int sg w) (KLit r' false) []).
    split.
    { destruct Hu as [-> | ->]; cbn [lower_unop]; (erewrite bind_OK by reflexivity);
      unfold simplify_unary; rewrite Hk, Hpr; cbn [fx cfg_fx fx_literals all_fixes];
      (erewrite bind_OK by reflexivity); reflexivity. }
    split. { right. exists sg, w. gp. }
    split. { intros v0 b0 Hk0. cbn in Hk0. injection Hk0 as <- <-. left. split; [reflexivity|]. exists sg, w. cbn.
             repeat split; auto. apply norm_lit_idem. }
    intros ms va Sa. rewrite (Hsem ms va Sa).
    exists (VBv w (wrap w r')). split.
    - split; [reflexivity|]. cbn [pv_ty]. apply shape_h. apply wrap_range.
    - cbn [pv_ty cval_of vt_sg ty_int ty_h].
      assert (Hp : promote (sg, w) = (sg, w)) by (apply promote_wide; auto).
      unfold r'. rewrite wrap_norm_lit.
      destruct Hu as [-> | ->]; cbn [c_unop fst snd]; rewrite Hp; rewrite vint_conv_lit by auto; cbn [fst snd]; rewrite Hn; reflexivity.
  Qed.

  (* ------------------------------------------------------------------ compile-time folding of two literal operands *)
  Lemma uac_wide ta tc : (snd ta = 32%N \/ snd ta = 64%N) -> (snd tc = 32%N \/ snd tc = 64%N) ->
    (snd (uac ta tc) = 32%N \/ snd (uac ta tc) = 64%N).
  Proof. destruct ta as [sa wa], tc as [sc wc]. cbn [snd]. intros [-> | ->] [-> | ->]; destruct sa, sc; vm_compute; auto. Qed.

  Lemma arith_ty_wide ta tc : (snd ta = 32%N \/ snd ta = 64%N) -> (snd tc = 32%N \/ snd tc = 64%N) -> arith_ty ta tc = uac ta tc.
  Proof. intros Ha Hc. unfold arith_ty. rewrite !promote_wide by auto. reflexivity. Qed.

  Lemma wide_okw w : (w = 32%N \/ w = 64%N) -> okw w.
  Proof. intros [-> | ->]; auto. Qed.

  Lemma lower_arith_lit_ok b a c st va ba vb bb : (b = Ast.BAdd \/ b = Ast.BSub \/ b = Ast.BMul) ->
    litinv a -> litinv c -> pv_kind a = KLit va ba -> pv_kind c = KLit vb bb ->
    exists r, lower_binop cfg b (IPure a) (IPure c) st = OK (IPure r, st) /\ goodpv r /\ litinv r /\
      forall ms ila ilc, sem ms a ila -> sem ms c ilc ->
        exists vr, sem ms r vr /\
          c_binop b (cval_of (pv_ty a) ila) (cval_of (pv_ty c) ilc) = Some (cval_of (pv_ty r) vr).
  Proof.
    intros Hb Hla Hlc Hka Hkc.
    destruct (lit_sem a va ba Hla Hka) as [Hwa [Hpa [Hna Hsa]]]. destruct (lit_sem c vb bb Hlc Hkc) as [Hwc [Hpc [Hnc Hsc]]].
    destruct (cty_of (pv_ty a)) as [sa wa] eqn:Eta. destruct (cty_of (pv_ty c)) as [sc wc] eqn:Etc. cbn [fst snd] in *.
    pose proof (uac_wide (sa, wa) (sc, wc) Hwa Hwc) as HwT. pose proof (arith_ty_wide (sa, wa) (sc, wc) Hwa Hwc) as HaT.
    destruct (uac (sa, wa) (sc, wc)) as [sT wT] eqn:ET. cbn [fst snd] in *.
    set (nm := norm_lit (ty_int sT wT)).
    set (r' := nm (arith_fun b (nm va) (nm vb))).
    exists (mkpv (PBv sT wT r') (ty_int sT wT) (KLit r' false) []).
    split.
    { destruct Hb as [-> | [-> | ->]]; cbn [lower_binop];
      (erewrite bind_OK by reflexivity); (erewrite bind_OK by reflexivity);
      rewrite Hka, Hkc; cbn [fx cfg_fx fx_literals all_fixes]; rewrite Hpa, Hpc;
      rewrite c11_vtypes_plain by (apply wide_okw; auto); rewrite ET; cbn [fst snd];
      (erewrite bind_OK by reflexivity); reflexivity. }
    split. { right. exists sT, wT. gp. apply wide_okw; auto. }
    split. { intros v0 b0 Hk0. cbn in Hk0. injection Hk0 as <- <-. left. split; [reflexivity|]. exists sT, wT. cbn.
             repeat split; auto. apply norm_lit_idem. }
    intros ms ila ilc Sa Sc. rewrite (Hsa ms ila Sa), (Hsc ms ilc Sc).
    exists (VBv wT (wrap wT r')). split.
    - split; [reflexivity|]. cbn [pv_ty]. apply shape_h. apply wrap_range.
    - cbn [pv_ty cval_of vt_sg ty_int ty_h].
      assert (forall f, c_arith f (sa, wa, wrap wa va) (sc, wc, wrap wc vb) = ((sT, wT), wrap wT (f (nm va) (nm vb)))) as Hc.
      { intros f. unfold c_arith. cbn [fst]. rewrite HaT. rewrite !vint_conv_lit by auto. reflexivity. }
      unfold r'. unfold nm at 1. rewrite wrap_norm_lit.
      destruct Hb as [-> | [-> | ->]]; cbn [c_binop arith_fun]; rewrite Hc; reflexivity.
  Qed.

  Lemma lower_cmp_lit_ok b a c st va ba vb bb : is_cmp b ->
    litinv a -> litinv c -> pv_kind a = KLit va ba -> pv_kind c = KLit vb bb ->
    exists r, lower_binop cfg b (IPure a) (IPure c) st = OK (IPure r, st) /\ goodpv r /\ litinv r /\
      forall ms ila ilc, sem ms a ila -> sem ms c ilc ->
        exists vr, sem ms r vr /\
          c_binop b (cval_of (pv_ty a) ila) (cval_of (pv_ty c) ilc) = Some (cval_of (pv_ty r) vr).
  Proof.
    intros Hb Hla Hlc Hka Hkc.
    destruct (lit_sem a va ba Hla Hka) as [Hwa [Hpa [Hna Hsa]]]. destruct (lit_sem c vb bb Hlc Hkc) as [Hwc [Hpc [Hnc Hsc]]].
    destruct (cty_of (pv_ty a)) as [sa wa] eqn:Eta. destruct (cty_of (pv_ty c)) as [sc wc] eqn:Etc. cbn [fst snd] in *.
    pose proof (uac_wide (sa, wa) (sc, wc) Hwa Hwc) as HwT. pose proof (arith_ty_wide (sa, wa) (sc, wc) Hwa Hwc) as HaT.
    destruct (uac (sa, wa) (sc, wc)) as [sT wT] eqn:ET. cbn [fst snd] in *.
    set (nm := norm_lit (ty_int sT wT)).
    exists (bool_lit (cmp_fun b (nm va) (nm vb))).
    split.
    { destruct Hb as [-> | [-> | [-> | [-> | [-> | ->]]]]]; cbn [lower_binop];
      (erewrite bind_OK by reflexivity); (erewrite bind_OK by reflexivity);
      rewrite Hka, Hkc; cbn [fx cfg_fx fx_literals all_fixes]; rewrite Hpa, Hpc;
      rewrite c11_vtypes_plain by (apply wide_okw; auto); rewrite ET; cbn [fst snd];
      (erewrite bind_OK by reflexivity); cbn beta iota; cbn [cmp_fun]; rewrite ?Z.gtb_ltb, ?Z.geb_leb; reflexivity. }
    split. { left. gp. }
    split. { intros v0 b0 Hk0. cbn in Hk0. injection Hk0 as <- <-. right. split; [reflexivity|]. split; [reflexivity|].
             eexists. split; reflexivity. }
    intros ms ila ilc Sa Sc. rewrite (Hsa ms ila Sa), (Hsc ms ilc Sc).
    exists (VB (cmp_fun b (nm va) (nm vb))). split.
    - split; [reflexivity | apply shape_bool].
    - cbn [pv_ty bool_lit cval_of].
      assert (forall f, c_cmp f (sa, wa, wrap wa va) (sc, wc, wrap wc vb) = (int_t, if f (nm va) (nm vb) then 1 else 0)) as Hc.
      { intros f. unfold c_cmp. cbn [fst]. rewrite HaT. rewrite !vint_conv_lit by auto. cbn [fst snd]. fold nm.
        destruct (f (nm va) (nm vb)); reflexivity. }
      destruct Hb as [-> | [-> | [-> | [-> | [-> | ->]]]]]; cbn [c_binop cmp_fun]; rewrite Hc; reflexivity.
  Qed.

  (* ------------------------------------------------------------------ casts *)
  Definition cast_ty (ts : tyspec) (sg : bool) (w : N) : Prop :=
    (ts = [TS_intN sg w] /\ okw w) \/ (ts = [TS_int] /\ sg = true /\ w = 32%N) \/
    (ts = [TS_unsigned] /\ sg = false /\ w = 32%N) \/ (ts = [TS_unsigned; TS_int] /\ sg = false /\ w = 32%N) \/
    (exists b, ts = [TS_sizeN b sg] /\ w = (b * 8)%N /\ okw w).     (* QEMU's sizeNs_t / sizeNu_t *)

  Lemma cast_ty_ok ts sg w st : cast_ty ts sg w ->
    resolve_cast_ty ts st = OK (ty_int sg w, st) /\ resolve_ty_c ts = Some (sg, w) /\ okw w.
  Proof.
    intros [[-> Hw] | [[-> [-> ->]] | [[-> [-> ->]] | [[-> [-> ->]] | [b [-> [-> Hw]]]]]]]; repeat split; auto.
  Qed.

  Lemma lower_cast_ok ts sg w a st : cast_ty ts sg w -> goodpv a ->
    exists r, lower_cast cfg ts (IPure a) st = OK (IPure r, st) /\ goodpv r /\
      (forall v b, pv_kind r = KLit v b -> r = a) /\
      forall ms va, sem ms a va ->
        exists vr, sem ms r vr /\ cval_of (pv_ty r) vr = conv (sg, w) (cval_of (pv_ty a) va).
  Proof.
    intros Hts Hga. destruct (cast_ty_ok ts sg w st Hts) as [R1 [_ Hw]].
    destruct (init_a_cast_ok sg w a st Hw Hga) as [a' [A1 [A2 [A3 [A4 A5]]]]].
    unfold lower_cast. (erewrite bind_OK by exact R1). (erewrite bind_OK by reflexivity).
    unfold ty_eq.
    assert (Hnum : is_numeric (pv_ty a) && is_numeric (ty_int sg w) = true).
    { destruct Hga as [[Ht _] | [s0 [w0 [_ [Ht _]]]]]; rewrite Ht; reflexivity. }
    rewrite Hnum. (erewrite bind_OK by reflexivity).
    destruct (vtype_eqb (pv_ty a) (ty_int sg w)) eqn:Eeq.
    - exists a. split; [reflexivity|]. split; [auto|]. split; [auto|].
      intros ms va Sa. exists va. split; [auto|].
      destruct Hga as [[Ht _] | [s0 [w0 [Hw0 [Ht _]]]]].
      + rewrite Ht in Eeq. exfalso. unfold vtype_eqb in Eeq. cbn in Eeq. okw_cases Hw; discriminate.
      + destruct (ity_inv _ _ _ Ht) as [h0 E]. rewrite E in Eeq.
        apply (vtype_eqb_h h0 s0 w0 false sg w) in Eeq. destruct Eeq as [-> ->].
        destruct (sem_int _ _ _ _ _ Ht Sa) as [z [-> [Hz _]]]. rewrite (cval_of_ity _ sg w z Ht).
        symmetry. apply (conv_same ((sg, w), z)). split; auto.
    - (erewrite bind_OK by exact A1). exists a'. split; [reflexivity|]. auto.
  Qed.


  (* ------------------------------------------------------------------ ?: *)
  Definition cond_tail (ic it if_ : item) : M item :=
    do pc <- as_pure "conditional" ic;
    match fold_cond pc with
    | Some b =>
        if fx_literals (fx cfg) then
          do pt <- as_pure "conditional" it; do pf <- as_pure "conditional" if_;
          do ppt <- promotion_cast cfg pt; do ppf <- promotion_cast cfg pf;
          do '(pt', pf') <- cast_operands cfg false ppt ppf;
          ret (IPure (if b then pt' else pf'))
        else
        do dead <- (match (if b then if_ else it) with IPure p => ret p | _ => fail "dead arm has no name" end);
        do _ <- rm_op dead;
        ret (if b then it else if_)
    | None =>
        do pt <- as_pure "conditional" it; do pf <- as_pure "conditional" if_;
        do _ <- (match pv_kind pt with KTmp n true => update_gcc_branch n (cond_of cfg pc) true | _ => ret tt end);
        do _ <- (match pv_kind pf with KTmp n true => update_gcc_branch n (cond_of cfg pc) false | _ => ret tt end);
        do '(pt', pf') <- (if fx_cmp_promote (fx cfg) then do ppt <- promotion_cast cfg pt; do ppf <- promotion_cast cfg pf; cast_operands cfg false ppt ppf
                           else cast_operands cfg false pt pf);
        ret (IPure (mkpv (PIte (cond_of cfg pc) (rd pt') (rd pf')) (pv_ty pt') KExec (pv_tmps pc ++ pv_tmps pt' ++ pv_tmps pf')))
    end.

  Lemma lower_expr_cond c t f :
    lower_expr cfg (ECond c t f) =
    (do ic <- lower_expr cfg c; do it <- lower_expr cfg t; do if_ <- lower_expr cfg f; cond_tail ic it if_).
  Proof. reflexivity. Qed.

  Lemma gcc_match_skip p (X : string -> M unit) : goodpv p ->
    (match pv_kind p with KTmp n true => X n | _ => ret tt end) = ret tt.
  Proof.
    intros [[_ [Hk _]] | [sg [w [_ [_ [Hk _]]]]]];
    destruct (pv_kind p) as [? [|]| | | | |? [|] | | |]; cbn in Hk; try contradiction; reflexivity.
  Qed.

  Lemma fold_cond_nolit p : goodpv p -> ~ islit p -> fold_cond p = None.
  Proof.
    unfold fold_cond, islit. intros [[_ [Hk _]] | [sg [w [_ [_ [Hk _]]]]]] Hn;
    destruct (pv_kind p) as [? [|]| | | | |? [|] | | |]; cbn in Hk; try contradiction; try reflexivity; exfalso; apply Hn; exact I.
  Qed.

  Lemma cond_tail_ok pc pt pf st : goodpv pc -> goodpv pt -> goodpv pf -> ~ islit pc ->
    exists r, cond_tail (IPure pc) (IPure pt) (IPure pf) st = OK (IPure r, st) /\ goodpv r /\ ~ islit r /\
      forall ms vc vt vf, sem ms pc vc -> sem ms pt vt -> sem ms pf vf ->
        exists vr, sem ms r vr /\
          cval_of (pv_ty r) vr =
            conv (arith_ty (cty_of (pv_ty pt)) (cty_of (pv_ty pf)))
                 (if truth (cval_of (pv_ty pc) vc) then cval_of (pv_ty pt) vt else cval_of (pv_ty pf) vf).
  Proof.
    intros Hgc Hgt Hgf Hnl.
    destruct (prep_ok pt pf st Hgt Hgf) as [a' [c' [H1 [Ga' [Gc' [Ta' [Tc' [Hw H2]]]]]]]].
    destruct (ity_inv _ _ _ Ta') as [ha' Ea']. destruct (ity_inv _ _ _ Tc') as [hc' Ec'].
    set (t := arith_ty (cty_of (pv_ty pt)) (cty_of (pv_ty pf))) in *.
    exists (mkpv (PIte (cond_of cfg pc) (rd a') (rd c')) (pv_ty a') KExec (pv_tmps pc ++ pv_tmps a' ++ pv_tmps c')).
    split.
    { unfold cond_tail. (erewrite bind_OK by reflexivity). rewrite fold_cond_nolit by auto.
      (erewrite bind_OK by reflexivity). (erewrite bind_OK by reflexivity).
      rewrite !gcc_match_skip by auto.
      (erewrite bind_OK by reflexivity). (erewrite bind_OK by reflexivity).
      cbn [fx cfg_fx fx_cmp_promote all_fixes]. (erewrite bind_OK by exact H1). reflexivity. }
    split. { right. exists (fst t), (snd t). gp. rewrite (goodpv_tmps pc Hgc), (goodpv_tmps2 a' c' Ga' Gc'). reflexivity. }
    split. { cbn. auto. }
    intros ms vc vt vf Sc St Sf.
    destruct (H2 ms vt vf St Sf) as [va' [vc' [Sa' [Sc' [Ca' Cc']]]]].
    destruct (sem_int _ _ _ _ _ Ta' Sa') as [x [-> [Hx Ex]]]. destruct (sem_int _ _ _ _ _ Tc' Sc') as [y [-> [Hy Ey]]].
    pose proof (cond_ok pc ms vc Hgc Sc) as Ec.
    exists (VBv (snd t) (if truth (cval_of (pv_ty pc) vc) then x else y)). split.
    - split.
      + cbn [pv_term fin_pure eval]. unfold rd. rewrite Ec, Ex, Ey. cbn [sort_of_val sort_eqb]. rewrite N.eqb_refl.
        destruct (truth (cval_of (pv_ty pc) vc)); reflexivity.
      + cbn [pv_ty]. rewrite Ea'. apply shape_h. destruct (truth (cval_of (pv_ty pc) vc)); auto.
    - cbn [pv_ty]. rewrite Ea' in *. rewrite Ec' in *. cbn [cval_of vt_sg ty_int ty_h] in *.
      destruct (truth (cval_of (pv_ty pc) vc)); [rewrite <- Ca' | rewrite <- Cc']; reflexivity.
  Qed.

  (* ------------------------------------------------------------------ c ? t : f  with a condition that lowers to a literal *)
  (* a conversion never produces a literal: a literal result is the unconverted operand *)
  Lemma init_a_cast_lit t p st r st' : init_a_cast cfg t p st = OK (r, st') -> islit r -> r = p.
  Proof.
    unfold init_a_cast, islit. destruct (vt_float t || vt_float (pv_ty p)); [discriminate|].
    unfold bind, ty_eq. destruct (is_numeric t && is_numeric (pv_ty p)); [|discriminate].
    unfold ret. destruct (vtype_eqb t (pv_ty p)).
    - intros H _. injection H as <- _. reflexivity.
    - destruct (vt_bool (pv_ty p) && negb (vt_bool t)); intros H; injection H as <- _; cbn [pv_kind]; contradiction.
  Qed.
  Lemma promotion_cast_lit p st r st' : promotion_cast cfg p st = OK (r, st') -> islit r -> r = p.
  Proof.
    unfold promotion_cast, bind, need_numeric. destruct (is_numeric (pv_ty p)); [|discriminate]. unfold ret.
    destruct (promoted_vtype (pv_ty p)) as [t|]; [|discriminate]. unfold ty_eq.
    destruct (is_numeric t && is_numeric (pv_ty p)); [|discriminate]. unfold ret.
    destruct (vtype_eqb t (pv_ty p)).
    - intros H _. injection H as <- _. reflexivity.
    - apply init_a_cast_lit.
  Qed.
  Lemma cast_operands_lit a b st a' b' st' : cast_operands cfg false a b st = OK ((a', b'), st') ->
    (islit a' -> a' = a) /\ (islit b' -> b' = b).
  Proof.
    unfold cast_operands, bind, ty_eq. destruct (is_numeric (pv_ty a) && is_numeric (pv_ty b)); [|discriminate]. unfold ret.
    destruct (vtype_eqb (pv_ty a) (pv_ty b)).
    - intros H. injection H as <- <- _. split; reflexivity.
    - destruct (c11_vtypes (pv_ty a) (pv_ty b)) as [[ca cb]|]; [|discriminate].
      destruct (negb (vt_w ca =? vt_w (pv_ty a))%N || negb (Bool.eqb (vt_sg ca) (vt_sg (pv_ty a)))).
      + destruct (init_a_cast cfg ca a st) as [[xa s1]|] eqn:Ea; [|discriminate].
        destruct (negb (vt_w cb =? vt_w (pv_ty b))%N || negb (Bool.eqb (vt_sg cb) (vt_sg (pv_ty b)))).
        * destruct (init_a_cast cfg cb b s1) as [[xb s2]|] eqn:Eb; [|discriminate]. intros H. injection H as <- <- _.
          split; [exact (init_a_cast_lit _ _ _ _ _ Ea) | exact (init_a_cast_lit _ _ _ _ _ Eb)].
        * intros H. injection H as <- <- _. split; [exact (init_a_cast_lit _ _ _ _ _ Ea) | reflexivity].
      + destruct (negb (vt_w cb =? vt_w (pv_ty b))%N || negb (Bool.eqb (vt_sg cb) (vt_sg (pv_ty b)))).
        * destruct (init_a_cast cfg cb b st) as [[xb s2]|] eqn:Eb; [|discriminate]. intros H. injection H as <- <- _.
          split; [reflexivity | exact (init_a_cast_lit _ _ _ _ _ Eb)].
        * intros H. injection H as <- <- _. split; reflexivity.
  Qed.

  Lemma islit_dec0 p : islit p \/ ~ islit p.
  Proof. unfold islit. destruct (pv_kind p); auto. Qed.

  (* a literal in the range of its type is zero exactly if its representative is *)
  Lemma lit_zero (T : cty) v : (snd T = 32%N \/ snd T = 64%N) -> norm_lit (ty_int (fst T) (snd T)) v = v -> (wrap (snd T) v =? 0) = (v =? 0).
  Proof.
    destruct T as [sg w]. cbn [fst snd]. unfold norm_lit. cbn [vt_sg vt_w ty_int ty_h]. intros Hw Hn.
    destruct sg.
    - unfold sval in Hn. pose proof (wrap_range w v) as Hr.
      destruct Hw as [-> | ->]; norm_w; destruct (wrap _ v <? _) eqn:El in Hn; destruct (wrap _ v =? 0) eqn:E0; destruct (v =? 0) eqn:E1; try reflexivity; lia.
    - rewrite Hn. reflexivity.
  Qed.

  Lemma fold_cond_lit p : goodpv p -> islit p -> exists v k, pv_kind p = KLit v k /\ fold_cond p = Some (negb (v =? 0)).
  Proof.
    unfold fold_cond, islit. intros _ Hi. destruct (pv_kind p) as [v k| | | | | | | |]; try contradiction. exists v, k. split; reflexivity.
  Qed.

  (* the repaired compiler keeps BOTH arms' conversions to their common type and selects at compile time *)
  Lemma cond_tail_lit_ok pc pt pf st : goodpv pc -> goodpv pt -> goodpv pf -> litinv pc -> litinv pt -> litinv pf -> islit pc ->
    exists r, cond_tail (IPure pc) (IPure pt) (IPure pf) st = OK (IPure r, st) /\ goodpv r /\ litinv r /\
      forall ms vc vt vf, sem ms pc vc -> sem ms pt vt -> sem ms pf vf ->
        exists vr, sem ms r vr /\
          cval_of (pv_ty r) vr =
            conv (arith_ty (cty_of (pv_ty pt)) (cty_of (pv_ty pf)))
                 (if truth (cval_of (pv_ty pc) vc) then cval_of (pv_ty pt) vt else cval_of (pv_ty pf) vf).
  Proof.
    intros Hgc Hgt Hgf Lic Lit Lif Hic.
    destruct (fold_cond_lit pc Hgc Hic) as [v [k [Hk Hf]]].
    destruct (prep_ok pt pf st Hgt Hgf) as [a' [c' [H1 [Ga' [Gc' [Ta' [Tc' [Hw H2]]]]]]]].
    set (b := negb (v =? 0)) in *.
    (* the literal arms survive unconverted *)
    assert (Hkeep : (islit a' -> a' = pt) /\ (islit c' -> c' = pf)).
    { revert H1. unfold bind.
      destruct (promotion_cast cfg pt st) as [[pa s1]|] eqn:Epa; [|discriminate].
      destruct (promotion_cast cfg pf s1) as [[pb s2]|] eqn:Epb; [|discriminate].
      intros H1. destruct (cast_operands_lit _ _ _ _ _ _ H1) as [Ka Kc]. split.
      - intros Hi. pose proof (Ka Hi) as ->. exact (promotion_cast_lit _ _ _ _ Epa Hi).
      - intros Hi. pose proof (Kc Hi) as ->. exact (promotion_cast_lit _ _ _ _ Epb Hi). }
    exists (if b then a' else c').
    split.
    { unfold cond_tail. (erewrite bind_OK by reflexivity). rewrite Hf.
      cbn [fx cfg_fx fx_literals all_fixes]. (erewrite bind_OK by reflexivity). (erewrite bind_OK by reflexivity).
      revert H1. unfold bind.
      destruct (promotion_cast cfg pt st) as [[pa s1]|]; [|discriminate].
      destruct (promotion_cast cfg pf s1) as [[pb s2]|]; [|discriminate].
      intros H1. rewrite H1. reflexivity. }
    split. { destruct b; assumption. }
    split.
    { destruct (islit_dec0 (if b then a' else c')) as [Hi | Hn]; [|intros v0 k0 Hk0; exfalso; apply Hn; unfold islit; rewrite Hk0; exact I].
      destruct b; [rewrite (proj1 Hkeep Hi); exact Lit | rewrite (proj2 Hkeep Hi); exact Lif]. }
    intros ms vc vt vf Sc St Sf.
    destruct (H2 ms vt vf St Sf) as [va' [vc' [Sa' [Sc' [Ca' Cc']]]]].
    (* the condition's run-time value is the literal's *)
    destruct (lit_sem pc v k Lic Hk) as [Hw32 [_ [Hn Hsemc]]].
    assert (Ht : truth (cval_of (pv_ty pc) vc) = b).
    { rewrite (Hsemc ms vc Sc). unfold truth, b. cbn [snd]. f_equal.
      apply lit_zero; [exact Hw32|]. destruct (cty_of (pv_ty pc)) as [sg0 w0]. exact Hn. }
    rewrite Ht.
    destruct b; [exists va' | exists vc']; (split; [assumption|]); [rewrite Ca' | rewrite Cc']; reflexivity.
  Qed.


  (* ================================================================== Layer 4: the fragment, the state relation, the theorem *)
  Variable E : cenv.
  Variable csub : csubs.
  (* ... and CSem's sub-routine table gives it no body (only the lemma about sizeof uses this) *)
  Hypothesis Hcsub : csub_ext csub.
  Variable xi : string -> bool -> option (regop * N).
  (* (the C semantics knows the explicit registers of the fragment: ExprCorrect.xi_ok) *)
  Hypothesis Hxi : xi_ok xi.

  (* over-approximation of "lowers to a literal (KLit)" *)
  Definition folding_opb (b : Ast.binop) : bool :=
    match b with
    | Ast.BAdd | Ast.BSub | Ast.BMul | Ast.BLt | Ast.BGt | Ast.BLe | Ast.BGe | Ast.BEq | Ast.BNe => true
    | _ => false
    end.
  Fixpoint litlike (e : cexpr) : bool :=
    match e with
    | EOp (ONum _ _ _) => true
    | ECast _ a => litlike a
    | EUn UNot a | EUn UMinus a => litlike a
    | EBin b l r => folding_opb b && litlike l && litlike r
    | Ast.ECall f _ => String.eqb f "sizeof"
    | ECond c _ _ => litlike c           (* a literal condition is folded: the result is the selected arm, possibly a literal *)
    | _ => false
    end.

  Definition is_folding_op (b : Ast.binop) : Prop :=
    b = Ast.BAdd \/ b = Ast.BSub \/ b = Ast.BMul \/ is_cmp b.
  Definition is_plain_op (b : Ast.binop) : Prop :=
    b = Ast.BAnd \/ b = Ast.BOr \/ b = Ast.BXor \/ b = Ast.BShl \/ b = Ast.BShr \/ b = Ast.BLAnd \/ b = Ast.BLOr.

  (* V = the DECLARED LOCALS of the model state (immediates, which the model keeps in the same table, are
     tracked by [lst_ok]); IM = the letters of the immediates the behaviour uses.  Register operands: the machine must give the operand handle the width the
     shortcode convention gives the operand (RsV and RssV share the handle ISA2REG(hi,'s'): an instruction
     uses one of them). *)
  (* QEMU's pure bit-field macros, by arity *)
  Definition is_mac1 (m : string) : Prop := m = "bswap16" \/ m = "bswap32" \/ m = "bswap64".
  Definition is_mac3 (m : string) : Prop := m = "extract32" \/ m = "extract64" \/ m = "sextract64".
  Definition is_mac4 (m : string) : Prop := m = "deposit32" \/ m = "deposit64".

  Inductive pfrag (V : list (string * option vtype)) : cexpr -> Prop :=
  | pf_ident x sg w : lookup x V = Some (Some (ty_int sg w)) -> okw w -> pfrag V (EOp (OIdent x))
  | pf_num v hex suf t : 0 <= v -> literal_type v hex suf = Some t -> pfrag V (EOp (ONum v hex suf))
  | pf_reg cls letters acc :                 (* RsV RtV .. RxV .. RssV .. PuV CsV MuV; also RdV / RddV read back *)
      dest_cls cls -> access_of_letters letters = Some acc ->
      rw (RIsa cls (substring 0 1 letters) false) = dest_w cls acc -> pfrag V (EOp (OReg cls letters))
  | pf_newreg cls letters acc :              (* PuN NsN ... *)
      reg_cls true cls -> access_of_letters letters = Some acc ->
      rw (rop cls letters true) = dest_w cls acc -> pfrag V (EOp (ONewReg cls letters))
  | pf_imm l : IM l = true -> pfrag V (EOp (OImm l))      (* siV uiV riV ... *)
  | pf_alias name new :                      (* HEX_REG_ALIAS_USR, HEX_REG_ALIAS_LC0_NEW ... (not the program counter) *)
      In name alias_names -> rw (alias_op name new) = alias_w name -> pfrag V (EOp (OAlias name new))
  | pf_expl name new :                       (* P0 .. P3 (fREAD_P0 ...), R29 R30 R31, and their _NEW forms *)
      In name expl_names -> rw (expl_op name new) = expl_w name -> pfrag V (EOp (OExplicit name new))
  | pf_pc : pfrag V (EOp (OAlias "PC" false))   (* HEX_REG_ALIAS_PC: read only; emitted as the packet address *)
  | pf_cast ts sg w e : cast_ty ts sg w -> pfrag V e -> pfrag V (ECast ts e)
  | pf_un u e : (u = UNot \/ u = UMinus \/ u = ULNot) -> pfrag V e -> pfrag V (EUn u e)
  | pf_bin b l r : is_folding_op b \/ is_plain_op b -> pfrag V l -> pfrag V r -> pfrag V (EBin b l r)
  | pf_cond c t f : pfrag V c -> pfrag V t -> pfrag V f -> pfrag V (ECond c t f)   (* also with a literal condition (folded at compile time) *)
  | pf_sizeof e : pfrag V e -> pfrag V (Ast.ECall "sizeof" (ECons e ENil))    (* sizeof(e): a compile-time literal (see inv_sizeof) *)
  | pf_load ts sg w lsg lw a :               (* (T) mem_load_<s|u><lw>(a): a memory load, converted to an integer type *)
      cast_ty ts sg w -> okw lw -> pfrag V a -> pfrag V (ECast ts (ELoad lsg lw (ECons a ENil)))
  | pf_mac1 m x : is_mac1 m -> pfrag V x -> pfrag V (EMacro m (ECons x ENil))                       (* bswap16/32/64(x) *)
  | pf_mac3 m x s l : is_mac3 m -> pfrag V x -> pfrag V s -> pfrag V l ->                           (* extract32/64, sextract64 (x, start, len) *)
      pfrag V (EMacro m (ECons x (ECons s (ECons l ENil))))
  | pf_mac4 m x s l f : is_mac4 m -> pfrag V x -> pfrag V s -> pfrag V l -> pfrag V f ->            (* deposit32/64 (x, start, len, field) *)
      pfrag V (EMacro m (ECons x (ECons s (ECons l (ECons f ENil))))).

  (* the value an immediate has in C: the encoded one, unless the behaviour has assigned the immediate (CSem keeps an
     assigned immediate in the C local "imm:<letter>") *)
  Definition cimm (cs : cstate) (l : string) : Z :=
    match lookup ("imm:" +++ l) (cs_vars cs) with Some (_, Some v) => v | _ => wrap 32 (ce_imms E l) end.

  (* the state relation: every declared integer local holds the same in-range value on both sides; the
     registers written so far are the same list; the operand environment of the C side (old register file,
     new-value bank of the producers, immediates) is the one of the IL machine *)
  Definition rel (V : list (string * option vtype)) (cs : cstate) (ms : mstate) : Prop :=
    (forall x sg w, lookup x V = Some (Some (ty_int sg w)) -> okw w ->
      exists v, lookup x (cs_vars cs) = Some ((sg, w), Some v) /\ 0 <= v < pow2 w /\
                lookup x (locals ms) = Some (VBv w v)) /\
    cs_regw cs = rnew ms /\
    (forall r, ce_rold E r = rold ms r) /\ (forall r, ce_rnew0 E r = rnew0 ms r) /\
    (forall l, ce_imms E l = imms ms l) /\
    (forall l, IM l = true -> 0 <= cimm cs l < pow2 32) /\
    cs_mem cs = mem ms /\ (forall a, ce_mem0 E a = mem0 ms a) /\
    (* the packet address; the program counter alias has not been written *)
    ce_pktaddr E = pktaddr ms /\ lookup_reg pc_op (cs_regw cs) = None.

  (* the immediate prologue J (a list of effects SETL(l, ISA2IMM l), Lower.st_imms) has been executed: the RzIL local of
     every immediate of J holds the value the immediate has in C (the encoded one, or the one assigned since) *)
  Definition imms_done (J : list effect) (cs : cstate) (ms : mstate) : Prop :=
    forall l, IM l = true -> In (imm_entry l) J -> lookup l (locals ms) = Some (VBv 32 (cimm cs l)).
  Lemma imms_done_incl A B cs ms : incl A B -> imms_done B cs ms -> imms_done A cs ms.
  Proof. intros Hi H l Hl Hin. apply H; auto. Qed.

  (* the model states the fragment reaches, V being the declared locals: the variable table is V plus the
     immediates read so far, each with its prologue entry; the register table was built by the fragment *)
  Definition lst_ok (V : list (string * option vtype)) (st : lstate) : Prop :=
    (* (up to the hybrid flag, which the compiler sets on the type of a variable it has applied ++ to; the temporaries
       h_tmp<n> it declares for ++ are not locals of the behaviour) *)
    (forall x, IM x = false -> is_htmp x = false -> option_map unhyb_o (lookup x (st_vars st)) = lookup x V) /\
    (forall l, IM l = true \/ is_htmp l = true -> lookup l V = None) /\
    (forall l, IM l = true ->
       lookup l (st_vars st) = None \/ (lookup l (st_vars st) = Some (Some (imm_ty l)) /\ In (imm_entry l) (st_imms st))) /\
    Forall (fun e => exists l, IM l = true /\ e = imm_entry l /\ lookup l (st_vars st) = Some (Some (imm_ty l))) (st_imms st) /\
    regs_ok (st_regs st).

  Lemma lst_ok_regs V st st' : lst_ok V st -> st_vars st' = st_vars st -> st_imms st' = st_imms st ->
    regs_ok (st_regs st') -> lst_ok V st'.
  Proof. intros [H1 [H2 [H3 [H4 _]]]] Hv Hi Hr. unfold lst_ok. rewrite Hv, Hi. auto. Qed.

  Lemma lst_ok_local V st x sg w : lst_ok V st -> lookup x V = Some (Some (ty_int sg w)) ->
    IM x = false /\ is_htmp x = false /\ exists t, lookup x (st_vars st) = Some (Some t) /\ ity t sg w.
  Proof.
    intros [H1 [H2 _]] Hx. destruct (IM x) eqn:Ei; [rewrite (H2 x (or_introl Ei)) in Hx; discriminate Hx|].
    destruct (is_htmp x) eqn:Eh; [rewrite (H2 x (or_intror Eh)) in Hx; discriminate Hx|].
    split; [reflexivity|]. split; [reflexivity|]. specialize (H1 x Ei Eh). rewrite Hx in H1.
    destruct (lookup x (st_vars st)) as [[t|]|]; try discriminate H1. cbn [option_map unhyb_o] in H1.
    assert (Hu : unhyb t = ty_int sg w) by congruence.
    exists t. split; [reflexivity | apply unhyb_ity; exact Hu].
  Qed.
  Lemma lst_ok_none V st x : lst_ok V st -> IM x = false -> is_htmp x = false -> lookup x V = None -> lookup x (st_vars st) = None.
  Proof.
    intros [H1 _] Hi Hh Hx. specialize (H1 x Hi Hh). rewrite Hx in H1. destruct (lookup x (st_vars st)); [discriminate H1 | reflexivity].
  Qed.

  (* CSem's ?: yields the UNCONVERTED arm when exactly one arm has no value (see the report and
     [cond_mixed_counterexample]); the theorem is stated for evaluations in which the two arms of every
     conditional are equi-defined *)
  Definition arms_ok (fuel : nat) (cs : cstate) (e : cexpr) : Prop := True.

  (* the semantic half of the invariant: for the term finalised against any later register table R *)
  Definition semok (V : list (string * option vtype)) (e : cexpr) (pv : pval) (st' : lstate) : Prop :=
    regs_le (st_regs st') R -> norem rem ->
    forall cs ms, rel V cs ms -> imms_done (st_imms st') cs ms ->
      exists ilv, sem ms pv ilv /\
        forall fuel cs' cv, ceval E csub xi fuel cs e = Some (cs', cv) -> arms_ok fuel cs e ->
          cs' = cs /\ cv = cval_of (pv_ty pv) ilv.

  Lemma semok_mono V e pv st1 st2 : st_ext st1 st2 -> semok V e pv st1 -> semok V e pv st2.
  Proof.
    intros [_ [_ [Hi [_ [_ Hr]]]]] H HR Hrem cs ms Hrel Himm.
    apply H; [eapply regs_le_trans; eassumption | exact Hrem | exact Hrel | eapply imms_done_incl; eassumption].
  Qed.

  (* the model's variable table may hold MORE declared locals (Vl) than the run-time states are related on (V): the
     implicitly declared EA of `EA = e` is entered into the table before e is lowered, and gets its value after *)
  Definition vext (V Vl : list (string * option vtype)) : Prop := forall x t, lookup x V = Some t -> lookup x Vl = Some t.
  Lemma vext_refl V : vext V V.
  Proof. intros x t H. exact H. Qed.
  Lemma vext_snoc V x t : lookup x V = None -> vext V (V ++ [(x, t)]).
  Proof. intros Hx y u Hy. rewrite lookup_app, Hy. reflexivity. Qed.

  Definition Inv (V : list (string * option vtype)) (e : cexpr) : Prop :=
    forall Vl st, vext V Vl -> lst_ok Vl st ->
      exists pv st', lower_expr cfg e st = OK (IPure pv, st') /\ st_ext st st' /\ lst_ok Vl st' /\
        goodpv pv /\ litinv pv /\ (islit pv -> litlike e = true) /\ semok V e pv st'.

  Lemma nolit_litinv p : ~ islit p -> litinv p.
  Proof. intros H v b Hk. exfalso. apply H. unfold islit. rewrite Hk. exact I. Qed.

  Lemma islit_dec p : islit p \/ ~ islit p.
  Proof. unfold islit. destruct (pv_kind p); auto. Qed.

  Lemma inv_ident V x sg w : lookup x V = Some (Some (ty_int sg w)) -> okw w -> Inv V (EOp (OIdent x)).
  Proof.
    intros Hl Hw Vl st Hext Hok. destruct (lst_ok_local Vl st x sg w Hok (Hext _ _ Hl)) as [_ [Hh [t [Hls Ht]]]].
    unfold is_htmp in Hh.
    eexists (mkpv (PVarL x) t (KVar x) []), st.
    split. { cbn [lower_expr lower_operand cfg_params lookup]. unfold bind, get. rewrite Hls, Hh. reflexivity. }
    split. { apply st_ext_refl. }
    split. { exact Hok. }
    assert (Hnl : ~ islit (mkpv (PVarL x) t (KVar x) [])).
    { unfold islit. cbn. auto. }
    split. { apply (goodpv_i _ sg w); [exact Hw | exact Ht | exact I | reflexivity]. }
    split. { apply nolit_litinv. auto. }
    split. { intros H. contradiction. }
    intros _ _ cs ms Hrel _. destruct (proj1 Hrel x sg w Hl Hw) as [v [Hc [Hv Hm]]].
    exists (VBv w v). split.
    - split; [exact Hm | apply (shape_ity _ sg w); auto].
    - intros fuel cs' cv Hce _. destruct fuel as [|k]; [discriminate|].
      cbn [ceval operand_lval] in Hce. rewrite Hc in Hce. cbn [read_lval] in Hce. rewrite Hc in Hce.
      injection Hce as <- <-. split; [reflexivity|]. cbn [pv_ty]. rewrite (cval_of_ity _ sg w v Ht). reflexivity.
  Qed.

  Lemma norm_lit_fits sg w v : (w = 32%N \/ w = 64%N) -> 0 <= v -> fits (sg, w) v = true -> norm_lit (ty_int sg w) v = v.
  Proof.
    intros Hw Hv Hf. unfold fits in Hf. unfold norm_lit, sval, wrap. cbn [fst snd vt_sg vt_w ty_int ty_h] in *.
    destruct Hw as [-> | ->]; norm_w; destruct sg; split_ifs; lia.
  Qed.

  Lemma inv_num V v hex suf t : 0 <= v -> literal_type v hex suf = Some t -> Inv V (EOp (ONum v hex suf)).
  Proof.
    intros Hv Hl Vl st Hext Hok. destruct (literal_type_cases _ _ _ _ Hl) as [Hw Hfit]. destruct t as [sg w]. cbn [fst snd] in *.
    assert (Hokw : okw w) by (destruct Hw as [-> | ->]; auto).
    exists (mkpv (PBv sg w v) (ty_int sg w) (KLit v false) []).
    eexists.
    split. { cbn [lower_expr lower_operand fx cfg_fx fx_literals all_fixes]. rewrite literal_vtype_eq, Hl. cbn [option_map fst snd]. reflexivity. }
    split. { unfold st_ext. cbn. repeat split; auto using incl_refl, regs_le_refl, N.le_refl. }
    split. { eapply lst_ok_regs; [exact Hok | reflexivity | reflexivity | apply Hok]. }
    split. { right. exists sg, w. gp. }
    split. { intros v0 b0 Hk. cbn in Hk. injection Hk as <- <-. left. split; [reflexivity|]. exists sg, w. cbn.
             repeat split; auto. apply norm_lit_fits; auto. }
    split. { reflexivity. }
    intros _ _ cs ms _ _. exists (VBv w (wrap w v)). split.
    - split; [reflexivity | apply shape_int; apply wrap_range].
    - intros fuel cs' cv Hce _. destruct fuel as [|k]; [discriminate|].
      cbn [ceval] in Hce. rewrite Hl in Hce. injection Hce as <- <-. auto.
  Qed.

  (* ------------------------------------------------------------------ register operands *)
  (* what finalisation makes of a read: destination-only operands read the NEW bank, .new operands too,
     everything else READ_REG(op, false) *)
  Lemma fin_reg_read regs cls letters acc new ri : reg_cls new cls -> access_of_letters letters = Some acc ->
    regs_ok regs -> lookup_reg_info (rname cls letters new) regs = Some ri -> regs_le regs R -> norem rem ->
    fin (PRaw ("$reg:" +++ rname cls letters new)) = PReg (rop cls letters new) (write_only acc || new).
  Proof.
    intros Hc Ha Hr Hl Hle Hrem. cbn [fin_pure]. rewrite reg_name_of_reg. unfold reg_read.
    destruct (Hle _ _ Hl) as [ri' [L' [O' [P' [N' W']]]]]. rewrite L', Hrem.
    destruct (entry_isa _ _ cls letters new (Hr _ _ Hl) (reg_cls_any _ _ Hc) (access_in_table _ _ Ha) eq_refl)
      as [cls' [l' [acc' [new' [Hc' [Ha' [Hn [Ho [_ [Hp [Hnw [Hw Hu]]]]]]]]]]]].
    destruct (rname_inj _ _ _ _ _ _ (reg_cls_any _ _ Hc) (reg_cls_any _ _ Hc') (access_in_table _ _ Ha) (access_in_table _ _ Ha') Hn)
      as [<- [<- <-]].
    rewrite Ha in Ha'. injection Ha' as <-.
    destruct W' as [[_ W'] | [W' _]]; [contradiction|].
    rewrite W', Hw, P', Hp, O', Ho, N', Hnw. destruct (write_only acc); reflexivity.
  Qed.

  (* an alias: READ_REG(ALIAS2OP(..), b); b is the new bank for a _NEW alias, and for an alias the behaviour writes *)
  Lemma fin_alias_read regs name new ri : In name alias_names ->
    regs_ok regs -> lookup_reg_info (alias_tname name new) regs = Some ri -> regs_le regs R -> norem rem ->
    exists b, fin (PRaw ("$reg:" +++ alias_tname name new)) = PReg (alias_op name new) b /\ (new = true -> b = true).
  Proof.
    intros Hin Hr Hl Hle Hrem. cbn [fin_pure]. rewrite reg_name_of_reg. unfold reg_read.
    destruct (Hle _ _ Hl) as [ri' [L' [O' [P' [N' _]]]]]. rewrite L', Hrem.
    destruct (entry_alias _ _ name new (Hr _ _ Hl) Hin eq_refl) as [nm [nw [Hin' [Hn [Ho [_ [Hp Hnw]]]]]]].
    destruct (alias_tname_inj _ _ _ _ Hin Hin' Hn) as [<- <-].
    rewrite P', Hp, O', Ho, N', Hnw. destruct (write_only (r_acc ri')); eexists; (split; [reflexivity|]); auto.
  Qed.

  Lemma read_reg_alias ms name new b : (new = true -> b = true) ->
    read_reg rw ms (alias_op name new) b =
    VBv (rw (alias_op name new))
        (wrap (rw (alias_op name new))
              (match lookup_reg (alias_op name new) (rnew ms) with
               | Some v => v
               | None => if new then rnew0 ms (alias_op name new) else rold ms (alias_op name new) end)).
  Proof.
    intros Hb. unfold read_reg, alias_op. cbn [regop_is_new regop_dest_only].
    destruct new; [rewrite (Hb eq_refl); reflexivity|]. destruct b; reflexivity.
  Qed.

  Lemma read_reg_src ms cls letters acc : access_of_letters letters = Some acc ->
    read_reg rw ms (RIsa cls (substring 0 1 letters) false) (write_only acc) =
    VBv (rw (RIsa cls (substring 0 1 letters) false))
        (wrap (rw (RIsa cls (substring 0 1 letters) false))
              (match lookup_reg (RIsa cls (substring 0 1 letters) false) (rnew ms) with
               | Some v => v
               | None => if write_only acc then 0 else rold ms (RIsa cls (substring 0 1 letters) false) end)).
  Proof.
    intros Ha. unfold read_reg. cbn [regop_is_new regop_dest_only].
    rewrite <- (proj1 (access_write_only _ _ Ha)). destruct (write_only acc); reflexivity.
  Qed.

  Lemma read_reg_new ms cls letters :
    read_reg rw ms (rop cls letters true) true =
    VBv (rw (rop cls letters true))
        (wrap (rw (rop cls letters true))
              (match lookup_reg (rop cls letters true) (rnew ms) with
               | Some v => v
               | None => rnew0 ms (rop cls letters true) end)).
  Proof. unfold read_reg, rop. destruct (String.eqb cls "N"); reflexivity. Qed.

  Lemma ceval_reg k cs cls letters acc : dest_cls cls -> access_of_letters letters = Some acc ->
    ceval E csub xi (S k) cs (EOp (OReg cls letters)) =
    Some (cs, mkval (true, dest_w cls acc)
                (match lookup_reg (RIsa cls (substring 0 1 letters) false) (cs_regw cs) with
                 | Some v => v
                 | None => if write_only acc then 0 else ce_rold E (RIsa cls (substring 0 1 letters) false) end)).
  Proof.
    intros Hc Ha. cbn [ceval operand_lval]. rewrite (proj1 (proj2 (dest_cls_widths cls Hc))).
    rewrite <- (access_pair _ _ Ha). change (if is_pair acc then (cls_w cls * 2)%N else cls_w cls) with (dest_w cls acc).
    cbn [existsb read_lval]. rewrite orb_false_r. rewrite <- (proj1 (access_write_only _ _ Ha)).
    destruct (lookup_reg _ (cs_regw cs)); [reflexivity|]. destruct (write_only acc); reflexivity.
  Qed.

  Lemma ceval_newreg k cs cls letters acc : reg_cls true cls -> access_of_letters letters = Some acc ->
    ceval E csub xi (S k) cs (EOp (ONewReg cls letters)) =
    Some (cs, mkval (true, dest_w cls acc)
                (match lookup_reg (rop cls letters true) (cs_regw cs) with
                 | Some v => v
                 | None => ce_rnew0 E (rop cls letters true) end)).
  Proof.
    intros Hc Ha. cbn [ceval operand_lval]. rewrite (proj2 (reg_cls_widths _ cls Hc)).
    rewrite <- (access_pair _ _ Ha). change (if is_pair acc then (cls_w cls * 2)%N else cls_w cls) with (dest_w cls acc).
    change (if String.eqb cls "N" then RNreg (substring 0 1 letters) else RIsa cls (substring 0 1 letters) true) with (rop cls letters true).
    cbn [read_lval]. destruct (lookup_reg _ (cs_regw cs)); reflexivity.
  Qed.

  (* both kinds of register operand: the lowering half *)
  Lemma inv_reg_low V cls letters acc new st : reg_cls new cls -> access_of_letters letters = Some acc -> lst_ok V st ->
    exists st', lower_reg cls letters new st =
                  OK (mkpv (PRaw ("$reg:" +++ rname cls letters new)) (ty_int true (dest_w cls acc)) (KReg (rname cls letters new)) [], st') /\
      st_ext st st' /\ lst_ok V st' /\
      forall ms, regs_le (st_regs st') R -> norem rem ->
        eval rw ms [] (fin (PRaw ("$reg:" +++ rname cls letters new))) = Some (read_reg rw ms (rop cls letters new) (write_only acc || new)).
  Proof.
    intros Hc Ha Hok.
    destruct (lower_reg_ok cls letters acc new st Hc Ha (proj2 (proj2 (proj2 (proj2 Hok))))) as [st' [L [Hv [Hi [Hx [Hr [_ [ri Hl]]]]]]]].
    exists st'. split; [exact L|]. split; [exact Hx|]. split; [eapply lst_ok_regs; eassumption|].
    intros ms HR Hrem. rewrite (fin_reg_read (st_regs st') cls letters acc new ri Hc Ha Hr Hl HR Hrem). reflexivity.
  Qed.

  Lemma goodpv_reg n w : okw w -> forall tm, goodpv (mkpv tm (ty_int true w) (KReg n) []).
  Proof. intros Hw tm. right. exists true, w. gp. Qed.
  Lemma nolit_reg n w tm : ~ islit (mkpv tm (ty_int true w) (KReg n) []).
  Proof. unfold islit. cbn. auto. Qed.

  Lemma inv_reg V cls letters acc : dest_cls cls -> access_of_letters letters = Some acc ->
    rw (RIsa cls (substring 0 1 letters) false) = dest_w cls acc -> Inv V (EOp (OReg cls letters)).
  Proof.
    intros Hc Ha Hrw Vl st Hext Hok.
    destruct (inv_reg_low Vl cls letters acc false st (or_introl Hc) Ha Hok) as [st' [L [Hx [Hok' Hev]]]].
    eexists _, st'.
    split. { cbn [lower_expr lower_operand]. unfold bind. rewrite L. reflexivity. }
    split; [exact Hx|]. split; [exact Hok'|].
    split; [apply goodpv_reg; apply dest_w_okw; exact Hc|]. split; [apply nolit_litinv; apply nolit_reg|].
    split; [intros H; exfalso; exact (nolit_reg _ _ _ H)|].
    intros HR Hrem cs ms Hrel _. destruct Hrel as [_ [Hregw [Hrold _]]].
    specialize (Hev ms HR Hrem). rewrite orb_false_r, (rop_dest cls letters false Hc), (read_reg_src ms cls letters acc Ha), Hrw in Hev.
    eexists. split.
    - split; [exact Hev|]. cbn [pv_ty]. apply shape_int. apply wrap_range.
    - intros fuel cs' cv Hce _. destruct fuel as [|k]; [discriminate|].
      rewrite (ceval_reg k cs cls letters acc Hc Ha) in Hce. injection Hce as <- <-. split; [reflexivity|].
      cbn [pv_ty cval_of vt_sg ty_int ty_h]. unfold mkval. cbn [snd]. rewrite Hregw, Hrold. reflexivity.
  Qed.

  Lemma inv_newreg V cls letters acc : reg_cls true cls -> access_of_letters letters = Some acc ->
    rw (rop cls letters true) = dest_w cls acc -> Inv V (EOp (ONewReg cls letters)).
  Proof.
    intros Hc Ha Hrw Vl st Hext Hok.
    destruct (inv_reg_low Vl cls letters acc true st Hc Ha Hok) as [st' [L [Hx [Hok' Hev]]]].
    eexists _, st'.
    split. { cbn [lower_expr lower_operand]. unfold bind. rewrite L. reflexivity. }
    split; [exact Hx|]. split; [exact Hok'|].
    split; [apply goodpv_reg; eapply reg_w_okw; exact Hc|]. split; [apply nolit_litinv; apply nolit_reg|].
    split; [intros H; exfalso; exact (nolit_reg _ _ _ H)|].
    intros HR Hrem cs ms Hrel _. destruct Hrel as [_ [Hregw [_ [Hrnew0 _]]]].
    specialize (Hev ms HR Hrem). rewrite orb_true_r, (read_reg_new ms cls letters), Hrw in Hev.
    eexists. split.
    - split; [exact Hev|]. cbn [pv_ty]. apply shape_int. apply wrap_range.
    - intros fuel cs' cv Hce _. destruct fuel as [|k]; [discriminate|].
      rewrite (ceval_newreg k cs cls letters acc Hc Ha) in Hce. injection Hce as <- <-. split; [reflexivity|].
      cbn [pv_ty cval_of vt_sg ty_int ty_h]. unfold mkval. cbn [snd]. rewrite Hregw, Hrnew0. reflexivity.
  Qed.

  Lemma ceval_alias k cs name new :
    ceval E csub xi (S k) cs (EOp (OAlias name new)) =
    Some (cs, mkval (false, alias_w name)
                (match lookup_reg (alias_op name new) (cs_regw cs) with
                 | Some v => v
                 | None => if new then ce_rnew0 E (alias_op name new)
                           else if String.eqb name "PC" then ce_pktaddr E else ce_rold E (alias_op name new) end)).
  Proof.
    cbn [ceval operand_lval read_lval]. change (RAlias ("HEX_REG_ALIAS_" ++ name)%string new) with (alias_op name new).
    destruct (lookup_reg _ (cs_regw cs)); reflexivity.
  Qed.

  Lemma alias_not_pc name : In name alias_names -> String.eqb name "PC" = false.
  Proof. intros H. cbn [alias_names In] in H. repeat (destruct H as [<- | H]; [reflexivity|]). contradiction. Qed.

  Lemma inv_alias V name new : In name alias_names -> rw (alias_op name new) = alias_w name -> Inv V (EOp (OAlias name new)).
  Proof.
    intros Hin Hrw Vl st Hext Hok. destruct (alias_facts name Hin) as [_ [_ Hw]].
    destruct (lower_alias_ok cfg name new st Hin (proj2 (proj2 (proj2 (proj2 Hok))))) as [st' [L [Hv [Hi [Hx [Hr [_ [ri Hl]]]]]]]].
    eexists _, st'.
    split. { cbn [lower_expr]. exact L. }
    split; [exact Hx|]. split; [eapply lst_ok_regs; eassumption|].
    assert (Hg : goodpv (mkpv (PRaw ("$reg:" +++ alias_tname name new)) (ty_int false (alias_w name)) (KReg (alias_tname name new)) [])).
    { right. exists false, (alias_w name). gp. }
    assert (Hnl : ~ islit (mkpv (PRaw ("$reg:" +++ alias_tname name new)) (ty_int false (alias_w name)) (KReg (alias_tname name new)) [])).
    { unfold islit. cbn. auto. }
    split; [exact Hg|]. split; [apply nolit_litinv; exact Hnl|]. split; [intros H; contradiction|].
    intros HR Hrem cs ms Hrel _. destruct Hrel as [_ [Hregw [Hrold [Hrnew0 _]]]].
    destruct (fin_alias_read (st_regs st') name new ri Hin Hr Hl HR Hrem) as [b [Hfin Hb]].
    eexists. split.
    - split.
      + cbn [pv_term]. rewrite Hfin. cbn [eval]. rewrite (read_reg_alias ms name new b Hb), Hrw. reflexivity.
      + cbn [pv_ty]. apply shape_int. apply wrap_range.
    - intros fuel cs' cv Hce _. destruct fuel as [|k]; [discriminate|].
      rewrite (ceval_alias k cs name new) in Hce. injection Hce as <- <-. split; [reflexivity|].
      cbn [pv_ty cval_of vt_sg ty_int ty_h]. unfold mkval. cbn [snd]. rewrite Hregw, Hrold, Hrnew0, (alias_not_pc name Hin). reflexivity.
  Qed.

  (* an explicit register: READ_REG(EXPLICIT2OP(n, class, new), b) *)
  Lemma fin_expl_read regs name new ri : In name expl_names ->
    regs_ok regs -> lookup_reg_info (expl_tname name new) regs = Some ri -> regs_le regs R -> norem rem ->
    exists b, fin (PRaw ("$reg:" +++ expl_tname name new)) = PReg (expl_op name new) b /\ (new = true -> b = true).
  Proof.
    intros Hin Hr Hl Hle Hrem. cbn [fin_pure]. rewrite reg_name_of_reg. unfold reg_read.
    destruct (Hle _ _ Hl) as [ri' [L' [O' [P' [N' _]]]]]. rewrite L', Hrem.
    destruct (entry_expl _ _ name new (Hr _ _ Hl) Hin eq_refl) as [nm [nw [Hin' [Hn [Ho [_ [Hp Hnw]]]]]]].
    destruct (expl_tname_inj _ _ _ _ Hin Hin' Hn) as [<- <-].
    rewrite P', Hp, O', Ho, N', Hnw. destruct (write_only (r_acc ri')); eexists; (split; [reflexivity|]); auto.
  Qed.
  Lemma read_reg_expl ms name new b : In name expl_names -> (new = true -> b = true) ->
    read_reg rw ms (expl_op name new) b =
    VBv (rw (expl_op name new))
        (wrap (rw (expl_op name new))
              (match lookup_reg (expl_op name new) (rnew ms) with
               | Some v => v
               | None => if new then rnew0 ms (expl_op name new) else rold ms (expl_op name new) end)).
  Proof.
    intros Hin Hb. destruct (expl_facts name new Hin) as [_ [Hx _]].
    destruct (expl_op name new) as [| n c nw | | |]; try discriminate Hx. cbn [is_rexpl] in Hx. apply eqb_prop in Hx. subst nw.
    unfold read_reg. cbn [regop_is_new regop_dest_only].
    destruct new; [rewrite (Hb eq_refl); reflexivity|]. destruct b; reflexivity.
  Qed.
  Lemma ceval_expl k cs name new : In name expl_names ->
    ceval E csub xi (S k) cs (EOp (OExplicit name new)) =
    Some (cs, mkval (true, expl_w name)
                (match lookup_reg (expl_op name new) (cs_regw cs) with
                 | Some v => v
                 | None => if new then ce_rnew0 E (expl_op name new) else ce_rold E (expl_op name new) end)).
  Proof.
    intros Hin. cbn [ceval operand_lval]. rewrite (Hxi name new Hin), (proj1 (expl_facts name new Hin)). cbn [read_lval].
    destruct (lookup_reg _ (cs_regw cs)); reflexivity.
  Qed.
  Lemma inv_expl V name new : In name expl_names -> rw (expl_op name new) = expl_w name -> Inv V (EOp (OExplicit name new)).
  Proof.
    intros Hin Hrw Vl st Hext Hok. destruct (expl_facts name new Hin) as [_ [_ Hw]].
    destruct (lower_expl_ok cfg name new st Hin (proj2 (proj2 (proj2 (proj2 Hok))))) as [st' [L [Hv [Hi [Hx [Hr [_ [ri Hl]]]]]]]].
    eexists _, st'.
    split. { cbn [lower_expr]. exact L. }
    split; [exact Hx|]. split; [eapply lst_ok_regs; eassumption|].
    assert (Hg : goodpv (mkpv (PRaw ("$reg:" +++ expl_tname name new)) (ty_int true (expl_w name)) (KReg (expl_tname name new)) [])).
    { right. exists true, (expl_w name). gp. }
    assert (Hnl : ~ islit (mkpv (PRaw ("$reg:" +++ expl_tname name new)) (ty_int true (expl_w name)) (KReg (expl_tname name new)) [])).
    { unfold islit. cbn. auto. }
    split; [exact Hg|]. split; [apply nolit_litinv; exact Hnl|]. split; [intros H; contradiction|].
    intros HR Hrem cs ms Hrel _. destruct Hrel as [_ [Hregw [Hrold [Hrnew0 _]]]].
    destruct (fin_expl_read (st_regs st') name new ri Hin Hr Hl HR Hrem) as [b [Hfin Hb]].
    eexists. split.
    - split.
      + cbn [pv_term]. rewrite Hfin. cbn [eval]. rewrite (read_reg_expl ms name new b Hin Hb), Hrw. reflexivity.
      + cbn [pv_ty]. apply shape_int. apply wrap_range.
    - intros fuel cs' cv Hce _. destruct fuel as [|k]; [discriminate|].
      rewrite (ceval_expl k cs name new Hin) in Hce. injection Hce as <- <-. split; [reflexivity|].
      cbn [pv_ty cval_of vt_sg ty_int ty_h]. unfold mkval. cbn [snd]. rewrite Hregw, Hrold, Hrnew0. reflexivity.
  Qed.

  (* the program counter: as long as the behaviour does not write the alias, its reads are the packet address *)
  Lemma fin_pc_read regs ri : regs_ok regs -> lookup_reg_info "pc" regs = Some ri -> regs_le regs R -> norem rem ->
    fin (PRaw ("$reg:" +++ "pc")) = PPktAddr.
  Proof.
    intros Hr Hl Hle Hrem. cbn [fin_pure]. rewrite reg_name_of_reg. unfold reg_read.
    destruct (Hle _ _ Hl) as [ri' [L' [O' [P' [N' W']]]]]. rewrite L', Hrem.
    destruct (entry_pc _ _ (Hr _ _ Hl) eq_refl) as [_ [Ho [_ [Hp [Hnw Ha]]]]].
    rewrite Hp in W', P'. destruct W' as [[W' _] | [W' _]]; [discriminate W'|].
    rewrite Ha in W'. cbn [write_only] in W'. rewrite W', P'. reflexivity.
  Qed.

  Lemma inv_pc V : Inv V (EOp (OAlias "PC" false)).
  Proof.
    intros Vl st Hext Hok.
    destruct (lower_pc_ok cfg st (proj2 (proj2 (proj2 (proj2 Hok))))) as [st' [L [Hv [Hi [Hx [Hr [_ [ri Hl]]]]]]]].
    eexists _, st'.
    split. { cbn [lower_expr]. exact L. }
    split; [exact Hx|]. split; [eapply lst_ok_regs; eassumption|].
    assert (Hg : goodpv (mkpv (PRaw ("$reg:" +++ "pc")) (ty_int false 32) (KReg "pc") [])).
    { right. exists false, 32%N. gp. }
    assert (Hnl : ~ islit (mkpv (PRaw ("$reg:" +++ "pc")) (ty_int false 32) (KReg "pc") [])).
    { unfold islit. cbn. auto. }
    split; [exact Hg|]. split; [apply nolit_litinv; exact Hnl|]. split; [intros H; contradiction|].
    intros HR Hrem cs ms Hrel _. destruct Hrel as [_ [_ [_ [_ [_ [_ [_ [_ [Hpk Hpc]]]]]]]]].
    exists (VBv 32 (wrap 32 (pktaddr ms))). split.
    - split.
      + cbn [pv_term]. rewrite (fin_pc_read (st_regs st') ri Hr Hl HR Hrem). reflexivity.
      + cbn [pv_ty]. apply shape_int. apply wrap_range.
    - intros fuel cs' cv Hce _. destruct fuel as [|k]; [discriminate|].
      cbn [ceval operand_lval read_lval] in Hce. change (RAlias ("HEX_REG_ALIAS_" ++ "PC")%string false) with pc_op in Hce.
      rewrite Hpc in Hce. cbn [option_map String.eqb Ascii.eqb Bool.eqb] in Hce. injection Hce as <- <-. split; [reflexivity|].
      cbn [pv_ty cval_of vt_sg ty_int ty_h]. unfold mkval, alias_width. cbn [snd existsb String.eqb Ascii.eqb Bool.eqb orb]. rewrite Hpk. reflexivity.
  Qed.

  (* ------------------------------------------------------------------ immediates *)
  Lemma lookup_snoc_other {A} x y (v : A) l : String.eqb x y = false -> lookup x (l ++ [(y, v)]) = lookup x l.
  Proof. intros H. rewrite lookup_app. cbn [lookup]. rewrite H. destruct (lookup x l); reflexivity. Qed.
  Lemma lookup_snoc_some {A} x y (v w : A) l : lookup x l = Some w -> lookup x (l ++ [(y, v)]) = Some w.
  Proof. intros H. rewrite lookup_app, H. reflexivity. Qed.

  (* the lowering half, also used for an immediate as the DESTINATION of an assignment *)
  Lemma imm_low V l st : IM l = true -> lst_ok V st ->
    exists st', lower_operand cfg (OImm l) st = OK (IPure (mkpv (PVarL l) (imm_ty l) (KVar l) []), st') /\
      st_ext st st' /\ lst_ok V st' /\ In (imm_entry l) (st_imms st') /\ (started st -> st_nonempty st' = true).
  Proof.
    intros Hl Hok. pose proof Hok as [H1 [H2 [H3 [H4 H5]]]].
    destruct (H3 l Hl) as [Hn | [Hs Hin]].
    - eexists.
      split. { cbn [lower_operand]. unfold bind, get. rewrite Hn. unfold put, ret. reflexivity. }
      split. { unfold st_ext. cbn [st_pending st_hcount st_imms st_removed st_nonempty st_regs].
               repeat split; auto using regs_le_refl, N.le_refl. apply incl_appl, incl_refl. }
      split.
      { unfold lst_ok. cbn [st_vars st_imms st_regs]. split; [|split; [exact H2|split; [|split; [|exact H5]]]].
        - intros x Hx. rewrite lookup_snoc_other; [apply H1; exact Hx|].
          destruct (String.eqb_spec x l) as [->|_]; [congruence | reflexivity].
        - intros l' Hl'. destruct (String.eqb_spec l' l) as [->|Hne].
          + right. split; [rewrite lookup_app, Hn; cbn [lookup]; rewrite String.eqb_refl; reflexivity | apply in_or_app; right; left; reflexivity].
          + rewrite lookup_snoc_other by (apply String.eqb_neq; exact Hne).
            destruct (H3 l' Hl') as [? | [? ?]]; [left; assumption | right; split; [assumption | apply in_or_app; left; assumption]].
        - apply Forall_app. split.
          + eapply Forall_impl; [|exact H4]. intros e [l' [A [B C]]]. exists l'. split; [exact A|]. split; [exact B|].
            apply lookup_snoc_some. exact C.
          + constructor; [|constructor]. exists l. split; [exact Hl|]. split; [reflexivity|].
            rewrite lookup_app, Hn. cbn [lookup]. rewrite String.eqb_refl. reflexivity. }
      split; [cbn [st_imms]; apply in_or_app; right; left; reflexivity | intros _; reflexivity].
    - exists st.
      split. { cbn [lower_operand]. unfold bind, get. rewrite Hs. reflexivity. }
      split; [apply st_ext_refl|]. split; [exact Hok|]. split; [exact Hin|].
      intros [Hst | [Hst _]]; [exact Hst|]. rewrite Hst in Hs. discriminate Hs.
  Qed.

  Lemma inv_imm V l : IM l = true -> Inv V (EOp (OImm l)).
  Proof.
    intros Hl Vl st Hext Hok. pose proof Hok as [H1 [H2 [H3 [H4 H5]]]].
    assert (Hg : goodpv (mkpv (PVarL l) (imm_ty l) (KVar l) [])).
    { right. exists (imm_signed l), 32%N. gp. }
    assert (Hnl : ~ islit (mkpv (PVarL l) (imm_ty l) (KVar l) [])) by (unfold islit; cbn; auto).
    assert (Hsem : forall st', In (imm_entry l) (st_imms st') -> semok V (EOp (OImm l)) (mkpv (PVarL l) (imm_ty l) (KVar l) []) st').
    { intros st' Hin _ _ cs ms Hrel Himm. destruct Hrel as [_ [_ [_ [_ [Himms [Hcn _]]]]]].
      exists (VBv 32 (cimm cs l)). split.
      - split; [exact (Himm l Hl Hin) | apply shape_int; exact (Hcn l Hl)].
      - intros fuel cs' cv Hce _. destruct fuel as [|k]; [discriminate|].
        cbn [ceval operand_lval read_lval] in Hce. change ("imm:" ++ l)%string with ("imm:" +++ l) in Hce.
        cbn [pv_ty cval_of imm_ty vt_sg ty_int ty_h]. unfold cimm, imm_signed.
        destruct (lookup ("imm:" +++ l) (cs_vars cs)) as [[t0 [v0|]]|]; injection Hce as <- <-; split; reflexivity. }
    destruct (H3 l Hl) as [Hn | [Hs Hin]].
    - (* first read: the immediate is declared and its prologue entry created *)
      eexists (mkpv (PVarL l) (imm_ty l) (KVar l) []), _.
      split. { cbn [lower_expr lower_operand]. unfold bind, get. rewrite Hn. unfold put, ret. reflexivity. }
      split. { unfold st_ext. cbn [st_pending st_hcount st_imms st_removed st_nonempty st_regs].
               repeat split; auto using regs_le_refl, N.le_refl. apply incl_appl, incl_refl. }
      split.
      { unfold lst_ok. cbn [st_vars st_imms st_regs]. split; [|split; [exact H2|split; [|split; [|exact H5]]]].
        - intros x Hx. rewrite lookup_snoc_other; [apply H1; exact Hx|].
          destruct (String.eqb_spec x l) as [->|_]; [congruence | reflexivity].
        - intros l' Hl'. destruct (String.eqb_spec l' l) as [->|Hne].
          + right. split; [rewrite lookup_app, Hn; cbn [lookup]; rewrite String.eqb_refl; reflexivity | apply in_or_app; right; left; reflexivity].
          + rewrite lookup_snoc_other by (apply String.eqb_neq; exact Hne).
            destruct (H3 l' Hl') as [? | [? ?]]; [left; assumption | right; split; [assumption | apply in_or_app; left; assumption]].
        - apply Forall_app. split.
          + eapply Forall_impl; [|exact H4]. intros e [l' [A [B C]]]. exists l'. split; [exact A|]. split; [exact B|].
            apply lookup_snoc_some. exact C.
          + constructor; [|constructor]. exists l. split; [exact Hl|]. split; [reflexivity|].
            rewrite lookup_app, Hn. cbn [lookup]. rewrite String.eqb_refl. reflexivity. }
      split; [exact Hg|]. split; [apply nolit_litinv; exact Hnl|]. split; [intros H; contradiction|].
      apply Hsem. cbn [st_imms]. apply in_or_app. right. left. reflexivity.
    - (* a later read *)
      eexists (mkpv (PVarL l) (imm_ty l) (KVar l) []), st.
      split. { cbn [lower_expr lower_operand]. unfold bind, get. rewrite Hs. reflexivity. }
      split; [apply st_ext_refl|]. split; [exact Hok|].
      split; [exact Hg|]. split; [apply nolit_litinv; exact Hnl|]. split; [intros H; contradiction|].
      apply Hsem. exact Hin.
  Qed.

  Lemma inv_cast V ts sg w e : cast_ty ts sg w -> Inv V e -> Inv V (ECast ts e).
  Proof.
    intros Hts IH Vl st Hext Hok.
    destruct (IH Vl st Hext Hok) as [pa [st1 [L1 [S1 [K1 [Ga [La [Ll Hsem]]]]]]]].
    destruct (lower_cast_ok ts sg w pa st1 Hts Ga) as [r [R1 [R2 [R3 R4]]]].
    exists r, st1.
    split. { cbn [lower_expr]. (erewrite bind_OK by exact L1). exact R1. }
    split. { exact S1. }
    split. { exact K1. }
    split. { exact R2. }
    split. { intros v b Hk. rewrite (R3 v b Hk) in Hk |- *. apply (La v b Hk). }
    split. { intros Hi. cbn [litlike]. apply Ll. unfold islit in *. destruct (pv_kind r) eqn:Hk; try contradiction. rewrite <- (R3 _ _ eq_refl). rewrite Hk. exact I. }
    intros HR Hrem cs ms Hrel Himm. destruct (Hsem HR Hrem cs ms Hrel Himm) as [va [Sa Hc]].
    destruct (R4 ms va Sa) as [vr [Sr Cr]]. exists vr. split; [exact Sr|].
    intros fuel cs' cv Hce Harms. destruct fuel as [|k]; [discriminate|].
    cbn [ceval] in Hce.
    destruct (cast_ty_ok ts sg w st Hts) as [_ [Rc _]]. rewrite Rc in Hce.
    destruct (ceval E csub xi k cs e) as [[s1 v1]|] eqn:Ece; [|discriminate].
    destruct (Hc k s1 v1 Ece Harms) as [-> ->]. injection Hce as <- <-. auto.
  Qed.

  Lemma inv_un V u e : (u = UNot \/ u = UMinus \/ u = ULNot) -> Inv V e -> Inv V (EUn u e).
  Proof.
    intros Hu IH Vl st Hext Hok.
    destruct (IH Vl st Hext Hok) as [pa [st1 [L1 [S1 [K1 [Ga [La [Ll Hsem]]]]]]]].
    assert (exists r, lower_unop cfg u (IPure pa) st1 = OK (IPure r, st1) /\ goodpv r /\ litinv r /\
              (islit r -> litlike (EUn u e) = true) /\
              forall ms va, sem ms pa va ->
                exists vr, sem ms r vr /\ c_unop u (cval_of (pv_ty pa) va) = Some (cval_of (pv_ty r) vr))
      as [r [R1 [R2 [R3 [R4 R5]]]]].
    { destruct Hu as [Hu | [Hu | ->]].
      - destruct (islit_dec pa) as [Hi | Hn].
        + unfold islit in Hi. destruct (pv_kind pa) eqn:Hk; try contradiction.
          destruct (lower_unop_lit_ok u pa st1 _ _ (or_introl Hu) Ga La Hk) as [r [Q1 [Q2 [Q3 Q4]]]].
          exists r. repeat (split; [assumption|]). split; [|exact Q4].
          intros _. subst u. cbn [litlike]. apply Ll. unfold islit. rewrite Hk. exact I.
        + destruct (lower_unop_ok u pa st1 (or_introl Hu) Ga Hn) as [r [Q1 [Q2 [Q3 Q4]]]].
          exists r. split; [assumption|]. split; [assumption|]. split; [apply nolit_litinv; auto|]. split; [intros; contradiction | exact Q4].
      - destruct (islit_dec pa) as [Hi | Hn].
        + unfold islit in Hi. destruct (pv_kind pa) eqn:Hk; try contradiction.
          destruct (lower_unop_lit_ok u pa st1 _ _ (or_intror Hu) Ga La Hk) as [r [Q1 [Q2 [Q3 Q4]]]].
          exists r. repeat (split; [assumption|]). split; [|exact Q4].
          intros _. subst u. cbn [litlike]. apply Ll. unfold islit. rewrite Hk. exact I.
        + destruct (lower_unop_ok u pa st1 (or_intror Hu) Ga Hn) as [r [Q1 [Q2 [Q3 Q4]]]].
          exists r. split; [assumption|]. split; [assumption|]. split; [apply nolit_litinv; auto|]. split; [intros; contradiction | exact Q4].
      - destruct (lower_lnot_ok pa st1 Ga) as [r [Q1 [Q2 [Q3 Q4]]]].
        exists r. split; [assumption|]. split; [assumption|]. split; [apply nolit_litinv; auto|]. split; [intros; contradiction | exact Q4]. }
    exists r, st1.
    split. { cbn [lower_expr]. (erewrite bind_OK by exact L1). exact R1. }
    repeat (split; [assumption|]).
    intros HR Hrem cs ms Hrel Himm. destruct (Hsem HR Hrem cs ms Hrel Himm) as [va [Sa Hc]].
    destruct (R5 ms va Sa) as [vr [Sr Cr]]. exists vr. split; [exact Sr|].
    intros fuel cs' cv Hce Harms. destruct fuel as [|k]; [discriminate|].
    cbn [ceval] in Hce.
    destruct (ceval E csub xi k cs e) as [[s1 v1]|] eqn:Ece; [|discriminate].
    destruct (Hc k s1 v1 Ece Harms) as [-> ->]. rewrite Cr in Hce. cbn in Hce. injection Hce as <- <-. auto.
  Qed.

  Lemma ceval_bin_strict b k s x y : b <> Ast.BLAnd -> b <> Ast.BLOr ->
    ceval E csub xi (S k) s (EBin b x y) =
    match ceval E csub xi k s x with
    | Some (s1, vx) => match ceval E csub xi k s1 y with
                       | Some (s2, vy) => option_map (fun r => (s2, r)) (c_binop b vx vy)
                       | None => None end
    | None => None end.
  Proof. intros H1 H2. destruct b; try reflexivity; congruence. Qed.

  (* every strict binary operator: from the operator lemma to the invariant *)
  Lemma inv_bin_strict V b l r : b <> Ast.BLAnd -> b <> Ast.BLOr ->
    Inv V l -> Inv V r ->
    (forall pl pr st, goodpv pl -> goodpv pr -> litinv pl -> litinv pr ->
       (islit pl -> litlike l = true) -> (islit pr -> litlike r = true) ->
       exists q, lower_binop cfg b (IPure pl) (IPure pr) st = OK (IPure q, st) /\ goodpv q /\ litinv q /\
         (islit q -> litlike (EBin b l r) = true) /\
         forall ms va vc, sem ms pl va -> sem ms pr vc ->
           exists vr, sem ms q vr /\
             forall cv, c_binop b (cval_of (pv_ty pl) va) (cval_of (pv_ty pr) vc) = Some cv -> cv = cval_of (pv_ty q) vr) ->
    Inv V (EBin b l r).
  Proof.
    intros Hb1 Hb2 IHl IHr Hop Vl st Hext Hok.
    destruct (IHl Vl st Hext Hok) as [pl [st1 [L1 [S1 [K1 [Gl [Il [Ll Hseml]]]]]]]].
    destruct (IHr Vl st1 Hext K1) as [pr [st2 [L2 [S2 [K2 [Gr [Ir [Lr Hsemr]]]]]]]].
    destruct (Hop pl pr st2 Gl Gr Il Ir Ll Lr) as [q [Q1 [Q2 [Q3 [Q5 Q4]]]]].
    exists q, st2.
    split. { cbn [lower_expr]. (erewrite bind_OK by exact L1). (erewrite bind_OK by exact L2). exact Q1. }
    split. { eapply st_ext_trans; eauto. }
    split. { exact K2. }
    split. { exact Q2. }
    split. { exact Q3. }
    split. { exact Q5. }
    intros HR Hrem cs ms Hrel Himm.
    destruct (semok_mono _ _ _ _ _ S2 Hseml HR Hrem cs ms Hrel Himm) as [va [Sa Hca]].
    destruct (Hsemr HR Hrem cs ms Hrel Himm) as [vc [Sc Hcc]].
    destruct (Q4 ms va vc Sa Sc) as [vr [Sr Cr]]. exists vr. split; [exact Sr|].
    intros fuel cs' cv Hce Harms. destruct fuel as [|k]; [discriminate|].
    rewrite ceval_bin_strict in Hce by auto. pose proof I as Ha1; pose proof I as Ha2.
    destruct (ceval E csub xi k cs l) as [[s1 v1]|] eqn:Ece1; [|discriminate].
    destruct (Hca k s1 v1 Ece1 Ha1) as [-> ->].
    destruct (ceval E csub xi k cs r) as [[s2 v2]|] eqn:Ece2; [|discriminate].
    destruct (Hcc k s2 v2 Ece2 Ha2) as [-> ->].
    destruct (c_binop b _ _) as [res|] eqn:Eres; [|discriminate]. cbn in Hce. injection Hce as <- <-.
    split; [reflexivity|]. apply Cr. reflexivity.
  Qed.

  Lemma weaken_op {b} {ca cc : cval} {x : cval} : c_binop b ca cc = Some x -> forall cv, c_binop b ca cc = Some cv -> cv = x.
  Proof. intros H cv H'. congruence. Qed.

  Lemma inv_fold V b l r : is_folding_op b -> Inv V l -> Inv V r -> Inv V (EBin b l r).
  Proof.
    intros Hb IHl IHr.
    assert (b <> Ast.BLAnd /\ b <> Ast.BLOr) as [N1 N2].
    { unfold is_folding_op, is_cmp in Hb. split; intros ->; intuition discriminate. }
    assert (Hfb : folding_opb b = true).
    { unfold is_folding_op, is_cmp in Hb. intuition (subst; reflexivity). }
    apply inv_bin_strict; auto.
    intros pl pr st Gl Gr Il Ir Ll Lr.
    destruct (islit_dec pl) as [Hil | Hnl]; [destruct (islit_dec pr) as [Hir | Hnr]|].
    - (* both literals: folded at compile time *)
      assert (Hlit : litlike (EBin b l r) = true) by (cbn [litlike]; rewrite Hfb, (Ll Hil), (Lr Hir); reflexivity).
      unfold islit in Hil, Hir. destruct (pv_kind pl) eqn:Hkl; try contradiction. destruct (pv_kind pr) eqn:Hkr; try contradiction.
      destruct Hb as [Hb | [Hb | [Hb | Hb]]].
      1-3: destruct (lower_arith_lit_ok b pl pr st _ _ _ _ ltac:(tauto) Il Ir Hkl Hkr) as [q [Q1 [Q2 [Q3 Q4]]]]; exists q;
           repeat (split; [assumption|]); (split; [intros _; exact Hlit|]);
           intros ms va vc Sa Sc; destruct (Q4 ms va vc Sa Sc) as [vr [Sr Cr]]; exists vr; split; [exact Sr | exact (weaken_op Cr)].
      destruct (lower_cmp_lit_ok b pl pr st _ _ _ _ Hb Il Ir Hkl Hkr) as [q [Q1 [Q2 [Q3 Q4]]]]; exists q;
           repeat (split; [assumption|]); (split; [intros _; exact Hlit|]);
           intros ms va vc Sa Sc; destruct (Q4 ms va vc Sa Sc) as [vr [Sr Cr]]; exists vr; split; [exact Sr | exact (weaken_op Cr)].
    - assert (Hn : ~ (islit pl /\ islit pr)) by tauto.
      destruct Hb as [Hb | [Hb | [Hb | Hb]]].
      1-3: destruct (lower_arith_ok b pl pr st ltac:(tauto) Gl Gr Hn) as [q [Q1 [Q2 [Q3 Q4]]]]; exists q;
           (split; [assumption|]); (split; [assumption|]); (split; [apply nolit_litinv; assumption|]); (split; [intros; contradiction|]);
           intros ms va vc Sa Sc; destruct (Q4 ms va vc Sa Sc) as [vr [Sr Cr]]; exists vr; split; [exact Sr | exact (weaken_op Cr)].
      destruct (lower_cmp_ok b pl pr st Hb Gl Gr Hn) as [q [Q1 [Q2 [Q3 Q4]]]]; exists q;
           (split; [assumption|]); (split; [assumption|]); (split; [apply nolit_litinv; assumption|]); (split; [intros; contradiction|]);
           intros ms va vc Sa Sc; destruct (Q4 ms va vc Sa Sc) as [vr [Sr Cr]]; exists vr; split; [exact Sr | exact (weaken_op Cr)].
    - assert (Hn : ~ (islit pl /\ islit pr)) by tauto.
      destruct Hb as [Hb | [Hb | [Hb | Hb]]].
      1-3: destruct (lower_arith_ok b pl pr st ltac:(tauto) Gl Gr Hn) as [q [Q1 [Q2 [Q3 Q4]]]]; exists q;
           (split; [assumption|]); (split; [assumption|]); (split; [apply nolit_litinv; assumption|]); (split; [intros; contradiction|]);
           intros ms va vc Sa Sc; destruct (Q4 ms va vc Sa Sc) as [vr [Sr Cr]]; exists vr; split; [exact Sr | exact (weaken_op Cr)].
      destruct (lower_cmp_ok b pl pr st Hb Gl Gr Hn) as [q [Q1 [Q2 [Q3 Q4]]]]; exists q;
           (split; [assumption|]); (split; [assumption|]); (split; [apply nolit_litinv; assumption|]); (split; [intros; contradiction|]);
           intros ms va vc Sa Sc; destruct (Q4 ms va vc Sa Sc) as [vr [Sr Cr]]; exists vr; split; [exact Sr | exact (weaken_op Cr)].
  Qed.

  Lemma inv_bitshift V b l r : (b = Ast.BAnd \/ b = Ast.BOr \/ b = Ast.BXor \/ b = Ast.BShl \/ b = Ast.BShr) ->
    Inv V l -> Inv V r -> Inv V (EBin b l r).
  Proof.
    intros Hb IHl IHr.
    assert (b <> Ast.BLAnd /\ b <> Ast.BLOr) as [N1 N2] by (split; intros ->; intuition discriminate).
    apply inv_bin_strict; auto.
    intros pl pr st Gl Gr _ _ _ _.
    destruct Hb as [Hb | [Hb | [Hb | Hb]]].
    1-3: destruct (lower_bit_ok b pl pr st ltac:(tauto) Gl Gr) as [q [Q1 [Q2 [Q3 Q4]]]]; exists q;
         (split; [assumption|]); (split; [assumption|]); (split; [apply nolit_litinv; assumption|]); (split; [intros; contradiction|]);
         intros ms va vc Sa Sc; destruct (Q4 ms va vc Sa Sc) as [vr [Sr Cr]]; exists vr; split; [exact Sr | exact (weaken_op Cr)].
    destruct (lower_shift_ok b pl pr st Hb Gl Gr) as [q [Q1 [Q2 [Q3 Q4]]]]; exists q;
         (split; [assumption|]); (split; [assumption|]); (split; [apply nolit_litinv; assumption|]); (split; [intros; contradiction|]); exact Q4.
  Qed.

  Lemma inv_logic V b l r : (b = Ast.BLAnd \/ b = Ast.BLOr) -> Inv V l -> Inv V r -> Inv V (EBin b l r).
  Proof.
    intros Hb IHl IHr Vl st Hext Hok.
    destruct (IHl Vl st Hext Hok) as [pl [st1 [L1 [S1 [K1 [Gl [_ [_ Hseml]]]]]]]].
    destruct (IHr Vl st1 Hext K1) as [pr [st2 [L2 [S2 [K2 [Gr [_ [_ Hsemr]]]]]]]].
    destruct (lower_logic_ok b pl pr st2 Hb Gl Gr) as [q [Q1 [Q2 [Q3 Q4]]]].
    exists q, st2.
    split. { cbn [lower_expr]. (erewrite bind_OK by exact L1). (erewrite bind_OK by exact L2). exact Q1. }
    split. { eapply st_ext_trans; eauto. }
    split. { exact K2. }
    split. { exact Q2. }
    split. { apply nolit_litinv; auto. }
    split. { intros; contradiction. }
    intros HR Hrem cs ms Hrel Himm.
    destruct (semok_mono _ _ _ _ _ S2 Hseml HR Hrem cs ms Hrel Himm) as [va [Sa Hca]].
    destruct (Hsemr HR Hrem cs ms Hrel Himm) as [vc [Sc Hcc]].
    pose proof (Q4 ms va vc Sa Sc) as Sr. eexists. split; [exact Sr|].
    assert (Tq : pv_ty q = ty_bool).
    { destruct Sr as [_ Sh]. destruct Q2 as [[T _] | [s0 [w0 [_ [T _]]]]]; [exact T|]. rewrite T in Sh. destruct Sh as [z [Hz _]]. discriminate. }
    rewrite Tq.
    intros fuel cs' cv Hce Harms. destruct fuel as [|k]; [discriminate|].
    pose proof I as Ha1; pose proof I as Ha2.
    destruct Hb as [-> | ->]; cbn [ceval] in Hce;
    (destruct (ceval E csub xi k cs l) as [[s1 v1]|] eqn:Ece1; [|discriminate]);
    destruct (Hca k s1 v1 Ece1 Ha1) as [-> ->]; unfold truth; cbn [cval_of];
    destruct (snd (cval_of (pv_ty pl) va) =? 0); cbn [negb andb orb] in *;
    try (injection Hce as <- <-; split; reflexivity);
    (destruct (ceval E csub xi k cs r) as [[s2 v2]|] eqn:Ece2; [|discriminate]);
    destruct (Hcc k s2 v2 Ece2 Ha2) as [-> ->];
    destruct (snd (cval_of (pv_ty pr) vc) =? 0); cbn [negb] in *; injection Hce as <- <-; split; reflexivity.
  Qed.


  Lemma inv_cond V c t f : Inv V c -> Inv V t -> Inv V f -> Inv V (ECond c t f).
  Proof.
    intros IHc IHt IHf Vl st Hext Hok.
    destruct (IHc Vl st Hext Hok) as [pc [st1 [L1 [S1 [K1 [Gc [Lic [Lc Hsemc]]]]]]]].
    destruct (IHt Vl st1 Hext K1) as [pt [st2 [L2 [S2 [K2 [Gt [Lit [_ Hsemt]]]]]]]].
    destruct (IHf Vl st2 Hext K2) as [pf [st3 [L3 [S3 [K3 [Gf [Lif [_ Hsemf]]]]]]]].
    assert (Hq : exists q, cond_tail (IPure pc) (IPure pt) (IPure pf) st3 = OK (IPure q, st3) /\ goodpv q /\ litinv q /\
                   (islit q -> litlike (ECond c t f) = true) /\
                   forall ms vc vt vf, sem ms pc vc -> sem ms pt vt -> sem ms pf vf ->
                     exists vr, sem ms q vr /\
                       cval_of (pv_ty q) vr =
                         conv (arith_ty (cty_of (pv_ty pt)) (cty_of (pv_ty pf)))
                              (if truth (cval_of (pv_ty pc) vc) then cval_of (pv_ty pt) vt else cval_of (pv_ty pf) vf)).
    { destruct (islit_dec pc) as [Hi | Hn].
      - destruct (cond_tail_lit_ok pc pt pf st3 Gc Gt Gf Lic Lit Lif Hi) as [q [Q1 [Q2 [Q3 Q4]]]].
        exists q. split; [exact Q1|]. split; [exact Q2|]. split; [exact Q3|]. split; [|exact Q4].
        intros _. cbn [litlike]. exact (Lc Hi).
      - destruct (cond_tail_ok pc pt pf st3 Gc Gt Gf Hn) as [q [Q1 [Q2 [Q3 Q4]]]].
        exists q. split; [exact Q1|]. split; [exact Q2|]. split; [apply nolit_litinv; exact Q3|]. split; [|exact Q4].
        intros Hi. contradiction. }
    destruct Hq as [q [Q1 [Q2 [Q3 [Q5 Q4]]]]].
    exists q, st3.
    split. { rewrite lower_expr_cond. (erewrite bind_OK by exact L1). (erewrite bind_OK by exact L2). (erewrite bind_OK by exact L3). exact Q1. }
    split. { eapply st_ext_trans; [|exact S3]. eapply st_ext_trans; eauto. }
    split. { exact K3. }
    split. { exact Q2. }
    split. { exact Q3. }
    split. { exact Q5. }
    intros HR Hrem cs ms Hrel Himm.
    destruct (semok_mono _ _ _ _ _ (st_ext_trans _ _ _ S2 S3) Hsemc HR Hrem cs ms Hrel Himm) as [vc [Sc Hcc]].
    destruct (semok_mono _ _ _ _ _ S3 Hsemt HR Hrem cs ms Hrel Himm) as [vt [St Hct]].
    destruct (Hsemf HR Hrem cs ms Hrel Himm) as [vf [Sf Hcf]].
    destruct (Q4 ms vc vt vf Sc St Sf) as [vr [Sr Cr]]. exists vr. split; [exact Sr|].
    intros fuel cs' cv Hce Harms. destruct fuel as [|k]; [discriminate|].
    cbn [ceval] in Hce. pose proof I as Ha1; pose proof I as Ha2; pose proof I as Ha3.
    destruct (ceval E csub xi k cs c) as [[s1 v1]|] eqn:Ece1; [|discriminate].
    destruct (Hcc k s1 v1 Ece1 Ha1) as [-> ->].
    destruct (ceval E csub xi k cs t) as [[s2 v2]|] eqn:Ece2; destruct (ceval E csub xi k cs f) as [[s3 v3]|] eqn:Ece3.
    - destruct (Hct k s2 v2 Ece2 Ha2) as [-> ->]. destruct (Hcf k s3 v3 Ece3 Ha3) as [-> ->].
      rewrite Cr. rewrite (fst_cval_of _ _ (proj2 St)), (fst_cval_of _ _ (proj2 Sf)) in Hce. unfold truth.
      destruct (negb (snd (cval_of (pv_ty pc) vc) =? 0)); injection Hce as <- <-; auto.
    - discriminate.
    - discriminate.
    - discriminate.
  Qed.


  (* ------------------------------------------------------------------ (T) mem_load_<s|u><w>(a) *)
  Lemma lst_ok_touched0 V st : lst_ok V st -> lst_ok V (touched st).
  Proof. intros H. eapply lst_ok_regs; [exact H | reflexivity | reflexivity | apply H]. Qed.

  Definition load_tail (sg : bool) (w : N) (items : list item) : M item :=
    match items with
    | [IPure va0] => do va <- addr_of cfg va0; do _ <- touch; ret (IPure (mkpv (PLoad w (rd va)) (ty_tok sg w) KExec (pv_tmps va)))
    | _ => fail "mem_load address"
    end.
  Lemma lower_expr_load sg w args : lower_expr cfg (ELoad sg w args) = (do items <- lower_exprs cfg args; load_tail sg w items).
  Proof. reflexivity. Qed.
  Lemma lower_exprs_one a : lower_exprs cfg (ECons a ENil) = (do i <- lower_expr cfg a; do r <- ret []; ret (i :: r)).
  Proof. reflexivity. Qed.
  Lemma lower_expr_cast t a : lower_expr cfg (ECast t a) = (do ia <- lower_expr cfg a; lower_cast cfg t ia).
  Proof. reflexivity. Qed.

  Lemma inv_cast_load V ts sg w lsg lw a : cast_ty ts sg w -> okw lw -> Inv V a -> Inv V (ECast ts (ELoad lsg lw (ECons a ENil))).
  Proof.
    intros Hts Hlw IH Vl st Hext Hok.
    destruct (IH Vl st Hext Hok) as [pa [st1 [L1 [S1 [K1 [Ga [_ [_ Hsem]]]]]]]].
    destruct (addr_ok pa st1 Ga) as [va [A1 [At A2]]].
    destruct (cast_ty_ok ts sg w (touched st1) Hts) as [R1 [Rc Hw]].
    destruct (init_a_cast_tok_ok sg w lsg lw (PLoad lw (rd va)) KExec (touched st1) Hw Hlw) as [r [C1 [C2 [C3 [C4 C5]]]]].
    exists r, (touched st1).
    split.
    { rewrite lower_expr_cast, lower_expr_load, lower_exprs_one.
      unfold bind at 1. unfold bind at 1. unfold bind at 1. rewrite L1.
      unfold bind at 1. unfold ret at 1. unfold ret at 1. cbv beta iota.
      unfold load_tail. unfold bind at 1. rewrite A1. unfold bind at 1. rewrite touch_eq. unfold ret at 1. rewrite At.
      unfold lower_cast. (erewrite bind_OK by exact R1). (erewrite bind_OK by reflexivity).
      unfold ty_eq. cbn [pv_ty is_numeric ty_tok ty_int ty_h vt_void vt_ext negb andb].
      (erewrite bind_OK by reflexivity).
      assert (vtype_eqb (ty_tok lsg lw) (ty_int sg w) = false) as -> by reflexivity.
      (erewrite bind_OK by exact C1). reflexivity. }
    split. { eapply st_ext_trans; [exact S1 | apply st_ext_touched]. }
    split. { apply lst_ok_touched0. exact K1. }
    split. { exact C2. }
    assert (Hnl : ~ islit r) by (unfold islit; rewrite C4; auto).
    split. { apply nolit_litinv. exact Hnl. }
    split. { intros Hi. contradiction. }
    intros HR Hrem cs ms Hrel Himm.
    destruct (semok_mono _ _ _ _ _ (st_ext_touched st1) Hsem HR Hrem cs ms Hrel Himm) as [ila [Sa Hca]].
    destruct (A2 ms ila Sa) as [w1 [x [Ea Cx]]].
    set (z := wrap lw (read_bytes ms x (N.to_nat (lw / 8)))).
    assert (Hz : 0 <= z < pow2 lw) by apply wrap_range.
    assert (El : eval rw ms [] (fin (PLoad lw (rd va))) = Some (VBv lw z)).
    { cbn [fin_pure eval]. unfold rd. rewrite Ea. reflexivity. }
    destruct (C5 ms z El Hz) as [vr [Sr Cr]]. exists vr. split; [exact Sr|].
    intros fuel cs' cv Hce _. destruct fuel as [|[|k]]; [discriminate Hce| |].
    - cbn [ceval] in Hce. rewrite Rc in Hce. discriminate Hce.
    - cbn [ceval] in Hce. rewrite Rc in Hce.
      destruct (ceval E csub xi k cs a) as [[s1 v1]|] eqn:Ece; [|discriminate Hce].
      destruct (Hca k s1 v1 Ece I) as [-> ->]. injection Hce as <- <-. split; [reflexivity|].
      rewrite Cr. unfold conv at 1, mkval at 1 in Cx. cbn [snd] in Cx. rewrite Cx. destruct Hrel as [_ [_ [_ [_ [_ [_ [Hmem [Hmem0 _]]]]]]]].
      rewrite (read_bytes_rel E cs ms Hmem Hmem0). reflexivity.
  Qed.


  (* ------------------------------------------------------------------ QEMU's bit-field macros: extract / sextract / deposit / bswap *)

  Definition mac_tail (m : string) (items : list item) : M item :=
    match find_mac cfg m with
    | None => fail "Macro is not defined"
    | Some mg =>
        do '(al, tm) <- lower_args cfg items (mac_params mg);
        do _ <- touch;
        do ps <- (fix go (l : list arg) : M (list pure) :=
                    match l with [] => ret [] | APure p :: t => do r <- go t; ret (p :: r)
                               | ARaw s :: t => do r <- go t; ret (PRaw s :: r)
                               | AOp (RParam h) :: t => do r <- go t; ret (PRaw ("$op:" +++ substring 5 (String.length h - 5) h) :: r)
                               | AOp _ :: t => fail "macro operand argument" end) al;
        ret (IPure (mkpv (PApp (mac_rz mg) ps) (mac_ret mg) KMacro tm))
    end.
  Lemma lower_expr_macro m args : lower_expr cfg (EMacro m args) = (do items <- lower_exprs cfg args; mac_tail m items).
  Proof. reflexivity. Qed.
  Lemma lower_exprs_cons a t : lower_exprs cfg (ECons a t) = (do i <- lower_expr cfg a; do r <- lower_exprs cfg t; ret (i :: r)).
  Proof. reflexivity. Qed.
  Lemma lower_exprs_nil : lower_exprs cfg ENil = ret [].
  Proof. reflexivity. Qed.

  (* what one argument contributes: its converted term evaluates to the C value converted to the parameter type *)
  Definition argsem (t : cty) (p p' : pval) : Prop :=
    forall ms v, sem ms p v ->
      exists z, 0 <= z < pow2 (snd t) /\ eval rw ms [] (fin (pv_term p')) = Some (VBv (snd t) z) /\
                conv t (cval_of (pv_ty p) v) = (t, z).

  Lemma mac_tail1_ok m rz rsg rww xw px st :
    In (mkmac m rz (ty_int rsg rww) [ty_int false xw]) std_macs -> okw xw -> goodpv px ->
    exists x', mac_tail m [IPure px] st = OK (IPure (mkpv (PApp rz [rd x']) (ty_int rsg rww) KMacro []), touched st) /\
      argsem (false, xw) px x'.
  Proof.
    intros Hin Hxw Gx. unfold mac_tail. rewrite (find_mac_std _ Hin : find_mac cfg m = _). cbn [mac_params mac_rz mac_ret].
    destruct (lower_args_cons px [] false xw [] [] [] st Hxw Gx eq_refl) as [x' [Lx [Tx Sx]]]. rewrite Tx in Lx.
    exists x'. split; [|exact Sx].
    unfold bind at 1. rewrite Lx. cbv beta iota. unfold bind at 1. rewrite touch_eq. reflexivity.
  Qed.

  Lemma mac_tail3_ok m rz rsg rww xw px ps pl st :
    In (mkmac m rz (ty_int rsg rww) [ty_int false xw; ty_int true 32; ty_int true 32]) std_macs -> okw xw ->
    goodpv px -> goodpv ps -> goodpv pl ->
    exists x' s' l', mac_tail m [IPure px; IPure ps; IPure pl] st =
        OK (IPure (mkpv (PApp rz [rd x'; rd s'; rd l']) (ty_int rsg rww) KMacro []), touched st) /\
      argsem (false, xw) px x' /\ argsem i32_t ps s' /\ argsem i32_t pl l'.
  Proof.
    intros Hin Hxw Gx Gs Gl. unfold mac_tail. rewrite (find_mac_std _ Hin : find_mac cfg m = _). cbn [mac_params mac_rz mac_ret].
    destruct (lower_args_cons pl [] true 32 [] [] [] st okw32 Gl eq_refl) as [l' [Ll [Tl Sl]]]. rewrite Tl in Ll. cbn [app] in Ll.
    destruct (lower_args_cons ps _ true 32 _ _ _ st okw32 Gs Ll) as [s' [Ls [Ts Ss]]]. rewrite Ts in Ls. cbn [app] in Ls.
    destruct (lower_args_cons px _ false xw _ _ _ st Hxw Gx Ls) as [x' [Lx [Tx Sx]]]. rewrite Tx in Lx. cbn [app] in Lx.
    exists x', s', l'. split; [|split; [exact Sx | split; [exact Ss | exact Sl]]].
    unfold bind at 1. rewrite Lx. cbv beta iota. unfold bind at 1. rewrite touch_eq. reflexivity.
  Qed.

  Lemma mac_tail4_ok m rz rsg rww xw px ps pl pf st :
    In (mkmac m rz (ty_int rsg rww) [ty_int false xw; ty_int true 32; ty_int true 32; ty_int false xw]) std_macs -> okw xw ->
    goodpv px -> goodpv ps -> goodpv pl -> goodpv pf ->
    exists x' s' l' f', mac_tail m [IPure px; IPure ps; IPure pl; IPure pf] st =
        OK (IPure (mkpv (PApp rz [rd x'; rd s'; rd l'; rd f']) (ty_int rsg rww) KMacro []), touched st) /\
      argsem (false, xw) px x' /\ argsem i32_t ps s' /\ argsem i32_t pl l' /\ argsem (false, xw) pf f'.
  Proof.
    intros Hin Hxw Gx Gs Gl Gf. unfold mac_tail. rewrite (find_mac_std _ Hin : find_mac cfg m = _). cbn [mac_params mac_rz mac_ret].
    destruct (lower_args_cons pf [] false xw [] [] [] st Hxw Gf eq_refl) as [f' [Lf [Tf Sf]]]. rewrite Tf in Lf. cbn [app] in Lf.
    destruct (lower_args_cons pl _ true 32 _ _ _ st okw32 Gl Lf) as [l' [Ll [Tl Sl]]]. rewrite Tl in Ll. cbn [app] in Ll.
    destruct (lower_args_cons ps _ true 32 _ _ _ st okw32 Gs Ll) as [s' [Ls [Ts Ss]]]. rewrite Ts in Ls. cbn [app] in Ls.
    destruct (lower_args_cons px _ false xw _ _ _ st Hxw Gx Ls) as [x' [Lx [Tx Sx]]]. rewrite Tx in Lx. cbn [app] in Lx.
    exists x', s', l', f'. split; [|split; [exact Sx | split; [exact Ss | split; [exact Sl | exact Sf]]]].
    unfold bind at 1. rewrite Lx. cbv beta iota. unfold bind at 1. rewrite touch_eq. reflexivity.
  Qed.

  (* what the fragment needs of a macro: its table entry, and the agreement of CSem.c_macro with RzIL.app_sem *)
  Lemma mac1_spec m : is_mac1 m -> exists rz rsg rww xw,
    In (mkmac m rz (ty_int rsg rww) [ty_int false xw]) std_macs /\ okw xw /\ okw rww /\
    forall cx x, conv (false, xw) cx = ((false, xw), x) -> 0 <= x < pow2 xw ->
      exists z, app_sem rz [VBv xw x] = Some (VBv rww z) /\ 0 <= z < pow2 rww /\
        forall r, c_macro m [cx] = Some r -> r = ((rsg, rww), z).
  Proof.
    intros [-> | [-> | ->]].
    - exists "BSWAP16", false, 16%N, 16%N. split; [cbn; tauto|]. split; [unfold okw; auto|]. split; [unfold okw; auto|]. exact mac_bswap16.
    - exists "BSWAP32", false, 32%N, 32%N. split; [cbn; tauto|]. split; [auto|]. split; [auto|]. exact mac_bswap32.
    - exists "BSWAP64", false, 64%N, 64%N. split; [cbn; tauto|]. split; [auto|]. split; [auto|]. exact mac_bswap64.
  Qed.
  Lemma mac3_spec m : is_mac3 m -> exists rz rsg rww xw,
    In (mkmac m rz (ty_int rsg rww) [ty_int false xw; ty_int true 32; ty_int true 32]) std_macs /\ okw xw /\ okw rww /\
    forall cx cs cl x s l, conv (false, xw) cx = ((false, xw), x) -> conv i32_t cs = (i32_t, s) -> conv i32_t cl = (i32_t, l) ->
      0 <= s < pow2 32 -> 0 <= l < pow2 32 ->
      exists z, app_sem rz [VBv xw x; VBv 32 s; VBv 32 l] = Some (VBv rww z) /\ 0 <= z < pow2 rww /\
        forall r, c_macro m [cx; cs; cl] = Some r -> r = ((rsg, rww), z).
  Proof.
    intros [-> | [-> | ->]].
    - exists "EXTRACT32", false, 32%N, 32%N. split; [cbn; tauto|]. split; [auto|]. split; [auto|]. exact mac_extract32.
    - exists "EXTRACT64", false, 64%N, 64%N. split; [cbn; tauto|]. split; [auto|]. split; [auto|]. exact mac_extract64.
    - exists "SEXTRACT64", true, 64%N, 64%N. split; [cbn; tauto|]. split; [auto|]. split; [auto|]. exact mac_sextract64.
  Qed.
  Lemma mac4_spec m : is_mac4 m -> exists rz rsg rww xw,
    In (mkmac m rz (ty_int rsg rww) [ty_int false xw; ty_int true 32; ty_int true 32; ty_int false xw]) std_macs /\ okw xw /\ okw rww /\
    forall cx cs cl cf x s l f, conv (false, xw) cx = ((false, xw), x) -> conv i32_t cs = (i32_t, s) -> conv i32_t cl = (i32_t, l) ->
      conv (false, xw) cf = ((false, xw), f) -> 0 <= s < pow2 32 -> 0 <= l < pow2 32 ->
      exists z, app_sem rz [VBv xw x; VBv 32 s; VBv 32 l; VBv xw f] = Some (VBv rww z) /\ 0 <= z < pow2 rww /\
        forall r, c_macro m [cx; cs; cl; cf] = Some r -> r = ((rsg, rww), z).
  Proof.
    intros [-> | ->].
    - exists "DEPOSIT32", false, 32%N, 32%N. split; [cbn; tauto|]. split; [auto|]. split; [auto|]. exact mac_deposit32.
    - exists "DEPOSIT64", false, 64%N, 64%N. split; [cbn; tauto|]. split; [auto|]. split; [auto|]. exact mac_deposit64.
  Qed.

  Lemma ceval_mac1 k cs m x :
    ceval E csub xi (S k) cs (EMacro m (ECons x ENil)) =
    match ceval E csub xi k cs x with
    | Some (s1, vx) => option_map (fun r => (s1, r)) (c_macro m [vx])
    | None => None end.
  Proof. cbn [ceval]. destruct (ceval E csub xi k cs x) as [[s1 vx]|]; reflexivity. Qed.
  Lemma ceval_mac3 k cs m x s l :
    ceval E csub xi (S k) cs (EMacro m (ECons x (ECons s (ECons l ENil)))) =
    match ceval E csub xi k cs x with
    | Some (s1, vx) =>
        match ceval E csub xi k s1 s with
        | Some (s2, vs) =>
            match ceval E csub xi k s2 l with
            | Some (s3, vl) => option_map (fun r => (s3, r)) (c_macro m [vx; vs; vl])
            | None => None end
        | None => None end
    | None => None end.
  Proof.
    cbn [ceval]. destruct (ceval E csub xi k cs x) as [[s1 vx]|]; [|reflexivity].
    destruct (ceval E csub xi k s1 s) as [[s2 vs]|]; [|reflexivity].
    destruct (ceval E csub xi k s2 l) as [[s3 vl]|]; reflexivity.
  Qed.
  Lemma ceval_mac4 k cs m x s l f :
    ceval E csub xi (S k) cs (EMacro m (ECons x (ECons s (ECons l (ECons f ENil))))) =
    match ceval E csub xi k cs x with
    | Some (s1, vx) =>
        match ceval E csub xi k s1 s with
        | Some (s2, vs) =>
            match ceval E csub xi k s2 l with
            | Some (s3, vl) =>
                match ceval E csub xi k s3 f with
                | Some (s4, vf) => option_map (fun r => (s4, r)) (c_macro m [vx; vs; vl; vf])
                | None => None end
            | None => None end
        | None => None end
    | None => None end.
  Proof.
    cbn [ceval]. destruct (ceval E csub xi k cs x) as [[s1 vx]|]; [|reflexivity].
    destruct (ceval E csub xi k s1 s) as [[s2 vs]|]; [|reflexivity].
    destruct (ceval E csub xi k s2 l) as [[s3 vl]|]; [|reflexivity].
    destruct (ceval E csub xi k s3 f) as [[s4 vf]|]; reflexivity.
  Qed.

  Lemma goodpv_mac tm sg w : okw w -> goodpv (mkpv tm (ty_int sg w) KMacro []) /\ ~ islit (mkpv tm (ty_int sg w) KMacro []).
  Proof. intros Hw. split; [right; exists sg, w; gp | unfold islit; cbn; auto]. Qed.

  Lemma inv_mac1 V m x : is_mac1 m -> Inv V x -> Inv V (EMacro m (ECons x ENil)).
  Proof.
    intros Hm IHx Vl st Hext Hok.
    destruct (mac1_spec m Hm) as [rz [rsg [rww [xw [Hin [Hxw [Hrw Hagree]]]]]]].
    destruct (IHx Vl st Hext Hok) as [px [st1 [L1 [S1 [K1 [Gx [_ [_ Hsemx]]]]]]]].
    destruct (mac_tail1_ok m rz rsg rww xw px st1 Hin Hxw Gx) as [x' [T1 Ax]].
    destruct (goodpv_mac (PApp rz [rd x']) rsg rww Hrw) as [Gr Nr].
    eexists _, (touched st1).
    split. { rewrite lower_expr_macro, lower_exprs_cons, lower_exprs_nil. unfold bind at 1. unfold bind at 1. rewrite L1.
             unfold bind at 1. unfold ret at 1 2. exact T1. }
    split. { eapply st_ext_trans; [exact S1 | apply st_ext_touched]. }
    split. { apply lst_ok_touched0. exact K1. }
    split. { exact Gr. }
    split. { apply nolit_litinv. exact Nr. }
    split. { intros Hi. contradiction. }
    intros HR Hrem cs ms Hrel Himm.
    destruct (semok_mono _ _ _ _ _ (st_ext_touched st1) Hsemx HR Hrem cs ms Hrel Himm) as [vx [Sx Hcx]].
    destruct (Ax ms vx Sx) as [zx [Rx [Ex Cx]]]. cbn [snd] in Rx, Ex.
    destruct (Hagree _ zx Cx Rx) as [z [Happ [Rz Hc]]].
    exists (VBv rww z). split.
    - split; [|cbn [pv_ty]; apply shape_int; exact Rz].
      cbn [pv_term fin_pure map eval]. unfold rd. rewrite Ex. cbn [rev app]. exact Happ.
    - intros fuel cs' cv Hce _. destruct fuel as [|k]; [discriminate Hce|].
      rewrite ceval_mac1 in Hce.
      destruct (ceval E csub xi k cs x) as [[s1 v1]|] eqn:E1; [|discriminate Hce]. destruct (Hcx k s1 v1 E1 I) as [-> ->].
      destruct (c_macro m _) as [r|] eqn:Er; [|discriminate Hce]. cbn [option_map] in Hce. injection Hce as <- <-.
      split; [reflexivity|]. rewrite (Hc r eq_refl). reflexivity.
  Qed.

  Lemma inv_mac3 V m x s l : is_mac3 m -> Inv V x -> Inv V s -> Inv V l -> Inv V (EMacro m (ECons x (ECons s (ECons l ENil)))).
  Proof.
    intros Hm IHx IHs IHl Vl st Hext Hok.
    destruct (mac3_spec m Hm) as [rz [rsg [rww [xw [Hin [Hxw [Hrw Hagree]]]]]]].
    destruct (IHx Vl st Hext Hok) as [px [st1 [L1 [S1 [K1 [Gx [_ [_ Hsemx]]]]]]]].
    destruct (IHs Vl st1 Hext K1) as [ps [st2 [L2 [S2 [K2 [Gs [_ [_ Hsems]]]]]]]].
    destruct (IHl Vl st2 Hext K2) as [pl [st3 [L3 [S3 [K3 [Gl [_ [_ Hseml]]]]]]]].
    destruct (mac_tail3_ok m rz rsg rww xw px ps pl st3 Hin Hxw Gx Gs Gl) as [x' [s' [l' [T1 [Ax [As Al]]]]]].
    destruct (goodpv_mac (PApp rz [rd x'; rd s'; rd l']) rsg rww Hrw) as [Gr Nr].
    eexists _, (touched st3).
    split. { rewrite lower_expr_macro, !lower_exprs_cons, lower_exprs_nil.
             unfold bind at 1. unfold bind at 1. rewrite L1. unfold bind at 1. unfold bind at 1. rewrite L2.
             unfold bind at 1. unfold bind at 1. rewrite L3. unfold bind at 1. unfold ret at 1 2 3 4. exact T1. }
    split. { eapply st_ext_trans; [exact S1|]. eapply st_ext_trans; [exact S2|]. eapply st_ext_trans; [exact S3 | apply st_ext_touched]. }
    split. { apply lst_ok_touched0. exact K3. }
    split. { exact Gr. }
    split. { apply nolit_litinv. exact Nr. }
    split. { intros Hi. contradiction. }
    intros HR Hrem cs ms Hrel Himm.
    assert (X3 : st_ext st3 (touched st3)) by apply st_ext_touched.
    destruct (semok_mono _ _ _ _ _ (st_ext_trans _ _ _ S2 (st_ext_trans _ _ _ S3 X3)) Hsemx HR Hrem cs ms Hrel Himm) as [vx [Sx Hcx]].
    destruct (semok_mono _ _ _ _ _ (st_ext_trans _ _ _ S3 X3) Hsems HR Hrem cs ms Hrel Himm) as [vs [Ss Hcs]].
    destruct (semok_mono _ _ _ _ _ X3 Hseml HR Hrem cs ms Hrel Himm) as [vl [Sl Hcl]].
    destruct (Ax ms vx Sx) as [zx [Rx [Ex Cx]]]. destruct (As ms vs Ss) as [zs [Rs [Es Cs]]]. destruct (Al ms vl Sl) as [zl [Rl [El Cl]]].
    cbn [snd i32_t] in Rx, Ex, Rs, Es, Rl, El.
    destruct (Hagree _ _ _ zx zs zl Cx Cs Cl Rs Rl) as [z [Happ [Rz Hc]]].
    exists (VBv rww z). split.
    - split; [|cbn [pv_ty]; apply shape_int; exact Rz].
      cbn [pv_term fin_pure map eval]. unfold rd. rewrite Ex, Es, El. cbn [rev app]. exact Happ.
    - intros fuel cs' cv Hce _. destruct fuel as [|k]; [discriminate Hce|].
      rewrite ceval_mac3 in Hce.
      destruct (ceval E csub xi k cs x) as [[s1 v1]|] eqn:E1; [|discriminate Hce]. destruct (Hcx k s1 v1 E1 I) as [-> ->].
      destruct (ceval E csub xi k cs s) as [[s2 v2]|] eqn:E2; [|discriminate Hce]. destruct (Hcs k s2 v2 E2 I) as [-> ->].
      destruct (ceval E csub xi k cs l) as [[s3 v3]|] eqn:E3; [|discriminate Hce]. destruct (Hcl k s3 v3 E3 I) as [-> ->].
      destruct (c_macro m _) as [r|] eqn:Er; [|discriminate Hce]. cbn [option_map] in Hce. injection Hce as <- <-.
      split; [reflexivity|]. rewrite (Hc r eq_refl). reflexivity.
  Qed.

  Lemma inv_mac4 V m x s l f : is_mac4 m -> Inv V x -> Inv V s -> Inv V l -> Inv V f ->
    Inv V (EMacro m (ECons x (ECons s (ECons l (ECons f ENil))))).
  Proof.
    intros Hm IHx IHs IHl IHf Vl st Hext Hok.
    destruct (mac4_spec m Hm) as [rz [rsg [rww [xw [Hin [Hxw [Hrw Hagree]]]]]]].
    destruct (IHx Vl st Hext Hok) as [px [st1 [L1 [S1 [K1 [Gx [_ [_ Hsemx]]]]]]]].
    destruct (IHs Vl st1 Hext K1) as [ps [st2 [L2 [S2 [K2 [Gs [_ [_ Hsems]]]]]]]].
    destruct (IHl Vl st2 Hext K2) as [pl [st3 [L3 [S3 [K3 [Gl [_ [_ Hseml]]]]]]]].
    destruct (IHf Vl st3 Hext K3) as [pf [st4 [L4 [S4 [K4 [Gf [_ [_ Hsemf]]]]]]]].
    destruct (mac_tail4_ok m rz rsg rww xw px ps pl pf st4 Hin Hxw Gx Gs Gl Gf) as [x' [s' [l' [f' [T1 [Ax [As [Al Af]]]]]]]].
    destruct (goodpv_mac (PApp rz [rd x'; rd s'; rd l'; rd f']) rsg rww Hrw) as [Gr Nr].
    eexists _, (touched st4).
    split. { rewrite lower_expr_macro, !lower_exprs_cons, lower_exprs_nil.
             unfold bind at 1. unfold bind at 1. rewrite L1. unfold bind at 1. unfold bind at 1. rewrite L2.
             unfold bind at 1. unfold bind at 1. rewrite L3. unfold bind at 1. unfold bind at 1. rewrite L4.
             unfold bind at 1. unfold ret at 1 2 3 4 5. exact T1. }
    split. { eapply st_ext_trans; [exact S1|]. eapply st_ext_trans; [exact S2|]. eapply st_ext_trans; [exact S3|].
             eapply st_ext_trans; [exact S4 | apply st_ext_touched]. }
    split. { apply lst_ok_touched0. exact K4. }
    split. { exact Gr. }
    split. { apply nolit_litinv. exact Nr. }
    split. { intros Hi. contradiction. }
    intros HR Hrem cs ms Hrel Himm.
    assert (X4 : st_ext st4 (touched st4)) by apply st_ext_touched.
    destruct (semok_mono _ _ _ _ _ (st_ext_trans _ _ _ S2 (st_ext_trans _ _ _ S3 (st_ext_trans _ _ _ S4 X4))) Hsemx HR Hrem cs ms Hrel Himm) as [vx [Sx Hcx]].
    destruct (semok_mono _ _ _ _ _ (st_ext_trans _ _ _ S3 (st_ext_trans _ _ _ S4 X4)) Hsems HR Hrem cs ms Hrel Himm) as [vs [Ss Hcs]].
    destruct (semok_mono _ _ _ _ _ (st_ext_trans _ _ _ S4 X4) Hseml HR Hrem cs ms Hrel Himm) as [vl [Sl Hcl]].
    destruct (semok_mono _ _ _ _ _ X4 Hsemf HR Hrem cs ms Hrel Himm) as [vf [Sf Hcf]].
    destruct (Ax ms vx Sx) as [zx [Rx [Ex Cx]]]. destruct (As ms vs Ss) as [zs [Rs [Es Cs]]]. destruct (Al ms vl Sl) as [zl [Rl [El Cl]]].
    destruct (Af ms vf Sf) as [zf [Rf [Ef Cf]]].
    cbn [snd i32_t] in Rx, Ex, Rs, Es, Rl, El, Rf, Ef.
    destruct (Hagree _ _ _ _ zx zs zl zf Cx Cs Cl Cf Rs Rl) as [z [Happ [Rz Hc]]].
    exists (VBv rww z). split.
    - split; [|cbn [pv_ty]; apply shape_int; exact Rz].
      cbn [pv_term fin_pure map eval]. unfold rd. rewrite Ex, Es, El, Ef. cbn [rev app]. exact Happ.
    - intros fuel cs' cv Hce _. destruct fuel as [|k]; [discriminate Hce|].
      rewrite ceval_mac4 in Hce.
      destruct (ceval E csub xi k cs x) as [[s1 v1]|] eqn:E1; [|discriminate Hce]. destruct (Hcx k s1 v1 E1 I) as [-> ->].
      destruct (ceval E csub xi k cs s) as [[s2 v2]|] eqn:E2; [|discriminate Hce]. destruct (Hcs k s2 v2 E2 I) as [-> ->].
      destruct (ceval E csub xi k cs l) as [[s3 v3]|] eqn:E3; [|discriminate Hce]. destruct (Hcl k s3 v3 E3 I) as [-> ->].
      destruct (ceval E csub xi k cs f) as [[s4 v4]|] eqn:E4; [|discriminate Hce]. destruct (Hcf k s4 v4 E4 I) as [-> ->].
      destruct (c_macro m _) as [r|] eqn:Er; [|discriminate Hce]. cbn [option_map] in Hce. injection Hce as <- <-.
      split; [reflexivity|]. rewrite (Hc r eq_refl). reflexivity.
  Qed.


  (* ------------------------------------------------------------------ sizeof(e) *)
  (* The compiler folds sizeof(e) to the literal (width of the type it gives e + 7) / 8, typed int (signed, 32 bit).
     CSem has no sizeof: it reads the spelling as a call of a sub-routine `sizeof`, which has no body, so it prescribes no
     value (ceval = None) and the simulation holds vacuously for every expression that contains it.  (C11 6.5.3.4 gives
     sizeof the type size_t, unsigned: an expression in which the signedness of that literal matters would be
     mistranslated; CSem cannot express the difference.) *)
  Lemma sizeof_ext : In "sizeof" ext_calls.
  Proof. right. left. reflexivity. Qed.

  Lemma lower_expr_sizeof args st p st' : lower_exprs cfg args st = OK ([IPure p], st') -> goodpv p ->
    lower_expr cfg (Ast.ECall "sizeof" args) st =
    OK (IPure (mkpv (PBv true 32 (Z.of_N ((vt_w (pv_ty p) + 7) / 8))) (ty_int true 32) (KLit (Z.of_N ((vt_w (pv_ty p) + 7) / 8)) false) []), st').
  Proof.
    intros H Hg. cbn [lower_expr].
    match goal with |- bind ?m _ _ = _ => change m with (lower_exprs cfg args) end.
    unfold bind at 1. rewrite H.
    change (String.eqb "sizeof" "fatal") with false. change (String.eqb "sizeof" "MEM_STORE0") with false. cbv iota.
    unfold find_sub. cbn [cfg_subs]. rewrite (Hsubs "sizeof" sizeof_ext).
    change (String.eqb "sizeof" "sizeof") with true. cbv iota.
    assert (Hn : is_numeric (pv_ty p) = true /\ vt_tok (pv_ty p) = false).
    { destruct Hg as [[Ht _] | [s0 [w0 [_ [Ht _]]]]]; rewrite Ht; split; reflexivity. }
    unfold bind, need_numeric. rewrite (proj1 Hn), (proj2 Hn). reflexivity.
  Qed.

  Lemma inv_sizeof V e : Inv V e -> Inv V (Ast.ECall "sizeof" (ECons e ENil)).
  Proof.
    intros IH Vl st Hext Hok.
    destruct (IH Vl st Hext Hok) as [pa [st1 [L1 [S1 [K1 [Ga _]]]]]].
    set (sz := Z.of_N ((vt_w (pv_ty pa) + 7) / 8)).
    assert (Hsz : 0 <= sz < 2147483648).
    { unfold sz. destruct Ga as [[Ht _] | [s0 [w0 [Hw0 [Ht _]]]]]; rewrite Ht; [vm_compute; split; [discriminate | reflexivity]|].
      cbn [vt_w ty_int ty_h]. okw_cases Hw0; vm_compute; split; try discriminate; reflexivity. }
    exists (mkpv (PBv true 32 sz) (ty_int true 32) (KLit sz false) []), st1.
    split. { apply lower_expr_sizeof; [|exact Ga]. rewrite lower_exprs_cons, lower_exprs_nil. unfold bind. rewrite L1. reflexivity. }
    split; [exact S1|]. split; [exact K1|].
    split. { right. exists true, 32%N. gp. }
    split. { intros v0 b0 Hk. cbn in Hk. injection Hk as <- <-. left. split; [reflexivity|]. exists true, 32%N. cbn [pv_ty pv_term].
             repeat split; auto. unfold norm_lit, sval, wrap. cbn [vt_sg vt_w ty_int ty_h]. norm_w. split_ifs; lia. }
    split. { intros _. reflexivity. }
    intros _ _ cs ms _ _. exists (VBv 32 (wrap 32 sz)). split.
    - split; [reflexivity | apply shape_int; apply wrap_range].
    - intros fuel cs' cv Hce _. destruct fuel as [|k]; [discriminate Hce|].
      cbn [ceval] in Hce. rewrite (Hcsub "sizeof" sizeof_ext) in Hce. discriminate Hce.
  Qed.

  Theorem expr_inv V e : pfrag V e -> Inv V e.
  Proof.
    induction 1.
    - eapply inv_ident; eauto.
    - eapply inv_num; eauto.
    - eapply inv_reg; eauto.
    - eapply inv_newreg; eauto.
    - apply inv_imm; auto.
    - apply inv_alias; auto.
    - apply inv_expl; auto.
    - apply inv_pc.
    - eapply inv_cast; eauto.
    - apply inv_un; auto.
    - destruct H as [H | H]; [apply inv_fold; auto|].
      destruct H as [H | [H | [H | [H | [H | H]]]]].
      1-5: apply inv_bitshift; auto; tauto.
      apply inv_logic; auto.
    - apply inv_cond; auto.
    - apply inv_sizeof; auto.
    - eapply inv_cast_load; eauto.
    - apply inv_mac1; auto.
    - apply inv_mac3; auto.
    - apply inv_mac4; auto.
  Qed.

End Correct.

(* ================================================================== the theorem, for any configuration with all repairs on *)
Definition shape_pv (pv : pval) (ilv : val) : Prop :=
  if vt_bool (pv_ty pv) then exists b, ilv = VB b
  else exists z, ilv = VBv (vt_w (pv_ty pv)) z /\ 0 <= z < pow2 (vt_w (pv_ty pv)) /\
                 ity (pv_ty pv) (vt_sg (pv_ty pv)) (vt_w (pv_ty pv)) /\ okw (vt_w (pv_ty pv)).
Definition agrees (pv : pval) (cv : cval) (ilv : val) : Prop :=
  match ilv with
  | VB b => cv = ((true, 32%N), if b then 1 else 0)
  | VBv _ z => cv = ((vt_sg (pv_ty pv), vt_w (pv_ty pv)), z)
  end.

(* the initial model state is a state of the fragment *)
Lemma lst_ok_init IM cfg : lst_ok IM [] (init_state cfg).
Proof.
  unfold lst_ok. cbn [init_state st_vars st_imms st_regs lookup].
  split; [reflexivity|]. split; [reflexivity|]. split; [intros l Hl; left; reflexivity|]. split; [constructor | apply regs_ok_nil].
Qed.

(* the lowering does not depend on the table R the result is later finalised against: the existential
   witnesses of a statement proved for every R can be chosen before R *)
Lemma exists_forall_swap {A B X : Type} (f : res (A * B)) (P : X -> A -> B -> Prop) (x0 : X) :
  (forall x, exists a b, f = OK (a, b) /\ P x a b) ->
  exists a b, f = OK (a, b) /\ forall x, P x a b.
Proof.
  intros H. destruct (H x0) as [a [b [L _]]]. exists a, b. split; [exact L|].
  intros x. destruct (H x) as [a2 [b2 [L2 P2]]]. rewrite L in L2. injection L2 as <- <-. exact P2.
Qed.

Theorem expr_correct : forall (cfg : config) (rw : regwidth) (IM : string -> bool) (E : cenv) (csub : csubs) xi V e st,
  cfg_fx cfg = all_fixes -> cfg_params cfg = [] -> macs_std (cfg_macros cfg) -> subs_ext (cfg_subs cfg) -> csub_ext csub -> xi_ok xi ->
  lst_ok IM V st -> pfrag rw IM V e ->
  exists pv st', lower_expr cfg e st = OK (IPure pv, st') /\ st_ext st st' /\ lst_ok IM V st' /\
    forall R rem, regs_le (st_regs st') R -> norem rem ->
    forall cs ms, rel IM E V cs ms -> imms_done IM E (st_imms st') cs ms ->
      exists ilv, eval rw ms [] (fin_pure R rem (pv_term pv)) = Some ilv /\ shape_pv pv ilv /\
        forall fuel cs' cv, ceval E csub xi fuel cs e = Some (cs', cv) -> arms_ok fuel cs e ->
          cs' = cs /\ agrees pv cv ilv.
Proof.
  intros cfg rw IM E csub xi V e st Hfx Hpar Hmacs Hsubs Hcsub Hxi Hok Hfrag.
  destruct cfg as [fx0 subs macs params cret hstart]. cbn in Hfx, Hpar, Hmacs, Hsubs. subst fx0 params.
  match goal with |- exists pv st', ?f = OK (IPure pv, st') /\ _ =>
    destruct (exists_forall_swap (match f with OK (IPure p, s) => OK (p, s) | OK _ => Err "" | Err m => Err m end)
                (fun (x : list (string * reginfo) * list string) pv st' => st_ext st st' /\ lst_ok IM V st' /\
      (regs_le (st_regs st') (fst x) -> norem (snd x) ->
       forall cs ms, rel IM E V cs ms -> imms_done IM E (st_imms st') cs ms ->
        exists ilv, eval rw ms [] (fin_pure (fst x) (snd x) (pv_term pv)) = Some ilv /\ shape_pv pv ilv /\
          forall fuel cs' cv, ceval E csub xi fuel cs e = Some (cs', cv) -> arms_ok fuel cs e ->
            cs' = cs /\ agrees pv cv ilv)) ([], [])) as [pv [st' [L H]]]
  end.
  - intros [R rem]. cbn [fst snd].
    destruct (expr_inv subs macs cret hstart Hmacs Hsubs rw R rem IM E csub Hcsub xi Hxi V e Hfrag V st (vext_refl V) Hok) as [pv [st' [L [S [K [G [_ [_ Hsem]]]]]]]].
    exists pv, st'. split; [rewrite L; reflexivity|]. split; [exact S|]. split; [exact K|].
    intros HR Hrem cs ms Hrel Himm. destruct (Hsem HR Hrem cs ms Hrel Himm) as [ilv [[He Hs] Hc]].
    exists ilv. split; [exact He|].
    destruct G as [[Ht Hk] | [sg [w [Hw [Ht Hk]]]]].
    + unfold shape_pv, shape in *. rewrite Ht in *. cbn [vt_bool ty_bool] in *. destruct Hs as [b ->]. split; [eauto|].
      intros fuel cs' cv H1 H2. destruct (Hc fuel cs' cv H1 H2) as [-> ->]. split; reflexivity.
    + destruct (ity_inv _ _ _ Ht) as [h0 Et]. unfold shape_pv, shape in *. rewrite Et in *. cbn [vt_bool vt_w vt_sg ty_h] in *. destruct Hs as [z [-> Hz]].
      split; [exists z; split; [reflexivity|]; split; [exact Hz|]; split; [apply ity_h | exact Hw]|].
      intros fuel cs' cv H1 H2. destruct (Hc fuel cs' cv H1 H2) as [-> ->]. split; [reflexivity|].
      unfold agrees. rewrite Et. reflexivity.
  - exists pv, st'. destruct (H ([], [])) as [S [K _]].
    split; [|split; [exact S|split; [exact K|intros R rem; apply (H (R, rem))]]].
    destruct (lower_expr _ e st) as [[[] s]|]; try discriminate L. injection L as -> ->. reflexivity.
Qed.
Print Assumptions expr_correct.


Theorem expr_correct_unconditional : forall (cfg : config) (rw : regwidth) (IM : string -> bool) (E : cenv) (csub : csubs) xi V e st,
  cfg_fx cfg = all_fixes -> cfg_params cfg = [] -> macs_std (cfg_macros cfg) -> subs_ext (cfg_subs cfg) -> csub_ext csub -> xi_ok xi ->
  lst_ok IM V st -> pfrag rw IM V e ->
  exists pv st', lower_expr cfg e st = OK (IPure pv, st') /\ st_ext st st' /\ lst_ok IM V st' /\
    forall R rem, regs_le (st_regs st') R -> norem rem ->
    forall cs ms, rel IM E V cs ms -> imms_done IM E (st_imms st') cs ms ->
      exists ilv, eval rw ms [] (fin_pure R rem (pv_term pv)) = Some ilv /\ shape_pv pv ilv /\
        forall fuel cs' cv, ceval E csub xi fuel cs e = Some (cs', cv) -> cs' = cs /\ agrees pv cv ilv.
Proof.
  intros cfg rw IM E csub xi V e st Hfx Hpar Hmacs Hsubs Hcsub Hxi Hok Hfrag.
  destruct (expr_correct cfg rw IM E csub xi V e st Hfx Hpar Hmacs Hsubs Hcsub Hxi Hok Hfrag) as [pv [st' [L [S [K H]]]]].
  exists pv, st'. split; [exact L|]. split; [exact S|]. split; [exact K|].
  intros R rem HR Hrem cs ms Hrel Himm. destruct (H R rem HR Hrem cs ms Hrel Himm) as [ilv [He [Hsh Hc]]].
  exists ilv. split; [exact He|]. split; [exact Hsh|].
  intros fuel cs' cv H1. apply (Hc fuel cs' cv H1). exact I.
Qed.
Print Assumptions expr_correct_unconditional.
