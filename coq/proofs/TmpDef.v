(* C06: "temporaries are always written before they are read" as the boolean check the harness evaluates on every
   emitted effect: the syntactic must-analysis tdefS (sem/TmpCheck.v, sound by proofs/TmpCheckProofs.v), bodies of
   known callees included (call depth 4). *)
From Coq Require Import ZArith NArith List Bool String.
From RZ.sem Require Import RzIL TmpCheck.
Import ListNotations.
Local Open Scope string_scope.

Definition tmp_def (subs : subenv) (e : effect) : bool :=
  match tdefS subs 4 [] e with Some _ => true | None => false end.

Definition rd := RIsa "R" "d" false.
Definition nosubs : subenv := fun _ => None.
Example tmp_def_rejects_read_before_write :
  tmp_def nosubs (ESeq (EWriteReg rd (PVarL "h_tmp0")) (ESetL "h_tmp0" (PBv true 32 1))) = false
  /\ tmp_def nosubs (ESeq (EBranch (PBool true) (ESetL "h_tmp0" (PBv true 32 1)) EEmpty) (EWriteReg rd (PVarL "h_tmp0"))) = false
  /\ tmp_def nosubs (ESeq (ERepeat (PBool false) (ESetL "h_tmp0" (PBv true 32 1))) (EWriteReg rd (PVarL "h_tmp0"))) = false.
Proof. repeat split; vm_compute; reflexivity. Qed.
Example tmp_def_accepts_write_then_read :
  tmp_def nosubs (ESeq (ESetL "h_tmp0" (PBv true 32 1)) (EWriteReg rd (PVarL "h_tmp0"))) = true
  /\ tmp_def nosubs (ESeq (EBranch (PBool true) (ESetL "h_tmp0" (PBv true 32 1)) (ESetL "h_tmp0" (PBv true 32 2))) (EWriteReg rd (PVarL "h_tmp0"))) = true
  (* a C local assigned in one arm only is not a temporary: not this clause's business *)
  /\ tmp_def nosubs (ESeq (EBranch (PBool true) (ESetL "a" (PBv true 32 1)) EEmpty) (EWriteReg rd (PVarL "a"))) = true.
Proof. repeat split; vm_compute; reflexivity. Qed.
