(* C06: "temporaries are always written before they are read" as a boolean check on an emitted effect:
   definite assignment (da_effect, proofs/SortSound.v) with every local that is NOT an h_tmpN temporary taken as assigned. *)
From Coq Require Import ZArith NArith List Bool String.
From RZ.sem Require Import RzIL.
From RZ.proofs Require Import SortSound.
Import ListNotations.
Local Open Scope string_scope.

Definition is_htmp (x : string) : bool := String.eqb (substring 0 5 x) "h_tmp".
Definition tmp_def (rw : regwidth) (G0 : lenv) (e : effect) : bool :=
  match wf_effect rw G0 e with
  | Some G' => match da_effect rw (filter (fun p => negb (is_htmp (fst p))) G') e with Some _ => true | None => false end
  | None => true      (* ill-sorted effects are C10's business *)
  end.

(* the check notices a temporary read before its write on a path (else arm) and after a loop that may run zero times; a
   straight-line read before the first write makes wf_effect itself fail (the `sorted` oracle reports that) *)
Definition rw32 : regwidth := fun _ => 32%N.
Definition rd := RIsa "R" "d" false.
Example tmp_def_rejects_read_before_write :
  wf_effect rw32 [] (ESeq (EWriteReg rd (PVarL "h_tmp0")) (ESetL "h_tmp0" (PBv true 32 1))) = None
  /\ tmp_def rw32 [] (ESeq (EBranch (PBool true) (ESetL "h_tmp0" (PBv true 32 1)) EEmpty) (EWriteReg rd (PVarL "h_tmp0"))) = false
  /\ tmp_def rw32 [] (ESeq (ERepeat (PBool false) (ESetL "h_tmp0" (PBv true 32 1))) (EWriteReg rd (PVarL "h_tmp0"))) = false.
Proof. repeat split; vm_compute; reflexivity. Qed.
Example tmp_def_accepts_write_then_read :
  tmp_def rw32 [] (ESeq (ESetL "h_tmp0" (PBv true 32 1)) (EWriteReg rd (PVarL "h_tmp0"))) = true
  /\ tmp_def rw32 [] (ESeq (EBranch (PBool true) (ESetL "h_tmp0" (PBv true 32 1)) (ESetL "h_tmp0" (PBv true 32 2))) (EWriteReg rd (PVarL "h_tmp0"))) = true
  (* a C local assigned in one arm only is not a temporary: not this clause's business *)
  /\ tmp_def rw32 [] (ESeq (EBranch (PBool true) (ESetL "a" (PBv true 32 1)) EEmpty) (EWriteReg rd (PVarL "a"))) = true.
Proof. repeat split; vm_compute; reflexivity. Qed.
