(* Vocabulary for refutation witnesses: a program (AST) and an initial state (seed of
   sem/Diff.env_of_seed) on which the FAITHFUL model's translation and the C semantics disagree. *)
From Coq Require Import ZArith NArith List Bool String.
From RZ.sem Require Import RzIL CSem Diff.
From RZ.model Require Import Ast Types OpTables Lower Guards.
From RZ.gen Require Import Resources.
Import ListNotations.
Local Open Scope string_scope.
Local Open Scope Z_scope.

Definition fuel0 : nat := 400.
Definition verdict_of (c : config) (p : cstmts) (seed : Z) : option verdict :=
  match tlower c p with
  | OK (e, _) => Some (run_one xi csub_table ilsub_table fuel0 p e seed)
  | Err _ => None
  end.
(* the translation is accepted, C defines the result, the IL computes something else (or gets stuck: ill-sorted) *)
Definition mistranslated (p : cstmts) (seed : Z) : Prop :=
  verdict_of (cfg_insn 0) p seed = Some Differ \/ verdict_of (cfg_insn 0) p seed = Some ILStuck.
(* on this state the translation agrees with C *)
Definition translated_ok_on (c : config) (p : cstmts) (seed : Z) : Prop := verdict_of c p seed = Some Agree.

Definition repaired (c : config) : config := with_fx all_fixes c.

(* the semantic statement the properties C01-C03, C05, C06, C08, C09 are instances of: for every
   accepted program of the class and every initial state on which C defines the outcome, the
   emitted effect computes that outcome *)
Definition faithful_on (class : cstmts -> Prop) : Prop :=
  forall p seed, class p ->
    match verdict_of (cfg_insn 0) p seed with
    | Some Differ | Some ILStuck => False
    | _ => True
    end.
Lemma refute (class : cstmts -> Prop) p seed : class p -> mistranslated p seed -> ~ faithful_on class.
Proof.
  intros Hc [H|H] F; specialize (F p seed Hc); rewrite H in F; exact F.
Qed.
