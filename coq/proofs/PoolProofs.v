(* Schedule independence of the worker-pool model (model/Pool.v):
   for every number of workers and every schedule, the consumer receives exactly `map f tasks`, in order;
   the pool never deadlocks; a changed task only changes its own result slot. *)
From Coq Require Import List Arith Lia Permutation.
From RZ.model Require Import Pool.
Import ListNotations.

(* ---------- generic list lemmas ---------- *)

Lemma skipn_cons_nth : forall (A : Type) k (l : list A) t rest,
  skipn k l = t :: rest -> nth_error l k = Some t /\ skipn (S k) l = rest.
Proof.
  intros A k. induction k as [|k IH]; intros l t rest H.
  - destruct l as [|a l]; simpl in H; [discriminate|]. inversion H; subst. split; reflexivity.
  - destruct l as [|a l]; simpl in H; [discriminate|]. apply IH in H. exact H.
Qed.

Lemma firstn_S_nth : forall (A : Type) n (l : list A) t,
  nth_error l n = Some t -> firstn (S n) l = firstn n l ++ [t].
Proof.
  intros A n. induction n as [|n IH]; intros l t H.
  - destruct l as [|a l]; simpl in H; [discriminate|]. inversion H; subst. reflexivity.
  - destruct l as [|a l]; simpl in H; [discriminate|].
    change (firstn (S (S n)) (a :: l)) with (a :: firstn (S n) l).
    rewrite (IH l t H). reflexivity.
Qed.

Lemma perm_move : forall (A : Type) (X Y Z : list A) i,
  Permutation ((X ++ i :: Y) ++ Z) ((X ++ Y) ++ i :: Z).
Proof.
  intros A X Y Z i.
  transitivity (i :: (X ++ Y) ++ Z).
  - symmetry. rewrite <- !app_assoc. simpl. apply Permutation_middle.
  - apply Permutation_middle.
Qed.

(* pigeonhole: len distinct numbers in [a, a+len) with len > 0 contain a *)
Lemma pigeon_first : forall (l : list nat) a,
  NoDup l -> (forall x, In x l -> a <= x < a + length l) -> l <> [] -> In a l.
Proof.
  intros l a Hnd Hr Hne.
  destruct (in_dec Nat.eq_dec a l) as [Hin|Hnin]; [exact Hin|exfalso].
  assert (Hincl : incl l (seq (S a) (length l - 1))).
  { intros x Hx. apply in_seq. specialize (Hr x Hx).
    assert (x <> a) by (intro; subst; contradiction). lia. }
  pose proof (NoDup_incl_length Hnd Hincl) as Hlen.
  rewrite seq_length in Hlen.
  destruct l as [|y l]; [congruence|]. simpl in Hlen. lia.
Qed.

Ltac split_conj := repeat match goal with |- _ /\ _ => split end.

Section PoolProofs.
  Variables task result : Type.
  Variable f : task -> result.

  Notation cfg := (cfg task result).
  Notation step := (step task result f).
  Notation steps := (steps task result f).
  Notation init := (init task result).
  Notation final := (final task result).
  Notation queue := (queue task result).
  Notation running := (running task result).
  Notation buffer := (buffer task result).
  Notation next := (next task result).
  Notation acc := (acc task result).
  Notation index_from := (index_from task).

  (* indices of the tasks in flight (dispatched, result not yet delivered) *)
  Definition ids (c : cfg) : list nat := map fst (running c) ++ map fst (buffer c).

  (* k = number of tasks dispatched so far *)
  Definition inv_at (tasks : list task) (c : cfg) (k : nat) : Prop :=
    queue c = index_from k (skipn k tasks) /\
    k <= length tasks /\
    acc c = map f (firstn (next c) tasks) /\
    (forall i t, In (i, t) (running c) -> nth_error tasks i = Some t) /\
    (forall i x, In (i, x) (buffer c) -> exists t, nth_error tasks i = Some t /\ x = f t) /\
    NoDup (ids c) /\
    (forall i, In i (ids c) -> next c <= i < k) /\
    next c + length (ids c) = k.

  Definition inv (tasks : list task) (c : cfg) : Prop := exists k, inv_at tasks c k.

  Lemma inv_init : forall tasks, inv tasks (init tasks).
  Proof.
    intros tasks. exists 0. unfold inv_at, ids, Pool.init; simpl.
    repeat split; try lia; try constructor; try contradiction.
  Qed.

  Lemma index_from_nil : forall k l, index_from k l = [] -> l = [].
  Proof. intros k l H. destruct l; [reflexivity|discriminate]. Qed.

  Lemma inv_step : forall workers tasks c c', inv tasks c -> step workers c c' -> inv tasks c'.
  Proof.
    intros workers tasks c c' [k Hinv] Hstep.
    destruct Hstep as [i t q r b n a Hlt | q r1 i t r2 b n a | q r b1 x b2 n a];
      unfold inv_at, ids in Hinv; simpl in Hinv;
      destruct Hinv as (Hq & Hk & Hacc & Hrun & Hbuf & Hnd & Hrange & Hcount).
    - (* Dispatch *)
      destruct (skipn k tasks) as [|t0 rest] eqn:Hsk; simpl in Hq; [discriminate|].
      inversion Hq; subst i t0 q. clear Hq.
      destruct (skipn_cons_nth _ _ _ _ _ Hsk) as [Hnth Hsk'].
      assert (HkS : k < length tasks) by (apply nth_error_Some; congruence).
      exists (S k). unfold inv_at, ids; cbn [Pool.queue Pool.running Pool.buffer Pool.next Pool.acc map fst].
      assert (Hperm : Permutation (map fst (r ++ [(k, t)]) ++ map fst b) (k :: map fst r ++ map fst b)).
      { rewrite map_app. simpl.
        replace (k :: map fst r ++ map fst b) with ((k :: map fst r) ++ map fst b) by reflexivity.
        apply Permutation_app_tail. symmetry. apply Permutation_cons_append. }
      split_conj.
      + rewrite Hsk'. reflexivity.
      + lia.
      + exact Hacc.
      + intros i t' Hin. apply in_app_or in Hin. destruct Hin as [Hin|[Hin|[]]].
        * eauto.
        * inversion Hin; subst. exact Hnth.
      + exact Hbuf.
      + apply (Permutation_NoDup (Permutation_sym Hperm)). constructor; [|exact Hnd].
        intro Hin. apply Hrange in Hin. lia.
      + intros i H. apply (Permutation_in _ Hperm) in H. destruct H as [H|H]; [subst; lia|].
        apply Hrange in H. lia.
      + rewrite (Permutation_length Hperm). simpl. lia.
    - (* Complete *)
      exists k. unfold inv_at, ids; cbn [Pool.queue Pool.running Pool.buffer Pool.next Pool.acc map fst].
      assert (Hperm : Permutation (map fst (r1 ++ (i, t) :: r2) ++ map fst b)
                                  (map fst (r1 ++ r2) ++ i :: map fst b)).
      { rewrite !map_app. simpl. apply perm_move. }
      split_conj.
      + exact Hq.
      + exact Hk.
      + exact Hacc.
      + intros i' t' Hin. apply (Hrun i' t'). apply in_app_or in Hin. apply in_or_app.
        destruct Hin as [Hin|Hin]; [left; exact Hin|right; right; exact Hin].
      + intros i' x [Heq|Hin].
        * inversion Heq; subst. exists t. split; [|reflexivity].
          apply Hrun. apply in_or_app. right. left. reflexivity.
        * eauto.
      + apply (Permutation_NoDup Hperm). exact Hnd.
      + intros i' H. apply (Permutation_in _ (Permutation_sym Hperm)) in H. apply Hrange in H. lia.
      + rewrite <- (Permutation_length Hperm). exact Hcount.
    - (* Yield *)
      exists k. unfold inv_at, ids; cbn [Pool.queue Pool.running Pool.buffer Pool.next Pool.acc map fst].
      assert (Hperm : Permutation (map fst r ++ map fst (b1 ++ (n, x) :: b2))
                                  (n :: map fst r ++ map fst (b1 ++ b2))).
      { rewrite !map_app. simpl. rewrite !app_assoc. symmetry. apply Permutation_middle. }
      pose proof (Permutation_NoDup Hperm Hnd) as Hnd'.
      inversion Hnd' as [|n0 l0 Hnotin Hnd'']; subst n0 l0.
      assert (Hr' : forall i, In i (map fst r ++ map fst (b1 ++ b2)) -> S n <= i < k).
      { intros i Hin.
        assert (i <> n) by (intro; subst; contradiction).
        assert (Hin' : In i (n :: map fst r ++ map fst (b1 ++ b2))) by (right; exact Hin).
        apply (Permutation_in _ (Permutation_sym Hperm)) in Hin'. apply Hrange in Hin'. lia. }
      destruct (Hbuf n x) as (t & Hnth & Hx).
      { apply in_or_app. right. left. reflexivity. }
      split_conj.
      + exact Hq.
      + exact Hk.
      + rewrite (firstn_S_nth _ _ _ _ Hnth), map_app, Hacc, Hx. reflexivity.
      + exact Hrun.
      + intros i' x' Hin. apply (Hbuf i' x'). apply in_app_or in Hin. apply in_or_app.
        destruct Hin as [Hin|Hin]; [left; exact Hin|right; right; exact Hin].
      + exact Hnd''.
      + exact Hr'.
      + pose proof (Permutation_length Hperm) as Hl. simpl in Hl. lia.
  Qed.

  Lemma inv_steps : forall workers tasks c c', steps workers c c' -> inv tasks c -> inv tasks c'.
  Proof.
    intros workers tasks c c' H. induction H as [c|c1 c2 c3 Hs _ IH]; intros Hinv.
    - exact Hinv.
    - apply IH. eapply inv_step; eauto.
  Qed.

  Lemma inv_reachable : forall workers tasks c, steps workers (init tasks) c -> inv tasks c.
  Proof. intros workers tasks c H. eapply inv_steps; [exact H|apply inv_init]. Qed.

  (* 1. every schedule, every number of workers: the consumer received the sequential map *)
  Theorem pool_sequential : forall workers tasks c,
    steps workers (init tasks) c -> final c -> acc c = map f tasks.
  Proof.
    intros workers tasks c Hsteps (Hq & Hr & Hb).
    destruct (inv_reachable _ _ _ Hsteps) as [k Hinv].
    unfold inv_at, ids in Hinv.
    destruct Hinv as (Hq' & Hk & Hacc & _ & _ & _ & _ & Hcount).
    rewrite Hr, Hb in Hcount. simpl in Hcount.
    rewrite Hq in Hq'. symmetry in Hq'. apply index_from_nil in Hq'.
    assert (Hlen : length (skipn k tasks) = 0) by (rewrite Hq'; reflexivity).
    rewrite skipn_length in Hlen.
    rewrite Hacc. rewrite firstn_all2 by lia. reflexivity.
  Qed.

  (* 2. no deadlock *)
  Theorem pool_progress : forall workers tasks c,
    workers >= 1 -> steps workers (init tasks) c -> ~ final c -> exists c', step workers c c'.
  Proof.
    intros workers tasks c Hw Hsteps Hnf.
    destruct (inv_reachable _ _ _ Hsteps) as [k Hinv].
    destruct c as [q r b n a]. unfold inv_at, ids in Hinv; simpl in Hinv.
    destruct Hinv as (_ & _ & _ & _ & _ & Hnd & Hrange & Hcount).
    destruct r as [|[i t] r].
    - destruct q as [|[i t] q].
      + destruct b as [|p b].
        * exfalso. apply Hnf. repeat split.
        * (* only buffered results remain: the one with index `next` is among them *)
          simpl in Hnd, Hrange, Hcount.
          assert (Hin : In n (map fst (p :: b))).
          { apply pigeon_first.
            - exact Hnd.
            - intros x Hx. specialize (Hrange x Hx). simpl. simpl in Hcount. lia.
            - discriminate. }
          apply in_map_iff in Hin. destruct Hin as ([n' x] & Hfst & Hin). simpl in Hfst. subst n'.
          apply in_split in Hin. destruct Hin as (b1 & b2 & Hb). rewrite Hb.
          eexists. apply Yield.
      + eexists. apply Dispatch. simpl. lia.
    - eexists. apply (Complete task result f workers q [] i t r b n a).
  Qed.

  (* 5. one result per task *)
  Theorem one_entry_per_task : forall workers tasks c,
    steps workers (init tasks) c -> final c -> length (acc c) = length tasks.
  Proof.
    intros workers tasks c Hs Hf. rewrite (pool_sequential _ _ _ Hs Hf). apply map_length.
  Qed.

  (* 4. a changed (e.g. failing) task only changes its own slot *)
  Theorem failure_isolated : forall workers tasks1 t t' tasks2 c c',
    steps workers (init (tasks1 ++ t :: tasks2)) c -> final c ->
    steps workers (init (tasks1 ++ t' :: tasks2)) c' -> final c' ->
    acc c = map f (tasks1 ++ t :: tasks2) /\
    acc c' = map f (tasks1 ++ t' :: tasks2) /\
    forall j, j <> length tasks1 -> nth_error (acc c) j = nth_error (acc c') j.
  Proof.
    intros workers tasks1 t t' tasks2 c c' Hs Hf Hs' Hf'.
    pose proof (pool_sequential _ _ _ Hs Hf) as H1.
    pose proof (pool_sequential _ _ _ Hs' Hf') as H2.
    split; [exact H1|]. split; [exact H2|].
    intros j Hj. rewrite H1, H2, !map_app.
    destruct (Nat.lt_ge_cases j (length tasks1)) as [Hlt|Hge].
    - rewrite !nth_error_app1 by (rewrite map_length; exact Hlt). reflexivity.
    - rewrite !nth_error_app2 by (rewrite map_length; exact Hge).
      rewrite map_length.
      destruct (j - length tasks1) as [|m] eqn:Hm; [lia|]. reflexivity.
  Qed.
End PoolProofs.

Print Assumptions pool_progress.
Print Assumptions one_entry_per_task.
Print Assumptions failure_isolated.

(* 6. a concrete run: 2 workers, 3 tasks, task 1 completes before task 0 (at `cmid` the buffer holds
   only the result of task 1 while task 0 is still running); the consumer still gets the results in order. *)
Example reorder_run :
  exists cmid c,
    steps nat nat S 2 (init nat nat [10; 20; 30]) cmid /\
    running nat nat cmid = [(0, 10)] /\ buffer nat nat cmid = [(1, 21)] /\ next nat nat cmid = 0 /\
    steps nat nat S 2 cmid c /\
    final nat nat c /\ acc nat nat c = [11; 21; 31].
Proof.
  exists (mkcfg nat nat [(2, 30)] [(0, 10)] [(1, 21)] 0 []).
  exists (mkcfg nat nat [] [] [] 3 [11; 21; 31]).
  split; [|split; [reflexivity|split; [reflexivity|split; [reflexivity|split]]]].
  - unfold init; simpl.
    eapply steps_cons. { apply Dispatch. simpl. lia. } simpl.
    eapply steps_cons. { apply Dispatch. simpl. lia. } simpl.
    eapply steps_cons. { apply (Complete nat nat S 2 [(2, 30)] [(0, 10)] 1 20 [] [] 0 []). } simpl.
    apply steps_refl.
  - eapply steps_cons. { apply Dispatch. simpl. lia. } simpl.
    eapply steps_cons. { apply (Complete nat nat S 2 [] [] 0 10 [(2, 30)] [(1, 21)] 0 []). } simpl.
    eapply steps_cons. { apply (Yield nat nat S 2 [] [(2, 30)] [] 11 [(1, 21)] 0 []). } simpl.
    eapply steps_cons. { apply (Yield nat nat S 2 [] [(2, 30)] [] 21 [] 1 [11]). } simpl.
    eapply steps_cons. { apply (Complete nat nat S 2 [] [] 2 30 [] [] 2 [11; 21]). } simpl.
    eapply steps_cons. { apply (Yield nat nat S 2 [] [] [] 31 [] 2 [11; 21]). } simpl.
    apply steps_refl.
  - split; [unfold final; simpl; repeat split|reflexivity].
Qed.

Print Assumptions reorder_run.
Print Assumptions pool_sequential.
