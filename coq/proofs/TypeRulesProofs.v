(* Proofs about the REGENERATED gen/TypeRules.v (c11_cast, promoted_type as translated from
   ValueType.py on this run). *)
From Coq Require Import NArith List Bool Lia ZifyBool ZifyN.
From RZ.lib Require Import PyHeap.
From RZ.sem Require Import CTypesN.
From RZ.gen Require Import TypeRules.
Import ListNotations.
Local Open Scope N_scope.

Lemma uac_sym a b : uac a b = uac b a.
Proof.
  unfold uac. destruct a as [sa wa], b as [sb wb]; cbn [vsigned vbw].
  destruct sa, sb; cbn [Bool.eqb]; try (f_equal; lia);
  repeat match goal with |- context [?x <=? ?y] => destruct (N.leb_spec x y) end; try reflexivity; try lia; f_equal; lia.
Qed.

Theorem c11_cast_spec : forall h a b, (a < length h)%nat -> (b < length h)%nat ->
  let '(h', (ra, rb)) := c11_cast h a b in
  rd h' ra = uac (rd h a) (rd h b) /\ rd h' rb = uac (rd h a) (rd h b) /\ same_old h h'
  /\ (length h <= length h')%nat.
Proof.
  intros h a b Ha Hb. unfold c11_cast, same_old.
  remember (rd h a) as A eqn:Ea. remember (rd h b) as B eqn:Eb.
  destruct (Bool.eqb (vsigned A) (vsigned B) && (vbw A =? vbw B)) eqn:E1.
  - apply andb_prop in E1 as [E1 E2]. apply eqb_prop in E1. apply N.eqb_eq in E2.
    rewrite <- Ea, <- Eb. unfold uac. rewrite E1, eqb_reflx, E2, N.max_id.
    destruct A, B; simpl in *; subst; auto.
  - unfold deepcopy, alloc. rewrite <- Ea.
    set (h1 := h ++ [A]).
    assert (L1: length h1 = S (length h)) by (unfold h1; rewrite app_length; simpl; lia).
    assert (Eb1 : rd h1 b = B) by (unfold h1; rewrite rd_app_old by lia; auto).
    rewrite Eb1. set (h2 := h1 ++ [B]).
    assert (L2: length h2 = S (S (length h))) by (unfold h2; rewrite app_length; simpl; lia).
    assert (Ra: rd h2 (length h) = A).
    { unfold h2. rewrite rd_app_old by lia. unfold h1. apply rd_app_new. }
    assert (Rb: rd h2 (length h1) = B) by apply rd_app_new.
    assert (Old: forall l, (l < length h)%nat -> rd h2 l = rd h l).
    { intros. unfold h2, h1. rewrite !rd_app_old; auto; rewrite ?app_length; simpl; lia. }
    rewrite L1 in *. clearbody h2 h1. clear Ea Eb Eb1.
    destruct A as [sa wa], B as [sb wb]; cbn [vsigned vbw] in *.
    destruct (Bool.eqb sa sb) eqn:Es.
    + apply eqb_prop in Es; subst sb. simpl in E1. rewrite Ra, Rb. cbn [vbw].
      destruct (wa <? wb) eqn:Ew; unfold set_bw; rewrite ?Ra, ?Rb; cbn [vsigned vbw];
      (split; [|split; [|split]]); intros; rewrite ?len_upd; try lia;
      rewrite ?rd_upd_same, ?rd_upd_other by lia; rewrite ?Ra, ?Rb, ?Old by lia; auto;
      unfold uac; cbn; rewrite eqb_reflx; f_equal; lia.
    + rewrite Ra. cbn [vsigned].
      destruct sa, sb; try discriminate; cbn [vsigned vbw];
      rewrite ?Ra, ?Rb; cbn [vbw];
      match goal with |- context [?x <=? ?y] => destruct (x <=? y) eqn:Ew end;
      unfold set_signed, set_bw; cbn [vsigned vbw];
      (split; [|split; [|split]]); intros; rewrite ?len_upd; try lia;
      repeat (rewrite ?rd_upd_same, ?rd_upd_other, ?len_upd by (rewrite ?len_upd; lia); cbn [vsigned vbw]);
      rewrite ?Ra, ?Rb, ?Old by lia; auto; unfold uac; cbn; rewrite ?Ew; auto.
Qed.

(* symmetric: swapping the arguments yields the same common type for both results *)
Theorem c11_cast_sym : forall h a b, (a < length h)%nat -> (b < length h)%nat ->
  let '(h1, (ra, _)) := c11_cast h a b in
  let '(h2, (rb, _)) := c11_cast h b a in
  rd h1 ra = rd h2 rb.
Proof.
  intros h a b Ha Hb.
  pose proof (c11_cast_spec h a b Ha Hb) as S1. pose proof (c11_cast_spec h b a Hb Ha) as S2.
  destruct (c11_cast h a b) as [h1 [ra rb]]. destruct (c11_cast h b a) as [h2 [rb' ra']].
  destruct S1 as [S1 _]. destruct S2 as [S2 _]. rewrite S1, S2. apply uac_sym.
Qed.

(* aliased arguments (a is b): both results are the very same object, nothing is allocated *)
Theorem c11_cast_alias : forall h a, c11_cast h a a = (h, (a, a)).
Proof.
  intros h a. unfold c11_cast. rewrite eqb_reflx, N.eqb_refl. reflexivity.
Qed.

Theorem promoted_spec : forall h a, (a < length h)%nat ->
  let '(h', r) := promoted_type h a in
  rd h' r = promote (rd h a) /\ same_old h h'
  /\ (32 <= vbw (rd h a) -> r = a /\ h' = h).
Proof.
  intros h a Ha. unfold promoted_type, promote, same_old.
  destruct (32 <=? vbw (rd h a)) eqn:E.
  - assert (vbw (rd h a) <? 32 = false) as -> by lia. auto.
  - assert (vbw (rd h a) <? 32 = true) as -> by lia. unfold alloc.
    split; [apply rd_app_new|]. split; [intros; apply rd_app_old; auto | lia].
Qed.

(* non-vacuity: a concrete heap with two distinct live objects meets the hypotheses *)
Example c11_cast_example :
  let h := [ {| vsigned := true; vbw := 8 |}; {| vsigned := false; vbw := 8 |} ] in
  let '(h', (ra, rb)) := c11_cast h 0%nat 1%nat in
  rd h' ra = {| vsigned := false; vbw := 8 |} /\ rd h' 0%nat = {| vsigned := true; vbw := 8 |}.
Proof. vm_compute. auto. Qed.
