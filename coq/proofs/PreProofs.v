(* Proofs, for ALL strings, about the two regex-based string functions of the preprocessor model
   (model/Pre.v): split_resolved (re.search of the "insn" line pattern) and split_compounds
   (re.match of the compound-marker pattern), plus load_line.
   Every theorem is about the GENERATED regex terms of gen/Regexes.v. *)
From Coq Require Import List Ascii String Bool Arith Lia.
From RZ.lib Require Import Regex.
From RZ.gen Require Import Regexes.
From RZ.model Require Import Pre.
Import ListNotations.
Local Open Scope char_scope.
Local Open Scope list_scope.

(* ------------------------------------------------------------------------------------------ *)
(* 1. literals: prefix_lit / starts_with / contains                                            *)
(* ------------------------------------------------------------------------------------------ *)

Lemma prefix_lit_app : forall l s, prefix_lit l (l ++ s) = Some s.
Proof.
  induction l as [|c l IH]; intros s; cbn; [reflexivity|].
  rewrite Ascii.eqb_refl. apply IH.
Qed.

Lemma prefix_lit_inv : forall l s s', prefix_lit l s = Some s' -> s = l ++ s'.
Proof.
  induction l as [|c l IH]; intros s s' H; cbn in *.
  - congruence.
  - destruct s as [|d s]; [discriminate|].
    destruct (Ascii.eqb_spec c d) as [->|]; [|discriminate].
    f_equal. apply IH. exact H.
Qed.

Lemma starts_with_app : forall l s, starts_with l (l ++ s) = true.
Proof.
  induction l as [|c l IH]; intros s; cbn; [reflexivity|].
  rewrite Ascii.eqb_refl. apply IH.
Qed.

Lemma starts_with_inv : forall l s, starts_with l s = true -> exists s', s = l ++ s'.
Proof.
  induction l as [|c l IH]; intros s H; cbn in *.
  - eauto.
  - destruct s as [|d s]; [discriminate|].
    apply andb_true_iff in H. destruct H as [H1 H2].
    apply Ascii.eqb_eq in H1. subst d.
    destruct (IH _ H2) as [s' ->]. eauto.
Qed.

Lemma prefix_lit_starts : forall l s s', prefix_lit l s = Some s' -> starts_with l s = true.
Proof. intros l s s' H. apply prefix_lit_inv in H. subst s. apply starts_with_app. Qed.

Lemma starts_prefix_lit : forall l s, starts_with l s = true -> exists s', prefix_lit l s = Some s'.
Proof. intros l s H. destruct (starts_with_inv _ _ H) as [s' ->]. exists s'. apply prefix_lit_app. Qed.

Lemma prefix_lit_none : forall l s, starts_with l s = false -> prefix_lit l s = None.
Proof.
  intros l s H. destruct (prefix_lit l s) eqn:E; [|reflexivity].
  apply prefix_lit_starts in E. congruence.
Qed.

Lemma starts_with_length : forall l s, starts_with l s = true -> List.length l <= List.length s.
Proof. intros l s H. destruct (starts_with_inv _ _ H) as [s' ->]. rewrite app_length. lia. Qed.

(* an occurrence at a suffix is an occurrence *)
Lemma contains_suffix : forall l u s, starts_with l s = true -> contains l (u ++ s) = true.
Proof.
  intros l u s H. induction u as [|a u IH]; cbn [app].
  - destruct s; cbn [contains]; rewrite H; reflexivity.
  - cbn [contains]. rewrite IH. apply orb_true_r.
Qed.

Lemma contains_app_r : forall l u s, contains l s = true -> contains l (u ++ s) = true.
Proof.
  intros l u s H. induction u as [|a u IH]; cbn [app]; [exact H|].
  cbn [contains]. rewrite IH. apply orb_true_r.
Qed.

Lemma contains_inv : forall l s, contains l s = true -> exists u v, s = u ++ v /\ starts_with l v = true.
Proof.
  intros l s. induction s as [|a s IH]; intros H.
  - cbn in H. rewrite orb_false_r in H. exists [], []. auto.
  - cbn [contains] in H. apply orb_true_iff in H. destruct H as [H|H].
    + exists [], (a :: s). auto.
    + destruct (IH H) as (u & v & -> & Hv). exists (a :: u), v. auto.
Qed.

(* a literal that does not contain the character c cannot straddle an occurrence of c *)
Lemma starts_with_cut : forall l x c y,
  existsb (Ascii.eqb c) l = false -> starts_with l (x ++ c :: y) = true -> starts_with l x = true.
Proof.
  induction l as [|d l IH]; intros x c y Hc H; [reflexivity|].
  cbn [existsb] in Hc. apply orb_false_iff in Hc. destruct Hc as [Hcd Hc].
  destruct x as [|a x]; cbn [app starts_with] in *.
  - apply andb_true_iff in H. destruct H as [H _]. apply Ascii.eqb_eq in H. subst d.
    rewrite Ascii.eqb_refl in Hcd. discriminate.
  - apply andb_true_iff in H. destruct H as [H1 H2]. rewrite H1. cbn. eapply IH; eauto.
Qed.

Lemma contains_cut : forall l x c y,
  existsb (Ascii.eqb c) l = false -> l <> [] ->
  contains l (x ++ c :: y) = true -> contains l x = true \/ contains l y = true.
Proof.
  intros l x c y Hc Hl. induction x as [|a x IH]; cbn [app]; intros H.
  - cbn [contains] in H. apply orb_true_iff in H. destruct H as [H|H]; [|auto].
    apply (starts_with_cut l [] c y Hc) in H. destruct l; [congruence|discriminate].
  - cbn [contains] in H. apply orb_true_iff in H. destruct H as [H|H].
    + left. apply (starts_with_cut l (a :: x) c y Hc) in H. cbn [contains]. rewrite H. reflexivity.
    + destruct (IH H) as [H'|H']; [left|right; exact H'].
      cbn [contains]. rewrite H'. apply orb_true_r.
Qed.

Lemma contains_cut_false : forall l x c y,
  existsb (Ascii.eqb c) l = false -> l <> [] ->
  contains l x = false -> contains l y = false -> contains l (x ++ c :: y) = false.
Proof.
  intros l x c y Hc Hl Hx Hy. destruct (contains l (x ++ c :: y)) eqn:E; [|reflexivity].
  destruct (contains_cut _ _ _ _ Hc Hl E); congruence.
Qed.

(* a literal starting with c cannot start inside a block free of c *)
Lemma contains_skip : forall c l a z,
  existsb (Ascii.eqb c) a = false -> contains (c :: l) (a ++ z) = contains (c :: l) z.
Proof.
  intros c l a z. induction a as [|d a IH]; intros H; [reflexivity|].
  cbn [existsb] in H. apply orb_false_iff in H. destruct H as [H1 H2].
  cbn [app contains starts_with]. rewrite H1. cbn. apply IH. exact H2.
Qed.

Lemma contains_tail : forall c l z, contains (c :: l) z = true -> contains l z = true.
Proof.
  intros c l z H. destruct (contains_inv _ _ H) as (u & v & -> & Hv).
  destruct v as [|d v]; [discriminate|]. cbn [starts_with] in Hv.
  apply andb_true_iff in Hv. destruct Hv as [_ Hv].
  replace (u ++ d :: v) with ((u ++ [d]) ++ v) by (rewrite <- app_assoc; reflexivity).
  apply contains_suffix. exact Hv.
Qed.

(* ------------------------------------------------------------------------------------------ *)
(* 2. list bookkeeping                                                                         *)
(* ------------------------------------------------------------------------------------------ *)

Lemma firstn_len_app : forall (a b : str), firstn (List.length (a ++ b) - List.length b) (a ++ b) = a.
Proof.
  intros a b. rewrite app_length. replace (List.length a + List.length b - List.length b) with (List.length a + 0) by lia.
  rewrite firstn_app_2. cbn. apply app_nil_r.
Qed.

Lemma app_suffix_len : forall (a b c d : str),
  a ++ b = c ++ d -> List.length a <= List.length c -> exists w, b = w ++ d.
Proof.
  induction a as [|x a IH]; intros b c d H Hl.
  - exists c. exact H.
  - destruct c as [|y c]; [cbn in Hl; lia|].
    cbn in H. injection H as _ H. apply (IH _ _ _ H). cbn in Hl. lia.
Qed.

(* ------------------------------------------------------------------------------------------ *)
(* 3. the greedy star                                                                          *)
(* ------------------------------------------------------------------------------------------ *)

Definition stops (p : ascii -> bool) (rest : str) : Prop :=
  match rest with [] => True | c :: _ => p c = false end.

Definition ptrue (p : ascii -> bool) (xs : str) : Prop := Forall (fun c => p c = true) xs.

(* the continuation fails at every position strictly to the right of the start of ys *)
Definition fail (k : str -> option caps) (ys rest : str) : Prop :=
  forall u v, ys = u ++ v -> u <> [] -> k (v ++ rest) = None.
(* ... at every position of ys, its start and its end included *)
Definition allfail (k : str -> option caps) (ys rest : str) : Prop :=
  forall u v, ys = u ++ v -> k (v ++ rest) = None.

Lemma fail_nil : forall k rest, fail k [] rest.
Proof. intros k rest u v H Hu. destruct u; [congruence|discriminate]. Qed.

Lemma fail_cons : forall k y ys rest, allfail k ys rest -> fail k (y :: ys) rest.
Proof.
  intros k y ys rest H u v E Hu. destruct u as [|a u]; [congruence|].
  cbn in E. injection E as _ E. eapply H; eauto.
Qed.

Lemma fail_app : forall k a b rest, fail k a (b ++ rest) -> fail k b rest -> fail k (a ++ b) rest.
Proof.
  intros k a b rest Ha Hb u v E Hu.
  apply app_eq_app in E. destruct E as [l [[-> ->]|[-> ->]]].
  - rewrite <- app_assoc. apply (Ha u l eq_refl Hu).
  - (* the cut is inside b (or at its start) *)
    destruct l as [|c l].
    + rewrite app_nil_r in Hu. cbn [app]. apply (Ha a [] (eq_sym (app_nil_r a)) Hu).
    + apply (Hb (c :: l) v eq_refl). discriminate.
Qed.

Lemma fail_single : forall k y rest, k rest = None -> fail k [y] rest.
Proof.
  intros k y rest H. apply fail_cons. intros u v E.
  destruct u; destruct v; try discriminate. exact H.
Qed.

(* star over a block where the continuation never succeeds: falls through to the block start *)
Lemma star_g_fall : forall p ys rest k,
  ptrue p ys -> stops p rest -> fail k ys rest -> star_g p (ys ++ rest) k = k (ys ++ rest).
Proof.
  intros p ys rest k Hp Hs. induction Hp as [|y ys Hy Hp IH]; intros Hf.
  - cbn [app]. destruct rest as [|c rest]; [reflexivity|]. cbn in Hs. cbn [star_g]. rewrite Hs. reflexivity.
  - cbn [app star_g]. rewrite Hy. rewrite IH.
    + rewrite (Hf [y] ys eq_refl); [reflexivity|discriminate].
    + intros u v E Hu. apply (Hf (y :: u) v); [cbn; congruence|discriminate].
Qed.

(* THE greedy lemma: the result is that of the continuation at the rightmost position where it succeeds *)
Lemma star_g_rightmost : forall p xs ys rest k r,
  ptrue p xs -> ptrue p ys -> stops p rest -> fail k ys rest -> k (ys ++ rest) = Some r ->
  star_g p (xs ++ ys ++ rest) k = Some r.
Proof.
  intros p xs ys rest k r Hx Hy Hs Hf Hk. induction Hx as [|x xs Hpx Hx IH].
  - cbn [app]. rewrite star_g_fall; assumption.
  - cbn [app star_g]. rewrite Hpx, IH. reflexivity.
Qed.

(* the two instances quoted in the task *)
Lemma star_g_all : forall p xs rest k r,
  ptrue p xs -> stops p rest -> k rest = Some r -> star_g p (xs ++ rest) k = Some r.
Proof.
  intros p xs rest k r Hx Hs Hk.
  apply (star_g_rightmost p xs [] rest k r Hx (Forall_nil _) Hs (fail_nil _ _) Hk).
Qed.

Lemma star_g_back1 : forall p xs x rest k r,
  ptrue p xs -> p x = true -> stops p rest -> k rest = None -> k (x :: rest) = Some r ->
  star_g p (xs ++ x :: rest) k = Some r.
Proof.
  intros p xs x rest k r Hx Hpx Hs Hn Hk.
  apply (star_g_rightmost p xs [x] rest k r Hx); auto.
  - constructor; [exact Hpx|constructor].
  - apply fail_single. exact Hn.
Qed.

(* inversion: a successful star consumed a block of p-characters *)
Lemma star_g_inv : forall p s k r, star_g p s k = Some r ->
  exists xs rest, s = xs ++ rest /\ ptrue p xs /\ k rest = Some r.
Proof.
  intros p s k r. induction s as [|c s IH]; cbn [star_g]; intros H.
  - exists [], []. repeat split; [constructor|exact H].
  - destruct (p c) eqn:Hc.
    + destruct (star_g p s k) as [r'|] eqn:E.
      * injection H as ->. destruct (IH eq_refl) as (xs & rest & -> & Hx & Hk).
        exists (c :: xs), rest. repeat split; [constructor; assumption|exact Hk].
      * exists [], (c :: s). repeat split; [constructor|exact H].
    + exists [], (c :: s). repeat split; [constructor|exact H].
Qed.

Lemma star_l_inv : forall p s k r, star_l p s k = Some r ->
  exists xs rest, s = xs ++ rest /\ ptrue p xs /\ k rest = Some r.
Proof.
  intros p s k r. induction s as [|c s IH]; cbn [star_l]; intros H.
  - destruct (k []) eqn:E; [|discriminate]. injection H as ->.
    exists [], []. repeat split; [constructor|exact E].
  - destruct (k (c :: s)) eqn:E.
    + injection H as ->. exists [], (c :: s). repeat split; [constructor|exact E].
    + destruct (p c) eqn:Hc; [|discriminate].
      destruct (IH H) as (xs & rest & -> & Hx & Hk).
      exists (c :: xs), rest. repeat split; [constructor; assumption|exact Hk].
Qed.

(* ------------------------------------------------------------------------------------------ *)
(* 4. the matcher: rewriting and inversion lemmas                                              *)
(* ------------------------------------------------------------------------------------------ *)

Lemma m_cat : forall w a b s cs k, m w (RCat a b) s cs k = m w a s cs (fun s' cs' => m w b s' cs' k).
Proof. reflexivity. Qed.

Lemma m_lit_app : forall w l s cs k, m w (RLit l) (l ++ s) cs k = k s cs.
Proof. intros. cbn [m]. rewrite prefix_lit_app. reflexivity. Qed.

Lemma m_lit_inv : forall w l s cs k x, m w (RLit l) s cs k = Some x ->
  exists s', s = l ++ s' /\ k s' cs = Some x.
Proof.
  intros w l s cs k x H. cbn [m] in H. destruct (prefix_lit l s) as [s'|] eqn:E; [|discriminate].
  exists s'. split; [apply prefix_lit_inv; exact E|exact H].
Qed.

Lemma m_lit_none : forall w l s cs k, starts_with l s = false -> m w (RLit l) s cs k = None.
Proof. intros. cbn [m]. rewrite prefix_lit_none; auto. Qed.

Lemma m_grp : forall w n r s cs k,
  m w (RGrp n r) s cs k = m w r s cs (fun s' cs' => k s' ((n, firstn (List.length s - List.length s') s) :: cs')).
Proof. reflexivity. Qed.

Lemma m_star_g : forall w c s cs k, m w (RStar true c) s cs k = star_g (cmatch c) s (fun s' => k s' cs).
Proof. reflexivity. Qed.

Lemma m_plus_g : forall w c d s cs k, cmatch c d = true ->
  m w (RPlus true c) (d :: s) cs k = star_g (cmatch c) s (fun s' => k s' cs).
Proof. intros. cbn [m]. rewrite H. reflexivity. Qed.

Lemma m_plus_inv : forall w g c s cs k x, m w (RPlus g c) s cs k = Some x ->
  exists xs rest, s = xs ++ rest /\ xs <> [] /\ ptrue (cmatch c) xs /\ k rest cs = Some x.
Proof.
  intros w g c s cs k x H. cbn [m] in H. destruct s as [|d s]; [discriminate|].
  destruct (cmatch c d) eqn:Hd; [|discriminate].
  assert (exists xs rest, s = xs ++ rest /\ ptrue (cmatch c) xs /\ k rest cs = Some x) as (xs & rest & -> & Hx & Hk).
  { destruct g; [apply star_g_inv in H|apply star_l_inv in H]; exact H. }
  exists (d :: xs), rest. repeat split; [discriminate|constructor; assumption|exact Hk].
Qed.

Lemma m_star_inv : forall w g c s cs k x, m w (RStar g c) s cs k = Some x ->
  exists xs rest, s = xs ++ rest /\ ptrue (cmatch c) xs /\ k rest cs = Some x.
Proof.
  intros w g c s cs k x H. cbn [m] in H.
  destruct g; [apply star_g_inv in H|apply star_l_inv in H]; exact H.
Qed.

(* any successful match hands a SUFFIX of its input to the continuation *)
Lemma m_suffix : forall r w s cs k x, m w r s cs k = Some x ->
  exists u s' cs', s = u ++ s' /\ k s' cs' = Some x.
Proof.
  induction r as [l|c|g c|g c|g c|a IHa b IHb|a IHa b IHb|n r IH| | |]; intros w s cs k x H.
  - apply m_lit_inv in H. destruct H as (s' & -> & H). eauto.
  - cbn [m] in H. destruct s as [|d s]; [discriminate|]. destruct (cmatch c d); [|discriminate].
    exists [d], s, cs. auto.
  - apply m_star_inv in H. destruct H as (xs & rest & -> & _ & H). eauto.
  - apply m_plus_inv in H. destruct H as (xs & rest & -> & _ & _ & H). eauto.
  - cbn [m] in H. destruct s as [|d s]; [exists [], [], cs; auto|].
    destruct (cmatch c d).
    + destruct g.
      * destruct (k s cs) eqn:E; [injection H as ->; exists [d], s, cs; auto | exists [], (d :: s), cs; auto].
      * destruct (k (d :: s) cs) eqn:E; [injection H as ->; exists [], (d :: s), cs; auto | exists [d], s, cs; auto].
    + exists [], (d :: s), cs. auto.
  - rewrite m_cat in H. apply IHa in H. destruct H as (u & s' & cs' & -> & H).
    apply IHb in H. destruct H as (u' & s'' & cs'' & -> & H).
    exists (u ++ u'), s'', cs''. rewrite app_assoc. auto.
  - cbn [m] in H. destruct (m w a s cs k) eqn:E.
    + injection H as ->. eapply IHa; eauto.
    + eapply IHb; eauto.
  - rewrite m_grp in H. apply IH in H. destruct H as (u & s' & cs' & -> & H). eauto.
  - cbn [m] in H. destruct (Nat.eqb _ _); [|discriminate]. exists [], s, cs. auto.
  - cbn [m] in H. destruct (eol s); [|discriminate]. exists [], s, cs. auto.
  - cbn [m] in H. exists [], s, cs. auto.
Qed.

(* search *)
Lemma search_from_hit : forall w r s n cs,
  m w r s [] (fun s' cs => Some ((0%nat, firstn (List.length s - List.length s') s) :: cs)) = Some cs ->
  search_from w r s n = Some (n, cs).
Proof. intros w r s n cs H. destruct s; cbn [search_from]; rewrite H; reflexivity. Qed.

Lemma search_from_inv : forall w r s n i cs, search_from w r s n = Some (i, cs) ->
  exists u v, s = u ++ v /\
    m w r v [] (fun s' cs => Some ((0%nat, firstn (List.length v - List.length s') v) :: cs)) = Some cs.
Proof.
  intros w r s. induction s as [|c s IH]; intros n i cs H; cbn [search_from] in H.
  - destruct (m w r [] [] _) eqn:E; [|discriminate]. injection H as _ ->. exists [], []. auto.
  - destruct (m w r (c :: s) [] _) eqn:E.
    + injection H as _ ->. exists [], (c :: s). auto.
    + destruct (IH _ _ _ H) as (u & v & -> & Hm). exists (c :: u), v. auto.
Qed.

Lemma search_from_none : forall w r s n,
  (forall u v, s = u ++ v ->
     m w r v [] (fun s' cs => Some ((0%nat, firstn (List.length v - List.length s') v) :: cs)) = None) ->
  search_from w r s n = None.
Proof.
  intros w r s. induction s as [|c s IH]; intros n H; cbn [search_from].
  - rewrite (H [] [] eq_refl). reflexivity.
  - rewrite (H [] (c :: s) eq_refl). apply IH. intros u v E. apply (H (c :: u) v). cbn. congruence.
Qed.

Lemma search_from_some : forall w r u v n,
  m w r v [] (fun s' cs => Some ((0%nat, firstn (List.length v - List.length s') v) :: cs)) <> None ->
  search_from w r (u ++ v) n <> None.
Proof.
  intros w r u v. induction u as [|c u IH]; intros n H; cbn [app].
  - destruct (m w r v [] _) as [cs|] eqn:E; [|congruence].
    rewrite (search_from_hit _ _ _ n cs E). discriminate.
  - cbn [search_from]. destruct (m w r (c :: u ++ v) [] _); [discriminate|]. apply IH. exact H.
Qed.

(* greedy plus / star at the matcher level, and inside a capture group *)
Lemma m_plus_rightmost : forall w c xs ys rest cs k r,
  xs <> [] -> ptrue (cmatch c) xs -> ptrue (cmatch c) ys -> stops (cmatch c) rest ->
  fail (fun s => k s cs) ys rest -> k (ys ++ rest) cs = Some r ->
  m w (RPlus true c) (xs ++ ys ++ rest) cs k = Some r.
Proof.
  intros w c xs ys rest cs k r Hne Hx Hy Hs Hf Hk.
  destruct xs as [|x xs]; [congruence|]. inversion Hx as [|? ? Hpx Hx']; subst.
  cbn [app]. rewrite m_plus_g by exact Hpx.
  apply (star_g_rightmost (cmatch c) xs ys rest (fun s => k s cs) r); assumption.
Qed.

Lemma m_star_rightmost : forall w c xs ys rest cs k r,
  ptrue (cmatch c) xs -> ptrue (cmatch c) ys -> stops (cmatch c) rest ->
  fail (fun s => k s cs) ys rest -> k (ys ++ rest) cs = Some r ->
  m w (RStar true c) (xs ++ ys ++ rest) cs k = Some r.
Proof.
  intros w c xs ys rest cs k r Hx Hy Hs Hf Hk. rewrite m_star_g.
  apply (star_g_rightmost (cmatch c) xs ys rest (fun s => k s cs) r); assumption.
Qed.

Lemma m_grp_plus_rightmost : forall w n c xs ys rest cs k r,
  xs <> [] -> ptrue (cmatch c) xs -> ptrue (cmatch c) ys -> stops (cmatch c) rest ->
  (forall cs', fail (fun s => k s cs') ys rest) -> k (ys ++ rest) ((n, xs) :: cs) = Some r ->
  m w (RGrp n (RPlus true c)) (xs ++ ys ++ rest) cs k = Some r.
Proof.
  intros w n c xs ys rest cs k r Hne Hx Hy Hs Hf Hk. rewrite m_grp.
  apply m_plus_rightmost; try assumption.
  - intros u v E Hu. cbv beta. apply (Hf _ u v E Hu).
  - cbv beta. rewrite firstn_len_app. exact Hk.
Qed.

Lemma m_grp_star_rightmost : forall w n c xs ys rest cs k r,
  ptrue (cmatch c) xs -> ptrue (cmatch c) ys -> stops (cmatch c) rest ->
  (forall cs', fail (fun s => k s cs') ys rest) -> k (ys ++ rest) ((n, xs) :: cs) = Some r ->
  m w (RGrp n (RStar true c)) (xs ++ ys ++ rest) cs k = Some r.
Proof.
  intros w n c xs ys rest cs k r Hx Hy Hs Hf Hk. rewrite m_grp.
  apply m_star_rightmost; try assumption.
  - intros u v E Hu. cbv beta. apply (Hf _ u v E Hu).
  - cbv beta. rewrite firstn_len_app. exact Hk.
Qed.

Lemma m_grp_plus_inv : forall w n g c s cs k x, m w (RGrp n (RPlus g c)) s cs k = Some x ->
  exists xs rest, s = xs ++ rest /\ xs <> [] /\ ptrue (cmatch c) xs /\ k rest ((n, xs) :: cs) = Some x.
Proof.
  intros w n g c s cs k x H. rewrite m_grp in H. apply m_plus_inv in H.
  destruct H as (xs & rest & -> & Hne & Hx & Hk). rewrite firstn_len_app in Hk.
  exists xs, rest. auto.
Qed.

Lemma m_eol_inv : forall w s cs k x, m w REol s cs k = Some x -> (s = [] \/ s = [nl]) /\ k s cs = Some x.
Proof.
  intros w s cs k x H. cbn [m] in H. destruct (eol s) eqn:E; [|discriminate]. split; [|exact H].
  destruct s as [|c [|d s]]; cbn in E; try discriminate; [left; reflexivity|].
  right. apply Ascii.eqb_eq in E. subst c. reflexivity.
Qed.

Lemma m_eol_ok : forall w s cs k, s = [] \/ s = [nl] -> m w REol s cs k = k s cs.
Proof. intros w s cs k [->| ->]; reflexivity. Qed.

(* predicates on strings *)
Definition wordy (s : str) : Prop := Forall (fun c => is_word c = true) s.
Definition nonl (s : str) : Prop := Forall (fun c => Ascii.eqb c nl = false) s.

Lemma nonl_ptrue : forall s, nonl s -> ptrue (cmatch CAny) s.
Proof. intros s H. eapply Forall_impl; [|exact H]. cbn. intros a Ha. rewrite Ha. reflexivity. Qed.
Lemma ptrue_nonl : forall s, ptrue (cmatch CAny) s -> nonl s.
Proof. intros s H. eapply Forall_impl; [|exact H]. cbn. intros a Ha. apply negb_true_iff. exact Ha. Qed.
Lemma ptrue_app : forall p a b, ptrue p a -> ptrue p b -> ptrue p (a ++ b).
Proof. intros. apply Forall_app. auto. Qed.

(* ------------------------------------------------------------------------------------------ *)
(* 5. split_resolved_shortcode                                                                 *)
(* ------------------------------------------------------------------------------------------ *)

(* structure of the GENERATED term, checked by conversion *)
Lemma re_split_resolved_eq :
  re_split_resolved_shortcode_0 =
  RCat (RLit (s2l "insn(")) (RCat (RGrp 1 (RPlus true CWord)) (RCat (RLit (s2l ", "))
       (RCat (RGrp 2 (RPlus true CAny)) (RCat (RLit (s2l ")")) REol)))).
Proof. reflexivity. Qed.

Definition shaped (v name body tail : str) : Prop :=
  v = s2l "insn(" ++ name ++ s2l ", " ++ body ++ s2l ")" ++ tail /\
  name <> [] /\ wordy name /\ body <> [] /\ nonl body /\ (tail = [] \/ tail = [nl]).

(* the match at a position where the text has the expected shape *)
Lemma m_resolved : forall w k0 name body tail v r, shaped v name body tail ->
  k0 tail [(2%nat, body); (1%nat, name)] = Some r ->
  m w re_split_resolved_shortcode_0 v [] k0 = Some r.
Proof.
  intros w k0 name body tail v r (-> & Hn & Hw & Hb & Hnl & Ht) Hk0.
  rewrite re_split_resolved_eq.
  rewrite m_cat, m_lit_app, m_cat.
  change (name ++ s2l ", " ++ body ++ s2l ")" ++ tail) with (name ++ [] ++ s2l ", " ++ body ++ s2l ")" ++ tail).
  apply m_grp_plus_rightmost; try assumption.
  - constructor.
  - reflexivity.
  - intros cs'. apply fail_nil.
  - cbn [app]. change ("," :: " " :: body ++ s2l ")" ++ tail) with (s2l ", " ++ body ++ s2l ")" ++ tail).
    rewrite m_cat, m_lit_app, m_cat.
    change (body ++ s2l ")" ++ tail) with (body ++ [")"] ++ tail).
    apply m_grp_plus_rightmost; try assumption.
    + apply nonl_ptrue. exact Hnl.
    + repeat constructor.
    + destruct Ht as [->| ->]; cbn; auto.
    + intros cs'. apply fail_single. rewrite m_cat. apply m_lit_none.
      destruct Ht as [->| ->]; reflexivity.
    + rewrite m_cat. change ([")"] ++ tail) with (s2l ")" ++ tail). rewrite m_lit_app.
      rewrite m_eol_ok by exact Ht. exact Hk0.
Qed.

(* inversion: whatever matches has the expected shape, and the captures are NAME and BODY *)
Lemma m_resolved_inv : forall w k0 v x, m w re_split_resolved_shortcode_0 v [] k0 = Some x ->
  exists name body tail, shaped v name body tail /\ k0 tail [(2%nat, body); (1%nat, name)] = Some x.
Proof.
  intros w k0 v x E. rewrite re_split_resolved_eq in E.
  rewrite m_cat in E. apply m_lit_inv in E. destruct E as (s1 & -> & E).
  rewrite m_cat in E. apply m_grp_plus_inv in E. destruct E as (name & r1 & -> & Hn & Hw & E).
  rewrite m_cat in E. apply m_lit_inv in E. destruct E as (s2 & -> & E).
  rewrite m_cat in E. apply m_grp_plus_inv in E. destruct E as (body & r2 & -> & Hb & Hnl & E).
  rewrite m_cat in E. apply m_lit_inv in E. destruct E as (tail & -> & E).
  apply m_eol_inv in E. destruct E as [Ht E].
  exists name, body, tail. split; [|exact E].
  repeat split; try assumption. apply ptrue_nonl. exact Hnl.
Qed.

(* A. NAME and BODY are recovered exactly, whatever BODY contains *)
Theorem split_line_roundtrip :
  forall (name body tail : str), name <> [] -> Forall (fun c => is_word c = true) name ->
    body <> [] -> Forall (fun c => Ascii.eqb c nl = false) body -> (tail = [] \/ tail = [nl]) ->
    split_resolved (s2l "insn(" ++ name ++ s2l ", " ++ body ++ s2l ")" ++ tail) = Some (name, body).
Proof.
  intros name body tail Hn Hw Hb Hnl Ht. unfold split_resolved, rsearch.
  erewrite search_from_hit.
  2:{ eapply m_resolved; [|reflexivity]. repeat split; eassumption. }
  reflexivity.
Qed.
Print Assumptions split_line_roundtrip.

(* B. rejection *)
Theorem split_line_sound : forall line name body, split_resolved line = Some (name, body) ->
  exists pre tail, line = pre ++ s2l "insn(" ++ name ++ s2l ", " ++ body ++ s2l ")" ++ tail /\
    name <> [] /\ wordy name /\ body <> [] /\ nonl body /\ (tail = [] \/ tail = [nl]).
Proof.
  intros line name body H. unfold split_resolved, rsearch in H.
  destruct (search_from line re_split_resolved_shortcode_0 line 0) as [[i cs]|] eqn:E; [|discriminate].
  apply search_from_inv in E. destruct E as (pre & v & -> & E).
  apply m_resolved_inv in E. destruct E as (name' & body' & tail & Hsh & E).
  injection E as <-. cbn in H. injection H as <- <-.
  destruct Hsh as (-> & Hrest). exists pre, tail. split; [reflexivity|exact Hrest].
Qed.
Print Assumptions split_line_sound.

(* complete characterisation: a line is accepted iff SOME suffix of it has the expected shape
   (so garbage before "insn(" is accepted -- see split_accepts_prefix_garbage) *)
Theorem split_line_accepts_iff : forall line,
  split_resolved line <> None <->
  exists pre name body tail, line = pre ++ s2l "insn(" ++ name ++ s2l ", " ++ body ++ s2l ")" ++ tail /\
    name <> [] /\ wordy name /\ body <> [] /\ nonl body /\ (tail = [] \/ tail = [nl]).
Proof.
  intros line. split.
  - destruct (split_resolved line) as [[name body]|] eqn:E; [intros _|congruence].
    destruct (split_line_sound _ _ _ E) as (pre & tail & H). exists pre, name, body, tail. exact H.
  - intros (pre & name & body & tail & -> & Hrest). unfold split_resolved, rsearch.
    match goal with |- context [search_from ?w ?r ?s ?n] => destruct (search_from w r s n) as [[i cs]|] eqn:E end.
    + apply search_from_inv in E. destruct E as (u & v & _ & E).
      apply m_resolved_inv in E. destruct E as (n' & b' & t' & _ & E). injection E as <-. cbn. discriminate.
    + exfalso. revert E. apply search_from_some.
      erewrite m_resolved; [discriminate| |reflexivity]. split; [reflexivity|exact Hrest].
Qed.
Print Assumptions split_line_accepts_iff.

Theorem split_line_rejects : forall line, contains (s2l "insn(") line = false -> split_resolved line = None.
Proof.
  intros line H. destruct (split_resolved line) as [[name body]|] eqn:E; [|reflexivity].
  destruct (split_line_sound _ _ _ E) as (pre & tail & -> & _).
  rewrite contains_suffix in H; [discriminate|]. apply starts_with_app.
Qed.
Print Assumptions split_line_rejects.

(* further decidable rejections that follow from the characterisation *)
Corollary split_line_rejects_no_close : forall line,
  existsb (Ascii.eqb ")") line = false -> split_resolved line = None.
Proof.
  intros line H. destruct (split_resolved line) as [[name body]|] eqn:E; [|reflexivity].
  destruct (split_line_sound _ _ _ E) as (pre & tail & -> & _).
  rewrite !existsb_app in H. cbn in H. rewrite !orb_true_r in H. discriminate.
Qed.

Corollary split_line_rejects_trailing : forall line c d, c <> ")" -> d <> ")" ->
  split_resolved (line ++ [c; d]) = None.
Proof.
  intros line c d Hc Hd. destruct (split_resolved (line ++ [c; d])) as [[name body]|] eqn:E; [|reflexivity].
  destruct (split_line_sound _ _ _ E) as (pre & tail & H & _ & _ & _ & _ & Ht). exfalso.
  apply (f_equal (@rev _)) in H. rewrite !rev_app_distr in H. cbn in H.
  destruct Ht as [->| ->]; cbn in H; injection H; intros; subst; congruence.
Qed.

Example split_accepts_prefix_garbage : split_resolved (s2l "xinsn(A, {})") = Some (s2l "A", s2l "{}").
Proof. vm_compute. reflexivity. Qed.

(* non-vacuity of A on a real line, by APPLYING the theorem *)
Example split_line_roundtrip_J2_jump :
  split_resolved (s2l "insn(J2_jump, {(riV); riV = (riV & ~(4 - 1)); JUMP((HEX_REG_ALIAS_PC)+riV);})")
  = Some (s2l "J2_jump", s2l "{(riV); riV = (riV & ~(4 - 1)); JUMP((HEX_REG_ALIAS_PC)+riV);}").
Proof.
  pose proof (split_line_roundtrip (s2l "J2_jump")
                (s2l "{(riV); riV = (riV & ~(4 - 1)); JUMP((HEX_REG_ALIAS_PC)+riV);}") []) as H.
  rewrite app_nil_r in H. apply H.
  - discriminate.
  - repeat constructor.
  - discriminate.
  - repeat constructor.
  - left. reflexivity.
Qed.
Print Assumptions split_line_roundtrip_J2_jump.

(* ------------------------------------------------------------------------------------------ *)
(* 6. split_compounds                                                                          *)
(* ------------------------------------------------------------------------------------------ *)

(* structure of the GENERATED term, checked by conversion *)
Definition rc_g1 : re := RGrp 1 (RCat (RLit (s2l "{")) (RCat (RPlus true CAny) (RLit (s2l "}")))).
Definition rc_tail : re := RCat (RLit marker) (RCat (RGrp 2 (RStar true CAny)) (RCat (RLit (s2l "}")) REol)).
Definition rc_k : re := RCat (RLit marker) (RCat rc_g1 rc_tail).
Lemma re_split_compounds_eq :
  re_split_compounds_0 = RCat (RLit (s2l "{")) (RCat (RStar true CAny) rc_k).
Proof. reflexivity. Qed.

Lemma marker_no_open : existsb (Ascii.eqb "{") marker = false. Proof. reflexivity. Qed.
Lemma marker_no_close : existsb (Ascii.eqb "}") marker = false. Proof. reflexivity. Qed.
Lemma marker_ne : marker <> []. Proof. discriminate. Qed.
Lemma marker_nonl : nonl marker. Proof. repeat constructor. Qed.

(* failure lemmas for continuations that must start with a literal L *)
Lemma allfail_cut : forall k L c ys rest,
  (forall s x, k s = Some x -> starts_with L s = true) ->
  existsb (Ascii.eqb c) L = false -> contains L ys = false -> allfail k ys (c :: rest).
Proof.
  intros k L c ys rest Hk Hc Hys u v -> .
  destruct (k (v ++ c :: rest)) eqn:E; [|reflexivity]. exfalso.
  apply Hk in E. apply starts_with_cut in E; [|exact Hc].
  rewrite (contains_suffix L u v E) in Hys. discriminate.
Qed.

Lemma fail_lit : forall k L c rest,
  (forall s x, k s = Some x -> starts_with L s = true) ->
  existsb (Ascii.eqb c) L = false -> fail k L (c :: rest).
Proof.
  intros k L c rest Hk Hc u v E Hu.
  destruct (k (v ++ c :: rest)) eqn:E'; [|reflexivity]. exfalso.
  apply Hk in E'. apply starts_with_cut in E'; [|exact Hc].
  apply starts_with_length in E'. rewrite E, app_length in E'.
  destruct u; [congruence|cbn in E'; lia].
Qed.

Lemma allfail_contains : forall k L ys rest,
  (forall s x, k s = Some x -> starts_with L s = true) ->
  contains L (ys ++ rest) = false -> allfail k ys rest.
Proof.
  intros k L ys rest Hk Hc u v -> .
  destruct (k (v ++ rest)) eqn:E; [|reflexivity]. exfalso.
  apply Hk in E. rewrite <- app_assoc in Hc. rewrite (contains_suffix L u _ E) in Hc. discriminate.
Qed.

(* a continuation that needs L and then another L later fails everywhere in L ++ z when z is L-free *)
Lemma allfail_two : forall k L z,
  (forall s x, k s = Some x -> exists s', s = L ++ s' /\ contains L s' = true) ->
  contains L z = false -> allfail k (L ++ z) [].
Proof.
  intros k L z Hk Hz u v E.
  destruct (k (v ++ [])) eqn:E'; [|reflexivity]. exfalso.
  rewrite app_nil_r in E'. apply Hk in E'. destruct E' as (s' & -> & Hs').
  rewrite app_assoc in E. apply app_suffix_len in E; [|rewrite app_length; lia].
  destruct E as (w & ->). rewrite (contains_app_r L w s' Hs') in Hz. discriminate.
Qed.

(* what the part of the regex after the leading  \{.*  needs *)
Lemma rc_k_needs : forall w s cs k x, m w rc_k s cs k = Some x ->
  exists s', s = marker ++ s' /\ contains marker s' = true.
Proof.
  intros w s cs k x H. unfold rc_k in H. rewrite m_cat in H. apply m_lit_inv in H.
  destruct H as (s' & -> & H). exists s'. split; [reflexivity|].
  rewrite m_cat in H. apply m_suffix in H. destruct H as (u & s'' & cs' & -> & H).
  unfold rc_tail in H. rewrite m_cat in H. apply m_lit_inv in H. destruct H as (s3 & -> & _).
  apply contains_suffix. apply starts_with_app.
Qed.

Lemma rc_k_starts : forall w s cs k x, m w rc_k s cs k = Some x -> starts_with marker s = true.
Proof. intros w s cs k x H. apply rc_k_needs in H. destruct H as (s' & -> & _). apply starts_with_app. Qed.

Ltac solve_firstn :=
  match goal with
  | |- firstn (List.length ?s - List.length ?t) ?s = ?a =>
      replace s with (a ++ t) by (cbn; rewrite <- ?app_assoc; reflexivity); apply firstn_len_app
  end.

Lemma nonl_app : forall a b, nonl a -> nonl b -> nonl (a ++ b).
Proof. intros. apply Forall_app. auto. Qed.
Lemma nonl_lit_open : nonl (s2l "{"). Proof. repeat constructor. Qed.
Lemma nonl_lit_close : nonl (s2l "}"). Proof. repeat constructor. Qed.
Ltac nonl_tac :=
  repeat first [ assumption | exact marker_nonl | exact nonl_lit_open | exact nonl_lit_close | apply nonl_app ].

(* the match on a well-formed two-part body *)
Lemma m_compounds : forall w k0 pre p1 p2 r,
  contains marker p1 = false -> contains marker p2 = false ->
  p1 <> [] -> nonl pre -> nonl p1 -> nonl p2 ->
  k0 [] [(2%nat, p2); (1%nat, s2l "{" ++ p1 ++ s2l "}")] = Some r ->
  m w re_split_compounds_0
    (s2l "{" ++ pre ++ marker ++ s2l "{" ++ p1 ++ s2l "}" ++ marker ++ p2 ++ s2l "}") [] k0 = Some r.
Proof.
  intros w k0 pre p1 p2 r Hc1 Hc2 Hne Hpre Hp1 Hp2 Hk0.
  assert (Hc2' : contains marker (p2 ++ s2l "}") = false).
  { apply contains_cut_false; auto using marker_no_close, marker_ne. }
  rewrite re_split_compounds_eq. rewrite m_cat, m_lit_app, m_cat.
  replace (pre ++ marker ++ s2l "{" ++ p1 ++ s2l "}" ++ marker ++ p2 ++ s2l "}")
    with (pre ++ (marker ++ (s2l "{" ++ p1) ++ (s2l "}" ++ marker ++ p2 ++ s2l "}")) ++ [])
    by (rewrite app_nil_r, <- !app_assoc; reflexivity).
  apply m_star_rightmost.
  - apply nonl_ptrue. exact Hpre.
  - apply nonl_ptrue. nonl_tac.
  - exact I.
  - (* the rest of the regex fails at every position to the right of the first marker *)
    apply fail_app; [|apply fail_app].
    + rewrite app_nil_r. cbn [s2l list_ascii_of_string app].
      apply fail_lit with (L := marker); [|exact marker_no_open].
      intros s x. apply rc_k_starts.
    + rewrite app_nil_r. cbn [s2l list_ascii_of_string app].
      apply fail_cons. apply allfail_cut with (L := marker); [|exact marker_no_close|exact Hc1].
      intros s x. apply rc_k_starts.
    + cbn [s2l list_ascii_of_string app]. apply fail_cons.
      apply allfail_two; [|exact Hc2']. intros s x. apply rc_k_needs.
  - rewrite app_nil_r, <- !app_assoc. unfold rc_k at 1.
    rewrite m_cat, m_lit_app, m_cat. unfold rc_g1 at 1. rewrite m_grp, m_cat, m_lit_app, m_cat.
    replace (p1 ++ s2l "}" ++ marker ++ p2 ++ s2l "}")
      with (p1 ++ (s2l "}" ++ marker ++ p2 ++ s2l "}") ++ []) by (rewrite app_nil_r; reflexivity).
    apply m_plus_rightmost.
    + exact Hne.
    + apply nonl_ptrue. exact Hp1.
    + apply nonl_ptrue. nonl_tac.
    + exact I.
    + (* "}" followed by the marker occurs nowhere further right *)
      cbn [s2l list_ascii_of_string app]. apply fail_cons.
      apply allfail_contains with (L := "}" :: marker).
      * intros s x H. apply m_lit_inv in H. destruct H as (s1 & -> & H).
        unfold rc_tail in H. rewrite m_cat in H. apply m_lit_inv in H. destruct H as (s2 & -> & _).
        cbn [s2l list_ascii_of_string app starts_with]. rewrite Ascii.eqb_refl. apply starts_with_app.
      * rewrite app_nil_r. rewrite contains_skip by exact marker_no_close.
        destruct (contains ("}" :: marker) (p2 ++ ["}"])) eqn:E; [|reflexivity].
        apply contains_tail in E. cbn [s2l list_ascii_of_string] in Hc2'. congruence.
    + rewrite app_nil_r. rewrite m_lit_app. unfold rc_tail.
      rewrite m_cat, m_lit_app, m_cat.
      replace (p2 ++ s2l "}") with (p2 ++ s2l "}" ++ []) by (rewrite app_nil_r; reflexivity).
      apply m_grp_star_rightmost.
      * apply nonl_ptrue. exact Hp2.
      * repeat constructor.
      * exact I.
      * intros cs'. apply fail_single. reflexivity.
      * rewrite m_cat, m_lit_app. cbn [m eol].
        match goal with |- k0 [] ?c = Some r => replace c with [(2%nat, p2); (1%nat, s2l "{" ++ p1 ++ s2l "}")]; [exact Hk0|] end.
        do 3 f_equal. symmetry. solve_firstn.
Qed.

(* C. the general statement -- NO extra premise about "_" , "{" or "}" was needed; the premise
   `contains marker pre = false` of the task is not even used (kept in split_compounds_spec below) *)
Theorem split_compounds_spec_strong :
  forall (pre p1 p2 : str), contains marker p1 = false -> contains marker p2 = false ->
    p1 <> [] -> nonl pre -> nonl p1 -> nonl p2 ->
    split_compounds (s2l "{" ++ pre ++ marker ++ s2l "{" ++ p1 ++ s2l "}" ++ marker ++ p2 ++ s2l "}")
      = Some (s2l "{" ++ p1 ++ s2l "}", s2l "{" ++ p2 ++ s2l "}").
Proof.
  intros pre p1 p2 Hc1 Hc2 Hne Hpre Hp1 Hp2. unfold split_compounds, rmatch.
  erewrite m_compounds; try eassumption; [|reflexivity].
  reflexivity.
Qed.
Print Assumptions split_compounds_spec_strong.

Definition split_compounds_spec_statement : Prop :=
  forall (pre p1 p2 : str), contains marker pre = false -> contains marker p1 = false -> contains marker p2 = false ->
    p1 <> [] ->
    Forall (fun c => Ascii.eqb c nl = false) pre -> Forall (fun c => Ascii.eqb c nl = false) p1 ->
    Forall (fun c => Ascii.eqb c nl = false) p2 ->
    split_compounds (s2l "{" ++ pre ++ marker ++ s2l "{" ++ p1 ++ s2l "}" ++ marker ++ p2 ++ s2l "}")
      = Some (s2l "{" ++ p1 ++ s2l "}", s2l "{" ++ p2 ++ s2l "}").

Theorem split_compounds_spec : split_compounds_spec_statement.
Proof. intros pre p1 p2 _ Hc1 Hc2 Hne Hpre Hp1 Hp2. apply split_compounds_spec_strong; assumption. Qed.
Print Assumptions split_compounds_spec.

(* D. text before the first marker is silently dropped *)
Example split_compounds_drops_prefix :
  split_compounds (s2l "{RdV = 1; __COMPOUND_PART1__{ P0 = 1; }__COMPOUND_PART1__ RdV = 2; }")
  = Some (s2l "{ P0 = 1; }", s2l "{ RdV = 2; }").
Proof. vm_compute. reflexivity. Qed.

(* the returned parts do not depend on (hence never contain anything of) `pre` *)
Corollary split_compounds_ignores_pre :
  forall (pre pre' p1 p2 : str), contains marker p1 = false -> contains marker p2 = false ->
    p1 <> [] -> nonl pre -> nonl pre' -> nonl p1 -> nonl p2 ->
    split_compounds (s2l "{" ++ pre ++ marker ++ s2l "{" ++ p1 ++ s2l "}" ++ marker ++ p2 ++ s2l "}")
    = split_compounds (s2l "{" ++ pre' ++ marker ++ s2l "{" ++ p1 ++ s2l "}" ++ marker ++ p2 ++ s2l "}").
Proof. intros. rewrite !split_compounds_spec_strong; auto. Qed.
Print Assumptions split_compounds_ignores_pre.

Definition nonblank (s : str) : str := filter (fun c => negb (is_space c)) s.

Lemma nonblank_nil_iff : forall s, nonblank s = [] <-> forallb is_space s = true.
Proof.
  induction s as [|c s IH]; cbn; [tauto|].
  destruct (is_space c); cbn; [exact IH|]. split; discriminate.
Qed.

(* "splitting loses nothing" (up to white space) holds exactly when the text before the first
   marker is blank *)
Theorem split_compounds_lossless_iff_pre_blank :
  forall (pre p1 p2 : str), contains marker p1 = false -> contains marker p2 = false ->
    p1 <> [] -> nonl pre -> nonl p1 -> nonl p2 ->
    exists q1 q2,
      split_compounds (s2l "{" ++ pre ++ marker ++ s2l "{" ++ p1 ++ s2l "}" ++ marker ++ p2 ++ s2l "}")
        = Some (s2l "{" ++ q1 ++ s2l "}", s2l "{" ++ q2 ++ s2l "}") /\
      (nonblank (q1 ++ q2) = nonblank (pre ++ p1 ++ p2) <-> forallb is_space pre = true).
Proof.
  intros pre p1 p2 Hc1 Hc2 Hne Hpre Hp1 Hp2. exists p1, p2.
  split; [apply split_compounds_spec_strong; assumption|].
  rewrite <- nonblank_nil_iff. unfold nonblank. rewrite (filter_app _ pre (p1 ++ p2)).
  split; intros H.
  - apply (f_equal (@List.length _)) in H. rewrite app_length in H.
    destruct (filter _ pre); [reflexivity|cbn in H; lia].
  - rewrite H. reflexivity.
Qed.
Print Assumptions split_compounds_lossless_iff_pre_blank.

(* ------------------------------------------------------------------------------------------ *)
(* 7. load_line                                                                                *)
(* ------------------------------------------------------------------------------------------ *)

Lemma load_line_cons : forall c t, c <> "#" ->
  load_line (c :: t) =
  match split_resolved (c :: t) with
  | None => LErr
  | Some (n, b) =>
      if contains marker b then
        match split_compounds b with Some (b1, b2) => LTwo n b1 b2 | None => LErr end
      else LOne n b
  end.
Proof.
  intros c t Hc. destruct c as [b0 b1 b2 b3 b4 b5 b6 b7].
  destruct b0, b1, b2, b3, b4, b5, b6, b7; try reflexivity. congruence.
Qed.

Theorem load_line_skip : forall rest, load_line ("#" :: rest) = LSkip.
Proof. reflexivity. Qed.

Theorem load_line_empty : load_line [] = LErr.
Proof. reflexivity. Qed.

(* E. an ordinary instruction line *)
Theorem load_line_spec :
  forall (name body tail : str), name <> [] -> Forall (fun c => is_word c = true) name ->
    body <> [] -> Forall (fun c => Ascii.eqb c nl = false) body -> (tail = [] \/ tail = [nl]) ->
    contains marker body = false ->
    load_line (s2l "insn(" ++ name ++ s2l ", " ++ body ++ s2l ")" ++ tail) = LOne name body.
Proof.
  intros name body tail Hn Hw Hb Hnl Ht Hm.
  pose proof (split_line_roundtrip name body tail Hn Hw Hb Hnl Ht) as H.
  change (s2l "insn(" ++ name ++ s2l ", " ++ body ++ s2l ")" ++ tail)
    with ("i" :: s2l "nsn(" ++ name ++ s2l ", " ++ body ++ s2l ")" ++ tail) in *.
  rewrite load_line_cons by discriminate. rewrite H, Hm. reflexivity.
Qed.
Print Assumptions load_line_spec.

(* ... and a compound instruction line: both parts are recovered, text before the first marker is lost *)
Theorem load_line_spec_compound :
  forall (name pre p1 p2 tail : str), name <> [] -> Forall (fun c => is_word c = true) name ->
    (tail = [] \/ tail = [nl]) ->
    contains marker p1 = false -> contains marker p2 = false -> p1 <> [] -> nonl pre -> nonl p1 -> nonl p2 ->
    load_line (s2l "insn(" ++ name ++ s2l ", " ++
               (s2l "{" ++ pre ++ marker ++ s2l "{" ++ p1 ++ s2l "}" ++ marker ++ p2 ++ s2l "}")
               ++ s2l ")" ++ tail)
    = LTwo name (s2l "{" ++ p1 ++ s2l "}") (s2l "{" ++ p2 ++ s2l "}").
Proof.
  intros name pre p1 p2 tail Hn Hw Ht Hc1 Hc2 Hne Hpre Hp1 Hp2.
  set (body := s2l "{" ++ pre ++ marker ++ s2l "{" ++ p1 ++ s2l "}" ++ marker ++ p2 ++ s2l "}").
  assert (Hb : body <> []) by discriminate.
  assert (Hnl : nonl body) by (unfold body; nonl_tac).
  assert (Hm : contains marker body = true).
  { unfold body. rewrite app_assoc. apply contains_suffix. apply starts_with_app. }
  pose proof (split_line_roundtrip name body tail Hn Hw Hb Hnl Ht) as H.
  change (s2l "insn(" ++ name ++ s2l ", " ++ body ++ s2l ")" ++ tail)
    with ("i" :: s2l "nsn(" ++ name ++ s2l ", " ++ body ++ s2l ")" ++ tail) in *.
  rewrite load_line_cons by discriminate. rewrite H, Hm.
  unfold body. rewrite split_compounds_spec_strong by assumption. reflexivity.
Qed.
Print Assumptions load_line_spec_compound.

(* non-vacuity of C and E, by APPLYING the theorems; the second instance has partial markers
   overlapping every boundary (the case the task allowed to exclude) *)
Example split_compounds_spec_real :
  split_compounds (s2l "{ __COMPOUND_PART1__{ P0 = 1; }__COMPOUND_PART1__ RdV = 2; }")
  = Some (s2l "{ P0 = 1; }", s2l "{ RdV = 2; }").
Proof.
  apply (split_compounds_spec (s2l " ") (s2l " P0 = 1; ") (s2l " RdV = 2; "));
    try reflexivity; try discriminate; repeat constructor.
Qed.
Print Assumptions split_compounds_spec_real.

Example split_compounds_spec_overlaps :
  split_compounds (s2l "{__COMPOUND_PART1__COMPOUND_PART1__{}_}__COMPOUND_PART1}__COMPOUND_PART1__COMPOUND_PART1__{x}_}")
  = Some (s2l "{}_}__COMPOUND_PART1}", s2l "{COMPOUND_PART1__{x}_}").
Proof.
  apply (split_compounds_spec_strong (s2l "__COMPOUND_PART1") (s2l "}_}__COMPOUND_PART1") (s2l "COMPOUND_PART1__{x}_"));
    try reflexivity; try discriminate; repeat constructor.
Qed.
Print Assumptions split_compounds_spec_overlaps.

Example load_line_spec_J2_jump :
  load_line (s2l "insn(J2_jump, {(riV); riV = (riV & ~(4 - 1)); JUMP((HEX_REG_ALIAS_PC)+riV);})")
  = LOne (s2l "J2_jump") (s2l "{(riV); riV = (riV & ~(4 - 1)); JUMP((HEX_REG_ALIAS_PC)+riV);}").
Proof.
  pose proof (load_line_spec (s2l "J2_jump")
                (s2l "{(riV); riV = (riV & ~(4 - 1)); JUMP((HEX_REG_ALIAS_PC)+riV);}") []) as H.
  rewrite app_nil_r in H. apply H; try discriminate; try reflexivity; try (left; reflexivity); repeat constructor.
Qed.
Print Assumptions load_line_spec_J2_jump.
Print Assumptions split_accepts_prefix_garbage.
Print Assumptions split_compounds_drops_prefix.
