(* The attribute bookkeeping model (Meta.v: meta_ss, driven by the GENERATED token table) equals the
   structural specification (Meta.v: spec_of, built from the generic traversal any_e / any_ss). *)
From Coq Require Import ZArith NArith List Bool String Ascii Lia Btauto.
From RZ.model Require Import Ast Meta.
From RZ.gen Require Import MetaTables.
From RZ.proofs Require Import MetaProofs.
Import ListNotations.
Local Open Scope string_scope.
Local Open Scope list_scope.

(* ------------------------------------------------------------------ induction principle
   The Scheme-generated ast_mutind gives no hypothesis for children that sit under `option`
   (SIf's else branch, SFor's step, SDecl's initialiser, SReturn's value), so we derive a
   principle that does. *)
Section StrongInd.
  Variables (P : cexpr -> Prop) (Pes : cexprs -> Prop) (Ps : cstmt -> Prop) (Pss : cstmts -> Prop).
  Definition kids_e_ok (e : cexpr) : Prop :=
    match e with
    | ECast _ a | EUn _ a | EPost _ a | EMember a _ | EPtrMember a _ | ECallEmpty a => P a
    | EBin _ a b | EComma a b | EIndex a b | EAssign _ a b => P a /\ P b
    | ECond a b c => P a /\ P b /\ P c
    | ECall _ l | EMacro _ l | ELoad _ _ l => Pes l
    | EStmtExpr l s => Pss l /\ Ps s
    | _ => True
    end.
  Definition kids_s_ok (s : cstmt) : Prop :=
    match s with
    | SExpr e | SDecl _ _ (Some e) | SReturn (Some e) | SJump e => P e
    | SIf c t None => P c /\ Ps t
    | SIf c t (Some e) => P c /\ Ps t /\ Ps e
    | SFor i c (Some st) b => Ps i /\ Ps c /\ P st /\ Ps b
    | SFor i c None b => Ps i /\ Ps c /\ Ps b
    | SBlock l => Pss l
    | SStore _ _ l => Pes l
    | SLabel _ s | SCase s => Ps s
    | SWhile c b | SDo b c | SSwitch c b => P c /\ Ps b
    | _ => True
    end.
  Hypothesis He : forall e, kids_e_ok e -> P e.
  Hypothesis Hen : Pes ENil.
  Hypothesis Hec : forall e t, P e -> Pes t -> Pes (ECons e t).
  Hypothesis Hs : forall s, kids_s_ok s -> Ps s.
  Hypothesis Hsn : Pss SNil.
  Hypothesis Hsc : forall s t, Ps s -> Pss t -> Pss (SCons s t).

  Lemma ast_strong_e : forall e, P e
  with ast_strong_es : forall l, Pes l
  with ast_strong_s : forall s, Ps s
  with ast_strong_ss : forall l, Pss l.
  Proof.
    - intros e. apply He. destruct e; cbn [kids_e_ok]; repeat split; auto.
    - intros l. destruct l; [apply Hen | apply Hec; auto].
    - intros s. apply Hs.
      destruct s; try match goal with o : option _ |- _ => destruct o end; cbn [kids_s_ok]; repeat split; auto.
    - intros l. destruct l; [apply Hsn | apply Hsc; auto].
  Qed.

  Lemma ast_strong_ind : (forall e, P e) /\ (forall l, Pes l) /\ (forall s, Ps s) /\ (forall l, Pss l).
  Proof. repeat split; [apply ast_strong_e | apply ast_strong_es | apply ast_strong_s | apply ast_strong_ss]. Qed.
End StrongInd.

(* ------------------------------------------------------------------ fire = token_effect *)
Ltac fire_tac :=
  intros; unfold fire;
  let H := fresh "H" in
  pose proof relevant_callbacks_send as H; decompose [and] H; clear H;
  match goal with H' : sends ?a ?b = true |- context [sends ?a ?b] => rewrite H' end; reflexivity.

Lemma fire_new_reg b n f : fire "new_reg" "new_reg" b n f = token_effect "new_reg" b n f.
Proof. fire_tac. Qed.
Lemma fire_explicit_reg b n f : fire "explicit_reg" "explicit_reg" b n f = token_effect "explicit_reg" b n f.
Proof. fire_tac. Qed.
Lemma fire_jump b n f : fire "jump" "jump" b n f = token_effect "jump" b n f.
Proof. fire_tac. Qed.
Lemma fire_mem_load b n f : fire "mem_load" "mem_load" b n f = token_effect "mem_load" b n f.
Proof. fire_tac. Qed.
Lemma fire_mem_store b n f : fire "mem_store" "mem_store" b n f = token_effect "mem_store" b n f.
Proof. fire_tac. Qed.
Lemma fire_selection_stmt b n f : fire "selection_stmt" "selection_stmt" b n f = token_effect "selection_stmt" b n f.
Proof. fire_tac. Qed.
Lemma fire_pred_write b n f : fire "assignment_expr" "pred_write" b n f = token_effect "pred_write" b n f.
Proof. fire_tac. Qed.
Lemma alias_true : alias_new_sends_new_reg = true.
Proof. apply relevant_callbacks_send. Qed.

(* the token table, token by token *)
Lemma tok_new_reg b n f : token_effect "new_reg" b n f = upd f "f_new". Proof. reflexivity. Qed.
Lemma tok_explicit_reg b n f : token_effect "explicit_reg" b n f = if b then upd f "f_new" else f. Proof. reflexivity. Qed.
Lemma tok_jump b n f : token_effect "jump" b n f = upd f "f_branch". Proof. reflexivity. Qed.
Lemma tok_mem_load b n f : token_effect "mem_load" b n f = upd f "f_memr". Proof. reflexivity. Qed.
Lemma tok_mem_store b n f : token_effect "mem_store" b n f = upd f "f_memw". Proof. reflexivity. Qed.
Lemma tok_selection_stmt b n f : token_effect "selection_stmt" b n f = upd f "f_cond". Proof. reflexivity. Qed.
Lemma tok_pred_write b n f : token_effect "pred_write" b n f = add_pred (upd f "f_wpred") n. Proof. reflexivity. Qed.

Definition inrange (n : Z) : bool := ((0 <=? n) && (n <? 4))%Z.
Definition has (m : Z) (f : mflags) : bool := existsb (Z.eqb m) (f_preds f).

Lemma add_pred_flags f n :
  f_cond (add_pred f n) = f_cond f /\ f_new (add_pred f n) = f_new f /\ f_memw (add_pred f n) = f_memw f
  /\ f_memr (add_pred f n) = f_memr f /\ f_branch (add_pred f n) = f_branch f /\ f_wpred (add_pred f n) = f_wpred f.
Proof. unfold add_pred. destruct (_ && _); cbn; repeat split. Qed.
Lemma add_pred_cond f n : f_cond (add_pred f n) = f_cond f. Proof. apply add_pred_flags. Qed.
Lemma add_pred_new f n : f_new (add_pred f n) = f_new f. Proof. apply add_pred_flags. Qed.
Lemma add_pred_memw f n : f_memw (add_pred f n) = f_memw f. Proof. apply add_pred_flags. Qed.
Lemma add_pred_memr f n : f_memr (add_pred f n) = f_memr f. Proof. apply add_pred_flags. Qed.
Lemma add_pred_branch f n : f_branch (add_pred f n) = f_branch f. Proof. apply add_pred_flags. Qed.
Lemma add_pred_wpred f n : f_wpred (add_pred f n) = f_wpred f. Proof. apply add_pred_flags. Qed.

Lemma has_add_pred m f k : has m (add_pred f k) = has m f || (inrange m && Z.eqb k m).
Proof.
  unfold has, add_pred. fold (inrange k).
  destruct (inrange k) eqn:Hr; destruct (existsb (Z.eqb k) (f_preds f)) eqn:Hex; cbn [andb negb f_preds];
    destruct (Z.eqb_spec k m) as [E|E]; try subst m;
    rewrite ?existsb_app, ?Hr, ?Hex, ?andb_false_r, ?orb_false_r; cbn [existsb andb orb];
    rewrite ?Z.eqb_refl, ?orb_false_r, ?orb_true_r; try reflexivity.
  destruct (Z.eqb_spec m k) as [E'|E']; [congruence | rewrite orb_false_r; reflexivity].
Qed.
Lemma has_upd m f w : has m (upd f w) = has m f. Proof. reflexivity. Qed.

Lemma has_in m f : has m f = true <-> In m (f_preds f).
Proof.
  unfold has. rewrite existsb_exists. split.
  - intros (x & Hx & E). apply Z.eqb_eq in E. subst. assumption.
  - intros H. exists m. split; [assumption | apply Z.eqb_refl].
Qed.

(* ------------------------------------------------------------------ what a node contributes itself *)
Definition own_e (e : cexpr) (f : mflags) : mflags :=
  match e with
  | EOp o => meta_operand o f
  | EAssign _ l _ => match pred_dest l with Some n => fire "assignment_expr" "pred_write" false n f | None => f end
  | ELoad _ _ _ => fire "mem_load" "mem_load" false 0 f
  | _ => f
  end.
Definition own_s (s : cstmt) (f : mflags) : mflags :=
  match s with
  | SJump _ => fire "jump" "jump" false 0 f
  | SIf _ _ _ => fire "selection_stmt" "selection_stmt" false 0 f
  | SStore _ _ _ => fire "mem_store" "mem_store" false 0 f
  | _ => f
  end.

(* one-step unfoldings (cbn does not refold the sibling functions of a mutual fixpoint reliably) *)
Lemma meta_e_eq e f : meta_e e f =
  match e with
  | EOp o => meta_operand o f
  | ECast _ a | EUn _ a | EPost _ a | EMember a _ | EPtrMember a _ | ECallEmpty a => meta_e a f
  | EBin _ a b | EComma a b | EIndex a b => meta_e b (meta_e a f)
  | ECond a b c => meta_e c (meta_e b (meta_e a f))
  | EAssign _ l r =>
      match pred_dest l with Some n => fire "assignment_expr" "pred_write" false n (meta_e r (meta_e l f)) | None => meta_e r (meta_e l f) end
  | ECall _ l | EMacro _ l => meta_es l f
  | ELoad _ _ l => fire "mem_load" "mem_load" false 0 (meta_es l f)
  | EStmtExpr l s => meta_s s (meta_ss l f)
  | _ => f
  end.
Proof. destruct e; reflexivity. Qed.
Lemma meta_s_eq s f : meta_s s f =
  match s with
  | SExpr e | SDecl _ _ (Some e) | SReturn (Some e) => meta_e e f
  | SJump e => fire "jump" "jump" false 0 (meta_e e f)
  | SIf c t None => fire "selection_stmt" "selection_stmt" false 0 (meta_s t (meta_e c f))
  | SIf c t (Some e) => fire "selection_stmt" "selection_stmt" false 0 (meta_s e (meta_s t (meta_e c f)))
  | SFor i c (Some st) b => meta_s b (meta_e st (meta_s c (meta_s i f)))
  | SFor i c None b => meta_s b (meta_s c (meta_s i f))
  | SBlock l => meta_ss l f
  | SStore _ _ l => fire "mem_store" "mem_store" false 0 (meta_es l f)
  | SLabel _ s | SCase s => meta_s s f
  | _ => f
  end.
Proof. destruct s; try match goal with o : option _ |- _ => destruct o end; reflexivity. Qed.
Lemma meta_es_cons e t f : meta_es (ECons e t) f = meta_es t (meta_e e f). Proof. reflexivity. Qed.
Lemma meta_ss_cons s t f : meta_ss (SCons s t) f = meta_ss t (meta_s s f). Proof. reflexivity. Qed.
Lemma any_e_eq pe ps e : any_e pe ps e =
  pe e ||
  match e with
  | ECast _ a | EUn _ a | EPost _ a | EMember a _ | EPtrMember a _ | ECallEmpty a => any_e pe ps a
  | EBin _ a b | EComma a b | EIndex a b | EAssign _ a b => any_e pe ps a || any_e pe ps b
  | ECond a b c => any_e pe ps a || any_e pe ps b || any_e pe ps c
  | ECall _ l | EMacro _ l | ELoad _ _ l => any_es pe ps l
  | EStmtExpr l s => any_ss pe ps l || any_s pe ps s
  | _ => false
  end.
Proof. destruct e; reflexivity. Qed.
Lemma any_s_eq pe ps s : any_s pe ps s =
  ps s ||
  match s with
  | SExpr e | SDecl _ _ (Some e) | SReturn (Some e) | SJump e => any_e pe ps e
  | SIf c t None => any_e pe ps c || any_s pe ps t
  | SIf c t (Some e) => any_e pe ps c || any_s pe ps t || any_s pe ps e
  | SFor i c (Some st) b => any_s pe ps i || any_s pe ps c || any_e pe ps st || any_s pe ps b
  | SFor i c None b => any_s pe ps i || any_s pe ps c || any_s pe ps b
  | SBlock l => any_ss pe ps l
  | SStore _ _ l => any_es pe ps l
  | SLabel _ s | SCase s => any_s pe ps s
  | _ => false
  end.
Proof. destruct s; try match goal with o : option _ |- _ => destruct o end; reflexivity. Qed.
Lemma any_es_cons pe ps e t : any_es pe ps (ECons e t) = any_e pe ps e || any_es pe ps t. Proof. reflexivity. Qed.
Lemma any_ss_cons pe ps s t : any_ss pe ps (SCons s t) = any_s pe ps s || any_ss pe ps t. Proof. reflexivity. Qed.

Ltac split_ands := repeat match goal with H : _ /\ _ |- _ => destruct H end.
Ltac rew_ih := repeat match goal with H : forall f : mflags, _ = _ |- _ => rewrite H end.

(* generic accumulation: a boolean observation g of the flags that every node's own contribution
   turns on exactly when pe / ps holds at that node, is turned on by the traversal exactly when
   some node satisfies pe / ps. *)
Section Acc.
  Variable g : mflags -> bool.
  Variable pe : cexpr -> bool.
  Variable ps : cstmt -> bool.
  Hypothesis Hpe : forall e f, g (own_e e f) = g f || pe e.
  Hypothesis Hps : forall s f, g (own_s s f) = g f || ps s.

  Ltac expose_own own :=
    match goal with
    | |- g ?M = _ || (_ ?E || _) =>
        let F := fresh "F" in
        evar (F : mflags);
        let F' := eval unfold F in F in
        (replace M with (own E F') by (cbn [own_e own_s]; reflexivity)); clear F
    end.

  Lemma acc :
    (forall e f, g (meta_e e f) = g f || any_e pe ps e) /\
    (forall l f, g (meta_es l f) = g f || any_es pe ps l) /\
    (forall s f, g (meta_s s f) = g f || any_s pe ps s) /\
    (forall l f, g (meta_ss l f) = g f || any_ss pe ps l).
  Proof.
    apply ast_strong_ind.
    - intros e IH f. destruct e; cbn [kids_e_ok] in IH; split_ands; rewrite meta_e_eq, any_e_eq; cbv beta match;
        expose_own own_e; rewrite Hpe; rew_ih; btauto.
    - intros f. cbn. btauto.
    - intros e t IHe IHt f. rewrite meta_es_cons, any_es_cons. rew_ih. btauto.
    - intros s IH f.
      destruct s; try match goal with o : option _ |- _ => destruct o end;
        cbn [kids_s_ok] in IH; split_ands; rewrite meta_s_eq, any_s_eq; cbv beta match;
        expose_own own_s; rewrite Hps; rew_ih; btauto.
    - intros f. cbn. btauto.
    - intros s t IHs IHt f. rewrite meta_ss_cons, any_ss_cons. rew_ih. btauto.
  Qed.
End Acc.

(* generic invariant preservation *)
Section Inv.
  Variable Q : mflags -> Prop.
  Hypothesis HQ : forall tok b n f, Q f -> Q (token_effect tok b n f).

  Lemma Q_fire cb tok b n f : Q f -> Q (fire cb tok b n f).
  Proof. intros H. unfold fire. destruct (sends cb tok); auto. Qed.
  Lemma Q_operand o f : Q f -> Q (meta_operand o f).
  Proof. intros H. destruct o; cbn [meta_operand]; auto using Q_fire. destruct (_ && _); auto. Qed.

  Lemma inv :
    (forall e f, Q f -> Q (meta_e e f)) /\
    (forall l f, Q f -> Q (meta_es l f)) /\
    (forall s f, Q f -> Q (meta_s s f)) /\
    (forall l f, Q f -> Q (meta_ss l f)).
  Proof.
    apply ast_strong_ind.
    - intros e IH f Hf. destruct e; cbn [kids_e_ok] in IH; split_ands; rewrite meta_e_eq; cbv beta match;
        try match goal with |- context [pred_dest ?l] => destruct (pred_dest l) end;
        eauto 8 using Q_fire, Q_operand.
    - intros f Hf. exact Hf.
    - intros e t IHe IHt f Hf. rewrite meta_es_cons. auto.
    - intros s IH f Hf.
      destruct s; try match goal with o : option _ |- _ => destruct o end;
        cbn [kids_s_ok] in IH; split_ands; rewrite meta_s_eq; cbv beta match; eauto 8 using Q_fire.
    - intros f Hf. exact Hf.
    - intros s t IHs IHt f Hf. rewrite meta_ss_cons. auto.
  Qed.
End Inv.

(* scaling both node predicates by a constant *)
Lemma any_scale (c : bool) pe ps :
  (forall e, any_e (fun e => c && pe e) (fun s => c && ps s) e = c && any_e pe ps e) /\
  (forall l, any_es (fun e => c && pe e) (fun s => c && ps s) l = c && any_es pe ps l) /\
  (forall s, any_s (fun e => c && pe e) (fun s => c && ps s) s = c && any_s pe ps s) /\
  (forall l, any_ss (fun e => c && pe e) (fun s => c && ps s) l = c && any_ss pe ps l).
Proof.
  destruct c.
  - repeat split; intros; reflexivity.
  - cbn [andb]. apply ast_strong_ind.
    + intros e IH. destruct e; cbn [kids_e_ok] in IH; split_ands; rewrite any_e_eq; cbv beta match; cbn [orb];
        repeat match goal with H : _ = false |- _ => rewrite H; clear H end; reflexivity.
    + reflexivity.
    + intros e t IHe IHt. rewrite any_es_cons. rewrite IHe, IHt. reflexivity.
    + intros s IH. destruct s; try match goal with o : option _ |- _ => destruct o end;
        cbn [kids_s_ok] in IH; split_ands; rewrite any_s_eq; cbv beta match; cbn [orb];
        repeat match goal with H : _ = false |- _ => rewrite H; clear H end; reflexivity.
    + reflexivity.
    + intros s t IHs IHt. rewrite any_ss_cons. rewrite IHs, IHt. reflexivity.
Qed.

(* ------------------------------------------------------------------ the seven observations *)
Definition pe_new := fun e => match e with EOp o => is_new_operand o | _ => false end.
Definition pe_load := fun e => match e with ELoad _ _ _ => true | _ => false end.
Definition pe_wpred := fun e => match e with EAssign _ l _ => match pred_dest l with Some _ => true | None => false end | _ => false end.
Definition pe_num (n : Z) := fun e => match e with EAssign _ l _ => match pred_dest l with Some k => Z.eqb k n | None => false end | _ => false end.
Definition ps_if := fun s => match s with SIf _ _ _ => true | _ => false end.
Definition ps_store := fun s => match s with SStore _ _ _ => true | _ => false end.
Definition ps_jump := fun s => match s with SJump _ => true | _ => false end.

Ltac own_tac :=
  intros;
  match goal with
  | |- context [own_e ?e _] => destruct e; cbn [own_e]
  | |- context [own_s ?s _] => destruct s; cbn [own_s]
  end;
  unfold nope_e, nope_s, pe_new, pe_load, pe_wpred, pe_num, ps_if, ps_store, ps_jump;
  try match goal with o : operand |- _ => destruct o; cbn [meta_operand is_new_operand] end;
  try match goal with |- context [pred_dest ?l] => destruct (pred_dest l) end;
  rewrite ?alias_true, ?andb_true_r;
  rewrite ?fire_new_reg, ?fire_explicit_reg, ?fire_jump, ?fire_mem_load, ?fire_mem_store, ?fire_selection_stmt, ?fire_pred_write;
  rewrite ?tok_new_reg, ?tok_explicit_reg, ?tok_jump, ?tok_mem_load, ?tok_mem_store, ?tok_selection_stmt, ?tok_pred_write;
  try match goal with |- context [if ?b then _ else _] => destruct b end;
  rewrite ?add_pred_cond, ?add_pred_new, ?add_pred_memw, ?add_pred_memr, ?add_pred_branch, ?add_pred_wpred,
          ?has_add_pred, ?has_upd;
  unfold nope_e, nope_s, pe_new, pe_load, pe_wpred, pe_num, ps_if, ps_store, ps_jump;
  cbn; try btauto.

Lemma own_cond_e e f : f_cond (own_e e f) = f_cond f || nope_e e. Proof. own_tac. Qed.
Lemma own_cond_s s f : f_cond (own_s s f) = f_cond f || ps_if s. Proof. own_tac. Qed.
Lemma own_new_e e f : f_new (own_e e f) = f_new f || pe_new e. Proof. own_tac. Qed.
Lemma own_new_s s f : f_new (own_s s f) = f_new f || nope_s s. Proof. own_tac. Qed.
Lemma own_memw_e e f : f_memw (own_e e f) = f_memw f || nope_e e. Proof. own_tac. Qed.
Lemma own_memw_s s f : f_memw (own_s s f) = f_memw f || ps_store s. Proof. own_tac. Qed.
Lemma own_memr_e e f : f_memr (own_e e f) = f_memr f || pe_load e. Proof. own_tac. Qed.
Lemma own_memr_s s f : f_memr (own_s s f) = f_memr f || nope_s s. Proof. own_tac. Qed.
Lemma own_branch_e e f : f_branch (own_e e f) = f_branch f || nope_e e. Proof. own_tac. Qed.
Lemma own_branch_s s f : f_branch (own_s s f) = f_branch f || ps_jump s. Proof. own_tac. Qed.
Lemma own_wpred_e e f : f_wpred (own_e e f) = f_wpred f || pe_wpred e. Proof. own_tac. Qed.
Lemma own_wpred_s s f : f_wpred (own_s s f) = f_wpred f || nope_s s. Proof. own_tac. Qed.
Lemma own_has_e m e f : has m (own_e e f) = has m f || (inrange m && pe_num m e). Proof. own_tac. Qed.
Lemma own_has_s m s f : has m (own_s s f) = has m f || (inrange m && nope_s s). Proof. own_tac. Qed.

(* ------------------------------------------------------------------ invariants of the preds list *)
Lemma nodup_token tok b n f : NoDup (f_preds f) -> NoDup (f_preds (token_effect tok b n f)).
Proof.
  intros H. unfold token_effect, set_writes_mem, set_reads_mem, set_uses_new, set_branches, set_is_conditional, set_writes_pred.
  repeat match goal with |- context [if ?c then _ else _] => destruct c end; try exact H.
  unfold add_pred.
  destruct (_ && _) eqn:E; [| exact H].
  cbn [f_preds upd] in *. apply andb_prop in E. destruct E as [_ E].
  apply negb_true_iff in E.
  apply NoDup_rev in H. rewrite <- (rev_involutive (_ ++ _)). apply NoDup_rev. rewrite rev_app_distr. cbn.
  constructor; [| exact H].
  intros Hin. apply in_rev in Hin.
  assert (existsb (Z.eqb n) (f_preds f) = true) as E2
    by (apply existsb_exists; exists n; split; [assumption | apply Z.eqb_refl]).
  congruence.
Qed.

Lemma wpred_token tok b n f :
  (f_preds f <> [] -> f_wpred f = true) ->
  (f_preds (token_effect tok b n f) <> [] -> f_wpred (token_effect tok b n f) = true).
Proof.
  intros H. unfold token_effect, set_writes_mem, set_reads_mem, set_uses_new, set_branches, set_is_conditional, set_writes_pred.
  repeat match goal with |- context [if ?c then _ else _] => destruct c end; try exact H;
    try (cbn [upd f_preds f_wpred]; intros H1; rewrite (H H1); reflexivity).
  intros _. rewrite add_pred_wpred. cbn. apply orb_true_r.
Qed.

(* ------------------------------------------------------------------ main theorem *)
Theorem attrs_spec : forall p : cstmts,
  let f := meta_ss p clean in let s := spec_of p in
  f_cond f = s_cond s /\ f_new f = s_new s /\ f_memw f = s_memw s /\ f_memr f = s_memr s /\ f_branch f = s_branch s
  /\ f_wpred f = s_wpred s /\ (forall n, In n (f_preds f) <-> s_p s n = true) /\ NoDup (f_preds f).
Proof.
  intros p f s. subst f s. cbn [spec_of s_cond s_new s_memw s_memr s_branch s_wpred s_p].
  split; [ exact (proj2 (proj2 (proj2 (acc f_cond nope_e ps_if own_cond_e own_cond_s))) p clean) |].
  split; [ exact (proj2 (proj2 (proj2 (acc f_new pe_new nope_s own_new_e own_new_s))) p clean) |].
  split; [ exact (proj2 (proj2 (proj2 (acc f_memw nope_e ps_store own_memw_e own_memw_s))) p clean) |].
  split; [ exact (proj2 (proj2 (proj2 (acc f_memr pe_load nope_s own_memr_e own_memr_s))) p clean) |].
  split; [ exact (proj2 (proj2 (proj2 (acc f_branch nope_e ps_jump own_branch_e own_branch_s))) p clean) |].
  split; [ exact (proj2 (proj2 (proj2 (acc f_wpred pe_wpred nope_s own_wpred_e own_wpred_s))) p clean) |].
  split.
  - intros n. rewrite <- has_in.
    rewrite (proj2 (proj2 (proj2 (acc (has n) _ _ (own_has_e n) (own_has_s n)))) p clean).
    rewrite (proj2 (proj2 (proj2 (any_scale (inrange n) (pe_num n) nope_s))) p).
    reflexivity.
  - apply (proj2 (proj2 (proj2 (inv (fun f => NoDup (f_preds f)) nodup_token))) p clean). constructor.
Qed.
Print Assumptions attrs_spec.

Lemma preds_imply_wpred p : f_preds (meta_ss p clean) <> [] -> f_wpred (meta_ss p clean) = true.
Proof.
  apply (proj2 (proj2 (proj2 (inv (fun f => f_preds f <> [] -> f_wpred f = true) wpred_token))) p clean).
  intros H. exfalso. apply H. reflexivity.
Qed.

(* ------------------------------------------------------------------ the reported list *)
Definition wp_name (n : Z) : string :=
  ("HEX_IL_INSN_ATTR_WRITE_P" ++ String (Ascii.ascii_of_nat (48 + Z.to_nat n)) EmptyString)%string.

Lemma in_if1 (b : bool) (s x : string) : In x (if b then [s] else []) <-> (x = s /\ b = true).
Proof. destruct b; cbn; intuition congruence. Qed.

Lemma in_none_or (l : list string) x :
  In x (match l with [] => ["HEX_IL_INSN_ATTR_NONE"] | _ => l end) <-> In x l \/ (l = [] /\ x = "HEX_IL_INSN_ATTR_NONE").
Proof. destruct l; cbn; [intuition congruence | intuition discriminate]. Qed.

Definition meta_body (f : mflags) : list string :=
  (if f_cond f then ["HEX_IL_INSN_ATTR_COND"] else []) ++ (if f_new f then ["HEX_IL_INSN_ATTR_NEW"] else [])
  ++ (if f_memw f then ["HEX_IL_INSN_ATTR_MEM_WRITE"] else []) ++ (if f_memr f then ["HEX_IL_INSN_ATTR_MEM_READ"] else [])
  ++ (if f_branch f then ["HEX_IL_INSN_ATTR_BRANCH"] else [])
  ++ (if f_wpred f then ["HEX_IL_INSN_ATTR_WPRED"] ++ map wp_name (f_preds f) else []).
Lemma get_meta_body f : get_meta f = match meta_body f with [] => ["HEX_IL_INSN_ATTR_NONE"] | _ => meta_body f end.
Proof. reflexivity. Qed.
Lemma meta_body_nil f : meta_body f = [] <->
  (f_cond f = false /\ f_new f = false /\ f_memw f = false /\ f_memr f = false /\ f_branch f = false /\ f_wpred f = false).
Proof.
  unfold meta_body.
  destruct (f_cond f), (f_new f), (f_memw f), (f_memr f), (f_branch f), (f_wpred f); cbn [app];
    (split; [intros H; try discriminate H; repeat split; reflexivity
            | intros (A & B & C & D & E & F); try discriminate; reflexivity]).
Qed.

Lemma get_meta_in f x : In x (get_meta f) <->
     (x = "HEX_IL_INSN_ATTR_COND" /\ f_cond f = true) \/ (x = "HEX_IL_INSN_ATTR_NEW" /\ f_new f = true)
  \/ (x = "HEX_IL_INSN_ATTR_MEM_WRITE" /\ f_memw f = true) \/ (x = "HEX_IL_INSN_ATTR_MEM_READ" /\ f_memr f = true)
  \/ (x = "HEX_IL_INSN_ATTR_BRANCH" /\ f_branch f = true) \/ (x = "HEX_IL_INSN_ATTR_WPRED" /\ f_wpred f = true)
  \/ (f_wpred f = true /\ exists n, In n (f_preds f) /\ x = wp_name n)
  \/ (x = "HEX_IL_INSN_ATTR_NONE" /\ f_cond f = false /\ f_new f = false /\ f_memw f = false /\ f_memr f = false
      /\ f_branch f = false /\ f_wpred f = false).
Proof.
  rewrite get_meta_body, in_none_or, meta_body_nil. unfold meta_body. rewrite !in_app_iff, !in_if1.
  assert (In x (if f_wpred f then ["HEX_IL_INSN_ATTR_WPRED"] ++ map wp_name (f_preds f) else []) <->
          (x = "HEX_IL_INSN_ATTR_WPRED" /\ f_wpred f = true) \/ (f_wpred f = true /\ exists n, In n (f_preds f) /\ x = wp_name n)) as Hw.
  { destruct (f_wpred f); cbn [app In].
    - rewrite in_map_iff. split.
      + intros [E | (n & E & Hn)]; [left; split; congruence | right; split; [reflexivity | exists n; split; congruence]].
      + intros [[E _] | [_ (n & Hn & E)]]; [left; congruence | right; exists n; split; congruence].
    - split; [intros [] | intros [[_ E] | [E _]]; discriminate]. }
  rewrite Hw. clear Hw. tauto.
Qed.

Theorem attrs_list_spec : forall p x, In x (attrs p) <->
      (x = "HEX_IL_INSN_ATTR_COND" /\ contains_if p = true) \/ (x = "HEX_IL_INSN_ATTR_NEW" /\ reads_new p = true)
   \/ (x = "HEX_IL_INSN_ATTR_MEM_WRITE" /\ stores_mem p = true) \/ (x = "HEX_IL_INSN_ATTR_MEM_READ" /\ loads_mem p = true)
   \/ (x = "HEX_IL_INSN_ATTR_BRANCH" /\ jumps p = true) \/ (x = "HEX_IL_INSN_ATTR_WPRED" /\ assigns_pred p = true)
   \/ (exists n, (0 <= n < 4)%Z /\ assigns_numbered n p = true /\ x = ("HEX_IL_INSN_ATTR_WRITE_P" ++ String (Ascii.ascii_of_nat (48 + Z.to_nat n)) EmptyString)%string)
   \/ (x = "HEX_IL_INSN_ATTR_NONE" /\ contains_if p = false /\ reads_new p = false /\ stores_mem p = false /\ loads_mem p = false /\ jumps p = false /\ assigns_pred p = false).
Proof.
  intros p x. unfold attrs. rewrite get_meta_in.
  pose proof (preds_imply_wpred p) as Hpw.
  destruct (attrs_spec p) as (H1 & H2 & H3 & H4 & H5 & H6 & H7 & _).
  cbn [spec_of s_cond s_new s_memw s_memr s_branch s_wpred s_p] in *.
  rewrite H1, H2, H3, H4, H5, H6 in *.
  fold (wp_name).
  assert ((assigns_pred p = true /\ exists n, In n (f_preds (meta_ss p clean)) /\ x = wp_name n) <->
          (exists n, (0 <= n < 4)%Z /\ assigns_numbered n p = true /\ x = wp_name n)) as Hn.
  { split.
    - intros (_ & n & Hin & E). exists n. apply H7 in Hin. apply andb_prop in Hin. destruct Hin as [Hr Ha].
      apply andb_prop in Hr. destruct Hr as [Hr1 Hr2]. apply Z.leb_le in Hr1. apply Z.ltb_lt in Hr2.
      repeat split; assumption.
    - intros (n & [Hr1 Hr2] & Ha & E).
      assert (In n (f_preds (meta_ss p clean))) as Hin.
      { apply H7. rewrite Ha. apply Z.leb_le in Hr1. apply Z.ltb_lt in Hr2. rewrite Hr1, Hr2. reflexivity. }
      split; [| exists n; split; assumption].
      apply Hpw. intros E0. rewrite E0 in Hin. exact Hin. }
  unfold wp_name in Hn. unfold wp_name. rewrite Hn. reflexivity.
Qed.
Print Assumptions attrs_list_spec.

Example attrs_example :
  attrs (SCons (SIf (EOp (OExplicit "P0" true))
                    (SExpr (EAssign AAssign (EOp (OExplicit "P1" false)) (ELoad false 8 (ECons (EOp (OIdent "EA")) ENil))))
                    None) SNil)
  = ["HEX_IL_INSN_ATTR_COND"; "HEX_IL_INSN_ATTR_NEW"; "HEX_IL_INSN_ATTR_MEM_READ"; "HEX_IL_INSN_ATTR_WPRED"; "HEX_IL_INSN_ATTR_WRITE_P1"].
Proof. vm_compute. reflexivity. Qed.

Print Assumptions attrs_spec.
Print Assumptions attrs_list_spec.
