(* C06: soundness of the temporaries-written-before-read analysis of sem/TmpCheck.v
   (is_tmp, pure_ok, tdef, tdefS, clean, agree_off, stale_compat, stale_same_sorts, stale_fewer).

   Checker laws
     tdef_incl / tdefS_incl      tdef D e = Some D'  ==>  incl D D'
     tdef_mono / tdefS_mono      incl D1 D2, tdef D1 e = Some D1'  ==>  tdef D2 e = Some D2' with incl D1' D2'
     pure_ok_mono; tdefS_tdef    tdefS subs n D e = tdef D e when every call of e is unknown to subs
   Pures
     eval_agree                  agree_off D s1 s2, pure_ok D p = true  ==>  eval s1 lets p = eval s2 lets p
   Effects: every effect (ERepeat included), every fuel, no bound; tdefS: callees known to subs included (their
   instantiated bodies are analysed, call depth n); tdef: under calls_opaque subs e, as in SortSound.v.
     tdefS_sound / tdef_sound    reference run from s2 succeeds, agree_off D s1 s2, stale_compat D s1 s2'
                                 ==>  run from s1 succeeds and agree_off D' s1' s2'
     tdefS_sound_fewer           NO sort hypothesis: run from s1 succeeds, s2 holds fewer stale temporaries
                                 ==>  run from s2 succeeds, agree_off D' s1' s2'
     tdefS_sound_exact           for such s2:  run from s1 succeeds  <->  run from s2 succeeds /\ stale_compat D s1 s2'
     tdefS_noninterference / tdef_noninterference
                                 agree_off D s1 s2 and equally-sorted stale temporaries (arbitrary VALUES)
                                 ==>  both runs fail, or both succeed with agree_off D' and equally-sorted again
     run_then_clean_run, clean_run_then_run, run_iff_clean_run      the same against clean D s
     tdef_fresh_run_represents, tdef_run_represented_by_fresh       item 4
   False (module Examples): non-interference with no sort hypothesis (unconditional_noninterference_false);
   "clean run succeeds => run succeeds" (clean_run_does_not_imply_run): ESetL checks the sort of the OLD value, so
   a stale temporary of another sort makes the write fail (stale_sort_clash).  tdef without calls_opaque
   (known_callee_reads_temporary): a known callee body runs in the caller's locals. *)
From Coq Require Import ZArith NArith List Bool String Ascii Lia.
From RZ.lib Require Import BV.
From RZ.sem Require Import RzIL.
From RZ.proofs Require Import SortSound.
From RZ.sem Require Import TmpCheck.
Import ListNotations.
Local Open Scope string_scope.

(* ================================================================== lists of names *)
Lemma inb_spec x D : inb x D = true <-> In x D.
Proof.
  induction D as [|y D IH]; cbn [inb In].
  - split; [discriminate | contradiction].
  - rewrite orb_true_iff, IH, String.eqb_eq. split; intros [H|H]; auto.
Qed.

Lemma inb_false x D : inb x D = false <-> ~ In x D.
Proof.
  rewrite <- inb_spec. destruct (inb x D); split; intro H; try reflexivity; try discriminate.
  exfalso; apply H; reflexivity.
Qed.

Lemma meet_spec x D1 D2 : In x (meet D1 D2) <-> In x D1 /\ In x D2.
Proof. unfold meet. rewrite filter_In, inb_spec. reflexivity. Qed.

Lemma meet_incl_l D1 D2 : incl (meet D1 D2) D1.
Proof. intros x H. apply meet_spec in H. tauto. Qed.
Lemma meet_incl_r D1 D2 : incl (meet D1 D2) D2.
Proof. intros x H. apply meet_spec in H. tauto. Qed.
Lemma meet_mono A1 B1 A2 B2 : incl A1 A2 -> incl B1 B2 -> incl (meet A1 B1) (meet A2 B2).
Proof. intros HA HB x H. apply meet_spec in H. apply meet_spec. destruct H; auto. Qed.

Lemma inb_incl D1 D2 x : incl D1 D2 -> inb x D1 = true -> inb x D2 = true.
Proof. intros Hi H. apply inb_spec. apply Hi. apply inb_spec. exact H. Qed.

(* ================================================================== the checker is monotone *)
Ltac split_andb H :=
  repeat match type of H with
  | (_ && _)%bool = true => let H1 := fresh H in apply andb_true_iff in H; destruct H as [H H1]
  end.

Lemma pure_ok_mono D1 D2 : incl D1 D2 -> forall p, pure_ok D1 p = true -> pure_ok D2 p = true.
Proof.
  intros Hi p. induction p using pure_ind'; cbn [pure_ok]; intro Hp; try reflexivity;
    try (rewrite ?andb_true_iff in Hp |- *; tauto).
  - (* PVarL *)
    apply orb_true_iff in Hp. apply orb_true_iff. destruct Hp as [Hp|Hp]; [left; exact Hp|].
    right. eapply inb_incl; eassumption.
  - (* PApp *)
    match goal with HF : Forall _ _ |- _ => rename HF into HFl end.
    induction HFl as [|q l Hq HFl IHl]; [reflexivity|].
    cbn [forallb] in Hp |- *. apply andb_true_iff in Hp. destruct Hp as [Hp1 Hp2].
    apply andb_true_iff. split; [exact (Hq Hp1) | exact (IHl Hp2)].
Qed.

Lemma args_ok_mono D1 D2 args :
  incl D1 D2 -> forallb (arg_ok D1) args = true -> forallb (arg_ok D2) args = true.
Proof.
  intros Hi. induction args as [|a args IH]; [reflexivity|].
  cbn [forallb]. intro H. apply andb_true_iff in H. destruct H as [Ha Hr].
  apply andb_true_iff. split; [|exact (IH Hr)].
  destruct a as [p|r|t]; cbn [arg_ok] in Ha |- *; [|reflexivity|reflexivity].
  eapply pure_ok_mono; eassumption.
Qed.

(* one-step unfolding of the nested fixpoint *)
Lemma tdefS_eq subs n D e :
  tdefS subs n D e =
  match e with
  | ESetL x p => if pure_ok D p then Some (if is_tmp x then x :: D else D) else None
  | EWriteReg _ p => if pure_ok D p then Some D else None
  | EStore a v => if pure_ok D a && pure_ok D v then Some D else None
  | ESeq a b => match tdefS subs n D a with Some D1 => tdefS subs n D1 b | None => None end
  | EBranch c t f =>
      if pure_ok D c then
        match tdefS subs n D t, tdefS subs n D f with Some D1, Some D2 => Some (meet D1 D2) | _, _ => None end
      else None
  | ERepeat c b => if pure_ok D c then match tdefS subs n D b with Some _ => Some D | None => None end else None
  | ENop | EEmpty => Some D
  | ECall f args =>
      match subs f with
      | Some (ps, body) =>
          match n with
          | O => None
          | S m => tdefS subs m D (subst_eff (bind_params ps args) body)
          end
      | None => if forallb (arg_ok D) args then Some D else None
      end
  | EPlugin _ args => if forallb (arg_ok D) args then Some D else None
  end.
Proof. destruct n; destruct e; reflexivity. Qed.

Ltac unf H := rewrite tdefS_eq in H; cbv beta iota in H.

Section Mono.
  Variable subs : subenv.

  (* the analysis only ever adds temporaries *)
  Lemma tdefS_incl_step n :
    (forall m e D D', n = S m -> tdefS subs m D e = Some D' -> incl D D') ->
    forall e D D', tdefS subs n D e = Some D' -> incl D D'.
  Proof.
    intros IHcall. induction e as [x p|r p|a v|e1 IHe1 e2 IHe2|c e1 IHe1 e2 IHe2|c e IHe| | |f args|h args];
      intros D D' H; unf H.
    - destruct (pure_ok D p); [|discriminate H]. injection H as <-.
      destruct (is_tmp x); [apply incl_tl|]; apply incl_refl.
    - destruct (pure_ok D p); [|discriminate H]. injection H as <-. apply incl_refl.
    - destruct (pure_ok D a && pure_ok D v); [|discriminate H]. injection H as <-. apply incl_refl.
    - destruct (tdefS subs n D e1) as [D1|] eqn:T1; [|discriminate H].
      eapply incl_tran; [eapply IHe1; eassumption | eapply IHe2; eassumption].
    - destruct (pure_ok D c); [|discriminate H].
      destruct (tdefS subs n D e1) as [D1|] eqn:T1; [|discriminate H].
      destruct (tdefS subs n D e2) as [D2|] eqn:T2; [|discriminate H]. injection H as <-.
      intros y Hy. apply meet_spec. split; [eapply IHe1 | eapply IHe2]; eassumption.
    - destruct (pure_ok D c); [|discriminate H].
      destruct (tdefS subs n D e); [|discriminate H]. injection H as <-. apply incl_refl.
    - injection H as <-. apply incl_refl.
    - injection H as <-. apply incl_refl.
    - destruct (subs f) as [[ps body]|].
      + destruct n as [|m]; [discriminate H|]. eapply IHcall; [reflexivity | exact H].
      + destruct (forallb (arg_ok D) args); [|discriminate H]. injection H as <-. apply incl_refl.
    - destruct (forallb (arg_ok D) args); [|discriminate H]. injection H as <-. apply incl_refl.
  Qed.

  Lemma tdefS_incl : forall n e D D', tdefS subs n D e = Some D' -> incl D D'.
  Proof.
    induction n as [|k IHn]; apply tdefS_incl_step; intros m e D D' Hm H.
    - discriminate Hm.
    - injection Hm as <-. eapply IHn; exact H.
  Qed.

  (* knowing more temporaries written, the analysis accepts at least as much and concludes at least as much *)
  Lemma tdefS_mono_step n :
    (forall m e D1 D2 D1', n = S m -> incl D1 D2 -> tdefS subs m D1 e = Some D1' ->
       exists D2', tdefS subs m D2 e = Some D2' /\ incl D1' D2') ->
    forall e D1 D2 D1', incl D1 D2 -> tdefS subs n D1 e = Some D1' ->
      exists D2', tdefS subs n D2 e = Some D2' /\ incl D1' D2'.
  Proof.
    intros IHcall. induction e as [x p|r p|a v|e1 IHe1 e2 IHe2|c e1 IHe1 e2 IHe2|c e IHe| | |f args|h args];
      intros D1 D2 D1' Hi H; unf H; rewrite tdefS_eq; cbv beta iota.
    - destruct (pure_ok D1 p) eqn:Hp; [|discriminate H]. injection H as <-.
      rewrite (pure_ok_mono _ _ Hi _ Hp). eexists; split; [reflexivity|].
      destruct (is_tmp x); [|exact Hi]. intros y [Hy|Hy]; [left; exact Hy | right; exact (Hi _ Hy)].
    - destruct (pure_ok D1 p) eqn:Hp; [|discriminate H]. injection H as <-.
      rewrite (pure_ok_mono _ _ Hi _ Hp). eexists; split; [reflexivity | exact Hi].
    - destruct (pure_ok D1 a && pure_ok D1 v) eqn:Hp; [|discriminate H]. injection H as <-.
      apply andb_true_iff in Hp. destruct Hp as [Hpa Hpv].
      rewrite (pure_ok_mono _ _ Hi _ Hpa), (pure_ok_mono _ _ Hi _ Hpv). eexists; split; [reflexivity | exact Hi].
    - destruct (tdefS subs n D1 e1) as [M1|] eqn:T1; [|discriminate H].
      destruct (IHe1 _ _ _ Hi T1) as (M2 & T2 & Him). rewrite T2. exact (IHe2 _ _ _ Him H).
    - destruct (pure_ok D1 c) eqn:Hp; [|discriminate H]. rewrite (pure_ok_mono _ _ Hi _ Hp).
      destruct (tdefS subs n D1 e1) as [A1|] eqn:T1; [|discriminate H].
      destruct (tdefS subs n D1 e2) as [B1|] eqn:T2; [|discriminate H]. injection H as <-.
      destruct (IHe1 _ _ _ Hi T1) as (A2 & TA & HA). destruct (IHe2 _ _ _ Hi T2) as (B2 & TB & HB).
      rewrite TA, TB. eexists; split; [reflexivity | apply meet_mono; assumption].
    - destruct (pure_ok D1 c) eqn:Hp; [|discriminate H]. rewrite (pure_ok_mono _ _ Hi _ Hp).
      destruct (tdefS subs n D1 e) as [A1|] eqn:T1; [|discriminate H]. injection H as <-.
      destruct (IHe _ _ _ Hi T1) as (A2 & TA & HA). rewrite TA. eexists; split; [reflexivity | exact Hi].
    - injection H as <-. eexists; split; [reflexivity | exact Hi].
    - injection H as <-. eexists; split; [reflexivity | exact Hi].
    - destruct (subs f) as [[ps body]|].
      + destruct n as [|m]; [discriminate H|]. eapply IHcall; [reflexivity | exact Hi | exact H].
      + destruct (forallb (arg_ok D1) args) eqn:Ha; [|discriminate H]. injection H as <-.
        rewrite (args_ok_mono _ _ _ Hi Ha). eexists; split; [reflexivity | exact Hi].
    - destruct (forallb (arg_ok D1) args) eqn:Ha; [|discriminate H]. injection H as <-.
      rewrite (args_ok_mono _ _ _ Hi Ha). eexists; split; [reflexivity | exact Hi].
  Qed.

  Lemma tdefS_mono : forall n e D1 D2 D1', incl D1 D2 -> tdefS subs n D1 e = Some D1' ->
    exists D2', tdefS subs n D2 e = Some D2' /\ incl D1' D2'.
  Proof.
    induction n as [|k IHn]; apply tdefS_mono_step; intros m e D1 D2 D1' Hm Hi H.
    - discriminate Hm.
    - injection Hm as <-. eapply IHn; eassumption.
  Qed.

  (* where every call is to a callee [subs] does not know, the environment-free checker is the same analysis *)
  Lemma tdefS_tdef n : forall e D, calls_opaque subs e -> tdefS subs n D e = tdef D e.
  Proof.
    induction e as [x p|r p|a v|e1 IHe1 e2 IHe2|c e1 IHe1 e2 IHe2|c e IHe| | |f args|h args];
      intros D Hop; rewrite tdefS_eq; cbn [tdef calls_opaque] in Hop |- *; try reflexivity.
    - destruct Hop as [H1 H2]. rewrite (IHe1 _ H1). destruct (tdef D e1); [apply IHe2; exact H2 | reflexivity].
    - destruct Hop as [H1 H2]. rewrite (IHe1 _ H1), (IHe2 _ H2). reflexivity.
    - rewrite (IHe _ Hop). reflexivity.
    - rewrite Hop. reflexivity.
  Qed.
End Mono.

Lemma calls_opaque_none e : calls_opaque (fun _ => None) e.
Proof. induction e; cbn [calls_opaque]; auto. Qed.

Lemma tdef_as_tdefS D e : tdef D e = tdefS (fun _ => None) 0 D e.
Proof. symmetry. apply tdefS_tdef. apply calls_opaque_none. Qed.

(* item 6 of the task, for tdef *)
Theorem tdef_incl : forall e D D', tdef D e = Some D' -> incl D D'.
Proof. intros e D D' H. rewrite tdef_as_tdefS in H. eapply tdefS_incl; exact H. Qed.

Theorem tdef_mono : forall e D1 D2 D1', incl D1 D2 -> tdef D1 e = Some D1' ->
  exists D2', tdef D2 e = Some D2' /\ incl D1' D2'.
Proof.
  intros e D1 D2 D1' Hi H. rewrite tdef_as_tdefS in H.
  destruct (tdefS_mono _ _ _ _ _ _ Hi H) as (D2' & H2 & Hi'). exists D2'. rewrite tdef_as_tdefS. auto.
Qed.

(* ================================================================== states *)
Lemma same_machine_refl s : same_machine s s.
Proof. unfold same_machine. repeat split. Qed.
Lemma same_machine_sym s1 s2 : same_machine s1 s2 -> same_machine s2 s1.
Proof. unfold same_machine. intros (H1 & H2 & H3 & H4 & H5 & H6 & H7 & H8). repeat split; symmetry; assumption. Qed.
Lemma same_machine_trans s1 s2 s3 : same_machine s1 s2 -> same_machine s2 s3 -> same_machine s1 s3.
Proof.
  unfold same_machine. intros (H1 & H2 & H3 & H4 & H5 & H6 & H7 & H8) (K1 & K2 & K3 & K4 & K5 & K6 & K7 & K8).
  repeat split; etransitivity; eassumption.
Qed.

Lemma agree_off_refl D s : agree_off D s s.
Proof. split; [apply same_machine_refl | reflexivity]. Qed.
Lemma agree_off_sym D s1 s2 : agree_off D s1 s2 -> agree_off D s2 s1.
Proof. intros [Hm Hl]. split; [apply same_machine_sym; exact Hm | intros x Hx; symmetry; apply Hl; exact Hx]. Qed.
Lemma agree_off_trans D s1 s2 s3 : agree_off D s1 s2 -> agree_off D s2 s3 -> agree_off D s1 s3.
Proof.
  intros [Hm Hl] [Km Kl]. split; [eapply same_machine_trans; eassumption|].
  intros x Hx. rewrite (Hl x Hx). apply Kl; exact Hx.
Qed.
(* agreeing off a larger set is the stronger statement *)
Lemma agree_off_weaken D D' s1 s2 : incl D' D -> agree_off D s1 s2 -> agree_off D' s1 s2.
Proof. intros Hi [Hm Hl]. split; [exact Hm|]. intros x [Hx|Hx]; apply Hl; [left; exact Hx | right; exact (Hi _ Hx)]. Qed.

Lemma agree_set_local D s1 s2 x v :
  agree_off D s1 s2 -> agree_off (if is_tmp x then x :: D else D) (set_local s1 x v) (set_local s2 x v).
Proof.
  intros [Hm Hl]. split; [exact Hm|].
  intros y Hy. cbn [locals set_local]. rewrite !lookup_cons. destruct (String.eqb y x) eqn:E; [reflexivity|].
  apply Hl. destruct Hy as [Hy|Hy]; [left; exact Hy|].
  destruct (is_tmp x); [|right; exact Hy].
  destruct Hy as [Hy|Hy]; [|right; exact Hy]. subst y. rewrite String.eqb_refl in E. discriminate E.
Qed.
Lemma agree_set_reg D s1 s2 r v : agree_off D s1 s2 -> agree_off D (set_reg s1 r v) (set_reg s2 r v).
Proof.
  intros [Hm Hl]. split; [|exact Hl]. unfold same_machine in *.
  destruct Hm as (H1 & H2 & H3 & H4 & H5 & H6 & H7 & H8).
  cbn [set_reg rold rnew rnew0 imms pktaddr mem mem0 events]. rewrite H2. repeat split; assumption.
Qed.
Lemma agree_set_mem D s1 s2 m1 m2 : agree_off D s1 s2 -> m1 = m2 -> agree_off D (set_mem s1 m1) (set_mem s2 m2).
Proof.
  intros [Hm Hl] ->. split; [|exact Hl]. unfold same_machine in *.
  destruct Hm as (H1 & H2 & H3 & H4 & H5 & H6 & H7 & H8).
  cbn [set_mem rold rnew rnew0 imms pktaddr mem mem0 events]. repeat split; assumption.
Qed.
Lemma agree_add_event D s1 s2 h a : agree_off D s1 s2 -> agree_off D (add_event s1 h a) (add_event s2 h a).
Proof.
  intros [Hm Hl]. split; [|exact Hl]. unfold same_machine in *.
  destruct Hm as (H1 & H2 & H3 & H4 & H5 & H6 & H7 & H8).
  cbn [add_event rold rnew rnew0 imms pktaddr mem mem0 events]. rewrite H8. repeat split; assumption.
Qed.

(* ================================================================== pures *)
Section Pures.
  Variable rw : regwidth.

  Lemma read_bytes_same s1 s2 : mem s1 = mem s2 -> mem0 s1 = mem0 s2 ->
    forall n a, read_bytes s1 a n = read_bytes s2 a n.
  Proof.
    intros Hm H0. induction n as [|n IH]; intro a; cbn [read_bytes]; [reflexivity|].
    rewrite IH. unfold read_byte. rewrite Hm, H0. reflexivity.
  Qed.
  Lemma read_reg_same s1 s2 r n : same_machine s1 s2 -> read_reg rw s1 r n = read_reg rw s2 r n.
  Proof.
    intros (H1 & H2 & H3 & H4 & H5 & H6 & H7 & H8). unfold read_reg. rewrite H1, H2, H3. reflexivity.
  Qed.

  Definition eval_same (D : list string) (s1 s2 : mstate) (p : pure) : Prop :=
    forall lets, pure_ok D p = true -> eval rw s1 lets p = eval rw s2 lets p.

  Lemma app_go_same D s1 s2 h (l : list pure) lets :
    Forall (eval_same D s1 s2) l -> forallb (pure_ok D) l = true ->
    forall acc,
      (fix go (l : list pure) (acc : list val) : option val :=
         match l with
         | [] => app_sem h (rev acc)
         | x :: t => match eval rw s1 lets x with Some v => go t (v :: acc) | None => None end
         end) l acc =
      (fix go (l : list pure) (acc : list val) : option val :=
         match l with
         | [] => app_sem h (rev acc)
         | x :: t => match eval rw s2 lets x with Some v => go t (v :: acc) | None => None end
         end) l acc.
  Proof.
    intro HF. induction HF as [|x l Hx HF IH]; intros Hok acc; [reflexivity|].
    cbn [forallb] in Hok. apply andb_true_iff in Hok. destruct Hok as [Hox Hol].
    rewrite (Hx lets Hox). destruct (eval rw s2 lets x) as [v|]; [|reflexivity]. apply IH. exact Hol.
  Qed.

  (* the value of a pure does not depend on the temporaries it does not read *)
  Lemma eval_agree_aux D s1 s2 : agree_off D s1 s2 -> forall p, eval_same D s1 s2 p.
  Proof.
    intros [Hm Hl]. pose proof Hm as (H1 & H2 & H3 & H4 & H5 & H6 & H7 & H8).
    induction p using pure_ind'; intros lets Hok; cbn [pure_ok] in Hok; split_andb Hok; cbn [eval];
      try reflexivity;
      repeat match goal with
      | IH : eval_same _ _ _ ?q, Hq : pure_ok _ ?q = true |- _ => rewrite (IH lets Hq); clear IH
      end;
      try reflexivity.
    - (* PVarL *) apply Hl. apply orb_true_iff in Hok. destruct Hok as [Hok|Hok].
      + left. destruct (is_tmp x); [discriminate Hok | reflexivity].
      + right. apply inb_spec. exact Hok.
    - (* PLet *) destruct (eval rw s2 lets p1) as [v|]; [|reflexivity]. apply IHp2. exact Hok0.
    - (* PReg *) rewrite (read_reg_same s1 s2 r n Hm). reflexivity.
    - (* PImm *) rewrite H4. reflexivity.
    - (* PPktAddr *) rewrite H5. reflexivity.
    - (* PLoad *) destruct (eval rw s2 lets p) as [[w0 x|]|]; try reflexivity.
      rewrite (read_bytes_same s1 s2 H6 H7). reflexivity.
    - (* PApp *) match goal with HF : Forall _ _ |- _ => exact (app_go_same D s1 s2 h l lets HF Hok []) end.
  Qed.

  Theorem eval_agree : forall D s1 s2 lets p,
    agree_off D s1 s2 -> pure_ok D p = true -> eval rw s1 lets p = eval rw s2 lets p.
  Proof. intros D s1 s2 lets p Hag Hok. exact (eval_agree_aux D s1 s2 Hag p lets Hok). Qed.
End Pures.
Print Assumptions eval_agree.

(* ================================================================== effects *)
(* l' binds everything l binds, to values of the same sort (what exec_locals_mono gives) *)
Definition lmono (l l' : list (string * val)) : Prop :=
  forall x v, lookup x l = Some v -> exists v', lookup x l' = Some v' /\ sort_of_val v' = sort_of_val v.
(* no name is bound to values of different sorts in the two lists *)
Definition compat (l1 l2 : list (string * val)) : Prop :=
  forall x v1 v2, lookup x l1 = Some v1 -> lookup x l2 = Some v2 -> sort_of_val v1 = sort_of_val v2.
(* every binding of l1' is inherited from l1 or shared with l2', up to the sort *)
Definition origin (l1 l1' l2' : list (string * val)) : Prop :=
  forall x v, lookup x l1' = Some v ->
    (exists v0, lookup x l1 = Some v0 /\ sort_of_val v0 = sort_of_val v) \/
    (exists v2, lookup x l2' = Some v2 /\ sort_of_val v2 = sort_of_val v).

Lemma lmono_refl l : lmono l l.
Proof. intros x v H. eauto. Qed.
Lemma origin_refl l l2 : origin l l l2.
Proof. intros x v H. left. eauto. Qed.
Lemma compat_mid l1 l2m l2' : compat l1 l2' -> lmono l2m l2' -> compat l1 l2m.
Proof.
  intros Hc Hm x v1 vm Hx1 Hxm. destruct (Hm _ _ Hxm) as (v' & Hx' & Hs). rewrite (Hc _ _ _ Hx1 Hx'). exact Hs.
Qed.
Lemma compat_next l1 l1m l2m l2' : compat l1 l2' -> lmono l2m l2' -> origin l1 l1m l2m -> compat l1m l2'.
Proof.
  intros Hc Hm Ho x v1m v2' Hx1 Hx2. destruct (Ho _ _ Hx1) as [(v0 & Hx0 & Hs)|(vm & Hxm & Hs)].
  - rewrite <- Hs. exact (Hc _ _ _ Hx0 Hx2).
  - destruct (Hm _ _ Hxm) as (v' & Hx' & Hs'). rewrite Hx2 in Hx'. injection Hx' as <-. congruence.
Qed.
Lemma origin_trans l1 l1m l1' l2m l2' :
  origin l1 l1m l2m -> origin l1m l1' l2' -> lmono l2m l2' -> origin l1 l1' l2'.
Proof.
  intros Ho1 Ho2 Hm x v Hx. destruct (Ho2 _ _ Hx) as [(vm & Hxm & Hs)|Hr]; [|right; exact Hr].
  destruct (Ho1 _ _ Hxm) as [(v0 & Hx0 & Hs0)|(v2 & Hx2 & Hs2)].
  - left. exists v0. split; [exact Hx0 | congruence].
  - right. destruct (Hm _ _ Hx2) as (v' & Hx' & Hs'). exists v'. split; [exact Hx' | congruence].
Qed.

Section Effects.
  Variable rw : regwidth.
  Variable subs : subenv.

  Lemma exec_lmono fuel e s s' : exec rw subs fuel e s = Some s' -> lmono (locals s) (locals s').
  Proof. intros He x v Hx. exact (exec_locals_mono rw subs fuel e s s' He x v Hx). Qed.

  (* The core: s2 is the reference run.  If it succeeds and nothing s1 holds clashes in sort with what the
     reference run ends with, the run from s1 succeeds too and the results agree off D'. *)
  Lemma tdefS_sound_aux : forall fuel n e D D' s1 s2 s2',
    tdefS subs n D e = Some D' -> agree_off D s1 s2 ->
    exec rw subs fuel e s2 = Some s2' -> compat (locals s1) (locals s2') ->
    exists s1', exec rw subs fuel e s1 = Some s1' /\ agree_off D' s1' s2' /\
                origin (locals s1) (locals s1') (locals s2').
  Proof.
    induction fuel as [|k IH]; intros n e D D' s1 s2 s2' Htd Hag He Hc; [discriminate He|].
    destruct e as [x p|r p|a v|e1 e2|c e1 e2|c e| | |f args|h args]; unf Htd; cbn [exec] in He |- *.
    - (* ESetL *)
      destruct (pure_ok D p) eqn:Hp; [|discriminate Htd]. injection Htd as <-.
      rewrite (eval_agree rw D s1 s2 [] p Hag Hp).
      destruct (eval rw s2 [] p) as [v|]; [|discriminate He].
      assert (Hs2 : s2' = set_local s2 x v).
      { destruct (lookup x (locals s2)); [destruct (sort_eqb _ _)|]; congruence. }
      subst s2'.
      assert (E1 : match lookup x (locals s1) with
                   | Some old => if sort_eqb (sort_of_val old) (sort_of_val v) then Some (set_local s1 x v) else None
                   | None => Some (set_local s1 x v) end = Some (set_local s1 x v)).
      { destruct (lookup x (locals s1)) as [old|] eqn:El; [|reflexivity].
        assert (Hsv : sort_of_val old = sort_of_val v).
        { apply (Hc x old v El). cbn [locals set_local]. rewrite lookup_cons, String.eqb_refl. reflexivity. }
        rewrite Hsv, sort_eqb_refl. reflexivity. }
      rewrite E1. eexists. split; [reflexivity|]. split; [apply agree_set_local; exact Hag|].
      intros y u Hy. cbn [locals set_local] in Hy |- *. rewrite lookup_cons in Hy. rewrite lookup_cons.
      destruct (String.eqb y x); [right | left]; eauto.
    - (* EWriteReg *)
      destruct (pure_ok D p) eqn:Hp; [|discriminate Htd]. injection Htd as <-.
      rewrite (eval_agree rw D s1 s2 [] p Hag Hp).
      destruct (eval rw s2 [] p) as [[w v|]|]; try discriminate He.
      destruct (N.eqb w (rw r)); [|discriminate He]. injection He as <-.
      eexists. split; [reflexivity|]. split; [apply agree_set_reg; exact Hag | apply origin_refl].
    - (* EStore *)
      destruct (pure_ok D a && pure_ok D v) eqn:Hp; [|discriminate Htd]. injection Htd as <-.
      apply andb_true_iff in Hp. destruct Hp as [Hpa Hpv].
      rewrite (eval_agree rw D s1 s2 [] a Hag Hpa), (eval_agree rw D s1 s2 [] v Hag Hpv).
      destruct (eval rw s2 [] a) as [[wa xa|]|]; try discriminate He.
      destruct (eval rw s2 [] v) as [[wv xv|]|]; try discriminate He.
      injection He as <-. eexists. split; [reflexivity|]. split; [|apply origin_refl].
      apply agree_set_mem; [exact Hag|]. destruct Hag as [(H1 & H2 & H3 & H4 & H5 & H6 & H7 & H8) _].
      rewrite H6. reflexivity.
    - (* ESeq *)
      destruct (tdefS subs n D e1) as [D1|] eqn:T1; [|discriminate Htd].
      destruct (exec rw subs k e1 s2) as [s2m|] eqn:E1; [|discriminate He].
      pose proof (exec_lmono _ _ _ _ He) as Hm.
      destruct (IH n e1 D D1 s1 s2 s2m T1 Hag E1 (compat_mid _ _ _ Hc Hm)) as (s1m & X1 & Ag1 & Or1).
      rewrite X1.
      destruct (IH n e2 D1 D' s1m s2m s2' Htd Ag1 He (compat_next _ _ _ _ Hc Hm Or1)) as (s1' & X2 & Ag2 & Or2).
      exists s1'. split; [exact X2|]. split; [exact Ag2|]. exact (origin_trans _ _ _ _ _ Or1 Or2 Hm).
    - (* EBranch *)
      destruct (pure_ok D c) eqn:Hp; [|discriminate Htd].
      destruct (tdefS subs n D e1) as [D1|] eqn:T1; [|discriminate Htd].
      destruct (tdefS subs n D e2) as [D2|] eqn:T2; [|discriminate Htd]. injection Htd as <-.
      rewrite (eval_agree rw D s1 s2 [] c Hag Hp).
      destruct (eval rw s2 [] c) as [[w v|[|]]|]; try discriminate He.
      + destruct (IH n e1 D D1 s1 s2 s2' T1 Hag He Hc) as (s1' & X & Ag & Or).
        exists s1'. split; [exact X|]. split; [|exact Or].
        eapply agree_off_weaken; [apply meet_incl_l | exact Ag].
      + destruct (IH n e2 D D2 s1 s2 s2' T2 Hag He Hc) as (s1' & X & Ag & Or).
        exists s1'. split; [exact X|]. split; [|exact Or].
        eapply agree_off_weaken; [apply meet_incl_r | exact Ag].
    - (* ERepeat: the state after the body agrees off D1 >= D, hence off D: the loop is re-entered from D *)
      pose proof Htd as Htd0.
      destruct (pure_ok D c) eqn:Hp; [|discriminate Htd].
      destruct (tdefS subs n D e) as [D1|] eqn:T1; [|discriminate Htd]. injection Htd as <-.
      rewrite (eval_agree rw D s1 s2 [] c Hag Hp).
      destruct (eval rw s2 [] c) as [[w v|[|]]|]; try discriminate He.
      + destruct (exec rw subs k e s2) as [s2m|] eqn:E1; [|discriminate He].
        pose proof (exec_lmono _ _ _ _ He) as Hm.
        destruct (IH n e D D1 s1 s2 s2m T1 Hag E1 (compat_mid _ _ _ Hc Hm)) as (s1m & X1 & Ag1 & Or1).
        rewrite X1.
        assert (Ag1' : agree_off D s1m s2m).
        { eapply agree_off_weaken; [|exact Ag1]. eapply tdefS_incl; exact T1. }
        assert (Htd1 : tdefS subs n D (ERepeat c e) = Some D).
        { rewrite tdefS_eq. rewrite Hp, T1. reflexivity. }
        destruct (IH n (ERepeat c e) D D s1m s2m s2' Htd1 Ag1' He (compat_next _ _ _ _ Hc Hm Or1))
          as (s1' & X2 & Ag2 & Or2).
        exists s1'. split; [exact X2|]. split; [exact Ag2|]. exact (origin_trans _ _ _ _ _ Or1 Or2 Hm).
      + injection He as <-. exists s1. split; [reflexivity|]. split; [exact Hag | apply origin_refl].
    - (* ENop *) injection Htd as <-. injection He as <-. exists s1. split; [reflexivity|]. split; [exact Hag | apply origin_refl].
    - (* EEmpty *) injection Htd as <-. injection He as <-. exists s1. split; [reflexivity|]. split; [exact Hag | apply origin_refl].
    - (* ECall *)
      destruct (subs f) as [[ps body]|].
      + destruct n as [|m]; [discriminate Htd|]. exact (IH m _ D D' s1 s2 s2' Htd Hag He Hc).
      + destruct (forallb (arg_ok D) args); [|discriminate Htd]. injection Htd as <-. injection He as <-.
        eexists. split; [reflexivity|]. split; [apply agree_add_event; exact Hag | apply origin_refl].
    - (* EPlugin *)
      destruct (forallb (arg_ok D) args); [|discriminate Htd]. injection Htd as <-. injection He as <-.
      eexists. split; [reflexivity|]. split; [apply agree_add_event; exact Hag | apply origin_refl].
  Qed.
End Effects.
Print Assumptions tdefS_sound_aux.

(* ================================================================== the theorems *)
Lemma lmono_same_sorts l1 l2 x : lmono l1 l2 -> lmono l2 l1 ->
  option_map sort_of_val (lookup x l1) = option_map sort_of_val (lookup x l2).
Proof.
  intros H12 H21. destruct (lookup x l1) as [v1|] eqn:E1.
  - destruct (H12 _ _ E1) as (v2 & E2 & Hs). rewrite E2. cbn [option_map]. congruence.
  - destruct (lookup x l2) as [v2|] eqn:E2; [|reflexivity].
    destruct (H21 _ _ E2) as (v1 & E1' & Hs). congruence.
Qed.

Lemma stale_cases x D : (is_tmp x = false \/ In x D) \/ (is_tmp x = true /\ ~ In x D).
Proof.
  destruct (is_tmp x); [|left; left; reflexivity].
  destruct (inb x D) eqn:E; [left; right; apply inb_spec; exact E | right; split; [reflexivity | apply inb_false; exact E]].
Qed.

(* the sort hypotheses only have to be stated for the temporaries outside D: on the rest the states are equal *)
Lemma compat_of_stale D s1 s2 s2' :
  agree_off D s1 s2 -> lmono (locals s2) (locals s2') -> stale_compat D s1 s2' -> compat (locals s1) (locals s2').
Proof.
  intros [_ Hl] Hm Hst x v1 v2 Hx1 Hx2. destruct (stale_cases x D) as [Hx|[Ht Hn]].
  - rewrite (Hl x Hx) in Hx1. destruct (Hm _ _ Hx1) as (v' & Hx' & Hs). congruence.
  - exact (Hst x v1 v2 Ht Hn Hx1 Hx2).
Qed.
Lemma lmono_of_fewer D s2 s1 : agree_off D s1 s2 -> stale_fewer D s2 s1 -> lmono (locals s2) (locals s1).
Proof.
  intros [_ Hl] Hf x v Hx. destruct (stale_cases x D) as [Hx'|[Ht Hn]].
  - rewrite <- (Hl x Hx') in Hx. eauto.
  - exact (Hf x v Ht Hn Hx).
Qed.

Section Theorems.
  Variable rw : regwidth.
  Variable subs : subenv.

  (* MAIN THEOREM (every effect, every fuel, every call depth n, known callees included).
     s2 is a reference run that succeeds.  Any state s1 that differs from s2 only in temporaries not yet
     written (values AND presence), and whose stale temporaries do not clash in SORT with what the reference
     run leaves in them, runs successfully as well, to a result that differs only in temporaries outside D'. *)
  Theorem tdefS_sound : forall fuel n e D D' s1 s2 s2',
    tdefS subs n D e = Some D' -> agree_off D s1 s2 ->
    exec rw subs fuel e s2 = Some s2' -> stale_compat D s1 s2' ->
    exists s1', exec rw subs fuel e s1 = Some s1' /\ agree_off D' s1' s2'.
  Proof.
    intros fuel n e D D' s1 s2 s2' Htd Hag He Hst.
    destruct (tdefS_sound_aux rw subs fuel n e D D' s1 s2 s2' Htd Hag He) as (s1' & X & Ag & _).
    - eapply compat_of_stale; [exact Hag | eapply exec_lmono; exact He | exact Hst].
    - eauto.
  Qed.

  (* ONE DIRECTION NEEDS NO SORT HYPOTHESIS AT ALL: dropping stale temporaries never hurts.  If the run from s1
     succeeds, so does the run from any s2 that agrees off D and holds FEWER stale temporaries. *)
  Theorem tdefS_sound_fewer : forall fuel n e D D' s1 s2 s1',
    tdefS subs n D e = Some D' -> agree_off D s1 s2 -> stale_fewer D s2 s1 ->
    exec rw subs fuel e s1 = Some s1' ->
    exists s2', exec rw subs fuel e s2 = Some s2' /\ agree_off D' s1' s2' /\ lmono (locals s2') (locals s1').
  Proof.
    intros fuel n e D D' s1 s2 s1' Htd Hag Hf He.
    pose proof (lmono_of_fewer D s2 s1 Hag Hf) as Hm21.
    pose proof (exec_lmono rw subs _ _ _ _ He) as Hm1.
    destruct (tdefS_sound_aux rw subs fuel n e D D' s2 s1 s1' Htd (agree_off_sym _ _ _ Hag) He) as (s2' & X & Ag & Or).
    - intros x v2 v1' Hx2 Hx1'. destruct (Hm21 _ _ Hx2) as (v1 & Hx1 & Hs).
      destruct (Hm1 _ _ Hx1) as (v' & Hx' & Hs'). congruence.
    - exists s2'. split; [exact X|]. split; [apply agree_off_sym; exact Ag|].
      intros x v Hx. destruct (Or _ _ Hx) as [(v0 & Hx0 & Hs0)|Hr]; [|exact Hr].
      destruct (Hm21 _ _ Hx0) as (v1 & Hx1 & Hs1). destruct (Hm1 _ _ Hx1) as (v' & Hx' & Hs').
      exists v'. split; [exact Hx' | congruence].
  Qed.

  (* NON-INTERFERENCE, symmetric form: if the stale temporaries are bound in both states or in neither, to
     values of the same sort (their VALUES are arbitrary), the two runs both fail or both succeed, with results
     that agree off D' and again have equally-sorted stale temporaries. *)
  Theorem tdefS_noninterference : forall fuel n e D D' s1 s2,
    tdefS subs n D e = Some D' -> agree_off D s1 s2 -> stale_same_sorts D s1 s2 ->
    match exec rw subs fuel e s1, exec rw subs fuel e s2 with
    | Some s1', Some s2' => agree_off D' s1' s2' /\ stale_same_sorts D' s1' s2'
    | None, None => True
    | _, _ => False
    end.
  Proof.
    intros fuel n e D D' s1 s2 Htd Hag Hss.
    assert (F21 : stale_fewer D s2 s1).
    { intros x v2 Ht Hn Hx. specialize (Hss x Ht Hn). rewrite Hx in Hss.
      destruct (lookup x (locals s1)) as [v1|]; [|discriminate Hss]. cbn [option_map] in Hss.
      exists v1. split; [reflexivity | congruence]. }
    assert (F12 : stale_fewer D s1 s2).
    { intros x v1 Ht Hn Hx. specialize (Hss x Ht Hn). rewrite Hx in Hss.
      destruct (lookup x (locals s2)) as [v2|]; [|discriminate Hss]. cbn [option_map] in Hss.
      exists v2. split; [reflexivity | congruence]. }
    pose proof (agree_off_sym _ _ _ Hag) as Hag'.
    destruct (exec rw subs fuel e s1) as [s1'|] eqn:E1; destruct (exec rw subs fuel e s2) as [s2'|] eqn:E2.
    - destruct (tdefS_sound_fewer fuel n e D D' s1 s2 s1' Htd Hag F21 E1) as (t2 & X2 & Ag2 & M2).
      destruct (tdefS_sound_fewer fuel n e D D' s2 s1 s2' Htd Hag' F12 E2) as (t1 & X1 & Ag1 & M1).
      rewrite E2 in X2. injection X2 as <-. rewrite E1 in X1. injection X1 as <-.
      split; [exact Ag2|]. intros x _ _. apply lmono_same_sorts; assumption.
    - destruct (tdefS_sound_fewer fuel n e D D' s1 s2 s1' Htd Hag F21 E1) as (t2 & X2 & _). congruence.
    - destruct (tdefS_sound_fewer fuel n e D D' s2 s1 s2' Htd Hag' F12 E2) as (t1 & X1 & _). congruence.
    - exact I.
  Qed.

  (* THE SORT HYPOTHESIS IS EXACT when the reference state holds fewer stale temporaries (e.g. none): the run
     from s1 succeeds IF AND ONLY IF the reference run succeeds and no stale temporary of s1 clashes in sort
     with what the reference run leaves in it. *)
  Theorem tdefS_sound_exact : forall fuel n e D D' s1 s2,
    tdefS subs n D e = Some D' -> agree_off D s1 s2 -> stale_fewer D s2 s1 ->
    ((exists s1', exec rw subs fuel e s1 = Some s1') <->
     (exists s2', exec rw subs fuel e s2 = Some s2' /\ stale_compat D s1 s2')).
  Proof.
    intros fuel n e D D' s1 s2 Htd Hag Hf. split.
    - intros (s1' & E1).
      destruct (tdefS_sound_fewer fuel n e D D' s1 s2 s1' Htd Hag Hf E1) as (s2' & E2 & _ & M).
      exists s2'. split; [exact E2|].
      intros x v1 v' _ _ Hx1 Hx'. destruct (M _ _ Hx') as (w & Hw & Hs).
      destruct (exec_lmono rw subs _ _ _ _ E1 _ _ Hx1) as (w' & Hw' & Hs'). congruence.
    - intros (s2' & E2 & Hst).
      destruct (tdefS_sound fuel n e D D' s1 s2 s2' Htd Hag E2 Hst) as (s1' & E1 & _). eauto.
  Qed.

  (* ---------------------------------------------------------------- the cleaned state *)
  Lemma lookup_clean D s x :
    lookup x (locals (clean D s)) = if negb (is_tmp x) || inb x D then lookup x (locals s) else None.
  Proof.
    cbn [clean locals]. induction (locals s) as [|[y u] l IH]; cbn [filter].
    - destruct (negb (is_tmp x) || inb x D); reflexivity.
    - unfold keep at 1. cbn [fst]. destruct (String.eqb x y) eqn:E.
      + apply String.eqb_eq in E. subst y. destruct (negb (is_tmp x) || inb x D) eqn:K.
        * rewrite !lookup_cons, String.eqb_refl. reflexivity.
        * rewrite IH. reflexivity.
      + destruct (negb (is_tmp y) || inb y D); [rewrite !lookup_cons, E; exact IH|].
        rewrite lookup_cons, E. exact IH.
  Qed.
  Lemma agree_off_clean D s : agree_off D s (clean D s).
  Proof.
    split; [unfold same_machine; cbn [clean rold rnew rnew0 imms pktaddr mem mem0 events]; repeat split|].
    intros x Hx. rewrite lookup_clean. destruct Hx as [Hx|Hx].
    - rewrite Hx. reflexivity.
    - apply inb_spec in Hx. rewrite Hx, orb_true_r. reflexivity.
  Qed.
  Lemma clean_no_stale D s x : is_tmp x = true -> ~ In x D -> lookup x (locals (clean D s)) = None.
  Proof. intros Ht Hn. rewrite lookup_clean, Ht. apply inb_false in Hn. rewrite Hn. reflexivity. Qed.
  Lemma clean_fewer D s : stale_fewer D (clean D s) s.
  Proof. intros x v Ht Hn Hx. rewrite (clean_no_stale D s x Ht Hn) in Hx. discriminate Hx. Qed.
  Lemma clean_nil_no_tmp s : no_tmp (clean [] s).
  Proof. intros x Ht. apply clean_no_stale; [exact Ht | intros []]. Qed.

  (* whatever a run does, the run from the state with the unwritten temporaries REMOVED does the same *)
  Theorem run_then_clean_run : forall fuel n e D D' s s',
    tdefS subs n D e = Some D' -> exec rw subs fuel e s = Some s' ->
    exists c', exec rw subs fuel e (clean D s) = Some c' /\ agree_off D' s' c'.
  Proof.
    intros fuel n e D D' s s' Htd He.
    destruct (tdefS_sound_fewer fuel n e D D' s (clean D s) s' Htd (agree_off_clean D s) (clean_fewer D s) He)
      as (c' & X & Ag & _). eauto.
  Qed.

  (* conversely, a successful clean run is reproduced from s provided the stale temporaries of s have the
     sort the clean run gives them (if it writes them at all); see stale_sort_clash below for why this is needed *)
  Theorem clean_run_then_run : forall fuel n e D D' s c',
    tdefS subs n D e = Some D' -> exec rw subs fuel e (clean D s) = Some c' -> stale_compat D s c' ->
    exists s', exec rw subs fuel e s = Some s' /\ agree_off D' s' c'.
  Proof.
    intros fuel n e D D' s c' Htd He Hst.
    exact (tdefS_sound fuel n e D D' s (clean D s) c' Htd (agree_off_clean D s) He Hst).
  Qed.

  Theorem run_iff_clean_run : forall fuel n e D D' s,
    tdefS subs n D e = Some D' ->
    ((exists s', exec rw subs fuel e s = Some s') <->
     (exists c', exec rw subs fuel e (clean D s) = Some c' /\ stale_compat D s c')).
  Proof.
    intros fuel n e D D' s Htd.
    exact (tdefS_sound_exact fuel n e D D' s (clean D s) Htd (agree_off_clean D s) (clean_fewer D s)).
  Qed.

  (* ---------------------------------------------------------------- the same, for the environment-free tdef *)
  Lemma tdef_tdefS D D' e : calls_opaque subs e -> tdef D e = Some D' -> tdefS subs 0 D e = Some D'.
  Proof. intros Hop H. rewrite (tdefS_tdef subs 0 e D Hop). exact H. Qed.

  Theorem tdef_sound : forall fuel e D D' s1 s2 s2',
    tdef D e = Some D' -> calls_opaque subs e -> agree_off D s1 s2 ->
    exec rw subs fuel e s2 = Some s2' -> stale_compat D s1 s2' ->
    exists s1', exec rw subs fuel e s1 = Some s1' /\ agree_off D' s1' s2'.
  Proof. intros fuel e D D' s1 s2 s2' Htd Hop. apply (tdefS_sound fuel 0). exact (tdef_tdefS _ _ _ Hop Htd). Qed.

  Theorem tdef_sound_fewer : forall fuel e D D' s1 s2 s1',
    tdef D e = Some D' -> calls_opaque subs e -> agree_off D s1 s2 -> stale_fewer D s2 s1 ->
    exec rw subs fuel e s1 = Some s1' ->
    exists s2', exec rw subs fuel e s2 = Some s2' /\ agree_off D' s1' s2'.
  Proof.
    intros fuel e D D' s1 s2 s1' Htd Hop Hag Hf He.
    destruct (tdefS_sound_fewer fuel 0 e D D' s1 s2 s1' (tdef_tdefS _ _ _ Hop Htd) Hag Hf He) as (s2' & X & Ag & _).
    eauto.
  Qed.

  Theorem tdef_noninterference : forall fuel e D D' s1 s2,
    tdef D e = Some D' -> calls_opaque subs e -> agree_off D s1 s2 -> stale_same_sorts D s1 s2 ->
    match exec rw subs fuel e s1, exec rw subs fuel e s2 with
    | Some s1', Some s2' => agree_off D' s1' s2' /\ stale_same_sorts D' s1' s2'
    | None, None => True
    | _, _ => False
    end.
  Proof. intros fuel e D D' s1 s2 Htd Hop. apply (tdefS_noninterference fuel 0). exact (tdef_tdefS _ _ _ Hop Htd). Qed.

  Theorem tdef_run_then_clean_run : forall fuel e D D' s s',
    tdef D e = Some D' -> calls_opaque subs e -> exec rw subs fuel e s = Some s' ->
    exists c', exec rw subs fuel e (clean D s) = Some c' /\ agree_off D' s' c'.
  Proof. intros fuel e D D' s s' Htd Hop. apply (run_then_clean_run fuel 0). exact (tdef_tdefS _ _ _ Hop Htd). Qed.

  Theorem tdef_clean_run_then_run : forall fuel e D D' s c',
    tdef D e = Some D' -> calls_opaque subs e -> exec rw subs fuel e (clean D s) = Some c' -> stale_compat D s c' ->
    exists s', exec rw subs fuel e s = Some s' /\ agree_off D' s' c'.
  Proof. intros fuel e D D' s c' Htd Hop. apply (clean_run_then_run fuel 0). exact (tdef_tdefS _ _ _ Hop Htd). Qed.

  (* COROLLARY (item 4).  The check passes from the empty set, and the run from a state s0 without any temporary
     succeeds.  Then from every state s1 that differs from s0 only in extra temporaries, of arbitrary VALUE
     but of the sort the s0-run leaves in them (if it writes them), the run succeeds with the same registers,
     memory, events, non-temporary locals and temporaries in D'.  (no_tmp s0 is what makes the temporaries of
     s1 "extra"; the proof does not need it.) *)
  Corollary tdef_fresh_run_represents : forall fuel e D' s0 s0' s1,
    tdef [] e = Some D' -> calls_opaque subs e ->
    no_tmp s0 -> exec rw subs fuel e s0 = Some s0' ->
    agree_off [] s1 s0 -> stale_compat [] s1 s0' ->
    exists s1', exec rw subs fuel e s1 = Some s1' /\ agree_off D' s1' s0'.
  Proof. intros fuel e D' s0 s0' s1 Htd Hop _ He Hag Hst. exact (tdef_sound fuel e [] D' s1 s0 s0' Htd Hop Hag He Hst). Qed.

  Corollary tdefS_fresh_run_represents : forall fuel n e D' s0 s0' s1,
    tdefS subs n [] e = Some D' ->
    no_tmp s0 -> exec rw subs fuel e s0 = Some s0' ->
    agree_off [] s1 s0 -> stale_compat [] s1 s0' ->
    exists s1', exec rw subs fuel e s1 = Some s1' /\ agree_off D' s1' s0'.
  Proof. intros fuel n e D' s0 s0' s1 Htd _ He Hag Hst. exact (tdefS_sound fuel n e [] D' s1 s0 s0' Htd Hag He Hst). Qed.

  (* and the unconditional direction: every successful run is represented by the run from the state with
     all temporaries removed *)
  Corollary tdef_run_represented_by_fresh : forall fuel e D' s s',
    tdef [] e = Some D' -> calls_opaque subs e -> exec rw subs fuel e s = Some s' ->
    no_tmp (clean [] s) /\ exists c', exec rw subs fuel e (clean [] s) = Some c' /\ agree_off D' s' c'.
  Proof.
    intros fuel e D' s s' Htd Hop He. split; [apply clean_nil_no_tmp|].
    exact (tdef_run_then_clean_run fuel e [] D' s s' Htd Hop He).
  Qed.
End Theorems.
Print Assumptions tdefS_sound.
Print Assumptions tdefS_sound_fewer.
Print Assumptions tdefS_sound_exact.
Print Assumptions run_iff_clean_run.
Print Assumptions tdefS_noninterference.
Print Assumptions run_then_clean_run.
Print Assumptions clean_run_then_run.
Print Assumptions tdef_sound.
Print Assumptions tdef_noninterference.
Print Assumptions tdef_fresh_run_represents.
Print Assumptions tdef_run_represented_by_fresh.
Print Assumptions tdef_incl.
Print Assumptions tdef_mono.

(* ================================================================== examples (item 5) *)
Module Examples.
  Definition one := PBv false 32 1.
  Definition t0 := "h_tmp0".
  Definition t1 := "h_tmp1".
  Definition rd (x : string) := ESetL "x" (PVarL x).          (* x := <read of the local> *)
  Definition wr (x : string) := ESetL x one.

  Example is_tmp_yes : is_tmp "h_tmp12" = true.        Proof. vm_compute. reflexivity. Qed.
  Example is_tmp_no1 : is_tmp "tmp" = false.            Proof. vm_compute. reflexivity. Qed.
  Example is_tmp_no2 : is_tmp "EA" = false.             Proof. vm_compute. reflexivity. Qed.
  Example is_tmp_no3 : is_tmp "xh_tmp1" = false.        Proof. vm_compute. reflexivity. Qed.

  (* rejected *)
  Example rej_read_then_write : tdef [] (ESeq (rd t0) (wr t0)) = None.
  Proof. vm_compute. reflexivity. Qed.
  Example rej_one_arm_only : tdef [] (ESeq (EBranch (PBool true) (wr t0) ENop) (rd t0)) = None.
  Proof. vm_compute. reflexivity. Qed.
  Example rej_other_arm_only : tdef [] (ESeq (EBranch (PBool true) (wr t1) (wr t0)) (rd t0)) = None.
  Proof. vm_compute. reflexivity. Qed.
  Example rej_loop_body_write : tdef [] (ESeq (ERepeat (PBool true) (wr t0)) (rd t0)) = None.
  Proof. vm_compute. reflexivity. Qed.
  Example rej_loop_first_iteration : tdef [] (ERepeat (PBool true) (ESeq (rd t0) (wr t0))) = None.
  Proof. vm_compute. reflexivity. Qed.
  Example rej_loop_condition : tdef [] (ERepeat (PNonZero (PVarL t0)) (wr t0)) = None.
  Proof. vm_compute. reflexivity. Qed.
  Example rej_branch_condition : tdef [] (EBranch (PNonZero (PVarL t0)) (wr t0) (wr t0)) = None.
  Proof. vm_compute. reflexivity. Qed.
  Example rej_call_argument : tdef [] (ESeq (ECall "f" [AOp (RNreg "s"); APure (PVarL t0)]) (wr t0)) = None.
  Proof. vm_compute. reflexivity. Qed.
  Example rej_plugin_argument : tdef [] (ESeq (EPlugin "g" [APure (PBin BAdd one (PVarL t0))]) (wr t0)) = None.
  Proof. vm_compute. reflexivity. Qed.
  Example rej_store_address : tdef [] (ESeq (EStore (PVarL t0) one) (wr t0)) = None.
  Proof. vm_compute. reflexivity. Qed.
  Example rej_store_value : tdef [] (ESeq (EStore one (PCast 32 (PBool false) (PVarL t0))) (wr t0)) = None.
  Proof. vm_compute. reflexivity. Qed.
  Example rej_write_reg : tdef [] (EWriteReg (RNreg "d") (PVarL t0)) = None.
  Proof. vm_compute. reflexivity. Qed.
  Example rej_self_read : tdef [] (ESetL t0 (PBin BAdd (PVarL t0) one)) = None.
  Proof. vm_compute. reflexivity. Qed.
  (* a read under let-binders, in the bound term and in the body; inside PIte arms and PApp arguments *)
  Example rej_under_let_body : tdef [] (ESetL "x" (PLet "v" one (PBin BAdd (PVarLP "v") (PVarL t0)))) = None.
  Proof. vm_compute. reflexivity. Qed.
  Example rej_under_let_bound : tdef [] (ESetL "x" (PLet "v" (PVarL t0) (PVarLP "v"))) = None.
  Proof. vm_compute. reflexivity. Qed.
  Example rej_let_does_not_shadow : tdef [] (ESetL "x" (PLet t0 one (PVarL t0))) = None.
  Proof. vm_compute. reflexivity. Qed.
  Example rej_ite_arm : tdef [] (ESetL "x" (PIte (PBool true) one (PVarL t0))) = None.
  Proof. vm_compute. reflexivity. Qed.
  Example rej_app_arg : tdef [] (ESetL "x" (PApp "EXTRACT32" [one; PVarL t0; one])) = None.
  Proof. vm_compute. reflexivity. Qed.

  (* accepted *)
  Example acc_write_then_read : tdef [] (ESeq (wr t0) (rd t0)) = Some [t0].
  Proof. vm_compute. reflexivity. Qed.
  Example acc_both_arms_write : tdef [] (ESeq (EBranch (PBool true) (wr t0) (ESeq (wr t1) (wr t0))) (rd t0)) = Some [t0].
  Proof. vm_compute. reflexivity. Qed.
  Example acc_non_temporary : tdef [] (ESeq (rd "EA") (ESetL "EA" one)) = Some [].
  Proof. vm_compute. reflexivity. Qed.
  Example acc_let_variable_named_like_a_temporary : tdef [] (ESetL "x" (PLet t0 one (PVarLP t0))) = Some [].
  Proof. vm_compute. reflexivity. Qed.
  Example acc_loop_reads_earlier_write :
    tdef [] (ESeq (wr t0) (ERepeat (PNonZero (PVarL t0)) (ESeq (wr t1) (ESetL t0 (PBin BSub (PVarL t0) (PVarL t1))))))
    = Some [t0].
  Proof. vm_compute. reflexivity. Qed.
  Example acc_call_argument_after_write : tdef [] (ESeq (wr t0) (ECall "f" [APure (PVarL t0)])) = Some [t0].
  Proof. vm_compute. reflexivity. Qed.

  (* ---------------------------------------------------------------- concrete machines *)
  Definition st0 (l : list (string * val)) : mstate :=
    {| locals := l; rold := fun _ => 0%Z; rnew := []; rnew0 := fun _ => 0%Z; imms := fun _ => 0%Z;
       pktaddr := 0%Z; mem := []; mem0 := fun _ => 0%Z; events := [] |}.
  Definition rw0 : regwidth := fun _ => 32%N.
  Definition subs0 : subenv := fun _ => None.

  Lemma agree_st0 l1 l2 : (forall x, is_tmp x = false -> lookup x l1 = lookup x l2) -> agree_off [] (st0 l1) (st0 l2).
  Proof.
    intro H. split; [unfold same_machine; cbn [st0 rold rnew rnew0 imms pktaddr mem mem0 events]; repeat split|].
    intros x [Hx|[]]. exact (H x Hx).
  Qed.

  (* ---------------------------------------------------------------- STRONGER STATEMENTS THAT ARE FALSE *)
  (* (1) ESetL checks the sort of the old value at run time.  A stale temporary of another sort makes the
         write itself fail, although the temporary is never read: *)
  Definition clash := st0 [(t0, VB true)].
  Example stale_sort_clash :
    tdef [] (wr t0) = Some [t0] /\
    locals (clean [] clash) = [] /\
    option_map locals (exec rw0 subs0 1 (wr t0) (st0 [])) = Some [(t0, VBv 32 1)] /\
    option_map locals (exec rw0 subs0 1 (wr t0) (clean [] clash)) = Some [(t0, VBv 32 1)] /\
    exec rw0 subs0 1 (wr t0) clash = None.
  Proof. vm_compute. repeat split. Qed.

  Lemma agree_clash : agree_off [] clash (st0 []).
  Proof.
    apply agree_st0. intros x Hx. cbn [lookup]. destruct (String.eqb x t0) eqn:E; [|reflexivity].
    apply String.eqb_eq in E. subst x. vm_compute in Hx. discriminate Hx.
  Qed.

  (* so non-interference without any sort hypothesis is false (tdef_noninterference needs stale_same_sorts) *)
  Theorem unconditional_noninterference_false :
    ~ (forall rw subs fuel e D D' s1 s2,
         tdef D e = Some D' -> calls_opaque subs e -> agree_off D s1 s2 ->
         match exec rw subs fuel e s1, exec rw subs fuel e s2 with
         | Some _, Some _ | None, None => True
         | _, _ => False
         end).
  Proof.
    intro H. specialize (H rw0 subs0 1%nat (wr t0) [] [t0] clash (st0 []) eq_refl I agree_clash).
    vm_compute in H. exact H.
  Qed.

  (* and "the clean run succeeds => the run from s succeeds" is false without stale_compat
     (tdef_clean_run_then_run, tdef_fresh_run_represents need it) *)
  Theorem clean_run_does_not_imply_run :
    ~ (forall rw subs fuel e D D' s c',
         tdef D e = Some D' -> calls_opaque subs e -> exec rw subs fuel e (clean D s) = Some c' ->
         exists s', exec rw subs fuel e s = Some s').
  Proof.
    intro H.
    destruct (exec rw0 subs0 1 (wr t0) (clean [] clash)) as [c'|] eqn:E; [|vm_compute in E; discriminate E].
    destruct (H rw0 subs0 1%nat (wr t0) [] [t0] clash c' eq_refl I E) as (s' & X).
    vm_compute in X. discriminate X.
  Qed.

  (* (2) a callee known to subs runs in the caller's locals: tdef, which cannot see the body, is unsound
         without calls_opaque, even between states with equally-sorted temporaries; tdefS sees the body *)
  Definition subs1 : subenv :=
    fun f => if String.eqb f "f" then Some (["p"], ESetL "x" (PBin BAdd (PParam "p") (PVarL t0))) else None.
  Example known_callee_reads_temporary :
    tdef [] (ECall "f" [APure one]) = Some [] /\
    tdefS subs1 3 [] (ECall "f" [APure one]) = None /\
    option_map (fun s => lookup "x" (locals s)) (exec rw0 subs1 2 (ECall "f" [APure one]) (st0 [(t0, VBv 32 1)]))
      = Some (Some (VBv 32 2)) /\
    option_map (fun s => lookup "x" (locals s)) (exec rw0 subs1 2 (ECall "f" [APure one]) (st0 [(t0, VBv 32 5)]))
      = Some (Some (VBv 32 6)).
  Proof. vm_compute. repeat split. Qed.
  (* the argument of a known callee is checked where the body uses it *)
  Example known_callee_argument :
    tdefS subs1 3 [] (ESeq (wr t0) (ECall "f" [APure (PVarL t1)])) = None /\
    tdefS subs1 3 [] (ESeq (wr t0) (ESeq (wr t1) (ECall "f" [APure (PVarL t1)]))) = Some [t1; t0] /\
    tdefS subs1 0 [] (ESeq (wr t0) (ECall "f" [APure one])) = None.
  Proof. vm_compute. repeat split. Qed.

  (* (3) the result of a loop cannot include what the body writes (zero iterations), and the result of a
         branch cannot include what only one arm writes: with these programs the read is really reached
         with the temporary unwritten, and its stale value leaks into the non-temporary local "x" *)
  Definition leak_loop := ESeq (ERepeat (PBool false) (wr t0)) (rd t0).
  Definition leak_branch := ESeq (EBranch (PBool false) (wr t0) ENop) (rd t0).
  Example leaks :
    option_map (fun s => lookup "x" (locals s)) (exec rw0 subs0 5 leak_loop (st0 [(t0, VBv 32 7)])) = Some (Some (VBv 32 7)) /\
    option_map (fun s => lookup "x" (locals s)) (exec rw0 subs0 5 leak_loop (st0 [(t0, VBv 32 8)])) = Some (Some (VBv 32 8)) /\
    exec rw0 subs0 5 leak_loop (st0 []) = None /\
    option_map (fun s => lookup "x" (locals s)) (exec rw0 subs0 5 leak_branch (st0 [(t0, VBv 32 7)])) = Some (Some (VBv 32 7)) /\
    exec rw0 subs0 5 leak_branch (st0 []) = None.
  Proof. vm_compute. repeat split. Qed.
End Examples.
Print Assumptions Examples.unconditional_noninterference_false.
Print Assumptions Examples.clean_run_does_not_imply_run.
