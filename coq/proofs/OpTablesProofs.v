(* The opcode tables every theorem uses (model/OpTables.v, hand-written) are EXACTLY what the compiler's Pure classes
   emit: gen/OpTablesGen.v is regenerated on every run from the Python sources (tools/vt/tr_optables.py: symbolic
   execution of the il_exec methods; exhaustive execution of the value-type helpers), and this file proves, for every
   operator of each enum, every operand type and every operand term, that elaborating the emitted text (sem/CBody.elab,
   the same function that reads the real compiler output in the K2 correspondence) gives the term of model/OpTables.v.
   A change to an il_exec method therefore breaks one of these proofs (or the translator, which fails closed). *)
From Coq Require Import ZArith NArith List Bool String.
From RZ.sem Require Import RzIL CBody.
From RZ.model Require Import Types OpTables.
From RZ.gen Require Import OpTablesGen.
Import ListNotations.
Local Open Scope string_scope.

(* the operand terms the holes $0 / $1 of an emitted text stand for *)
Definition G2 (a b : pure) : denv := [("$0", BPure a); ("$1", BPure b)].
Definition noparam : string -> bool := fun _ => false.
Definition elab_text (a b : pure) (t : option sexp) : option pure :=
  match t with Some s => elab (G2 a b) noparam s | None => None end.

(* ------------------------------------------------------------------ Cast.il_exec *)
Theorem cast_text_ok : forall target src x op t1 ib0 ic0 ib1 ic1 il0 v0 b,
  elab_text x b (cast_text op target src t1 ib0 ic0 ib1 ic1 il0 v0) = Some (cast_il_exec target src (il0 && (0 <=? v0)%Z) x).
Proof.
  intros. unfold cast_text, cast_il_exec, elab_text.
  destruct (vt_sg target), (vt_sg src), (vt_w src <? vt_w target)%N, (il0 && (0 <=? v0)%Z), (vt_w target); vm_compute; reflexivity.
Qed.

(* ------------------------------------------------------------------ BitOp.il_exec *)
Theorem bitop_text_ok : forall op ta a b tself t1 ib0 ic0 ib1 ic1 il0 v0, In op bitop_ops ->
  elab_text a b (bitop_text op tself ta t1 ib0 ic0 ib1 ic1 il0 v0) = Some (bitop_il_exec op ta a b).
Proof.
  intros op ta a b tself t1 ib0 ic0 ib1 ic1 il0 v0 Hin. unfold bitop_ops in Hin. cbn [In] in Hin.
  repeat (destruct Hin as [<- | Hin]); try contradiction; unfold bitop_text, bitop_il_exec, elab_text;
    destruct (vt_sg ta); vm_compute; reflexivity.
Qed.
(* an operator outside the enum: the Python raises *)
Lemma bitop_text_other : forall op tself t0 t1 ib0 ic0 ib1 ic1 il0 v0, ~ In op bitop_ops -> bitop_text op tself t0 t1 ib0 ic0 ib1 ic1 il0 v0 = None.
Proof.
  intros op tself t0 t1 ib0 ic0 ib1 ic1 il0 v0 H. unfold bitop_text, bitop_ops in *. cbn [In] in H.
  repeat match goal with |- context [String.eqb op ?s] => destruct (String.eqb_spec op s) as [->|_]; [exfalso; apply H; tauto|] end.
  reflexivity.
Qed.

(* ------------------------------------------------------------------ CompareOp.il_exec *)
Definition cmp_float (ta tb : vtype) : bool := vt_float ta && vt_float tb.
Theorem compareop_text_ok : forall op ta tb a b tself ib0 ic0 ib1 ic1 il0 v0, In op compareop_ops ->
  cmp_float ta tb = false \/ op <> "!=" ->
  elab_text a b (compareop_text op tself ta tb ib0 ic0 ib1 ic1 il0 v0) = Some (cmp_il_exec op ta tb a b).
Proof.
  intros op ta tb a b tself ib0 ic0 ib1 ic1 il0 v0 Hin Hne. unfold compareop_ops in Hin. cbn [In] in Hin. unfold cmp_float in Hne.
  repeat (destruct Hin as [<- | Hin]); try contradiction; unfold compareop_text, cmp_il_exec, elab_text;
    destruct (vt_sg ta), (vt_sg tb), (vt_float ta), (vt_float tb); try (vm_compute; reflexivity);
    destruct Hne as [Hne | Hne]; try discriminate Hne; exfalso; apply Hne; reflexivity.
Qed.
(* the one text the reader of emitted bodies does not elaborate: `!=` on two floats is FINV(EQ(a, b)) *)
Example compareop_text_float_ne : forall ta tb tself ib0 ic0 ib1 ic1 il0 v0, cmp_float ta tb = true ->
  compareop_text "!=" tself ta tb ib0 ic0 ib1 ic1 il0 v0 = Some (SApp "FINV" [SApp "EQ" [SVar "$0"; SVar "$1"]]).
Proof.
  intros ta tb tself ib0 ic0 ib1 ic1 il0 v0 H. unfold cmp_float in H. apply andb_true_iff in H. destruct H as [H1 H2].
  unfold compareop_text. rewrite H1, H2. destruct (vt_sg ta || vt_sg tb); reflexivity.
Qed.

(* ------------------------------------------------------------------ ArithmeticOp.il_exec *)
Definition arith_ops : list (string * binop) := [("+", BAdd); ("-", BSub); ("*", BMul); ("/", BDiv); ("%", BMod)].
Lemma arith_ops_cover : map fst arith_ops = arithmeticop_ops.
Proof. reflexivity. Qed.
Theorem arithmeticop_text_ok : forall op o ta tb a b tself ib0 ic0 ib1 ic1 il0 v0, In (op, o) arith_ops ->
  cmp_float ta tb = false \/ op <> "%" ->
  elab_text a b (arithmeticop_text op tself ta tb ib0 ic0 ib1 ic1 il0 v0) = Some (arith_il_exec o ta tb a b).
Proof.
  intros op o ta tb a b tself ib0 ic0 ib1 ic1 il0 v0 Hin Hne. unfold arith_ops in Hin. cbn [In] in Hin. unfold cmp_float in Hne.
  repeat (destruct Hin as [Hin | Hin]; [injection Hin as <- <- |]); try contradiction;
    unfold arithmeticop_text, arith_il_exec, elab_text; destruct (vt_float ta), (vt_float tb); try (vm_compute; reflexivity);
    destruct Hne as [Hne | Hne]; try discriminate Hne; exfalso; apply Hne; reflexivity.
Qed.
(* (the reader of emitted bodies knows no FMOD: `%` on two floats is emitted as FMOD(rmode, a, b)) *)

(* ------------------------------------------------------------------ BooleanOp.il_exec *)
Theorem booleanop_text_ok : forall op a b ib0 ic0 ib1 ic1 il0 v0 tself t0 t1, In op booleanop_ops ->
  elab_text a b (booleanop_text op tself t0 t1 ib0 ic0 ib1 ic1 il0 v0) = Some (boolop_il_exec op (ib0 || ic0) (ib1 || ic1) a b).
Proof.
  intros op a b ib0 ic0 ib1 ic1 il0 v0 tself t0 t1 Hin. unfold booleanop_ops in Hin. cbn [In] in Hin.
  repeat (destruct Hin as [<- | Hin]); try contradiction; unfold booleanop_text, boolop_il_exec, cond_wrap, elab_text;
    destruct (ib0 || ic0), (ib1 || ic1); vm_compute; reflexivity.
Qed.

(* ------------------------------------------------------------------ Ternary.il_exec, MemLoad.il_exec *)
Definition G3 (a b c : pure) : denv := [("$0", BPure a); ("$1", BPure b); ("$2", BPure c)].
Theorem ternary_text_ok : forall c a b ib0 ic0 ib1 ic1 il0 v0 op tself t0 t1,
  match ternary_text op tself t0 t1 ib0 ic0 ib1 ic1 il0 v0 with Some s => elab (G3 c a b) noparam s | None => None end
  = Some (PIte (cond_wrap (ib0 || ic0) c) a b).
Proof. intros. unfold ternary_text, cond_wrap. destruct (ib0 || ic0); vm_compute; reflexivity. Qed.
Theorem memload_text_ok : forall a b tself op t0 t1 ib0 ic0 ib1 ic1 il0 v0,
  elab_text a b (memload_text op tself t0 t1 ib0 ic0 ib1 ic1 il0 v0) = Some (PLoad (vt_w tself) a).
Proof. intros. unfold memload_text, elab_text. destruct (vt_w tself); vm_compute; reflexivity. Qed.

(* ------------------------------------------------------------------ the Effect classes' il_write *)
(* (these are the shapes model/Lower.v builds for if / for / JUMP / mem_store / nop / empty statements: EBranch (cond_of c) t f,
   ERepeat (cond_of c) body, ESeq (ESetL "jump_flag" true) (ESetL "jump_target" t), EStore a v, ENop, EEmpty; cond_of = cond_wrap (is_boolop c)) *)
Definition elab_eff_text (G : denv) (t : option sexp) : option effect :=
  match t with Some s => elab_eff G noparam s | None => None end.
Theorem branch_text_ok : forall c t f ib0 ic0 ib1 ic1 il0 v0 op tself t0 t1,
  elab_eff_text [("$0", BPure c); ("$1", BEff t); ("$2", BEff f)] (branch_text op tself t0 t1 ib0 ic0 ib1 ic1 il0 v0)
  = Some (EBranch (cond_wrap (ib0 || ic0) c) t f).
Proof. intros. unfold branch_text, cond_wrap, elab_eff_text. destruct (ib0 || ic0); vm_compute; reflexivity. Qed.
Theorem forloop_text_ok : forall c body ib0 ic0 ib1 ic1 il0 v0 op tself t0 t1,
  elab_eff_text [("$0", BPure c); ("$1", BEff body)] (forloop_text op tself t0 t1 ib0 ic0 ib1 ic1 il0 v0)
  = Some (ERepeat (cond_wrap (ib0 || ic0) c) body).
Proof. intros. unfold forloop_text, cond_wrap, elab_eff_text. destruct (ib0 || ic0); vm_compute; reflexivity. Qed.
Theorem jump_text_ok : forall t op tself t0 t1 ib0 ic0 ib1 ic1 il0 v0,
  elab_eff_text [("$0", BPure t)] (jump_text op tself t0 t1 ib0 ic0 ib1 ic1 il0 v0)
  = Some (ESeq (ESetL "jump_flag" (PBool true)) (ESetL "jump_target" t)).
Proof. intros. vm_compute. reflexivity. Qed.
Theorem memstore_text_ok : forall a v op tself t0 t1 ib0 ic0 ib1 ic1 il0 v0,
  elab_eff_text [("$0", BPure a); ("$1", BPure v)] (memstore_text op tself t0 t1 ib0 ic0 ib1 ic1 il0 v0) = Some (EStore a v).
Proof. intros. vm_compute. reflexivity. Qed.
Theorem nop_empty_text_ok : forall op tself t0 t1 ib0 ic0 ib1 ic1 il0 v0,
  elab_eff_text [] (nop_text op tself t0 t1 ib0 ic0 ib1 ic1 il0 v0) = Some ENop /\
  elab_eff_text [] (empty_text op tself t0 t1 ib0 ic0 ib1 ic1 il0 v0) = Some EEmpty.
Proof. intros. split; vm_compute; reflexivity. Qed.

(* ------------------------------------------------------------------ SubRoutine.il_read: the caller's read of the returned value *)
(* (model/Lower.v, call of a sub-routine: the temporary of the call is set to SIGNED / UNSIGNED(<width of the DECLARED return type>, VARL("ret_val"))) *)
Theorem subroutine_read_text_ok : forall ret op t0 t1 ib0 ic0 ib1 ic1 il0 v0,
  match subroutine_text op ret t0 t1 ib0 ic0 ib1 ic1 il0 v0 with Some s => elab [] noparam s | None => None end
  = Some (PSignExt (vt_sg ret) (if (vt_w ret =? 0)%N then 32%N else vt_w ret) (PVarL "ret_val")).
Proof.
  intros. unfold subroutine_text. destruct (vt_sg ret), (vt_w ret) as [|p]; vm_compute; reflexivity.
Qed.

(* ------------------------------------------------------------------ PostfixIncDec.il_exec: the new value of x++ / x-- *)
(* (model/Lower.v, postfix ++ / --: the operand is set / written to PIncDec inc (read of the operand) (width of its type); the other four
   members of HybridType make the method raise) *)
Theorem postfixincdec_text_ok : forall op a b tself t0 t1 ib0 ic0 ib1 ic1 il0 v0, In op ["++"; "--"] ->
  elab_text a b (postfixincdec_text op tself t0 t1 ib0 ic0 ib1 ic1 il0 v0) = Some (PIncDec (String.eqb op "++") a (vt_w tself)).
Proof.
  intros op a b tself t0 t1 ib0 ic0 ib1 ic1 il0 v0 Hin. cbn [In] in Hin.
  destruct Hin as [<- | [<- | []]]; unfold postfixincdec_text, elab_text; destruct (vt_w tself); vm_compute; reflexivity.
Qed.
Lemma postfixincdec_text_other : forall op tself t0 t1 ib0 ic0 ib1 ic1 il0 v0, In op ["call"; "sub_routine_call"; "sub_routine"; "gcc_expr"] ->
  postfixincdec_text op tself t0 t1 ib0 ic0 ib1 ic1 il0 v0 = None.
Proof. intros op tself t0 t1 ib0 ic0 ib1 ic1 il0 v0 Hin. cbn [In] in Hin. repeat (destruct Hin as [<- | Hin]; [reflexivity|]). contradiction. Qed.

(* ------------------------------------------------------------------ the value-type helpers, on their whole domains *)
Definition otype_eqb (a b : option (bool * N)) : bool :=
  match a, b with
  | Some (s, w), Some (s', w') => Bool.eqb s s' && N.eqb w w'
  | None, None => true
  | _, _ => false
  end.
(* get_value_type_from_reg_type: registers are signed, a pair doubles the width (Lower.lower_reg does the doubling) *)
Theorem reg_type_table_ok :
  forallb (fun r : string * bool * option (bool * N) => let '(c, isp, t) := r in
             otype_eqb t (option_map (fun w => (true, if isp then (w * 2)%N else w)) (reg_width c))) reg_type_table = true.
Proof. vm_compute. reflexivity. Qed.
Theorem imm_type_table_ok :
  forallb (fun r : string * option (bool * N) => otype_eqb (snd r) (Some (imm_signed (fst r), 32%N))) imm_type_table = true.
Proof. vm_compute. reflexivity. Qed.
Theorem number_type_table_ok :
  forallb (fun r : string * option (bool * N) =>
             otype_eqb (snd r) (option_map (fun t => (vt_sg t, vt_w t)) (number_vtype (fst r)))) number_type_table = true.
Proof. vm_compute. reflexivity. Qed.
(* the tables are not vacuous *)
Example tables_nonempty : (100 <? List.length reg_type_table)%nat && (50 <? List.length imm_type_table)%nat && (10 <? List.length number_type_table)%nat = true.
Proof. vm_compute. reflexivity. Qed.
