(* Source AST of the shortcode dialect, mirroring what Lark hands the transformer after
   ?-inlining.  It includes grammatical-but-unsupported forms so that "what happens to them"
   is expressible (C15). *)
From Coq Require Import ZArith NArith List Bool String.
Import ListNotations.

Inductive operand :=
| OReg (cls : string) (letters : string)        (* RsV, RddV, PtV: REG_TYPE + access letters *)
| ONewReg (cls : string) (letters : string)     (* PtN, NsN *)
| OExplicit (name : string) (new : bool)        (* R31, P0, C9:8, optionally _NEW *)
| OAlias (name : string) (new : bool)           (* HEX_REG_ALIAS_<name>[_NEW] *)
| OImm (letter : string)                        (* siV, riV, uiV ... *)
| ONum (v : Z) (hex : bool) (suffix : string)   (* integer literal with its spelling class *)
| OIdent (name : string)
| OFloat (text : string)
| OString (text : string).

Inductive unop := UNot (* ~ *) | UMinus | ULNot (* ! *) | UPlus | UDeref | UAddr | UPreInc | UPreDec | USizeofE.
Inductive binop :=
| BAdd | BSub | BMul | BDiv | BMod | BAnd | BOr | BXor | BShl | BShr
| BLt | BGt | BLe | BGe | BEq | BNe | BLAnd | BLOr.
Inductive asgop := AAssign | AAdd | ASub | AMul | ADiv | AMod | AShl | AShr | AAnd | AXor | AOr.

(* type specifier tokens, purely syntactic; resolution happens in the model (Lower.v, resolve functions) *)
Inductive tspec := TS_int | TS_unsigned | TS_const | TS_intN (sg : bool) (w : N) | TS_sizeN (bytes : N) (sg : bool) | TS_other (s : string).
Definition tyspec := list tspec.

Inductive cexpr :=
| EOp (o : operand)
| ECast (t : tyspec) (e : cexpr)
| EUn (u : unop) (e : cexpr)
| EBin (b : binop) (l r : cexpr)
| ECond (c t e : cexpr)
| EAssign (a : asgop) (l r : cexpr)
| EPost (inc : bool) (e : cexpr)
| ECall (f : string) (args : cexprs)            (* identifier "(" args ")" : sub-routine / c_call / sizeof *)
| EMacro (m : string) (args : cexprs)           (* FLOAT_MACRO / RIZIN_MACRO *)
| ELoad (sg : bool) (w : N) (args : cexprs)     (* mem_load_<s|u><w>(ea) *)
| EStmtExpr (items : cstmts) (last : cstmt)     (* ({ items; last; }) gcc_extended_expr: last is the expr_stmt *)
| EComma (l r : cexpr)
| EIndex (a i : cexpr)
| EMember (a : cexpr) (f : string)
| EPtrMember (a : cexpr) (f : string)
| ECallEmpty (a : cexpr)                        (* postfix_expr "(" ")" *)
| ESizeofT (t : tyspec)
| EOther (what : string)                        (* any other grammatical form (generic selection, compound literal...) *)
with cexprs := ENil | ECons (e : cexpr) (t : cexprs)
with cstmt :=
| SExpr (e : cexpr)                             (* expr ";" *)
| SEmpty                                        (* ";" *)
| SDecl (t : tyspec) (x : string) (init : option cexpr)   (* T x; / T x = e; *)
| SDeclOther (what : string)
| SIf (c : cexpr) (t : cstmt) (e : option cstmt)
| SFor (i : cstmt) (c : cstmt) (s : option cexpr) (b : cstmt)
| SBlock (l : cstmts)                           (* "{" items "}" ; empty list = "{}" *)
| SStore (sg : bool) (w : N) (args : cexprs)
| SJump (e : cexpr)
| SNop
| SCancel
| SReturn (e : option cexpr)
| SWhile (c : cexpr) (b : cstmt)
| SDo (b : cstmt) (c : cexpr)
| SSwitch (c : cexpr) (b : cstmt)
| SLabel (l : string) (s : cstmt)
| SCase (s : cstmt)
| SGoto (l : string)
| SBreak
| SContinue
with cstmts := SNil | SCons (s : cstmt) (t : cstmts).

Scheme cexpr_mut := Induction for cexpr Sort Prop
with cexprs_mut := Induction for cexprs Sort Prop
with cstmt_mut := Induction for cstmt Sort Prop
with cstmts_mut := Induction for cstmts Sort Prop.
Combined Scheme ast_mutind from cexpr_mut, cexprs_mut, cstmt_mut, cstmts_mut.

Fixpoint exprs_to_list (l : cexprs) : list cexpr := match l with ENil => [] | ECons e t => e :: exprs_to_list t end.
Fixpoint stmts_to_list (l : cstmts) : list cstmt := match l with SNil => [] | SCons e t => e :: stmts_to_list t end.
