(* Guards: which known-defect classes a program touches.  A repair switch "matters" for p when the
   faithful model and the model with only that switch on translate p differently.  Plus three
   structural facts taken from the model's own bookkeeping. *)
From Coq Require Import ZArith NArith List Bool String.
From RZ.sem Require Import RzIL.
From RZ.model Require Import Ast Types OpTables Lower.
From RZ.gen Require Import Resources.
Import ListNotations.
Local Open Scope string_scope.
Local Open Scope N_scope.

Definition with_fx (f : fixes) (c : config) : config :=
  mkcfg f (cfg_subs c) (cfg_macros c) (cfg_params c) (cfg_ret c) (cfg_hstart c).

Definition same_result (a b : res tinfo) : bool :=
  match a, b with
  | OK x, OK y => effect_eqb (canon (ti_eff x)) (canon (ti_eff y))
  | Err _, Err _ => true
  | _, _ => false
  end.

(* the faithful configuration with one more switch turned on *)
Definition switches : list fixes :=
  [ mkfx true  (fx_shift_promote faithful) (fx_bool_int faithful) (fx_cmp_promote faithful) (fx_compound_conv faithful) (fx_literals faithful) (fx_divmod faithful) (fx_addr faithful) (fx_reject_dropped faithful);   (* bit 0: D3 *)
    mkfx (fx_cast_fill faithful) true (fx_bool_int faithful) (fx_cmp_promote faithful) (fx_compound_conv faithful) (fx_literals faithful) (fx_divmod faithful) (fx_addr faithful) (fx_reject_dropped faithful);      (* bit 1: D1 *)
    mkfx (fx_cast_fill faithful) (fx_shift_promote faithful) true (fx_cmp_promote faithful) (fx_compound_conv faithful) (fx_literals faithful) (fx_divmod faithful) (fx_addr faithful) (fx_reject_dropped faithful); (* bit 2: D2 *)
    mkfx (fx_cast_fill faithful) (fx_shift_promote faithful) (fx_bool_int faithful) true (fx_compound_conv faithful) (fx_literals faithful) (fx_divmod faithful) (fx_addr faithful) (fx_reject_dropped faithful);    (* bit 3: D13 *)
    mkfx (fx_cast_fill faithful) (fx_shift_promote faithful) (fx_bool_int faithful) (fx_cmp_promote faithful) true (fx_literals faithful) (fx_divmod faithful) (fx_addr faithful) (fx_reject_dropped faithful);      (* bit 4: D14 *)
    mkfx (fx_cast_fill faithful) (fx_shift_promote faithful) (fx_bool_int faithful) (fx_cmp_promote faithful) (fx_compound_conv faithful) true (fx_divmod faithful) (fx_addr faithful) (fx_reject_dropped faithful);  (* bit 5: D6 *)
    mkfx (fx_cast_fill faithful) (fx_shift_promote faithful) (fx_bool_int faithful) (fx_cmp_promote faithful) (fx_compound_conv faithful) (fx_literals faithful) true (fx_addr faithful) (fx_reject_dropped faithful); (* bit 6: D19 *)
    mkfx (fx_cast_fill faithful) (fx_shift_promote faithful) (fx_bool_int faithful) (fx_cmp_promote faithful) (fx_compound_conv faithful) (fx_literals faithful) (fx_divmod faithful) true (fx_reject_dropped faithful) ]. (* bit 7: D20 *)

Fixpoint has_call_e (e : cexpr) : bool :=
  match e with
  | ECall f _ => negb (String.eqb f "sizeof")
  | ECast _ a | EUn _ a | EPost _ a => has_call_e a
  | EBin _ a b | EAssign _ a b | EComma a b => has_call_e a || has_call_e b
  | ECond a b c => has_call_e a || has_call_e b || has_call_e c
  | EMacro _ l | ELoad _ _ l => has_call_es l
  | EStmtExpr l s => has_call_ss l || has_call_s s
  | _ => false
  end
with has_call_es (l : cexprs) : bool := match l with ENil => false | ECons e t => has_call_e e || has_call_es t end
with has_call_s (s : cstmt) : bool :=
  match s with
  | SExpr e | SJump e | SDecl _ _ (Some e) | SReturn (Some e) => has_call_e e
  | SIf c t None => has_call_e c || has_call_s t
  | SIf c t (Some f) => has_call_e c || has_call_s t || has_call_s f
  | SFor i c (Some st) b => has_call_s i || has_call_s c || has_call_e st || has_call_s b
  | SBlock l => has_call_ss l
  | SStore _ _ l => has_call_es l
  | _ => false
  end
with has_call_ss (l : cstmts) : bool := match l with SNil => false | SCons s t => has_call_s s || has_call_ss t end.

(* bit i (i < 8): switch i matters; bit 16: leftover hybrids hoisted to the front (D4); bit 17: a raw
   tree / token item was dropped at top level (D7); bit 18: a declaration was removed (D8);
   bit 19: the program calls a sub-routine (D5 / D15 territory); bit 20: the model rejects *)
Definition guard_flags_cfg (c : config) (p : cstmts) : N :=
  let base := tlower_info c p in
  let bits := map (fun f => negb (same_result base (tlower_info (with_fx f c) p))) switches in
  let sw := fold_right (fun (b : bool) acc => (if b then 1 else 0) + 2 * acc) 0 bits in
  sw
  + (match base with OK i => (if Nat.ltb 0 (ti_leftover i) then 65536 else 0) + (if ti_dropped i then 131072 else 0)
                             + (match ti_removed i with [] => 0 | _ => 262144 end)
                | Err _ => 1048576 end)
  + (if has_call_ss p then 524288 else 0).

Definition guard_flags (p : cstmts) : N := guard_flags_cfg (cfg_insn 0) p.
