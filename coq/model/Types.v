(* ValueType as a value (signed, width, group flags) and the wrappers that apply the REGENERATED
   heap-passing functions of gen/TypeRules.v to such values. *)
From Coq Require Import ZArith NArith List Bool String Ascii.
From RZ.lib Require Import PyHeap.
From RZ.gen Require Import TypeRules.
Import ListNotations.
Local Open Scope string_scope.

Record vtype := mkvt { vt_sg : bool; vt_w : N; vt_bool : bool; vt_void : bool; vt_ext : bool; vt_float : bool;
                       vt_hyb : bool; vt_const : bool;
                       vt_tok : bool (* bit_width is a lark Token (a str): mem_load / mem_store operation types *) }.

(* ValueType.__eq__ : width and signedness only (groups are ignored) *)
Definition vtype_eqb (a b : vtype) : bool :=
  Bool.eqb (vt_tok a) (vt_tok b) && N.eqb (vt_w a) (vt_w b) && Bool.eqb (vt_sg a) (vt_sg b).

Definition vt_of (t : vtype) : vt := {| vsigned := vt_sg t; vbw := vt_w t |}.
Definition with_vt (t : vtype) (v : vt) : vtype :=
  mkvt (vsigned v) (vbw v) (vt_bool t) (vt_void t) (vt_ext t) (vt_float t) (vt_hyb t) (vt_const t) (vt_tok t).

(* Python compares Token widths as strings: the order of the BIT_WIDTH spellings is lexicographic.
   c11_cast only compares and copies widths, so running it on lexicographic ranks and mapping back
   is exact. *)
Definition lex_rank (w : N) : N :=
  match w with 1 => 0 | 16 => 1 | 2 => 2 | 32 => 3 | 4 => 4 | 64 => 5 | 8 => 6 | _ => 7 end%N.
Definition lex_unrank (r : N) : N :=
  match r with 0 => 1 | 1 => 16 | 2 => 2 | 3 => 32 | 4 => 4 | 5 => 64 | 6 => 8 | _ => 0 end%N.

(* c11_cast on two distinct objects; deepcopy keeps the group flags of the copied object.
   None = Python raises TypeError (ordering comparison between a Token and an int). *)
Definition c11_vtypes (a b : vtype) : option (vtype * vtype) :=
  if vt_tok a && vt_tok b then
    let a' := {| vsigned := vt_sg a; vbw := lex_rank (vt_w a) |} in
    let b' := {| vsigned := vt_sg b; vbw := lex_rank (vt_w b) |} in
    let '(h, (ra, rb)) := c11_cast [a'; b'] 0%nat 1%nat in
    Some (with_vt a {| vsigned := vsigned (rd h ra); vbw := lex_unrank (vbw (rd h ra)) |},
          with_vt b {| vsigned := vsigned (rd h rb); vbw := lex_unrank (vbw (rd h rb)) |})
  else if vt_tok a || vt_tok b then None
  else
    let '(h, (ra, rb)) := c11_cast [vt_of a; vt_of b] 0%nat 1%nat in
    Some (with_vt a (rd h ra), with_vt b (rd h rb)).

(* promoted_type: the same object, or a fresh ValueType(True, 32) with default group *)
Definition promoted_vtype (a : vtype) : option vtype :=
  if vt_tok a then None else
  let '(h, r) := promoted_type [vt_of a] 0%nat in
  Some (if Nat.eqb r 0 then a else mkvt (vsigned (rd h r)) (vbw (rd h r)) false false false false false false false).

Definition set_signed_vt (t : vtype) : vtype := mkvt true (vt_w t) (vt_bool t) (vt_void t) (vt_ext t) (vt_float t) (vt_hyb t) (vt_const t) (vt_tok t).
Definition set_hybrid_vt (t : vtype) : vtype := mkvt (vt_sg t) (vt_w t) (vt_bool t) (vt_void t) (vt_ext t) (vt_float t) true (vt_const t) (vt_tok t).

(* small string helpers used by the model *)
Definition lower_char (c : ascii) : ascii :=
  let n := nat_of_ascii c in if ((65 <=? n) && (n <=? 90))%nat then ascii_of_nat (n + 32) else c.
Fixpoint lower_ascii (s : string) : string := match s with EmptyString => EmptyString | String c t => String (lower_char c) (lower_ascii t) end.

Definition digit_char (n : N) : string := String (ascii_of_N (48 + n)) EmptyString.
Fixpoint string_of_N_fuel (fuel : nat) (n : N) (acc : string) : string :=
  match fuel with
  | O => acc
  | S k => let acc' := digit_char (n mod 10) ++ acc in
           if (n / 10 =? 0)%N then acc' else string_of_N_fuel k (n / 10) acc'
  end.
Definition string_of_N (n : N) : string := string_of_N_fuel 40 n "".
