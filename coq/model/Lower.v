(* Hand-written executable model of RZILTransformer at TREE level: which RzIL effect the emitted
   body denotes (after inlining single-assignment C variables and erasing DUP).  It follows the
   Lark callbacks bottom-up, threading the parts of ILOpsHolder state that influence the tree:
   declared variables, register access kinds, pending hybrid effects, the h_tmp counter, the
   immediate prologue.  All opcode / type decisions are calls into the REGENERATED tables
   gen/OpTables.v and gen/TypeRules.v.  Tied to the code by correspondence K2. *)
From Coq Require Import ZArith NArith List Bool String Ascii.
From RZ.lib Require Import BV PyHeap.
From RZ.sem Require Import RzIL.
From RZ.model Require Import Ast Types OpTables.
Import ListNotations.
Local Open Scope string_scope.
Local Open Scope Z_scope.
Local Open Scope list_scope.
Infix "+++" := String.append (at level 60, right associativity).

(* ------------------------------------------------------------------ results *)
Inductive res (A : Type) := OK (a : A) | Err (msg : string).
Arguments OK {A}. Arguments Err {A}.

(* ------------------------------------------------------------------ values flowing between callbacks *)
Inductive kind :=
| KLit (v : Z) (isbool : bool)        (* LetVar holding a Python int (Number, Sizeof, Bool) *)
| KLitFloat (nonzero : bool)          (* Number holding a Python float (result of / on literals) *)
| KBoolOp                             (* BooleanOp or CompareOp: used as condition without NON_ZERO *)
| KReg (name : string)                (* Register *)
| KVar (name : string)                (* Variable / Immediate / ReturnValue *)
| KTmp (name : string) (gcc : bool)   (* h_tmpN local; gcc = owner is a GCCStmtDeclExpr *)
| KParam (name : string)
| KMacro                              (* MacroInvocation (always inlined; passed textually to external parameters) *)
| KExec.                              (* any other PureExec *)

Record pval := mkpv { pv_term : pure; pv_ty : vtype; pv_kind : kind; pv_tmps : list string }.
Record leff := mkle { le_term : effect; le_tmps : list string; le_empty : bool }.

Inductive item :=
| IPure (p : pval)
| IStr (s : string)
| IEff (e : leff)                     (* an Effect object (statement result) *)
| IAsg (e : leff) (src : pval)        (* an Assignment (possibly wrapped by chk_hybrid_dep) and its source operand *)
| IVoid (e : leff)                    (* a void hybrid: Effect and PureExec at once *)
| ITree (what : string)               (* raw lark Tree / Token of a rule without callback *)
| ITok (s : string).

(* ------------------------------------------------------------------ state *)
Inductive access := AR | AW | ARW | APR | APW | APRW | AUnknown.
Record reginfo := mkreg { r_op : regop; r_ty : vtype; r_acc : access; r_x : bool (* isa_id = "x" *); r_pc : bool; r_new : bool }.

Record pend := mkpend { pd_name : string; pd_pre : list effect; pd_hyb : effect; pd_set : effect; pd_exec_first : bool;
                        pd_tmps : list string }.

Record lstate := mkst {
  st_vars : list (string * option vtype);    (* Variables / Immediates / ret_val / h_tmp in read_ops, with their types *)
  st_regs : list (string * reginfo);
  st_pending : list pend;                    (* hybrid_effect_dict, insertion order *)
  st_hcount : N;
  st_imms : list effect;                     (* imm_set_effect_list *)
  st_nonempty : bool;                        (* holder.is_empty() is false *)
  st_removed : list string                   (* names removed by rm_op_by_name (declarations lost) *)
}.

Definition M (A : Type) := lstate -> res (A * lstate).
Definition ret {A} (a : A) : M A := fun s => OK (a, s).
Definition fail {A} (m : string) : M A := fun _ => Err m.
Definition bind {A B} (m : M A) (f : A -> M B) : M B :=
  fun s => match m s with OK (a, s') => f a s' | Err e => Err e end.
Notation "'do' x <- m ; k" := (bind m (fun x => k)) (at level 200, x name, m at level 100, k at level 200).
Notation "'do' ' p <- m ; k" := (bind m (fun p => k)) (at level 200, p pattern, m at level 100, k at level 200).
Definition get : M lstate := fun s => OK (s, s).
Definition put (s : lstate) : M unit := fun _ => OK (tt, s).
Definition touch : M unit := fun s =>
  OK (tt, mkst (st_vars s) (st_regs s) (st_pending s) (st_hcount s) (st_imms s) true (st_removed s)).

(* ------------------------------------------------------------------ configuration *)
Record subsig := mksub { sub_name : string; sub_ret : vtype; sub_params : list vtype }.
Record macsig := mkmac { mac_name : string; mac_rz : string; mac_ret : vtype; mac_params : list vtype }.
(* Repair switches.  The FAITHFUL model is `no_fixes`.  Each switch repairs one known defect of the
   pinned compiler; "the translation of p does not depend on switch i" is the decidable guard under
   which the property theorems are stated, and the witness of each defect is a program on which the
   switch matters. *)
Record fixes := mkfx {
  fx_cast_fill : bool;      (* D3: widening fill bit from the SOURCE signedness *)
  fx_shift_promote : bool;  (* D1: promote the left operand of << >> *)
  fx_bool_int : bool;       (* D2: ! && || yield an int (0/1), not the first operand's type *)
  fx_cmp_promote : bool;    (* D13: integer promotion of comparison / ?: operands *)
  fx_compound_conv : bool;  (* D14: compound assignment converts the result to the target type *)
  fx_literals : bool;       (* D6: literal typing per C11 6.4.4.1, folding in the C result type with wrap-around *)
  fx_divmod : bool;         (* D19: / and % convert their operands like the other arithmetic operators and are signed for signed types *)
  fx_addr : bool;           (* D20: the address operand of mem_load / mem_store is converted to the 32-bit address type *)
  fx_reject_dropped : bool  (* D7: comma expressions, labels, goto/break/continue raise instead of being dropped *)
}.
Definition no_fixes := mkfx false false false false false false false false false.
Definition all_fixes := mkfx true true true true true true true true true.
(* the switches that are ON in the repository as it stands: defects repaired by `fix:` commits
   (D1 shift promotion, D13 comparison/?: promotion, D14 compound assignment conversion, D7 rejection).
   D3 (fill bit of a widening cast) is repaired in the repository as well; it is not expressed by a switch: OpTables.cast_il_exec IS the
   repaired rule, with the code's exception for non-negative constants (Lower.nonneg_const); the switch fx_cast_fill only removes that
   exception (the all_fixes model sign-fills every widening cast of a signed source) *)
Definition faithful := mkfx false true false true true false false false true.

Record config := mkcfg {
  cfg_fx : fixes;
  cfg_subs : list subsig;
  cfg_macros : list macsig;
  cfg_params : list (string * vtype);       (* parameters of the routine being compiled *)
  cfg_ret : option vtype;                   (* return type when compiling a sub-routine *)
  cfg_hstart : N                            (* hybrid_op_count at entry *)
}.

(* ------------------------------------------------------------------ types *)
Definition ty_int (sg : bool) (w : N) : vtype := mkvt sg w false false false false false false false.
Definition ty_bool : vtype := mkvt false 1 true false false false false false false.
Definition ty_tok (sg : bool) (w : N) : vtype := mkvt sg w false false false false false false true.
Definition ty_void : vtype := mkvt false 32 false true false false false false false.
Definition is_numeric (t : vtype) : bool := negb (vt_void t) && negb (vt_ext t).
Definition ty_eq (a b : vtype) : M bool :=
  if is_numeric a && is_numeric b then ret (vtype_eqb a b) else fail "bit_width/signed used on EXTERNAL or VOID type".
Definition need_numeric (t : vtype) : M unit := if is_numeric t then ret tt else fail "bit_width/signed used on EXTERNAL or VOID type".

Definition string_of_ty (t : vtype) : string :=
  if vt_ext t then "EXTERNAL" else if vt_void t then "void" else (if vt_sg t then "st" else "ut").

(* ------------------------------------------------------------------ leaves / tmps *)
Definition item_tmps (i : item) : list string :=
  match i with IPure p => pv_tmps p | IEff e | IVoid e | IAsg e _ => le_tmps e | _ => [] end.

(* ------------------------------------------------------------------ hybrids: chk_hybrid_dep *)
Definition pend_effect (p : pend) : effect :=
  seqn (pd_pre p ++ (if pd_exec_first p then [pd_hyb p; pd_set p] else [pd_set p; pd_hyb p])).

Fixpoint pop_pending (name : string) (l : list pend) : option (pend * list pend) :=
  match l with
  | [] => None
  | p :: t => if String.eqb (pd_name p) name then Some (p, t)
              else match pop_pending name t with Some (q, t') => Some (q, p :: t') | None => None end
  end.

Fixpoint collect_deps (names : list string) (pending : list pend) : list pend * list pend :=
  match names with
  | [] => ([], pending)
  | n :: t => match pop_pending n pending with
              | Some (p, rest) => let '(ds, rest') := collect_deps t rest in (p :: ds, rest')
              | None => collect_deps t pending
              end
  end.

(* tree_in = true when the effect's operand list contains a raw lark Tree (get_name fails) *)
Definition chk_hybrid_dep (e : leff) (seq_then_hyb : bool) (tree_in : bool) : M leff :=
  do s <- get;
  match st_pending s with
  | [] => ret e
  | _ =>
    if tree_in then fail "chk_hybrid_dep: operand without get_name" else
    let '(deps, rest) := collect_deps (le_tmps e) (st_pending s) in
    match deps with
    | [] => ret e
    | _ =>
      do _ <- put (mkst (st_vars s) (st_regs s) rest (st_hcount s) (st_imms s) true (st_removed s));
      let des := map pend_effect deps in
      let dt := flat_map pd_tmps deps in
      ret (mkle (seqn (if seq_then_hyb then le_term e :: des else des ++ [le_term e]))
                (if seq_then_hyb then le_tmps e ++ dt else dt ++ le_tmps e) false)
    end
  end.

(* would chk_hybrid_dep wrap this effect into a Sequence with pending hybrids? (the result is then no longer an Assignment object) *)
Definition hyb_wrapped (e : leff) : M bool :=
  do s <- get;
  ret (match st_pending s with
       | [] => false
       | _ => match fst (collect_deps (le_tmps e) (st_pending s)) with [] => false | _ => true end
       end).

(* Sequence(name, items): effects (minus Empty) are sequenced; everything else only contributes leaves *)
Definition mk_sequence (items : list item) : leff * bool :=
  let effs := flat_map (fun i => match i with IEff e | IVoid e | IAsg e _ => if le_empty e then [] else [le_term e] | _ => [] end) items in
  let tm := flat_map (fun i => match i with IEff _ | IVoid _ | IAsg _ _ => [] | _ => item_tmps i end) items
            ++ flat_map (fun i => match i with IEff e | IVoid e | IAsg e _ => if le_empty e then [] else le_tmps e | _ => [] end) items in
  let has_tree := existsb (fun i => match i with ITree _ => true | _ => false end) items in
  (mkle (seqn effs) tm (match effs with [] => true | _ => false end), has_tree).

Definition empty_eff : leff := mkle EEmpty [] true.

Section Traverse.
  Variable cfg : config.
  Definition fx := cfg_fx cfg.

(* ------------------------------------------------------------------ casts *)
Definition lit_pure (t : vtype) (v : Z) : pure := PBv (vt_sg t) (vt_w t) v.

(* the term a value denotes when read (inlined classes are re-rendered: same tree) *)
Definition rd (p : pval) : pure := pv_term p.

(* isinstance(src, LetVar) and src.get_val() >= 0 *)
Definition nonneg_const (p : pval) : bool := match pv_kind p with KLit v _ => (0 <=? v)%Z | KLitFloat _ => true | _ => false end.

Definition init_a_cast (target : vtype) (p : pval) : M pval :=
  if vt_float target || vt_float (pv_ty p) then fail "Floats or doubles should not be casted" else
  do eq <- ty_eq target (pv_ty p);
  if eq then ret p else
  if vt_bool (pv_ty p) && negb (vt_bool target) then
    (* Ternary(pure, 1, 0) typed by its then-operand *)
    do c <- ret (cond_wrap (match pv_kind p with KBoolOp => true | KLit _ true => fx_bool_int fx | _ => false end) (rd p));
    ret (mkpv (PIte c (lit_pure target 1) (lit_pure target 0)) target KExec (pv_tmps p))
  else
    (* the repair only concerns widening casts: for narrowing / same width the fill bit is irrelevant and the
       faithful term is kept, so that the switch "matters" exactly when the defect can show *)
    ret (mkpv (if fx_cast_fill fx && (vt_w (pv_ty p) <? vt_w target)%N
               then PCast (vt_w target) (if vt_sg (pv_ty p) then PMsb (rd p) else PBool false) (rd p)
               else cast_il_exec target (pv_ty p) (nonneg_const p) (rd p)) target KExec (pv_tmps p)).

Definition promotion_cast (p : pval) : M pval :=
  do _ <- need_numeric (pv_ty p);
  do pt <- (match promoted_vtype (pv_ty p) with Some t => ret t | None => fail "TypeError: Token width compared with int" end);
  do eq <- ty_eq pt (pv_ty p);
  if eq then ret p else init_a_cast pt p.

(* cast_operands(a, b, immutable_a) on two typed pures *)
Definition cast_operands (imm_a : bool) (a b : pval) : M (pval * pval) :=
  do eq <- ty_eq (pv_ty a) (pv_ty b);
  if eq then ret (a, b) else
  if imm_a then do b' <- init_a_cast (pv_ty a) b; ret (a, b') else
  do '(ca, cb) <- (match c11_vtypes (pv_ty a) (pv_ty b) with Some r => ret r | None => fail "TypeError: Token width compared with int" end);
  do a' <- (if negb (N.eqb (vt_w ca) (vt_w (pv_ty a))) || negb (Bool.eqb (vt_sg ca) (vt_sg (pv_ty a))) then init_a_cast ca a else ret a);
  do b' <- (if negb (N.eqb (vt_w cb) (vt_w (pv_ty b))) || negb (Bool.eqb (vt_sg cb) (vt_sg (pv_ty b))) then init_a_cast cb b else ret b);
  ret (a', b').

(* repaired model only: a boolean used where the compiler performs no conversion (shift amount,
   load/store address) becomes an int *)
Definition int_of_bool (p : pval) : M pval :=
  if fx_bool_int fx && vt_bool (pv_ty p) then init_a_cast (ty_int true 32) p else ret p.
Definition addr_of (p0 : pval) : M pval :=
  do p <- int_of_bool p0;
  if fx_addr fx then (do eq <- ty_eq (pv_ty p) (ty_int false 32); if eq then ret p else
                      if (vt_w (pv_ty p) =? 32)%N && negb (vt_tok (pv_ty p)) then ret p else init_a_cast (ty_int false 32) p)
  else ret p.

Definition as_pure (what : string) (i : item) : M pval :=
  match i with
  | IPure p => ret p
  | IVoid _ => fail ("void value used as operand in " +++ what)
  | _ => fail ("non-pure operand in " +++ what)
  end.

Definition is_boolop (p : pval) : bool :=
  match pv_kind p with KBoolOp => true | KLit _ true => fx_bool_int fx | _ => false end.
Definition cond_of (p : pval) : pure := cond_wrap (is_boolop p) (rd p).

(* ------------------------------------------------------------------ operands *)
Definition access_of_letters (l : string) : option access :=
  if existsb (String.eqb l) ["s"; "t"; "u"; "v"; "w"] then Some AR
  else if existsb (String.eqb l) ["d"; "e"] then Some AW
  else if existsb (String.eqb l) ["x"; "y"; "z"] then Some ARW
  else if existsb (String.eqb l) ["ss"; "tt"; "uu"; "vv"] then Some APR
  else if String.eqb l "dd" then Some APW
  else if existsb (String.eqb l) ["xx"; "yy"] then Some APRW
  else None.
Definition is_pair (a : access) := match a with APR | APW | APRW => true | _ => false end.

Fixpoint lookup_reg_info (n : string) (l : list (string * reginfo)) : option reginfo :=
  match l with [] => None | (k, v) :: t => if String.eqb k n then Some v else lookup_reg_info n t end.
Fixpoint update_reg_info (n : string) (v : reginfo) (l : list (string * reginfo)) : list (string * reginfo) :=
  match l with [] => [] | (k, o) :: t => if String.eqb k n then (k, v) :: t else (k, o) :: update_reg_info n v t end.

Definition first_char (s : string) : string := substring 0 1 s.

Definition reg_value (name : string) (ri : reginfo) : pval :=
  (* the term a read denotes is decided at emission time from the final access kind; the
     model records the register by name and resolves it in `finalize_regs` *)
  mkpv (PRaw ("$reg:" +++ name)) (r_ty ri) (KReg name) [].

Definition add_reg (name : string) (ri : reginfo) : M pval :=
  do s <- get;
  match lookup_reg_info name (st_regs s) with
  | Some old => ret (reg_value name old)
  | None =>
      do _ <- put (mkst (st_vars s) (st_regs s ++ [(name, ri)]) (st_pending s) (st_hcount s) (st_imms s) true (st_removed s));
      ret (reg_value name ri)
  end.

Definition lower_reg (cls letters : string) (new : bool) : M pval :=
  match access_of_letters letters with
  | None => fail "register access letters"
  | Some acc =>
      match reg_width cls with
      | None => fail "Register of reg type not handled"
      | Some w0 =>
          let w := if is_pair acc then (w0 * 2)%N else w0 in
          let name := cls +++ letters +++ (if new then "_new" else "") in
          let isa_id := substring 0 1 letters in
          let op := if String.eqb cls "N" then RNreg isa_id else RIsa cls isa_id new in
          add_reg name (mkreg op (ty_int true w) acc (String.eqb isa_id "x") false new)
      end
  end.

Definition lower_operand (o : operand) : M item :=
  match o with
  | OReg cls letters => do p <- lower_reg cls letters false; ret (IPure p)
  | ONewReg cls letters => do p <- lower_reg cls letters true; ret (IPure p)
  | OExplicit name new =>
      match explicit_reg_info name new with
      | Some (op, w) =>
          do p <- add_reg (name +++ (if new then "_new" else "")) (mkreg op (ty_int true w) AUnknown (String.eqb (substring 1 1 name) "x") false new); ret (IPure p)
      | None => fail "explicit register"
      end
  | OAlias name new =>
      let lname := lower_ascii name in
      let w := if existsb (String.eqb lname) ["upcycle"; "pktcount"; "utimer"] then 64%N else 32%N in
      do p <- add_reg (lname +++ (if new then "_new" else ""))
                (mkreg (RAlias ("HEX_REG_ALIAS_" +++ name) new) (ty_int false w) AUnknown (String.eqb (substring 1 1 lname) "x") (String.eqb lname "pc" && negb new) new);
      ret (IPure p)
  | OImm letter =>
      do s <- get;
      match lookup letter (st_vars s) with
      | Some (Some t) => ret (IPure (mkpv (PVarL letter) t (KVar letter) []))
      | Some None => fail "immediate without type"
      | None =>
          let t := ty_int (imm_signed letter) 32 in
          let set := ESetL letter (PImm letter (imm_signed letter) 32) in
          do _ <- put (mkst (st_vars s ++ [(letter, Some t)]) (st_regs s) (st_pending s) (st_hcount s) (st_imms s ++ [set]) true (st_removed s));
          ret (IPure (mkpv (PVarL letter) t (KVar letter) []))
      end
  | ONum v hex suffix =>
      match (if fx_literals fx then c11_literal_vtype v hex suffix else number_vtype suffix) with
      | Some t => do _ <- touch; ret (IPure (mkpv (lit_pure t v) t (KLit v false) []))
      | None => fail "Unsupported number postfix"
      end
  | OIdent name =>
      match lookup name (cfg_params cfg) with
      | Some t => ret (IPure (mkpv (PParam name) t (KParam name) []))
      | None =>
        do s <- get;
        match lookup name (st_vars s) with
        | Some (Some t) =>
            ret (IPure (mkpv (PVarL name) t (if String.eqb (substring 0 5 name) "h_tmp" then KTmp name false else KVar name) []))
        | Some None => ret (IPure (mkpv (PVarL name) (ty_int false 0) (KVar name) []))
        | None =>
            if existsb (String.eqb name) ["EA"; "i"; "k"; "j"] then
              do _ <- put (mkst (st_vars s ++ [(name, Some (ty_int false 32))]) (st_regs s) (st_pending s) (st_hcount s) (st_imms s) true (st_removed s));
              ret (IPure (mkpv (PVarL name) (ty_int false 32) (KVar name) []))
            else ret (IStr name)
        end
      end
  | OFloat _ => fail "float literal"
  | OString s => ret (ITok s)
  end.

(* ------------------------------------------------------------------ folding *)
Definition promoted_or_self (t : vtype) : vtype := match promoted_vtype t with Some x => x | None => t end.
Definition norm_lit (t : vtype) (z : Z) : Z := if vt_sg t then sval (vt_w t) z else wrap (vt_w t) z.
Definition simplify_unary (u : Ast.unop) (p : pval) : option (M pval) :=
  match pv_kind p, u with
  | KLit v _, UNot => let t := promoted_or_self (pv_ty p) in
      let r := if fx_literals fx then norm_lit t (- v - 1) else - v - 1 in
      Some (ret (mkpv (lit_pure t r) t (KLit r false) []))
  | KLit v _, UMinus =>
      let t := if fx_literals fx then promoted_or_self (pv_ty p) else set_signed_vt (promoted_or_self (pv_ty p)) in
      let r := if fx_literals fx then norm_lit t (- v) else - v in
      Some (ret (mkpv (lit_pure t r) t (KLit r false) []))
  | KLit v _, UPlus => let t := promoted_or_self (pv_ty p) in Some (ret (mkpv (lit_pure t v) t (KLit v false) []))
  | _, _ => None
  end.

(* ------------------------------------------------------------------ registers written *)
Definition add_write_property (name : string) : M unit :=
  do s <- get;
  match lookup_reg_info name (st_regs s) with
  | None => ret tt
  | Some ri =>
      let acc' := match r_acc ri with
                  | AR => ARW | APR => APRW
                  | AUnknown => if String.eqb (first_char name) "P" then APW else AW
                  | a => a end in
      put (mkst (st_vars s) (update_reg_info name (mkreg (r_op ri) (r_ty ri) acc' (r_x ri) (r_pc ri) (r_new ri)) (st_regs s))
                (st_pending s) (st_hcount s) (st_imms s) (st_nonempty s) (st_removed s))
  end.

(* an Assignment effect; dest is a register or a local *)
Definition mk_assign (dest src : pval) : M leff :=
  if vt_const (pv_ty dest) then fail "Can not write to the value declared as const" else
  match pv_kind dest with
  | KReg name =>
      do _ <- add_write_property name;
      ret (mkle (EWriteReg (RParam ("$reg:" +++ name)) (rd src)) (pv_tmps dest ++ pv_tmps src) false)
  | KVar name | KTmp name _ => ret (mkle (ESetL name (rd src)) (pv_tmps dest ++ pv_tmps src) false)
  | _ => fail "Dest type not handled"
  end.

(* ------------------------------------------------------------------ resolve_hybrid *)
Definition set_var (name : string) (t : option vtype) : M unit :=
  do s <- get;
  let vars' := if existsb (fun p => String.eqb (fst p) name) (st_vars s)
               then map (fun p => if String.eqb (fst p) name then (name, t) else p) (st_vars s)
               else st_vars s ++ [(name, t)] in
  put (mkst vars' (st_regs s) (st_pending s) (st_hcount s) (st_imms s) true (st_removed s)).

Definition resolve_hybrid (hy_ty : vtype) (read : pure) (hyb : effect) (exec_first : bool) (gcc : bool)
           (tmps : list string) (tree_in : bool) : M item :=
  if vt_void hy_ty then ret (IVoid (mkle hyb tmps false)) else
  do s <- get;
  let name := "h_tmp" +++ string_of_N (st_hcount s) in
  do _ <- put (mkst (st_vars s) (st_regs s) (st_pending s) (st_hcount s + 1) (st_imms s) true (st_removed s));
  let t := set_hybrid_vt hy_ty in
  do _ <- set_var name (Some t);
  let set_tmp := ESetL name read in
  (* seq = Sequence([hybrid, set_tmp]) ; seq = chk_hybrid_dep(seq) *)
  do s1 <- get;
  do _ <- (match st_pending s1 with [] => ret tt | _ => if tree_in then fail "chk_hybrid_dep: operand without get_name" else ret tt end);
  let '(deps, rest) := collect_deps (name :: tmps) (st_pending s1) in
  let entry := mkpend name (map pend_effect deps) hyb set_tmp exec_first (flat_map pd_tmps deps ++ name :: tmps) in
  do _ <- put (mkst (st_vars s1) (st_regs s1) (rest ++ [entry]) (st_hcount s1) (st_imms s1) true (st_removed s1));
  ret (IPure (mkpv (PVarL name) t (KTmp name gcc) [name])).

(* ------------------------------------------------------------------ expressions *)
Definition arith_of (b : Ast.binop) : option RzIL.binop :=
  match b with BAdd => Some RzIL.BAdd | BSub => Some RzIL.BSub | BMul => Some RzIL.BMul | BDiv => Some RzIL.BDiv | BMod => Some RzIL.BMod | _ => None end.

Definition lit_of (p : pval) : option Z := match pv_kind p with KLit v _ => Some v | _ => None end.

Definition bool_lit (b : bool) : pval := mkpv (PBool b) ty_bool (KLit (if b then 1 else 0) true) [].

Definition rm_op (p : pval) : M unit :=
  (* rm_op_by_name: literals are private nodes; removing a register/variable loses its declaration *)
  match pv_kind p with
  | KReg n =>
      do s <- get;
      if vt_hyb (pv_ty p) then fail "update_hybrid_ref: KeyError" else
      put (mkst (st_vars s) (filter (fun r => negb (String.eqb (fst r) n)) (st_regs s)) (st_pending s) (st_hcount s) (st_imms s) (st_nonempty s) (("rm:" +++ n) :: st_removed s))
  | KVar n =>
      do s <- get;
      if vt_hyb (pv_ty p) then fail "update_hybrid_ref: KeyError" else
      (* the declaration disappears; an immediate's prologue assignment then reads an undeclared C variable *)
      put (mkst (filter (fun v => negb (String.eqb (fst v) n)) (st_vars s)) (st_regs s) (st_pending s) (st_hcount s) (st_imms s) (st_nonempty s) (n :: st_removed s))
  | KTmp n _ =>
      (* last reference removed: the hybrid and its temporaries disappear *)
      do s <- get;
      match pop_pending n (st_pending s) with
      | Some (_, rest) => put (mkst (st_vars s) (st_regs s) rest (st_hcount s) (st_imms s) (st_nonempty s) (n :: st_removed s))
      | None => fail "update_hybrid_ref: KeyError"
      end
  | _ => ret tt
  end.

Definition lower_binop (b : Ast.binop) (ia ib : item) : M item :=
  match b with
  | BAdd | BSub | BMul | BDiv | BMod =>
      do a <- as_pure "arith" ia; do c <- as_pure "arith" ib;
      match pv_kind a, pv_kind c with
      | KLit va _, KLit vb _ =>
          do '(ta, _) <- (match c11_vtypes (if fx_literals fx then promoted_or_self (pv_ty a) else pv_ty a)
                                           (if fx_literals fx then promoted_or_self (pv_ty c) else pv_ty c) with
                          | Some r => ret r | None => fail "TypeError" end);
          let nm := fun z => if fx_literals fx then norm_lit ta z else z in
          match b with
          | BAdd => ret (IPure (mkpv (lit_pure ta (nm (nm va + nm vb))) ta (KLit (nm (nm va + nm vb)) false) []))
          | BSub => ret (IPure (mkpv (lit_pure ta (nm (nm va - nm vb))) ta (KLit (nm (nm va - nm vb)) false) []))
          | BMul => ret (IPure (mkpv (lit_pure ta (nm (nm va * nm vb))) ta (KLit (nm (nm va * nm vb)) false) []))
          | BDiv => if vb =? 0 then fail "ZeroDivisionError"
                    else ret (IPure (mkpv (PRaw "$float") ta (KLitFloat (negb (va =? 0))) []))
          | _ => fail "Can not simplify '%' expression"
          end
      | _, _ =>
          match arith_of b with
          | Some o =>
              do '(a', c') <- (match b with
                               | BMod => if fx_divmod fx then do pa <- promotion_cast a; do pc <- promotion_cast c; cast_operands false pa pc
                                         else ret (a, c)
                               | _ => do pa <- promotion_cast a; do pc <- promotion_cast c; cast_operands false pa pc end);
              let o' := if fx_divmod fx && vt_sg (pv_ty a') then (match o with RzIL.BDiv => BSDiv | RzIL.BMod => BSMod | x => x end) else o in
              ret (IPure (mkpv (arith_il_exec o' (pv_ty a') (pv_ty c') (rd a') (rd c')) (pv_ty a') KExec (pv_tmps a' ++ pv_tmps c')))
          | None => fail "arith"
          end
      end
  | BAnd | BOr | BXor =>
      do a <- as_pure "bitop" ia; do c <- as_pure "bitop" ib;
      do pa <- promotion_cast a; do pc <- promotion_cast c;
      do '(a', c') <- cast_operands false pa pc;
      ret (IPure (mkpv (bitop_il_exec (match b with BAnd => "&" | BOr => "|" | _ => "^" end) (pv_ty a') (rd a') (rd c'))
                       (pv_ty a') KExec (pv_tmps a' ++ pv_tmps c')))
  | BShl | BShr =>
      do a0 <- as_pure "shift" ia; do c0 <- as_pure "shift" ib; do c <- int_of_bool c0;
      do a <- (if fx_shift_promote fx then promotion_cast a0 else ret a0);
      do _ <- need_numeric (pv_ty a);
      ret (IPure (mkpv (bitop_il_exec (match b with BShl => "<<" | _ => ">>" end) (pv_ty a) (rd a) (rd c))
                       (pv_ty a) KExec (pv_tmps a ++ pv_tmps c)))
  | BLt | BGt | BLe | BGe | BEq | BNe =>
      do a <- as_pure "compare" ia; do c <- as_pure "compare" ib;
      match pv_kind a, pv_kind c with
      | KLit va0 _, KLit vb0 _ =>
          do '(va, vb) <- (if fx_literals fx then
                             match c11_vtypes (promoted_or_self (pv_ty a)) (promoted_or_self (pv_ty c)) with
                             | Some (t, _) => ret (norm_lit t va0, norm_lit t vb0) | None => fail "TypeError" end
                           else ret (va0, vb0));
          ret (IPure (bool_lit (match b with BLt => va <? vb | BGt => vb <? va | BLe => va <=? vb | BGe => vb <=? va
                                           | BEq => va =? vb | _ => negb (va =? vb) end)))
      | _, _ =>
          do '(a', c') <- (if fx_cmp_promote fx then do pa <- promotion_cast a; do pc <- promotion_cast c; cast_operands false pa pc
                           else cast_operands false a c);
          do _ <- need_numeric (pv_ty a'); do _ <- need_numeric (pv_ty c');
          ret (IPure (mkpv (cmp_il_exec (match b with BLt => "<" | BGt => ">" | BLe => "<=" | BGe => ">=" | BEq => "==" | _ => "!=" end)
                                        (pv_ty a') (pv_ty c') (rd a') (rd c'))
                           ty_bool KBoolOp (pv_tmps a' ++ pv_tmps c')))
      end
  | BLAnd | BLOr =>
      do a <- as_pure "boolean" ia; do c <- as_pure "boolean" ib;
      do '(a', c') <- (if fx_bool_int fx then ret (a, c) else cast_operands false a c);
      ret (IPure (mkpv (boolop_il_exec (match b with BLAnd => "&&" | _ => "||" end) (is_boolop a') (is_boolop c') (rd a') (rd c'))
                       (if fx_bool_int fx then ty_bool else pv_ty a') KBoolOp (pv_tmps a' ++ pv_tmps c')))
  end.

Definition lower_unop (u : Ast.unop) (ia : item) : M item :=
  match u with
  | UNot | UMinus | UPlus | ULNot =>
      do a <- as_pure "unary" ia;
      match simplify_unary u a with
      | Some m => do r <- m; ret (IPure r)
      | None =>
          match u with
          | UNot | UMinus =>
              do pa <- promotion_cast a;
              ret (IPure (mkpv (bitop_il_exec (match u with UNot => "~" | _ => "-" end) (pv_ty pa) (rd pa) (rd pa)) (pv_ty pa) KExec (pv_tmps pa)))
          | ULNot => ret (IPure (mkpv (boolop_il_exec "!" (is_boolop a) false (rd a) (rd a)) (if fx_bool_int fx then ty_bool else pv_ty a) KBoolOp (pv_tmps a)))
          | _ => fail "Unary expression + not handled"
          end
      end
  | _ => fail "Unary expression not handled"
  end.

(* type_specifier callback *)
Definition resolve_one (t : tspec) : M vtype :=
  match t with
  | TS_int => ret (ty_int true 32)
  | TS_unsigned => ret (ty_int false 32)
  | TS_intN sg w => ret (ty_int sg w)
  | TS_sizeN b sg => ret (ty_int sg (b * 8))
  | TS_const => fail "const is not a type specifier"
  | TS_other _ => fail "Data type is not handled"
  end.

(* specifier_qualifier_list (casts): only `unsigned int` *)
Definition resolve_cast_ty (l : tyspec) : M vtype :=
  match l with
  | [t] => resolve_one t
  | [a; b] =>
      do ta <- resolve_one a; do tb <- resolve_one b;
      if vtype_eqb ta (ty_int false 32) && vtype_eqb tb (ty_int true 32) then ret (ty_int false 32)
      else fail "Handling specifier qualifier lists only rudimentary implemented"
  | _ => fail "specifier qualifier list"
  end.

(* declaration_specifiers: right-nested [spec; rest...] *)
Fixpoint resolve_decl_ty (l : tyspec) : M vtype :=
  match l with
  | [] => fail "no type"
  | [t] => resolve_one t
  | TS_const :: rest =>
      do t <- resolve_decl_ty rest;
      ret (mkvt (vt_sg t) (vt_w t) (vt_bool t) (vt_void t) (vt_ext t) (vt_float t) (vt_hyb t) true (vt_tok t))
  | TS_other _ :: _ => fail "Type specifier currently not supported"
  | sp :: rest =>
      do spt <- resolve_one sp;
      do t <- resolve_decl_ty rest;
      if negb (vtype_eqb spt (ty_int false 32)) && vtype_eqb t (ty_int true 32) then fail "Type specifier currently not supported"
      else ret (mkvt false (vt_w t) (vt_bool t) (vt_void t) (vt_ext t) (vt_float t) (vt_hyb t) (vt_const t) (vt_tok t))
  end.

Definition lower_cast (t : tyspec) (ia : item) : M item :=
  do ty <- resolve_cast_ty t;
  do a <- as_pure "cast" ia;
  do eq <- ty_eq (pv_ty a) ty;
  if eq then ret (IPure a) else do r <- init_a_cast ty a; ret (IPure r).

Definition decl_type (t : tyspec) : M vtype := resolve_decl_ty t.

Definition find_sub (f : string) : option subsig :=
  find (fun s => String.eqb (sub_name s) f) (cfg_subs cfg).
Definition find_mac (f : string) : option macsig :=
  find (fun s => String.eqb (mac_name s) f) (cfg_macros cfg).

(* cast_arg_list + build_arg_list *)
Fixpoint lower_args (items : list item) (ptypes : list vtype) : M (list arg * list string) :=
  match items, ptypes with
  | [], [] => ret ([], [])
  | i :: it, pt :: ptt =>
      do '(rest, tm) <- lower_args it ptt;
      if vt_ext pt then
        match i with
        | IPure p => match pv_kind p with
                     | KParam n => ret (ARaw n :: rest, tm)
                     | KReg n => ret (AOp (RParam ("$reg:" +++ n)) :: rest, tm)
                     | KMacro => ret (APure (rd p) :: rest, pv_tmps p ++ tm)
                     | _ => fail "argument has no operand holding variable"
                     end
        | IStr s | ITok s => ret (ARaw s :: rest, tm)
        | _ => fail "external argument"
        end
      else
        match i with
        | IPure p =>
            do eq <- ty_eq (pv_ty p) pt;
            do p' <- (if eq then ret p else init_a_cast pt p);
            ret (APure (rd p') :: rest, pv_tmps p' ++ tm)
        | _ => fail "argument is not a pure"
        end
  | _, _ => fail "Argument and parameter count mismatch"
  end.

(* ------------------------------------------------------------------ the traversal *)
Definition fold_cond (c : pval) : option bool :=
  match pv_kind c with KLit v _ => Some (negb (v =? 0)) | KLitFloat nz => Some nz | _ => None end.

Definition update_gcc_branch (name : string) (c : pure) (then_arm : bool) : M unit :=
  do s <- get;
  let upd := map (fun p => if String.eqb (pd_name p) name
                           then mkpend (pd_name p) (pd_pre p)
                                       (if then_arm then EBranch c (pd_hyb p) EEmpty else EBranch c EEmpty (pd_hyb p))
                                       (pd_set p) (pd_exec_first p) (pd_tmps p)
                           else p) (st_pending s) in
  put (mkst (st_vars s) (st_regs s) upd (st_hcount s) (st_imms s) (st_nonempty s) (st_removed s)).

Definition asg_binop (a : asgop) : option Ast.binop :=
  match a with AAssign => None | AAdd => Some BAdd | ASub => Some BSub | AMul => Some BMul | ADiv => Some BDiv | AMod => Some BMod
             | AShl => Some BShl | AShr => Some BShr | AAnd => Some BAnd | AXor => Some BXor | AOr => Some BOr end.

(* update_assign_src: the compound operators build their PureExec directly (no folding, and
   & | ^ % use the operands as they are) *)
Definition compound_src (a : asgop) (dest src : pval) : M pval :=
  match a with
  | AAssign => ret src
  | AAdd | ASub | AMul | ADiv =>
      do pd0 <- promotion_cast dest; do ps0 <- promotion_cast src;
      (* D19/D21: the right operand of /= was already truncated to the target type; repaired: common type *)
      do '(pd, ps) <- (match a with ADiv => if fx_divmod fx then cast_operands false pd0 ps0 else ret (pd0, ps0) | _ => ret (pd0, ps0) end);
      let o := match a with AAdd => RzIL.BAdd | ASub => RzIL.BSub | AMul => RzIL.BMul
                          | _ => if fx_divmod fx && vt_sg (pv_ty pd) then BSDiv else RzIL.BDiv end in
      ret (mkpv (arith_il_exec o (pv_ty pd) (pv_ty ps) (rd pd) (rd ps)) (pv_ty pd) KExec (pv_tmps pd ++ pv_tmps ps))
  | AMod =>
      if fx_divmod fx then
        do pd <- promotion_cast dest; do ps <- promotion_cast src;
        do '(pd', ps') <- cast_operands false pd ps;
        ret (mkpv (arith_il_exec (if vt_sg (pv_ty pd') then BSMod else RzIL.BMod) (pv_ty pd') (pv_ty ps') (rd pd') (rd ps')) (pv_ty pd') KExec (pv_tmps pd' ++ pv_tmps ps'))
      else ret (mkpv (arith_il_exec RzIL.BMod (pv_ty dest) (pv_ty src) (rd dest) (rd src)) (pv_ty dest) KExec (pv_tmps dest ++ pv_tmps src))
  | AShl | AShr =>
      do pd <- promotion_cast dest; do ps <- promotion_cast src;
      ret (mkpv (bitop_il_exec (match a with AShl => "<<" | _ => ">>" end) (pv_ty pd) (rd pd) (rd ps)) (pv_ty pd) KExec (pv_tmps pd ++ pv_tmps ps))
  | AAnd | AXor | AOr =>
      do _ <- need_numeric (pv_ty dest);
      ret (mkpv (bitop_il_exec (match a with AAnd => "&" | AXor => "^" | _ => "|" end) (pv_ty dest) (rd dest) (rd src)) (pv_ty dest) KExec (pv_tmps dest ++ pv_tmps src))
  end.

Definition has_tree (l : list item) : bool := existsb (fun i => match i with ITree _ => true | _ => false end) l.

  Fixpoint lower_expr (e : cexpr) {struct e} : M item :=
    match e with
    | EOp o => lower_operand o
    | ECast t a => do ia <- lower_expr a; lower_cast t ia
    | EUn u a => do ia <- lower_expr a; lower_unop u ia
    | EBin b l r => do il <- lower_expr l; do ir <- lower_expr r; lower_binop b il ir
    | ECond c t f =>
        do ic <- lower_expr c; do it <- lower_expr t; do if_ <- lower_expr f;
        do pc <- as_pure "conditional" ic;
        match fold_cond pc with
        | Some b =>
            if fx_literals fx then
              (* repaired (D22, D8): the result has the common type of BOTH arms and nothing is un-declared *)
              do pt <- as_pure "conditional" it; do pf <- as_pure "conditional" if_;
              do ppt <- promotion_cast pt; do ppf <- promotion_cast pf;
              do '(pt', pf') <- cast_operands false ppt ppf;
              ret (IPure (if b then pt' else pf'))
            else
            (* simplify_conditional_expr: the dead arm is removed from the holder by name *)
            do dead <- (match (if b then if_ else it) with IPure p => ret p | _ => fail "dead arm has no name" end);
            do _ <- rm_op dead;
            ret (if b then it else if_)
        | None =>
            do pt <- as_pure "conditional" it; do pf <- as_pure "conditional" if_;
            do _ <- (match pv_kind pt with KTmp n true => update_gcc_branch n (cond_of pc) true | _ => ret tt end);
            do _ <- (match pv_kind pf with KTmp n true => update_gcc_branch n (cond_of pc) false | _ => ret tt end);
            do '(pt', pf') <- (if fx_cmp_promote fx then do ppt <- promotion_cast pt; do ppf <- promotion_cast pf; cast_operands false ppt ppf
                               else cast_operands false pt pf);
            ret (IPure (mkpv (PIte (cond_of pc) (rd pt') (rd pf')) (pv_ty pt') KExec (pv_tmps pc ++ pv_tmps pt' ++ pv_tmps pf')))
        end
    | EAssign a l r =>
        do il <- lower_expr l; do ir <- lower_expr r;
        do dest <- (match il with IPure p => ret p | _ => fail "assignment destination" end);
        do '(src, chained) <- (match ir with
                               | IPure p => ret (p, None)
                               | IAsg e p => ret (p, Some e)
                               | _ => fail "assignment source" end);
        do '(dest', src') <- (match a with
                              | AMod | AShr | AShl => ret (dest, src)
                              | ADiv => if fx_divmod fx then ret (dest, src) else cast_operands true dest src
                              | _ => cast_operands true dest src end);
        do src0 <- compound_src a dest' src';
        do src'' <- (match a with
                     | AAssign => ret src0
                     | _ => if fx_compound_conv fx then (do eq <- ty_eq (pv_ty dest') (pv_ty src0); if eq then ret src0 else init_a_cast (pv_ty dest') src0) else ret src0
                     end);
        do asg <- mk_assign dest' src'';
        do w <- hyb_wrapped asg;
        do r <- chk_hybrid_dep asg false false;
        match chained with
        | None => if w then ret (IEff r) else ret (IAsg r src'')
        | Some inner =>
            let '(sq, _) := mk_sequence [IEff r; IEff inner] in
            do _ <- touch;
            do r2 <- chk_hybrid_dep sq false false;
            ret (IEff r2)      (* a Sequence, not an Assignment: a further chain member / an operator applied to it raises *)
        end
    | EPost inc a =>
        do ia <- lower_expr a;
        do p <- as_pure "postfix" ia;
        do _ <- need_numeric (pv_ty p);
        (* the hybrid shares the operand's ValueType OBJECT; resolve_hybrid ORs HYBRID_LVAR into it, so
           the flag ends up on the variable's / register's own type *)
        match pv_kind p with
        | KReg n =>
            do s0 <- get;
            do _ <- (match lookup_reg_info n (st_regs s0) with
                     | Some ri => put (mkst (st_vars s0) (update_reg_info n (mkreg (r_op ri) (set_hybrid_vt (r_ty ri)) (r_acc ri) (r_x ri) (r_pc ri) (r_new ri)) (st_regs s0))
                                            (st_pending s0) (st_hcount s0) (st_imms s0) (st_nonempty s0) (st_removed s0))
                     | None => ret tt end);
            resolve_hybrid (pv_ty p) (rd p) (EWriteReg (RParam ("$reg:" +++ n)) (PIncDec inc (rd p) (vt_w (pv_ty p)))) false false (pv_tmps p) false
        | KVar n | KTmp n _ =>
            do s0 <- get;
            do _ <- (match lookup n (st_vars s0) with
                     | Some (Some t) => set_var n (Some (set_hybrid_vt t))
                     | _ => ret tt end);
            resolve_hybrid (pv_ty p) (rd p) (ESetL n (PIncDec inc (rd p) (vt_w (pv_ty p)))) false false (pv_tmps p) false
        | _ => fail "No scope letter given"
        end
    | ECall f args =>
        do items <- lower_exprs args;
        if String.eqb f "fatal" then ret (IEff empty_eff)
        else if String.eqb f "MEM_STORE0" then do _ <- touch; ret (IEff (mkle ENop [] false))
        else match find_sub f with
        | Some sg =>
            do '(al, tm) <- lower_args items (sub_params sg);
            do _ <- touch;
            resolve_hybrid (sub_ret sg) (PSignExt (vt_sg (sub_ret sg)) (if (vt_w (sub_ret sg) =? 0)%N then 32 else vt_w (sub_ret sg)) (PVarL "ret_val"))
                           (RzIL.ECall f al) true false tm (has_tree items)
        | None =>
            if String.eqb f "sizeof" then
              match items with
              | [IPure p] => do _ <- need_numeric (pv_ty p);
                             do _ <- (if vt_tok (pv_ty p) then fail "TypeError: Token / int" else ret tt);
                             let sz := Z.of_N ((vt_w (pv_ty p) + 7) / 8) in
                             ret (IPure (mkpv (PBv true 32 sz) (ty_int true 32) (KLit sz false) []))
              | _ => fail "sizeof operand"
              end
            else
              (* legacy c_call handler (Hybrids/Call.py) *)
              let rd_arg := fun (i : item) =>
                match i with
                | IStr x | ITok x => ret (ARaw x)
                | IPure p => match pv_kind p with
                             | KParam n => ret (ARaw n)
                             | KReg n => if String.eqb (substring 0 1 n) "P" then ret (ARaw ("""" +++ n +++ """")) else ret (APure (rd p))
                             | _ => ret (APure (rd p)) end
                | _ => fail "c_call argument" end in
              if String.eqb f "STORE_SLOT_CANCELLED" then
                (match items with
                 | [_; _] => do _ <- touch;
                     resolve_hybrid ty_void (PRaw "void") (EPlugin "HEX_STORE_SLOT_CANCELLED" [ARaw "pkt"; ARaw "hi->slot"]) true false (flat_map item_tmps items) (has_tree items)
                 | _ => fail "Argument and parameter count mismatch" end)
              else if String.eqb f "get_npc" then
                (match items with
                 | [a] => do ra <- rd_arg a; do _ <- touch;
                     resolve_hybrid (ty_int false 32) (PSignExt false 32 (PVarL "ret_val")) (EPlugin "HEX_GET_NPC" [ra]) true false (item_tmps a) (has_tree items)
                 | _ => fail "Argument and parameter count mismatch" end)
              else fail ("No value type for function " +++ f)
        end
    | EMacro m args =>
        do items <- lower_exprs args;
        match find_mac m with
        | None => fail "Macro is not defined"
        | Some mg =>
            do '(al, tm) <- lower_args items (mac_params mg);
            do _ <- touch;
            do ps <- (fix go (l : list arg) : M (list pure) :=
                        match l with [] => ret [] | APure p :: t => do r <- go t; ret (p :: r)
                                   | ARaw s :: t => do r <- go t; ret (PRaw s :: r)
                                   | AOp (RParam h) :: t => do r <- go t; ret (PRaw ("$op:" +++ substring 5 (String.length h - 5) h) :: r)
                                   | AOp _ :: t => fail "macro operand argument" end) al;
            ret (IPure (mkpv (PApp (mac_rz mg) ps) (mac_ret mg) KMacro tm))
        end
    | ELoad sg w args =>
        do items <- lower_exprs args;
        match items with
        | [IPure va0] => do va <- addr_of va0; do _ <- touch; ret (IPure (mkpv (PLoad w (rd va)) (ty_tok sg w) KExec (pv_tmps va)))
        | _ => fail "mem_load address"
        end
    | EStmtExpr items last =>
        do its <- lower_stmts items;
        do il <- lower_stmt last;
        match its, il with
        | [i0], [IPure p] =>
            match i0 with
            | IEff st | IAsg st _ | IVoid st =>
                do _ <- need_numeric (pv_ty p);
                resolve_hybrid (pv_ty p) (rd p) (le_term st) true true (le_tmps st ++ pv_tmps p) false
            | _ => fail "gcc extended expr: statement is not an effect"
            end
        | [], _ => fail "gcc extended expr without statement (modelled as unsupported)"
        | _, _ => fail "List of statements in gcc extended expressions not implemented"
        end
    | EComma l r => do _ <- lower_expr l; do _ <- lower_expr r;
                    if fx_reject_dropped fx then fail "Comma expressions are not supported" else ret (ITree "expr")
    | _ => fail "unsupported expression form"
    end
  with lower_exprs (l : cexprs) {struct l} : M (list item) :=
    match l with
    | ENil => ret []
    | ECons e t => do i <- lower_expr e; do r <- lower_exprs t; ret (i :: r)
    end
  with lower_stmt (s : cstmt) {struct s} : M (list item) :=
    match s with
    | SExpr e => do i <- lower_expr e; ret [i]
    | SEmpty =>
        do _ <- touch; do r <- chk_hybrid_dep empty_eff false false; ret [IEff r]
    | SDecl t x None =>
        do ty <- decl_type t;
        do s0 <- get;
        do _ <- (match lookup x (cfg_params cfg) with Some _ => fail "already defined as parameter" | None => ret tt end);
        do _ <- (if existsb (fun p => String.eqb (fst p) x) (st_vars s0) then ret tt else set_var x (Some ty));
        do _ <- touch;
        do r <- chk_hybrid_dep empty_eff false false; ret [IEff r]
    | SDecl t x (Some init) =>
        do ty <- decl_type t;
        do ii <- lower_expr init;
        do src <- as_pure "initializer" ii;
        do _ <- (match lookup x (cfg_params cfg) with Some _ => fail "already defined as parameter" | None => ret tt end);
        do s0 <- get;
        (* init_declarator: dest is the existing variable or a new untyped one (takes the source type) *)
        do dty <- (match lookup x (st_vars s0) with
                   | Some (Some t0) => ret t0
                   | _ => ret (pv_ty src) end);
        do '(_, src1) <- cast_operands true (mkpv (PVarL x) dty (KVar x) []) src;
        (* Assignment constructed with the provisional type: const check *)
        do _ <- (if vt_const dty then fail "Can not write to the value declared as const" else ret tt);
        (* declaration: set_dest_type re-types the variable and re-casts the (already cast) source;
           the Assignment object is shared with the sequence chk_hybrid_dep may have built around it *)
        do _ <- set_var x (Some ty);
        do '(_, src2) <- cast_operands true (mkpv (PVarL x) ty (KVar x) []) src1;
        do asg <- chk_hybrid_dep (mkle (ESetL x (rd src2)) (pv_tmps src1) false) false false;
        ret [IEff asg]
    | SDeclOther w => fail "declaration form not supported"
    | SIf c t e =>
        do ic <- lower_expr c;
        do it <- lower_stmt t;
        let '(tseq, ttree) := mk_sequence it in
        do _ <- touch;
        do tseq' <- chk_hybrid_dep tseq false ttree;
        match e with
        | None =>
            do pc <- (match ic with IPure p => ret p | _ => fail "condition" end);
            do r <- chk_hybrid_dep (mkle (EBranch (cond_of pc) (le_term tseq') EEmpty) (item_tmps ic ++ le_tmps tseq') false) false false;
            ret [IEff r]
        | Some es =>
            do ie <- lower_stmt es;
            let '(eseq, etree) := mk_sequence ie in
            do eseq' <- chk_hybrid_dep eseq false etree;
            do pc <- (match ic with IPure p => ret p | _ => fail "condition" end);
            do r <- chk_hybrid_dep (mkle (EBranch (cond_of pc) (le_term tseq') (le_term eseq')) (item_tmps ic ++ le_tmps tseq' ++ le_tmps eseq') false) false false;
            ret [IEff r]
        end
    | SFor i c st b =>
        do ii <- lower_stmt i;
        do ic <- lower_stmt c;
        do is_ <- (match st with Some e => do x <- lower_expr e; ret [x] | None => fail "For loops with 4 elements is not supported yet" end);
        do ib <- lower_stmt b;
        do init <- (match ii with [x] => ret x | _ => fail "for init" end);
        do cnd <- (match ic with [IPure p] => ret p | _ => fail "for condition" end);
        let '(comp, ctree) := mk_sequence (ib ++ is_) in
        do _ <- touch;
        do comp' <- chk_hybrid_dep comp true ctree;
        let loop := mkle (ERepeat (cond_of cnd) (le_term comp')) (pv_tmps cnd ++ le_tmps comp') false in
        let '(sq, stree) := mk_sequence [init; IEff loop] in
        do r <- chk_hybrid_dep sq false stree;
        ret [IEff r]
    | SBlock SNil => do _ <- touch; do r <- chk_hybrid_dep empty_eff false false; ret [IEff r]
    | SBlock l => lower_stmts l
    | SStore sg w args =>
        do items <- lower_exprs args;
        match items with
        | [iva; IPure data] =>
            do va0 <- as_pure "mem_store address" iva; do va <- addr_of va0;
            do eq <- ty_eq (ty_tok sg w) (pv_ty data);
            do d <- (if eq then ret data else init_a_cast (ty_tok sg w) data);
            do _ <- touch;
            do r <- chk_hybrid_dep (mkle (EStore (rd va) (rd d)) (pv_tmps va ++ pv_tmps d) false) false false;
            ret [IEff r]
        | _ => fail "mem_store arguments"
        end
    | SJump e =>
        do ie <- lower_expr e;
        do ta <- as_pure "jump target" ie;
        do _ <- need_numeric (pv_ty ta);
        do ta' <- (if (vt_w (pv_ty ta) =? 32)%N && negb (vt_tok (pv_ty ta)) then ret ta else init_a_cast (ty_int false 32) ta);
        do _ <- touch;
        do r <- chk_hybrid_dep (mkle (ESeq (ESetL "jump_flag" (PBool true)) (ESetL "jump_target" (rd ta'))) (pv_tmps ta') false) false false;
        ret [IEff r]
    | SNop => do _ <- touch; ret [IEff (mkle ENop [] false)]
    | SCancel => do _ <- touch; do r <- chk_hybrid_dep (mkle ENop [] false) false false; ret [IEff r]
    | SReturn None => fail "return without value"
    | SReturn (Some e) =>
        do ie <- lower_expr e;
        do src <- as_pure "return value" ie;
        match cfg_ret cfg with
        | None => fail "return outside of a sub-routine"
        | Some rt =>
            do _ <- need_numeric (pv_ty src);
            do _ <- (if vt_tok (pv_ty src) then fail "TypeError: Token > int" else ret tt);
            do _ <- (if (64 <? vt_w (pv_ty src))%N then fail "return value wider than 64 bit" else ret tt);
            do src' <- (if (vt_w (pv_ty src) =? 64)%N then ret src else init_a_cast (ty_int false 64) src);
            do _ <- set_var "ret_val" (Some rt);
            ret [IEff (mkle (ESetL "ret_val" (rd src')) (pv_tmps src') false)]
        end
    | SWhile _ _ | SDo _ _ => fail "loop not supported"
    | SSwitch _ _ => fail "switch branch not implemented"
    | SLabel _ st | SCase st => do _ <- lower_stmt st;
                                if fx_reject_dropped fx then fail "Labeled statements are not supported" else ret [ITree "labeled_stmt"]
    | SGoto _ => if fx_reject_dropped fx then fail "Jump statement is not supported" else ret [ITok "goto"]
    | SBreak => if fx_reject_dropped fx then fail "Jump statement is not supported" else ret [ITok "break"]
    | SContinue => if fx_reject_dropped fx then fail "Jump statement is not supported" else ret [ITok "continue"]
    end
  with lower_stmts (l : cstmts) {struct l} : M (list item) :=
    match l with
    | SNil => ret []
    | SCons s t => do a <- lower_stmt s; do b <- lower_stmts t; ret (a ++ b)
    end.
End Traverse.

(* ------------------------------------------------------------------ emission-time resolution of registers *)
Definition reg_prefix := "$reg:".
Definition reg_name_of (s : string) : option string :=
  if String.eqb (substring 0 5 s) reg_prefix then Some (substring 5 (String.length s - 5) s) else None.

Definition write_only (a : access) := match a with AW | APW => true | _ => false end.

Section Finalize.
  Variable regs : list (string * reginfo).
  Variable removed : list string.

  Definition reg_read (n : string) : pure :=
    match lookup_reg_info n regs with
    | Some ri =>
        if existsb (String.eqb (reg_prefix +++ n)) removed then PRaw n else
        if write_only (r_acc ri) then PReg (r_op ri) true
        else if r_pc ri then PPktAddr
        else PReg (r_op ri) (r_new ri)
    | None => PRaw n
    end.
  Definition reg_handle (n : string) : regop :=
    match lookup_reg_info n regs with
    | Some ri => if existsb (String.eqb (reg_prefix +++ n)) removed then RParam (n +++ "_op")
                 else if r_pc ri then RParam (n +++ "_op")   (* the pc alias declares no operand handle: a write names an undeclared one *)
                 else r_op ri
    | None => RParam (n +++ "_op")
    end.
  Definition fin_op (r : regop) : regop :=
    match r with RParam s => match reg_name_of s with Some n => reg_handle n | None => r end | _ => r end.

  Fixpoint fin_pure (p : pure) : pure :=
    match p with
    | PRaw s => match reg_name_of s with
                | Some n => reg_read n
                | None => if String.eqb (substring 0 4 s) "$op:" then PRaw (substring 4 (String.length s - 4) s +++ "_op") else p
                end
    | PLet x e b => PLet x (fin_pure e) (fin_pure b)
    | PUn o a => PUn o (fin_pure a)
    | PBin o a b => PBin o (fin_pure a) (fin_pure b)
    | PCmp o a b => PCmp o (fin_pure a) (fin_pure b)
    | PCast w f a => PCast w (fin_pure f) (fin_pure a)
    | PMsb a => PMsb (fin_pure a)
    | PNonZero a => PNonZero (fin_pure a)
    | PInv a => PInv (fin_pure a)
    | PAnd a b => PAnd (fin_pure a) (fin_pure b)
    | POr a b => POr (fin_pure a) (fin_pure b)
    | PIte c a b => PIte (fin_pure c) (fin_pure a) (fin_pure b)
    | PLoad w a => PLoad w (fin_pure a)
    | PSignExt sg w a => PSignExt sg w (fin_pure a)
    | PIncDec i a w => PIncDec i (fin_pure a) w
    | PApp h l => PApp h (map fin_pure l)
    | _ => p
    end.
  Definition fin_arg (a : arg) : arg :=
    match a with APure p => APure (fin_pure p) | AOp r => AOp (fin_op r) | ARaw s => ARaw s end.
  Fixpoint fin_eff (e : effect) : effect :=
    match e with
    | ESetL x p => ESetL x (fin_pure p)
    | EWriteReg r p => EWriteReg (fin_op r) (fin_pure p)
    | EStore a v => EStore (fin_pure a) (fin_pure v)
    | ESeq a b => ESeq (fin_eff a) (fin_eff b)
    | EBranch c t f => EBranch (fin_pure c) (fin_eff t) (fin_eff f)
    | ERepeat c b => ERepeat (fin_pure c) (fin_eff b)
    | RzIL.ECall f l => RzIL.ECall f (map fin_arg l)
    | EPlugin f l => EPlugin f (map fin_arg l)
    | _ => e
    end.
End Finalize.

Definition init_state (cfg : config) : lstate := mkst [] [] [] (cfg_hstart cfg) [] false [].

Definition item_effects (i : item) : list effect :=
  match i with IEff e | IVoid e | IAsg e _ => if le_empty e then [] else [le_term e] | _ => [] end.

(* fbody + emit_final_seq_return at tree level.  Besides the effect and the hybrid counter the
   result records two facts the guards need: how many pending hybrids were left over at the top
   (they are hoisted to the front: D4) and whether any top-level item was dropped by the final
   `isinstance(op, Effect)` filter although it is a raw parse tree / token (D7). *)
Record tinfo := mkti { ti_eff : effect; ti_hcount : N; ti_leftover : nat; ti_dropped : bool; ti_removed : list string }.

Definition tlower_info (cfg : config) (prog : cstmts) : res tinfo :=
  match lower_stmts cfg prog (init_state cfg) with
  | Err e => Err e
  | OK (items, s) =>
      let dropped := existsb (fun i => match i with ITree _ | ITok _ => true | _ => false end) items in
      if negb (st_nonempty s) then OK (mkti ENop (st_hcount s) 0 dropped []) else
      let left := map pend_effect (st_pending s) in
      (* an immediate whose declaration was removed (dead ?: arm) and not re-created: its prologue reads an undeclared C variable *)
      let imms := map (fun e => match e with
                                | ESetL x (PImm _ _ _) => if existsb (fun v => String.eqb (fst v) x) (st_vars s) then e else ESetL x (PRaw x)
                                | _ => e end) (st_imms s) in
      let effs := imms ++ left ++ flat_map item_effects items in
      OK (mkti (fin_eff (st_regs s) (st_removed s) (seqn effs)) (st_hcount s) (List.length left) dropped (st_removed s))
  end.

Definition tlower (cfg : config) (prog : cstmts) : res (effect * N) :=
  match tlower_info cfg prog with OK i => OK (ti_eff i, ti_hcount i) | Err m => Err m end.

(* a Python float (literal division) reaching an emitted effect raises a format error in the
   default layout; tlower_checked applies that rule *)
Fixpoint pure_has_raw (tag : string) (p : pure) : bool :=
  match p with
  | PRaw s => String.eqb s tag
  | PLet _ e b => pure_has_raw tag e || pure_has_raw tag b
  | PUn _ a | PMsb a | PNonZero a | PInv a | PLoad _ a | PSignExt _ _ a | PIncDec _ a _ => pure_has_raw tag a
  | PBin _ a b | PCmp _ a b | PAnd a b | POr a b => pure_has_raw tag a || pure_has_raw tag b
  | PCast _ f a => pure_has_raw tag f || pure_has_raw tag a
  | PIte c a b => pure_has_raw tag c || pure_has_raw tag a || pure_has_raw tag b
  | PApp _ l => existsb (pure_has_raw tag) l
  | _ => false
  end.
Fixpoint eff_has_raw (tag : string) (e : effect) : bool :=
  match e with
  | ESetL _ p | EWriteReg _ p => pure_has_raw tag p
  | EStore a v => pure_has_raw tag a || pure_has_raw tag v
  | ESeq a b => eff_has_raw tag a || eff_has_raw tag b
  | EBranch c t f => pure_has_raw tag c || eff_has_raw tag t || eff_has_raw tag f
  | ERepeat c b => pure_has_raw tag c || eff_has_raw tag b
  | RzIL.ECall _ l | EPlugin _ l => existsb (fun a => match a with APure p => pure_has_raw tag p | _ => false end) l
  | _ => false
  end.

Definition tlower_checked (cfg : config) (prog : cstmts) : res (effect * N) :=
  match tlower cfg prog with
  | OK (e, h) => if eff_has_raw "$float" e then Err "float literal rendered" else OK (e, h)
  | Err m => Err m
  end.
