(* Attribute bookkeeping: which meta tokens a behaviour sends to HexagonTransformerExtension, in
   callback (bottom-up, left-to-right) order.  The effect of each token, the callbacks that send
   it, get_meta and the reset sets are REGENERATED (gen/MetaTables.v). *)
From Coq Require Import ZArith NArith List Bool String Ascii.
From RZ.model Require Import Ast.
From RZ.gen Require Import MetaTables.
Import ListNotations.
Local Open Scope string_scope.

Definition tokens_of (cb : string) : list string :=
  match find (fun p => String.eqb (fst p) cb) callback_tokens with Some p => snd p | None => [] end.
Definition sends (cb tok : string) : bool := existsb (String.eqb tok) (tokens_of cb).
(* the callback `cb` runs and sends `tok` (if it still does so in the source) *)
Definition fire (cb tok : string) (is_new : bool) (num : Z) (f : mflags) : mflags :=
  if sends cb tok then token_effect tok is_new num f else f.

(* assignment_expr: dest is a Register whose ISA name starts with "P" *)
Definition pred_dest (l : cexpr) : option Z :=
  match l with
  | EOp (OReg "P" _) | EOp (ONewReg "P" _) => Some (-1)%Z
  | EOp (OExplicit name _) =>
      if String.eqb (substring 0 1 name) "P" then
        let c := substring 1 1 name in
        if String.eqb c "0" then Some 0%Z else if String.eqb c "1" then Some 1%Z else if String.eqb c "2" then Some 2%Z
        else if String.eqb c "3" then Some 3%Z else Some (-1)%Z
      else None
  | _ => None
  end.

Definition meta_operand (o : operand) (f : mflags) : mflags :=
  match o with
  | ONewReg _ _ => fire "new_reg" "new_reg" true 0 f
  | OExplicit _ new => fire "explicit_reg" "explicit_reg" new 0 f
  | OAlias _ new => if new && alias_new_sends_new_reg then token_effect "new_reg" true 0 f else f
  | _ => f
  end.

Fixpoint meta_e (e : cexpr) (f : mflags) : mflags :=
  match e with
  | EOp o => meta_operand o f
  | ECast _ a | EUn _ a | EPost _ a | EMember a _ | EPtrMember a _ | ECallEmpty a => meta_e a f
  | EBin _ a b | EComma a b | EIndex a b => meta_e b (meta_e a f)
  | ECond a b c => meta_e c (meta_e b (meta_e a f))
  | EAssign _ l r =>
      let f' := meta_e r (meta_e l f) in
      match pred_dest l with Some n => fire "assignment_expr" "pred_write" false n f' | None => f' end
  | ECall _ l | EMacro _ l => meta_es l f
  | ELoad _ _ l => fire "mem_load" "mem_load" false 0 (meta_es l f)
  | EStmtExpr l s => meta_s s (meta_ss l f)
  | _ => f
  end
with meta_es (l : cexprs) (f : mflags) : mflags := match l with ENil => f | ECons e t => meta_es t (meta_e e f) end
with meta_s (s : cstmt) (f : mflags) : mflags :=
  match s with
  | SExpr e | SDecl _ _ (Some e) | SReturn (Some e) => meta_e e f
  | SJump e => fire "jump" "jump" false 0 (meta_e e f)
  | SIf c t None => fire "selection_stmt" "selection_stmt" false 0 (meta_s t (meta_e c f))
  | SIf c t (Some e) => fire "selection_stmt" "selection_stmt" false 0 (meta_s e (meta_s t (meta_e c f)))
  | SFor i c (Some st) b => meta_s b (meta_e st (meta_s c (meta_s i f)))
  | SFor i c None b => meta_s b (meta_s c (meta_s i f))
  | SBlock l => meta_ss l f
  | SStore _ _ l => fire "mem_store" "mem_store" false 0 (meta_es l f)
  | SLabel _ s | SCase s => meta_s s f
  | _ => f
  end
with meta_ss (l : cstmts) (f : mflags) : mflags := match l with SNil => f | SCons s t => meta_ss t (meta_s s f) end.

Definition attrs (p : cstmts) : list string := get_meta (meta_ss p clean).

(* ---------------------------------------------------------------- the property's own definition *)
Definition is_new_operand (o : operand) : bool :=
  match o with ONewReg _ _ => true | OExplicit _ n | OAlias _ n => n | _ => false end.

Section Contains.
  Variable pe : cexpr -> bool.     (* holds at this expression node *)
  Variable ps : cstmt -> bool.     (* holds at this statement node *)
  Fixpoint any_e (e : cexpr) : bool :=
    pe e ||
    match e with
    | ECast _ a | EUn _ a | EPost _ a | EMember a _ | EPtrMember a _ | ECallEmpty a => any_e a
    | EBin _ a b | EComma a b | EIndex a b | EAssign _ a b => any_e a || any_e b
    | ECond a b c => any_e a || any_e b || any_e c
    | ECall _ l | EMacro _ l | ELoad _ _ l => any_es l
    | EStmtExpr l s => any_ss l || any_s s
    | _ => false
    end
  with any_es (l : cexprs) : bool := match l with ENil => false | ECons e t => any_e e || any_es t end
  with any_s (s : cstmt) : bool :=
    ps s ||
    match s with
    | SExpr e | SDecl _ _ (Some e) | SReturn (Some e) | SJump e => any_e e
    | SIf c t None => any_e c || any_s t
    | SIf c t (Some e) => any_e c || any_s t || any_s e
    | SFor i c (Some st) b => any_s i || any_s c || any_e st || any_s b
    | SFor i c None b => any_s i || any_s c || any_s b
    | SBlock l => any_ss l
    | SStore _ _ l => any_es l
    | SLabel _ s | SCase s => any_s s
    | _ => false
    end
  with any_ss (l : cstmts) : bool := match l with SNil => false | SCons s t => any_s s || any_ss t end.
End Contains.

Definition nope_e (_ : cexpr) := false.
Definition nope_s (_ : cstmt) := false.
Definition contains_if := any_ss nope_e (fun s => match s with SIf _ _ _ => true | _ => false end).
Definition reads_new := any_ss (fun e => match e with EOp o => is_new_operand o | _ => false end) nope_s.
Definition loads_mem := any_ss (fun e => match e with ELoad _ _ _ => true | _ => false end) nope_s.
Definition stores_mem := any_ss nope_e (fun s => match s with SStore _ _ _ => true | _ => false end).
Definition jumps := any_ss nope_e (fun s => match s with SJump _ => true | _ => false end).
Definition assigns_pred := any_ss (fun e => match e with EAssign _ l _ => match pred_dest l with Some _ => true | None => false end | _ => false end) nope_s.
Definition assigns_numbered (n : Z) := any_ss (fun e => match e with EAssign _ l _ => match pred_dest l with Some k => Z.eqb k n | None => false end | _ => false end) nope_s.

Record spec := mkspec { s_cond : bool; s_new : bool; s_memw : bool; s_memr : bool; s_branch : bool; s_wpred : bool; s_p : Z -> bool }.
Definition spec_of (p : cstmts) : spec :=
  mkspec (contains_if p) (reads_new p) (stores_mem p) (loads_mem p) (jumps p) (assigns_pred p)
         (fun n => ((0 <=? n) && (n <? 4))%Z && assigns_numbered n p).
