(* A small-step model of `for res in pool.imap(parse_single, args): result.update(res)` (Parser.parse):
   a task queue, n workers, nondeterministic completion, the reorder buffer of imap (results are yielded
   in submission order), the consumer accumulating the yielded results.  parse_single is a parameter f:
   pure and total (the code's catch-all `except Exception` turns every failure into a result value). *)
From Coq Require Import List Arith Lia.
Import ListNotations.

Section Pool.
  Variables task result : Type.
  Variable f : task -> result.

  Record cfg := mkcfg {
    queue : list (nat * task);      (* submitted, not yet taken by a worker (index, task) *)
    running : list (nat * task);    (* being processed *)
    buffer : list (nat * result);   (* finished, waiting to be yielded in order *)
    next : nat;                     (* index of the result the consumer receives next *)
    acc : list result               (* what the consumer has received so far, in order *)
  }.

  Fixpoint index_from (i : nat) (l : list task) : list (nat * task) :=
    match l with [] => [] | t :: r => (i, t) :: index_from (S i) r end.
  Definition init (tasks : list task) : cfg := mkcfg (index_from 0 tasks) [] [] 0 [].

  Inductive step (workers : nat) : cfg -> cfg -> Prop :=
  | Dispatch : forall i t q r b n a,
      length r < workers ->
      step workers (mkcfg ((i, t) :: q) r b n a) (mkcfg q (r ++ [(i, t)]) b n a)
  | Complete : forall q r1 i t r2 b n a,
      step workers (mkcfg q (r1 ++ (i, t) :: r2) b n a) (mkcfg q (r1 ++ r2) ((i, f t) :: b) n a)
  | Yield : forall q r b1 x b2 n a,
      step workers (mkcfg q r (b1 ++ (n, x) :: b2) n a) (mkcfg q r (b1 ++ b2) (S n) (a ++ [x])).

  Inductive steps (workers : nat) : cfg -> cfg -> Prop :=
  | steps_refl : forall c, steps workers c c
  | steps_cons : forall c1 c2 c3, step workers c1 c2 -> steps workers c2 c3 -> steps workers c1 c3.

  Definition final (c : cfg) : Prop := queue c = [] /\ running c = [] /\ buffer c = [].
End Pool.
