(* The repository's own string-pipeline steps as functions over character lists, calling the
   regular expressions REGENERATED from the source (gen/Regexes.v) through lib/Regex.v. *)
From Coq Require Import List Ascii String Bool Arith Lia.
From RZ.lib Require Import Regex.
From RZ.gen Require Import Regexes.
Import ListNotations.
Local Open Scope char_scope.

Fixpoint starts_with (p s : str) : bool :=
  match p, s with [], _ => true | c :: p', d :: s' => Ascii.eqb c d && starts_with p' s' | _, [] => false end.
Fixpoint contains (p s : str) : bool :=
  starts_with p s || match s with [] => false | _ :: s' => contains p s' end.

Definition marker : str := s2l "__COMPOUND_PART1__".

(* split_resolved_shortcode: None = ValueError("Could not split shrtcode line") *)
Definition split_resolved (line : str) : option (str * str) :=
  match rsearch re_split_resolved_shortcode_0 line with
  | Some (_, cs) => match group 1 cs, group 2 cs with Some n, Some b => Some (n, b) | _, _ => None end
  | None => None
  end.

(* split_compounds: None = AttributeError on the failed match *)
Definition split_compounds (beh : str) : option (str * str) :=
  match rmatch re_split_compounds_0 beh with
  | Some cs => match group 1 cs, group 2 cs with Some p1, Some p2 => Some (p1, "{" :: p2 ++ ["}"]) | _, _ => None end
  | None => None
  end.

Inductive loaded := LSkip | LErr | LOne (name : str) (beh : str) | LTwo (name : str) (b1 b2 : str).
Definition load_line (line : str) : loaded :=
  match line with
  | [] => LErr                                   (* line[0] on an empty string: IndexError *)
  | "#" :: _ => LSkip
  | _ =>
      match split_resolved line with
      | None => LErr
      | Some (n, b) =>
          if contains marker b then
            match split_compounds b with Some (b1, b2) => LTwo n b1 b2 | None => LErr end
          else LOne n b
      end
  end.

(* replace_do_while_0: the loop re-applies the search to its own result; fuel = |code| bounds it *)
Definition do_while_step (code : str) : option str :=
  match rsearch re_replace_do_while_0_0 code with
  | Some (_, cs) => match group 1 cs, group 2 cs, group 3 cs with
                    | Some a, Some b, Some c => Some (a ++ b ++ c) | _, _, _ => None end
  | None => None
  end.
Fixpoint do_while_loop (fuel : nat) (tmp : str) : option str :=
  match fuel with
  | O => None
  | S k => match do_while_step tmp with Some t => do_while_loop k t | None => Some tmp end
  end.
Definition replace_do_while_0 (code : str) : option str :=
  match do_while_step code with
  | None => Some code
  | Some t => match do_while_loop (List.length code) t with Some r => Some (r ++ [nl]) | None => None end
  end.

(* ------------------------------------------------------------------ macro files (C20) *)
(* re.sub(pattern, repl, s): replace every non-overlapping match, scanning left to right *)
Fixpoint rsub_from (fuel : nat) (whole : str) (r : re) (repl : str) (s : str) : str :=
  match fuel with
  | O => s
  | S k =>
      match m whole r s [] (fun s' cs => Some ((0%nat, firstn (List.length s - List.length s') s) :: cs)) with
      | Some cs =>
          match group 0 cs with
          | Some g =>
              let rest := skipn (List.length g) s in
              match g, s with
              | [], c :: t => repl ++ c :: rsub_from k whole r repl t        (* empty match: emit, advance one character *)
              | [], [] => repl
              | _, _ => repl ++ rsub_from k whole r repl rest
              end
          | None => s
          end
      | None => match s with [] => [] | c :: t => c :: rsub_from k whole r repl t end
      end
  end.
Definition rsub (r : re) (repl : str) (s : str) : str := rsub_from (S (List.length s)) s r repl s.

Definition matches (r : re) (s : str) : bool := match rmatch r s with Some _ => true | None => false end.
Definition found (r : re) (s : str) : bool := match rsearch r s with Some _ => true | None => false end.

Fixpoint strip_left (p : ascii -> bool) (s : str) : str := match s with c :: t => if p c then strip_left p t else s | [] => [] end.
Definition strip_both (p : ascii -> bool) (s : str) : str := rev (strip_left p (rev (strip_left p s))).
Definition is_nl (c : ascii) := Ascii.eqb c nl.
Definition py_space (c : ascii) : bool := is_space c.

(* one macro file through the filter of cleanup_macros; lines carry their trailing newline as readlines() gives them *)
Fixpoint cleanup_lines (is_vec : bool) (in_gen in_user : bool) (lines : list str) : list str :=
  match lines with
  | [] => []
  | line :: rest =>
      if match line with [c] => Ascii.eqb c nl | _ => false end then cleanup_lines is_vec in_gen in_user rest
      else if matches re_cleanup_macros_1 line then cleanup_lines is_vec true in_user rest
      else if matches re_cleanup_macros_2 line then cleanup_lines is_vec in_gen true rest
      else if matches re_cleanup_macros_3 line then cleanup_lines is_vec in_gen in_user rest
      else if matches re_cleanup_macros_4 line then cleanup_lines is_vec in_gen in_user rest
      else if matches re_cleanup_macros_5 line then
        (if in_gen || in_user then cleanup_lines is_vec false false rest else cleanup_lines is_vec in_gen in_user rest)
      else if in_gen && is_vec then strip_both is_nl line :: cleanup_lines is_vec in_gen in_user rest
      else if in_gen || in_user then cleanup_lines is_vec in_gen in_user rest
      else if matches re_cleanup_macros_6 line then cleanup_lines is_vec in_gen in_user rest
      else strip_both is_nl line :: cleanup_lines is_vec in_gen in_user rest
  end.

(* joining of lines ending in a backslash; None = IndexError (last line ends with a backslash) *)
Fixpoint join_continuations (fuel : nat) (res : list str) : option (list str) :=
  match fuel with
  | O => None
  | S k =>
      match res with
      | [] => Some []
      | l :: rest =>
          if found re_cleanup_macros_0 l then
            match rest with
            | [] => None
            | nxt :: rest' => join_continuations k ((strip_both py_space (rsub re_cleanup_macros_7 [" "] l) ++ nxt) :: rest')
            end
          else match join_continuations k rest with Some r => Some (l :: r) | None => None end
      end
  end.

Definition cleanup_file (is_vec : bool) (lines : list str) : list str := cleanup_lines is_vec false false lines.

(* macro name of a #define line: group 1 of the regex re_patch_macros_1; None = no match (AttributeError in patch_macros) *)
Definition define_name (line : str) : option str :=
  match rsearch re_patch_macros_1 line with Some (_, cs) => group 1 cs | None => None end.

Definition str_eqb (a b : str) : bool := String.eqb (l2s a) (l2s b).
Fixpoint assoc_set (k v : str) (l : list (str * str)) : list (str * str) :=
  match l with [] => [(k, v)] | (k', v') :: t => if str_eqb k k' then (k', v) :: t else (k', v') :: assoc_set k v t end.
Fixpoint assoc_get (k : str) (l : list (str * str)) : option str :=
  match l with [] => None | (k', v) :: t => if str_eqb k k' then Some v else assoc_get k t end.
Definition assoc_del (k : str) (l : list (str * str)) := filter (fun p => negb (str_eqb k (fst p))) l.

(* patches file content -> ordered dictionary name -> line *)
Fixpoint split_lines (s : str) (cur : str) : list str :=
  match s with [] => [rev cur] | c :: t => if Ascii.eqb c nl then rev cur :: split_lines t [] else split_lines t (c :: cur) end.
Definition read_patches (content : str) : option (list (str * str)) :=
  let cont := rsub re_patch_macros_0 [] content in
  fold_left (fun acc line =>
               match acc with
               | None => None
               | Some d => if found re_patch_macros_2 line then
                             match define_name line with Some n => Some (assoc_set n line d) | None => None end
                           else Some d
               end) (split_lines cont []) (Some []).

(* the patch loop; result None = AttributeError (a cleaned line that is not a #define) *)
Fixpoint patch_loop (macros : list str) (patches : list (str * str)) (done : list str) : option (list str * list (str * str)) :=
  match macros with
  | [] => Some ([], patches)
  | mline :: rest =>
      match define_name mline with
      | None => None
      | Some n =>
          if existsb (str_eqb n) done then patch_loop rest patches done
          else match assoc_get n patches with
               | Some p => match patch_loop rest (assoc_del n patches) (n :: done) with Some (r, ps) => Some (p :: r, ps) | None => None end
               | None => match patch_loop rest patches done with Some (r, ps) => Some (mline :: r, ps) | None => None end
               end
      end
  end.
Definition patch_macros (macros : list str) (patch_content : str) : option (list str) :=
  match read_patches patch_content with
  | None => None
  | Some patches =>
      match patch_loop macros patches [] with
      | Some (patched, lft) => Some (rev (map snd lft) ++ patched)     (* each remaining patch is inserted at index 0 *)
      | None => None
      end
  end.
