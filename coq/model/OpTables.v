(* Opcode / fill-bit / prefix decisions of the Pure classes' il_exec methods and the operand
   tables.  HAND-WRITTEN for now (tied by K2); scheduled to be replaced by a regenerated module. *)
From Coq Require Import ZArith NArith List Bool String Ascii.
From RZ.sem Require Import RzIL.
From RZ.model Require Import Types.
Import ListNotations.
Local Open Scope string_scope.

(* Cast.il_exec: the fill bit is the sign bit of the source when both types are signed, and (since the fix: commit for D3) also when a
   signed source is widened to an unsigned type -- except for a non-negative constant, whose sign bit is known to be clear *)
Definition cast_il_exec (target src : vtype) (nonneg_const : bool) (x : pure) : pure :=
  PCast (vt_w target)
        (if (vt_sg target && vt_sg src) || (vt_sg src && (vt_w src <? vt_w target)%N && negb nonneg_const) then PMsb x else PBool false) x.

(* BitOp.il_exec (unary ops ignore b) *)
Definition bitop_il_exec (op : string) (aty : vtype) (a b : pure) : pure :=
  if String.eqb op "&" then PBin BLogAnd a b
  else if String.eqb op "|" then PBin BLogOr a b
  else if String.eqb op "^" then PBin BLogXor a b
  else if String.eqb op "~" then PUn ULogNot a
  else if String.eqb op "-" then PUn UNeg a
  else if String.eqb op ">>" then (if vt_sg aty then PBin BShra a b else PBin BShr0 a b)
  else PBin BShl0 a b.

(* ArithmeticOp.il_exec (integer operands) *)
Definition float_head (o : binop) : string :=
  match o with BAdd => "FADD" | BSub => "FSUB" | BMul => "FMUL" | BDiv | BSDiv => "FDIV" | _ => "FMOD" end.
Definition arith_il_exec (o : binop) (ta tb : vtype) (a b : pure) : pure :=
  if vt_float ta && vt_float tb then PApp (float_head o) [PApp "HEX_GET_INSN_RMODE" [PRaw "hi"]; a; b] else PBin o a b.

(* CompareOp.il_exec *)
Definition cmp_il_exec (op : string) (ta tb : vtype) (a b : pure) : pure :=
  let s := vt_sg ta || vt_sg tb in
  if vt_float ta && vt_float tb then
    (if String.eqb op "<" then PApp "FLT" [a; b] else if String.eqb op ">" then PApp "FGT" [a; b]
     else if String.eqb op "<=" then PApp "FLE" [a; b] else if String.eqb op ">=" then PApp "FGE" [a; b]
     else if String.eqb op "==" then PApp "FEQ" [a; b] else PApp "FINV(EQ" [a; b]) else
  if String.eqb op "<" then PCmp (if s then CSlt else CUlt) a b
  else if String.eqb op ">" then PCmp (if s then CSgt else CUgt) a b
  else if String.eqb op "<=" then PCmp (if s then CSle else CUle) a b
  else if String.eqb op ">=" then PCmp (if s then CSge else CUge) a b
  else if String.eqb op "==" then PCmp CEq a b
  else PInv (PCmp CEq a b).

(* Ternary / Branch / ForLoop / BooleanOp: a condition that is a BooleanOp or CompareOp is used
   as it is, anything else is wrapped in NON_ZERO *)
Definition cond_wrap (is_boolop : bool) (x : pure) : pure := if is_boolop then x else PNonZero x.

(* BooleanOp.il_exec *)
Definition boolop_il_exec (op : string) (a_bool b_bool : bool) (a b : pure) : pure :=
  if String.eqb op "!" then PInv (cond_wrap a_bool a)
  else if String.eqb op "&&" then PAnd (cond_wrap a_bool a) (cond_wrap b_bool b)
  else POr (cond_wrap a_bool a) (cond_wrap b_bool b).

(* get_value_type_from_reg_type *)
Definition reg_width (cls : string) : option N :=
  if existsb (String.eqb cls) ["R"; "C"; "M"; "N"] then Some 32%N
  else if String.eqb cls "P" then Some 8%N
  else if String.eqb cls "V" then Some 1024%N
  else if String.eqb cls "Q" then Some 128%N
  else None.

(* get_value_type_by_isa_imm *)
Definition imm_signed (letter : string) : bool := existsb (String.eqb letter) ["r"; "R"; "s"; "S"].

(* get_value_type_by_c_number: suffix (upper-cased by the harness) -> type *)
Definition number_vtype (suffix : string) : option vtype :=
  if String.eqb suffix "" then Some (mkvt true 32 false false false false false false false)
  else if String.eqb suffix "U" then Some (mkvt false 32 false false false false false false false)
  else if String.eqb suffix "LL" then Some (mkvt true 64 false false false false false false false)
  else if String.eqb suffix "ULL" then Some (mkvt false 64 false false false false false false false)
  else None.

(* Register.get_reg_class / get_reg_num_from_name for explicit registers: computed by the harness
   side table (name -> number, class string, width), validated against the emitted EXPLICIT2OP *)
Fixpoint digits_val (s : string) (acc : option N) : option N :=
  match s with
  | EmptyString => acc
  | String c t =>
      let n := nat_of_ascii c in
      if ((48 <=? n) && (n <=? 57))%nat then digits_val t (Some (match acc with Some a => a * 10 + N.of_nat (n - 48) | None => N.of_nat (n - 48) end)%N)
      else acc
  end.
Fixpoint split_colon (s : string) (cur : string) : list string :=
  match s with
  | EmptyString => [cur]
  | String ":" t => cur :: split_colon t ""
  | String c t => split_colon t (cur ++ String c EmptyString)
  end.
Definition reg_class_of (name : string) : option string :=
  let c := substring 0 1 name in
  let base := if existsb (String.eqb c) ["R"; "N"] then Some "HEX_REG_CLASS_INT_REGS"
              else if String.eqb c "P" then Some "HEX_REG_CLASS_PRED_REGS"
              else if String.eqb c "V" then Some "HEX_REG_CLASS_HVX_VR"
              else if String.eqb c "Q" then Some "HEX_REG_CLASS_HVX_QR"
              else if String.eqb c "G" then Some "HEX_REG_CLASS_GUEST_REGS"
              else if String.eqb c "S" then Some "HEX_REG_CLASS_SYS_REGS"
              else if String.eqb c "M" then Some "HEX_REG_CLASS_MOD_REGS"
              else if String.eqb c "C" then Some "HEX_REG_CLASS_CTR_REGS"
              else None in
  let is_double := (1 <? List.length (split_colon name ""))%nat
                   || ((2 <? String.length name)%nat && String.eqb (substring 1 1 name) (substring 2 1 name)) in
  match base with
  | None => None
  | Some b => if is_double then
                (if String.eqb c "R" then Some "HEX_REG_CLASS_DOUBLE_REGS"
                 else if String.eqb c "V" then Some "HEX_REG_CLASS_HVX_WR"
                 else if String.eqb c "Q" then None else Some (b ++ "64"))
              else Some b
  end.
(* min over the digit groups, with Python's `min(num, n) if num else n` (0 is falsy!) *)
Definition reg_num_of (name : string) : option N :=
  fold_left (fun acc part => match digits_val part None with
                             | None => acc
                             | Some n => match acc with Some a => if (a =? 0)%N then Some n else Some (N.min a n) | None => Some n end
                             end) (split_colon (substring 1 (String.length name - 1) name) "") None.
Definition explicit_reg_info (name : string) (new : bool) : option (regop * N) :=
  match reg_class_of name, reg_num_of name, reg_width (substring 0 1 name) with
  | Some c, Some n, Some w => Some (RExpl (Z.of_N n) c new, w)
  | _, _, _ => None
  end.

(* C11 6.4.4.1 (int = 32, long = long long = 64): used only by the REPAIRED model (switch fx_literals) *)
Definition c11_literal_vtype (v : Z) (hex : bool) (suffix : string) : option vtype :=
  let mk := fun (sg : bool) (w : N) => mkvt sg w false false false false false false false in
  let fits := fun (sg : bool) (w : N) => if sg then (v <? 2 ^ (Z.of_N w - 1))%Z else (v <? 2 ^ Z.of_N w)%Z in
  let s32 := (true, 32%N) in let u32 := (false, 32%N) in let s64 := (true, 64%N) in let u64 := (false, 64%N) in
  let cands : list (bool * N) :=
    if String.eqb suffix "" then (if hex then [s32; u32; s64; u64] else [s32; s64])
    else if String.eqb suffix "U" then [u32; u64]
    else if String.eqb suffix "LL" then (if hex then [s64; u64] else [s64])
    else if String.eqb suffix "ULL" then [u64]
    else [] in
  match find (fun c => fits (fst c) (snd c)) cands with Some (sg, w) => Some (mk sg w) | None => None end.
