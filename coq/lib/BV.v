(* Bitvectors as (width : N, value : Z) with 0 <= value < 2^width, and the RzIL operations on them. *)
From Coq Require Import ZArith NArith List Bool Lia.
Local Open Scope Z_scope.

Definition pow2 (w : N) : Z := 2 ^ Z.of_N w.
Definition wrap (w : N) (x : Z) : Z := x mod pow2 w.
(* signed reading of an unsigned representative *)
Definition sval (w : N) (x : Z) : Z :=
  let u := wrap w x in if (w =? 0)%N then 0 else if u <? pow2 (w - 1) then u else u - pow2 w.
Definition msb (w : N) (x : Z) : bool := if (w =? 0)%N then false else pow2 (w - 1) <=? wrap w x.

(* RzIL CAST(w', fill, x) for x of width w: truncate, or extend with the fill bit *)
Definition bvcast (w w' : N) (fill : bool) (x : Z) : Z :=
  if (w' <=? w)%N then wrap w' x
  else if fill then wrap w x + (pow2 w' - pow2 w) else wrap w x.

(* shifts: the amount is the unsigned value of the second operand; >= width saturates *)
Definition shl0 (w : N) (x n : Z) : Z := if n <? Z.of_N w then wrap w (wrap w x * 2 ^ n) else 0.
Definition shr0 (w : N) (x n : Z) : Z := if n <? Z.of_N w then wrap w x / 2 ^ n else 0.
Definition shra (w : N) (x n : Z) : Z :=
  if n <? Z.of_N w then wrap w (sval w x / 2 ^ n) else if msb w x then pow2 w - 1 else 0.

Lemma pow2_pos w : 0 < pow2 w.
Proof. unfold pow2. apply Z.pow_pos_nonneg; lia. Qed.
Lemma wrap_range w x : 0 <= wrap w x < pow2 w.
Proof. unfold wrap. apply Z.mod_pos_bound. apply pow2_pos. Qed.
Lemma wrap_idem w x : wrap w (wrap w x) = wrap w x.
Proof. unfold wrap. apply Z.mod_mod. pose proof (pow2_pos w). lia. Qed.
Lemma wrap_small w x : 0 <= x < pow2 w -> wrap w x = x.
Proof. unfold wrap. intros. apply Z.mod_small. auto. Qed.
