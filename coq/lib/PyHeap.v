(* A heap of Python ValueType objects: object identity, aliasing and in-place mutation are
   part of the model (needed for "computing the common type never modifies the types passed in"). *)
From Coq Require Import NArith List Bool Lia.
Import ListNotations.

Record vt := { vsigned : bool; vbw : N }.
Definition loc := nat.
Definition heap := list vt.
Definition vt0 := {| vsigned := false; vbw := 0 |}.
Definition rd (h : heap) (l : loc) : vt := nth l h vt0.
Fixpoint upd (h : heap) (l : loc) (v : vt) : heap :=
  match h, l with
  | [], _ => []
  | _ :: t, O => v :: t
  | x :: t, S l' => x :: upd t l' v
  end.
Definition alloc (h : heap) (v : vt) : heap * loc := (h ++ [v], length h).
Definition deepcopy (h : heap) (l : loc) := alloc h (rd h l).
Definition set_bw h l w := upd h l {| vsigned := vsigned (rd h l); vbw := w |}.
Definition set_signed h l s := upd h l {| vsigned := s; vbw := vbw (rd h l) |}.

Definition vt_eqb (a b : vt) : bool := Bool.eqb (vsigned a) (vsigned b) && N.eqb (vbw a) (vbw b).

Lemma rd_upd_same h l v : l < length h -> rd (upd h l v) l = v.
Proof. revert l; induction h as [|x h IH]; intros [|l] H; simpl in *; try lia; auto. unfold rd in *. simpl. apply IH. lia. Qed.
Lemma rd_upd_other h l l' v : l <> l' -> rd (upd h l v) l' = rd h l'.
Proof. revert l l'; induction h as [|x h IH]; intros [|l] [|l'] H; simpl in *; try congruence; auto. unfold rd in *; simpl. apply IH. congruence. Qed.
Lemma len_upd h l v : length (upd h l v) = length h.
Proof. revert l; induction h as [|x h IH]; intros [|l]; simpl; auto. Qed.
Lemma rd_app_old h v l : l < length h -> rd (h ++ [v]) l = rd h l.
Proof. intros. unfold rd. apply app_nth1. auto. Qed.
Lemma rd_app_new h v : rd (h ++ [v]) (length h) = v.
Proof. unfold rd. rewrite app_nth2 by lia. rewrite PeanoNat.Nat.sub_diag. reflexivity. Qed.

Definition same_old (h h' : heap) := forall l, l < length h -> rd h' l = rd h l.

Lemma vt_eqb_eq a b : vt_eqb a b = true <-> a = b.
Proof.
  destruct a as [sa wa], b as [sb wb]; unfold vt_eqb; simpl. rewrite andb_true_iff, eqb_true_iff, N.eqb_eq.
  split; [intros [-> ->]; reflexivity | intros H; inversion H; auto].
Qed.
