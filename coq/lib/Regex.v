(* A backtracking regular-expression matcher with Python `re` semantics for the subset the
   preprocessor uses: literals, character classes, `.` (no newline), greedy / lazy repetition of a
   SINGLE-CHARACTER class (star / plus / optional), concatenation, alternation, capture groups, `^`
   and `$` (end of string or before a final newline), leftmost `search`, anchored `match`.
   Continuation-passing: `k` receives the remaining input and the captures.  Trusted base T6
   (cross-checked against CPython by the K8 correspondence). *)
From Coq Require Import List Ascii String Bool Arith Lia.
Import ListNotations.
Local Open Scope char_scope.

Definition str := list ascii.
Definition s2l (s : string) : str := list_ascii_of_string s.
Definition l2s (l : str) : string := string_of_list_ascii l.

(* character classes *)
Inductive cclass :=
| CAny                       (* . : anything but newline *)
| CWord                      (* \w (ASCII) *)
| CSpace                     (* \s *)
| CDigit                     (* \d *)
| CSet (chars : str) (ranges : list (ascii * ascii)) (classes : list cclass) (negated : bool)   (* [...] *)
| CLit (c : ascii).

Definition nl := "010".
Definition code (c : ascii) : nat := nat_of_ascii c.
Definition is_word (c : ascii) : bool :=
  let n := code c in (((48 <=? n) && (n <=? 57)) || ((65 <=? n) && (n <=? 90)) || ((97 <=? n) && (n <=? 122)) || (n =? 95))%nat.
Definition is_space (c : ascii) : bool := let n := code c in ((n =? 32) || ((9 <=? n) && (n <=? 13)) || ((28 <=? n) && (n <=? 31)))%nat.
Definition is_digit (c : ascii) : bool := let n := code c in ((48 <=? n) && (n <=? 57))%nat.

Fixpoint cmatch (cl : cclass) (c : ascii) : bool :=
  match cl with
  | CAny => negb (Ascii.eqb c nl)
  | CWord => is_word c
  | CSpace => is_space c
  | CDigit => is_digit c
  | CLit d => Ascii.eqb c d
  | CSet chars ranges classes neg =>
      xorb neg (existsb (Ascii.eqb c) chars
                || existsb (fun r => (code (fst r) <=? code c)%nat && (code c <=? code (snd r))%nat) ranges
                || existsb (fun k => cmatch k c) classes)
  end.

Inductive re :=
| RLit (s : str)
| RCls (c : cclass)
| RStar (greedy : bool) (c : cclass)
| RPlus (greedy : bool) (c : cclass)
| ROpt (greedy : bool) (c : cclass)
| RCat (a b : re)
| RAlt (a b : re)
| RGrp (n : nat) (r : re)
| RBol | REol | REps.

Definition caps := list (nat * str).

Fixpoint prefix_lit (l s : str) : option str :=
  match l, s with
  | [], _ => Some s
  | c :: l', d :: s' => if Ascii.eqb c d then prefix_lit l' s' else None
  | _ :: _, [] => None
  end.

(* greedy: take as many as possible, back off one at a time *)
Fixpoint star_g (p : ascii -> bool) (s : str) (k : str -> option caps) : option caps :=
  match s with
  | c :: s' => if p c then match star_g p s' k with Some r => Some r | None => k s end else k s
  | [] => k []
  end.
(* lazy: take as few as possible *)
Fixpoint star_l (p : ascii -> bool) (s : str) (k : str -> option caps) : option caps :=
  match k s with
  | Some r => Some r
  | None => match s with c :: s' => if p c then star_l p s' k else None | [] => None end
  end.

Definition eol (s : str) : bool := match s with [] => true | [c] => Ascii.eqb c nl | _ => false end.

(* `whole` = the complete subject (for ^ and group extraction); `s` = current suffix *)
Fixpoint m (whole : str) (r : re) (s : str) (cs : caps) (k : str -> caps -> option caps) : option caps :=
  match r with
  | RLit l => match prefix_lit l s with Some s' => k s' cs | None => None end
  | RCls c => match s with d :: s' => if cmatch c d then k s' cs else None | [] => None end
  | RStar g c => (if g then star_g else star_l) (cmatch c) s (fun s' => k s' cs)
  | RPlus g c => match s with
                 | d :: s' => if cmatch c d then (if g then star_g else star_l) (cmatch c) s' (fun s'' => k s'' cs) else None
                 | [] => None end
  | ROpt g c =>
      match s with
      | d :: s' => if cmatch c d
                   then (if g then match k s' cs with Some r => Some r | None => k s cs end
                         else match k s cs with Some r => Some r | None => k s' cs end)
                   else k s cs
      | [] => k s cs end
  | RCat a b => m whole a s cs (fun s' cs' => m whole b s' cs' k)
  | RAlt a b => match m whole a s cs k with Some r => Some r | None => m whole b s cs k end
  | RGrp n r' => m whole r' s cs (fun s' cs' => k s' ((n, firstn (List.length s - List.length s') s) :: cs'))
  | RBol => if Nat.eqb (List.length s) (List.length whole) then k s cs else None
  | REol => if eol s then k s cs else None
  | REps => k s cs
  end.

(* re.match: anchored at the start; group 0 is the whole match *)
Definition rmatch (r : re) (s : str) : option caps :=
  m s r s [] (fun s' cs => Some ((0%nat, firstn (List.length s - List.length s') s) :: cs)).

(* re.search: leftmost position at which the regex matches *)
Fixpoint search_from (whole : str) (r : re) (s : str) (skipped : nat) : option (nat * caps) :=
  match m whole r s [] (fun s' cs => Some ((0%nat, firstn (List.length s - List.length s') s) :: cs)) with
  | Some cs => Some (skipped, cs)
  | None => match s with [] => None | _ :: s' => search_from whole r s' (S skipped) end
  end.
Definition rsearch (r : re) (s : str) : option (nat * caps) := search_from s r s 0.

Fixpoint group (n : nat) (cs : caps) : option str :=
  match cs with [] => None | (k, v) :: t => if Nat.eqb k n then Some v else group n t end.
