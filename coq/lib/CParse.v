(* CParse -- a REFERENCE for "the C structure of an expression", driven by a precedence table.
   Definitions only (all executable).  Proofs are in proofs/CParseProofs.v.

   table   : binary levels from tightest to loosest (associativity flag + operator spellings),
             assignment operators, unary prefix operators.  The conditional level sits between
             the loosest binary level and the assignment level, as in C11.
   print   : minimal parentheses according to the table.
   parse   : precedence climbing generated from the table, total via fuel.
   Levels  : 0 = unary level (leaves, prefix operators, parenthesised expressions),
             1..n = binary levels (1 tightest), n+1 = conditional, n+2 = assignment. *)
From Coq Require Import List String Bool Arith.
From RZ.gen Require Import GrammarTables.
Import ListNotations.
Local Open Scope string_scope.
Local Open Scope list_scope.
Local Open Scope nat_scope.

(* ---------- tokens and expressions ---------- *)
Inductive leaf := LId (s : string) | LNum (s : string).
Definition leaf_eq_dec : forall a b : leaf, {a = b} + {a <> b}.
Proof. decide equality; apply string_dec. Defined.

Inductive token := TLeaf (l : leaf) | TOp (s : string) | TLP | TRP | TQ | TColon.
Definition token_eq_dec : forall a b : token, {a = b} + {a <> b}.
Proof. decide equality; [apply leaf_eq_dec | apply string_dec]. Defined.

Inductive rexpr :=
| ELeaf (l : leaf)
| EUn (op : string) (a : rexpr)
| EBin (op : string) (a b : rexpr)
| ECond (c a b : rexpr)
| EAsg (op : string) (l r : rexpr).

Fixpoint size (e : rexpr) : nat :=
  match e with
  | ELeaf _ => 1
  | EUn _ a => 1 + size a
  | EBin _ a b => 1 + size a + size b
  | ECond c a b => 1 + size c + size a + size b
  | EAsg _ l r => 1 + size l + size r
  end.

(* ---------- tables ---------- *)
Record table := mkTable {
  t_bin : list (bool * list string);   (* tightest first; true = right associative *)
  t_asg : list string;
  t_un  : list string }.

Definition mem (s : string) (l : list string) : bool := existsb (String.eqb s) l.

Definition nbin (t : table) : nat := List.length (t_bin t).
Definition lv_cond (t : table) : nat := S (nbin t).
Definition lv_top (t : table) : nat := S (S (nbin t)).

Fixpoint find_bin (ls : list (bool * list string)) (k : nat) (s : string) : option (nat * bool) :=
  match ls with
  | [] => None
  | (ra, ops) :: ls' => if mem s ops then Some (k, ra) else find_bin ls' (S k) s
  end.
Definition bin_level (t : table) (s : string) : option (nat * bool) := find_bin (t_bin t) 1 s.

(* well-formed table: no assignment operator is also a binary operator (tokens are already separated, so
   there is no prefix issue; a binary operator listed at two levels is harmless because printer and parser
   use the same first-match lookup, see table_nodup for the stronger sanity check) *)
Definition wf_table (t : table) : bool :=
  forallb (fun s => match bin_level t s with None => true | Some _ => false end) (t_asg t).

Fixpoint nodupb (l : list string) : bool :=
  match l with [] => true | x :: r => negb (mem x r) && nodupb r end.
Definition table_nodup (t : table) : bool :=
  nodupb (List.concat (map snd (t_bin t)) ++ t_asg t) && nodupb (t_un t).

(* ---------- levels, well-formed expressions ---------- *)
Definition level (t : table) (e : rexpr) : nat :=
  match e with
  | ELeaf _ | EUn _ _ => 0
  | EBin op _ _ => match bin_level t op with Some (k, _) => k | None => 0 end
  | ECond _ _ _ => lv_cond t
  | EAsg _ _ _ => lv_top t
  end.

Fixpoint wf_expr (t : table) (e : rexpr) : bool :=
  match e with
  | ELeaf _ => true
  | EUn op a => mem op (t_un t) && wf_expr t a
  | EBin op a b => match bin_level t op with Some _ => true | None => false end && wf_expr t a && wf_expr t b
  | ECond c a b => wf_expr t c && wf_expr t a && wf_expr t b
  | EAsg op l r => mem op (t_asg t) && wf_expr t l && wf_expr t r
  end.

(* ---------- printer with minimal parentheses ---------- *)
Definition paren (fits : bool) (ts : list token) : list token :=
  if fits then ts else TLP :: ts ++ [TRP].

(* pr t e m : print e in a context that accepts levels <= m *)
Fixpoint pr (t : table) (e : rexpr) (m : nat) : list token :=
  paren (level t e <=? m)
    match e with
    | ELeaf l => [TLeaf l]
    | EUn op a => TOp op :: pr t a 0
    | EBin op a b =>
        match bin_level t op with
        | Some (k, ra) => pr t a (if ra then k - 1 else k) ++ TOp op :: pr t b (if ra then k else k - 1)
        | None => pr t a 0 ++ TOp op :: pr t b 0
        end
    | ECond c a b => pr t c (nbin t) ++ TQ :: pr t a (lv_top t) ++ TColon :: pr t b (lv_cond t)
    | EAsg op l r => pr t l 0 ++ TOp op :: pr t r (lv_top t)
    end.

Definition print (t : table) (e : rexpr) : list token := pr t e (lv_top t).

(* ---------- parser: precedence climbing generated from the table ---------- *)
(* parse_at f max ts : longest expression of level <= max at the front of ts
   parse_prefix      : unary-level expression
   loop max fresh lhs: lhs has been read; extend it with operators of level <= max;
                       fresh = lhs is a just-read unary-level expression (may be an assignment target) *)
Fixpoint parse_at (t : table) (fuel max : nat) (ts : list token) {struct fuel} : option (rexpr * list token) :=
  match fuel with
  | 0 => None
  | S f =>
      match parse_prefix t f ts with
      | Some (u, r) => loop t f max true u r
      | None => None
      end
  end
with parse_prefix (t : table) (fuel : nat) (ts : list token) {struct fuel} : option (rexpr * list token) :=
  match fuel with
  | 0 => None
  | S f =>
      match ts with
      | TLeaf l :: r => Some (ELeaf l, r)
      | TLP :: r =>
          match parse_at t f (lv_top t) r with
          | Some (e, TRP :: r') => Some (e, r')
          | _ => None
          end
      | TOp s :: r =>
          if mem s (t_un t) then
            match parse_prefix t f r with
            | Some (a, r') => Some (EUn s a, r')
            | None => None
            end
          else None
      | _ => None
      end
  end
with loop (t : table) (fuel max : nat) (fresh : bool) (lhs : rexpr) (ts : list token) {struct fuel}
  : option (rexpr * list token) :=
  match fuel with
  | 0 => None
  | S f =>
      match ts with
      | TOp s :: r =>
          match bin_level t s with
          | Some (k, ra) =>
              if k <=? max then
                match parse_at t f (if ra then k else k - 1) r with
                | Some (rhs, r') => loop t f max false (EBin s lhs rhs) r'
                | None => None
                end
              else Some (lhs, ts)
          | None =>
              if fresh && (lv_top t <=? max) && mem s (t_asg t) then
                match parse_at t f (lv_top t) r with
                | Some (rhs, r') => loop t f max false (EAsg s lhs rhs) r'
                | None => None
                end
              else Some (lhs, ts)
          end
      | TQ :: r =>
          if lv_cond t <=? max then
            match parse_at t f (lv_top t) r with
            | Some (a, TColon :: r') =>
                match parse_at t f (lv_cond t) r' with
                | Some (b, r'') => loop t f max false (ECond lhs a b) r''
                | None => None
                end
            | _ => None
            end
          else Some (lhs, ts)
      | _ => Some (lhs, ts)
      end
  end.

Definition parse (t : table) (fuel : nat) (ts : list token) : option rexpr :=
  match parse_at t fuel (lv_top t) ts with
  | Some (e, []) => Some e
  | _ => None
  end.

(* fuel that always suffices for the printed form of an expression (proved in CParseProofs) *)
Definition fuel_for (ts : list token) : nat := 10 * List.length ts + 5.

(* ---------- the concrete C11 table, from the regenerated grammar tower ---------- *)
Fixpoint split_tower (tw : list (string * string * string * list string)) : list (bool * list string) * list string :=
  match tw with
  | [] => ([], [])
  | (name, assoc, _, ops) :: rest =>
      if String.eqb name "conditional_expr" then
        ([], match rest with (_, _, _, aops) :: _ => aops | [] => [] end)
      else
        let '(b, a) := split_tower rest in ((String.eqb assoc "right", ops) :: b, a)
  end.

Definition table_of_tower (tw : list (string * string * string * list string)) : table :=
  let '(b, a) := split_tower tw in mkTable b a ["~"; "-"; "!"; "+"].

Definition c11_table : table := table_of_tower tower.

(* ---------- executable interface for a test harness ---------- *)
Definition parse_c11 (ts : list token) : option rexpr := parse c11_table (fuel_for ts) ts.

Definition show_leaf (l : leaf) : string := match l with LId s => s | LNum s => s end.

(* fully parenthesised S-expression *)
Fixpoint show (e : rexpr) : string :=
  (match e with
   | ELeaf l => show_leaf l
   | EUn op a => "(" ++ op ++ " " ++ show a ++ ")"
   | EBin op a b => "(" ++ op ++ " " ++ show a ++ " " ++ show b ++ ")"
   | ECond c a b => "(?: " ++ show c ++ " " ++ show a ++ " " ++ show b ++ ")"
   | EAsg op l r => "(" ++ op ++ " " ++ show l ++ " " ++ show r ++ ")"
   end)%string.
