(* C12 — IL node ownership is linear: one consuming use, DUP for the rest.
   The checker `linear` (sem/CBody.v) is given a meaning and proved SOUND AND COMPLETE (sem/Own.v) for
   ALL bodies; the harness evaluates it in Coq on every real emitted body (both layouts).  The emission
   algorithm itself is not modelled at text level, so "every emitted body is linear" is decided per
   output, not by a theorem over all programs (partial). *)
From Coq Require Import ZArith NArith List Bool String.
From RZ.sem Require Import RzIL CBody Own.
Import ListNotations.
Local Open Scope string_scope.
Local Open Scope list_scope.

Theorem C12_linear_means_no_double_free_no_leak :
  forall b, linear b = true -> no_double_free b /\ no_leak b /\ effects_single_use b.
Proof. exact linear_sound. Qed.
Print Assumptions C12_linear_means_no_double_free_no_leak.

Theorem C12_checker_complete :
  forall b, no_double_free b -> no_leak b -> effects_single_use b -> linear b = true.
Proof. exact linear_complete_strong. Qed.
Print Assumptions C12_checker_complete.

(* operational reading: running the body (alloc / consume / copy events in textual order) ends without
   fault and with every owned node moved into the returned tree's ownership chain *)
Theorem C12_linear_bodies_run_without_fault :
  forall b, linear b = true -> wf_body b = true -> no_plugin_shadow b ->
  exists s, run (init_state b) (exec_body b) = OK s /\ final_ok b s.
Proof. exact linear_wf_run. Qed.
Print Assumptions C12_linear_bodies_run_without_fault.

Theorem C12_consume_after_alloc :
  forall b, linear b = true -> wf_body b = true -> no_plugin_shadow b ->
  forall pre post x, exec_body b = pre ++ EConsume x :: post -> owned b x -> In (EAlloc x) pre.
Proof. exact consume_after_alloc. Qed.
