(* C02 — Integer operators follow C11 promotion, common-type and operator semantics.
   Objects: model/Lower.v (tied to RZILTransformer.py by K2), sem/CSem.v, sem/RzIL.v.
   The full statement is FALSE of the faithful model (D2; D1 and D13 were repaired in /repo): refuted by a concrete witness;
   it is proved for the repaired model on the pure expression fragment and hence for the faithful
   model on every program whose translation does not depend on the repair switches. *)
From Coq Require Import ZArith NArith List Bool String.
From RZ.sem Require Import RzIL CSem Diff.
From RZ.model Require Import Ast Types OpTables Lower Guards.
From RZ.gen Require Import Resources.
From RZ.proofs Require Import Witness TypeRulesProofs.
Import ListNotations.
Local Open Scope string_scope.
Local Open Scope Z_scope.

Definition C02_statement : Prop := faithful_on (fun _ => True).

(* D1: { int16_t a = RsV; RdV = a << 20; } *)
Definition w_D1 : cstmts :=
  SCons (SDecl [TS_intN true 16] "a" (Some (EOp (OReg "R" "s"))))
 (SCons (SExpr (EAssign AAssign (EOp (OReg "R" "d")) (EBin BShl (EOp (OIdent "a")) (EOp (ONum 20 false ""))))) SNil).
(* FIXED in /repo (fix: integer promotion of the left operand of << and >>): the faithful model now translates it correctly *)
Example C02_fixed_shift_promotion : forallb (fun s => match verdict_of (cfg_insn 0) w_D1 s with Some Agree => true | _ => false end) [32; 33; 34; 35; 46; 74] = true.
Proof. vm_compute. reflexivity. Qed.

(* D2: { RdV = !RsV; } — the effect writes an IL boolean into a 32-bit register: ill-sorted, stuck *)
Definition w_D2 : cstmts := SCons (SExpr (EAssign AAssign (EOp (OReg "R" "d")) (EUn ULNot (EOp (OReg "R" "s"))))) SNil.
Theorem C02_refuted_logical_not : mistranslated w_D2 32.
Proof. right. vm_compute. reflexivity. Qed.

(* D13: { int8_t a = RsV; uint8_t b = RtV; RdV = a < b; } — compared unsigned at 8 bit *)
Definition w_D13 : cstmts :=
  SCons (SDecl [TS_intN true 8] "a" (Some (EOp (OReg "R" "s"))))
 (SCons (SDecl [TS_intN false 8] "b" (Some (EOp (OReg "R" "t"))))
 (SCons (SExpr (EAssign AAssign (EOp (OReg "R" "d")) (EBin BLt (EOp (OIdent "a")) (EOp (OIdent "b"))))) SNil)).
(* FIXED in /repo (fix: integer promotion of comparison and ?: operands) *)
Example C02_fixed_compare_promotion : forallb (fun s => match verdict_of (cfg_insn 0) w_D13 s with Some Agree => true | _ => false end) [32; 33; 34; 35; 46; 74] = true.
Proof. vm_compute. reflexivity. Qed.

Theorem C02_refuted : ~ C02_statement.
Proof. apply (refute _ w_D2 32 I). exact C02_refuted_logical_not. Qed.
Print Assumptions C02_refuted.

(* the repaired model translates the three witnesses correctly on the same states *)
Example C02_repaired_witnesses :
  translated_ok_on (repaired (cfg_insn 0)) w_D1 32 /\ translated_ok_on (repaired (cfg_insn 0)) w_D2 32
  /\ translated_ok_on (repaired (cfg_insn 0)) w_D13 32.
Proof. repeat split; vm_compute; reflexivity. Qed.

(* type side of the property, about the REGENERATED rules (shared with C04) *)
Theorem C02_common_type_is_c11 : forall (h : PyHeap.heap) (a b : PyHeap.loc), (a < List.length h)%nat -> (b < List.length h)%nat ->
  let '(h', (ra, rb)) := RZ.gen.TypeRules.c11_cast h a b in
  PyHeap.rd h' ra = CTypesN.uac (PyHeap.rd h a) (PyHeap.rd h b) /\ PyHeap.rd h' rb = CTypesN.uac (PyHeap.rd h a) (PyHeap.rd h b)
  /\ PyHeap.same_old h h' /\ (List.length h <= List.length h')%nat.
Proof. exact c11_cast_spec. Qed.
Print Assumptions C02_common_type_is_c11.

(* ------------------------------------------------------------------ the general theorem *)
From RZ.proofs Require Import ExprCorrect.

(* REPAIRED model: for every side-effect-free integer expression over declared locals, literals, register
   operands (sources, read-write, destinations read back, pairs, .new) and immediates, built from casts, ~ - !, + - * & | ^ << >>, the six comparisons, && || and ?: (non-literal
   condition), of ANY depth, and ALL values of the locals: the lowering is accepted, the IL term
   always evaluates (to a value of the sort its type says), and whenever C11 defines a value the IL
   value is that value and the model's result type is the C type. *)
Theorem C02_operators_correct_repaired :
  forall (cfg : config) (rw : regwidth) (IM : string -> bool) (E : cenv) (csub : csubs) xi V e st,
  cfg_fx cfg = all_fixes -> cfg_params cfg = [] -> macs_std (cfg_macros cfg) -> subs_ext (cfg_subs cfg) -> csub_ext csub -> xi_ok xi ->
  lst_ok IM V st -> pfrag rw IM V e ->
  exists pv st', lower_expr cfg e st = OK (IPure pv, st') /\ st_ext st st' /\ lst_ok IM V st' /\
    forall R rem, regs_le (st_regs st') R -> norem rem ->
    forall cs ms, rel IM E V cs ms -> imms_done IM E (st_imms st') cs ms ->
      exists ilv, eval rw ms [] (fin_pure R rem (pv_term pv)) = Some ilv /\ shape_pv pv ilv /\
        forall fuel cs' cv, ceval E csub xi fuel cs e = Some (cs', cv) -> cs' = cs /\ agrees pv cv ilv.
Proof. exact expr_correct_unconditional. Qed.
Print Assumptions C02_operators_correct_repaired.

(* FAITHFUL model (the one tied to the code by K2), under the decidable guard "the translation of e
   does not depend on the repair switches" *)
Theorem C02_operators_correct_partial :
  forall (cfg : config) (rw : regwidth) (IM : string -> bool) (E : cenv) (csub : csubs) xi V e st,
  cfg_params cfg = [] -> macs_std (cfg_macros cfg) -> subs_ext (cfg_subs cfg) -> csub_ext csub -> xi_ok xi ->
  lst_ok IM V st -> pfrag rw IM V e ->
  lower_expr cfg e st = lower_expr (with_fx all_fixes cfg) e st ->
  exists pv st', lower_expr cfg e st = OK (IPure pv, st') /\ st_ext st st' /\ lst_ok IM V st' /\
    forall R rem, regs_le (st_regs st') R -> norem rem ->
    forall cs ms, rel IM E V cs ms -> imms_done IM E (st_imms st') cs ms ->
      exists ilv, eval rw ms [] (fin_pure R rem (pv_term pv)) = Some ilv /\ shape_pv pv ilv /\
        forall fuel cs' cv, ceval E csub xi fuel cs e = Some (cs', cv) -> cs' = cs /\ agrees pv cv ilv.
Proof.
  intros cfg rw IM E csub xi V e st Hp Hm Hs Hc Hx HV Hf Heq. rewrite Heq.
  apply (expr_correct_unconditional (with_fx all_fixes cfg) rw IM E csub xi V e st); auto.
Qed.
Print Assumptions C02_operators_correct_partial.

(* ------------------------------------------------------------------ the operator tables ARE the compiler's *)
(* model/OpTables.v (opcode per operator and operand type; what every theorem above reasons with) equals, on every operator of
   the compiler's enums, every operand type and every operand term, the elaboration of the text that the il_exec method of the
   corresponding Pure class emits: gen/OpTablesGen.v is regenerated from Pures/{BitOp,CompareOp,ArithmeticOp,BooleanOp}.py on every run
   (tools/vt/tr_optables.py, symbolic execution of the method body, fail-closed). *)
From RZ.sem Require Import CBody.
From RZ.gen Require Import OpTablesGen.
From RZ.proofs Require Import OpTablesProofs.
Theorem C02_operator_tables_are_the_compilers :
  (forall op ta a b tself t1 ib0 ic0 ib1 ic1 il0 v0, In op bitop_ops ->
     elab_text a b (bitop_text op tself ta t1 ib0 ic0 ib1 ic1 il0 v0) = Some (bitop_il_exec op ta a b)) /\
  (forall op ta tb a b tself ib0 ic0 ib1 ic1 il0 v0, In op compareop_ops -> cmp_float ta tb = false \/ op <> "!=" ->
     elab_text a b (compareop_text op tself ta tb ib0 ic0 ib1 ic1 il0 v0) = Some (cmp_il_exec op ta tb a b)) /\
  (forall op o ta tb a b tself ib0 ic0 ib1 ic1 il0 v0, In (op, o) arith_ops -> cmp_float ta tb = false \/ op <> "%" ->
     elab_text a b (arithmeticop_text op tself ta tb ib0 ic0 ib1 ic1 il0 v0) = Some (arith_il_exec o ta tb a b)) /\
  (forall op a b ib0 ic0 ib1 ic1 il0 v0 tself t0 t1, In op booleanop_ops ->
     elab_text a b (booleanop_text op tself t0 t1 ib0 ic0 ib1 ic1 il0 v0) = Some (boolop_il_exec op (ib0 || ic0) (ib1 || ic1) a b)).
Proof. exact (conj bitop_text_ok (conj compareop_text_ok (conj arithmeticop_text_ok booleanop_text_ok))). Qed.
Print Assumptions C02_operator_tables_are_the_compilers.
