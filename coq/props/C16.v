(* C16 — Both output layouts denote the same effect.
   The two layouts differ in the ORDER of the C declarations and in where DUP is placed.  The
   denotation (sem/CBody.v) inlines single-assignment variables and erases DUP, so it is insensitive
   to both; the harness compares canon (denote body_A) with canon (denote body_B) in Coq for every
   generated program and corpus instruction, and the attribute lists.  Equal trees execute identically
   from every state: no sampling is involved. *)
From Coq Require Import ZArith NArith List Bool String.
From RZ.sem Require Import RzIL CBody.
Import ListNotations.
Local Open Scope string_scope.
Local Open Scope list_scope.

Theorem C16_denotation_ignores_dup : forall G isp a, elab G isp (SApp "DUP" [a]) = elab G isp a.
Proof. intros. reflexivity. Qed.
Print Assumptions C16_denotation_ignores_dup.

(* the canonical form used for the comparison (flatten nested sequences, drop EMPTY) preserves every
   terminating run from every state: two bodies with the same canonical denotation are observationally
   equivalent *)
From RZ.proofs Require Import SeqLaws.
Theorem C16_same_canonical_form_same_behaviour :
  forall rw subs e1 e2, canon e1 = canon e2 -> forall s s', runs rw subs e1 s s' <-> runs rw subs e2 s s'.
Proof. exact canon_eq_runs_equiv. Qed.
Print Assumptions C16_same_canonical_form_same_behaviour.
