(* C15 — Nothing in the source is silently dropped: translate it or raise. *)
From Coq Require Import ZArith NArith List Bool String.
From RZ.sem Require Import RzIL CSem Diff.
From RZ.model Require Import Ast Types OpTables Lower Guards.
From RZ.gen Require Import Resources.
From RZ.proofs Require Import Witness.
Import ListNotations.
Local Open Scope string_scope.
Local Open Scope Z_scope.

(* number of state-changing leaves of an effect *)
Fixpoint leaves (e : effect) : nat :=
  match e with
  | ESetL _ _ | EWriteReg _ _ | EStore _ _ | RzIL.ECall _ _ | EPlugin _ _ => 1
  | ESeq a b => leaves a + leaves b
  | EBranch _ t f => leaves t + leaves f
  | ERepeat _ b => leaves b
  | ENop | EEmpty => 0
  end.

(* accepted although a construct was dropped *)
Definition silently_dropped (p : cstmts) : Prop :=
  match tlower_info (cfg_insn 0) p with OK i => ti_dropped i = true | Err _ => False end.
Definition C15_statement : Prop := forall p, ~ silently_dropped p.

(* D7: { RdV = 1, ReV = 2; } — both register writes are declared, the instruction sequence is EMPTY() *)
Definition w_comma : cstmts :=
  SCons (SExpr (EComma (EAssign AAssign (EOp (OReg "R" "d")) (EOp (ONum 1 false ""))) (EAssign AAssign (EOp (OReg "R" "e")) (EOp (ONum 2 false ""))))) SNil.
Theorem C15_refuted_comma : silently_dropped w_comma /\ (match tlower (cfg_insn 0) w_comma with OK (e, _) => leaves e = 0%nat | Err _ => False end).
Proof. split; vm_compute; reflexivity. Qed.
(* { RdV = 1; goto foo; } — the goto vanishes *)
Definition w_goto : cstmts :=
  SCons (SExpr (EAssign AAssign (EOp (OReg "R" "d")) (EOp (ONum 1 false "")))) (SCons (SGoto "foo") SNil).
Theorem C15_refuted_goto : silently_dropped w_goto.
Proof. vm_compute. reflexivity. Qed.
(* { RdV = RsV + 1; lbl: ReV = 2; } — the labelled statement (a register write) vanishes *)
Definition w_label : cstmts :=
  SCons (SExpr (EAssign AAssign (EOp (OReg "R" "d")) (EBin BAdd (EOp (OReg "R" "s")) (EOp (ONum 1 false "")))))
 (SCons (SLabel "lbl" (SExpr (EAssign AAssign (EOp (OReg "R" "e")) (EOp (ONum 2 false ""))))) SNil).
Theorem C15_refuted_label : silently_dropped w_label /\ (match tlower (cfg_insn 0) w_label with OK (e, _) => leaves e = 1%nat | Err _ => False end).
Proof. split; vm_compute; reflexivity. Qed.
Theorem C15_refuted : ~ C15_statement.
Proof. intro H. exact (H w_goto C15_refuted_goto). Qed.
Print Assumptions C15_refuted.

(* constructs the model (and, by K2, the implementation) rejects *)
Definition rejected (p : cstmts) : Prop := match tlower (cfg_insn 0) p with Err _ => True | OK _ => False end.
Example C15_rejects_while_do_switch :
  rejected (SCons (SWhile (EOp (OReg "R" "s")) (SExpr (EAssign AAssign (EOp (OReg "R" "d")) (EOp (ONum 1 false ""))))) SNil)
  /\ rejected (SCons (SDo (SExpr (EAssign AAssign (EOp (OReg "R" "d")) (EOp (ONum 1 false "")))) (EOp (OReg "R" "s"))) SNil)
  /\ rejected (SCons (SSwitch (EOp (OReg "R" "s")) (SBlock SNil)) SNil)
  /\ rejected (SCons (SExpr (EAssign AAssign (EOp (OReg "R" "d")) (ECall "foo" (ECons (EOp (OReg "R" "s")) ENil)))) SNil)
  /\ rejected (SCons (SExpr (EAssign AAssign (EOp (OReg "R" "d")) (EIndex (EOp (OIdent "a")) (EOp (ONum 1 false ""))))) SNil).
Proof. repeat split; vm_compute; exact I. Qed.
