(* C15 — Nothing in the source is silently dropped: translate it or raise. *)
From Coq Require Import ZArith NArith List Bool String.
From RZ.sem Require Import RzIL CSem Diff.
From RZ.model Require Import Ast Types OpTables Lower Guards.
From RZ.gen Require Import Resources.
From RZ.proofs Require Import Witness.
Import ListNotations.
Local Open Scope string_scope.
Local Open Scope Z_scope.

(* number of state-changing leaves of an effect *)
Fixpoint leaves (e : effect) : nat :=
  match e with
  | ESetL _ _ | EWriteReg _ _ | EStore _ _ | RzIL.ECall _ _ | EPlugin _ _ => 1
  | ESeq a b => leaves a + leaves b
  | EBranch _ t f => leaves t + leaves f
  | ERepeat _ b => leaves b
  | ENop | EEmpty => 0
  end.

(* accepted although a construct was dropped *)
Definition silently_dropped (p : cstmts) : Prop :=
  match tlower_info (cfg_insn 0) p with OK i => ti_dropped i = true | Err _ => False end.
Definition C15_statement : Prop := forall p, ~ silently_dropped p.

(* D7: { RdV = 1, ReV = 2; } — both register writes are declared, the instruction sequence is EMPTY() *)
Definition w_comma : cstmts :=
  SCons (SExpr (EComma (EAssign AAssign (EOp (OReg "R" "d")) (EOp (ONum 1 false ""))) (EAssign AAssign (EOp (OReg "R" "e")) (EOp (ONum 2 false ""))))) SNil.
Definition rejected (p : cstmts) : Prop := match tlower (cfg_insn 0) p with Err _ => True | OK _ => False end.
(* FIXED in /repo (fix: raise for comma expressions, labels, goto, break and continue): formerly dropped, now rejected;
   the ORIGINAL behaviour (switch off) is kept as a refutation of the old tree for the record *)
Definition cfg_before_fix : config := with_fx (mkfx false true false true true false false false false) (cfg_insn 0).
Example C15_was_dropped_comma : match tlower_info cfg_before_fix w_comma with OK i => ti_dropped i = true /\ leaves (ti_eff i) = 0%nat | Err _ => False end.
Proof. vm_compute. auto. Qed.
Example C15_fixed_comma : rejected w_comma.
Proof. vm_compute. exact I. Qed.
(* { RdV = 1; goto foo; } — the goto vanishes *)
Definition w_goto : cstmts :=
  SCons (SExpr (EAssign AAssign (EOp (OReg "R" "d")) (EOp (ONum 1 false "")))) (SCons (SGoto "foo") SNil).
Example C15_fixed_goto : rejected w_goto.
Proof. vm_compute. exact I. Qed.
(* { RdV = RsV + 1; lbl: ReV = 2; } — the labelled statement (a register write) vanishes *)
Definition w_label : cstmts :=
  SCons (SExpr (EAssign AAssign (EOp (OReg "R" "d")) (EBin BAdd (EOp (OReg "R" "s")) (EOp (ONum 1 false "")))))
 (SCons (SLabel "lbl" (SExpr (EAssign AAssign (EOp (OReg "R" "e")) (EOp (ONum 2 false ""))))) SNil).
Example C15_fixed_label : rejected w_label.
Proof. vm_compute. exact I. Qed.

(* constructs the model (and, by K2, the implementation) rejects *)
Example C15_rejects_while_do_switch :
  rejected (SCons (SWhile (EOp (OReg "R" "s")) (SExpr (EAssign AAssign (EOp (OReg "R" "d")) (EOp (ONum 1 false ""))))) SNil)
  /\ rejected (SCons (SDo (SExpr (EAssign AAssign (EOp (OReg "R" "d")) (EOp (ONum 1 false "")))) (EOp (OReg "R" "s"))) SNil)
  /\ rejected (SCons (SSwitch (EOp (OReg "R" "s")) (SBlock SNil)) SNil)
  /\ rejected (SCons (SExpr (EAssign AAssign (EOp (OReg "R" "d")) (ECall "foo" (ECons (EOp (OReg "R" "s")) ENil)))) SNil)
  /\ rejected (SCons (SExpr (EAssign AAssign (EOp (OReg "R" "d")) (EIndex (EOp (OIdent "a")) (EOp (ONum 1 false ""))))) SNil).
Proof. repeat split; vm_compute; exact I. Qed.

(* ------------------------------------------------------------------ the general theorems (proofs/NoDrop.v)
   For EVERY program and every configuration that has the "reject" repair on (the current tree, after the fix
   commit for D7): (1) a program that mentions an unsupported construct ANYWHERE - at any depth, in blocks,
   branches, loop parts, statement-expressions, ?: arms, call/macro/load/store arguments, casts, initialisers -
   is rejected; (2) an accepted program has no top-level item discarded by the final filter, except an expression
   statement that is a bare string literal (no effect in C; replayed on the real compiler: `{ RdV = 1; "abc"; }`
   is accepted and the literal ignored). *)
From RZ.proofs Require Import NoDrop.
Theorem C15_unsupported_rejected_everywhere : forall cfg prog,
  fx_reject_dropped (cfg_fx cfg) = true -> mentions_unsupported prog = true -> exists msg, tlower_info cfg prog = Err msg.
Proof. exact unsupported_rejected. Qed.
Print Assumptions C15_unsupported_rejected_everywhere.
Theorem C15_translated_or_rejected : forall cfg prog,
  fx_reject_dropped (cfg_fx cfg) = true -> has_string_stmt prog = false ->
  match tlower_info cfg prog with OK i => ti_dropped i = false | Err _ => True end.
Proof. exact translated_or_rejected. Qed.
Print Assumptions C15_translated_or_rejected.
Theorem C15_statement_for_current_tree : forall p, has_string_stmt p = false -> ~ silently_dropped p.
Proof. intros p H. exact (C15_all_programs 0 p H). Qed.
Print Assumptions C15_statement_for_current_tree.
Example C15_faithful_has_the_switch : fx_reject_dropped faithful = true. Proof. reflexivity. Qed.
