(* C17 — The grammar parses behaviours with C structure, deterministically.
   Lark's Earley engine and its ambiguity resolution are third-party runtime and NOT modelled (partial).
   What is decided here: obligations over the tables REGENERATED from grammar.lark (the expression tower has
   exactly the C11 levels in order, each binary level is left-recursive over the next tighter level with the
   C operator spellings, ?: and assignment are right-recursive, if-else precedes if, keyword-like terminals
   outrank IDENTIFIER).  The tie to the engine is the K7 correspondence: every operator pair at adjacent
   levels, nesting, casts vs parentheses, else binding, operand classification, 4 hash seeds, fresh vs reused parser. *)
From Coq Require Import List String.
From RZ.gen Require Import GrammarTables.
Import ListNotations.
Local Open Scope string_scope.

Definition c11_tower : list (string * string * string * list string) := [
  ("multiplicative_expr", "left", "cast_expr", ["*"; "/"; "%"]);
  ("additive_expr", "left", "multiplicative_expr", ["+"; "-"]);
  ("shift_expr", "left", "additive_expr", ["<<"; ">>"]);
  ("relational_expr", "left", "shift_expr", ["<"; ">"; "<="; ">="]);
  ("equality_expr", "left", "relational_expr", ["=="; "!="]);
  ("and_expr", "left", "equality_expr", ["&"]);
  ("exclusive_or_expr", "left", "and_expr", ["^"]);
  ("inclusive_or_expr", "left", "exclusive_or_expr", ["|"]);
  ("logical_and_expr", "left", "inclusive_or_expr", ["&&"]);
  ("logical_or_expr", "left", "logical_and_expr", ["||"]);
  ("conditional_expr", "right", "logical_or_expr", ["?:"]);
  ("assignment_expr", "right", "conditional_expr", ["="; "*="; "/="; "%="; "+="; "-="; "<<="; ">>="; "&="; "^="; "|="])
].
Theorem C17_tower_matches_c11 : tower = c11_tower.
Proof. reflexivity. Qed.
Print Assumptions C17_tower_matches_c11.

Theorem C17_else_rule_first :
  selection_stmt_alts = ["IF ""("" expr "")"" stmt ELSE stmt"; "IF ""("" expr "")"" stmt"; "SWITCH ""("" expr "")"" stmt"].
Proof. reflexivity. Qed.
Theorem C17_cast_and_unary_shapes :
  cast_expr_alts = ["unary_expr"; """("" type_name "")"" cast_expr"]
  /\ unary_expr_alts = ["postfix_expr"; "INC_OP unary_expr"; "DEC_OP unary_expr"; "UNARY_OP cast_expr"; "SIZEOF unary_expr"; "SIZEOF ""("" type_name "")"""; "ALIGNOF ""("" type_name "")"""].
Proof. split; reflexivity. Qed.
Theorem C17_terminal_priorities :
  terminal_priorities = [("IDENTIFIER", 0); ("JUMP", 10); ("MEM_LOAD", 10); ("MEM_STORE", 10); ("WRITE_PRED", 10)]%nat.
Proof. reflexivity. Qed.
Theorem C17_operand_terminals :
  term_IMMEDIATE = ["/[rRsSuUmn]/"] /\ term_REG_TYPE = ["/[CNPRMQVO]/"] /\ term_SRC_REG = ["/[stuvw]/"] /\ term_DEST_REG = ["/[de]/"]
  /\ term_SRC_DEST_REG = ["/[xyz]/"] /\ rule_op = ["_reg_variant"; "imm ""iV"""; "number"; "identifier"]
  /\ rule_reg_variant = ["""HEX_REG_ALIAS_"" reg_alias"; "new_reg ""N"""; "reg ""V"""; "explicit_reg"].
Proof. repeat split; reflexivity. Qed.

(* The reference for "the C structure": a precedence-climbing parser GENERATED from the regenerated tower
   (lib/CParse.v); printing any expression with minimal parentheses and parsing it back is the identity, hence
   the printed form determines the structure (no ambiguity), for every expression, no bound on size or nesting.
   K7 compares Lark's tree with this parser's result on every generated token list. *)
From RZ.lib Require Import CParse.
From RZ.proofs Require Import CParseProofs.
Theorem C17_reference_table_is_tower : wf_table c11_table = true /\ table_nodup c11_table = true /\ nbin c11_table = 10%nat.
Proof. split; [exact c11_table_wf | split; [exact c11_table_nodup | apply c11_table_is_tower]]. Qed.
Theorem C17_reference_roundtrip : forall e, wf_expr c11_table e = true -> parse_c11 (print c11_table e) = Some e.
Proof. exact parse_c11_print. Qed.
Print Assumptions C17_reference_roundtrip.
Theorem C17_reference_unambiguous : forall e1 e2, wf_expr c11_table e1 = true -> wf_expr c11_table e2 = true ->
  print c11_table e1 = print c11_table e2 -> e1 = e2.
Proof. exact print_c11_injective. Qed.
Print Assumptions C17_reference_unambiguous.
