(* C10 — Emitted effects are well-sorted under RzIL typing.
   wf_effect (sem/RzIL.v) checks every arm and loop body.  FALSE of the faithful model (D2, D14):
   refuted by witnesses.  Soundness of the checker (a well-sorted effect never gets stuck on a sort
   error, and locals keep one sort) is proofs/SortSound.v when present. *)
From Coq Require Import ZArith NArith List Bool String.
From RZ.sem Require Import RzIL CSem Diff.
From RZ.model Require Import Ast Types OpTables Lower Guards.
From RZ.gen Require Import Resources.
From RZ.proofs Require Import Witness.
Import ListNotations.
Local Open Scope string_scope.
Local Open Scope Z_scope.

Definition special_sorts : lenv := [("EA", SBv 32); ("i", SBv 32); ("j", SBv 32); ("k", SBv 32); ("ret_val", SBv 64)]%N.
Definition well_sorted (c : config) (p : cstmts) : option bool :=
  match tlower c p with
  | OK (e, _) => Some (match wf_effect (rw_of (regs_ss xi p)) special_sorts e with Some _ => true | None => false end)
  | Err _ => None
  end.
Definition C10_statement : Prop := forall p, well_sorted (cfg_insn 0) p <> Some false.

(* D2: { RdV = !RsV; } writes an IL boolean to a 32-bit register *)
Definition w_D2 : cstmts := SCons (SExpr (EAssign AAssign (EOp (OReg "R" "d")) (EUn ULNot (EOp (OReg "R" "s"))))) SNil.
(* D14: { uint8_t x = RsV; x += 1; RdV = x; } : x is set at width 8, then at width 32 *)
Definition w_D14 : cstmts :=
  SCons (SDecl [TS_intN false 8] "x" (Some (EOp (OReg "R" "s"))))
 (SCons (SExpr (EAssign AAdd (EOp (OIdent "x")) (EOp (ONum 1 false ""))))
 (SCons (SExpr (EAssign AAssign (EOp (OReg "R" "d")) (EOp (OIdent "x")))) SNil)).
Theorem C10_refuted_bool_written : well_sorted (cfg_insn 0) w_D2 = Some false.
Proof. vm_compute. reflexivity. Qed.
(* FIXED in /repo (fix: compound assignment converts the result to the type of its target) *)
Example C10_fixed_local_keeps_width : well_sorted (cfg_insn 0) w_D14 = Some true.
Proof. vm_compute. reflexivity. Qed.
Theorem C10_refuted : ~ C10_statement.
Proof. intro H. apply (H w_D2). exact C10_refuted_bool_written. Qed.
Print Assumptions C10_refuted.

Example C10_repaired_witnesses :
  well_sorted (repaired (cfg_insn 0)) w_D2 = Some true /\ well_sorted (repaired (cfg_insn 0)) w_D14 = Some true.
Proof. split; vm_compute; reflexivity. Qed.
