(* C10 — Emitted effects are well-sorted under RzIL typing.
   wf_effect (sem/RzIL.v) checks every arm and loop body.  FALSE of the faithful model (D2, D14):
   refuted by witnesses.  Soundness of the checker (a well-sorted effect never gets stuck on a sort
   error, and locals keep one sort) is proofs/SortSound.v when present. *)
From Coq Require Import ZArith NArith List Bool String.
From RZ.sem Require Import RzIL CSem Diff.
From RZ.model Require Import Ast Types OpTables Lower Guards.
From RZ.gen Require Import Resources.
From RZ.proofs Require Import Witness.
Import ListNotations.
Local Open Scope string_scope.
Local Open Scope Z_scope.

Definition special_sorts : lenv := [("EA", SBv 32); ("i", SBv 32); ("j", SBv 32); ("k", SBv 32); ("ret_val", SBv 64)]%N.
Definition well_sorted (c : config) (p : cstmts) : option bool :=
  match tlower c p with
  | OK (e, _) => Some (match wf_effect (rw_of (regs_ss xi p)) special_sorts e with Some _ => true | None => false end)
  | Err _ => None
  end.
Definition C10_statement : Prop := forall p, well_sorted (cfg_insn 0) p <> Some false.

(* D2: { RdV = !RsV; } writes an IL boolean to a 32-bit register *)
Definition w_D2 : cstmts := SCons (SExpr (EAssign AAssign (EOp (OReg "R" "d")) (EUn ULNot (EOp (OReg "R" "s"))))) SNil.
(* D14: { uint8_t x = RsV; x += 1; RdV = x; } : x is set at width 8, then at width 32 *)
Definition w_D14 : cstmts :=
  SCons (SDecl [TS_intN false 8] "x" (Some (EOp (OReg "R" "s"))))
 (SCons (SExpr (EAssign AAdd (EOp (OIdent "x")) (EOp (ONum 1 false ""))))
 (SCons (SExpr (EAssign AAssign (EOp (OReg "R" "d")) (EOp (OIdent "x")))) SNil)).
Theorem C10_refuted_bool_written : well_sorted (cfg_insn 0) w_D2 = Some false.
Proof. vm_compute. reflexivity. Qed.
(* FIXED in /repo (fix: compound assignment converts the result to the type of its target) *)
Example C10_fixed_local_keeps_width : well_sorted (cfg_insn 0) w_D14 = Some true.
Proof. vm_compute. reflexivity. Qed.
Theorem C10_refuted : ~ C10_statement.
Proof. intro H. apply (H w_D2). exact C10_refuted_bool_written. Qed.
Print Assumptions C10_refuted.

Example C10_repaired_witnesses :
  well_sorted (repaired (cfg_insn 0)) w_D2 = Some true /\ well_sorted (repaired (cfg_insn 0)) w_D14 = Some true.
Proof. split; vm_compute; reflexivity. Qed.

(* ------------------------------------------------------------------ what the sort checker's verdict MEANS (proofs/SortSound.v)
   `wf_effect` / `sort_of` (sem/RzIL.v) are evaluated in Coq on every real emitted effect; these theorems, for EVERY
   effect and state, are why a positive verdict excludes the run-time sort errors of the IL validator/VM: a well-sorted
   pure evaluates, to a value of its sort; a local never holds a value of another sort than the one recorded; a
   well-sorted, definitely-assigned, loop-free effect runs to completion with any sufficient fuel. *)
From RZ.proofs Require Import SortSound.
Theorem C10_well_sorted_pure_evaluates : forall rw p G lets s lv t,
  env_ok G (locals s) -> env_ok lets lv -> sort_of rw G lets p = Some t ->
  exists v, eval rw s lv p = Some v /\ sort_of_val v = t.
Proof. intros rw p G lets s lv t. exact (sort_of_sound rw p G lets s lv t). Qed.
Print Assumptions C10_well_sorted_pure_evaluates.
Theorem C10_locals_keep_one_sort : forall rw subs fuel e G G' s s',
  wf_effect rw G e = Some G' -> calls_opaque subs e -> consistent G' (locals s) ->
  exec rw subs fuel e s = Some s' ->
  forall x t v, lookup x G' = Some t -> lookup x (locals s') = Some v -> sort_of_val v = t.
Proof. intros rw subs fuel e G G' s s'. exact (wf_effect_sort_consistency rw subs fuel e G G' s s'). Qed.
Print Assumptions C10_locals_keep_one_sort.
Theorem C10_well_sorted_effect_runs : forall rw subs e G G' H D D' s fuel,
  wf_effect rw G e = Some G' -> ext G' H -> consistent H (locals s) ->
  da_effect rw D e = Some D' -> env_ok D (locals s) ->
  no_repeat e = true -> calls_opaque subs e -> (depth e <= fuel)%nat ->
  exists s', exec rw subs fuel e s = Some s' /\ env_ok D' (locals s') /\ consistent H (locals s').
Proof. intros rw subs e G G' H D D' s fuel. exact (wf_effect_progress rw subs e G G' H D D' s fuel). Qed.
Print Assumptions C10_well_sorted_effect_runs.
