(* C07 — Operands are bound to the right architectural resource, width and .new flag.
   The operand spellings form a finite set per class; the architectural table is sem/CSem.v's
   operand_lval (written from the Hexagon operand conventions, independent of the compiler); the
   compiler side is model/Lower.v's lower_operand + gen/tables (tied to the code by K2 on every
   spelling as read, written and read-after-write).  Register numbers are unbounded digit strings. *)
From Coq Require Import ZArith NArith List Bool String Ascii.
From RZ.sem Require Import RzIL CSem Diff.
From RZ.model Require Import Ast Types OpTables Lower Guards.
From RZ.gen Require Import Resources.
Import ListNotations.
Local Open Scope string_scope.
Local Open Scope list_scope.

Definition dummy_env : cenv := mkce (fun _ => 0%Z) (fun _ => 0%Z) (fun _ => 0%Z) 0%Z (fun _ => 0%Z).
(* architectural binding of a spelling: (operand handle, (signed, width)) *)
Definition arch_of (o : operand) : option (regop * cty) :=
  match operand_lval dummy_env xi cs0 o with
  | Some (LReg r t _) => Some (r, t)
  | _ => None
  end.
(* what the compiler (model) binds it to *)
Definition model_of (o : operand) : option (regop * cty) :=
  match lower_operand (cfg_insn 0) o (init_state (cfg_insn 0)) with
  | OK (IPure pv, s) =>
      match pv_kind pv with
      | KReg n => match lookup_reg_info n (st_regs s) with
                  | Some ri => Some (r_op ri, (vt_sg (r_ty ri), vt_w (r_ty ri)))
                  | None => None end
      | _ => None end
  | _ => None
  end.
Definition binding_eqb (a b : option (regop * cty)) : bool :=
  match a, b with
  | Some (r, (s, w)), Some (r', (s', w')) => regop_eqb r r' && Bool.eqb s s' && N.eqb w w'
  | _, _ => false
  end.

Definition classes := ["R"; "P"; "C"; "M"].
Definition letters := ["s"; "t"; "u"; "v"; "w"; "d"; "e"; "x"; "y"; "z"; "ss"; "tt"; "uu"; "vv"; "dd"; "xx"; "yy"].
Definition src_letters := ["s"; "t"; "u"; "v"; "w"; "ss"; "tt"; "uu"; "vv"].
Definition isa_operands : list operand :=
  flat_map (fun c => map (fun l => OReg c l) letters) classes
  ++ flat_map (fun c => map (fun l => ONewReg c l) src_letters) classes
  ++ map (fun l => ONewReg "N" l) ["s"; "t"; "u"; "v"; "w"].
Definition aliases := ["USR"; "PC"; "SP"; "LR"; "GP"; "FP"; "LC0"; "LC1"; "SA0"; "SA1"; "M0"; "M1"; "CS0"; "CS1"; "UPCYCLE"; "PKTCOUNT"; "UTIMER"; "UGP"].
Definition alias_operands : list operand := flat_map (fun a => [OAlias a false; OAlias a true]) aliases.

(* every ISA operand spelling of the finite grammar (register class x access letters x single/pair, .new, N registers)
   and every alias is bound to the architectural (slot, class, .new flag, signedness, width) *)
Theorem C07_operand_binding :
  forallb (fun o => binding_eqb (model_of o) (arch_of o)) (isa_operands ++ alias_operands) = true.
Proof. vm_compute. reflexivity. Qed.
Print Assumptions C07_operand_binding.

(* explicit registers: the number is the minimum of the digit groups (V31:30 -> 30), for a sample of names;
   the class string follows the first letter and the pair marker *)
Example C07_explicit_examples :
  map (fun n => explicit_reg_info n false) ["R31"; "P0"; "C9"; "M1"; "R31:30"; "C9:8"; "P3:0"]
  = [Some (RExpl 31 "HEX_REG_CLASS_INT_REGS" false, 32%N); Some (RExpl 0 "HEX_REG_CLASS_PRED_REGS" false, 8%N);
     Some (RExpl 9 "HEX_REG_CLASS_CTR_REGS" false, 32%N); Some (RExpl 1 "HEX_REG_CLASS_MOD_REGS" false, 32%N);
     Some (RExpl 30 "HEX_REG_CLASS_DOUBLE_REGS" false, 32%N); Some (RExpl 8 "HEX_REG_CLASS_CTR_REGS64" false, 32%N);
     Some (RExpl 0 "HEX_REG_CLASS_PRED_REGS64" false, 8%N)].
Proof. vm_compute. reflexivity. Qed.

(* immediates: signed exactly for the letters r R s S, always 32 bit *)
Theorem C07_immediates : forall l, imm_signed l = imm_signed_c l.
Proof. intros l. reflexivity. Qed.

(* ------------------------------------------------------------------ the width / signedness tables ARE the compiler's *)
(* get_value_type_from_reg_type and get_value_type_by_isa_imm are EXECUTED on their whole domains on every run (every ASCII letter as
   register class x every access terminal; every ASCII letter as immediate letter: gen/OpTablesGen.v, tools/vt/tr_optables.py);
   OpTables.reg_width / imm_signed, which the binding theorems above use, agree with every row *)
From RZ.gen Require Import OpTablesGen.
From RZ.proofs Require Import OpTablesProofs.
Theorem C07_width_tables_are_the_compilers :
  forallb (fun r : string * bool * option (bool * N) => let '(c, isp, t) := r in
             otype_eqb t (option_map (fun w => (true, if isp then (w * 2)%N else w)) (reg_width c))) reg_type_table = true /\
  forallb (fun r : string * option (bool * N) => otype_eqb (snd r) (Some (imm_signed (fst r), 32%N))) imm_type_table = true.
Proof. exact (conj reg_type_table_ok imm_type_table_ok). Qed.
Print Assumptions C07_width_tables_are_the_compilers.
