(* C08 — Sub-routine calls follow the C calling convention and isolate the callee. *)
From Coq Require Import ZArith NArith List Bool String.
From RZ.sem Require Import RzIL CSem Diff.
From RZ.model Require Import Ast Types OpTables Lower Guards.
From RZ.gen Require Import Resources.
From RZ.proofs Require Import Witness.
Import ListNotations.
Local Open Scope string_scope.
Local Open Scope Z_scope.
Local Open Scope list_scope.

Definition C08_statement : Prop := faithful_on (fun _ => True).

(* D5: on a fresh compiler, { RdV = clo32(RsV) + clo32(RtV); } : clo32 calls clz32 whose own temporary is
   numbered h_tmp0, the caller's first temporary is h_tmp0 too: the second call overwrites the live result of the first *)
Definition w_D5 : cstmts :=
  SCons (SExpr (EAssign AAssign (EOp (OReg "R" "d"))
     (EBin BAdd (ECall "clo32" (ECons (EOp (OReg "R" "s")) ENil)) (ECall "clo32" (ECons (EOp (OReg "R" "t")) ENil))))) SNil.
Theorem C08_refuted_temporary_clobbered : mistranslated w_D5 32.
Proof. left. vm_compute. reflexivity. Qed.
(* the same program is translated correctly when the caller's numbering starts high enough (long-lived compiler):
   the result depends on the compilation history *)
Example C08_depends_on_counter : verdict_of (cfg_insn 7) w_D5 32 = Some Agree.
Proof. vm_compute. reflexivity. Qed.

Theorem C08_refuted : ~ C08_statement.
Proof. apply (refute _ w_D5 32 I). exact C08_refuted_temporary_clobbered. Qed.
Print Assumptions C08_refuted.

(* D15: `return` only assigns ret_val, execution continues.  Sub-routine  uint32_t er(uint32_t x) { if (x == 0) { return 1; } return 2; } *)
Definition er_ast : cstmts :=
  SCons (SIf (EBin BEq (EOp (OIdent "x")) (EOp (ONum 0 false ""))) (SReturn (Some (EOp (ONum 1 false "")))) None)
 (SCons (SReturn (Some (EOp (ONum 2 false "")))) SNil).
Definition er_cfg : config := mkcfg faithful subs0 macs0 [("x", ty_int false 32)] (Some (ty_int false 32)) 0.
Definition er_body : option effect := match tlower er_cfg er_ast with OK (e, _) => Some e | Err _ => None end.
Definition er_csub : csubs := fun f => if String.eqb f "er" then Some (mkcsub (Some (false, 32%N)) [("x", Some (false, 32%N))] er_ast) else csub_table f.
Definition er_ilsub : subenv := fun f => if String.eqb f "er" then option_map (fun e => (["x"], e)) er_body else ilsub_table f.
(* caller  { RdV = er(RsV); }  compiled with er registered *)
Definition er_caller : cstmts := SCons (SExpr (EAssign AAssign (EOp (OReg "R" "d")) (ECall "er" (ECons (EOp (OReg "R" "s")) ENil)))) SNil.
Definition er_caller_cfg : config := mkcfg faithful (mksub "er" (ty_int false 32) [ty_int false 32] :: subs0) macs0 (cfg_params (cfg_insn 0)) (cfg_ret (cfg_insn 0)) 0.
(* seed 1 gives Rs = 0: C returns 1, the emitted effect returns 2 *)
Theorem C08_refuted_early_return :
  match tlower er_caller_cfg er_caller with
  | OK (e, _) => run_one xi er_csub er_ilsub fuel0 er_caller e 1 = Differ
  | Err _ => False
  end.
Proof. vm_compute. reflexivity. Qed.

(* positive instances on the faithful model: argument conversion, return conversion, nested call, void call in place *)
Definition call1 (f : string) (arg : cexpr) : cstmts := SCons (SExpr (EAssign AAssign (EOp (OReg "R" "dd")) (ECall f (ECons arg ENil)))) SNil.
Example C08_positive_examples :
  forallb (fun p => forallb (fun s => match verdict_of (cfg_insn 0) p s with Some Agree => true | _ => false end) [1; 2; 3; 32; 46])
          [call1 "clz32" (EOp (OReg "R" "ss")); call1 "clz32" (EOp (OReg "R" "s")); call1 "clz64" (EOp (OReg "R" "ss"));
           call1 "revbit16" (EOp (OReg "R" "s")); call1 "clo32" (EOp (OReg "R" "s"))] = true.
Proof. vm_compute. reflexivity. Qed.

(* ------------------------------------------------------------------ argument passing, for ALL argument lists *)
(* cast_sub_routine_args / build_arg_list (Lower.lower_args), repaired configuration: for every list of argument values the expression
   theorem delivers (goodpv: what ExprCorrect.expr_inv returns for every expression of the fragment) and every list of integer
   parameter types, the call is accepted, no temporary is introduced, and the k-th argument term evaluates, in every machine state, to the
   C value of the k-th argument CONVERTED TO THE TYPE OF THE k-th PARAMETER (C11 6.5.2.2p7: as if by assignment) *)
From RZ.proofs Require Import ExprCorrect.
Theorem C08_arguments_converted_to_parameter_types :
  forall (subsigs : list subsig) (macs : list macsig) (cret : option vtype) (hstart : N) (rw : regwidth) (R : list (string * reginfo))
         (rem : list string) (ps : list pval) (pts : list vtype) (st : lstate),
  Forall goodpv ps -> Forall int_ptype pts -> List.length ps = List.length pts ->
  exists args, lower_args (mkcfg all_fixes subsigs macs [] cret hstart) (map IPure ps) pts st = OK ((args, []), st) /\
    forall ms k p pt v, nth_error ps k = Some p -> nth_error pts k = Some pt -> sem rw R rem ms p v ->
      exists t v', nth_error args k = Some (APure t) /\ eval rw ms [] (fin_pure R rem t) = Some v' /\ shape pt v' /\
                   cval_of pt v' = conv (vt_sg pt, vt_w pt) (cval_of (pv_ty p) v).
Proof. exact lower_args_ok. Qed.
Print Assumptions C08_arguments_converted_to_parameter_types.
(* the premises are satisfiable: two arguments (a 32 bit register value, a literal) passed to (int64_t, uint8_t) parameters *)
Example C08_arguments_nonvacuous :
  Forall int_ptype [ty_int true 64; ty_int false 8] /\
  Forall goodpv [mkpv (PVarL "x") (ty_int true 32) (KVar "x") []; mkpv (PBv true 32 5) (ty_int true 32) KExec []].
Proof.
  assert (H8 : okw 8) by (unfold okw; tauto). assert (H32 : okw 32) by (unfold okw; tauto). assert (H64 : okw 64) by (unfold okw; tauto).
  split.
  - apply Forall_cons; [exists true, 64%N; split; [exact H64 | reflexivity]|].
    apply Forall_cons; [exists false, 8%N; split; [exact H8 | reflexivity]|]. apply Forall_nil.
  - apply Forall_cons; [right; exists true, 32%N; split; [exact H32|]; split; [reflexivity|]; split; [exact I | reflexivity]|].
    apply Forall_cons; [right; exists true, 32%N; split; [exact H32|]; split; [reflexivity|]; split; [exact I | reflexivity]|]. apply Forall_nil.
Qed.

(* ------------------------------------------------------------------ the read of the returned value IS the compiler's *)
(* what SubRoutine.il_read emits (gen/OpTablesGen.v, regenerated by symbolic execution on every run) elaborates to the term the model gives the
   temporary of a call: the shared local ret_val read back at the width and signedness of the DECLARED return type *)
From RZ.sem Require Import CBody.
From RZ.gen Require Import OpTablesGen.
From RZ.proofs Require Import OpTablesProofs.
Theorem C08_return_value_read_at_declared_type : forall ret op t0 t1 ib0 ic0 ib1 ic1 il0 v0,
  match subroutine_text op ret t0 t1 ib0 ic0 ib1 ic1 il0 v0 with Some s => elab [] noparam s | None => None end
  = Some (PSignExt (vt_sg ret) (if (vt_w ret =? 0)%N then 32%N else vt_w ret) (PVarL "ret_val")).
Proof. exact subroutine_read_text_ok. Qed.
Print Assumptions C08_return_value_read_at_declared_type.
