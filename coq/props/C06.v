(* C06 — Value-producing side effects happen exactly once, in order, only when selected. *)
From Coq Require Import ZArith NArith List Bool String.
From RZ.sem Require Import RzIL CSem Diff.
From RZ.model Require Import Ast Types OpTables Lower Guards.
From RZ.gen Require Import Resources.
From RZ.proofs Require Import Witness.
Import ListNotations.
Local Open Scope string_scope.
Local Open Scope Z_scope.

Definition C06_statement : Prop := faithful_on (fun _ => True).

(* D4: { int32_t a = RsV; a++; RdV = a; } — the increment (value unused, top level) is hoisted in front
   of the initialisation: SEQN(seq(h_tmp0 = a; a = a + 1), a = Rs, Rd = a) *)
Definition w_D4 : cstmts :=
  SCons (SDecl [TS_intN true 32] "a" (Some (EOp (OReg "R" "s"))))
 (SCons (SExpr (EPost true (EOp (OIdent "a"))))
 (SCons (SExpr (EAssign AAssign (EOp (OReg "R" "d")) (EOp (OIdent "a")))) SNil)).
Theorem C06_refuted_hoisted : mistranslated w_D4 32.
Proof. right. vm_compute. reflexivity. Qed.
(* the model records the reason: one pending hybrid was left over and placed first *)
Example C06_hoisted_is_leftover :
  match tlower_info (cfg_insn 0) w_D4 with OK i => ti_leftover i = 1%nat | Err _ => False end.
Proof. vm_compute. reflexivity. Qed.

Theorem C06_refuted : ~ C06_statement.
Proof. apply (refute _ w_D4 32 I). exact C06_refuted_hoisted. Qed.
Print Assumptions C06_refuted.

(* positive instances on the FAITHFUL model: a postfix increment consumed by its statement, a
   statement-expression, and a statement-expression arm of ?: (executed only when selected) *)
Definition p_post : cstmts :=
  SCons (SDecl [TS_intN true 32] "a" (Some (EOp (OReg "R" "s"))))
 (SCons (SExpr (EAssign AAssign (EOp (OReg "R" "d")) (EBin BAdd (EPost true (EOp (OIdent "a"))) (EOp (OIdent "a"))))) SNil).
Definition p_stmtexpr : cstmts :=
  SCons (SExpr (EAssign AAssign (EOp (OReg "R" "d"))
     (EStmtExpr (SCons (SDecl [TS_intN true 32] "a" (Some (EBin BAdd (EOp (OReg "R" "s")) (EOp (OReg "R" "t"))))) SNil) (SExpr (EOp (OIdent "a")))))) SNil.
Definition p_arm : cstmts :=
  SCons (SExpr (EAssign AAssign (EOp (OReg "R" "d"))
     (ECond (EOp (OReg "R" "s")) (EStmtExpr (SCons (SExpr (EAssign AAssign (EOp (OReg "R" "e")) (EOp (ONum 1 false "")))) SNil) (SExpr (EOp (OReg "R" "t"))))
            (EOp (ONum 2 false ""))))) SNil.
Example C06_positive_examples :
  forallb (fun p => forallb (fun s => match verdict_of (cfg_insn 0) p s with Some Agree => true | _ => false end) [1; 2; 3; 4; 5; 6])
          [p_post; p_stmtexpr; p_arm] = true.
Proof. vm_compute. reflexivity. Qed.

(* ------------------------------------------------------------------ "temporaries are always written before they are read"
   Decided per output by the syntactic must-analysis `tdefS` (sem/TmpCheck.v: every read of an h_tmpN local must be
   preceded, on every path, by a write; both arms of a branch; loop bodies may run zero times; bodies of known callees
   are analysed too), evaluated in Coq on every real emitted effect.  What a positive verdict MEANS, for every effect,
   every state, every fuel (proofs/TmpCheckProofs.v): the run never depends on what a not-yet-written temporary holds,
   nor on whether it exists - non-interference.  (The sort side condition is necessary: ESetL checks the sort of an old
   value; `unconditional_noninterference_false` in that file.) *)
From RZ.sem Require Import TmpCheck.
From RZ.proofs Require Import TmpCheckProofs.
Theorem C06_temporaries_written_before_read : forall rw subs fuel n e D D' s1 s2,
  tdefS subs n D e = Some D' -> agree_off D s1 s2 -> stale_same_sorts D s1 s2 ->
  match exec rw subs fuel e s1, exec rw subs fuel e s2 with
  | Some s1', Some s2' => agree_off D' s1' s2' /\ stale_same_sorts D' s1' s2'
  | None, None => True
  | _, _ => False
  end.
Proof. exact tdefS_noninterference. Qed.
Print Assumptions C06_temporaries_written_before_read.
(* removing every stale temporary from the start state changes nothing a successful run can observe *)
Theorem C06_stale_temporaries_are_irrelevant : forall rw subs fuel n e D D' s s',
  tdefS subs n D e = Some D' -> exec rw subs fuel e s = Some s' ->
  exists c', exec rw subs fuel e (clean D s) = Some c' /\ agree_off D' s' c'.
Proof. exact run_then_clean_run. Qed.
Print Assumptions C06_stale_temporaries_are_irrelevant.
