(* C06 — Value-producing side effects happen exactly once, in order, only when selected. *)
From Coq Require Import ZArith NArith List Bool String.
From RZ.sem Require Import RzIL CSem Diff.
From RZ.model Require Import Ast Types OpTables Lower Guards.
From RZ.gen Require Import Resources.
From RZ.proofs Require Import Witness.
Import ListNotations.
Local Open Scope string_scope.
Local Open Scope Z_scope.

Definition C06_statement : Prop := faithful_on (fun _ => True).

(* D4: { int32_t a = RsV; a++; RdV = a; } — the increment (value unused, top level) is hoisted in front
   of the initialisation: SEQN(seq(h_tmp0 = a; a = a + 1), a = Rs, Rd = a) *)
Definition w_D4 : cstmts :=
  SCons (SDecl [TS_intN true 32] "a" (Some (EOp (OReg "R" "s"))))
 (SCons (SExpr (EPost true (EOp (OIdent "a"))))
 (SCons (SExpr (EAssign AAssign (EOp (OReg "R" "d")) (EOp (OIdent "a")))) SNil)).
Theorem C06_refuted_hoisted : mistranslated w_D4 32.
Proof. right. vm_compute. reflexivity. Qed.
(* the model records the reason: one pending hybrid was left over and placed first *)
Example C06_hoisted_is_leftover :
  match tlower_info (cfg_insn 0) w_D4 with OK i => ti_leftover i = 1%nat | Err _ => False end.
Proof. vm_compute. reflexivity. Qed.

Theorem C06_refuted : ~ C06_statement.
Proof. apply (refute _ w_D4 32 I). exact C06_refuted_hoisted. Qed.
Print Assumptions C06_refuted.

(* positive instances on the FAITHFUL model: a postfix increment consumed by its statement, a
   statement-expression, and a statement-expression arm of ?: (executed only when selected) *)
Definition p_post : cstmts :=
  SCons (SDecl [TS_intN true 32] "a" (Some (EOp (OReg "R" "s"))))
 (SCons (SExpr (EAssign AAssign (EOp (OReg "R" "d")) (EBin BAdd (EPost true (EOp (OIdent "a"))) (EOp (OIdent "a"))))) SNil).
Definition p_stmtexpr : cstmts :=
  SCons (SExpr (EAssign AAssign (EOp (OReg "R" "d"))
     (EStmtExpr (SCons (SDecl [TS_intN true 32] "a" (Some (EBin BAdd (EOp (OReg "R" "s")) (EOp (OReg "R" "t"))))) SNil) (SExpr (EOp (OIdent "a")))))) SNil.
Definition p_arm : cstmts :=
  SCons (SExpr (EAssign AAssign (EOp (OReg "R" "d"))
     (ECond (EOp (OReg "R" "s")) (EStmtExpr (SCons (SExpr (EAssign AAssign (EOp (OReg "R" "e")) (EOp (ONum 1 false "")))) SNil) (SExpr (EOp (OReg "R" "t"))))
            (EOp (ONum 2 false ""))))) SNil.
Example C06_positive_examples :
  forallb (fun p => forallb (fun s => match verdict_of (cfg_insn 0) p s with Some Agree => true | _ => false end) [1; 2; 3; 4; 5; 6])
          [p_post; p_stmtexpr; p_arm] = true.
Proof. vm_compute. reflexivity. Qed.

(* ------------------------------------------------------------------ "temporaries are always written before they are read"
   Decided per output by the must-analysis `da_effect` (definite assignment), evaluated in Coq on every real emitted effect
   with all non-temporary locals taken as assigned (tools/vt/diffrun.py: tmp_def).  What a positive verdict means, for EVERY
   effect, state and fuel: definite assignment is preserved by execution (loops and calls included), and a well-sorted,
   definitely-assigned loop-free effect never gets stuck on a read of an unassigned local. *)
From RZ.proofs Require Import SortSound.
Theorem C06_definite_assignment_is_preserved : forall rw subs fuel e D D' s s',
  da_effect rw D e = Some D' -> env_ok D (locals s) -> exec rw subs fuel e s = Some s' -> env_ok D' (locals s').
Proof. intros rw subs fuel e D D' s s'. exact (da_effect_preservation rw subs fuel e D D' s s'). Qed.
Print Assumptions C06_definite_assignment_is_preserved.
Theorem C06_temporaries_written_before_read : forall rw subs e G G' H D D' s fuel,
  wf_effect rw G e = Some G' -> ext G' H -> consistent H (locals s) ->
  da_effect rw D e = Some D' -> env_ok D (locals s) ->
  no_repeat e = true -> calls_opaque subs e -> (depth e <= fuel)%nat ->
  exists s', exec rw subs fuel e s = Some s' /\ env_ok D' (locals s') /\ consistent H (locals s').
Proof. intros rw subs e G G' H D D' s fuel. exact (wf_effect_progress rw subs e G G' H D D' s fuel). Qed.
Print Assumptions C06_temporaries_written_before_read.
