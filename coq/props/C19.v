(* C19 — Loading and splitting resolved shortcode loses nothing.
   Objects: gen/Regexes.v (the regular expressions REGENERATED from PreprocessorHexagon.py with CPython's
   own regex parser), lib/Regex.v (backtracking matcher, Python semantics), model/Pre.v (the functions,
   tied to the code by K5 on all 2181 bundled lines and generated lines). *)
From Coq Require Import List Ascii String Bool.
From RZ.lib Require Import Regex.
From RZ.gen Require Import Regexes.
From RZ.model Require Import Pre.
Import ListNotations.
Local Open Scope string_scope.

(* a real bundled line *)
Example C19_real_line :
  split_resolved (s2l "insn(J2_jump, {(riV); riV = (riV & ~(4 - 1)); JUMP((HEX_REG_ALIAS_PC)+riV);})")
  = Some (s2l "J2_jump", s2l "{(riV); riV = (riV & ~(4 - 1)); JUMP((HEX_REG_ALIAS_PC)+riV);}").
Proof. vm_compute. reflexivity. Qed.

(* D12a: "malformed lines are rejected": FALSE - garbage before `insn(` is silently accepted *)
Example C19_refuted_prefix_garbage_accepted : split_resolved (s2l "xinsn(A, {})") = Some (s2l "A", s2l "{}").
Proof. vm_compute. reflexivity. Qed.
Example C19_rejects_without_insn : split_resolved (s2l "J2_jump, {}") = None /\ load_line [] = LErr.
Proof. split; vm_compute; reflexivity. Qed.

(* D12b: "splitting a two-part behaviour loses nothing": FALSE - text before the first marker is dropped *)
Example C19_refuted_compound_prefix_dropped :
  split_compounds (s2l "{RdV = 1; __COMPOUND_PART1__{ P0 = 1; }__COMPOUND_PART1__ RdV = 2; }") = Some (s2l "{ P0 = 1; }", s2l "{ RdV = 2; }").
Proof. vm_compute. reflexivity. Qed.
(* the bundled shape (nothing before the first marker) splits without loss *)
Example C19_bundled_shape :
  split_compounds (s2l "{__COMPOUND_PART1__{ P0 = (RsV > 0) ? 0xff : 0x00; }__COMPOUND_PART1__ if (P0_NEW) { JUMP(riV); }}")
  = Some (s2l "{ P0 = (RsV > 0) ? 0xff : 0x00; }", s2l "{ if (P0_NEW) { JUMP(riV); }}").
Proof. vm_compute. reflexivity. Qed.
