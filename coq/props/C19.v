(* C19 — Loading and splitting resolved shortcode loses nothing.
   Objects: gen/Regexes.v (the regular expressions REGENERATED from PreprocessorHexagon.py with CPython's
   own regex parser), lib/Regex.v (backtracking matcher, Python semantics), model/Pre.v (the functions,
   tied to the code by K5 on all 2181 bundled lines and generated lines). *)
From Coq Require Import List Ascii String Bool.
From RZ.lib Require Import Regex.
From RZ.gen Require Import Regexes.
From RZ.model Require Import Pre.
Import ListNotations.
Local Open Scope string_scope.

(* a real bundled line *)
Example C19_real_line :
  split_resolved (s2l "insn(J2_jump, {(riV); riV = (riV & ~(4 - 1)); JUMP((HEX_REG_ALIAS_PC)+riV);})")
  = Some (s2l "J2_jump", s2l "{(riV); riV = (riV & ~(4 - 1)); JUMP((HEX_REG_ALIAS_PC)+riV);}").
Proof. vm_compute. reflexivity. Qed.

(* D12a: "malformed lines are rejected": FALSE - garbage before `insn(` is silently accepted *)
Example C19_refuted_prefix_garbage_accepted : split_resolved (s2l "xinsn(A, {})") = Some (s2l "A", s2l "{}").
Proof. vm_compute. reflexivity. Qed.
Example C19_rejects_without_insn : split_resolved (s2l "J2_jump, {}") = None /\ load_line [] = LErr.
Proof. split; vm_compute; reflexivity. Qed.

(* D12b: "splitting a two-part behaviour loses nothing": FALSE - text before the first marker is dropped *)
Example C19_refuted_compound_prefix_dropped :
  split_compounds (s2l "{RdV = 1; __COMPOUND_PART1__{ P0 = 1; }__COMPOUND_PART1__ RdV = 2; }") = Some (s2l "{ P0 = 1; }", s2l "{ RdV = 2; }").
Proof. vm_compute. reflexivity. Qed.
(* the bundled shape (nothing before the first marker) splits without loss *)
Example C19_bundled_shape :
  split_compounds (s2l "{__COMPOUND_PART1__{ P0 = (RsV > 0) ? 0xff : 0x00; }__COMPOUND_PART1__ if (P0_NEW) { JUMP(riV); }}")
  = Some (s2l "{ P0 = (RsV > 0) ? 0xff : 0x00; }", s2l "{ if (P0_NEW) { JUMP(riV); }}").
Proof. vm_compute. reflexivity. Qed.

(* ------------------------------------------------------------------ the theorems over ALL strings *)
From RZ.proofs Require Import PreProofs.
Local Open Scope list_scope.

(* NAME and BODY are recovered exactly, whatever parentheses, commas, braces or nested calls BODY contains *)
Theorem C19_split_line_roundtrip :
  forall (name body tail : str), name <> [] -> Forall (fun c => is_word c = true) name ->
    body <> [] -> Forall (fun c => Ascii.eqb c nl = false) body -> (tail = [] \/ tail = [nl]) ->
    split_resolved (s2l "insn(" ++ name ++ s2l ", " ++ body ++ s2l ")" ++ tail) = Some (name, body).
Proof. exact split_line_roundtrip. Qed.
Print Assumptions C19_split_line_roundtrip.

(* exact characterisation of the accepted lines: an item insn(NAME, BODY) possibly PRECEDED BY ANYTHING (that is D12a) *)
Theorem C19_split_line_accepts_iff :
  forall line, split_resolved line <> None <->
    exists pre name body tail, line = pre ++ s2l "insn(" ++ name ++ s2l ", " ++ body ++ s2l ")" ++ tail
      /\ name <> [] /\ wordy name /\ body <> [] /\ nonl body /\ (tail = [] \/ tail = [nl]).
Proof. exact split_line_accepts_iff. Qed.
Print Assumptions C19_split_line_accepts_iff.

(* compounds: the two parts are exactly the marked regions; text before the first marker never appears in them *)
Theorem C19_split_compounds_spec :
  forall pre p1 p2, contains marker p1 = false -> contains marker p2 = false -> p1 <> [] -> nonl pre -> nonl p1 -> nonl p2 ->
    split_compounds (s2l "{" ++ pre ++ marker ++ s2l "{" ++ p1 ++ s2l "}" ++ marker ++ p2 ++ s2l "}")
    = Some (s2l "{" ++ p1 ++ s2l "}", s2l "{" ++ p2 ++ s2l "}").
Proof. exact split_compounds_spec_strong. Qed.
Print Assumptions C19_split_compounds_spec.

Theorem C19_load_line :
  forall (name body tail : str), name <> [] -> Forall (fun c => is_word c = true) name ->
    body <> [] -> Forall (fun c => Ascii.eqb c nl = false) body -> (tail = [] \/ tail = [nl]) -> contains marker body = false ->
    load_line (s2l "insn(" ++ name ++ s2l ", " ++ body ++ s2l ")" ++ tail) = LOne name body.
Proof. exact load_line_spec. Qed.
