(* C04 — Common-type and promotion rules are exactly the C11 table.
   Statements are about gen/TypeRules.v, regenerated from ValueType.py on every run.
   Widths range over all of N (1..2048 included); heaps are arbitrary, arguments may alias. *)
From Coq Require Import NArith List.
From RZ.lib Require Import PyHeap.
From RZ.sem Require Import CTypesN.
From RZ.gen Require Import TypeRules.
From RZ.proofs Require Import TypeRulesProofs.

(* total + deterministic: c11_cast is a Gallina function (no error result exists in its type);
   equals the C11 usual arithmetic conversion; modifies no pre-existing object. *)
Theorem C04_common_type : forall h a b, (a < length h)%nat -> (b < length h)%nat ->
  let '(h', (ra, rb)) := c11_cast h a b in
  rd h' ra = uac (rd h a) (rd h b) /\ rd h' rb = uac (rd h a) (rd h b) /\ same_old h h'
  /\ (length h <= length h')%nat.
Proof. exact c11_cast_spec. Qed.
Print Assumptions C04_common_type.

Theorem C04_symmetric : forall h a b, (a < length h)%nat -> (b < length h)%nat ->
  let '(h1, (ra, _)) := c11_cast h a b in
  let '(h2, (rb, _)) := c11_cast h b a in
  rd h1 ra = rd h2 rb.
Proof. exact c11_cast_sym. Qed.
Print Assumptions C04_symmetric.

Theorem C04_spec_symmetric : forall a b, uac a b = uac b a.
Proof. exact uac_sym. Qed.
Print Assumptions C04_spec_symmetric.

Theorem C04_promotion : forall h a, (a < length h)%nat ->
  let '(h', r) := promoted_type h a in
  rd h' r = promote (rd h a) /\ same_old h h'
  /\ (32 <= vbw (rd h a) -> r = a /\ h' = h)%N.
Proof. exact promoted_spec. Qed.
Print Assumptions C04_promotion.
