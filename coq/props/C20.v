(* C20 — Macro resolution equals standard C preprocessing under the patched macro set.
   The repository's OWN steps (cleanup_macros, patch_macros, replace_do_while_0) are modelled in
   model/Pre.v over the REGENERATED regular expressions and tied to the code by K5; the third-party
   preprocessor pcpp is NOT modelled: that step is covered by regenerating the resolved file in a scratch
   copy and comparing it with the bundled file and with clang -E as an independent preprocessor (a test). *)
From Coq Require Import List Ascii String Bool.
From RZ.lib Require Import Regex.
From RZ.gen Require Import Regexes.
From RZ.model Require Import Pre.
Import ListNotations.
Local Open Scope string_scope.

Definition L (s : string) : str := s2l s.

(* do { X } while (0) is replaced by X, also twice on a line and nested *)
Example C20_do_while_examples :
  option_map l2s (replace_do_while_0 (L "insn(X, { do { RdV = 1; } while (0); })")) = Some ("insn(X, {  RdV = 1; ; })" ++ String "010" "")
  /\ option_map l2s (replace_do_while_0 (L "a do {x;} while(0) b do { y; } while (0) c")) = Some ("a x; b  y;  c" ++ String "010" "")
  /\ option_map l2s (replace_do_while_0 (L "do { do { z; } while (0); } while (0)")) = Some ("  z; ; " ++ String "010" "")
  /\ replace_do_while_0 (L "no wrapper here") = Some (L "no wrapper here").
Proof. repeat split; vm_compute; reflexivity. Qed.
(* D12c: a look-alike identifier ending in `do` is stripped too *)
Example C20_refuted_lookalike : option_map l2s (replace_do_while_0 (L "undo {x;} while(0);")) = Some ("unx;;" ++ String "010" "").
Proof. vm_compute. reflexivity. Qed.

(* patching: the patch replaces the FIRST original definition in place, later originals vanish, user-only patches are prepended *)
Example C20_patch_example :
  option_map (map l2s) (patch_macros [L "#define A 1"; L "#define B(x) x"; L "#define A 2"; L "#define C 3"; L "#define B(x) (x)"]
                                     (L ("#define B(y) (y+1)" ++ String "010" "#define NEW 7" ++ String "010" "")))
  = Some ["#define NEW 7"; "#define A 1"; "#define B(y) (y+1)"; "#define A 2"; "#define C 3"].
Proof. vm_compute. reflexivity. Qed.
