(* C20 — Macro resolution equals standard C preprocessing under the patched macro set.
   The repository's OWN steps (cleanup_macros, patch_macros, replace_do_while_0) are modelled in
   model/Pre.v over the REGENERATED regular expressions and tied to the code by K5; the third-party
   preprocessor pcpp is NOT modelled: that step is covered by regenerating the resolved file in a scratch
   copy and comparing it with the bundled file and with clang -E as an independent preprocessor (a test). *)
From Coq Require Import List Ascii String Bool.
From RZ.lib Require Import Regex.
From RZ.gen Require Import Regexes.
From RZ.model Require Import Pre.
Import ListNotations.
Local Open Scope string_scope.

Definition L (s : string) : str := s2l s.

(* do { X } while (0) is replaced by X, also twice on a line and nested *)
Example C20_do_while_examples :
  option_map l2s (replace_do_while_0 (L "insn(X, { do { RdV = 1; } while (0); })")) = Some ("insn(X, {  RdV = 1; ; })" ++ String "010" "")
  /\ option_map l2s (replace_do_while_0 (L "a do {x;} while(0) b do { y; } while (0) c")) = Some ("a x; b  y;  c" ++ String "010" "")
  /\ option_map l2s (replace_do_while_0 (L "do { do { z; } while (0); } while (0)")) = Some ("  z; ; " ++ String "010" "")
  /\ replace_do_while_0 (L "no wrapper here") = Some (L "no wrapper here").
Proof. repeat split; vm_compute; reflexivity. Qed.
(* D12c: a look-alike identifier ending in `do` is stripped too *)
Example C20_refuted_lookalike : option_map l2s (replace_do_while_0 (L "undo {x;} while(0);")) = Some ("unx;;" ++ String "010" "").
Proof. vm_compute. reflexivity. Qed.

(* patching: the patch replaces the FIRST original definition in place, later originals vanish, user-only patches are prepended *)
Example C20_patch_example :
  option_map (map l2s) (patch_macros [L "#define A 1"; L "#define B(x) x"; L "#define A 2"; L "#define C 3"; L "#define B(x) (x)"]
                                     (L ("#define B(y) (y+1)" ++ String "010" "#define NEW 7" ++ String "010" "")))
  = Some ["#define NEW 7"; "#define A 1"; "#define B(y) (y+1)"; "#define A 2"; "#define C 3"].
Proof. vm_compute. reflexivity. Qed.

(* ------------------------------------------------------------------ general theorems (proofs/PatchProofs.v), for ALL macro files and patch files *)
From Coq Require Import Permutation.
From RZ.proofs Require Import PreProofs PatchProofs.
Local Open Scope list_scope.

(* patch_macros as ONE equation: it fails exactly when a cleaned line is not a `#define` line (AttributeError in the code);
   otherwise the result is the patches that name no definition (reversed: each is inserted at index 0) followed by one
   left-to-right pass that replaces the FIRST definition of every patched name by its patch, drops the later definitions
   of a patched name and keeps every other line, in order. *)
Theorem C20_patch_macros_spec : forall macros content,
  patch_macros macros content =
  match read_patches content with
  | None => None
  | Some p =>
      if forallb (has_name define_name) macros
      then Some (rev (map snd (filter (fun kv => negb (occurs define_name (fst kv) macros)) p)) ++ patch_spec define_name macros p [])
      else None
  end.
Proof. exact patch_macros_spec. Qed.
Print Assumptions C20_patch_macros_spec.

(* each patch is applied exactly once iff its name is defined, never twice; applied + left-over patches are exactly the patch file's
   dictionary; unpatched definitions are preserved with order and multiplicity *)
Theorem C20_each_patch_once : forall macros content res,
  patch_macros macros content = Some res ->
  exists p items lft,
    read_patches content = Some p /\ NoDup (keys p) /\
    tloop define_name macros p [] = Some (items, lft) /\
    res = rev (map snd lft) ++ map item_line items /\
    Permutation p (used items ++ lft) /\
    NoDup (keys (used items)) /\
    (forall k, In k (keys (used items)) <-> In k (keys p) /\ In (Some k) (map define_name macros)) /\
    (forall k v, In (k, v) (used items) -> assoc_get k p = Some v) /\
    lft = filter (fun kv => negb (occurs define_name (fst kv) macros)) p /\
    kept items = filter (fun l => match define_name l with Some n => negb (has_patch p n) | None => false end) macros.
Proof. exact patch_macros_C20. Qed.
Print Assumptions C20_each_patch_once.

(* do { } while (0): total (the model's fuel always suffices), the identity exactly when no wrapper is found, and on a line
   `pre do { b } while (0) post` without a second wrapper the result is pre ++ b ++ post *)
Theorem C20_do_while_total : forall code,
  (do_while_step code = None /\ replace_do_while_0 code = Some code) \/
  (exists t r, do_while_step code = Some t /\ replace_do_while_0 code = Some (r ++ [nl]) /\ do_while_step r = None /\ List.length r + 12 <= List.length code).
Proof. exact replace_do_while_0_total. Qed.
Print Assumptions C20_do_while_total.
Theorem C20_do_while_removes_exactly_the_wrapper : forall pre s1 b s2 s3 post,
  nonl pre -> blanks s1 -> nonl b -> blanks s2 -> blanks s3 -> nonl post ->
  contains (s2l "do") b = false -> contains (s2l "do") post = false -> existsb (Ascii.eqb "}"%char) post = false ->
  do_while_step (pre ++ b ++ post) = None ->
  replace_do_while_0 (pre ++ wrapped s1 b s2 s3 post) = Some (pre ++ b ++ post ++ [nl]).
Proof. exact replace_do_while_0_one. Qed.
Print Assumptions C20_do_while_removes_exactly_the_wrapper.
(* what the function does NOT guarantee (kept visible): text on OTHER lines of a multi-line argument is dropped - the call site
   passes single lines, so this is not reachable from remove_onetime_do_whiles *)
Example C20_multiline_argument_refuted :
  replace_do_while_0 (s2l "x;" ++ [nl] ++ s2l "do { y } while (0)" ++ [nl] ++ s2l "z;") = Some (s2l " y " ++ [nl]).
Proof. exact dw_drops_other_lines_refuted. Qed.

(* the CALL SITE (remove_onetime_do_whiles) passes each element of readlines(): one line ending in one newline.  On such input
   the function sees exactly the line (the terminator is invisible to the regex), and the result is again one terminated line
   without a wrapper: the multi-line effect above is unreachable from the call site. *)
Theorem C20_do_while_call_site_shape : forall code, nonl code ->
  exists r, replace_do_while_0 (code ++ [nl]) = Some (r ++ [nl]) /\ nonl r /\ do_while_step r = None /\ List.length r <= List.length code.
Proof. exact replace_do_while_0_line_shape. Qed.
Print Assumptions C20_do_while_call_site_shape.
Theorem C20_do_while_call_site_line : forall pre s1 b s2 s3 post,
  nonl pre -> blanks s1 -> nonl b -> blanks s2 -> blanks s3 -> nonl post ->
  contains (s2l "do") b = false -> contains (s2l "do") post = false -> existsb (Ascii.eqb "}"%char) post = false ->
  do_while_step (pre ++ b ++ post) = None ->
  replace_do_while_0 ((pre ++ wrapped s1 b s2 s3 post) ++ [nl]) = Some (pre ++ b ++ post ++ [nl]).
Proof. exact replace_do_while_0_one_line. Qed.
Print Assumptions C20_do_while_call_site_line.
Theorem C20_do_while_call_site_identity : forall code, nonl code -> do_while_step code = None ->
  replace_do_while_0 (code ++ [nl]) = Some (code ++ [nl]).
Proof. exact replace_do_while_0_line_id. Qed.
