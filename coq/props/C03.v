(* C03 — Casts and implicit conversions preserve the C value.
   D3 (the fill bit of a widening CAST was MSB only if BOTH types are signed) is FIXED in /repo; still FALSE of the faithful model (D29); refuted by witness, true of the repaired model on the witness; the general theorem for
   the repaired model lives in proofs/ (conversion lemma init_a_cast_ok, when present). *)
From Coq Require Import ZArith NArith List Bool String.
From RZ.sem Require Import RzIL CSem Diff.
From RZ.model Require Import Ast Types OpTables Lower Guards.
From RZ.gen Require Import Resources.
From RZ.proofs Require Import Witness.
Import ListNotations.
Local Open Scope string_scope.
Local Open Scope Z_scope.

Definition C03_statement : Prop := faithful_on (fun _ => True).

(* { int8_t a = RsV; RddV = (uint64_t)a; } *)
Definition w_D3 : cstmts :=
  SCons (SDecl [TS_intN true 8] "a" (Some (EOp (OReg "R" "s"))))
 (SCons (SExpr (EAssign AAssign (EOp (OReg "R" "dd")) (ECast [TS_intN false 64] (EOp (OIdent "a"))))) SNil).
(* FIXED in /repo (fix: a signed value widened to an unsigned type is sign extended): before the fix this was `mistranslated w_D3 32` *)
Example C03_fixed_widening_fill : forallb (fun s => match verdict_of (cfg_insn 0) w_D3 s with Some Agree => true | _ => false end) [32; 33; 34; 35; 46; 74] = true.
Proof. vm_compute. reflexivity. Qed.

(* still open, D29: a declaration with initialiser of a name that an earlier (closed) block declared converts the initialiser through the
   OLD type:  { { int8_t x = 1; } { int32_t x = 300; RdV = x; } }  (the real compiler writes 44; in the IL semantics the local x is set at two widths) *)
Definition w_D29 : cstmts :=
  SCons (SBlock (SCons (SDecl [TS_intN true 8] "x" (Some (EOp (ONum 1 false "")))) SNil))
 (SCons (SBlock (SCons (SDecl [TS_intN true 32] "x" (Some (EOp (ONum 300 false ""))))
               (SCons (SExpr (EAssign AAssign (EOp (OReg "R" "d")) (EOp (OIdent "x")))) SNil))) SNil).
Theorem C03_refuted_redeclared_conversion : mistranslated w_D29 32.
Proof. right. vm_compute. reflexivity. Qed.

(* implicit conversion of ?: arms: { int8_t a = RsV; uint8_t b = RtV; RdV = RuV ? a : b; } *)
Definition w_D13c : cstmts :=
  SCons (SDecl [TS_intN true 8] "a" (Some (EOp (OReg "R" "s"))))
 (SCons (SDecl [TS_intN false 8] "b" (Some (EOp (OReg "R" "t"))))
 (SCons (SExpr (EAssign AAssign (EOp (OReg "R" "d")) (ECond (EOp (OReg "R" "u")) (EOp (OIdent "a")) (EOp (OIdent "b"))))) SNil)).
(* FIXED in /repo (fix: integer promotion of comparison and ?: operands) *)
Example C03_fixed_ternary_arms : forallb (fun s => match verdict_of (cfg_insn 0) w_D13c s with Some Agree => true | _ => false end) [32; 33; 34; 35; 46; 74] = true.
Proof. vm_compute. reflexivity. Qed.

Theorem C03_refuted : ~ C03_statement.
Proof. apply (refute _ w_D29 32 I). exact C03_refuted_redeclared_conversion. Qed.
Print Assumptions C03_refuted.

Example C03_repaired_witnesses :
  translated_ok_on (repaired (cfg_insn 0)) w_D3 32 /\ translated_ok_on (repaired (cfg_insn 0)) w_D13c 32.
Proof. split; vm_compute; reflexivity. Qed.

(* the bit-level fact behind every conversion lemma, for ALL values and the four C widths:
   RzIL CAST with fill = (source signed && msb) is the C conversion (6.3.1.3 with wrap-around) *)
Definition cwidth (w : N) : Prop := w = 8%N \/ w = 16%N \/ w = 32%N \/ w = 64%N.

(* ------------------------------------------------------------------ the general conversion lemma *)
From RZ.proofs Require Import ExprCorrect.
(* explicit casts inside arbitrary pure expressions are covered by the expression theorem (props/C02.v
   states it); here its instance for the fragment, restated so that C03 has its own obligation *)
Theorem C03_casts_correct_repaired :
  forall (cfg : config) (rw : regwidth) (IM : string -> bool) (E : cenv) (csub : csubs) xi V e st,
  cfg_fx cfg = all_fixes -> cfg_params cfg = [] -> macs_std (cfg_macros cfg) -> subs_ext (cfg_subs cfg) -> csub_ext csub -> xi_ok xi ->
  lst_ok IM V st -> pfrag rw IM V e ->
  exists pv st', lower_expr cfg e st = OK (IPure pv, st') /\ st_ext st st' /\ lst_ok IM V st' /\
    forall R rem, regs_le (st_regs st') R -> norem rem ->
    forall cs ms, rel IM E V cs ms -> imms_done IM E (st_imms st') cs ms ->
      exists ilv, eval rw ms [] (fin_pure R rem (pv_term pv)) = Some ilv /\ shape_pv pv ilv /\
        forall fuel cs' cv, ceval E csub xi fuel cs e = Some (cs', cv) -> cs' = cs /\ agrees pv cv ilv.
Proof. exact expr_correct_unconditional. Qed.
Print Assumptions C03_casts_correct_repaired.

(* ------------------------------------------------------------------ the cast table IS the compiler's *)
(* OpTables.cast_il_exec (width and fill bit of the emitted CAST) = the elaboration of what Cast.il_exec emits, for all types and
   operands; gen/OpTablesGen.v is regenerated from Pures/Cast.py on every run (tools/vt/tr_optables.py) *)
From RZ.sem Require Import CBody.
From RZ.gen Require Import OpTablesGen.
From RZ.proofs Require Import OpTablesProofs.
Theorem C03_cast_table_is_the_compilers : forall target src x op t1 ib0 ic0 ib1 ic1 il0 v0 b,
  elab_text x b (cast_text op target src t1 ib0 ic0 ib1 ic1 il0 v0) = Some (cast_il_exec target src (il0 && (0 <=? v0)%Z) x).
Proof. exact cast_text_ok. Qed.
Print Assumptions C03_cast_table_is_the_compilers.
