(* C01 — Shipped instruction behaviours are translated faithfully end to end.
   The quantifier "all 2181 bundled definitions" is met per run by the harness: every accepted
   corpus part is compared tree-for-tree with the model (K2) and run through the differential
   oracle.  Here: the statement, its refutation by two SHIPPED instructions, the general theorems
   available for the model, and the rejection side. *)
From Coq Require Import ZArith NArith List Bool String.
From RZ.sem Require Import RzIL CSem Diff.
From RZ.model Require Import Ast Types OpTables Lower Guards.
From RZ.gen Require Import Resources.
From RZ.proofs Require Import Witness ExprCorrect.
Import ListNotations.
Local Open Scope string_scope.
Local Open Scope Z_scope.

Definition C01_statement : Prop := faithful_on (fun _ => True).

(* A2_combine_ll : {RdV = (((uint16_t)((RtV >> ((0) * 16)) & 0xffff))<<16) | ((uint16_t)((RsV >> ((0) * 16)) & 0xffff));}
   the left shift is done at 16 bits (D1): the upper half of Rd is always 0 *)
Definition half (r : string) : cexpr :=
  ECast [TS_intN false 16] (EBin BAnd (EBin BShr (EOp (OReg "R" r)) (EBin BMul (EOp (ONum 0 false "")) (EOp (ONum 16 false "")))) (EOp (ONum 65535 true ""))).
Definition A2_combine_ll : cstmts :=
  SCons (SExpr (EAssign AAssign (EOp (OReg "R" "d")) (EBin BOr (EBin BShl (half "t") (EOp (ONum 16 false ""))) (half "s")))) SNil.
(* FIXED in /repo (fix: integer promotion of the left operand of << and >>) *)
Example C01_fixed_A2_combine_ll : forallb (fun s => match verdict_of (cfg_insn 0) A2_combine_ll s with Some Agree => true | _ => false end) [32; 33; 34; 35; 46; 74] = true.
Proof. vm_compute. reflexivity. Qed.

(* L2_loadrub_pbr : {(EA = fbrev(RxV));  RxV = RxV + (MuV); ; RdV = (size1u_t)(mem_load_u8(EA));}
   fbrev calls revbit16, whose temporary h_tmp0 (16 bit) collides with the caller's h_tmp0 (32 bit): D5 *)
Definition L2_loadrub_pbr : cstmts :=
  SCons (SExpr (EAssign AAssign (EOp (OIdent "EA")) (ECall "fbrev" (ECons (EOp (OReg "R" "x")) ENil))))
 (SCons (SExpr (EAssign AAssign (EOp (OReg "R" "x")) (EBin BAdd (EOp (OReg "R" "x")) (EOp (OReg "M" "u")))))
 (SCons SEmpty
 (SCons (SExpr (EAssign AAssign (EOp (OReg "R" "d")) (ECast [TS_sizeN 1 false] (ELoad false 8 (ECons (EOp (OIdent "EA")) ENil))))) SNil))).
Theorem C01_refuted_L2_loadrub_pbr : mistranslated L2_loadrub_pbr 32.
Proof. right. vm_compute. reflexivity. Qed.

Theorem C01_refuted : ~ C01_statement.
Proof. apply (refute _ L2_loadrub_pbr 32 I). exact C01_refuted_L2_loadrub_pbr. Qed.
Print Assumptions C01_refuted.


(* the general theorem available for the value side (all depths, all operand values): see props/C02.v *)
Theorem C01_expressions_partial :
  forall (cfg : config) (rw : regwidth) (IM : string -> bool) (E : cenv) (csub : csubs) xi V e st,
  cfg_params cfg = [] -> macs_std (cfg_macros cfg) -> subs_ext (cfg_subs cfg) -> csub_ext csub -> xi_ok xi ->
  lst_ok IM V st -> pfrag rw IM V e ->
  lower_expr cfg e st = lower_expr (with_fx all_fixes cfg) e st ->
  exists pv st', lower_expr cfg e st = OK (IPure pv, st') /\ st_ext st st' /\ lst_ok IM V st' /\
    forall R rem, regs_le (st_regs st') R -> norem rem ->
    forall cs ms, rel IM E V cs ms -> imms_done IM E (st_imms st') cs ms ->
      exists ilv, eval rw ms [] (fin_pure R rem (pv_term pv)) = Some ilv /\ shape_pv pv ilv /\
        forall fuel cs' cv, ceval E csub xi fuel cs e = Some (cs', cv) -> cs' = cs /\ agrees pv cv ilv.
Proof.
  intros cfg rw IM E csub xi V e st Hp Hm Hs Hc Hx HV Hf Heq. rewrite Heq.
  apply (expr_correct_unconditional (with_fx all_fixes cfg) rw IM E csub xi V e st); auto.
Qed.
Print Assumptions C01_expressions_partial.

(* the 13 bundled sub-routines: the model accepts each body under the routine's own signature
   (the per-run K2 check compares these trees with the real compiled bodies) *)
Example C01_sub_routines_accepted :
  forallb (fun x => match tlower (snd (fst (snd x))) (snd (snd x)) with OK _ => true | Err _ => false end) sub_bodies = true.
Proof. vm_compute. reflexivity. Qed.

(* ------------------------------------------------------------------ shipped behaviours covered by the end-to-end theorem
   `covered h prog` (proofs/FragCheck.v) is a BOOLEAN the harness evaluates for every accepted shipped behaviour: the
   behaviour lies in the statement fragment (decided by a checker proved sound and complete for sfrags) and the REAL
   configuration translates it exactly like the repaired one.  For every such behaviour the whole-transformer simulation
   theorem holds for the configuration the real compiler has: *)
From RZ.proofs Require Import SeqLaws StmtCorrect FragCheck.
Theorem C01_covered_behaviours_correct : forall h prog, covered h prog = true ->
  exists eff h' D' V', tlower_info (cfg_insn h) prog = OK (mkti eff h' 0 false []) /\ (h <= h')%N /\
    forall ilsubs E csub xi cs ms fuel cs', csub_ext csub -> xi_ok xi ->
      srel (IM_of prog) E [] [] cs ms -> imm_fresh (IM_of prog) cs -> cexecs E csub xi fuel cs prog = Some cs' ->
      exists ms', runs (rw_of_prog prog) ilsubs eff ms ms' /\ srel (IM_of prog) E D' V' cs' ms'.
Proof. exact covered_correct. Qed.
Print Assumptions C01_covered_behaviours_correct.
