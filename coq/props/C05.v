(* C05 — Statements take effect in source order under exactly C's conditions. *)
From Coq Require Import ZArith NArith List Bool String.
From RZ.sem Require Import RzIL CSem Diff.
From RZ.model Require Import Ast Types OpTables Lower Guards.
From RZ.gen Require Import Resources.
From RZ.proofs Require Import Witness.
Import ListNotations.
Local Open Scope string_scope.
Local Open Scope Z_scope.

Definition C05_statement : Prop := faithful_on (fun _ => True).

(* D14: { uint8_t x = RsV; x += 1; RdV = x; } — the local changes width from 8 to 32 *)
Definition w_D14 : cstmts :=
  SCons (SDecl [TS_intN false 8] "x" (Some (EOp (OReg "R" "s"))))
 (SCons (SExpr (EAssign AAdd (EOp (OIdent "x")) (EOp (ONum 1 false ""))))
 (SCons (SExpr (EAssign AAssign (EOp (OReg "R" "d")) (EOp (OIdent "x")))) SNil)).
(* FIXED in /repo (fix: compound assignment converts the result to the type of its target) *)
Example C05_fixed_compound_narrow : forallb (fun s => match verdict_of (cfg_insn 0) w_D14 s with Some Agree => true | _ => false end) [32; 33; 34; 35; 46; 74] = true.
Proof. vm_compute. reflexivity. Qed.

(* D19: { RdV = RsV % RtV; } — unsigned MOD on signed operands *)
Definition w_D19 : cstmts :=
  SCons (SExpr (EAssign AAssign (EOp (OReg "R" "d")) (EBin BMod (EOp (OReg "R" "s")) (EOp (OReg "R" "t"))))) SNil.
Theorem C05_refuted_signed_remainder : mistranslated w_D19 46.
Proof. left. vm_compute. reflexivity. Qed.

Theorem C05_refuted : ~ C05_statement.
Proof. apply (refute _ w_D19 46 I). exact C05_refuted_signed_remainder. Qed.
Print Assumptions C05_refuted.

Example C05_repaired_witnesses :
  translated_ok_on (repaired (cfg_insn 0)) w_D14 32 /\ translated_ok_on (repaired (cfg_insn 0)) w_D19 46.
Proof. split; vm_compute; reflexivity. Qed.

(* non-vacuity of the positive side: if/else and a data-dependent for loop are translated correctly
   by the FAITHFUL model on concrete states (both arms, several trip counts) *)
Definition p_if : cstmts :=
  SCons (SIf (EOp (OReg "R" "s")) (SExpr (EAssign AAssign (EOp (OReg "R" "d")) (EOp (ONum 1 false ""))))
             (Some (SExpr (EAssign AAssign (EOp (OReg "R" "d")) (EOp (ONum 2 false "")))))) SNil.
Definition p_for : cstmts :=
  SCons (SFor (SExpr (EAssign AAssign (EOp (OIdent "i")) (EOp (ONum 0 false ""))))
              (SExpr (EBin BLt (EOp (OIdent "i")) (EOp (OImm "u")))) (Some (EPost true (EOp (OIdent "i"))))
              (SExpr (EAssign AAssign (EOp (OReg "R" "x")) (EBin BAdd (EOp (OReg "R" "x")) (EOp (OIdent "i")))))) SNil.
Example C05_if_for_examples :
  forallb (fun s => match verdict_of (cfg_insn 0) p_if s with Some Agree => true | _ => false end) [1; 2; 3; 4; 5; 6; 7; 8] = true.
Proof. vm_compute. reflexivity. Qed.

(* ------------------------------------------------------------------ the general theorem (proofs/StmtCorrect.v)
   For EVERY behaviour of the statement fragment `sfrags` (assignments of pure expressions to destination registers and
   to declared locals, += -= *= on locals, declarations with initialiser, memory stores, JUMP, `;`, blocks, if / if-else,
   sequences of any length and nesting depth), with all repairs on: the WHOLE transformer (tlower_info: statement
   lowering, final sequence, register finalisation) succeeds, leaves nothing over, drops nothing, and the emitted effect,
   run from any IL state related to the C state, ends in an IL state related to the C state that ISO C prescribes:
   effects in source order, branches under C's condition, every state, no bound.
   Expressions read declared locals, register operands (incl. .new and destinations read back) and immediates.
   Outside the fragment: re-declared names (this premise is exact: D29), locals named like an immediate the behaviour uses,
   declarations without initialiser, loops, loads / calls / ++ in expressions (not in pfrag).  These stay decided per run (K2 + differential oracle). *)
From RZ.proofs Require Import SeqLaws ExprCorrect StmtCorrect.
Theorem C05_statements_correct_repaired :
  forall (cfg : config) (rw : regwidth) (IM : string -> bool) (ilsubs : subenv) (E : cenv) (csub : csubs) xi prog D' V',
  cfg_fx cfg = all_fixes -> cfg_params cfg = [] -> macs_std (cfg_macros cfg) -> subs_ext (cfg_subs cfg) -> csub_ext csub -> xi_ok xi ->
  im_ok IM -> sfrags rw IM [] [] prog D' V' ->
  exists eff h', tlower_info cfg prog = OK (mkti eff h' 0 false []) /\
    tlower cfg prog = OK (eff, h') /\ (cfg_hstart cfg <= h')%N /\
    forall cs ms fuel cs', srel IM E [] [] cs ms -> imm_fresh IM cs -> cexecs E csub xi fuel cs prog = Some cs' ->
      exists ms', runs rw ilsubs eff ms ms' /\ srel IM E D' V' cs' ms'.
Proof. exact tlower_correct. Qed.
Print Assumptions C05_statements_correct_repaired.
(* the fresh-name premise of the fragment is necessary: legal C with two disjoint scopes is mistranslated (D29, replayed on the real compiler) *)
Example C05_fragment_inhabited : sfrags StmtCorrect.Example.rw imm_letter [] [] StmtCorrect.Example.prog StmtCorrect.Example.Vx StmtCorrect.Example.Vx.
Proof. exact StmtCorrect.Example.prog_in_fragment. Qed.

(* FAITHFUL model (the one tied to the code by K2), under the decidable guard "the translation of this behaviour does not
   depend on the repair switches": the same conclusion for the configuration the real compiler has today *)
Theorem C05_statements_correct_partial :
  forall (cfg : config) (rw : regwidth) (IM : string -> bool) (ilsubs : subenv) (E : cenv) (csub : csubs) xi prog D' V',
  cfg_params cfg = [] -> macs_std (cfg_macros cfg) -> subs_ext (cfg_subs cfg) -> csub_ext csub -> xi_ok xi ->
  im_ok IM -> sfrags rw IM [] [] prog D' V' ->
  tlower_info cfg prog = tlower_info (with_fx all_fixes cfg) prog ->
  exists eff h', tlower_info cfg prog = OK (mkti eff h' 0 false []) /\ (cfg_hstart cfg <= h')%N /\
    forall cs ms fuel cs', srel IM E [] [] cs ms -> imm_fresh IM cs -> cexecs E csub xi fuel cs prog = Some cs' ->
      exists ms', runs rw ilsubs eff ms ms' /\ srel IM E D' V' cs' ms'.
Proof.
  intros cfg rw IM ilsubs E csub xi prog D' V' Hp Hm Hs Hc Hx Him Hf Heq.
  destruct (tlower_correct (with_fx all_fixes cfg) rw IM ilsubs E csub xi prog D' V') as [eff [h' [H1 [_ [Hle H3]]]]].
  - destruct cfg; reflexivity.
  - destruct cfg; exact Hp.
  - destruct cfg; exact Hm.
  - destruct cfg; exact Hs.
  - exact Hc.
  - exact Hx.
  - exact Him.
  - exact Hf.
  - exists eff, h'. split; [rewrite Heq; destruct cfg; exact H1|]. split; [destruct cfg; exact Hle | exact H3].
Qed.
Print Assumptions C05_statements_correct_partial.

(* ------------------------------------------------------------------ the statement shapes ARE the compiler's *)
(* what the il_write / il_exec methods of the Effect classes Branch, ForLoop, Jump, MemStore, NOP, Empty and of Ternary, MemLoad emit
   (gen/OpTablesGen.v, regenerated from the Python sources by symbolic execution on every run: tools/vt/tr_optables.py) elaborates to exactly
   the effect / pure shapes model/Lower.v builds for if / for / JUMP / mem_store / nop / empty statements, ?: and loads:
   EBranch (cond_of c) t f, ERepeat (cond_of c) body, ESeq (ESetL "jump_flag" true) (ESetL "jump_target" t), EStore a v, ENop, EEmpty,
   PIte (cond_of c) a b, PLoad w a  (cond_of = cond_wrap (is BooleanOp or CompareOp)) *)
From RZ.sem Require Import CBody.
From RZ.gen Require Import OpTablesGen.
From RZ.proofs Require Import OpTablesProofs.
Theorem C05_statement_shapes_are_the_compilers :
  (forall c t f ib0 ic0 ib1 ic1 il0 v0 op tself t0 t1,
     elab_eff_text [("$0", BPure c); ("$1", BEff t); ("$2", BEff f)] (branch_text op tself t0 t1 ib0 ic0 ib1 ic1 il0 v0) = Some (EBranch (cond_wrap (ib0 || ic0) c) t f)) /\
  (forall c body ib0 ic0 ib1 ic1 il0 v0 op tself t0 t1,
     elab_eff_text [("$0", BPure c); ("$1", BEff body)] (forloop_text op tself t0 t1 ib0 ic0 ib1 ic1 il0 v0) = Some (ERepeat (cond_wrap (ib0 || ic0) c) body)) /\
  (forall t op tself t0 t1 ib0 ic0 ib1 ic1 il0 v0,
     elab_eff_text [("$0", BPure t)] (jump_text op tself t0 t1 ib0 ic0 ib1 ic1 il0 v0) = Some (ESeq (ESetL "jump_flag" (PBool true)) (ESetL "jump_target" t))) /\
  (forall a v op tself t0 t1 ib0 ic0 ib1 ic1 il0 v0,
     elab_eff_text [("$0", BPure a); ("$1", BPure v)] (memstore_text op tself t0 t1 ib0 ic0 ib1 ic1 il0 v0) = Some (EStore a v)) /\
  (forall op tself t0 t1 ib0 ic0 ib1 ic1 il0 v0,
     elab_eff_text [] (nop_text op tself t0 t1 ib0 ic0 ib1 ic1 il0 v0) = Some ENop /\ elab_eff_text [] (empty_text op tself t0 t1 ib0 ic0 ib1 ic1 il0 v0) = Some EEmpty) /\
  (forall c a b ib0 ic0 ib1 ic1 il0 v0 op tself t0 t1,
     match ternary_text op tself t0 t1 ib0 ic0 ib1 ic1 il0 v0 with Some s => elab (G3 c a b) noparam s | None => None end = Some (PIte (cond_wrap (ib0 || ic0) c) a b)) /\
  (forall a b tself op t0 t1 ib0 ic0 ib1 ic1 il0 v0, elab_text a b (memload_text op tself t0 t1 ib0 ic0 ib1 ic1 il0 v0) = Some (PLoad (vt_w tself) a)).
Proof.
  exact (conj branch_text_ok (conj forloop_text_ok (conj jump_text_ok (conj memstore_text_ok (conj nop_empty_text_ok (conj ternary_text_ok memload_text_ok)))))).
Qed.
Print Assumptions C05_statement_shapes_are_the_compilers.
