(* C18 — Pooled parsing equals sequential parsing and isolates failures.
   Theorems about the scheduler model model/Pool.v, for EVERY number of workers and EVERY schedule;
   the premises (the loop is `for res in pool.imap(parse_single, args): result.update(res)`, parse_single
   turns every exception into a result value) are shape-checked against Parser.py on every run, and the
   real pool is run against sequential parsing (K6). *)
From Coq Require Import List Arith.
From RZ.model Require Import Pool.
From RZ.proofs Require Import PoolProofs.
Import ListNotations.

Theorem C18_pool_sequential : forall (task result : Type) (f : task -> result) workers tasks c,
  steps task result f workers (init task result tasks) c -> final task result c -> acc task result c = map f tasks.
Proof. exact pool_sequential. Qed.
Print Assumptions C18_pool_sequential.

Theorem C18_no_deadlock : forall (task result : Type) (f : task -> result) workers tasks c,
  workers >= 1 -> steps task result f workers (init task result tasks) c -> ~ final task result c -> exists c', step task result f workers c c'.
Proof. exact pool_progress. Qed.
Print Assumptions C18_no_deadlock.

Theorem C18_one_entry_per_task : forall (task result : Type) (f : task -> result) workers tasks c,
  steps task result f workers (init task result tasks) c -> final task result c -> length (acc task result c) = length tasks.
Proof. exact one_entry_per_task. Qed.

(* replacing one behaviour by another one (e.g. a syntactically broken one) changes only its own entry *)
Theorem C18_failure_isolated : forall (task result : Type) (f : task -> result) workers tasks1 t t' tasks2 c c',
  steps task result f workers (init task result (tasks1 ++ t :: tasks2)) c -> final task result c ->
  steps task result f workers (init task result (tasks1 ++ t' :: tasks2)) c' -> final task result c' ->
  acc task result c = map f (tasks1 ++ t :: tasks2) /\ acc task result c' = map f (tasks1 ++ t' :: tasks2) /\
  forall j, j <> length tasks1 -> nth_error (acc task result c) j = nth_error (acc task result c') j.
Proof. exact failure_isolated. Qed.
Print Assumptions C18_failure_isolated.
