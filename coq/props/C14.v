(* C14 — Compilation results do not depend on history or on earlier failures.
   What can influence a later compilation is the state that survives reset(): the obligations below
   are over the REGENERATED field / call tables (gen/MetaTables.v): every field of the holder and of the
   extension is cleared on every exit path of every entry point, except hybrid_op_count, whose only
   influence is the numbering of h_tmpN (a consistent renaming).  The per-run K-hist correspondence
   compares real results of random histories (failing inputs interleaved, two Compiler instances, both
   entry points) with the results of a fresh process, up to that renaming. *)
From Coq Require Import ZArith NArith List Bool String.
From RZ.model Require Import Ast Meta.
From RZ.gen Require Import MetaTables.
From RZ.proofs Require Import MetaProofs.
Import ListNotations.
Local Open Scope string_scope.

(* holder fields that survive ILOpsHolder.clear() *)
Definition survives_clear : list string := filter (fun x => negb (mem x holder_clear_fields)) holder_fields.
(* of those, the ones RZILTransformer.reset() clears itself *)
Definition cleared_by_reset (x : string) : bool := mem ("self.il_ops_holder." ++ x ++ ".clear()")%string transformer_reset_calls.

Theorem C14_only_the_counter_survives_reset :
  filter (fun x => negb (cleared_by_reset x)) survives_clear = ["hybrid_op_count"].
Proof. vm_compute. reflexivity. Qed.
Print Assumptions C14_only_the_counter_survives_reset.

Theorem C14_reset_is_complete :
  mem "self.ext.reset_flags()" transformer_reset_calls = true
  /\ mem "self.il_ops_holder.clear()" transformer_reset_calls = true
  /\ mem "self.imm_set_effect_list.clear()" transformer_reset_calls = true
  /\ mem "self.il_ops_holder.hybrid_effect_dict.clear()" transformer_reset_calls = true.
Proof. repeat split; vm_compute; reflexivity. Qed.

Theorem C14_every_entry_point_resets_on_every_path :
  entry_reset_transform_insn = "finally" /\ entry_reset_compile_c_stmt = "finally" /\ transform_insn_resets_before_each_part = true.
Proof. repeat split; vm_compute; reflexivity. Qed.

Theorem C14_extension_state_is_reset : forall f, reset_flags_model f = clean.
Proof. exact reset_establishes_clean. Qed.
Print Assumptions C14_extension_state_is_reset.

(* ------------------------------------------------------------------ the counter's ONLY influence is a renaming (proofs/HShift.v)
   For EVERY configuration, every start value n of the hybrid counter (= every compilation history, since the counter is the
   only holder field that survives reset) and every program that does not itself spell an identifier h_tmp<digits>: the whole
   transformer gives the same verdict (same error message) and, when it accepts, the same effect with h_tmp<k> renamed to
   h_tmp<k+n>, the same leftover/dropped facts, and a counter advanced by the same amount.  The side condition is necessary
   (htmp_ident_refuted; replayed on the real compiler: D33); the bound n + #hybrids <= 10^40 is an artefact of the model's
   decimal printer. *)
From RZ.model Require Import Lower.
From RZ.gen Require Import Resources.
From RZ.proofs Require Import HShift.
Theorem C14_counter_shift_is_a_renaming : forall cfg n prog,
  no_htmp_ident prog = true -> (n + hyb_bound prog <= LIM)%N ->
  tlower_info (set_hstart cfg n) prog = rres n (tlower_info (set_hstart cfg 0) prog).
Proof. exact hshift_tlower_info. Qed.
Print Assumptions C14_counter_shift_is_a_renaming.
Theorem C14_history_independent_model : forall h p,
  no_htmp_ident p = true -> (h + hyb_bound p <= LIM)%N ->
  tlower_info (cfg_insn h) p = rres h (tlower_info (cfg_insn 0) p).
Proof. exact C14_history_independent. Qed.
Print Assumptions C14_history_independent_model.
