(* C09 — Compile-time evaluation agrees with run-time evaluation. *)
From Coq Require Import ZArith NArith List Bool String.
From RZ.sem Require Import RzIL CSem Diff.
From RZ.model Require Import Ast Types OpTables Lower Guards.
From RZ.gen Require Import Resources.
From RZ.proofs Require Import Witness.
Import ListNotations.
Local Open Scope string_scope.
Local Open Scope Z_scope.

Definition C09_statement : Prop := faithful_on (fun _ => True).

(* D6: { RdV = -1 < 1U; } folds to IL_TRUE (C: -1 converts to 4294967295, result 0); the boolean
   literal is then wrapped in NON_ZERO: ill-sorted *)
Definition w_D6 : cstmts :=
  SCons (SExpr (EAssign AAssign (EOp (OReg "R" "d")) (EBin BLt (EUn UMinus (EOp (ONum 1 false ""))) (EOp (ONum 1 false "U"))))) SNil.
Theorem C09_refuted_literal_compare : mistranslated w_D6 32.
Proof. right. vm_compute. reflexivity. Qed.
(* D6c: { RddV = 0x100000000; } is typed 32 bit *)
Definition w_D6c : cstmts := SCons (SExpr (EAssign AAssign (EOp (OReg "R" "dd")) (EOp (ONum 4294967296 true "")))) SNil.
Theorem C09_refuted_literal_type : mistranslated w_D6c 32.
Proof. left. vm_compute. reflexivity. Qed.

(* D8: { RdV = RtV; RdV = (1 ? RsV : RtV); } — discarding the dead arm removes the declaration of Rt,
   which the first statement still uses: the emitted body mentions an undeclared C variable *)
Definition w_D8 : cstmts :=
  SCons (SExpr (EAssign AAssign (EOp (OReg "R" "d")) (EOp (OReg "R" "t"))))
 (SCons (SExpr (EAssign AAssign (EOp (OReg "R" "d")) (ECond (EOp (ONum 1 false "")) (EOp (OReg "R" "s")) (EOp (OReg "R" "t"))))) SNil).
Theorem C09_refuted_dead_arm_removes_live_declaration :
  match tlower (cfg_insn 0) w_D8 with OK (e, _) => eff_has_raw "Rt" e = true | Err _ => False end.
Proof. vm_compute. reflexivity. Qed.

Theorem C09_refuted : ~ C09_statement.
Proof. apply (refute _ w_D6c 32 I). exact C09_refuted_literal_type. Qed.
Print Assumptions C09_refuted.

Example C09_repaired_witnesses :
  translated_ok_on (repaired (cfg_insn 0)) w_D6 32 /\ translated_ok_on (repaired (cfg_insn 0)) w_D6c 32.
Proof. split; vm_compute; reflexivity. Qed.

(* literal typing of the repaired model is the C11 table of sem/CSem.v, for ALL values and spellings *)
Theorem C09_literal_typing_repaired : forall v hex suffix,
  option_map (fun t => (vt_sg t, vt_w t)) (c11_literal_vtype v hex suffix) = literal_type v hex suffix.
Proof.
  intros v hex suffix. unfold c11_literal_vtype, literal_type, fits, BV.pow2.
  change (Z.of_N 32 - 1) with 31. change (Z.of_N 64 - 1) with 63.
  change (Z.of_N (32 - 1)) with 31. change (Z.of_N (64 - 1)) with 63.
  change (Z.of_N 32) with 32. change (Z.of_N 64) with 64.
  destruct (String.eqb suffix "") eqn:E0; [destruct hex|].
  3: destruct (String.eqb suffix "U") eqn:E1.
  4: destruct (String.eqb suffix "LL") eqn:E2; [destruct hex|].
  6: destruct (String.eqb suffix "ULL") eqn:E3.
  all: cbn [find fst snd Z.of_N Z.sub Z.add Z.opp Z.pos_sub Pos.pred_double];
    change (Z.of_N (32 - 1)) with 31; change (Z.of_N (64 - 1)) with 63; change (Z.of_N 32) with 32; change (Z.of_N 64) with 64;
    change (Z.pos 32 - 1) with 31; change (Z.pos 64 - 1) with 63;
    repeat match goal with |- context [if (?x <? ?c) then _ else _] => destruct (x <? c) eqn:? end; reflexivity.
Qed.
Print Assumptions C09_literal_typing_repaired.

(* Compile-time evaluation inside expressions is covered by the expression theorem: for EVERY expression of the fragment -
   in particular every literal-only expression the compiler folds, at any depth, and every constant-condition ?: - the lowered
   term (folded or not) evaluates to the value and type C11 gives the unsimplified expression (all repairs on). *)
From RZ.proofs Require Import ExprCorrect.
Theorem C09_folding_agrees_with_evaluation_repaired :
  forall (cfg : config) (rw : regwidth) (IM : string -> bool) (E : cenv) (csub : csubs) xi V e st,
  cfg_fx cfg = all_fixes -> cfg_params cfg = [] -> macs_std (cfg_macros cfg) -> subs_ext (cfg_subs cfg) -> csub_ext csub -> xi_ok xi ->
  lst_ok IM V st -> pfrag rw IM V e ->
  exists pv st', lower_expr cfg e st = OK (IPure pv, st') /\ st_ext st st' /\ lst_ok IM V st' /\
    forall R rem, regs_le (st_regs st') R -> norem rem ->
    forall cs ms, rel IM E V cs ms -> imms_done IM E (st_imms st') cs ms ->
      exists ilv, eval rw ms [] (fin_pure R rem (pv_term pv)) = Some ilv /\ shape_pv pv ilv /\
        forall fuel cs' cv, ceval E csub xi fuel cs e = Some (cs', cv) -> cs' = cs /\ agrees pv cv ilv.
Proof. exact expr_correct_unconditional. Qed.
Print Assumptions C09_folding_agrees_with_evaluation_repaired.

(* the literal typing table of the FAITHFUL model (suffix -> type) is the compiler's: get_value_type_by_c_number executed on the
   suffix spellings on every run (gen/OpTablesGen.v) *)
From RZ.gen Require Import OpTablesGen.
From RZ.proofs Require Import OpTablesProofs.
Theorem C09_literal_suffix_table_is_the_compilers :
  forallb (fun r : string * option (bool * N) =>
             otype_eqb (snd r) (option_map (fun t => (vt_sg t, vt_w t)) (number_vtype (fst r)))) number_type_table = true.
Proof. exact number_type_table_ok. Qed.
Print Assumptions C09_literal_suffix_table_is_the_compilers.
