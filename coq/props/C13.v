(* C13 — Reported instruction attributes are exactly those of the instruction itself.
   Objects: gen/MetaTables.v (REGENERATED from HexagonExtensions.py, RZILTransformer.py, Compiler.py),
   model/Meta.v (which tokens a behaviour sends; tied to the code by the K4 correspondence). *)
From Coq Require Import ZArith NArith List Bool String.
From RZ.model Require Import Ast Meta.
From RZ.gen Require Import MetaTables.
From RZ.proofs Require Import MetaProofs.
Import ListNotations.
Local Open Scope string_scope.

(* every compilation history: the attribute list of p after any sequence of earlier compilations on the
   same extension object equals the attribute list of p compiled first *)
Theorem C13_history_independent : forall (h : list cstmts) (f0 : mflags) (p : cstmts),
  snd (compile_step (run_history f0 h) p) = attrs p.
Proof. exact attrs_history. Qed.
Print Assumptions C13_history_independent.

Theorem C13_reset_clears_everything_reported : forall f, reset_flags_model f = clean.
Proof. exact reset_establishes_clean. Qed.
Print Assumptions C13_reset_clears_everything_reported.

Theorem C13_source_obligations :
  (sends "new_reg" "new_reg" = true /\ sends "explicit_reg" "explicit_reg" = true /\ sends "jump" "jump" = true
   /\ sends "mem_load" "mem_load" = true /\ sends "mem_store" "mem_store" = true
   /\ sends "selection_stmt" "selection_stmt" = true /\ sends "assignment_expr" "pred_write" = true
   /\ alias_new_sends_new_reg = true)
  /\ forallb (fun x => mem x ext_reset_fields) ext_get_meta_reads = true
  /\ mem "preds_written" ext_init_fields = true
  /\ (mem "self.ext.reset_flags()" transformer_reset_calls = true
      /\ transform_insn_resets_before_each_part = true /\ entry_reset_transform_insn = "finally" /\ entry_reset_compile_c_stmt = "finally").
Proof.
  split; [exact relevant_callbacks_send|]. split; [exact get_meta_reads_are_reset|].
  split; [exact in_place_mutated_field_is_per_instance|exact entry_points_reset].
Qed.
Print Assumptions C13_source_obligations.

Theorem C13_only_expected_senders :
  forallb (fun p => forallb (fun tok => negb (mem tok relevant_tokens)
                                         || (String.eqb (fst p) tok)
                                         || (String.eqb (fst p) "assignment_expr" && String.eqb tok "pred_write")) (snd p))
          callback_tokens = true.
Proof. exact only_expected_senders. Qed.

(* non-vacuity / regression: the history of the formerly failing suite member (test_C4_and_and):
   P0 written by an earlier instruction must not show up for { PdV = PsV & PtV & PuV; } *)
Definition p_P0 : cstmts := SCons (SExpr (EAssign AAssign (EOp (OExplicit "P0" false)) (EOp (ONum 1 false "")))) SNil.
Definition p_and_and : cstmts :=
  SCons (SExpr (EAssign AAssign (EOp (OReg "P" "d")) (EBin BAnd (EBin BAnd (EOp (OReg "P" "s")) (EOp (OReg "P" "t"))) (EOp (OReg "P" "u"))))) SNil.
Example C13_C4_and_and_after_P0 : snd (compile_step (run_history clean [p_P0]) p_and_and) = ["HEX_IL_INSN_ATTR_WPRED"].
Proof. vm_compute. reflexivity. Qed.

(* ------------------------------------------------------------------ the structural theorem *)
From RZ.proofs Require Import MetaSpec.
(* for EVERY behaviour (any size, any nesting): each reported flag holds exactly when the property's own
   structural condition holds of the behaviour's text, WRITE_Pn exactly for the explicitly numbered
   predicates it assigns (no duplicates), NONE iff nothing applies *)
Theorem C13_attributes_are_structural : forall p : cstmts,
  let f := meta_ss p clean in let s := spec_of p in
  f_cond f = s_cond s /\ f_new f = s_new s /\ f_memw f = s_memw s /\ f_memr f = s_memr s /\ f_branch f = s_branch s
  /\ f_wpred f = s_wpred s /\ (forall n, In n (f_preds f) <-> s_p s n = true) /\ NoDup (f_preds f).
Proof. exact attrs_spec. Qed.
Print Assumptions C13_attributes_are_structural.
