(* C11 — Emitted text is a well-formed C body with sound companion metadata.
   wf_body (sem/CBody.v) is the decidable statement of "every identifier is declared exactly once and
   before its first use, names are valid C identifiers, SEQN counts match, the last item is the return";
   its consequences for the run of the body are proved in sem/Own.v; the harness evaluates it in Coq on
   every real emitted body (both layouts) and checks the companion record. *)
From Coq Require Import ZArith NArith List Bool String.
From RZ.sem Require Import RzIL CBody Own.
Import ListNotations.
Local Open Scope string_scope.
Local Open Scope list_scope.

Theorem C11_declared_before_use :
  forall b, wf_body b = true -> no_plugin_shadow b ->
  forall pre post x, exec_body b = pre ++ EAlloc x :: post -> forall k, ~ In (k, x) pre.
Proof. exact nothing_before_alloc. Qed.
Print Assumptions C11_declared_before_use.

(* a checker verdict on a concrete ill-formed body: a use of the undeclared variable Rt (the D8 shape) *)
Definition b_D8 : body :=
  mkbody [] [mkdecl DHexOp "Rd_op" (SApp "ISA2REG" [SVar "hi"; SChr "d"; SVar "false"]);
             mkdecl DEffect "op_ASSIGN_2" (SApp "WRITE_REG" [SVar "bundle"; SVar "Rd_op"; SVar "Rt"])]
         (SVar "op_ASSIGN_2").
Example C11_undeclared_use_is_rejected : wf_body b_D8 = false /\ wf_offenders b_D8 = ["undeclared:Rt"].
Proof. split; vm_compute; reflexivity. Qed.
